(** * Preservation of the invariant of LV.Proofs.MsPqInv by the steps that change the auxiliary state:
      the size lock, inc()/dec() of the item counter, filling the reserved cell, emptying the claimed cell,
      the exchange with the top cell, the client-visible events. *)
From Coq Require Import ZArith List String Bool Lia PeanoNat.
From LV Require Import Base.Conc Base.Events Model.MsPq Proofs.MsPqBrc Proofs.MsPqInv.
Import ListNotations.
Local Open Scope string_scope.
Local Open Scope list_scope.

Definition set_hs (b : bool) (P : tv) : tv := mkTv b (hand P) (pstore P) (pclear P) (inop P) (pfail P).
Definition set_hand (h : option item) (P : tv) : tv := mkTv (hs P) h (pstore P) (pclear P) (inop P) (pfail P).
Definition set_pstore (o : option nat) (P : tv) : tv := mkTv (hs P) (hand P) o (pclear P) (inop P) (pfail P).
Definition set_pclear (o : option nat) (P : tv) : tv := mkTv (hs P) (hand P) (pstore P) o (inop P) (pfail P).
Definition set_inop (b : bool) (P : tv) : tv := mkTv (hs P) (hand P) (pstore P) (pclear P) b (pfail P).
Definition set_pfail (b : bool) (P : tv) : tv := mkTv (hs P) (hand P) (pstore P) (pclear P) (inop P) b.

Lemma one_event (tr : list (nat * ev)) t e : tr ++ Conc.tag t [e] = tr ++ [(t, e)].
Proof. reflexivity. Qed.

Lemma invoked_snoc tr e : invoked (tr ++ [e]) = invoked tr ++ inv_items e.
Proof. rewrite invoked_app. cbn. rewrite app_nil_r. reflexivity. Qed.
Lemma given_back_snoc tr e : given_back (tr ++ [e]) = given_back tr ++ back_items e.
Proof. rewrite given_back_app. cbn. rewrite app_nil_r. reflexivity. Qed.
Lemma pend_snoc tr e u : pend (tr ++ [e]) u = pend_step u (pend tr u) e.
Proof. rewrite pend_app. reflexivity. Qed.
Lemma just_snoc tr e u : just (tr ++ [e]) u = just_step u (just tr u) e.
Proof. rewrite just_app. reflexivity. Qed.
Lemma fails_ok_snoc tr e : fails_ok (tr ++ [e]) = fails_ok tr && (negb (is_fail e) || just tr (fst e)).
Proof. rewrite fails_ok_app. cbn. rewrite andb_true_r. reflexivity. Qed.
Lemma full_events_snoc cap tr t e :
  full_events_ok cap tr ->
  (forall args, e = EvCli "g_full" args -> args = [Z.of_nat cap; Z.of_nat cap; Z.of_nat cap]) ->
  full_events_ok cap (tr ++ [(t, e)]).
Proof.
  intros H He u args Hin. apply in_app_or in Hin. destruct Hin as [Hin|[Hin|[]]]; [eapply H; eauto|].
  inversion Hin; subst. apply He. reflexivity.
Qed.

Lemma filter_all {A} (f : A -> bool) l : (forall x, In x l -> f x = true) -> filter f l = l.
Proof.
  induction l as [|x l IH]; intros H; cbn; [reflexivity|]. rewrite (H x (or_introl eq_refl)).
  rewrite IH; [reflexivity|]. intros y Hy. apply H. right. exact Hy.
Qed.

Section Steps.
  Variable cap : nat.
  Hypothesis OK : slots_ok cap = true.
  Notation Inv := (Inv cap).

  Lemma sole_holder g a t u : S_ok g a -> hs (tvs a t) = true -> hs (tvs a u) = true -> u = t.
  Proof. intros [_ S2] Ht Hu. apply S2; assumption. Qed.

  (** *** m_Lock acquired *)
  Lemma Inv_acq0 g a tr t P :
    tvs a t = P -> hs P = false -> slock g = false -> Inv g a tr ->
    Inv (set_lockbit g 0 true) (updv a t (set_hs true P)) tr.
  Proof.
    intros HP Hhs Hfree [IS IT IZ IC IO IH IM IP IFF].
    assert (Nobody : forall u, hs (tvs a u) = true -> False).
    { intros u Hu. destruct IS as [S1 _]. rewrite (S1 u Hu) in Hfree. discriminate. }
    constructor.
    - split.
      + intros u _. reflexivity.
      + intros u u' Hu Hu'. destruct (Nat.eq_dec u t) as [->|N1]; destruct (Nat.eq_dec u' t) as [->|N2]; auto.
        * rewrite tvs_updv_other in Hu' by exact N2. exfalso; eauto.
        * rewrite tvs_updv_other in Hu by exact N1. exfalso; eauto.
        * rewrite tvs_updv_other in Hu by exact N1. exfalso; eauto.
    - eapply (T_ext g); [| |exact IT]; intros i; [apply cellt_set_lockbit|apply cellv_set_lockbit].
    - eapply (Z_ext cap g); [|exact IZ]. intros i. rewrite cellv_set_lockbit. tauto.
    - eapply (C_ext cap g); [|exact IC]. apply ctr_set_lockbit.
    - eapply (O_ext cap g _ a); [apply ctr_set_lockbit| | | | |exact IO].
      + intros i. rewrite cellv_set_lockbit. tauto.
      + apply updv_field. rewrite HP. reflexivity.
      + apply updv_field. rewrite HP. reflexivity.
      + intros u Hu. exfalso; eauto.
    - eapply (H_ext a); [reflexivity| | |exact IH]; apply updv_field; rewrite HP; reflexivity.
    - eapply (M_ext cap g _ a); [|reflexivity|exact IM]. intros x. apply hcount_ext. intros i. apply cellv_set_lockbit.
    - eapply (P_ext a); [|exact IP]. apply updv_field. rewrite HP. reflexivity.
    - eapply (F_ext cap a); [|exact IFF]. apply updv_field. rewrite HP. reflexivity.
  Qed.

  (** *** m_Lock released *)
  Lemma Inv_rel0 g a tr t P :
    tvs a t = P -> hs P = true -> pstore P = None -> pclear P = None -> Inv g a tr ->
    Inv (set_lockbit g 0 false) (updv a t (set_hs false P)) tr.
  Proof.
    intros HP Hhs Hps Hpc [IS IT IZ IC IO IH IM IP IFF].
    assert (Ht : hs (tvs a t) = true) by (rewrite HP; exact Hhs).
    constructor.
    - split.
      + intros u Hu. exfalso. destruct (Nat.eq_dec u t) as [->|N].
        * rewrite tvs_updv_same in Hu. cbn in Hu. discriminate.
        * rewrite tvs_updv_other in Hu by exact N. apply N. eapply sole_holder; eauto.
      + intros u u' Hu Hu'. exfalso. destruct (Nat.eq_dec u t) as [->|N].
        * rewrite tvs_updv_same in Hu. cbn in Hu. discriminate.
        * rewrite tvs_updv_other in Hu by exact N. apply N. eapply sole_holder; eauto.
    - eapply (T_ext g); [| |exact IT]; intros i; [apply cellt_set_lockbit|apply cellv_set_lockbit].
    - eapply (Z_ext cap g); [|exact IZ]. intros i. rewrite cellv_set_lockbit. tauto.
    - eapply (C_ext cap g); [|exact IC]. apply ctr_set_lockbit.
    - destruct IO as (O1 & O2 & O3).
      assert (Hcount : count (set_lockbit g 0 false) = count g) by reflexivity.
      split; [|split].
      + intros j Hj. rewrite Hcount, cellv_set_lockbit. destruct (O1 j Hj) as [K1 K2]. split; intros Hl.
        * destruct (K1 Hl) as [K|[u K]]; [left; exact K|right; exists u].
          destruct (Nat.eq_dec u t) as [->|N]; [rewrite HP, Hps in K; discriminate|rewrite tvs_updv_other by exact N; exact K].
        * destruct (K2 Hl) as [K|[u K]]; [left; exact K|right; exists u].
          destruct (Nat.eq_dec u t) as [->|N]; [rewrite HP, Hpc in K; discriminate|rewrite tvs_updv_other by exact N; exact K].
      + intros u i Hp. destruct (Nat.eq_dec u t) as [->|N].
        * rewrite tvs_updv_same in Hp. cbn in Hp. rewrite Hps in Hp. discriminate.
        * rewrite tvs_updv_other in Hp |- * by exact N. rewrite Hcount, cellv_set_lockbit. apply O2. exact Hp.
      + intros u i Hp. destruct (Nat.eq_dec u t) as [->|N].
        * rewrite tvs_updv_same in Hp. cbn in Hp. rewrite Hpc in Hp. discriminate.
        * rewrite tvs_updv_other in Hp |- * by exact N. rewrite Hcount, cellv_set_lockbit. apply O3. exact Hp.
    - eapply (H_ext a); [reflexivity| | |exact IH]; apply updv_field; rewrite HP; reflexivity.
    - eapply (M_ext cap g _ a); [|reflexivity|exact IM]. intros x. apply hcount_ext. intros i. apply cellv_set_lockbit.
    - eapply (P_ext a); [|exact IP]. apply updv_field. rewrite HP. reflexivity.
    - eapply (F_ext cap a); [|exact IFF]. apply updv_field. rewrite HP. reflexivity.
  Qed.

  Lemma count_st n : Z.to_nat (bc (st n)) = n.
  Proof. rewrite bc_st. apply Nat2Z.id. Qed.

  (** *** inc() under m_Lock: the next slot is reserved *)
  Lemma Inv_inc g a tr t P :
    tvs a t = P -> hs P = true -> pstore P = None -> pclear P = None -> count g < cap -> Inv g a tr ->
    Z.to_nat (fst (brc_inc (ctr g))) = slot (S (count g)) /\
    Inv (set_ctr g (snd (brc_inc (ctr g)))) (updv a t (set_pstore (Some (slot (S (count g)))) P)) tr.
  Proof.
    intros HP Hhs Hps Hpc Hlt [IS IT IZ IC IO IH IM IP IFF].
    assert (Ht : hs (tvs a t) = true) by (rewrite HP; exact Hhs).
    destruct IC as [C1 C2]. set (n := count g) in *.
    assert (Hnew : snd (brc_inc (ctr g)) = st (S n)) by (rewrite C1; reflexivity).
    split; [rewrite C1; reflexivity|].
    assert (Hcount : count (set_ctr g (snd (brc_inc (ctr g)))) = S n).
    { unfold count. cbn [ctr set_ctr]. rewrite Hnew. apply count_st. }
    destruct IO as (O1 & O2 & O3).
    assert (NoPs : forall u i, pstore (tvs a u) = Some i -> False).
    { intros u i Hu. destruct (O2 u i Hu) as (K & _). assert (u = t) by (eapply sole_holder; eauto). subst u.
      rewrite HP, Hps in Hu. discriminate. }
    assert (NoPc : forall u i, pclear (tvs a u) = Some i -> False).
    { intros u i Hu. destruct (O3 u i Hu) as (K & _). assert (u = t) by (eapply sole_holder; eauto). subst u.
      rewrite HP, Hpc in Hu. discriminate. }
    constructor.
    - eapply (S_ext g _ a); [reflexivity| |exact IS]. apply updv_field. rewrite HP. reflexivity.
    - exact IT.
    - exact IZ.
    - split; [rewrite Hcount; exact Hnew|rewrite Hcount; lia].
    - split; [|split].
      + intros j Hj. rewrite Hcount. cbn [cellv set_ctr heap]. fold (cellv g (slot j)). destruct (O1 j Hj) as [K1 K2]. split; intros Hl.
        * destruct (Nat.eq_dec j (S n)) as [->|Nj].
          -- right. exists t. rewrite tvs_updv_same. reflexivity.
          -- destruct (K1 ltac:(lia)) as [K|[u K]]; [left; exact K|exfalso; eauto].
        * destruct (K2 ltac:(lia)) as [K|[u K]]; [left; exact K|exfalso; eauto].
      + intros u i Hp. destruct (Nat.eq_dec u t) as [->|N].
        * rewrite tvs_updv_same in Hp |- *. cbn in Hp. inversion Hp; subst i. cbn [hs set_pstore]. rewrite Hcount.
          split; [exact Hhs|split; [|split; [reflexivity|lia]]].
          destruct (O1 (S n) ltac:(lia)) as [_ K2]. destruct (K2 ltac:(lia)) as [K|[u K]]; [exact K|exfalso; eauto].
        * rewrite tvs_updv_other in Hp by exact N. exfalso; eauto.
      + intros u i Hp. destruct (Nat.eq_dec u t) as [->|N].
        * rewrite tvs_updv_same in Hp. cbn in Hp. rewrite Hpc in Hp. discriminate.
        * rewrite tvs_updv_other in Hp by exact N. exfalso; eauto.
    - eapply (H_ext a); [reflexivity| | |exact IH]; apply updv_field; rewrite HP; reflexivity.
    - eapply (M_ext cap g _ a); [|reflexivity|exact IM]. intros x. reflexivity.
    - eapply (P_ext a); [|exact IP]. apply updv_field. rewrite HP. reflexivity.
    - eapply (F_ext cap a); [|exact IFF]. apply updv_field. rewrite HP. reflexivity.
  Qed.

  (** *** dec() under m_Lock: the bottom cell is claimed *)
  Lemma Inv_dec g a tr t P :
    tvs a t = P -> hs P = true -> pstore P = None -> pclear P = None -> 1 <= count g -> Inv g a tr ->
    Z.to_nat (fst (brc_dec (ctr g))) = slot (count g) /\
    Inv (set_ctr g (snd (brc_dec (ctr g)))) (updv a t (set_pclear (Some (slot (count g))) P)) tr.
  Proof.
    intros HP Hhs Hps Hpc Hge [IS IT IZ IC IO IH IM IP IFF].
    assert (Ht : hs (tvs a t) = true) by (rewrite HP; exact Hhs).
    destruct IC as [C1 C2]. set (n := count g) in *.
    assert (Hn : n = S (pred n)) by lia.
    assert (Hnew : snd (brc_dec (ctr g)) = st (pred n)) by (rewrite C1; apply (dec_st cap OK); lia).
    split; [rewrite C1, Hn; apply slot_dec|].
    assert (Hcount : count (set_ctr g (snd (brc_dec (ctr g)))) = pred n).
    { unfold count. cbn [ctr set_ctr]. rewrite Hnew. apply count_st. }
    destruct IO as (O1 & O2 & O3).
    assert (NoPs : forall u i, pstore (tvs a u) = Some i -> False).
    { intros u i Hu. destruct (O2 u i Hu) as (K & _). assert (u = t) by (eapply sole_holder; eauto). subst u.
      rewrite HP, Hps in Hu. discriminate. }
    assert (NoPc : forall u i, pclear (tvs a u) = Some i -> False).
    { intros u i Hu. destruct (O3 u i Hu) as (K & _). assert (u = t) by (eapply sole_holder; eauto). subst u.
      rewrite HP, Hpc in Hu. discriminate. }
    constructor.
    - eapply (S_ext g _ a); [reflexivity| |exact IS]. apply updv_field. rewrite HP. reflexivity.
    - exact IT.
    - exact IZ.
    - split; [rewrite Hcount; exact Hnew|rewrite Hcount; lia].
    - split; [|split].
      + intros j Hj. rewrite Hcount. cbn [cellv set_ctr heap]. fold (cellv g (slot j)). destruct (O1 j Hj) as [K1 K2]. split; intros Hl.
        * destruct (K1 ltac:(lia)) as [K|[u K]]; [left; exact K|exfalso; eauto].
        * destruct (Nat.eq_dec j n) as [->|Nj].
          -- right. exists t. rewrite tvs_updv_same. reflexivity.
          -- destruct (K2 ltac:(lia)) as [K|[u K]]; [left; exact K|exfalso; eauto].
      + intros u i Hp. destruct (Nat.eq_dec u t) as [->|N].
        * rewrite tvs_updv_same in Hp. cbn in Hp. rewrite Hps in Hp. discriminate.
        * rewrite tvs_updv_other in Hp by exact N. exfalso; eauto.
      + intros u i Hp. destruct (Nat.eq_dec u t) as [->|N].
        * rewrite tvs_updv_same in Hp |- *. cbn in Hp. inversion Hp; subst i. cbn [hs set_pclear]. rewrite Hcount.
          split; [exact Hhs|split; [|split; [rewrite <- Hn; reflexivity|lia]]].
          destruct (O1 n ltac:(lia)) as [K1 _]. destruct (K1 ltac:(lia)) as [K|[u K]]; [exact K|exfalso; eauto].
        * rewrite tvs_updv_other in Hp by exact N. exfalso; eauto.
    - eapply (H_ext a); [reflexivity| | |exact IH]; apply updv_field; rewrite HP; reflexivity.
    - eapply (M_ext cap g _ a); [|reflexivity|exact IM]. intros x. reflexivity.
    - eapply (P_ext a); [|exact IP]. apply updv_field. rewrite HP. reflexivity.
    - eapply (F_ext cap a); [|exact IFF]. apply updv_field. rewrite HP. reflexivity.
  Qed.

  (** *** P3: the reserved cell is filled with the item in hand *)
  Lemma Inv_store g a tr t P i x :
    tvs a t = P -> pstore P = Some i -> pclear P = None -> hand P = Some x -> Inv g a tr ->
    Inv (set_cell g i (TOwner t) (Some x))
        (set_held (updv a t (set_hand None (set_pstore None P))) (hdel t (held a))) tr.
  Proof.
    intros HP Hps Hpc Hhand [IS IT IZ IC IO IH IM IP IFF].
    destruct IO as (O1 & O2 & O3). destruct IC as [C1 C2]. set (n := count g) in *.
    assert (Hps' : pstore (tvs a t) = Some i) by (rewrite HP; exact Hps).
    destruct (O2 t i Hps') as (Ht & Hnone & Hi & Hn1).
    assert (Ri : 1 <= i <= cap) by (rewrite Hi; apply (slot_range cap OK); lia).
    assert (Sole : forall u, hs (tvs a u) = true -> u = t) by (intros u Hu; eapply sole_holder; eauto).
    set (a' := set_held _ _).
    assert (Hoth : forall u, u <> t -> tvs a' u = tvs a u) by (intros u Hu; subst a'; cbn; destruct (Nat.eqb_spec u t); congruence).
    assert (Hme : tvs a' t = set_hand None (set_pstore None P)) by (subst a'; cbn; rewrite Nat.eqb_refl; reflexivity).
    constructor.
    - eapply (S_ext g _ a); [reflexivity| |exact IS]. intros u. destruct (Nat.eq_dec u t) as [->|N]; [rewrite Hme, HP; reflexivity|rewrite Hoth by exact N; reflexivity].
    - intros j. rewrite cellt_set_cell, cellv_set_cell. destruct (Nat.eqb_spec j i); [split; intros; discriminate|apply IT].
    - intros j Hj. rewrite cellv_set_cell. destruct (Nat.eqb_spec j i); [lia|apply IZ; exact Hj].
    - split; assumption.
    - split; [|split].
      + intros j Hj. change (count (set_cell g i (TOwner t) (Some x))) with n. rewrite cellv_set_cell.
        destruct (O1 j Hj) as [K1 K2]. split; intros Hl.
        * destruct (Nat.eqb_spec (slot j) i) as [E|NE]; [left; discriminate|].
          destruct (K1 Hl) as [K|[u K]]; [left; exact K|right; exists u].
          destruct (Nat.eq_dec u t) as [->|N]; [rewrite Hps' in K; congruence|rewrite Hoth by exact N; exact K].
        * destruct (Nat.eqb_spec (slot j) i) as [E|NE].
          { exfalso. rewrite Hi in E. apply (slot_inj cap OK) in E; lia. }
          destruct (K2 Hl) as [K|[u K]]; [left; exact K|right; exists u].
          destruct (Nat.eq_dec u t) as [->|N]; [rewrite HP, Hpc in K; discriminate|rewrite Hoth by exact N; exact K].
      + intros u j Hp. destruct (Nat.eq_dec u t) as [->|N]; [rewrite Hme in Hp; discriminate|].
        rewrite Hoth in Hp by exact N. destruct (O2 u j Hp) as (K & _). exfalso. apply N. apply Sole. exact K.
      + intros u j Hp. destruct (Nat.eq_dec u t) as [->|N]; [rewrite Hme in Hp; cbn in Hp; rewrite Hpc in Hp; discriminate|].
        rewrite Hoth in Hp by exact N. destruct (O3 u j Hp) as (K & _). exfalso. apply N. apply Sole. exact K.
    - destruct IH as (H1 & H2 & H3). split; [|split].
      + apply NoDup_fst_hdel. exact H1.
      + intros u y. change (held a') with (hdel t (held a)). rewrite in_hdel. destruct (Nat.eq_dec u t) as [->|N].
        * rewrite Hme. cbn. split; [discriminate|tauto].
        * rewrite Hoth by exact N. rewrite H2. tauto.
      + intros u. destruct (Nat.eq_dec u t) as [->|N]; [rewrite Hme; cbn; congruence|rewrite Hoth by exact N; apply H3].
    - intros y. change (held a') with (hdel t (held a)).
      pose proof (hcount_set_cell_in cap g i (TOwner t) (Some x) y Ri) as E1. rewrite Hnone in E1.
      destruct IH as (H1 & H2 & _).
      pose proof (cnt_hdel t x (held a) y H1 (proj1 (H2 t x) ltac:(rewrite HP; exact Hhand))) as E2.
      specialize (IM y). cbn [oc] in E1, E2. destruct (item_eq_dec x y); lia.
    - eapply (P_ext a); [|exact IP]. intros u. destruct (Nat.eq_dec u t) as [->|N]; [rewrite Hme, HP; reflexivity|rewrite Hoth by exact N; reflexivity].
    - eapply (F_ext cap a); [|exact IFF]. intros u. destruct (Nat.eq_dec u t) as [->|N]; [rewrite Hme, HP; reflexivity|rewrite Hoth by exact N; reflexivity].
  Qed.

  (** *** Q2 (nBottom = 1) / Q4: the claimed bottom cell is emptied into the hand *)
  Lemma Inv_take g a tr t P i :
    tvs a t = P -> pclear P = Some i -> pstore P = None -> hand P = None -> inop P = true -> Inv g a tr ->
    exists y, cellv g i = Some y /\
      Inv (set_cell g i TEmpty None)
          (set_held (updv a t (set_hand (Some y) (set_pclear None P))) ((t, y) :: held a)) tr.
  Proof.
    intros HP Hpc Hps Hhand Hinop [IS IT IZ IC IO IH IM IP IFF].
    destruct IO as (O1 & O2 & O3). destruct IC as [C1 C2]. set (n := count g) in *.
    assert (Hpc' : pclear (tvs a t) = Some i) by (rewrite HP; exact Hpc).
    destruct (O3 t i Hpc') as (Ht & Hsome & Hi & Hn1).
    destruct (cellv g i) as [y|] eqn:Hy; [|congruence]. exists y. split; [reflexivity|].
    assert (Ri : 1 <= i <= cap) by (rewrite Hi; apply (slot_range cap OK); lia).
    assert (Sole : forall u, hs (tvs a u) = true -> u = t) by (intros u Hu; eapply sole_holder; eauto).
    set (a' := set_held _ _).
    assert (Hoth : forall u, u <> t -> tvs a' u = tvs a u) by (intros u Hu; subst a'; cbn; destruct (Nat.eqb_spec u t); congruence).
    assert (Hme : tvs a' t = set_hand (Some y) (set_pclear None P)) by (subst a'; cbn; rewrite Nat.eqb_refl; reflexivity).
    constructor.
    - eapply (S_ext g _ a); [reflexivity| |exact IS]. intros u. destruct (Nat.eq_dec u t) as [->|N]; [rewrite Hme, HP; reflexivity|rewrite Hoth by exact N; reflexivity].
    - intros j. rewrite cellt_set_cell, cellv_set_cell. destruct (Nat.eqb_spec j i); [tauto|apply IT].
    - intros j Hj. rewrite cellv_set_cell. destruct (Nat.eqb_spec j i); [reflexivity|apply IZ; exact Hj].
    - split; assumption.
    - split; [|split].
      + intros j Hj. change (count (set_cell g i TEmpty None)) with n. rewrite cellv_set_cell.
        destruct (O1 j Hj) as [K1 K2]. split; intros Hl.
        * destruct (Nat.eqb_spec (slot j) i) as [E|NE].
          { exfalso. rewrite Hi in E. apply (slot_inj cap OK) in E; lia. }
          destruct (K1 Hl) as [K|[u K]]; [left; exact K|right; exists u].
          destruct (Nat.eq_dec u t) as [->|N]; [rewrite HP, Hps in K; discriminate|rewrite Hoth by exact N; exact K].
        * destruct (Nat.eqb_spec (slot j) i) as [E|NE]; [left; reflexivity|].
          destruct (K2 Hl) as [K|[u K]]; [left; exact K|right; exists u].
          destruct (Nat.eq_dec u t) as [->|N]; [rewrite Hpc' in K; congruence|rewrite Hoth by exact N; exact K].
      + intros u j Hp. destruct (Nat.eq_dec u t) as [->|N]; [rewrite Hme in Hp; cbn in Hp; rewrite Hps in Hp; discriminate|].
        rewrite Hoth in Hp by exact N. destruct (O2 u j Hp) as (K & _). exfalso. apply N. apply Sole. exact K.
      + intros u j Hp. destruct (Nat.eq_dec u t) as [->|N]; [rewrite Hme in Hp; discriminate|].
        rewrite Hoth in Hp by exact N. destruct (O3 u j Hp) as (K & _). exfalso. apply N. apply Sole. exact K.
    - destruct IH as (H1 & H2 & H3).
      assert (Hnot : ~ In t (map fst (held a))).
      { intros Hin. apply in_map_iff in Hin. destruct Hin as ([u z] & E & Hin). cbn in E. subst u.
        apply H2 in Hin. rewrite HP, Hhand in Hin. discriminate. }
      split; [|split].
      + change (held a') with ((t, y) :: held a). cbn [map fst]. constructor; assumption.
      + intros u z. change (held a') with ((t, y) :: held a). cbn [In]. destruct (Nat.eq_dec u t) as [->|N].
        * rewrite Hme. cbn. split.
          -- intros E. inversion E. left. reflexivity.
          -- intros [E|Hin]; [inversion E; reflexivity|]. exfalso. apply Hnot. apply in_map_iff. exists (t, z). split; [reflexivity|exact Hin].
        * rewrite Hoth by exact N. rewrite H2. split; [tauto|]. intros [E|Hin]; [inversion E; congruence|exact Hin].
      + intros u. destruct (Nat.eq_dec u t) as [->|N]; [rewrite Hme; cbn; intros _; exact Hinop|rewrite Hoth by exact N; apply H3].
    - intros z. change (held a') with ((t, y) :: held a). cbn [map snd count_occ].
      pose proof (hcount_set_cell_in cap g i TEmpty None z Ri) as E1. rewrite Hy in E1. cbn [oc] in E1.
      specialize (IM z). destruct (item_eq_dec y z); lia.
    - eapply (P_ext a); [|exact IP]. intros u. destruct (Nat.eq_dec u t) as [->|N]; [rewrite Hme, HP; reflexivity|rewrite Hoth by exact N; reflexivity].
    - eapply (F_ext cap a); [|exact IFF]. intros u. destruct (Nat.eq_dec u t) as [->|N]; [rewrite Hme, HP; reflexivity|rewrite Hoth by exact N; reflexivity].
  Qed.

  (** *** Q5: the item in hand goes to the (occupied) top cell, the top item into the hand *)
  Lemma Inv_poptop g a tr t P y z :
    tvs a t = P -> hand P = Some y -> cellv g 1 = Some z -> Inv g a tr ->
    Inv (set_cell g 1 TAvail (Some y))
        (set_held (updv a t (set_hand (Some z) P)) ((t, z) :: hdel t (held a))) tr.
  Proof.
    intros HP Hhand Hz [IS IT IZ IC IO IH IM IP IFF].
    assert (R1 : 1 <= 1 <= cap) by (apply (Z_in_range cap g 1 IZ); rewrite Hz; discriminate).
    set (a' := set_held _ _).
    assert (Hoth : forall u, u <> t -> tvs a' u = tvs a u) by (intros u Hu; subst a'; cbn; destruct (Nat.eqb_spec u t); congruence).
    assert (Hme : tvs a' t = set_hand (Some z) P) by (subst a'; cbn; rewrite Nat.eqb_refl; reflexivity).
    assert (Hf : forall {X} (f : tv -> X), f (set_hand (Some z) P) = f P -> forall u, f (tvs a' u) = f (tvs a u)).
    { intros X f E u. destruct (Nat.eq_dec u t) as [->|N]; [rewrite Hme, HP; exact E|rewrite Hoth by exact N; reflexivity]. }
    assert (Hnn : forall j, cellv (set_cell g 1 TAvail (Some y)) j = None <-> cellv g j = None).
    { intros j. rewrite cellv_set_cell. destruct (Nat.eqb_spec j 1); [subst; rewrite Hz; split; discriminate|tauto]. }
    constructor.
    - eapply (S_ext g _ a); [reflexivity| |exact IS]. apply Hf. reflexivity.
    - intros j. rewrite cellt_set_cell, cellv_set_cell. destruct (Nat.eqb_spec j 1); [split; discriminate|apply IT].
    - eapply (Z_ext cap g); [exact Hnn|exact IZ].
    - exact IC.
    - eapply (O_ext cap g _ a); [reflexivity|exact Hnn| | | |exact IO].
      + apply Hf. reflexivity.
      + apply Hf. reflexivity.
      + intros u. rewrite (Hf _ hs eq_refl). tauto.
    - destruct IH as (H1 & H2 & H3). split; [|split].
      + change (held a') with ((t, z) :: hdel t (held a)). cbn [map fst]. constructor; [apply notin_fst_hdel|apply NoDup_fst_hdel; exact H1].
      + intros u w. change (held a') with ((t, z) :: hdel t (held a)). cbn [In]. rewrite in_hdel. destruct (Nat.eq_dec u t) as [->|N].
        * rewrite Hme. cbn. split; [intros E; inversion E; left; reflexivity|intros [E|[E _]]; [inversion E; reflexivity|congruence]].
        * rewrite Hoth by exact N. rewrite H2. split; [tauto|]. intros [E|[_ Hin]]; [inversion E; congruence|exact Hin].
      + intros u. destruct (Nat.eq_dec u t) as [->|N].
        * rewrite Hme. cbn. intros _. specialize (H3 t). rewrite HP in H3. apply H3. rewrite Hhand. discriminate.
        * rewrite Hoth by exact N. apply H3.
    - intros w. change (held a') with ((t, z) :: hdel t (held a)). cbn [map snd count_occ].
      pose proof (hcount_set_cell_in cap g 1 TAvail (Some y) w R1) as E1. rewrite Hz in E1. cbn [oc] in E1.
      destruct IH as (H1 & H2 & _).
      pose proof (cnt_hdel t y (held a) w H1 (proj1 (H2 t y) ltac:(rewrite HP; exact Hhand))) as E2. cbn [oc] in E2.
      specialize (IM w). destruct (item_eq_dec z w); destruct (item_eq_dec y w); lia.
    - eapply (P_ext a); [|exact IP]. apply Hf. reflexivity.
    - eapply (F_ext cap a); [|exact IFF]. apply Hf. reflexivity.
  Qed.

  (** *** client-visible events (and the ghost event of a full heap) *)
  Ltac fields t HP Hme Hoth :=
    let u := fresh "u" in let N := fresh "N" in
    intros u; destruct (Nat.eq_dec u t) as [->|N]; [rewrite Hme, ?HP; reflexivity|rewrite Hoth by exact N; reflexivity].

  (** P1 finds the heap full: every cell 1..cap is occupied at that instant *)
  Lemma Inv_gfull g a tr t P :
    tvs a t = P -> hs P = true -> pstore P = None -> pclear P = None -> (Z.of_nat cap <= bc (ctr g))%Z -> Inv g a tr ->
    Inv g (updv a t (set_pfail true P))
        (tr ++ [(t, EvCli "g_full" [bc (ctr g); Z.of_nat (occupied g cap); Z.of_nat cap])]).
  Proof.
    intros HP Hhs Hps Hpc Hfull [IS IT IZ IC IO IH IM IP IFF].
    assert (Ht : hs (tvs a t) = true) by (rewrite HP; exact Hhs).
    destruct IC as [C1 C2]. destruct IO as (O1 & O2 & O3).
    assert (Hbc : bc (ctr g) = Z.of_nat (count g)) by (rewrite C1 at 1; apply bc_st).
    assert (Hn : count g = cap) by lia.
    assert (Hocc : occupied g cap = cap).
    { unfold occupied. rewrite filter_all; [apply seq_length|]. intros i Hi. apply in_seq in Hi.
      destruct (slot_surj cap OK i ltac:(lia)) as (j & Hj & <-). destruct (O1 j Hj) as [K1 _].
      destruct (K1 ltac:(lia)) as [K|[u K]].
      - fold (cellv g (slot j)). destruct (cellv g (slot j)); [reflexivity|congruence].
      - exfalso. destruct (O2 u _ K) as (Ku & _). assert (u = t) by (eapply sole_holder; eauto). subst u.
        rewrite HP, Hps in K. discriminate. }
    set (e := EvCli "g_full" _).
    assert (Hf : forall {X} (f : tv -> X), f (set_pfail true P) = f P -> forall u, f (tvs (updv a t (set_pfail true P)) u) = f (tvs a u)).
    { intros X f E. apply updv_field. rewrite HP. exact E. }
    constructor.
    - eapply (S_ext g _ a); [reflexivity| |exact IS]. apply Hf. reflexivity.
    - exact IT. - exact IZ. - split; assumption.
    - eapply (O_ext cap g _ a); [reflexivity|tauto| | | |split; [exact O1|split; assumption]].
      + apply Hf. reflexivity. + apply Hf. reflexivity. + intros u. rewrite (Hf _ hs eq_refl). tauto.
    - eapply (H_ext a); [reflexivity| | |exact IH]; apply Hf; reflexivity.
    - intros x. rewrite given_back_snoc, invoked_snoc. cbn [inv_items back_items snd e]. cbn. rewrite !app_nil_r. apply IM.
    - intros u. rewrite (Hf _ inop eq_refl). rewrite pend_snoc. unfold pend_step. subst e. cbn.
      destruct (Nat.eqb t u); apply IP.
    - destruct IFF as (F1 & F2 & F3). split; [|split].
      + apply full_events_snoc; [exact F1|]. intros args E. subst e. inversion E. rewrite Hbc, Hn, Hocc. reflexivity.
      + intros u. rewrite just_snoc. destruct (Nat.eq_dec u t) as [->|N].
        * rewrite tvs_updv_same. unfold just_step. subst e. cbn. rewrite Nat.eqb_refl. reflexivity.
        * rewrite tvs_updv_other by exact N. unfold just_step. subst e. cbn [fst]. destruct (Nat.eqb_spec t u); [congruence|apply F2].
      + rewrite fails_ok_snoc, F3. reflexivity.
  Qed.

  Lemma Inv_inv_push g a tr t P x :
    tvs a t = P -> hand P = None -> inop P = false -> pfail P = false -> Inv g a tr ->
    Inv g (set_held (updv a t (set_inop true (set_hand (Some x) P))) ((t, x) :: held a))
        (tr ++ [(t, EvCli "inv_push" (zitem x))]).
  Proof.
    intros HP Hhand Hinop Hpf [IS IT IZ IC IO IH IM IP IFF].
    set (a' := set_held _ _). destruct x as [p id].
    assert (Hoth : forall u, u <> t -> tvs a' u = tvs a u) by (intros u Hu; subst a'; cbn; destruct (Nat.eqb_spec u t); congruence).
    assert (Hme : tvs a' t = set_inop true (set_hand (Some (p, id)) P)) by (subst a'; cbn; rewrite Nat.eqb_refl; reflexivity).
    constructor.
    - eapply (S_ext g _ a); [reflexivity| |exact IS]. fields t HP Hme Hoth.
    - exact IT. - exact IZ. - exact IC.
    - eapply (O_ext cap g _ a); [reflexivity|tauto| | | |exact IO].
      + fields t HP Hme Hoth. + fields t HP Hme Hoth.
      + intros u. destruct (Nat.eq_dec u t) as [->|N]; [rewrite Hme, HP; tauto|rewrite Hoth by exact N; tauto].
    - destruct IH as (H1 & H2 & H3).
      assert (Hnot : ~ In t (map fst (held a))).
      { intros Hin. apply in_map_iff in Hin. destruct Hin as ([u z] & E & Hin). cbn in E. subst u.
        apply H2 in Hin. rewrite HP, Hhand in Hin. discriminate. }
      split; [|split].
      + change (held a') with ((t, (p, id)) :: held a). cbn [map fst]. constructor; assumption.
      + intros u z. change (held a') with ((t, (p, id)) :: held a). cbn [In]. destruct (Nat.eq_dec u t) as [->|N].
        * rewrite Hme. cbn. split.
          -- intros E. inversion E. left. reflexivity.
          -- intros [E|Hin]; [inversion E; reflexivity|]. exfalso. apply Hnot. apply in_map_iff. exists (t, z). split; [reflexivity|exact Hin].
        * rewrite Hoth by exact N. rewrite H2. split; [tauto|]. intros [E|Hin]; [inversion E; congruence|exact Hin].
      + intros u. destruct (Nat.eq_dec u t) as [->|N]; [rewrite Hme; reflexivity|rewrite Hoth by exact N; apply H3].
    - intros z. change (held a') with ((t, (p, id)) :: held a). rewrite given_back_snoc, invoked_snoc.
      cbn [map snd count_occ]. cbn [inv_items back_items snd zitem fst]. cbn. rewrite app_nil_r, count_occ_app. cbn [count_occ].
      specialize (IM z). destruct (item_eq_dec (p, id) z); lia.
    - intros u. rewrite pend_snoc. destruct (Nat.eq_dec u t) as [->|N].
      + rewrite Hme. unfold pend_step. cbn. rewrite Nat.eqb_refl. reflexivity.
      + rewrite Hoth by exact N. unfold pend_step. cbn [fst]. destruct (Nat.eqb_spec t u); [congruence|apply IP].
    - destruct IFF as (F1 & F2 & F3). split; [|split].
      + apply full_events_snoc; [exact F1|]. intros args E. discriminate.
      + intros u. rewrite just_snoc. destruct (Nat.eq_dec u t) as [->|N].
        * rewrite Hme. unfold just_step. cbn. rewrite Nat.eqb_refl. symmetry. exact Hpf.
        * rewrite Hoth by exact N. unfold just_step. cbn [fst]. destruct (Nat.eqb_spec t u); [congruence|apply F2].
      + rewrite fails_ok_snoc, F3. reflexivity.
  Qed.

  Lemma Inv_inv_pop g a tr t P :
    tvs a t = P -> inop P = false -> pfail P = false -> Inv g a tr ->
    Inv g (updv a t (set_inop true P)) (tr ++ [(t, EvCli "inv_pop" [])]).
  Proof.
    intros HP Hinop Hpf [IS IT IZ IC IO IH IM IP IFF].
    assert (Hf : forall {X} (f : tv -> X), f (set_inop true P) = f P -> forall u, f (tvs (updv a t (set_inop true P)) u) = f (tvs a u)).
    { intros X f E. apply updv_field. rewrite HP. exact E. }
    constructor.
    - eapply (S_ext g _ a); [reflexivity| |exact IS]. apply Hf. reflexivity.
    - exact IT. - exact IZ. - exact IC.
    - eapply (O_ext cap g _ a); [reflexivity|tauto| | | |exact IO].
      + apply Hf. reflexivity. + apply Hf. reflexivity. + intros u. rewrite (Hf _ hs eq_refl). tauto.
    - destruct IH as (H1 & H2 & H3). split; [exact H1|split].
      + intros u z. rewrite (Hf _ hand eq_refl). apply H2.
      + intros u. rewrite (Hf _ hand eq_refl). destruct (Nat.eq_dec u t) as [->|N]; [rewrite tvs_updv_same; reflexivity|rewrite tvs_updv_other by exact N; apply H3].
    - intros z. rewrite given_back_snoc, invoked_snoc. cbn. rewrite !app_nil_r. apply IM.
    - intros u. rewrite pend_snoc. destruct (Nat.eq_dec u t) as [->|N].
      + rewrite tvs_updv_same. unfold pend_step. cbn. rewrite Nat.eqb_refl. reflexivity.
      + rewrite tvs_updv_other by exact N. unfold pend_step. cbn [fst]. destruct (Nat.eqb_spec t u); [congruence|apply IP].
    - destruct IFF as (F1 & F2 & F3). split; [|split].
      + apply full_events_snoc; [exact F1|]. intros args E. discriminate.
      + intros u. rewrite just_snoc. destruct (Nat.eq_dec u t) as [->|N].
        * rewrite tvs_updv_same. unfold just_step. cbn. rewrite Nat.eqb_refl. symmetry. exact Hpf.
        * rewrite tvs_updv_other by exact N. unfold just_step. cbn [fst]. destruct (Nat.eqb_spec t u); [congruence|apply F2].
      + rewrite fails_ok_snoc, F3. reflexivity.
  Qed.

  (** an operation returns: [back] = the item handed back to the client, if any (it must be the one in hand) *)
  Lemma Inv_ret g a tr t P (name : string) (b : Z) (x : item) (back : bool) :
    tvs a t = P -> hs P = false -> pstore P = None -> pclear P = None -> inop P = true ->
    (name = "ret_push" \/ name = "ret_pop") ->
    (if back then hand P = Some x else hand P = None) ->
    back_items (t, EvCli name (b :: zitem x)) = (if back then [x] else []) ->
    (is_fail (t, EvCli name (b :: zitem x)) = true -> pfail P = true) ->
    Inv g a tr ->
    Inv g (set_held (updv a t idle) (hdel t (held a))) (tr ++ [(t, EvCli name (b :: zitem x))]).
  Proof.
    intros HP Hhs Hps Hpc Hinop Hname Hhand Hback Hfail [IS IT IZ IC IO IH IM IP IFF].
    set (a' := set_held _ _). set (e := EvCli name _) in *.
    assert (Hoth : forall u, u <> t -> tvs a' u = tvs a u) by (intros u Hu; subst a'; cbn; destruct (Nat.eqb_spec u t); congruence).
    assert (Hme : tvs a' t = idle) by (subst a'; cbn; rewrite Nat.eqb_refl; reflexivity).
    assert (Hisret : is_ret name = true) by (destruct Hname; subst name; reflexivity).
    assert (Hisinv : is_inv name = false) by (destruct Hname; subst name; reflexivity).
    assert (Hnotfull : String.eqb name "g_full" = false) by (destruct Hname; subst name; reflexivity).
    assert (Hnotinv : inv_items (t, e) = []).
    { subst e. unfold inv_items. cbn [snd]. destruct x as [p id]. cbn [zitem fst snd]. reflexivity. }
    constructor.
    - eapply (S_ext g _ a); [reflexivity| |exact IS].
      intros u. destruct (Nat.eq_dec u t) as [->|N]; [rewrite Hme, HP, Hhs; reflexivity|rewrite Hoth by exact N; reflexivity].
    - exact IT. - exact IZ. - exact IC.
    - eapply (O_ext cap g _ a); [reflexivity|tauto| | | |exact IO].
      + intros u. destruct (Nat.eq_dec u t) as [->|N]; [rewrite Hme, HP, Hps; reflexivity|rewrite Hoth by exact N; reflexivity].
      + intros u. destruct (Nat.eq_dec u t) as [->|N]; [rewrite Hme, HP, Hpc; reflexivity|rewrite Hoth by exact N; reflexivity].
      + intros u. destruct (Nat.eq_dec u t) as [->|N]; [rewrite HP, Hhs; discriminate|rewrite Hoth by exact N; tauto].
    - destruct IH as (H1 & H2 & H3). split; [|split].
      + apply NoDup_fst_hdel. exact H1.
      + intros u z. change (held a') with (hdel t (held a)). rewrite in_hdel. destruct (Nat.eq_dec u t) as [->|N].
        * rewrite Hme. cbn. split; [discriminate|tauto].
        * rewrite Hoth by exact N. rewrite H2. tauto.
      + intros u. destruct (Nat.eq_dec u t) as [->|N]; [rewrite Hme; cbn; congruence|rewrite Hoth by exact N; apply H3].
    - intros z. change (held a') with (hdel t (held a)). rewrite given_back_snoc, invoked_snoc, Hnotinv, Hback, app_nil_r.
      destruct IH as (H1 & H2 & _). specialize (IM z). destruct back.
      + pose proof (cnt_hdel t x (held a) z H1 (proj1 (H2 t x) ltac:(rewrite HP; exact Hhand))) as E2. cbn [oc] in E2.
        rewrite count_occ_app. cbn [count_occ]. destruct (item_eq_dec x z); lia.
      + rewrite app_nil_r. rewrite hdel_none; [exact IM|].
        intros Hin. apply in_map_iff in Hin. destruct Hin as ([u w] & E & Hin). cbn in E. subst u.
        apply H2 in Hin. rewrite HP, Hhand in Hin. discriminate.
    - intros u. rewrite pend_snoc. unfold pend_step. subst e. cbn [fst snd]. rewrite Hisinv, Hisret. destruct (Nat.eqb_spec t u) as [<-|N].
      + rewrite Hme. reflexivity.
      + rewrite Hoth by congruence. apply IP.
    - destruct IFF as (F1 & F2 & F3). split; [|split].
      + apply full_events_snoc; [exact F1|]. intros args E. subst e. inversion E. subst name. discriminate.
      + intros u. rewrite just_snoc. unfold just_step. subst e. cbn [fst snd]. rewrite Hnotfull, Hisinv, Hisret. cbn [orb]. destruct (Nat.eqb_spec t u) as [<-|N].
        * rewrite Hme. reflexivity.
        * rewrite Hoth by congruence. apply F2.
      + rewrite fails_ok_snoc, F3. cbn [fst andb]. destruct (is_fail (t, e)) eqn:Ef; [|reflexivity].
        cbn [negb orb]. rewrite F2, HP. apply Hfail. reflexivity.
  Qed.

  (** *** the initial state *)
  Lemma Inv_init : Inv init (mkA (fun _ => idle) []) [].
  Proof.
    constructor.
    - split; intros; discriminate.
    - intros i. cbn. tauto.
    - intros i _. reflexivity.
    - split; [reflexivity|cbn; lia].
    - split; [|split].
      + intros j Hj. split; intros Hl; [cbn in Hl; lia|left; reflexivity].
      + intros t i H. discriminate.
      + intros t i H. discriminate.
    - split; [constructor|split]; cbn.
      + intros t x. split; [discriminate|tauto].
      + intros t H. congruence.
    - intros x. cbn. unfold hcount, heap_items.
      assert (E : flat_map (fun i => olist (cellv init i)) (seq 1 cap) = []).
      { induction (seq 1 cap); [reflexivity|cbn; exact IHl]. }
      rewrite E. reflexivity.
    - intros t. reflexivity.
    - split; [intros t args []|split; [intros t; reflexivity|reflexivity]].
  Qed.
End Steps.
