(** * DhpConsSOwn: "a scan frees what no guard holds", every schedule up to the begin of the scan, the scan itself without
      interference.  [dhp_scan_begins_own_rinv] (LV.Proofs.DhpConsThm: at "_scanb r" everything the scanning thread retired
      since it attached and that is not disposed is below the cursor of the well-formed retired array of r, for every
      schedule) composed with [scan_run_frees_unguarded] (LV.Proofs.DhpConsDScan: a whole smr::scan run without interference
      from any memory with a well-formed array of r frees every such pointer that no hazard cell holds). *)
From Coq Require Import ZArith NArith List String Bool Lia PeanoNat.
From LV Require Import Base.Conc Base.Events Model.DhpLang Model.Dhp Proofs.DhpBase Proofs.DhpSeq Proofs.DhpSeqThm Proofs.DhpHist
  Proofs.DhpProofsC03.
From LV Require Proofs.DhpConsThm Proofs.DhpConsDestroy Proofs.DhpConsDScan.
Import ListNotations.

Theorem dhp_scan_run_frees_own_unguarded : forall fuel (c : cfg) ths conf,
  4 <= c_RB c -> c_old c = false -> c_oldtail c = false ->
  (Z.of_nat (List.length ths) + 3 < 2147483648)%Z ->
  Forall DhpConsThm.retire_attached ths ->
  Conc.reach (init_cfg fuel c ths) conf ->
  NoDup (flat_map (fun e => retired_ev (snd e)) (Conc.trace conf)) ->
  forall tr0 tr1 t r,
    Conc.trace conf = tr0 ++ (t, ev_att r) :: tr1 ++ [(t, ev_scanb r)] ->
    (forall e, In e tr1 -> fst e = t -> forall r', classify (snd e) <> HAtt r') ->
    ~ In (EvCli "outoffuel" []) (snd (fst (DhpConsDestroy.dexec (Dhp.scan c r) (Conc.shared conf)))) ->
    forall p, In p (flat_map (fun e => if Nat.eqb (fst e) t then retired_ev (snd e) else []) tr1) ->
    ~ In p (disposed_of (Conc.trace conf)) ->
    (forall s, slot_get (Conc.shared conf) s <> p) ->
    In p (flat_map DhpInvB.disposed_ev (snd (fst (DhpConsDestroy.dexec (Dhp.scan c r) (Conc.shared conf))))).
Proof.
  intros fuel c ths conf H4 Ho Ht Hn Hra Hr Hnd tr0 tr1 t r Etr Hna Hno p Hp Hnd' Hsl.
  destruct (DhpConsThm.dhp_scan_begins_own_rinv fuel c ths conf H4 Ho Ht Hn Hra Hr Hnd tr0 tr1 t r Etr Hna p Hp Hnd') as (chain & w & I & Hi).
  exact (DhpConsDScan.scan_run_frees_unguarded c H4 (Conc.shared conf) r chain w I Hno p Hi Hsl).
Qed.
