(** * The hand-written counter of LV.Model.MsPq equals the GENERATED translation of
      cds/details/bit_reverse_counter.h (LV.Gen.Gen_brc, property C26) on every representable state.

    [to_gen] maps the model's record to the generated one.  For every state whose fields fit the C++ types and
    whose high bit is below 63 (so the next level still fits 64 bits):
        Gen_brc.brc_inc fuel (to_gen s) = Some (fst (MsPq.brc_inc s), to_gen (snd (MsPq.brc_inc s)))
        Gen_brc.brc_dec fuel (to_gen s) = Some (fst (MsPq.brc_dec s), to_gen (snd (MsPq.brc_dec s)))
    for every fuel >= 65.  Hence the slot sequence used by the heap model is the one of the translated code,
    and the theorems of C26 about the generated functions apply to it.

    This file depends on coq/Gen/Gen_brc.v, which every run of C26 regenerates from $VERIF_REPO; it is therefore
    NOT part of the obligations of Properties_C11 (a concurrent regeneration must not make C11 flaky):
    checks/C11.py builds it separately and records the outcome in the evidence. *)
From Coq Require Import ZArith List Bool Lia.
From LV Require Import Base.CInt Gen.Gen_brc Proofs.C26_Counter Model.MsPq.
Import ListNotations.
Local Open Scope Z_scope.

Definition to_gen (s : MsPq.brc) : Gen_brc.brc := mk_brc (bc s) (br s) (bh s).

Lemma flip_spec r b :
  0 <= r -> flip r b = if Z.testbit r (Z.of_nat b) then r - 2 ^ Z.of_nat b else r + 2 ^ Z.of_nat b.
Proof.
  intros Hr. unfold flip. rewrite Z.shiftl_1_l. destruct (Z.testbit r (Z.of_nat b)) eqn:E.
  - apply lxor_pow2_set; [lia|exact E].
  - apply lxor_pow2_clear; [lia|exact E].
Qed.

Lemma flip_range r b w : (b < w)%nat -> 0 <= r < 2 ^ Z.of_nat w -> 0 <= flip r b < 2 ^ Z.of_nat w.
Proof.
  intros Hb Hr. unfold flip. rewrite Z.shiftl_1_l. split.
  - apply Z.lxor_nonneg. split; intros _; [apply Z.pow_nonneg; lia|lia].
  - destruct (Z.eq_dec (Z.lxor r (2 ^ Z.of_nat b)) 0) as [->|Hne]; [apply Z.pow_pos_nonneg; lia|].
    apply Z.log2_lt_pow2; [|].
    + assert (0 <= Z.lxor r (2 ^ Z.of_nat b)) by (apply Z.lxor_nonneg; split; intros _; [apply Z.pow_nonneg; lia|lia]). lia.
    + eapply Z.le_lt_trans; [apply Z.log2_lxor; [lia|apply Z.pow_nonneg; lia]|].
      apply Z.max_lub_lt.
      * destruct (Z.eq_dec r 0) as [->|]; [cbn; lia|]. apply Z.log2_lt_pow2; lia.
      * rewrite Z.log2_pow2 by lia. lia.
Qed.

(** the two loops: the generated one returns the bit index at which it stopped (-1 if it ran to the end) *)
Lemma inc_loop_gen (nb : nat) : forall (fuel : nat) r,
  (nb < fuel)%nat -> (nb <= 64)%nat -> 0 <= r < 2 ^ 64 ->
  exists nbit,
    brc_inc_loop1 fuel r (Z.of_nat nb - 1) = Some (snd (inc_loop nb r), nbit) /\
    (nbit <? 0) = negb (fst (inc_loop nb r)) /\ -1 <= nbit < 64 /\ 0 <= snd (inc_loop nb r) < 2 ^ 64.
Proof.
  induction nb as [|b IH]; intros fuel r Hf Hb Hr; (destruct fuel as [|fuel]; [lia|]).
  - cbn [brc_inc_loop1 inc_loop CInt.obind]. change (c_ge (0 - 1) 0) with false. cbv iota. exists (-1). cbn. repeat split; lia.
  - cbn [brc_inc_loop1 inc_loop CInt.obind]. replace (Z.of_nat (S b) - 1) with (Z.of_nat b) by lia.
    unfold c_ge. replace (0 <=? Z.of_nat b) with true by (symmetry; apply Z.leb_le; lia). cbv iota.
    rewrite complement_u64_spec by lia. cbn [CInt.obind].
    pose proof (flip_spec r b ltac:(lia)) as Hfl.
    pose proof (flip_range r b 64 ltac:(lia) Hr) as Hfr.
    destruct (Z.testbit r (Z.of_nat b)) eqn:E; cbn [negb]; rewrite <- Hfl.
    + assert (Hs : ssub i32 (Z.of_nat b) 1 = Some (Z.of_nat b - 1)) by (apply checked_some, i32_small; lia).
      rewrite Hs. cbn [CInt.obind]. apply IH; [lia|lia|exact Hfr].
    + exists (Z.of_nat b). cbn [fst snd negb]. repeat split; try lia; try (apply Z.ltb_ge; lia).
Qed.

Lemma dec_loop_gen (nb : nat) : forall (fuel : nat) r,
  (nb < fuel)%nat -> (nb <= 64)%nat -> 0 <= r < 2 ^ 64 ->
  exists nbit,
    brc_dec_loop1 fuel r (Z.of_nat nb - 1) = Some (snd (dec_loop nb r), nbit) /\
    (nbit <? 0) = negb (fst (dec_loop nb r)) /\ -1 <= nbit < 64 /\ 0 <= snd (dec_loop nb r) < 2 ^ 64.
Proof.
  induction nb as [|b IH]; intros fuel r Hf Hb Hr; (destruct fuel as [|fuel]; [lia|]).
  - cbn [brc_dec_loop1 dec_loop]. change (c_ge (0 - 1) 0) with false. cbv iota. exists (-1). cbn. repeat split; lia.
  - cbn [brc_dec_loop1 dec_loop]. replace (Z.of_nat (S b) - 1) with (Z.of_nat b) by lia.
    unfold c_ge. replace (0 <=? Z.of_nat b) with true by (symmetry; apply Z.leb_le; lia). cbv iota.
    rewrite complement_u64_spec by lia. cbn [CInt.obind].
    pose proof (flip_spec r b ltac:(lia)) as Hfl.
    pose proof (flip_range r b 64 ltac:(lia) Hr) as Hfr.
    destruct (Z.testbit r (Z.of_nat b)) eqn:E; cbn [negb]; rewrite <- Hfl.
    + exists (Z.of_nat b). cbn [fst snd negb]. repeat split; try lia; try (apply Z.ltb_ge; lia).
    + assert (Hs : ssub i32 (Z.of_nat b) 1 = Some (Z.of_nat b - 1)) by (apply checked_some, i32_small; lia).
      rewrite Hs. cbn [CInt.obind]. apply IH; [lia|lia|exact Hfr].
Qed.

Definition representable (s : MsPq.brc) : Prop :=
  0 <= bc s /\ bc s + 1 < 2 ^ 64 /\ 0 <= br s < 2 ^ 64 /\ -1 <= bh s < 63.

Theorem brc_inc_is_generated (fuel : nat) (s : MsPq.brc) :
  (65 <= fuel)%nat -> representable s ->
  Gen_brc.brc_inc fuel (to_gen s) = Some (fst (MsPq.brc_inc s), to_gen (snd (MsPq.brc_inc s))).
Proof.
  intros Hf (Hc0 & Hc & Hr & Hh). unfold Gen_brc.brc_inc, MsPq.brc_inc, to_gen.
  cbn [brc_m_nCounter brc_m_nReversed brc_m_nHighBit].
  assert (Hu : uadd u64 (bc s) 1 = bc s + 1) by (unfold uadd; cbn [ibits u64]; apply Z.mod_small; lia). rewrite Hu.
  assert (Hs1 : ssub i32 (bh s) 1 = Some (bh s - 1)) by (apply checked_some, i32_small; lia). rewrite Hs1. cbn [CInt.obind].
  destruct (inc_loop_gen (Z.to_nat (bh s)) fuel (br s) ltac:(lia) ltac:(lia) Hr) as (nbit & He & Hlt & Hnb & Hrr).
  assert (Hidx : Z.of_nat (Z.to_nat (bh s)) - 1 = bh s - 1 \/ bh s = -1) by lia.
  destruct Hidx as [Hidx|Hm1].
  - rewrite Hidx in He. rewrite He. cbn [CInt.obind]. unfold c_lt. rewrite Hlt.
    destruct (inc_loop (Z.to_nat (bh s)) (br s)) as [[|] r']; cbn [fst snd negb].
    + reflexivity.
    + assert (Hs2 : sadd i32 (bh s) 1 = Some (bh s + 1)) by (apply checked_some, i32_small; lia). rewrite Hs2. reflexivity.
  - (* empty counter: the loop does not run *)
    rewrite Hm1 in *. change (Z.to_nat (-1)) with 0%nat in *. cbn [inc_loop fst snd] in *.
    destruct fuel as [|fuel]; [lia|]. cbn [brc_inc_loop1]. change (c_ge (-1 - 1) 0) with false. cbv iota. cbn [CInt.obind].
    change (c_lt (-1 - 1) 0) with true. cbv iota. change (sadd i32 (-1) 1) with (Some 0). reflexivity.
Qed.

Theorem brc_dec_is_generated (fuel : nat) (s : MsPq.brc) :
  (65 <= fuel)%nat -> 1 <= bc s < 2 ^ 64 -> 0 <= br s < 2 ^ 64 -> 0 <= bh s < 64 ->
  Gen_brc.brc_dec fuel (to_gen s) = Some (fst (MsPq.brc_dec s), to_gen (snd (MsPq.brc_dec s))).
Proof.
  intros Hf Hc Hr Hh. unfold Gen_brc.brc_dec, MsPq.brc_dec, to_gen.
  cbn [brc_m_nCounter brc_m_nReversed brc_m_nHighBit].
  assert (Hu : usub u64 (bc s) 1 = bc s - 1) by (unfold usub; cbn [ibits u64]; apply Z.mod_small; lia). rewrite Hu.
  assert (Hs1 : ssub i32 (bh s) 1 = Some (bh s - 1)) by (apply checked_some, i32_small; lia). rewrite Hs1. cbn [CInt.obind].
  destruct (dec_loop_gen (Z.to_nat (bh s)) fuel (br s) ltac:(lia) ltac:(lia) Hr) as (nbit & He & Hlt & Hnb & Hrr).
  replace (Z.of_nat (Z.to_nat (bh s)) - 1) with (bh s - 1) in He by lia. rewrite He. cbn [CInt.obind]. unfold c_lt. rewrite Hlt.
  destruct (dec_loop (Z.to_nat (bh s)) (br s)) as [[|] r']; cbn [fst snd negb].
  - reflexivity.
  - reflexivity.
Qed.
