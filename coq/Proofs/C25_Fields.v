(** * C25_Fields — bit fields of a number and sequences of cuts (shared by all splitters, part (d)). *)

Require Import ZArith Lia Bool List.
Require Import LV.Base.CInt LV.Proofs.C25_Bits.
Import ListNotations.
Local Open Scope Z_scope.

(** [field w n s c]: the c bits starting at bit s of the w-bit two's complement pattern of n. *)
Definition field (w n s c : Z) : Z := (n mod 2 ^ w) / 2 ^ s mod 2 ^ c.

(** Concatenation of (value, width) fields, first field in the low bits. *)
Fixpoint joinf (l : list (Z * Z)) : Z :=
  match l with [] => 0 | (v, c) :: r => v + 2 ^ c * joinf r end.

Fixpoint zsum (l : list Z) : Z := match l with [] => 0 | a :: r => a + zsum r end.

Lemma field_range w n s c : 0 <= c -> 0 <= field w n s c < 2 ^ c.
Proof. intros. unfold field. apply Z.mod_pos_bound, pow2_pos; lia. Qed.

Lemma field_join w n s c1 c2 : 0 <= s -> 0 <= c1 -> 0 <= c2 ->
  field w n s c1 + 2 ^ c1 * field w n (s + c1) c2 = field w n s (c1 + c2).
Proof.
  intros Hs H1 H2. unfold field. set (N := n mod 2 ^ w).
  assert (0 < 2 ^ s) by (apply pow2_pos; lia). assert (0 < 2 ^ c1) by (apply pow2_pos; lia).
  assert (0 < 2 ^ c2) by (apply pow2_pos; lia).
  rewrite (Z.pow_add_r 2 s c1), <- Z.div_div by lia.
  rewrite (Z.pow_add_r 2 c1 c2) by lia. rewrite Z.rem_mul_r by lia. reflexivity.
Qed.

Lemma field_0 w n s : field w n s 0 = 0.
Proof. unfold field. apply Z.mod_1_r. Qed.

Lemma field_whole w n : 0 <= w -> field w n 0 w = n mod 2 ^ w.
Proof. intros. unfold field. rewrite Z.div_1_r. apply Z.mod_mod. assert (0 < 2 ^ w) by (apply pow2_pos; lia). lia. Qed.

Lemma field_of_shiftr w n s c : 0 <= s -> 0 <= c -> s + c <= w -> Z.shiftr n s mod 2 ^ c = field w n s c.
Proof.
  intros Hs Hc Hw. unfold field. apply Z.bits_inj'. intros i Hi.
  destruct (Z_lt_le_dec i c).
  - rewrite !Z.mod_pow2_bits_low by lia. rewrite <- Z.shiftr_div_pow2 by lia.
    rewrite !Z.shiftr_spec by lia. rewrite Z.mod_pow2_bits_low by lia. reflexivity.
  - rewrite !Z.mod_pow2_bits_high by lia. reflexivity.
Qed.

Lemma field_of_shiftr_mod W w n s c : 0 <= s -> 0 <= c <= W -> s + c <= w ->
  (Z.shiftr n s mod 2 ^ W) mod 2 ^ c = field w n s c.
Proof.
  intros Hs Hc Hw. rewrite <- (field_of_shiftr w n s c) by lia.
  apply Z.bits_inj'. intros i Hi. destruct (Z_lt_le_dec i c).
  - rewrite !Z.mod_pow2_bits_low by lia. reflexivity.
  - rewrite !Z.mod_pow2_bits_high by lia. reflexivity.
Qed.

Lemma land_mask a c : 0 <= c -> Z.land a (2 ^ c - 1) = a mod 2 ^ c.
Proof. intros. replace (2 ^ c - 1) with (Z.ones c) by (rewrite Z.ones_equiv; lia). apply Z.land_ones. lia. Qed.

(** ** Sequences of cuts, for any splitter whose [cut] has the field semantics *)

Section Sequences.
  Variable St : Type.
  Variable w : Z.
  Variable mk : Z -> Z -> St.                 (* state of a splitter over source n at bit position s *)
  Variable okn : Z -> Prop.                   (* admissible sources *)
  Variable legal : Z -> Prop.                 (* admissible widths (is_correct, result type wide enough) *)
  Variable oks : Z -> Prop.                   (* admissible bit positions *)
  Variable cutf : St -> Z -> option (Z * St).
  Variable safef : St -> Z -> option (Z * St).
  Hypothesis Hw : 0 < w.
  Hypothesis Hlegal : forall c, legal c -> 1 <= c.
  Hypothesis Hoks_cut : forall s c, oks s -> legal c -> oks (s + c).

  Fixpoint run (f : St -> Z -> option (Z * St)) (st : St) (cs : list Z) : option (list Z * St) :=
    match cs with
    | [] => Some ([], st)
    | c :: r =>
        match f st c with
        | Some (v, st') => match run f st' r with Some (vs, st'') => Some (v :: vs, st'') | None => None end
        | None => None
        end
    end.

  Hypothesis Hcut : forall n s c, okn n -> oks s -> 0 <= s -> legal c -> s + c <= w ->
    cutf (mk n s) c = Some (field w n s c, mk n (s + c)).

  Lemma zsum_legal_nonneg cs : Forall legal cs -> 0 <= zsum cs.
  Proof. intros H. induction H as [|c r Hc Hr IH]; cbn [zsum]; [lia|]. apply Hlegal in Hc. lia. Qed.

  Lemma run_cut_spec cs : forall n s, okn n -> oks s -> 0 <= s -> Forall legal cs -> s + zsum cs <= w ->
    exists vs, run cutf (mk n s) cs = Some (vs, mk n (s + zsum cs)) /\ length vs = length cs /\
               joinf (combine vs cs) = field w n s (zsum cs).
  Proof.
    induction cs as [|c r IH]; intros n s Hn Hos Hs Hl Hsum.
    - exists []. cbn. rewrite Z.add_0_r, field_0. auto.
    - inversion_clear Hl as [|? ? Hc Hr]. cbn [zsum] in *.
      pose proof (zsum_legal_nonneg r Hr). pose proof (Hlegal c Hc).
      destruct (IH n (s + c) Hn (Hoks_cut s c Hos Hc) ltac:(lia) Hr ltac:(lia)) as [vs [E [L J]]].
      exists (field w n s c :: vs). cbn [run]. rewrite Hcut by (auto; lia). rewrite E.
      split; [f_equal; f_equal; f_equal; lia|]. split; [cbn; lia|].
      cbn [combine joinf]. rewrite J. apply field_join; lia.
  Qed.

  (** cut_sequence_reconstructs: every legal width sequence summing to the width of the source *)
  Theorem cut_sequence_reconstructs_gen n cs : okn n -> oks 0 -> Forall legal cs -> zsum cs = w ->
    exists vs, run cutf (mk n 0) cs = Some (vs, mk n w) /\ length vs = length cs /\
               joinf (combine vs cs) = n mod 2 ^ w.
  Proof.
    intros Hn Ho Hl Hs. destruct (run_cut_spec cs n 0 Hn Ho ltac:(lia) Hl ltac:(lia)) as [vs [E [L J]]].
    exists vs. rewrite Z.add_0_l, Hs in E. rewrite Hs, field_whole in J by lia. auto.
  Qed.

  (** [safe_cut]: the count is clipped to what is left; at end-of-stream it returns 0.  A splitter may treat
      the request for the whole source at once specially ([Hfull]: number_splitter returns the number itself,
      [whole n], because [cut] cannot shift by the full width); [Hsafe] covers every other call. *)
  Variable legal_safe : Z -> Prop.            (* counts accepted by safe_cut *)
  Variable whole : Z -> Z.
  Hypothesis Hlegal_safe : forall c, legal_safe c -> 1 <= c.
  Hypothesis Hoks_min : forall s c, oks s -> legal_safe c -> 0 <= s <= w -> oks (s + Z.min c (w - s)).
  Hypothesis Hsafe : forall n s c, okn n -> oks s -> 0 <= s <= w -> legal_safe c -> 0 < s \/ c < w ->
    safef (mk n s) c = Some (field w n s (Z.min c (w - s)), mk n (s + Z.min c (w - s))).
  Hypothesis Hfull : forall n c, okn n -> oks 0 -> legal_safe c -> w <= c ->
    safef (mk n 0) c = Some (whole n, mk n w).

  Fixpoint clip (s : Z) (cs : list Z) : list Z :=
    match cs with [] => [] | c :: r => Z.min c (w - s) :: clip (s + Z.min c (w - s)) r end.

  Lemma zsum_safe_nonneg cs : Forall legal_safe cs -> 0 <= zsum cs.
  Proof. intros H. induction H as [|c r Hc Hr IH]; cbn [zsum]; [lia|]. apply Hlegal_safe in Hc. lia. Qed.

  Lemma run_safe_spec cs : forall n s, okn n -> oks s -> 0 < s <= w -> Forall legal_safe cs ->
    exists vs, run safef (mk n s) cs = Some (vs, mk n (s + zsum (clip s cs))) /\ length vs = length cs /\
               joinf (combine vs (clip s cs)) = field w n s (zsum (clip s cs)) /\
               s + zsum (clip s cs) = Z.min w (s + zsum cs).
  Proof.
    induction cs as [|c r IH]; intros n s Hn Hos Hs Hl.
    - exists []. cbn [run clip zsum combine joinf length]. rewrite !Z.add_0_r, field_0. repeat split; auto. lia.
    - inversion_clear Hl as [|? ? Hc Hr]. pose proof (Hlegal_safe c Hc). cbn [zsum clip] in *.
      set (c' := Z.min c (w - s)).
      pose proof (zsum_safe_nonneg r Hr).
      destruct (IH n (s + c') Hn (Hoks_min s c Hos Hc ltac:(lia)) ltac:(unfold c'; lia) Hr) as [vs [E [L [J M]]]].
      exists (field w n s c' :: vs). cbn [run]. rewrite Hsafe by (auto; lia). fold c'. rewrite E.
      split; [f_equal; f_equal; f_equal; lia|]. split; [cbn; lia|]. split.
      + cbn [combine joinf]. rewrite J.
        assert (0 <= zsum (clip (s + c') r)) by (unfold c' in *; lia).
        apply field_join; unfold c' in *; lia.
      + unfold c' in *. lia.
  Qed.

  (** From the start: the first call may be the whole-source request. *)
  Lemma run_safe_from_start n cs : okn n -> oks 0 -> Forall legal_safe cs ->
    exists vs, run safef (mk n 0) cs = Some (vs, mk n (Z.min w (zsum cs))) /\ length vs = length cs /\
               (joinf (combine vs (clip 0 cs)) = field w n 0 (Z.min w (zsum cs)) \/
                w <= zsum cs /\ joinf (combine vs (clip 0 cs)) = whole n).
  Proof.
    intros Hn Ho Hl. destruct cs as [|c r].
    - exists []. cbn [run zsum clip combine joinf length]. replace (Z.min w 0) with 0 by lia. rewrite field_0. auto.
    - inversion_clear Hl as [|? ? Hc Hr]. pose proof (Hlegal_safe c Hc). pose proof (zsum_safe_nonneg r Hr).
      assert (C : clip 0 (c :: r) = Z.min c w :: clip (Z.min c w) r).
      { cbn [clip]. f_equal; [f_equal; lia|f_equal; lia]. }
      rewrite C. clear C. cbn [zsum run].
      destruct (Z_lt_le_dec c w) as [Hlt|Hge].
      + replace (Z.min c w) with c by lia.
        pose proof (Hoks_min 0 c Ho Hc ltac:(lia)) as Ho'. rewrite Z.add_0_l, Z.sub_0_r in Ho'.
        replace (Z.min c w) with c in Ho' by lia.
        destruct (run_safe_spec r n c Hn Ho' ltac:(lia) Hr) as [vs [E [L [J M]]]].
        exists (field w n 0 c :: vs). rewrite Hsafe by (auto; lia).
        replace (Z.min c (w - 0)) with c by lia. rewrite Z.add_0_l. rewrite E.
        split; [f_equal; f_equal; f_equal; lia|]. split; [cbn; lia|]. left.
        cbn [combine joinf]. rewrite J.
        assert (0 <= zsum (clip c r)) by lia.
        pose proof (field_join w n 0 c (zsum (clip c r)) ltac:(lia) ltac:(lia) ltac:(lia)) as FJ.
        rewrite Z.add_0_l in FJ. rewrite FJ. f_equal. lia.
      + replace (Z.min c w) with w by lia.
        assert (Ho' : oks w).
        { pose proof (Hoks_min 0 c Ho Hc ltac:(lia)) as Ho'. rewrite Z.add_0_l, Z.sub_0_r in Ho'.
          replace (Z.min c w) with w in Ho' by lia. exact Ho'. }
        destruct (run_safe_spec r n w Hn Ho' ltac:(lia) Hr) as [vs [E [L [J M]]]].
        assert (Z0 : zsum (clip w r) = 0) by lia. rewrite Z0, Z.add_0_r in E. rewrite Z0, field_0 in J.
        exists (whole n :: vs). rewrite Hfull by auto. rewrite E.
        split; [f_equal; f_equal; f_equal; lia|]. split; [cbn; lia|]. right. split; [lia|].
        cbn [combine joinf]. rewrite J. lia.
  Qed.

  Theorem safe_cut_sequence_reconstructs_gen n cs : okn n -> oks 0 -> Forall legal_safe cs -> w <= zsum cs ->
    exists vs, run safef (mk n 0) cs = Some (vs, mk n w) /\ length vs = length cs /\
               (joinf (combine vs (clip 0 cs)) = n mod 2 ^ w \/ joinf (combine vs (clip 0 cs)) = whole n).
  Proof.
    intros Hn Ho Hl Hs. destruct (run_safe_from_start n cs Hn Ho Hl) as [vs [E [L J]]].
    replace (Z.min w (zsum cs)) with w in * by lia.
    exists vs. split; [exact E|]. split; [exact L|].
    destruct J as [J|[_ J]]; [left; rewrite J; apply field_whole; lia|right; exact J].
  Qed.
End Sequences.
