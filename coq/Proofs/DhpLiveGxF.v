(** * DhpLiveGxF: C02, second sentence for DHP -- towards the allocator discipline [cell_disc].  Part X-F: the invariant
      [InvB3] (ownership of the guard blocks over the trace, DhpLiveGxE): the transitions (a block is created /
      taken from the allocator / its next_block_ written / linked; the record's blocks go into limbo at detach and are
      freed one by one; attach), every program of the model, whole threads, and the consequence for every reachable
      trace [dhp_TB]: a guard block that a thread has taken and not linked yet is linked into no attached record and is
      private to that thread -- GIVEN [cell_disc] for the trace (which the next layer establishes). *)
From Coq Require Import ZArith NArith List String Bool Lia PeanoNat.
From LV Require Import Base.Conc Base.Events Model.DhpLang Model.Dhp Proofs.DhpBase Proofs.DhpHist
  Proofs.DhpLangProofs Proofs.DhpInvA Proofs.DhpStepsA Proofs.DhpQuietA Proofs.DhpMainB Proofs.DhpProofsC02 Proofs.DhpLiveA Proofs.DhpLiveB
  Proofs.DhpLiveGcRule Proofs.DhpLiveGcA Proofs.DhpLiveGcB Proofs.DhpLiveGcC Proofs.DhpLiveGcD Proofs.DhpLiveGxA Proofs.DhpLiveGxE.
Import ListNotations.
Local Open Scope string_scope.
Local Open Scope list_scope.

(** ** state changes that leave the next_block_ chains alone *)
Lemma piA_piB g g' : piA g g' -> piB g g'.
Proof. intros (_ & _ & A3 & _ & A5). split; [exact A3|]. intros b. apply (A5 b). Qed.
Lemma piB_trans g1 g2 g3 : piB g1 g2 -> piB g2 g3 -> piB g1 g3.
Proof. intros (A1 & A2) (B1 & B2). split; [congruence|]. intros b. now rewrite B2. Qed.
Lemma piB_upd_rec g r f : piB g (upd_rec g r f). Proof. split; reflexivity. Qed.
Lemma piB_upd_rb g b f : piB g (upd_rb g b f). Proof. split; reflexivity. Qed.
Lemma piB_set_recs g v : piB g (set_recs g v). Proof. split; reflexivity. Qed.
Lemma piB_set_rbs g v : piB g (set_rbs g v). Proof. split; reflexivity. Qed.
Lemma piB_set_tlist g v : piB g (set_tlist g v). Proof. split; reflexivity. Qed.
Lemma piB_set_hp_head g v : piB g (set_hp_head g v). Proof. split; reflexivity. Qed.
Lemma piB_set_rt_head g v : piB g (set_rt_head g v). Proof. split; reflexivity. Qed.
Lemma piB_set_srcs g v : piB g (set_srcs g v). Proof. split; reflexivity. Qed.
Lemma piB_set_oob g v : piB g (set_oob g v). Proof. split; reflexivity. Qed.
Lemma piB_upd_gb g b f : (forall y, gb_nextb (f y) = gb_nextb y) -> piB g (upd_gb g b f).
Proof.
  intros Hf. split; [unfold upd_gb; cbn; apply upd_nth_length|]. intros b'. rewrite ggb_upd_gb_any.
  destruct (Nat.eqb b' b && Nat.ltb b (List.length (gbs g))) eqn:E; [|reflexivity].
  apply andb_true_iff in E. destruct E as (E&_). apply Nat.eqb_eq in E. subst b'. apply Hf.
Qed.
Lemma piB_slot_set g s v : piB g (slot_set g s v).
Proof. destruct s; cbn [slot_set]; [apply piB_upd_rec|apply piB_upd_gb; reflexivity]. Qed.
Lemma piB_snext_set g s v : piB g (snext_set g s v).
Proof. destruct s; cbn [snext_set]; [apply piB_upd_rec|apply piB_upd_gb; reflexivity]. Qed.
Lemma piB_fl_set_head g f v : piB g (fl_set_head g f v). Proof. destruct f; split; reflexivity. Qed.
Lemma piB_fl_set_refs g f n v : piB g (fl_set_refs g f n v).
Proof. destruct f; cbn [fl_set_refs]; [apply piB_upd_gb; reflexivity|apply piB_upd_rb]. Qed.
Lemma piB_fl_set_next g f n v : piB g (fl_set_next g f n v).
Proof. destruct f; cbn [fl_set_next]; [apply piB_upd_gb; reflexivity|apply piB_upd_rb]. Qed.
Lemma piB_rt_push c r p g : piB g (fst (rt_push c r p g)). Proof. apply piA_piB, quietG_rt_push. Qed.
Lemma piB_stage2 c r pl g : piB g (fst (stage2 c r pl g)). Proof. apply piA_piB, quietG_stage2. Qed.
Lemma piB_rt_do_extend c r b g : piB g (fst (rt_do_extend c r b g)). Proof. apply piA_piB, quietG_rt_do_extend. Qed.
Lemma piB_new_rblock c g : piB g (fst (new_rblock c g)). Proof. split; reflexivity. Qed.
Lemma piB_new_rec c g : piB g (fst (new_rec c g)). Proof. split; reflexivity. Qed.
Lemma piB_hp_init c r g : piB g (fst (hp_init c r g)). Proof. apply piB_upd_rec. Qed.

#[export] Hint Resolve piB_refl piB_upd_rec piB_upd_rb piB_set_recs piB_set_rbs piB_set_tlist piB_set_hp_head piB_set_rt_head piB_set_srcs
  piB_set_oob piB_slot_set piB_snext_set piB_fl_set_head piB_fl_set_refs piB_fl_set_next piB_rt_push piB_stage2 piB_rt_do_extend
  piB_new_rblock piB_new_rec piB_hp_init : pbdb.

Notation qBA f := (forall g, piB g (fst (fst (f g))) /\ Forall (fun e => quietB e = true) (snd (f g))).
Ltac qbacc := intros g; cbn; repeat match goal with |- context [if ?b then _ else _] => destruct b; cbn end;
  (split; [auto with pbdb|repeat constructor]).

Lemma b_begin : qBA a_begin. Proof. qbacc. Qed.
Lemma b_ld_tlist : qBA a_ld_tlist. Proof. qbacc. Qed.
Lemma b_st_tlist v : qBA (a_st_tlist v). Proof. qbacc. Qed.
Lemma b_cas_tlist e n : qBA (a_cas_tlist e n). Proof. intros g. unfold a_cas_tlist. destruct (oeqb _ _); cbn; (split; [auto with pbdb|repeat constructor]). Qed.
Lemma b_ld_tid r : qBA (a_ld_tid r). Proof. qbacc. Qed.
Lemma b_st_tid r v : qBA (a_st_tid r v). Proof. qbacc. Qed.
Lemma b_cas_tid r e n : qBA (a_cas_tid r e n). Proof. intros g. unfold a_cas_tid. destruct (Nat.eqb _ _); cbn; (split; [auto with pbdb|repeat constructor]). Qed.
Lemma b_ld_free r : qBA (a_ld_free r). Proof. qbacc. Qed.
Lemma b_st_free r v : qBA (a_st_free r v). Proof. qbacc. Qed.
Lemma b_faa_sync r : qBA (a_faa_sync r). Proof. qbacc. Qed.
Lemma b_ld_ext r : qBA (a_ld_ext r). Proof. qbacc. Qed.
Lemma b_st_ext r v : qBA (a_st_ext r v). Proof. qbacc. Qed.
Lemma b_ld_slot s : qBA (a_ld_slot s). Proof. intros g. destruct s; cbn; (split; [auto with pbdb|repeat constructor]). Qed.
Lemma b_ld_src k : qBA (a_ld_src k). Proof. qbacc. Qed.
Lemma b_st_src k v : qBA (a_st_src k v). Proof. qbacc. Qed.
Lemma b_ld_head f : qBA (a_ld_head f). Proof. intros g. destruct f; cbn; (split; [auto with pbdb|repeat constructor]). Qed.
Lemma b_cas_head f e n : qBA (a_cas_head f e n).
Proof. intros g. unfold a_cas_head. destruct (oeqb _ _); cbn [fst snd]; (split; [auto with pbdb|destruct f; repeat constructor]). Qed.
Lemma b_ld_refs f n : qBA (a_ld_refs f n). Proof. intros g. cbn [a_ld_refs fst snd]. split; [auto with pbdb|destruct f; repeat constructor]. Qed.
Lemma b_st_refs f n v : qBA (a_st_refs f n v). Proof. intros g. cbn [a_st_refs fst snd]. split; [auto with pbdb|destruct f; repeat constructor]. Qed.
Lemma b_cas_refs f n e v : qBA (a_cas_refs f n e v).
Proof. intros g. unfold a_cas_refs. destruct (N.eqb _ _); cbn [fst snd]; (split; [auto with pbdb|destruct f; repeat constructor]). Qed.
Lemma b_faa_refs f n d : qBA (a_faa_refs f n d). Proof. intros g. cbn [a_faa_refs fst snd]. split; [auto with pbdb|destruct f; repeat constructor]. Qed.
Lemma b_fas_refs f n d : qBA (a_fas_refs f n d). Proof. intros g. cbn [a_fas_refs fst snd]. split; [auto with pbdb|destruct f; repeat constructor]. Qed.
Lemma b_ld_flnext f n : qBA (a_ld_flnext f n). Proof. intros g. cbn [a_ld_flnext fst snd]. split; [auto with pbdb|destruct f; repeat constructor]. Qed.
Lemma b_st_flnext f n v : qBA (a_st_flnext f n v). Proof. intros g. cbn [a_st_flnext fst snd]. split; [auto with pbdb|destruct f; repeat constructor]. Qed.
Lemma quietB_slot s v : quietB (ev_slot s v) = true. Proof. unfold quietB. now rewrite classify_slot. Qed.
Lemma b_st_slot s v : qBA (a_st_slot s v).
Proof.
  intros g. unfold a_st_slot. cbn [fst snd]. split; [auto with pbdb|]. unfold acc. cbn [app]. constructor; [reflexivity|].
  destruct (slot_valid g s); [constructor; [apply quietB_slot|constructor]|constructor].
Qed.

#[export] Hint Resolve b_begin b_ld_tlist b_st_tlist b_cas_tlist b_ld_tid b_st_tid b_cas_tid b_ld_free b_st_free b_faa_sync b_ld_ext
  b_st_ext b_ld_slot b_ld_src b_st_src b_ld_head b_cas_head b_ld_refs b_st_refs b_cas_refs b_faa_refs b_fas_refs b_ld_flnext
  b_st_flnext b_st_slot : bdb.

Lemma qB_alloc_rt b : quietB (ev_alloc FRt b) = true. Proof. reflexivity. Qed.
Lemma qB_new_rt b : quietB (ev_new FRt b) = true. Proof. reflexivity. Qed.
Lemma qB_free_rt b : quietB (ev_free FRt b) = true. Proof. reflexivity. Qed.
Lemma qB_rel s : quietB (ev_rel s) = true. Proof. destruct s; reflexivity. Qed.
Lemma qB_own s : quietB (ev_own s) = true. Proof. destruct s; reflexivity. Qed.
Lemma qB_scanb r : quietB (ev_scanb r) = true. Proof. reflexivity. Qed.
Lemma qB_scane r : quietB (ev_scane r) = true. Proof. reflexivity. Qed.
Lemma qB_dispose p : quietB (ev_dispose p) = true. Proof. reflexivity. Qed.
Lemma qB_disposes ps : Forall (fun e => quietB e = true) (map ev_dispose ps).
Proof. induction ps; constructor; auto. Qed.
Lemma qB_cli name args : (name = "op" \/ name = "ret" \/ name = "skip" \/ name = "modelerror" \/ name = "outoffuel") ->
  quietB (EvCli name args) = true.
Proof. intros [-> | [-> | [-> | [-> | ->]]]]; reflexivity. Qed.
#[export] Hint Resolve qB_alloc_rt qB_new_rt qB_free_rt qB_rel qB_own qB_scanb qB_scane qB_dispose qB_disposes : bdb.

Section BProgs.
  Variable c : cfg.
  Notation NeuP := (NeuB c).

  Ltac nb :=
    repeat match goal with
      | |- NeuB _ (ret _) => apply NeuB_ret
      | |- NeuB _ fuel_out => apply NeuB_fuel_out
      | |- NeuB _ (xbind _ _) => apply NeuB_xbind; [|intros]
      | |- NeuB _ (act _) => apply NeuB_act; solve [auto with bdb]
      | |- NeuB _ (emit _) => apply NeuB_emit; solve [auto with bdb | repeat constructor; auto with bdb]
      | |- NeuB _ (loc _) => apply NeuB_loc; let g := fresh "g" in intros g; cbn [fst snd];
          solve [auto with pbdb | repeat match goal with |- context [match ?x with _ => _ end] => destruct x; cbn [fst snd] end; auto with pbdb]
      | |- NeuB _ (if ?b then _ else _) => destruct b
      | |- NeuB _ (match ?o with Some _ => _ | None => _ end) => destruct o
      end.

  Lemma B_add_knowing sp : forall f n head, NeuP (add_knowing sp f n head).
  Proof. induction sp as [|sp IH]; intros f n head; cbn [add_knowing]; nb. apply IH. Qed.
  Lemma B_fl_add sp f n : NeuP (fl_add sp f n).
  Proof. unfold fl_add. nb. apply B_add_knowing. Qed.
  Lemma B_fl_put sp f n : NeuP (fl_put sp f n).
  Proof. unfold fl_put. nb. apply B_fl_add. Qed.
  Lemma B_fl_get_loop sp : forall f head, NeuP (fl_get_loop sp f head).
  Proof.
    induction sp as [|sp IH]; intros f head; destruct head as [h|]; cbn [fl_get_loop]; nb; try apply IH; try apply B_fl_add.
  Qed.
  Lemma B_fl_get sp f : NeuP (fl_get sp f).
  Proof. unfold fl_get. nb. apply B_fl_get_loop. Qed.
  Lemma B_link_guards b : forall n i, NeuP (link_guards b i n).
  Proof. induction n as [|n IH]; intros i; cbn [link_guards]; nb. apply IH. Qed.
  Lemma B_rt_alloc : NeuP (rt_alloc c).
  Proof. unfold rt_alloc. nb; apply B_fl_get. Qed.
  Lemma B_rt_free b : NeuP (rt_free c b).
  Proof. unfold rt_free. nb. apply B_fl_put. Qed.
  Lemma B_rt_init r : NeuP (rt_init c r).
  Proof. unfold rt_init. nb. apply B_rt_alloc. Qed.
  Lemma B_free_rblocks : forall fuel p, NeuP (free_rblocks c fuel p).
  Proof. induction fuel as [|f IH]; intros [b|]; cbn [free_rblocks]; nb; try apply B_rt_free; apply IH. Qed.
  Lemma B_rt_fini r : NeuP (rt_fini c r).
  Proof. unfold rt_fini. nb. apply B_free_rblocks. Qed.
  Lemma B_rt_extend r : NeuP (rt_extend c r).
  Proof. unfold rt_extend. nb. apply B_rt_alloc. Qed.
  Lemma B_copy_hazards mk : forall n i pl, NeuP (copy_hazards mk i n pl).
  Proof. induction n as [|n IH]; intros i pl; cbn [copy_hazards]; nb. apply IH. Qed.
  Lemma B_scan_blocks : forall fuel b pl, NeuP (scan_blocks c fuel b pl).
  Proof. induction fuel as [|f IH]; intros [b|] pl; cbn [scan_blocks]; nb; try apply B_copy_hazards; apply IH. Qed.
  Lemma B_scan_recs : forall fuel node pl, NeuP (scan_recs c fuel node pl).
  Proof.
    induction fuel as [|f IH]; intros [n|] pl; cbn [scan_recs]; nb; try apply B_copy_hazards; try apply B_scan_blocks; apply IH.
  Qed.
  Lemma B_scan r : NeuP (Dhp.scan c r).
  Proof. unfold Dhp.scan. nb; try apply B_scan_recs; try apply B_rt_extend. Qed.
  Lemma B_reuse_recs mytid : forall fuel node, NeuP (reuse_recs fuel mytid node).
  Proof. induction fuel as [|f IH]; intros [h|]; cbn [reuse_recs]; nb; apply IH. Qed.
  Lemma B_push_rec r : forall fuel old, NeuP (push_rec fuel r old).
  Proof. induction fuel as [|f IH]; intros old; cbn [push_rec]; nb; apply IH. Qed.
  Lemma B_alloc_thread_data mytid : NeuP (alloc_thread_data c mytid).
  Proof. unfold alloc_thread_data. nb; try apply B_reuse_recs; try apply B_push_rec; try apply B_rt_init. Qed.
  Lemma B_move_cells me b : forall n i, NeuP (move_cells c me b i n).
  Proof. induction n as [|n IH]; intros i; cbn [move_cells]; nb; try apply B_scan. apply IH. Qed.
  Lemma B_move_blocks me src : forall fuel block, NeuP (move_blocks c fuel me src block).
  Proof. induction fuel as [|f IH]; intros [b|]; cbn [move_blocks]; nb; try apply B_move_cells; apply IH. Qed.
  Lemma B_help_recs me mytid : forall fuel node, NeuP (help_recs c fuel me mytid node).
  Proof.
    induction fuel as [|f IH]; intros [h|]; cbn [help_recs]; nb; try apply IH; try apply B_move_blocks; try apply B_rt_fini.
  Qed.
  Lemma B_help_scan me mytid : NeuP (help_scan c me mytid).
  Proof. unfold help_scan. nb; [apply B_help_recs|apply B_scan]. Qed.
  Lemma B_ftd_go r : forall fuel p,
    NeuP ((fix go (fuel : nat) (p : option nat) : P unit :=
          match p with
          | None => ret tt
          | Some b =>
              match fuel with
              | O => fuel_out
              | Datatypes.S f =>
                  nx <- loc (fun g => (g, rb_next (grb g b))) ;;
                  rt_free c b ;;;
                  loc (fun g => (upd_rec g r (fun x => rs_ret (r_cb x) (r_cc x) (r_head x) (r_tail x) (pred (r_bcount x)) x), tt)) ;;;
                  go f nx
              end
          end) fuel p).
  Proof. induction fuel as [|f IH]; intros [b|]; nb; try apply B_rt_free; apply IH. Qed.
  Lemma B_wait_loop k v : forall fuel, NeuP (wait_loop fuel k v).
  Proof. induction fuel as [|fuel IH]; cbn [wait_loop]; nb. apply IH. Qed.
  Lemma B_clear_slots r : forall n i, NeuP (clear_slots r i n).
  Proof. induction n as [|n IH]; intros i; cbn [clear_slots]; nb. apply IH. Qed.
  Lemma B_protect_loop r s k : forall fuel p, NeuP (protect_loop fuel r s k p).
  Proof. induction fuel as [|fuel IH]; intros p; cbn [protect_loop]; nb. apply IH. Qed.
  Lemma B_hp_gfree r s : NeuP (hp_gfree r s).
  Proof.
    unfold hp_gfree. nb. apply NeuB_loc. intros g. cbn [fst]. eapply piB_trans; [apply piB_snext_set|apply piB_upd_rec].
  Qed.
End BProgs.

(** ** the transitions of the block-ownership invariant *)
Lemma In_remove1 b : forall l x, In x (remove1 b l) -> In x l.
Proof.
  induction l as [|y l IH]; intros x Hx; cbn in *; [exact Hx|]. destruct (Nat.eqb y b); [now right|].
  destruct Hx as [->|Hx]; [now left|right; auto].
Qed.
Lemma NoDup_remove1 b : forall l, NoDup l -> ~ In b (remove1 b l).
Proof.
  induction l as [|y l IH]; intros Hn Hin; cbn in *; [exact Hin|]. inversion Hn; subst.
  destruct (Nat.eqb_spec y b) as [->|N]; [contradiction|]. destruct Hin as [E|Hin]; [congruence|]. now apply IH.
Qed.

Lemma inlim_same x x' : (forall w, xb_lim (x' w) = xb_lim (x w) /\ xb_fr (x' w) = xb_fr (x w)) -> forall w b, inlim x' w b <-> inlim x w b.
Proof. intros He w b. unfold inlim. destruct (He w) as (-> & ->). tauto. Qed.

Lemma latt_same h h' : (forall r, att h' r = att h r) -> (forall r, linked h' r = linked h r) -> forall b, latt h' b <-> latt h b.
Proof.
  intros Ha Hk b. unfold latt. split; intros (r & t & k & kb & A & B); exists r, t, k, kb; [rewrite <- Ha, <- Hk|rewrite Ha, Hk]; auto.
Qed.

Lemma JB_take g st st' x x' h h' t b : JB g st x h ->
  (forall u, gpv st' u = if Nat.eqb u t then Some b else gpv st u) ->
  (forall u, u <> t -> x' u = x u) -> xb_nb (x' t) = None -> xb_lim (x' t) = xb_lim (x t) -> xb_fr (x' t) = xb_fr (x t) ->
  (forall r, att h' r = att h r) -> (forall r, linked h' r = linked h r) ->
  (forall y, In y (freeh h' FHp) -> In y (freeh h FHp)) -> ~ In b (freeh h' FHp) ->
  b < List.length (gbs g) -> ~ latt h b -> (forall u, priv st x u b -> u = t) -> (forall w, ~ inlim x w b) ->
  JB g st' x' h'.
Proof.
  intros [J1 J2 J3] Hp Hx Hn Hl Hfr Ha Hk Hsub Hnb Hlen Hnl Hu Hni.
  assert (Hli : forall w b0, inlim x' w b0 <-> inlim x w b0).
  { apply inlim_same. intros w. destruct (Nat.eq_dec w t) as [->|N]; [auto|rewrite (Hx w N); auto]. }
  pose proof (latt_same h h' Ha Hk) as Hla.
  assert (Hpr : forall u b0, priv st' x' u b0 -> (u = t /\ b0 = b) \/ (u <> t /\ priv st x u b0)).
  { intros u b0 [E|E].
    - rewrite Hp in E. destruct (Nat.eqb_spec u t) as [->|N]; [left; split; congruence|right; split; [exact N|now left]].
    - destruct (Nat.eq_dec u t) as [->|N]; [rewrite Hn in E; discriminate|right; split; [exact N|right; now rewrite <- (Hx u N)]]. }
  constructor.
  - intros u b0 Hu0. destruct (Hpr u b0 Hu0) as [(-> & ->)|(N & Hu1)].
    + split; [exact Hlen|]. split; [exact Hnb|]. split; [now rewrite Hla|]. split.
      * intros u' Hu'. destruct (Hpr u' b Hu') as [(E & _)|(N' & Hu'')]; [exact E|]. now destruct (N' (Hu u' Hu'')).
      * intros w Hw. apply (Hni w). now apply Hli.
    + destruct (J1 u b0 Hu1) as (A1 & A2 & A3 & A4 & A5). split; [exact A1|]. split; [intros Hin; apply A2; auto|].
      split; [now rewrite Hla|]. split.
      * intros u' Hu'. destruct (Hpr u' b0 Hu') as [(E1 & E2)|(N' & Hu'')]; [|now apply A4]. subst u' b0. now destruct (N (Hu u Hu1)).
      * intros w Hw. apply (A5 w). now apply Hli.
  - intros w o lb Hw. assert (Hw' : xb_lim (x w) = Some (o, lb)).
    { destruct (Nat.eq_dec w t) as [->|N]; [now rewrite <- Hl|now rewrite <- (Hx w N)]. }
    destruct (J2 w o lb Hw') as (A1 & A2 & A3). split; [exact A1|]. split; [exact A2|]. intros b0 Hb0. apply A3.
    destruct (Nat.eq_dec w t) as [->|N]; [now rewrite <- Hfr|now rewrite <- (Hx w N)].
  - intros w b0 Hw. apply Hli in Hw. destruct (J3 w b0 Hw) as (A1 & A2 & A3 & A4). split; [exact A1|]. split; [intros Hin; apply A2; auto|].
    split; [intros w' Hw'; apply A3; now apply Hli|]. intros r t0 k kb. rewrite Ha, Hk. apply A4.
Qed.

Lemma ggb_app_old g blk b : b < List.length (gbs g) -> ggb (set_gbs g (gbs g ++ [blk])) b = ggb g b.
Proof. intros L. unfold ggb. cbn. now rewrite app_nth1. Qed.

Lemma JB_newblock c g a1 st x h t blk : JB g st x h -> JA c g a1 h ->
  JB (set_gbs g (gbs g ++ [blk])) st (fnu x t (mkXB (Some (List.length (gbs g))) (xb_lim (x t)) (xb_fr (x t)))) h.
Proof.
  intros [J1 J2 J3] J. set (n := List.length (gbs g)). set (x' := fnu x t _).
  assert (Hli : forall w b0, inlim x' w b0 <-> inlim x w b0).
  { apply inlim_same. intros w. unfold x', fnu. destruct (Nat.eqb_spec w t) as [->|N]; auto. }
  assert (Hlen : List.length (gbs (set_gbs g (gbs g ++ [blk]))) = Datatypes.S n) by (cbn; rewrite app_length; cbn; lia).
  assert (Hpr : forall u b0, priv st x' u b0 -> (u = t /\ b0 = n) \/ priv st x u b0).
  { intros u b0 [E|E]; [right; now left|]. unfold x', fnu in E. destruct (Nat.eqb_spec u t) as [->|N]; [cbn in E; left; split; congruence|right; now right]. }
  assert (Hfresh : ~ In n (freeh h FHp) /\ ~ latt h n /\ (forall u, ~ priv st x u n) /\ (forall w, ~ inlim x w n)).
  { split; [intros Hin; destruct (JA_free _ _ _ _ _ J Hin); unfold n in *; lia|].
    split; [intros Hl; destruct (JA_latt_len _ _ _ _ _ J Hl); unfold n in *; lia|].
    split; [intros u Hu; destruct (J1 u n Hu); unfold n in *; lia|intros w Hw; destruct (J3 w n Hw); unfold n in *; lia]. }
  destruct Hfresh as (F1 & F2 & F3 & F4).
  constructor.
  - intros u b0 Hu0. rewrite Hlen. destruct (Hpr u b0 Hu0) as [(-> & ->)|Hu1].
    + split; [lia|]. split; [exact F1|]. split; [exact F2|]. split.
      * intros u' Hu'. destruct (Hpr u' n Hu') as [(E & _)|Hu'']; [exact E|now destruct (F3 u')].
      * intros w Hw. apply (F4 w). now apply Hli.
    + destruct (J1 u b0 Hu1) as (A1 & A2 & A3 & A4 & A5). split; [unfold n; lia|]. split; [exact A2|]. split; [exact A3|]. split.
      * intros u' Hu'. destruct (Hpr u' b0 Hu') as [(E1 & E2)|Hu'']; [|now apply A4]. subst b0. unfold n in A1. lia.
      * intros w Hw. apply (A5 w). now apply Hli.
  - intros w o lb Hw. assert (Hw' : xb_lim (x w) = Some (o, lb)).
    { unfold x', fnu in Hw. destruct (Nat.eqb_spec w t) as [->|N]; [exact Hw|exact Hw]. }
    destruct (J2 w o lb Hw') as (A1 & A2 & A3). split; [|split; [exact A2|]].
    + eapply bchain_ext; [|exact A1]. intros b0 Hb0. rewrite ggb_app_old; [reflexivity|]. apply (J3 w b0). left; eauto.
    + intros b0 Hb0. apply A3. unfold x', fnu in Hb0. destruct (Nat.eqb_spec w t) as [->|N]; exact Hb0.
  - intros w b0 Hw. apply Hli in Hw. destruct (J3 w b0 Hw) as (A1 & A2 & A3 & A4). rewrite Hlen. split; [unfold n; lia|]. split; [exact A2|].
    split; [intros w' Hw'; apply A3; now apply Hli|exact A4].
Qed.

Lemma JB_nextb g st x h t b e : JB g st x h -> priv st x t b -> JB (upd_gb g b (gs_nextb e)) st x h.
Proof.
  intros [J1 J2 J3] Hp. destruct (J1 t b Hp) as (_ & _ & _ & _ & Hni).
  assert (Hlen : List.length (gbs (upd_gb g b (gs_nextb e))) = List.length (gbs g)) by (unfold upd_gb; cbn; apply upd_nth_length).
  constructor.
  - intros u b0 Hu. rewrite Hlen. apply J1. exact Hu.
  - intros w o lb Hw. destruct (J2 w o lb Hw) as (A1 & A2 & A3). split; [|auto].
    eapply bchain_ext; [|exact A1]. intros b0 Hb0. rewrite ggb_upd_gb_any.
    destruct (Nat.eqb_spec b0 b) as [->|N]; [|reflexivity]. exfalso. apply (Hni w). left; eauto.
  - intros w b0 Hw. rewrite Hlen. apply J3. exact Hw.
Qed.

(** the block just taken is linked into the own record *)
Lemma JB_link g g' st st' x h h' t r b k0 kb : JB g st x h -> piB g g' ->
  gpv st t = Some b -> xb_nb (x t) = None -> att h r = Some (t, k0) ->
  (forall u, gpv st' u = if Nat.eqb u t then None else gpv st u) ->
  (forall r', att h' r' = att h r') ->
  (forall r', linked h' r' = if Nat.eqb r' r then (b, kb) :: linked h r else linked h r') ->
  freeh h' FHp = freeh h FHp -> JB g' st' x h'.
Proof.
  intros [J1 J2 J3] (P1 & P2) Hg Hn Ha Hp Ha' Hk Hf.
  assert (Hpt : priv st x t b) by (now left). destruct (J1 t b Hpt) as (_ & _ & _ & Hu & Hni).
  assert (Hla : forall b0, latt h' b0 -> latt h b0 \/ b0 = b).
  { intros b0 (r' & t' & k & kb' & A & B). rewrite Ha' in A. rewrite Hk in B. destruct (Nat.eqb_spec r' r) as [->|N].
    - destruct B as [E|B]; [right; congruence|left; exists r, t', k, kb'; auto].
    - left. exists r', t', k, kb'. auto. }
  assert (Hpr : forall u b0, priv st' x u b0 -> priv st x u b0 /\ (u = t -> False)).
  { intros u b0 [E|E].
    - rewrite Hp in E. destruct (Nat.eqb_spec u t) as [->|N]; [discriminate|]. split; [now left|exact N].
    - split; [now right|]. intros ->. rewrite Hn in E. discriminate. }
  constructor.
  - intros u b0 Hu0. destruct (Hpr u b0 Hu0) as (Hu1 & Nu). destruct (J1 u b0 Hu1) as (A1 & A2 & A3 & A4 & A5). rewrite P1, Hf.
    split; [exact A1|]. split; [exact A2|]. split.
    + intros Hl. destruct (Hla b0 Hl) as [Hl' | ->]; [contradiction|]. apply Nu. now apply Hu.
    + split; [|exact A5]. intros u' Hu'. apply A4. apply (Hpr u' b0 Hu').
  - intros w o lb Hw. destruct (J2 w o lb Hw) as (A1 & A2 & A3). split; [|auto]. eapply bchain_ext; [|exact A1]. intros; apply P2.
  - intros w b0 Hw. destruct (J3 w b0 Hw) as (A1 & A2 & A3 & A4). rewrite P1, Hf. split; [exact A1|]. split; [exact A2|]. split; [exact A3|].
    intros r' t' k kb'. rewrite Ha', Hk. destruct (Nat.eqb_spec r' r) as [->|N]; [|apply A4].
    intros A [E|B]; [|eapply A4; eauto]. inversion E; subst b0. now destruct (Hni w).
Qed.

(** detach: the blocks of the record go into limbo (at the load of extended_list_) *)
Lemma JB_ldext c g a1 st x h t r k0 : JB g st x h -> JA c g a1 h -> att h r = Some (t, k0) -> xb_fr (x t) = None ->
  JB g st (fnu x t (mkXB (xb_nb (x t)) (Some (r_ext (grec g r), map fst (linked h r))) None)) h.
Proof.
  intros [J1 J2 J3] J Ha Hfr. set (lb := map fst (linked h r)). set (x' := fnu x t _).
  destruct (JA_chain _ _ _ _ _ _ _ J Ha) as (Hc & Hnd).
  assert (Hin : forall b, In b lb -> exists kb, In (b, kb) (linked h r)).
  { intros b Hb. unfold lb in Hb. apply in_map_iff in Hb. destruct Hb as ([b' kb] & E & Hb). cbn in E. subst b'. eauto. }
  assert (Hli : forall w b0, inlim x' w b0 -> inlim x w b0 \/ (w = t /\ In b0 lb)).
  { intros w b0 Hw. unfold inlim, x', fnu in *. destruct (Nat.eqb_spec w t) as [->|N]; [|left; exact Hw]. cbn in Hw.
    destruct Hw as [(o & l0 & E & Hb)|E]; [|discriminate]. inversion E; subst. right. auto. }
  assert (Hpr : forall u b0, priv st x' u b0 <-> priv st x u b0).
  { intros u b0. unfold priv, x', fnu. destruct (Nat.eqb_spec u t) as [->|N]; cbn; tauto. }
  assert (Hown : forall b0, In b0 lb -> forall w, inlim x w b0 -> w = t).
  { intros b0 Hb0 w Hw. destruct (Hin b0 Hb0) as (kb & Hk). destruct (J3 w b0 Hw) as (_ & _ & _ & A4). symmetry. eapply A4; eauto. }
  constructor.
  - intros u b0 Hu. apply Hpr in Hu. destruct (J1 u b0 Hu) as (A1 & A2 & A3 & A4 & A5). split; [exact A1|]. split; [exact A2|]. split; [exact A3|].
    split; [intros u' Hu'; apply A4; now apply Hpr|]. intros w Hw. destruct (Hli w b0 Hw) as [Hw'|(-> & Hb)]; [now apply (A5 w)|].
    apply A3. destruct (Hin b0 Hb) as (kb & Hk). exists r, t, k0, kb. auto.
  - intros w o l0 Hw. unfold x', fnu in Hw. destruct (Nat.eqb_spec w t) as [->|N].
    + cbn in Hw. inversion Hw; subst. split; [exact Hc|]. split; [exact Hnd|]. unfold x', fnu. rewrite Nat.eqb_refl. cbn. discriminate.
    + destruct (J2 w o l0 Hw) as (A1 & A2 & A3). split; [exact A1|]. split; [exact A2|]. unfold x', fnu.
      destruct (Nat.eqb_spec w t); [contradiction|exact A3].
  - intros w b0 Hw. destruct (Hli w b0 Hw) as [Hw'|(-> & Hb)].
    + destruct (J3 w b0 Hw') as (A1 & A2 & A3 & A4). split; [exact A1|]. split; [exact A2|]. split; [|exact A4].
      intros w' Hw''. destruct (Hli w' b0 Hw'') as [Hw3|(-> & Hb)]; [now apply A3|]. symmetry. now apply (Hown b0 Hb w).
    + destruct (Hin b0 Hb) as (kb & Hk). assert (Hl : latt h b0) by (exists r, t, k0, kb; auto).
      destruct (JA_latt_len _ _ _ _ _ J Hl) as (A1 & A2). split; [exact A1|]. split; [exact A2|]. split.
      * intros w' Hw''. destruct (Hli w' b0 Hw'') as [Hw3|(-> & _)]; [now apply (Hown b0 Hb w')|reflexivity].
      * intros r' t' k kb' A B. assert (r = r') by (eapply JA_latt_uniq; eauto). subst r'. congruence.
Qed.

(** events that only make fewer blocks "linked into an attached record" *)
Lemma JB_shrink g st st' x h h' : JB g st x h -> (forall u, gpv st' u = gpv st u) ->
  (forall r t k, att h' r = Some (t, k) -> att h r = Some (t, k) /\ linked h' r = linked h r) ->
  freeh h' FHp = freeh h FHp -> JB g st' x h'.
Proof.
  intros [J1 J2 J3] Hp Ha Hf.
  assert (Hpr : forall u b, priv st' x u b <-> priv st x u b) by (intros u b; unfold priv; now rewrite Hp).
  assert (Hla : forall b, latt h' b -> latt h b).
  { intros b (r & t & k & kb & A & B). destruct (Ha r t k A) as (A' & E). rewrite E in B. exists r, t, k, kb. auto. }
  constructor.
  - intros u b Hu. apply Hpr in Hu. destruct (J1 u b Hu) as (A1 & A2 & A3 & A4 & A5). rewrite Hf. split; [exact A1|]. split; [exact A2|].
    split; [intros Hl; apply A3; now apply Hla|]. split; [intros u' Hu'; apply A4; now apply Hpr|exact A5].
  - exact J2.
  - intros w b Hw. destruct (J3 w b Hw) as (A1 & A2 & A3 & A4). rewrite Hf. split; [exact A1|]. split; [exact A2|]. split; [exact A3|].
    intros r t k kb A B. destruct (Ha r t k A) as (A' & E). rewrite E in B. eapply A4; eauto.
Qed.

(** the head of the limbo chain is read ... *)
Lemma JB_frd g st x h t b lb : JB g st x h -> xb_lim (x t) = Some (Some b, lb) -> xb_fr (x t) = None ->
  exists lb', lb = b :: lb' /\
    JB g st (fnu x t (mkXB (xb_nb (x t)) (Some (gb_nextb (ggb g b), lb')) (Some b))) h.
Proof.
  intros [J1 J2 J3] Hl Hfr. destruct (J2 t _ _ Hl) as (Hc & Hnd & _). destruct lb as [|b0 lb']; cbn in Hc; [discriminate|].
  destruct Hc as (E & Hc). inversion E; subst b0. exists lb'. split; [reflexivity|]. set (x' := fnu x t _).
  assert (Hli : forall w b0, inlim x' w b0 <-> inlim x w b0).
  { intros w b0. unfold inlim, x', fnu. destruct (Nat.eqb_spec w t) as [->|N]; [|tauto]. cbn. rewrite Hl, Hfr. split.
    - intros [(o & l0 & E0 & Hb)|E0]; left; exists (Some b), (b :: lb'); split; auto; [inversion E0; subst; now right|inversion E0; now left].
    - intros [(o & l0 & E0 & Hb)|E0]; [|discriminate]. inversion E0; subst. destruct Hb as [->|Hb]; [now right|left; eauto]. }
  assert (Hpr : forall u b0, priv st x' u b0 <-> priv st x u b0).
  { intros u b0. unfold priv, x', fnu. destruct (Nat.eqb_spec u t) as [->|N]; cbn; tauto. }
  inversion Hnd; subst.
  constructor.
  - intros u b0 Hu. apply Hpr in Hu. destruct (J1 u b0 Hu) as (A1 & A2 & A3 & A4 & A5). repeat split; auto.
    + intros u' Hu'. apply A4. now apply Hpr.
    + intros w Hw. apply (A5 w). now apply Hli.
  - intros w o l0 Hw. unfold x', fnu in Hw |- *. destruct (Nat.eqb_spec w t) as [->|N].
    + cbn in Hw |- *. inversion Hw; subst. split; [exact Hc|]. split; [assumption|]. intros b0 E0. inversion E0; subst. assumption.
    + apply J2. exact Hw.
  - intros w b0 Hw. apply Hli in Hw. destruct (J3 w b0 Hw) as (A1 & A2 & A3 & A4). repeat split; auto.
    intros w' Hw'. apply A3. now apply Hli.
Qed.

(** ... and the block is given back *)
Lemma JB_free g st st' x h h' t b : JB g st x h -> xb_fr (x t) = Some b -> (forall u, gpv st' u = gpv st u) ->
  (forall r, att h' r = att h r) -> (forall r, linked h' r = linked h r) -> freeh h' FHp = b :: freeh h FHp ->
  JB g st' (fnu x t (mkXB (xb_nb (x t)) (xb_lim (x t)) None)) h'.
Proof.
  intros [J1 J2 J3] Hfr Hp Ha Hk Hf. set (x' := fnu x t _).
  assert (Hb : inlim x t b) by (now right).
  assert (Hli : forall w b0, inlim x' w b0 -> inlim x w b0 /\ b0 <> b).
  { intros w b0 Hw. assert (Hw' : inlim x w b0).
    { unfold inlim, x', fnu in *. destruct (Nat.eqb_spec w t) as [->|N]; [|exact Hw]. cbn in Hw. destruct Hw as [Hw|E]; [now left|discriminate]. }
    split; [exact Hw'|]. intros ->. destruct (J3 w b Hw') as (_ & _ & A3 & _). assert (w = t) by (symmetry; now apply A3). subst w.
    unfold inlim, x', fnu in Hw. rewrite Nat.eqb_refl in Hw. cbn in Hw. destruct Hw as [(o & l0 & E & Hin)|E]; [|discriminate].
    destruct (J2 t o l0 E) as (_ & _ & A). now apply (A b). }
  assert (Hpr : forall u b0, priv st' x' u b0 <-> priv st x u b0).
  { intros u b0. unfold priv, x', fnu. rewrite Hp. destruct (Nat.eqb_spec u t) as [->|N]; cbn; tauto. }
  pose proof (latt_same h h' Ha Hk) as Hla.
  constructor.
  - intros u b0 Hu. apply Hpr in Hu. destruct (J1 u b0 Hu) as (A1 & A2 & A3 & A4 & A5). rewrite Hf. split; [exact A1|]. split.
    + intros [E|Hin]; [subst b0; now apply (A5 t)|contradiction].
    + split; [now rewrite Hla|]. split; [intros u' Hu'; apply A4; now apply Hpr|]. intros w Hw. apply (A5 w). apply (Hli w b0 Hw).
  - intros w o l0 Hw. assert (Hw' : xb_lim (x w) = Some (o, l0)).
    { unfold x', fnu in Hw. destruct (Nat.eqb_spec w t) as [->|N]; exact Hw. }
    destruct (J2 w o l0 Hw') as (A1 & A2 & A3). split; [exact A1|]. split; [exact A2|]. intros b0 E. unfold x', fnu in E.
    destruct (Nat.eqb_spec w t) as [->|N]; [discriminate|now apply A3].
  - intros w b0 Hw. destruct (Hli w b0 Hw) as (Hw' & Nb). destruct (J3 w b0 Hw') as (A1 & A2 & A3 & A4). rewrite Hf. split; [exact A1|]. split.
    + intros [E|Hin]; [congruence|contradiction].
    + split; [intros w' Hw''; apply A3; apply (Hli w' b0 Hw'')|]. intros r t0 k kb. rewrite Ha, Hk. apply A4.
Qed.

(** attach: the record was attached to nobody and has no blocks *)
Lemma JB_att g st st' x h h' t r n : JB g st x h -> att h r = None -> linked h r = [] -> (forall u, gpv st' u = gpv st u) ->
  (forall r', att h' r' = if Nat.eqb r' r then Some (t, n) else att h r') ->
  (forall r', linked h' r' = if Nat.eqb r' r then [] else linked h r') -> freeh h' FHp = freeh h FHp -> JB g st' x h'.
Proof.
  intros [J1 J2 J3] Ha Hl Hp Ha' Hk Hf.
  assert (Hpr : forall u b, priv st' x u b <-> priv st x u b) by (intros u b; unfold priv; now rewrite Hp).
  assert (Hla : forall r' t' k kb b, att h' r' = Some (t', k) -> In (b, kb) (linked h' r') -> att h r' = Some (t', k) /\ In (b, kb) (linked h r')).
  { intros r' t' k kb b A B. rewrite Ha' in A. rewrite Hk in B. destruct (Nat.eqb_spec r' r) as [->|N]; [destruct B|auto]. }
  constructor.
  - intros u b Hu. apply Hpr in Hu. destruct (J1 u b Hu) as (A1 & A2 & A3 & A4 & A5). rewrite Hf. split; [exact A1|]. split; [exact A2|]. split.
    + intros (r' & t' & k & kb & A & B). destruct (Hla _ _ _ _ _ A B) as (A' & B'). apply A3. exists r', t', k, kb. auto.
    + split; [intros u' Hu'; apply A4; now apply Hpr|exact A5].
  - exact J2.
  - intros w b Hw. destruct (J3 w b Hw) as (A1 & A2 & A3 & A4). rewrite Hf. split; [exact A1|]. split; [exact A2|]. split; [exact A3|].
    intros r' t' k kb A B. destruct (Hla _ _ _ _ _ A B) as (A' & B'). eapply A4; eauto.
Qed.

(** ** one step of the two summaries for the events that matter *)
Lemma gpv_GPv st t e b : gcls e = GPv b -> forall u, gpv (gstep st (t, e)) u = if Nat.eqb u t then Some b else gpv st u.
Proof. intros E u. unfold gstep. cbn [fst snd]. rewrite E. reflexivity. Qed.
Lemma hstep_alloc_hp h t b : flbad h = false -> flbad (hstep h (t, ev_alloc FHp b)) = false ->
  In b (freeh h FHp) /\ freeh (hstep h (t, ev_alloc FHp b)) FHp = remove1 b (freeh h FHp) /\
  (forall r, att (hstep h (t, ev_alloc FHp b)) r = att h r) /\ (forall r, linked (hstep h (t, ev_alloc FHp b)) r = linked h r).
Proof.
  intros F0 F1. rewrite hstep_alloc in *. destruct (existsb (Nat.eqb b) (freeh h FHp)) eqn:Ex; [|cbn in F1; discriminate].
  apply existsb_exists in Ex. destruct Ex as (y & Hy & E). apply Nat.eqb_eq in E. subst y. cbn. auto.
Qed.

Section BOps.
  Variable c : cfg.
  Notation rdb := (rdsafe (InvAG c) viewB3 (InvB3 c)).
  Notation I1G := (I1 (InvAG c)).

  Lemma InvB3_step g g' a tr t es xt : InvB3 c g a tr -> I1G g tr -> I1G g' (tr ++ Conc.tag t es) ->
    (forall a1 a1', flbad (hist (tr ++ Conc.tag t es)) = false -> flbad (hist tr) = false ->
       JB g (gfold tr) (ab_x a) (hist tr) -> JA c g a1 (hist tr) -> K c (gfold tr) (hist tr) ->
       JA c g' a1' (hist (tr ++ Conc.tag t es)) -> TPropG (tr ++ Conc.tag t es) ->
       JB g' (gfold (tr ++ Conc.tag t es)) (fnu (ab_x a) t xt) (hist (tr ++ Conc.tag t es))) ->
    InvB3 c g' (setx a t es xt) (tr ++ Conc.tag t es).
  Proof.
    intros Hi Hb Ha Hn. apply (InvB3_intro c g); [exact Hi|]. intros Hf Hd F D J.
    destruct (I1_open c g tr Hb F D) as (a1 & J1 & _ & HK). destruct (I1_open c g' _ Ha Hf Hd) as (a1' & J1' & T' & _).
    eapply Hn; eauto.
  Qed.

  Lemma InvB3_loc g g' a tr t xt : InvB3 c g a tr -> I1G g tr ->
    (forall a1, flbad (hist tr) = false -> JB g (gfold tr) (ab_x a) (hist tr) -> JA c g a1 (hist tr) -> K c (gfold tr) (hist tr) ->
       JB g' (gfold tr) (fnu (ab_x a) t xt) (hist tr)) ->
    InvB3 c g' (mkAB (ab_g a) (fnu (ab_x a) t xt)) tr.
  Proof.
    intros (E & H) Hb Hn. split; [exact E|]. intros F D. cbn [ab_x]. destruct (I1_open c g tr Hb F D) as (a1 & J1 & _ & HK). eapply Hn; eauto.
  Qed.

  (** a block is taken from hp_allocator *)
  Lemma rB_alloc {R} t b (k : @dprog G ev R) l Q :
    (forall l', w_tl (fst l') = w_tl (fst l) -> w_pv (fst l') = Some b ->
                snd l' = mkXB None (xb_lim (snd l)) (xb_fr (snd l)) -> rdb t k l' Q) ->
    rdb t (DEmit [ev_alloc FHp b] k) l Q.
  Proof.
    intros Hk. apply (rdb_emit c t _ k l Q (mkXB None (xb_lim (snd l)) (xb_fr (snd l)))). intros g a tr Hi Hv Hb Ha.
    assert (Ex : snd l = ab_x a t) by (rewrite <- Hv; reflexivity). split.
    - apply (InvB3_step g); auto. intros a1 a1' Hf F J J1 HK _ _. cbn [Conc.tag map] in *. rewrite gfold_snoc, hist_snoc in *.
      destruct (hstep_alloc_hp _ _ _ F Hf) as (Hin & Hfr & Hat & Hli). destruct (JA_free _ _ _ _ _ J1 Hin) as (Hnl & Hlen).
      eapply (JB_take g _ _ _ _ _ _ t b J); try (rewrite Ex; reflexivity).
      + apply gpv_GPv. apply gcls_alloc_hp.
      + intros u N. now rewrite fnu_other.
      + now rewrite fnu_same.
      + rewrite fnu_same. cbn. now rewrite Ex.
      + rewrite fnu_same. cbn. now rewrite Ex.
      + exact Hat. + exact Hli.
      + intros y. rewrite Hfr. apply In_remove1.
      + rewrite Hfr. apply NoDup_remove1. apply (ja_free _ _ _ _ J1).
      + exact Hlen. + exact Hnl.
      + intros u Hu. destruct (jb_priv _ _ _ _ J u b Hu) as (_ & X & _). contradiction.
      + intros w Hw. destruct (jb_limb _ _ _ _ J w b Hw) as (_ & X & _). contradiction.
    - apply Hk; unfold viewB3, setx; cbn [fst snd Conc.tag map fold_left ab_g ab_x].
      + unfold gstep. cbn [fst snd]. rewrite gcls_alloc_hp. cbn. rewrite <- Hv. reflexivity.
      + unfold gstep. cbn [fst snd]. rewrite gcls_alloc_hp. cbn. apply fnu_same.
      + apply fnu_same.
  Qed.

  (** a block is created: new_gblock, then the "_new" event *)
  Lemma rB_newblock {R} t (k : nat -> @dprog G ev R) l Q :
    (forall nb l', fst l' = fst l -> snd l' = mkXB (Some nb) (xb_lim (snd l)) (xb_fr (snd l)) -> rdb t (k nb) l' Q) ->
    rdb t (DLoc (new_gblock c) k) l Q.
  Proof.
    intros Hk. apply (rdb_loc c t _ k l Q (fun g => mkXB (Some (List.length (gbs g))) (xb_lim (snd l)) (xb_fr (snd l)))).
    intros g a tr Hi Hv Hb _. assert (Ex : snd l = ab_x a t) by (rewrite <- Hv; reflexivity). split.
    - apply (InvB3_loc g); auto. intros a1 F J J1 HK. rewrite Ex. cbn [new_gblock fst]. eapply JB_newblock; eauto.
    - cbn [new_gblock snd]. apply Hk; [rewrite <- Hv; reflexivity|reflexivity].
  Qed.
  Lemma rB_new {R} t nb (k : @dprog G ev R) l Q : xb_nb (snd l) = Some nb ->
    (forall l', w_tl (fst l') = w_tl (fst l) -> w_pv (fst l') = Some nb ->
                snd l' = mkXB None (xb_lim (snd l)) (xb_fr (snd l)) -> rdb t k l' Q) ->
    rdb t (DEmit [ev_new FHp nb] k) l Q.
  Proof.
    intros Hnb Hk. apply (rdb_emit c t _ k l Q (mkXB None (xb_lim (snd l)) (xb_fr (snd l)))). intros g a tr Hi Hv Hb Ha.
    assert (Ex : snd l = ab_x a t) by (rewrite <- Hv; reflexivity). split.
    - apply (InvB3_step g); auto. intros a1 a1' Hf F J J1 HK _ _. cbn [Conc.tag map] in *. rewrite gfold_snoc, hist_snoc, hstep_new in *.
      assert (Hp : priv (gfold tr) (ab_x a) t nb) by (right; now rewrite <- Ex).
      destruct (jb_priv _ _ _ _ J t nb Hp) as (A1 & A2 & A3 & A4 & A5).
      eapply (JB_take g _ _ _ _ _ _ t nb J); try (rewrite Ex; reflexivity); auto.
      + apply gpv_GPv. apply gcls_new_hp.
      + intros u N. now rewrite fnu_other.
      + now rewrite fnu_same.
      + rewrite fnu_same. cbn. now rewrite Ex.
      + rewrite fnu_same. cbn. now rewrite Ex.
    - apply Hk; unfold viewB3, setx; cbn [fst snd Conc.tag map fold_left ab_g ab_x].
      + unfold gstep. cbn [fst snd]. rewrite gcls_new_hp. cbn. rewrite <- Hv. reflexivity.
      + unfold gstep. cbn [fst snd]. rewrite gcls_new_hp. cbn. apply fnu_same.
      + apply fnu_same.
  Qed.

  Definition Qalloc (l : VG * XB) : option nat -> VG * XB -> Prop := fun o l' =>
    match o with
    | Some b => w_tl (fst l') = w_tl (fst l) /\ w_pv (fst l') = Some b /\ snd l' = mkXB None (xb_lim (snd l)) (xb_fr (snd l))
    | None => True
    end.

  Lemma S_hp_allocB t l : rdb t (hp_alloc c) l (Qalloc l).
  Proof.
    unfold hp_alloc. apply rdb_neu_seq; [apply B_fl_get| |intros; exact I]. intros o l1 (R1 & R2 & R3).
    assert (Hrest : forall b l2, w_tl (fst l2) = w_tl (fst l) -> w_pv (fst l2) = Some b -> snd l2 = mkXB None (xb_lim (snd l)) (xb_fr (snd l)) ->
              rdb t (link_guards b 0 (c_GB c - 1) ;;; loc (fun g => (snext_set g (GE b (c_GB c - 1)) None, tt)) ;;;
                     act (a_st_slot (GE b (c_GB c - 1)) 0) ;;; ret b) l2 (Qalloc l)).
    { intros b l2 P1 P2 P3. apply rdb_neu_seq; [apply B_link_guards| |intros; exact I]. intros _ l3 (A1 & A2 & A3).
      apply rdb_neu_seq; [apply NeuB_loc; intros g; apply piB_snext_set| |intros; exact I]. intros _ l4 (B1 & B2 & B3).
      apply rdb_neu_seq; [apply NeuB_act; apply b_st_slot| |intros; exact I]. intros _ l5 (C1 & C2 & C3).
      cbn. repeat split; congruence. }
    apply rdb_xbind. destruct o as [b|].
    - unfold xbind at 1. unfold emit at 1. cbn [dbind]. apply rB_alloc. intros l2 P1 P2 P3. cbn [rdsafe ret].
      apply Hrest; [congruence|exact P2|rewrite P3, R3; reflexivity].
    - unfold xbind at 1. unfold loc at 1. cbn [dbind]. apply rB_newblock. intros nb l2 P1 P2.
      unfold xbind at 1. unfold emit at 1. cbn [dbind]. apply (rB_new t nb); [rewrite P2; reflexivity|]. intros l3 Q1 Q2 Q3.
      unfold xbind at 1. unfold act at 1. cbn [dbind]. apply rdb_act_q; [apply b_st_flnext|]. intros _ l4 (D1 & D2 & D3). cbn [rdsafe ret].
      apply Hrest; [rewrite D1, Q1, P1; exact R1|congruence|rewrite D3, Q3, P2; cbn; rewrite R3; reflexivity].
  Qed.

  (** extend(): the block is linked into the own record *)
  Lemma quietB_acc k o ok : quietB (EvAcc k o ok) = true. Proof. reflexivity. Qed.

  Lemma S_hp_extendB t r l : w_tl (fst l) = Some r ->
    rdb t (hp_extend c r) l (fun o l' => match o with Some _ => w_tl (fst l') = w_tl (fst l) /\ xb_fr (snd l') = xb_fr (snd l) | None => True end).
  Proof.
    intros Htl. unfold hp_extend. apply rdb_xbind. eapply rdsafe_weaken; [|apply (S_hp_allocB t l)].
    intros [b|] l1 K1; [|exact I]. destruct K1 as (A1 & A2 & A3).
    unfold xbind at 1. unfold act at 1. cbn [dbind]. apply rdb_act_q; [apply b_ld_ext|]. intros e l2 (B1 & B2 & B3).
    unfold xbind at 1. unfold loc at 1. cbn [dbind].
    apply (rdb_loc c t _ _ l2 _ (fun _ => snd l2)). intros g a tr Hi Hv Hb _.
    assert (Ex : snd l2 = ab_x a t) by (rewrite <- Hv; reflexivity). split.
    { apply (InvB3_loc g); auto. intros a1 F J J1 HK. rewrite Ex. apply JB_same_x with (x := ab_x a); [intros u; apply fnu_id|].
      cbn [fst]. eapply JB_nextb; [exact J|]. left. destruct Hi as (Eg & _). rewrite <- Eg.
      transitivity (w_pv (fst (viewB3 a t))); [reflexivity|]. rewrite Hv. congruence. }
    cbn [snd]. replace (viewG (ab_g a) t, snd l2) with l2 by (rewrite <- Hv; reflexivity).
    unfold xbind at 1. unfold act at 1. cbn [dbind].
    apply (rdb_act c t _ _ l2 _ (fun _ => snd l2)). intros g1 a' tr1 Hi1 Hv1 Hb1 Ha1.
    assert (Ex1 : snd l2 = ab_x a' t) by (rewrite <- Hv1; reflexivity).
    assert (Hgp : gpv (ab_g a') t = Some b) by (change (gpv (ab_g a') t) with (w_pv (fst (viewB3 a' t))); rewrite Hv1; congruence).
    assert (Hgt : gtl (ab_g a') t = Some r) by (change (gtl (ab_g a') t) with (w_tl (fst (viewB3 a' t))); rewrite Hv1; congruence).
    assert (E2 : forall st, gstep (gstep st (t, EvAcc KSt (obj_rec r 3) true)) (t, ev_link r b) =
                 mkGS (Datatypes.S (Datatypes.S (glen st))) (gop st) (gtl st) (gmp st) (fnu (gpv st) t None) (gsl st) (gac st)).
    { intros st. unfold gstep at 2. cbn [fst snd]. unfold gstep. cbn [fst snd]. rewrite gcls_link. reflexivity. }
    split.
    - cbn [a_st_ext_g fst snd]. apply (InvB3_step g1); auto. intros a1 a1' Hf F J J1 HK _ _.
      destruct Hi1 as (Eg & _). rewrite Eg in Hgp, Hgt. destruct (k_at _ _ _ HK _ _ Hgt) as (k0 & Hat).
      unfold acc. cbn [app Conc.tag map]. change (tr1 ++ [(t, EvAcc KSt (obj_rec r 3) true); (t, ev_link r b)])
        with (tr1 ++ [(t, EvAcc KSt (obj_rec r 3) true)] ++ [(t, ev_link r b)]).
      rewrite app_assoc, !gfold_snoc, !hist_snoc, E2, hstep_acc, hstep_link. cbn [hlen att linked freeh].
      apply JB_same_x with (x := ab_x a'); [intros u; rewrite Ex1; apply fnu_id|].
      eapply (JB_link g1 _ _ _ _ _ _ t r b k0 _ J); [apply piB_upd_rec|exact Hgp| |exact Hat| | | |reflexivity].
      + rewrite <- Ex1, B3, A3. reflexivity.
      + intros u. cbn [gpv]. unfold fnu. reflexivity.
      + intros r'. reflexivity.
      + intros r'. cbn. unfold fupd. reflexivity.
    - cbn [a_st_ext_g fst snd]. unfold loc. apply rdb_loc_q; [intros g2; apply piB_upd_rec|]. intros x2. cbn [rdsafe].
      unfold viewB3, setx. cbn [fst snd ab_g ab_x]. unfold acc. cbn [app Conc.tag map fold_left]. rewrite E2, fnu_same. cbn.
      split; [|rewrite B3, A3; reflexivity]. transitivity (w_tl (fst (viewB3 a' t))); [reflexivity|]. rewrite Hv1. congruence.
  Qed.

  Lemma S_hp_gallocB t r l : w_tl (fst l) = Some r ->
    rdb t (hp_galloc c r) l (fun o l' => match o with Some _ => w_tl (fst l') = w_tl (fst l) /\ xb_fr (snd l') = xb_fr (snd l) | None => True end).
  Proof.
    intros Htl. unfold hp_galloc. unfold xbind at 1. unfold loc at 1. cbn [dbind]. apply rdb_loc_q; [intros g; apply piB_refl|]. intros fh.
    apply rdb_xbind.
    assert (Hx : rdb t (match fh with None => hp_extend c r | Some _ => ret tt end) l
                   (fun o l' => match o with Some _ => w_tl (fst l') = w_tl (fst l) /\ xb_fr (snd l') = xb_fr (snd l) | None => True end)).
    { destruct fh; [cbn; auto|now apply S_hp_extendB]. }
    eapply rdsafe_weaken; [|exact Hx]. intros [?u|] l1 K1; [|exact I]. destruct K1 as (A1 & A2).
    unfold loc. apply rdb_loc_q.
    - intros g. destruct (r_fhead (grec g r)); cbn [fst]; auto with pbdb.
    - intros s. cbn. auto.
  Qed.

  (** detach *)
  Lemma S_free_gblocksB t : forall fuel p l lb, xb_lim (snd l) = Some (p, lb) -> xb_fr (snd l) = None ->
    rdb t (free_gblocks c fuel p) l (fun o l' => match o with Some _ => w_tl (fst l') = w_tl (fst l) /\ xb_fr (snd l') = None | None => True end).
  Proof.
    induction fuel as [|fuel IH]; intros p l lb Hl Hfr; destruct p as [b|]; cbn [free_gblocks]; try (cbn; auto; fail).
    { unfold fuel_out. apply rdb_emit_q; [repeat constructor|]. intros l' _. exact I. }
    unfold xbind at 1. unfold loc at 1. cbn [dbind].
    apply (rdb_loc c t _ _ l _ (fun g => mkXB (xb_nb (snd l)) (Some (gb_nextb (ggb g b), tl lb)) (Some b))).
    intros g a tr Hi Hv Hb _. assert (Ex : snd l = ab_x a t) by (rewrite <- Hv; reflexivity). cbn [fst snd]. split.
    { apply (InvB3_loc g); auto. intros a1 F J J1 HK. rewrite Ex in Hl, Hfr. destruct (JB_frd _ _ _ _ _ _ _ J Hl Hfr) as (lb' & -> & J').
      cbn [tl]. rewrite Ex. exact J'. }
    set (l1 := (viewG (ab_g a) t, _)). unfold hp_free.
    unfold xbind at 1. unfold xbind at 1. unfold emit at 1. cbn [dbind].
    apply (rdb_emit c t _ _ l1 _ (mkXB (xb_nb (snd l)) (Some (gb_nextb (ggb g b), tl lb)) None)). intros g1 a' tr1 Hi1 Hv1 Hb1 Ha1.
    assert (Ex1 : snd l1 = ab_x a' t) by (rewrite <- Hv1; reflexivity). split.
    { apply (InvB3_step g1); auto. intros a1 a1' Hf F J J1 HK _ _. cbn [Conc.tag map]. rewrite gfold_snoc, hist_snoc, hstep_free.
      assert (Hq : quietB (ev_free FRt b) = true) by reflexivity.
      replace (mkXB (xb_nb (snd l)) (Some (gb_nextb (ggb g b), tl lb)) None) with (mkXB (xb_nb (ab_x a' t)) (xb_lim (ab_x a' t)) None)
        by (rewrite <- Ex1; reflexivity).
      eapply (JB_free g1 _ _ _ _ _ t b J); [rewrite <- Ex1; reflexivity| | | |].
      - intros u. unfold gstep. cbn [fst snd]. assert (E : gcls (ev_free FHp b) = GNone) by reflexivity. rewrite E. reflexivity.
      - intros r0. reflexivity.
      - intros r0. reflexivity.
      - cbn. reflexivity. }
    set (l2 := viewB3 _ t).
    assert (L2 : w_tl (fst l2) = w_tl (fst l) /\ snd l2 = mkXB (xb_nb (snd l)) (Some (gb_nextb (ggb g b), tl lb)) None).
    { unfold l2, viewB3, setx. cbn [fst snd ab_g ab_x Conc.tag map fold_left]. rewrite fnu_same. split; [|reflexivity].
      unfold gstep. cbn [fst snd]. assert (E : gcls (ev_free FHp b) = GNone) by reflexivity. rewrite E. cbn.
      change (gtl (ab_g a') t) with (w_tl (fst (viewB3 a' t))). rewrite Hv1. unfold l1. cbn. rewrite <- Hv. reflexivity. }
    clearbody l2. destruct L2 as (L2a & L2b).
    apply rdb_neu_seq; [apply B_fl_put| |intros l3 _; exact I].
    intros _ l3 (A1 & A2 & A3). eapply rdsafe_weaken; [|apply (IH (gb_nextb (ggb g b)) l3 (tl lb))].
    - intros [?u|] l4 K4; [|exact I]. destruct K4 as (C1 & C2). split; [congruence|exact C2].
    - rewrite A3, L2b. reflexivity.
    - rewrite A3, L2b. reflexivity.
  Qed.
End BOps.

Section BOps2.
  Variable c : cfg.
  Notation rdb := (rdsafe (InvAG c) viewB3 (InvB3 c)).
  Notation I1G := (I1 (InvAG c)).

  (** a node whose new ghost state depends on the trace *)
  Lemma rdb_act_tr {X R} t (f : A X) (k : X -> @dprog G ev R) l Q (xt : G -> list (nat * ev) -> XB) :
    (forall g a tr, InvB3 c g a tr -> viewB3 a t = l -> I1G g tr -> I1G (fst (fst (f g))) (tr ++ Conc.tag t (snd (f g))) ->
       InvB3 c (fst (fst (f g))) (setx a t (snd (f g)) (xt g tr)) (tr ++ Conc.tag t (snd (f g))) /\
       rdb t (k (snd (fst (f g)))) (viewB3 (setx a t (snd (f g)) (xt g tr)) t) Q) ->
    rdb t (DAct f k) l Q.
  Proof.
    intros H. cbn [rdsafe]. intros g a tr Hi Hv Hb Ha. destruct (H g a tr Hi Hv Hb Ha) as (H1 & H2).
    exists (setx a t (snd (f g)) (xt g tr)). split; [exact H1|]. split; [apply frame_setx|exact H2].
  Qed.

  Ltac nb :=
    repeat match goal with
      | |- NeuB _ (ret _) => apply NeuB_ret
      | |- NeuB _ fuel_out => apply NeuB_fuel_out
      | |- NeuB _ (xbind _ _) => apply NeuB_xbind; [|intros]
      | |- NeuB _ (act _) => apply NeuB_act; solve [auto with bdb]
      | |- NeuB _ (emit _) => apply NeuB_emit; solve [auto with bdb | repeat constructor; auto with bdb]
      | |- NeuB _ (loc _) => apply NeuB_loc; let g := fresh "g" in intros g; cbn [fst snd];
          solve [auto with pbdb | repeat match goal with |- context [match ?x with _ => _ end] => destruct x; cbn [fst snd] end; auto with pbdb]
      | |- NeuB _ (if ?b then _ else _) => destruct b
      | |- NeuB _ (match ?o with Some _ => _ | None => _ end) => destruct o
      end.

  Lemma S_free_thread_dataB t r mytid l : w_tl (fst l) = Some r -> xb_fr (snd l) = None ->
    rdb t (free_thread_data c r mytid true [ev_relall; ev_det r]) l
      (fun o l' => match o with Some _ => w_tl (fst l') = None /\ xb_fr (snd l') = None | None => True end).
  Proof.
    intros Htl Hfr. unfold free_thread_data, hp_clear.
    apply rdb_xbind. apply rdb_neu_seq; [apply B_clear_slots| |intros; exact I]. intros _ l1 (A1 & A2 & A3).
    unfold xbind at 1. unfold act at 1. cbn [dbind].
    apply (rdb_act_tr t _ _ l1 _ (fun g tr => mkXB (xb_nb (snd l1)) (Some (r_ext (grec g r), map fst (linked (hist tr) r))) None)).
    intros g a tr Hi Hv Hb Ha. assert (Ex : snd l1 = ab_x a t) by (rewrite <- Hv; reflexivity).
    assert (Hgt : gtl (ab_g a) t = Some r).
    { transitivity (w_tl (fst (viewB3 a t))); [reflexivity|]. rewrite Hv. congruence. }
    cbn [a_ld_ext fst snd]. split.
    { apply (InvB3_step c g); auto. intros a1 a1' Hf F J J1 HK _ _. destruct Hi as (Eg & _). rewrite Eg in Hgt.
      destruct (k_at _ _ _ HK _ _ Hgt) as (k0 & Hat). unfold acc. cbn [Conc.tag map]. rewrite gfold_snoc, hist_snoc, hstep_acc.
      assert (J' := JB_ldext c g a1 _ _ _ t r k0 J J1 Hat ltac:(rewrite <- Ex; congruence)). rewrite <- Ex in J'.
      eapply JB_ext; [exact J'| | | | | |]; auto.
      all: try (intros u; unfold gstep; cbn [fst snd]; reflexivity). }
    set (l2 := viewB3 _ t).
    assert (L2 : w_tl (fst l2) = Some r /\ exists lb, snd l2 = mkXB (xb_nb (snd l1)) (Some (r_ext (grec g r), lb)) None).
    { unfold l2, viewB3, setx. cbn [fst snd ab_g ab_x]. rewrite fnu_same. split; [|eauto]. unfold acc. cbn [Conc.tag map fold_left].
      unfold gstep. cbn [fst snd]. exact Hgt. }
    clearbody l2. destruct L2 as (L2a & lb & L2b).
    unfold xbind at 1. unfold emit at 1. cbn [dbind].
    apply (rdb_emit c t _ _ l2 _ (snd l2)). intros g1 a' tr1 Hi1 Hv1 Hb1 Ha1.
    assert (Ex1 : snd l2 = ab_x a' t) by (rewrite <- Hv1; reflexivity).
    assert (E2 : forall st, gstep (gstep st (t, ev_relall)) (t, ev_det r) =
                 mkGS (Datatypes.S (Datatypes.S (glen st))) (gop st) (fnu (gtl st) t None) (fnu (gmp st) t []) (gpv st) (gsl st) (gac st)).
    { intros st. unfold gstep at 2. cbn [fst snd]. unfold gstep. cbn [fst snd]. rewrite gcls_det. reflexivity. }
    split.
    { apply (InvB3_step c g1); auto. intros a1 a1' Hf F J J1 HK _ _. cbn [Conc.tag map].
      change (tr1 ++ [(t, ev_relall); (t, ev_det r)]) with (tr1 ++ [(t, ev_relall)] ++ [(t, ev_det r)]).
      rewrite app_assoc, !gfold_snoc, !hist_snoc, E2. rewrite (hstep_other _ t ev_relall eq_refl), hstep_det. cbn [hlen att linked freeh].
      apply JB_same_x with (x := ab_x a'); [intros u; rewrite Ex1; apply fnu_id|].
      eapply JB_shrink; [exact J| | |reflexivity].
      - intros u. reflexivity.
      - intros r' t' k. cbn. unfold fupd. destruct (Nat.eqb r' r); [discriminate|auto]. }
    set (l3 := viewB3 _ t).
    assert (L3 : w_tl (fst l3) = None /\ snd l3 = snd l2).
    { unfold l3, viewB3, setx. cbn [fst snd ab_g ab_x Conc.tag map fold_left]. rewrite E2, fnu_same. cbn. now rewrite fnu_same. }
    clearbody l3. destruct L3 as (L3a & L3b).
    apply rdb_xbind. eapply rdsafe_weaken; [|apply (S_free_gblocksB c t (c_spin c) (r_ext (grec g r)) l3 lb)];
      [|rewrite L3b, L2b; reflexivity|rewrite L3b, L2b; reflexivity].
    intros [?u|] l4 K4; [|exact I]. destruct K4 as (C1 & C2).
    unfold act at 1. apply rdb_act_q; [apply b_st_ext|]. intros x5 l5 (D1 & D2 & D3). cbn [rdsafe].
    assert (Hn : forall {X} (pp : P X), NeuB c pp -> forall l6, w_tl (fst l6) = None -> xb_fr (snd l6) = None ->
              forall Y (q : X -> P Y) Q, (forall x l7, w_tl (fst l7) = None -> xb_fr (snd l7) = None -> rdb t (q x) l7 Q) ->
              (forall l7, Q None l7) -> rdb t (xbind pp q) l6 Q).
    { intros X pp Hp l6 T6 F6 Y q Q Hq HN. apply rdb_neu_seq; auto. intros x l7 (E1 & E2' & E3). apply Hq; congruence. }
    apply (Hn _ _ (B_scan c r)); [congruence|congruence| |intros; exact I]. intros _ l6 T6 F6.
    apply (Hn _ _ (B_help_scan c r mytid)); [exact T6|exact F6| |intros; exact I]. intros _ l7 T7 F7.
    apply (Hn _ (loc (fun g0 => (g0, rt_empty g0 r)))); [apply NeuB_loc; intros; apply piB_refl|exact T7|exact F7| |intros; exact I]. intros e l8 T8 F8.
    apply Hn; [|exact T8|exact F8| |intros; exact I].
    - destruct e.
      + apply NeuB_xbind; [apply B_rt_fini|intros _; apply NeuB_act; apply b_st_free].
      + apply NeuB_xbind; [|intros fb; apply B_ftd_go]. apply NeuB_loc. intros g0.
        destruct (r_cb (grec g0 r)) as [cb|]; cbn [fst]; [|apply piB_refl].
        destruct (rb_next (grb g0 cb)); cbn [fst]; [|apply piB_refl]. destruct (c_oldtail c); split; reflexivity.
    - intros _ l9 T9 F9. eapply rdsafe_weaken; [|apply (NeuB_act c (a_st_tid r 0)); apply b_st_tid].
      intros [?u|] l10 (E1 & E2' & E3); [|exact I]. split; congruence.
  Qed.

  (** "_att": the record was attached to nobody *)
  Lemma rB_att {R} t r (k : @dprog G ev R) l Q :
    (forall l', w_tl (fst l') = Some r -> snd l' = snd l -> rdb t k l' Q) -> rdb t (DEmit [ev_att r] k) l Q.
  Proof.
    intros Hk. apply (rdb_emit c t _ k l Q (snd l)). intros g a tr Hi Hv Hb Ha.
    assert (Ex : snd l = ab_x a t) by (rewrite <- Hv; reflexivity). split.
    - apply (InvB3_step c g); auto. intros a1 a1' Hf F J J1 HK _ T'. cbn [Conc.tag map] in *. rewrite gfold_snoc, hist_snoc, hstep_att.
      destruct (TPropG_last _ _ _ T') as (_ & _ & P3 & _). rewrite gcls_att in P3. destruct (P3 r eq_refl) as (_ & Tn).
      assert (Hat : att (hist tr) r = None).
      { destruct (att (hist tr) r) as [[u k0]|] eqn:Ea; [|reflexivity]. exfalso. apply (Tn u). eapply k_ta; eauto. }
      apply JB_same_x with (x := ab_x a); [intros u; rewrite Ex; apply fnu_id|].
      eapply (JB_att g _ _ _ _ _ t r _ J Hat); [apply (ja_unatt _ _ _ _ J1 r Hat)| | | |reflexivity].
      + intros u. unfold gstep. cbn [fst snd]. rewrite gcls_att. reflexivity.
      + intros r'. cbn. unfold fupd. reflexivity.
      + intros r'. cbn. unfold fupd. reflexivity.
    - apply Hk; unfold viewB3, setx; cbn [fst snd Conc.tag map fold_left ab_g ab_x].
      + unfold gstep. cbn [fst snd]. rewrite gcls_att. cbn. apply fnu_same.
      + rewrite fnu_same. reflexivity.
  Qed.

  Definition RelBv (L : Dhp.L) (l : VG * XB) : Prop := w_tl (fst l) = l_tls L /\ xb_fr (snd l) = None.
  Definition QopB : option Dhp.L -> VG * XB -> Prop := fun o l' => match o with Some L' => RelBv L' l' | None => True end.

  Ltac nbs := apply rdb_neu_seq; [|intros ? ? (?R1 & ?R2 & ?R3)|intros; exact I].
  Ltac fin := cbn [rdsafe ret QopB]; unfold RelBv in *; cbn [l_tls]; split; congruence.

  Lemma NeuB_inv code args : NeuB c (inv code args).
  Proof. unfold inv. apply NeuB_emit. repeat constructor. Qed.
  Lemma NeuB_rsp v : NeuB c (rsp v).
  Proof. unfold rsp. apply NeuB_emit. repeat constructor. Qed.
  Lemma NeuB_skip : NeuB c skip.
  Proof. unfold skip. apply NeuB_emit. repeat constructor. Qed.

  Lemma spec_run_opB t L l o : RelBv L l -> rdb t (run_op c t L o) l QopB.
  Proof.
    intros (HR1 & HR2). destruct o as [| |j|j|j p|j|j k|k p|p| |k v]; cbn [run_op]; (nbs; [apply NeuB_inv|]).
    - (* attach *)
      destruct (l_tls L) as [r|] eqn:Et; [nbs; [apply NeuB_skip|]; fin|].
      nbs; [apply B_alloc_thread_data|]. unfold xbind at 1. unfold emit at 1. cbn [dbind]. apply rB_att. intros l3 T3 X3.
      nbs; [apply NeuB_rsp|]. fin.
    - (* detach *)
      destruct (l_tls L) as [r|] eqn:Et; [|nbs; [apply NeuB_skip|]; fin].
      apply rdb_xbind. eapply rdsafe_weaken; [|apply (S_free_thread_dataB t r (Datatypes.S t))]; [|congruence|congruence].
      intros [?u|] l3 K3; [|exact I]. destruct K3 as (T3 & F3). nbs; [apply NeuB_rsp|]. fin.
    - (* Guard() *)
      destruct (l_tls L) as [r|] eqn:Et; [|nbs; [apply NeuB_skip|]; fin].
      destruct (gfind (l_guards L) j); [nbs; [apply NeuB_skip|]; fin|].
      apply rdb_xbind. eapply rdsafe_weaken; [|apply (S_hp_gallocB c t r)]; [|congruence].
      intros [[s|]|] l3 K3; [| |exact I]; destruct K3 as (T3 & F3).
      + nbs; [apply NeuB_emit; repeat constructor; apply qB_own|]. nbs; [apply NeuB_rsp|]. fin.
      + nbs; [apply NeuB_emit; repeat constructor|]. fin.
    - (* ~Guard() *)
      destruct (l_tls L) as [r|] eqn:Et; [|nbs; [apply NeuB_skip|]; fin].
      destruct (gfind (l_guards L) j) as [s|]; [|nbs; [apply NeuB_skip|]; fin].
      nbs; [apply NeuB_emit; repeat constructor; apply qB_rel|]. nbs; [apply B_hp_gfree|]. nbs; [apply NeuB_rsp|]. fin.
    - (* assign *)
      destruct (l_tls L) as [r|] eqn:Et; [|nbs; [apply NeuB_skip|]; fin].
      destruct (gfind (l_guards L) j) as [s|]; [|nbs; [apply NeuB_skip|]; fin].
      nbs; [apply NeuB_act; apply b_st_slot|]. nbs; [apply NeuB_act; apply b_faa_sync|]. nbs; [apply NeuB_rsp|]. fin.
    - (* clear *)
      destruct (l_tls L) as [r|] eqn:Et; [|nbs; [apply NeuB_skip|]; fin].
      destruct (gfind (l_guards L) j) as [s|]; [|nbs; [apply NeuB_skip|]; fin].
      nbs; [apply NeuB_act; apply b_st_slot|]. nbs; [apply NeuB_rsp|]. fin.
    - (* protect *)
      destruct (l_tls L) as [r|] eqn:Et; [|nbs; [apply NeuB_skip|]; fin].
      destruct (gfind (l_guards L) j) as [s|]; [|nbs; [apply NeuB_skip|]; fin].
      nbs; [apply NeuB_act; apply b_ld_src|]. nbs; [apply B_protect_loop|]. nbs; [apply NeuB_rsp|]. fin.
    - (* publish *)
      nbs; [apply NeuB_act; apply b_st_src|]. nbs; [apply NeuB_rsp|]. fin.
    - (* retire *)
      destruct (l_tls L) as [r|] eqn:Et; [|nbs; [apply NeuB_skip|]; fin].
      nbs; [apply NeuB_loc; intros g; apply piB_rt_push|]. match goal with |- context [if ?b then _ else _] => destruct b end; (nbs; [first [apply NeuB_ret|apply B_scan]|]; nbs; [apply NeuB_rsp|]; fin).
    - (* scan *)
      destruct (l_tls L) as [r|] eqn:Et; [|nbs; [apply NeuB_skip|]; fin].
      nbs; [apply B_scan|]. nbs; [apply NeuB_rsp|]. fin.
    - (* wait *)
      nbs; [apply B_wait_loop|]. nbs; [apply NeuB_rsp|]. fin.
  Qed.

  Lemma spec_run_opsB t : forall os L l, RelBv L l -> rdb t (run_ops c t L os) l (fun _ _ => True).
  Proof.
    induction os as [|o os IH]; intros L l HR; cbn [run_ops]; [exact I|].
    apply rdb_xbind. eapply rdsafe_weaken; [|apply (spec_run_opB t L l o HR)].
    intros [L'|] l1 K; [|exact I]. now apply IH.
  Qed.

  Lemma spec_threadB t os : rdb t (thread_src c t os) (vg0, xb0) (fun _ _ => True).
  Proof.
    unfold thread_src. apply rdb_act_q; [apply b_begin|]. intros _ l1 (R1 & R2 & R3).
    unfold to_unit. apply rdsafe_bind. eapply rdsafe_weaken; [|apply (spec_run_opsB t os (mkL None []) l1)].
    - intros r l _. exact I.
    - split; [rewrite R1; reflexivity|rewrite R3; reflexivity].
  Qed.
End BOps2.

(** ** the three invariants together *)
Definition InvAGB (c : cfg) := Inv12 (InvAG c) (InvB3 c).
Definition viewAGB := view12 viewAG viewB3.

Lemma spec_threadAG c t os : dsafe viewAG (InvAG c) t (thread_src c t os) (va0, vg0) (fun _ _ => True).
Proof.
  eapply dsafe_weaken; [|apply (dsafe_pair viewA (InvA c) viewG (InvG c) t (thread_src c t os) _ _ va0 vg0 (spec_thread c t os) (spec_threadG c t os))].
  intros r l _. exact I.
Qed.

Lemma JB_init g : JB g gs0 (fun _ => xb0) h0.
Proof.
  constructor.
  - intros u b [E|E]; discriminate.
  - intros w o lb E. discriminate.
  - intros w b [(o & lb & E & _)|E]; discriminate.
Qed.

Lemma cfg_ok_initAGB fuel c ths : Conc.cfg_ok viewAGB (InvAGB c) (init_cfg fuel c ths).
Proof.
  exists ((aux0, gs0), mkAB gs0 (fun _ => xb0)). split.
  - split; cbn [fst snd Conc.shared Conc.trace init_cfg].
    + split; cbn [fst snd].
      * intros _. split; [apply JA_init|]. intros tr1 t p tr2 E. destruct tr1; discriminate.
      * split; [reflexivity|]. intros _ _. split; [intros m u e Hn; destruct m; discriminate|intros u j k Ho; discriminate].
    + split; [reflexivity|]. intros _ _. apply JB_init.
  - intros t p Hp. unfold init_cfg in Hp. cbn [Conc.threads] in Hp. rewrite nth_error_map in Hp.
    destruct (nth_error (combine (seq 0 (List.length ths)) ths) t) as [[t' os]|] eqn:E; [|discriminate].
    cbn in Hp. inversion Hp; subst p. apply nth_error_combine_seq in E. cbn in E. subst t'.
    apply compile_safe.
    eapply dsafe_weaken; [|apply (dsafe_pair viewAG (InvAG c) viewB3 (InvB3 c) t (thread_src c t os) _ _ (va0, vg0) (vg0, xb0)
                                    (spec_threadAG c t os) (spec_threadB c t os))].
    intros r l _. exact I.
Qed.

(** a guard block that a thread has taken from the allocator and not linked yet is linked into no attached record and
    is private to that thread *)
Definition TB (tr : list (nat * ev)) : Prop :=
  forall u b, gpv (gfold tr) u = Some b -> ~ latt (hist tr) b /\ forall u', gpv (gfold tr) u' = Some b -> u' = u.

Lemma JB_TB g x tr : JB g (gfold tr) x (hist tr) -> TB tr.
Proof.
  intros J u b Hu. destruct (jb_priv _ _ _ _ J u b (or_introl Hu)) as (_ & _ & A3 & A4 & _). split; [exact A3|].
  intros u' Hu'. apply A4. now left.
Qed.

Theorem dhp_TB : forall fuel c ths conf, Conc.reach (init_cfg fuel c ths) conf ->
  flbad (hist (Conc.trace conf)) = false -> cell_disc c (Conc.trace conf) -> TB (Conc.trace conf).
Proof.
  intros fuel c ths conf Hr Hf Hd. destruct (Conc.reach_Inv (cfg_ok_initAGB fuel c ths) Hr) as ((a12 & a3) & _ & (E & H)).
  cbn [snd] in *. eapply JB_TB. exact (H Hf Hd).
Qed.
