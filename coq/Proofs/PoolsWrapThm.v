(** * C24 theorems across the wrap of the position counters: the statements of LV.Proofs.PoolsTheorems about the
      pools of LV.Model.PoolsWrap (wrapping queue programs), with the hypothesis "position counters do not wrap"
      ([pool_bound]) replaced by [fresh] (no thread sleeps through 2^62 enqueue claims between two of its own steps):
      runs of any length, started at any position [s] (in particular a few steps before 2^64), or in the
      constructor's state.  Capacity 2^k, 1 <= k <= 61.  The content of the ring is read through the stored (wrapped)
      m_posDequeue and its length is the size_t difference of the stored positions. *)
From Coq Require Import ZArith List Bool Lia PeanoNat.
From LV Require Import Base.Conc Base.Events Base.CInt Base.Lin Spec.Specs Model.Vyukov Model.VyukovWrap Model.Pools
                       Model.PoolsWrap Proofs.VyukovSpec Proofs.VyukovArith Proofs.VyukovCore Proofs.PoolsProofs
                       Proofs.PoolsSafe Proofs.PoolsTheorems Proofs.VyukovWrapArith Proofs.VyukovWrapCore
                       Proofs.VyukovWrapThm Proofs.PoolsWrapSafe.
Import ListNotations.
Local Open Scope Z_scope.

(** the old hypothesis implies the new one *)
Lemma pool_bound_fresh k kind tr : pool_bound k kind tr -> fresh tr.
Proof.
  unfold pool_bound. intros H. apply claims_fresh. unfold L62.
  assert (0 < 2 ^ Z.of_nat k) by (apply Z.pow_pos_nonneg; lia). destruct (kind =? 1); lia.
Qed.

Section PoolWTheorems.
  Variable k : nat.
  Hypothesis Hk : (1 <= k)%nat.
  Hypothesis Hk61 : (k <= 61)%nat.
  Variable kind : Z.
  Variable fuel : nat.
  Variable ths : list (list pop).

  Notation capn := (2 ^ k)%nat.
  Notation cap := (2 ^ Z.of_nat k).
  Let c : pcfg := mkP kind cap (length ths).
  Notation X := (nat -> list Z * nat).
  Notation LX := (list Z * nat)%type.
  Notation Ext := (PoolExt k c).
  Notation cell := (VyukovArith.cell k).
  Notation a0 := (aux0 k kind ths).

  (** what a start state must satisfy: it is the image modulo 2^64 of a ghost state that satisfies the invariant
      with the abstract queue [avail0] (the preallocated objects; empty for the lazy pool) *)
  Definition pstart_ok (e0 : Z) (g0 : G) : Prop :=
    exists gg0, Rel k g0 gg0 /\ RealInv k None e0 X Ext gg0 a0 [].

  Lemma poolw_init_ok e0 g0 :
    pstart_ok e0 g0 ->
    Conc.cfg_ok (wview X LX xview24) (Inv k None e0 X Ext) (pool_cfg_from g0 kind cap fuel ths).
  Proof.
    intros (gg0 & H0 & R0). exists (mkW X a0 gg0 (fun _ => 0)). split.
    - split; [exact H0|]. intros _. split; [exact R0|]. intros t. exact I.
    - intros t p Hp. unfold pool_cfg_from, pool_cfg_from_g in Hp. cbn [Conc.threads] in Hp. rewrite nth_map_idx in Hp.
      destruct (nth_error ths t) as [os|] eqn:E; inversion Hp; subst. cbn [Nat.add].
      apply (wsafe_pool_thread k Hk Hk61 c eq_refl fuel e0 t os).
      cbn [pthreads c]. apply nth_error_Some. congruence.
  Qed.

  (** ** every configuration reachable from a good start state by a fresh schedule *)
  Section Reach.
    Variable e0 : Z.
    Variable g0 : G.
    Hypothesis H0 : pstart_ok e0 g0.
    Variable cf : Conc.config G V ev.
    Hypothesis Hr : Conc.reach (pool_cfg_from g0 kind cap fuel ths) cf.
    Hypothesis Hf : fresh (Conc.trace cf).

    Lemma poolw_real : exists a : WAux X,
      Rel k (Conc.shared cf) (gh X a) /\ RealInv k None e0 X Ext (gh X a) (core X a) (Conc.trace cf).
    Proof.
      destruct (Conc.reach_Inv (poolw_init_ok e0 g0 H0) Hr) as (a & HR & Hi).
      exists a. split; [exact HR|]. exact (proj1 (Hi Hf)).
    Qed.

    Theorem poolw_unique_holder_gen :
      (forall t, NoDup (heldby (Conc.trace cf) t)) /\
      (forall t t' p, t <> t' -> In p (heldby (Conc.trace cf) t) -> ~ In p (heldby (Conc.trace cf) t')) /\
      (forall t p, In p (heldby (Conc.trace cf) t) -> ~ In p (avail (avail0 k c) (Conc.trace cf))).
    Proof.
      destruct poolw_real as (a & _ & R). pose proof (ri_ext k None e0 X Ext _ _ _ R) as E.
      set (S := fun u => stat_of k (ph X (core X a) u)) in *.
      assert (Hin : forall t p, In p (heldby (Conc.trace cf) t) -> In p (own k S (ext X (core X a)) t)).
      { intros t p H. rewrite (pe_held _ _ _ _ _ _ E t) in H. unfold own. apply in_or_app. auto. }
      split; [|split].
      - intros t. rewrite (pe_held _ _ _ _ _ _ E t).
        pose proof (pe_own _ _ _ _ _ _ E t) as H. unfold own in H. eapply nodup_app_r; eauto.
      - intros t t' p Nt H H'. eapply (pe_disj _ _ _ _ _ _ E t t' p); eauto.
      - intros t p H Hav. apply (pe_avail _ _ _ _ _ _ E) in Hav. destruct Hav as [Hq|[u Hu]].
        + eapply (pe_ownq _ _ _ _ _ _ E t p); eauto.
        + destruct (Nat.eq_dec u t) as [->|Nu].
          * pose proof (pe_own _ _ _ _ _ _ E t) as Hnd. unfold own in Hnd.
            rewrite (pe_held _ _ _ _ _ _ E t) in H.
            eapply (nodup_app_disj _ _ p Hnd); eauto.
          * eapply (pe_disj _ _ _ _ _ _ E t u p); eauto. unfold own. apply in_or_app. auto.
    Qed.

    Theorem poolw_deallocated_available_again_gen :
      NoDup (avail (avail0 k c) (Conc.trace cf)) /\
      exists qs : list Z,
        NoDup qs /\
        Z.of_nat (length qs) = usub u64 (posE (Conc.shared cf)) (posD (Conc.shared cf)) /\
        (forall i, (i < length qs)%nat ->
           nth_error qs i = Some (datas (Conc.shared cf) (cell (posD (Conc.shared cf) + Z.of_nat i)))) /\
        (forall p, In p qs -> In p (avail (avail0 k c) (Conc.trace cf))) /\
        (forall p, In p (avail (avail0 k c) (Conc.trace cf)) -> In p qs \/ exists t, busy (Conc.trace cf) t = true) /\
        ((forall t, busy (Conc.trace cf) t = false) ->
           forall p, In p (avail (avail0 k c) (Conc.trace cf)) <-> In p qs).
    Proof.
      destruct poolw_real as (a & HR & R). pose proof (ri_ext k None e0 X Ext _ _ _ R) as E.
      split; [exact (pe_availnd _ _ _ _ _ _ E)|]. exists (absq X (core X a)).
      assert (Hbusy : forall p, In p (avail (avail0 k c) (Conc.trace cf)) ->
                      In p (absq X (core X a)) \/ exists t, busy (Conc.trace cf) t = true).
      { intros p H. apply (pe_avail _ _ _ _ _ _ E) in H. destruct H as [H|[t H]]; auto. right. exists t.
        destruct (busy (Conc.trace cf) t) eqn:B; auto. rewrite (pe_busy _ _ _ _ _ _ E t B) in H. destruct H. }
      split; [exact (pe_q _ _ _ _ _ _ E)|]. split; [|split; [|split; [|split]]].
      - pose proof (ri_pos _ _ _ _ _ _ _ _ R) as (P1 & P2 & P3).
        rewrite (ri_len _ _ _ _ _ _ _ _ R), (rel_E _ _ _ HR), (rel_D _ _ _ HR), usub_mod.
        pose proof (cap_le_61 k Hk Hk61). symmetry. apply Z.mod_small.
        rewrite m64_val. assert (2 ^ 61 = 2305843009213693952) by reflexivity. lia.
      - intros i Hi. rewrite (ri_content _ _ _ _ _ _ _ _ R i Hi), (rel_D _ _ _ HR), (cell_add_mod k _ _ Hk Hk61).
        rewrite (rel_dat _ _ _ HR). reflexivity.
      - intros p H. apply (pe_avail _ _ _ _ _ _ E). auto.
      - exact Hbusy.
      - intros Hq p. split.
        + intros H. destruct (Hbusy p H) as [H'|[t Ht]]; auto. rewrite Hq in Ht. discriminate.
        + intros H. apply (pe_avail _ _ _ _ _ _ E). auto.
    Qed.

    (** the occupancy as the code computes it, in size_t *)
    Theorem poolw_occupancy : 0 <= usub u64 (posE (Conc.shared cf)) (posD (Conc.shared cf)) <= cap.
    Proof.
      destruct poolw_real as (a & HR & R). pose proof (ri_pos _ _ _ _ _ _ _ _ R) as (P1 & P2 & P3).
      rewrite (rel_E _ _ _ HR), (rel_D _ _ _ HR), usub_mod. pose proof (cap_le_61 k Hk Hk61).
      rewrite Z.mod_small; [lia|]. rewrite m64_val. assert (2 ^ 61 = 2305843009213693952) by reflexivity. lia.
    Qed.
  End Reach.

  (** ** start states *)

  (** the ghost of [pool_init_at c s] *)
  Definition gh_at (s : Z) : G :=
    if Z.eqb kind 1 then mkG s s (fun i => s + (i - s) mod cap) (fun _ => 0) 0
    else mkG (s + cap) s (fun i => s + (i - s) mod cap + 1) (fun i => (i - s) mod cap + 1)
             (if Z.eqb kind 2 then cap else 0).

  (** ghost m_posEnqueue of [pool_init_at c s] *)
  Definition pe_at (s : Z) : Z := if Z.eqb kind 1 then s else s + cap.

  Lemma rel_at s : Rel k (pool_init_at c s) (gh_at s).
  Proof.
    unfold pool_init_at, gh_at. cbn [pkind pcap c]. destruct (kind =? 1).
    - constructor; cbn [init_at pq pcap qcap posE posD seqs datas cnt]; auto.
    - constructor; cbn [posE posD seqs datas cnt]; auto.
  Qed.

  Lemma cell_shift s p : s <= p < s + cap -> (cell p - s) mod cap = p - s.
  Proof. intros H. unfold VyukovArith.cell. rewrite Zminus_mod_idemp_l. apply Z.mod_small. lia. Qed.

  Lemma real_at s : 0 <= s -> RealInv k None (pe_at s) X Ext (gh_at s) a0 [].
  Proof.
    intros Hs. pose proof (cap_ge2 k Hk) as C2. pose proof (capn_cap' k) as CC.
    unfold pe_at, gh_at, aux0. pose proof (ext0 k Hk kind ths) as E0. unfold avail0 in *. cbn [pkind pcap] in *.
    destruct (kind =? 1) eqn:Ek.
    - (* lazy pool: empty queue at position s *)
      constructor; cbn [posE posD seqs datas absq ph ext].
      + lia.
      + unfold nclaims; cbn. lia.
      + cbn. lia.
      + intros i Hi. cbn in Hi. lia.
      + intros p Hp. lia.
      + intros p Hp. left. rewrite cell_shift by lia. lia.
      + intros p. pose proof (Z.mod_pos_bound (cell p - s) cap ltac:(lia)). lia.
      + intros t. exact I.
      + intros t t' v v' p H. discriminate.
      + intros t t' pk pk' v v' p H. discriminate.
      + intros tc t H. discriminate.
      + intros t F. destruct F.
      + exact E0.
    - (* the preallocated objects 1..cap occupy the positions s .. s+cap-1 *)
      constructor; cbn [posE posD seqs datas absq ph ext].
      + lia.
      + unfold nclaims; cbn. lia.
      + rewrite map_length, seq_length. lia.
      + intros i Hi. rewrite map_length, seq_length in Hi.
        rewrite (map_nth_error Z.of_nat i (seq 1 capn) (nth_error_seq 1 capn i Hi)).
        rewrite cell_shift by lia. f_equal. lia.
      + intros p Hp. left. rewrite cell_shift by lia. lia.
      + intros p Hp. lia.
      + intros p. pose proof (Z.mod_pos_bound (cell p - s) cap ltac:(lia)). lia.
      + intros t. exact I.
      + intros t t' v v' p H. discriminate.
      + intros t t' pk pk' v v' p H. discriminate.
      + intros tc t H. discriminate.
      + intros t F. destruct F.
      + exact E0.
  Qed.

  Lemma pstart_ok_at s : 0 <= s -> pstart_ok (pe_at s) (pool_init_at c s).
  Proof. intros Hs. exists (gh_at s). split; [apply rel_at|apply real_at; exact Hs]. Qed.

  (** the constructor's state itself *)
  Lemma rel_init : Rel k (pool_init c) (pool_init c).
  Proof.
    pose proof (cap_le_61 k Hk Hk61) as C61. pose proof (cap_ge2 k Hk) as C2.
    assert (E61 : 2 ^ 61 = 2305843009213693952) by reflexivity.
    unfold pool_init. cbn [pkind pcap c]. destruct (kind =? 1).
    - constructor; cbn [init posE posD seqs datas cnt]; auto.
      intros i Hi. symmetry. apply Z.mod_small. rewrite m64_val. lia.
    - constructor; cbn [posE posD seqs datas cnt]; auto.
      + symmetry. apply Z.mod_small. rewrite m64_val. lia.
      + intros i Hi. symmetry. apply Z.mod_small. rewrite m64_val.
        destruct (0 <=? i); destruct (i <? cap); cbn; lia.
  Qed.

  Lemma pstart_ok_init : pstart_ok (pe0 c) (pool_init c).
  Proof. exists (pool_init c). split; [apply rel_init|exact (PoolsTheorems.init_real k Hk kind ths)]. Qed.

  (** ** the theorems of LV.Proofs.PoolsTheorems, for a pool started at any position [s] *)
  Theorem poolw_unique_holder s cf :
    0 <= s -> Conc.reach (pool_cfg_at kind cap s fuel ths) cf -> fresh (Conc.trace cf) ->
    (forall t, NoDup (heldby (Conc.trace cf) t)) /\
    (forall t t' p, t <> t' -> In p (heldby (Conc.trace cf) t) -> ~ In p (heldby (Conc.trace cf) t')) /\
    (forall t p, In p (heldby (Conc.trace cf) t) -> ~ In p (avail (avail0 k c) (Conc.trace cf))).
  Proof.
    intros Hs Hr Hf. exact (poolw_unique_holder_gen (pe_at s) (pool_init_at c s) (pstart_ok_at s Hs) cf Hr Hf).
  Qed.

  Theorem poolw_deallocated_available_again s cf :
    0 <= s -> Conc.reach (pool_cfg_at kind cap s fuel ths) cf -> fresh (Conc.trace cf) ->
    NoDup (avail (avail0 k c) (Conc.trace cf)) /\
    exists qs : list Z,
      NoDup qs /\
      Z.of_nat (length qs) = usub u64 (posE (Conc.shared cf)) (posD (Conc.shared cf)) /\
      (forall i, (i < length qs)%nat ->
         nth_error qs i = Some (datas (Conc.shared cf) (cell (posD (Conc.shared cf) + Z.of_nat i)))) /\
      (forall p, In p qs -> In p (avail (avail0 k c) (Conc.trace cf))) /\
      (forall p, In p (avail (avail0 k c) (Conc.trace cf)) -> In p qs \/ exists t, busy (Conc.trace cf) t = true) /\
      ((forall t, busy (Conc.trace cf) t = false) ->
         forall p, In p (avail (avail0 k c) (Conc.trace cf)) <-> In p qs).
  Proof.
    intros Hs Hr Hf.
    exact (poolw_deallocated_available_again_gen (pe_at s) (pool_init_at c s) (pstart_ok_at s Hs) cf Hr Hf).
  Qed.

  Theorem poolw_occupancy_at s cf :
    0 <= s -> Conc.reach (pool_cfg_at kind cap s fuel ths) cf -> fresh (Conc.trace cf) ->
    0 <= usub u64 (posE (Conc.shared cf)) (posD (Conc.shared cf)) <= cap.
  Proof. intros Hs Hr Hf. exact (poolw_occupancy (pe_at s) (pool_init_at c s) (pstart_ok_at s Hs) cf Hr Hf). Qed.

  (** ... and started in the constructor's state [Pools.pool_init] *)
  Theorem poolw_unique_holder_ctor cf :
    Conc.reach (pool_cfg_w kind cap fuel ths) cf -> fresh (Conc.trace cf) ->
    (forall t, NoDup (heldby (Conc.trace cf) t)) /\
    (forall t t' p, t <> t' -> In p (heldby (Conc.trace cf) t) -> ~ In p (heldby (Conc.trace cf) t')) /\
    (forall t p, In p (heldby (Conc.trace cf) t) -> ~ In p (avail (avail0 k c) (Conc.trace cf))).
  Proof. intros Hr Hf. exact (poolw_unique_holder_gen (pe0 c) (pool_init c) pstart_ok_init cf Hr Hf). Qed.

  Theorem poolw_deallocated_available_again_ctor cf :
    Conc.reach (pool_cfg_w kind cap fuel ths) cf -> fresh (Conc.trace cf) ->
    NoDup (avail (avail0 k c) (Conc.trace cf)) /\
    exists qs : list Z,
      NoDup qs /\
      Z.of_nat (length qs) = usub u64 (posE (Conc.shared cf)) (posD (Conc.shared cf)) /\
      (forall i, (i < length qs)%nat ->
         nth_error qs i = Some (datas (Conc.shared cf) (cell (posD (Conc.shared cf) + Z.of_nat i)))) /\
      (forall p, In p qs -> In p (avail (avail0 k c) (Conc.trace cf))) /\
      (forall p, In p (avail (avail0 k c) (Conc.trace cf)) -> In p qs \/ exists t, busy (Conc.trace cf) t = true) /\
      ((forall t, busy (Conc.trace cf) t = false) ->
         forall p, In p (avail (avail0 k c) (Conc.trace cf)) <-> In p qs).
  Proof.
    intros Hr Hf. exact (poolw_deallocated_available_again_gen (pe0 c) (pool_init c) pstart_ok_init cf Hr Hf).
  Qed.
End PoolWTheorems.

(** [pool_init_at c 0] is the constructor's state on the cells of the ring *)
Lemma pool_init_at_0 c i :
  0 <= i < pcap c ->
  posE (pool_init_at c 0) = posE (pool_init c) mod m64 /\ posD (pool_init_at c 0) = posD (pool_init c) /\
  seqs (pool_init_at c 0) i = seqs (pool_init c) i mod m64 /\ datas (pool_init_at c 0) i = datas (pool_init c) i /\
  cnt (pool_init_at c 0) = cnt (pool_init c).
Proof.
  intros Hi. unfold pool_init_at, pool_init, init_at, init. destruct (pkind c =? 1); cbn [posE posD seqs datas cnt pq qcap].
  - rewrite Z.sub_0_r, Z.add_0_l, (Z.mod_small i (pcap c)) by lia. repeat split; reflexivity.
  - rewrite Z.sub_0_r, !Z.add_0_l, (Z.mod_small i (pcap c)) by lia.
    destruct (Z.leb_spec 0 i); destruct (Z.ltb_spec i (pcap c)); cbn; try lia; repeat split; reflexivity.
Qed.
