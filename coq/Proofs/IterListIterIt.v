(** * The iterator programs of LV.Model.IterListIter are safe for the invariant and the step relation of
      Proofs/IterListIterDefs.v (begin / end / operator++ / operator* / erase_at, every schedule).

    Ghost bookkeeping of an iterating thread (tracked node [N], tracked item [X <> 0]):
      - its view says at which linked node the iterator stands ([stage] = SPend c) and the invariant keeps a path from
        there to [N] ([J]) unless [jd] = "nothing left to show";
      - [C]: if nothing is left to show then, provided [N] held [X] whenever the iterator looked ([wok]), [X] was visited;
      - every load of a data cell by [protect] records what it saw ([TR_look] / [TR_found]); [LV]: what is known about the
        value the last load returned. *)
From Coq Require Import ZArith List String Bool Lia PeanoNat.
From LV Require Import Base.Conc Base.Events Model.IterList Model.IterListIter Proofs.ConcRel Proofs.IterListIterDefs
                       Proofs.IterListIterOps Proofs.IterListIterOps2.
Import ListNotations.

Set Implicit Arguments.

Section It.
  Variables (N X : nat).
  Hypothesis HX : X <> 0.
  Variable t : nat.

  Notation safeR := (@ConcRel.safeR G V ev Aux L W view (Inv N) (SR N X)).
  Notation prog := (Conc.prog G V ev).

  Definition presb (a : Aux) (g : G) : bool := lk a N && Nat.eqb (fst (ndata g N)) X.

  Lemma presb_iff g a : InvS N (nnext g) (nalloc g) a -> (presb a g = true <-> present N X g).
  Proof.
    intros HI. unfold presb, present. rewrite andb_true_iff, Nat.eqb_eq. split.
    - intros [H1 H2]. split; [apply (i_reach HI); exact H1|exact H2].
    - intros [H1 H2]. split; [eapply path_lk; eauto; apply (i_head HI)|exact H2].
  Qed.

  Definition C (l : L) (w : W) : Prop := jd l = true -> wok w = true -> In X (wvis w).
  Definition D (c : nat) (w : W) : Prop := N = c -> wok w = true -> In X (wvis w).

  Definition wstep (w w' : W) : Prop :=
    wph w' = wph w /\ wvis w' = wvis w /\ wcur w' = wcur w /\ wrem w' = wrem w /\ wgone w' = wgone w /\
    (wok w' = true -> wok w = true).

  Lemma wstep_refl w : wstep w w.
  Proof. repeat split; auto. Qed.
  Lemma wstep_trans w1 w2 w3 : wstep w1 w2 -> wstep w2 w3 -> wstep w1 w3.
  Proof. intros (A1 & A2 & A3 & A4 & A5 & A6) (B1 & B2 & B3 & B4 & B5 & B6). repeat split; try congruence. auto. Qed.
  Lemma C_step l w w' : C l w -> wstep w w' -> C l w'.
  Proof. intros HC (_ & E & _ & _ & _ & Hok) Hj Hw. rewrite E. apply HC; auto. Qed.
  Lemma D_step c w w' : D c w -> wstep w w' -> D c w'.
  Proof. intros HD (_ & E & _ & _ & _ & Hok) Hj Hw. rewrite E. apply HD; auto. Qed.

  (** what is known about the value [v] the last load of the data cell of [c] returned *)
  Definition LV (c : nat) (v : V) (w : W) : Prop :=
    (vptr v <> 0 -> wfnd w = (c, vptr v) /\ wfresh w = true /\ wfk w = vkey v) /\ (N = c -> wok w = true -> vptr v = X) /\ (c = TAIL -> vptr v = 0).

  Lemma frame_refl a : Conc.frame view t a a.
  Proof. intros ? ?; reflexivity. Qed.

  (** a load of the data cell of a linked node by the iterating thread *)
  Lemma act_ldd_it R c (k : V -> prog R) l w Q : wph w = true -> kn l c ->
    (forall v w', wstep w w' -> LV c v w' -> safeR t (k v) l w' Q) -> safeR t (Act (a_ldd c) k) l w Q.
  Proof.
    intros Hw Hc Hk g a tr [HI HT] Hv. unfold view in Hv.
    set (b := wok w && presb a g).
    assert (Hb : b = true <-> wok w = true /\ present N X g).
    { unfold b. rewrite andb_true_iff. rewrite (@presb_iff g a HI). tauto. }
    assert (Hlc : lk a c = true) by (eapply Inv_kn; eauto; rewrite Hv; exact Hc).
    assert (Hpc : path (nnext g) HEAD c) by (apply (i_reach HI); exact Hlc).
    assert (Hd : fst (fst (a_ldd c g)) = g /\ snd (a_ldd c g) = [EvAcc KLd (obj_data c) true] /\
                 vptr (snd (fst (a_ldd c g))) = fst (ndata g c) /\
                 vkey (snd (fst (a_ldd c g))) = ikey g (fst (ndata g c))).
    { unfold a_ldd. destruct (ndata g c) as [i m]. cbn. auto. }
    destruct Hd as (E1 & E2 & E3 & E4). rewrite E1, E2.
    destruct (Nat.eq_dec (fst (ndata g c)) 0) as [E0|E0].
    - exists a, (set_ok w b). split; [split; assumption|]. split; [apply frame_refl|].
      split; [apply SR_nx; [reflexivity|apply TR_look with (b := b); auto using all_acc1]|].
      unfold view. rewrite Hv. apply Hk.
      + unfold set_ok, wstep; cbn. repeat split; auto. intros K. apply Hb in K. tauto.
      + unfold LV, set_ok; cbn. rewrite E3. split; [congruence|]. split; [|auto].
        intros En Kb. apply Hb in Kb. destruct Kb as [_ [_ Kp]]. rewrite En in Kp. exact Kp.
    - exists a, (set_fnd w b (c, fst (ndata g c)) (ikey g (fst (ndata g c)))). split; [split; assumption|]. split; [apply frame_refl|].
      split; [apply SR_nx; [reflexivity|apply TR_found with (b := b) (n := c); auto using all_acc1]|].
      unfold view. rewrite Hv. apply Hk.
      + unfold set_fnd, wstep; cbn. repeat split; auto. intros K. apply Hb in K. tauto.
      + unfold LV, set_fnd; cbn. rewrite E3, E4. split; [intros _; repeat split; reflexivity|]. split.
        * intros En Kb. apply Hb in Kb. destruct Kb as [_ [_ Kp]]. rewrite En in Kp. exact Kp.
        * intros ->. congruence.
  Qed.

  Definition Pprot (c : nat) (l : L) (w : W) : option V -> L -> W -> Prop :=
    fun r l' w' => l' = l /\ wstep w w' /\ match r with Some v => LV c v w' | None => True end.

  Lemma protect_loop_it fuel : forall s c v0 l w, wph w = true -> kn l c ->
    safeR t (protect_loop fuel t s c v0) l w (Pprot c l w).
  Proof.
    induction fuel as [|f IH]; intros s c v0 l w Hw Hc; cbn [protect_loop].
    - cbn. unfold Pprot. auto using wstep_refl.
    - apply act_data; [auto with dact|]. intros _. apply act_data; [auto with dact|]. intros _.
      apply act_ldd_it; auto. intros v w1 Hs1 Hlv.
      destruct (veqb v0 v).
      + cbn. unfold Pprot. auto.
      + eapply ConcRel.safeR_weaken; [|apply IH; [destruct Hs1 as (E & _); congruence|exact Hc]].
        intros r l' w' (-> & Hs & Hr). unfold Pprot. split; [reflexivity|split; [eapply wstep_trans; eauto|exact Hr]].
  Qed.

  Lemma protect_it fuel s c l w : wph w = true -> kn l c -> safeR t (protect fuel t s c) l w (Pprot c l w).
  Proof.
    intros Hw Hc. unfold protect. apply act_ldd_it; auto. intros v w1 Hs1 _.
    eapply ConcRel.safeR_weaken; [|apply protect_loop_it; [destruct Hs1 as (E & _); congruence|exact Hc]].
    intros r l' w' (-> & Hs & Hr). unfold Pprot. split; [reflexivity|split; [eapply wstep_trans; eauto|exact Hr]].
  Qed.

  (** the load of the next pointer in next(): the iterator moves on *)
  Lemma act_ldn_it R cur (k : V -> prog R) l w Q : stage l = SPend cur -> kn l cur -> C l w -> D cur w ->
    (forall p l', stage l' = SPend p -> kn l' p -> C l' w -> (p = cur -> jd l' = true /\ cur = TAIL) ->
                  safeR t (k (mkV p false 0)) l' w Q) ->
    safeR t (Act (a_ldn cur) k) l w Q.
  Proof.
    intros Hs Hc HC HD Hk g a tr [HI HT] Hv. unfold view in Hv. cbn [a_ldn fst snd].
    set (p := nnext g cur).
    set (l' := mkL (mine l) (mnext l) (p :: known l) (SPend p) (jd l || Nat.eqb N cur || Nat.eqb p cur)).
    assert (Hlc : lk a cur = true) by (eapply Inv_kn; eauto; rewrite Hv; exact Hc).
    assert (HJ : J N (nnext g) l) by (rewrite <- Hv; apply (i_J HI)).
    assert (Hpath : jd l = false -> N <> cur -> path (nnext g) p N).
    { intros Hj Hn. destruct HJ as [K|K]; [congruence|]. rewrite Hs in K. destruct K as [_ K].
      apply path_inv in K. destruct K as [K|K]; [congruence|exact K]. }
    exists (mkAux (lk a) (updf (vw a) t l')), w.
    split.
    { split; [|exact HT]. apply InvS_view; [exact HI|rewrite Hv; reflexivity|rewrite Hv; reflexivity| |].
      - cbn. intros n [<-|Hn]; [apply (i_cl HI cur Hlc)|]. eapply i_known; eauto. rewrite Hv. exact Hn.
      - unfold J. cbn [jd stage l'].
        destruct (jd l) eqn:Ej; [left; reflexivity|]. destruct (Nat.eqb_spec N cur) as [En|En]; [left; reflexivity|].
        destruct (Nat.eqb_spec p cur) as [Ep|Ep]; [left; reflexivity|]. right. split; [right; left; reflexivity|].
        apply Hpath; auto. }
    split; [apply frame_updf|]. split; [apply SR_nx; [reflexivity|apply TR_same; auto using all_acc_quiet, all_acc1]|].
    unfold view. cbn. rewrite updf_eq. apply Hk.
    - reflexivity.
    - right. left. reflexivity.
    - unfold C. cbn [jd l']. intros Hj Hok.
      destruct (jd l) eqn:Ej; [apply HC; auto|]. destruct (Nat.eqb_spec N cur) as [En|En]; [apply HD; auto|].
      destruct (Nat.eqb_spec p cur) as [Ep|Ep]; [|discriminate].
      exfalso. apply En. eapply path_self with (nx := nnext g); [exact Ep|].
      specialize (Hpath eq_refl En). rewrite Ep in Hpath. exact Hpath.
    - intros Ep. split.
      + cbn [jd l']. rewrite Ep. rewrite Nat.eqb_refl. apply orb_true_r.
      + eapply (i_loop HI); eauto.
  Qed.

  Definition Pit (l : L) (w : W) : option itst -> L -> W -> Prop :=
    fun r l' w' => wstep w w' /\
      match r with
      | None => True
      | Some (c', v) => stage l' = SPend c' /\ kn l' c' /\ C l' w' /\
                        ((vptr v = 0 /\ jd l' = true /\ c' = TAIL) \/ (vptr v <> 0 /\ LV c' v w'))
      end.

  Lemma it_next_it fuel : forall sf s cur l w, wph w = true -> stage l = SPend cur -> kn l cur -> C l w -> D cur w ->
    safeR t (it_next fuel sf t s cur) l w (Pit l w).
  Proof.
    induction fuel as [|f IH]; intros sf s cur l w Hw Hs Hc HC HD; cbn [it_next].
    - cbn. unfold Pit. auto using wstep_refl.
    - apply act_ldn_it; auto. intros p l' Hs' Hc' HC' Hend. cbn [vptr].
      destruct (Nat.eqb_spec p cur) as [Ep|Ep].
      + destruct (Hend Ep) as [Hj Ht]. apply dbind; [auto with dact|]. intros _. cbn. unfold Pit.
        split; [apply wstep_refl|]. rewrite Ep in Hs', Hc'. split; [exact Hs'|]. split; [exact Hc'|]. split; [exact HC'|]. left. auto.
      + apply ConcRel.safeR_bind. eapply ConcRel.safeR_weaken; [|apply protect_it; auto].
        intros [v|] l1 w1 (-> & Hs1 & Hlv); [|cbn; unfold Pit; auto].
        destruct (Nat.eqb_spec (vptr v) 0) as [E0|E0]; cbn [negb].
        * eapply ConcRel.safeR_weaken; [|apply IH; auto].
          -- intros r l2 w2 (Hs2 & Hr). split; [eapply wstep_trans; eauto|exact Hr].
          -- destruct Hs1 as (E & _); congruence.
          -- eapply C_step; eauto.
          -- intros En Hok. exfalso. destruct Hlv as (_ & K & _). apply HX. rewrite <- (K En Hok). exact E0.
        * cbn. unfold Pit. split; [exact Hs1|]. split; [auto|]. split; [auto|]. split; [eapply C_step; eauto|]. right. auto.
  Qed.

  Lemma it_ctor_it fuel sf s node l w : wph w = true -> stage l = SPend node -> kn l node -> C l w ->
    safeR t (it_ctor fuel sf t s node) l w (Pit l w).
  Proof.
    intros Hw Hs Hc HC. unfold it_ctor.
    apply ConcRel.safeR_bind. eapply ConcRel.safeR_weaken; [|apply protect_it; auto].
    intros [v|] l1 w1 (-> & Hs1 & Hlv); [|cbn; unfold Pit; auto].
    destruct (Nat.eqb_spec (vptr v) 0) as [E0|E0]; cbn [negb].
    - eapply ConcRel.safeR_weaken; [|apply it_next_it; auto].
      + intros r l2 w2 (Hs2 & Hr). split; [eapply wstep_trans; eauto|exact Hr].
      + destruct Hs1 as (E & _); congruence.
      + eapply C_step; eauto.
      + intros En Hok. exfalso. destruct Hlv as (_ & K & _). apply HX. rewrite <- (K En Hok). exact E0.
    - cbn. unfold Pit. split; [exact Hs1|]. split; [auto|]. split; [auto|]. split; [eapply C_step; eauto|]. right. auto.
  Qed.
End It.
