(** * MichaelListFullProofs: every operation of the MichaelList model is [Conc.safe] for [Inv2];
      full linearizability (reads included) for every reachable configuration. *)
From Coq Require Import ZArith List String Bool Lia PeanoNat.
From LV Require Import Base.Conc Base.Events Base.Lin Spec.Specs Proofs.LinProofs.
From LV Require Import Model.MichaelList Proofs.MichaelListBase Proofs.MichaelListInv Proofs.MichaelListSteps
                       Proofs.MichaelListLin Proofs.MichaelListActs Proofs.MichaelListProofs
                       Proofs.MichaelListFullInv Proofs.MichaelListFullActs.
Import ListNotations.
Local Open Scope Z_scope.

Notation safe2 := (@Conc.safe G V ev aux2 lview2 view2 Inv2).
Notation "x <- p ;; q" := (Conc.bind p (fun x => q)) (at level 61, p at next level, right associativity).

(** ** plumbing *)
Lemma safe2_assign_guard t s l (Q : unit -> lview2 -> Prop) : Q tt l -> safe2 t (assign_guard t s) l Q.
Proof. destruct l as [lv c]. intros H. unfold assign_guard. apply safe2_neutral with (v := v0); [apply neutral_nop|]. apply safe2_neutral with (v := v0); [apply neutral_nop|]. exact H. Qed.
Lemma safe2_copy_guard t d s l (Q : unit -> lview2 -> Prop) : Q tt l -> safe2 t (copy_guard t d s) l Q.
Proof. destruct l as [lv c]. intros H. unfold copy_guard. apply safe2_neutral with (v := v0); [apply neutral_nop|]. apply safe2_assign_guard. exact H. Qed.
Lemma safe2_clear_guard t s l (Q : unit -> lview2 -> Prop) : Q tt l -> safe2 t (clear_guard t s) l Q.
Proof. destruct l as [lv c]. intros H. unfold clear_guard. apply safe2_neutral with (v := v0); [apply neutral_nop|]. exact H. Qed.
Lemma safe2_retire t l (Q : unit -> lview2 -> Prop) : Q tt l -> safe2 t (retire t) l Q.
Proof. destruct l as [lv c]. intros H. unfold retire. apply safe2_neutral with (v := v0); [apply neutral_nop|]. apply safe2_neutral with (v := v0); [apply neutral_nop|]. exact H. Qed.
Lemma safe2_use_guarded t s l (Q : unit -> lview2 -> Prop) : Q tt l -> safe2 t (use_guarded t s) l Q.
Proof. destruct l as [lv c]. intros H. unfold use_guarded. apply safe2_neutral with (v := v0); [apply neutral_nop|]. apply safe2_neutral with (v := v0); [apply neutral_nop|]. exact H. Qed.
Lemma safe2_cnt_inc ic l t (Q : unit -> lview2 -> Prop) : Q tt l -> safe2 t (cnt_inc ic) l Q.
Proof. destruct l as [lv c]. intros H. unfold cnt_inc. destruct ic; [|exact H]. apply safe2_neutral with (v := v0); [apply neutral_cnt|]. exact H. Qed.
Lemma safe2_cnt_dec ic l t (Q : unit -> lview2 -> Prop) : Q tt l -> safe2 t (cnt_dec ic) l Q.
Proof. destruct l as [lv c]. intros H. unfold cnt_dec. destruct ic; [|exact H]. apply safe2_neutral with (v := v0); [apply neutral_cnt|]. exact H. Qed.
Lemma safe2_free_guards t gs : forall fr l (Q : list nat -> lview2 -> Prop),
  (forall fr', Q fr' l) -> safe2 t (free_guards t gs fr) l Q.
Proof.
  induction gs as [|s gs IH]; intros fr [lv c] Q H; cbn [free_guards]; [apply H|].
  apply safe2_neutral with (v := v0); [apply neutral_nop|]. apply IH. exact H.
Qed.

(** ** the observation rule on the values the programs meet *)
Definition ck_lt (ck : option Z) (k : Z) : Prop := ck = None \/ exists kl, ck = Some kl /\ kl < k.

Lemma obs_rule_marked ck kp k v : vmark v = true -> obs_rule ck kp k v = None.
Proof. unfold obs_rule. intros ->. reflexivity. Qed.
Lemma obs_rule_present kp k v : vmark v = false -> obs_rule (Some k) kp k v = Some true.
Proof. unfold obs_rule. intros ->. now rewrite Z.eqb_refl. Qed.
Lemma obs_rule_gt kl kp k v : k < kl -> obs_rule (Some kl) kp k v = None.
Proof.
  unfold obs_rule. intros H. destruct (vmark v); auto.
  destruct (Z.eqb_spec kl k); [lia|]. destruct (Z.ltb_spec kl k); [lia|]. reflexivity.
Qed.
Lemma obs_rule_lt ck kp k v : vmark v = false -> ck_lt ck k -> obs_rule ck kp k v = absent_rule kp k v.
Proof.
  unfold obs_rule. intros -> [->|(kl & -> & H)]; auto.
  destruct (Z.eqb_spec kl k); [lia|]. destruct (Z.ltb_spec kl k); [|lia]. reflexivity.
Qed.
Lemma absent_null kp k v : vptr v = 0%nat -> absent_rule kp k v = Some false.
Proof. unfold absent_rule. intros ->. reflexivity. Qed.
Lemma absent_none k v : vptr v <> 0%nat -> absent_rule None k v = None.
Proof. unfold absent_rule. intros H. destruct (Nat.eqb_spec (vptr v) 0); [contradiction|reflexivity]. Qed.
Lemma absent_known pc kc k v : vptr v = pc -> pc <> 0%nat -> k < kc -> absent_rule (Some (pc, kc)) k v = Some false.
Proof.
  unfold absent_rule. intros E H0 Hk. subst pc. destruct (Nat.eqb_spec (vptr v) 0); [contradiction|].
  rewrite Nat.eqb_refl. destruct (Z.ltb_spec k kc); [reflexivity|lia].
Qed.
Lemma absent_known_ge pc kc k v : vptr v <> 0%nat -> kc <= k -> absent_rule (Some (pc, kc)) k v = None.
Proof.
  unfold absent_rule. intros H0 Hk. destruct (Nat.eqb_spec (vptr v) 0); [contradiction|].
  destruct (Z.ltb_spec k kc); [lia|]. now rewrite andb_false_r.
Qed.

Lemma obs_rule_veqb ck k v v' : veqb v v' = true -> obs_rule ck None k v' = obs_rule ck None k v.
Proof.
  unfold veqb. intros H. apply andb_true_iff in H. destruct H as [H1 H2].
  apply Nat.eqb_eq in H1. apply Bool.eqb_prop in H2.
  unfold obs_rule, absent_rule. rewrite H1, H2. reflexivity.
Qed.

(** the status after an observation of "present" ([b = true]) / "absent" *)
Definition st_after (o : set_op) (b : bool) (s : status SetSpec) : Prop :=
  open_read s o /\ forall r, obs_res o b = Some r -> s = @Linearized SetSpec o r.

Lemma st_after_lin o b s : open_read s o -> st_after o b (lin_read o b s).
Proof.
  intros H. split; [apply open_read_lin; exact H|]. intros r E. unfold lin_read. rewrite E. reflexivity.
Qed.
Lemma st_after_open o b s : st_after o b s -> open_read s o.
Proof. intros [H _]; exact H. Qed.

Definition lvw (lv : lview) (F : list fact) (s : status SetSpec) : lview := mkLV F (lv_own lv) s.

(** ** protect *)
Lemma safe2_protect fuel : forall t s l ck o lv cd (Q : option V -> lview2 -> Prop),
  cell_key (lv_facts lv) l ck -> open_read (lv_st lv) o ->
  (forall F' s', incl (lv_facts lv) F' -> open_read s' o -> Q None (lvw lv F' s', cd)) ->
  (forall v F' s0, incl (lv_facts lv) F' -> incl (newfacts l v) F' -> open_read s0 o -> (l = 0%nat -> vmark v = false) ->
       Q (Some v) (lvw lv F' (obs_st o (obs_rule ck None (op_key o) v) s0), cd)) ->
  safe2 t (protect fuel t s l) (lv, cd) Q.
Proof.
  induction fuel as [|f IH]; intros t s l ck o lv cd Q Hck Hop HN HS; cbn [protect].
  - cbn [Conc.safe]. destruct lv as [F ow st]. apply (HN F st); [apply incl_refl|exact Hop].
  - eapply safe2_ld with (ck := ck) (kp := None) (o := o); [exact Hck|exact I|exact Hop|]. intros v Hv0.
    apply safe2_neutral with (v := v0); [apply neutral_nop|]. apply safe2_neutral with (v := v0); [apply neutral_nop|].
    set (F1 := newfacts l v ++ lv_facts lv).
    set (s1 := obs_st o (obs_rule ck None (op_key o) v) (lv_st lv)).
    assert (Hop1 : open_read s1 o) by (apply open_read_obs; exact Hop).
    assert (Hck1 : cell_key F1 l ck).
    { destruct Hck as [[-> ->]|(kl & Hkl & ->)]; [left; auto|right; exists kl; split; auto; apply in_or_app; right; exact Hkl]. }
    eapply safe2_ld with (ck := ck) (kp := None) (o := o); [exact Hck1|exact I|exact Hop1|]. intros v' Hv0'.
    cbn [lv_facts lv_own lv_st].
    set (F2 := newfacts l v' ++ F1).
    assert (I0 : incl (lv_facts lv) F2) by (unfold F2, F1; apply incl_appr; apply incl_app_r').
    destruct (veqb v v') eqn:Ev.
    + cbn [Conc.safe]. rewrite (obs_rule_veqb ck (op_key o) v v' Ev).
      apply (HS v F2 s1); auto. unfold F2, F1. apply incl_appr. apply incl_appl. apply incl_refl.
    + change (safe2 t (protect f t s l) (lvw lv F2 (obs_st o (obs_rule ck None (op_key o) v') s1), cd) Q).
      apply IH with (ck := ck) (o := o).
      * destruct Hck as [[-> ->]|(kl & Hkl & ->)]; [left; auto|right; exists kl; split; auto; apply I0; exact Hkl].
      * apply open_read_obs; exact Hop1.
      * intros F' s' HF Hs'. apply (HN F' s'); auto. eapply incl_tran; eauto.
      * intros w F' s0 HF HF' Hs0 Hw0. apply (HS w F' s0); auto. eapply incl_tran; eauto.
Qed.

(** ** search *)
Definition search_inv2 (F : list fact) (k : Z) (o : set_op) (s : status SetSpec) (st : option (loc * V)) : Prop :=
  open_read s o /\
  match st with
  | None => True
  | Some (pPrev, pCur) =>
      ppub F pPrev /\ klt F pPrev k /\ (vptr pCur = 0%nat \/ In (FPub (vptr pCur) (vkey pCur)) F) /\
      (vptr pCur = 0%nat -> st_after o false s)
  end.

Lemma klt_cell F l k : klt F l k -> exists ck, cell_key F l ck /\ ck_lt ck k.
Proof.
  intros [->|(kl & Hkl & Hlt)].
  - exists None. split; [left; auto|left; reflexivity].
  - exists (Some kl). split; [right; exists kl; auto|right; exists kl; auto].
Qed.

Lemma cell_key_incl F F' l ck : incl F F' -> cell_key F l ck -> cell_key F' l ck.
Proof. intros H [[-> ->]|(kl & Hkl & ->)]; [left; auto|right; exists kl; auto]. Qed.

Lemma safe2_search fuel : forall t g0 g1 g2 o st lv cd (Q : option (bool * pos) -> lview2 -> Prop),
  search_inv2 (lv_facts lv) (op_key o) o (lv_st lv) st ->
  (forall F' s', incl (lv_facts lv) F' -> open_read s' o -> Q None (lvw lv F' s', cd)) ->
  (forall F' s' found p, incl (lv_facts lv) F' -> pos_ok F' (op_key o) found p -> st_after o found s' ->
        Q (Some (found, p)) (lvw lv F' s', cd)) ->
  safe2 t (search fuel t g0 g1 g2 (op_key o) st) (lv, cd) Q.
Proof.
  induction fuel as [|f IH]; intros t g0 g1 g2 o st lv cd Q Hinv HN HS; cbn [search].
  - cbn [Conc.safe]. destruct lv as [F ow s]. destruct Hinv as [Hop _]. apply (HN F s); [apply incl_refl|exact Hop].
  - set (k := op_key o) in *. destruct Hinv as [Hop Hinv]. destruct st as [[pPrev pCur]|].
    + destruct Hinv as (Hpp & Hkl & Hcur & Hnull).
      destruct (Nat.eqb_spec (vptr pCur) 0) as [E0|E0].
      * cbn [Conc.safe]. destruct lv as [F own s0]. apply (HS F s0 false (mkPos pPrev 0 0)); [apply incl_refl| |apply Hnull; exact E0].
        repeat split; auto.
      * destruct Hcur as [Hcur|Hcur]; [contradiction|].
        set (pc := vptr pCur) in *. set (kc := vkey pCur) in *.
        apply Conc.safe_bind. eapply safe2_protect with (ck := Some kc) (o := o).
        -- right. exists kc. auto.
        -- exact Hop.
        -- intros F' s' HF Hs'. cbn [Conc.safe]. apply HN; auto.
        -- intros pNext F1 s0 HF1 HN1 Hs0 _. cbn beta iota.
           set (s1 := obs_st o (obs_rule (Some kc) None k pNext) s0).
           assert (Hop1 : open_read s1 o) by (apply open_read_obs; exact Hs0).
           destruct (klt_cell _ _ _ Hkl) as (ckp & Hckp & Hlt).
           eapply safe2_ld with (ck := ckp) (kp := Some (pc, kc)) (o := o);
             [eapply cell_key_incl; [exact HF1|exact Hckp]|cbn; apply HF1; exact Hcur|exact Hop1|].
           intros pv Hpv0. cbn [lv_facts lv_own lv_st lvw].
           set (F2 := newfacts pPrev pv ++ F1).
           set (s2 := obs_st o (obs_rule ckp (Some (pc, kc)) k pv) s1).
           assert (Hop2 : open_read s2 o) by (apply open_read_obs; exact Hop1).
           assert (I12 : incl F1 F2) by (unfold F2; apply incl_app_r').
           assert (I02 : incl (lv_facts lv) F2) by (eapply incl_tran; eauto).
           destruct (Nat.eqb_spec (vptr pv) pc) as [Epv|Epv]; cbn [andb negb].
           2: { change (safe2 t (search f t g0 g1 g2 (op_key o) None) (lvw lv F2 s2, cd) Q). apply IH.
                - split; [exact Hop2|exact I].
                - intros F' s' HF Hs'. apply HN; auto. eapply incl_tran; eauto.
                - intros F' s' fd p HF Hp Hs'. apply HS; auto. eapply incl_tran; eauto. }
           destruct (vmark pv) eqn:Empv; cbn [negb].
           { change (safe2 t (search f t g0 g1 g2 (op_key o) None) (lvw lv F2 s2, cd) Q). apply IH.
             - split; [exact Hop2|exact I].
             - intros F' s' HF Hs'. apply HN; auto. eapply incl_tran; eauto.
             - intros F' s' fd p HF Hp Hs'. apply HS; auto. eapply incl_tran; eauto. }
           destruct (vmark pNext) eqn:Emk.
           ++ (* help to unlink the marked pCur *)
              eapply safe2_cas_help with (o := o).
              ** eapply ppub_incl; [exact I02|exact Hpp].
              ** eapply klt_incl; [exact I02|exact Hkl].
              ** apply I12. apply (newfacts_frozen _ _ _ HN1 Emk).
              ** exact Hop2.
              ** cbn beta iota. change (vmark (vok true)) with true. cbn iota. cbn [lv_facts lv_own lv_st lvw].
                 set (s3 := if Nat.eqb (vptr pNext) 0 then lin_read o false s2 else s2).
                 apply Conc.safe_bind. apply safe2_retire. apply Conc.safe_bind. apply safe2_copy_guard.
                 change (safe2 t (search f t g0 g1 g2 (op_key o) (Some (pPrev, pNext))) (lvw lv F2 s3, cd) Q). apply IH.
                 --- cbn [lvw lv_facts lv_st]. split.
                     { unfold s3. destruct (Nat.eqb (vptr pNext) 0); [apply open_read_lin|]; exact Hop2. }
                     split; [eapply ppub_incl; [exact I02|exact Hpp]|].
                     split; [eapply klt_incl; [exact I02|exact Hkl]|].
                     split; [destruct (newfacts_pub _ _ _ HN1) as [Hz|Hz]; [left; exact Hz|right; apply I12; exact Hz]|].
                     intros Hz. unfold s3. rewrite Hz. cbn [Nat.eqb]. apply st_after_lin. exact Hop2.
                 --- intros F' s' HF Hs'. apply HN; auto. eapply incl_tran; eauto.
                 --- intros F' s' fd p HF Hp Hs'. apply HS; auto. eapply incl_tran; eauto.
              ** cbn beta iota. change (vmark (vok false)) with false. cbn iota.
                 change (safe2 t (search f t g0 g1 g2 (op_key o) None) (lvw lv F2 s2, cd) Q). apply IH.
                 --- split; [exact Hop2|exact I].
                 --- intros F' s' HF Hs'. apply HN; auto. eapply incl_tran; eauto.
                 --- intros F' s' fd p HF Hp Hs'. apply HS; auto. eapply incl_tran; eauto.
           ++ destruct (Z.leb_spec k kc) as [Hle|Hgt].
              ** (* stop here *)
                 cbn [Conc.safe]. apply (HS F2 s2 (Z.eqb kc k) (mkPos pPrev pc (vptr pNext))); [exact I02| |].
                 --- cbn [pos_ok pprev pcur]. split; [eapply ppub_incl; [exact I02|exact Hpp]|].
                     split; [eapply klt_incl; [exact I02|exact Hkl]|].
                     destruct (Z.eqb_spec kc k) as [Ek|Ek].
                     +++ rewrite <- Ek. apply I02. exact Hcur.
                     +++ right. exists kc. split; [apply I02; exact Hcur|lia].
                 --- destruct (Z.eqb_spec kc k) as [Ek|Ek].
                     +++ (* present: observed by protect, the validation load does not fire *)
                         assert (E1 : s1 = lin_read o true s0).
                         { unfold s1. rewrite Ek. rewrite obs_rule_present by exact Emk. reflexivity. }
                         assert (E2 : s2 = s1).
                         { unfold s2. rewrite obs_rule_lt by auto. rewrite absent_known_ge; [reflexivity|rewrite Epv; exact E0|lia]. }
                         rewrite E2, E1. apply st_after_lin. exact Hs0.
                     +++ (* absent: observed by the validation load *)
                         assert (E2 : s2 = lin_read o false s1).
                         { unfold s2. rewrite obs_rule_lt by auto. rewrite absent_known; [reflexivity|exact Epv|exact E0|lia]. }
                         rewrite E2. apply st_after_lin. exact Hop1.
              ** (* advance *)
                 apply Conc.safe_bind. apply safe2_copy_guard. apply Conc.safe_bind. apply safe2_copy_guard.
                 change (safe2 t (search f t g0 g1 g2 (op_key o) (Some (LNext pc, pNext))) (lvw lv F2 s2, cd) Q). apply IH.
                 --- cbn [lvw lv_facts lv_st]. unfold LNext. split; [exact Hop2|].
                     split; [right; eexists; apply I02; exact Hcur|].
                     split; [right; exists kc; split; [apply I02; exact Hcur|lia]|].
                     split; [destruct (newfacts_pub _ _ _ HN1) as [Hz|Hz]; [left; exact Hz|right; apply I12; exact Hz]|].
                     intros Hz.
                     assert (E1 : s1 = lin_read o false s0).
                     { unfold s1. rewrite obs_rule_lt; [|exact Emk|right; exists kc; split; [reflexivity|lia]].
                       rewrite absent_null by exact Hz. reflexivity. }
                     assert (E2 : s2 = s1).
                     { unfold s2. rewrite obs_rule_lt by auto. rewrite absent_known_ge; [reflexivity|rewrite Epv; exact E0|lia]. }
                     rewrite E2, E1. apply st_after_lin. exact Hs0.
                 --- intros F' s' HF Hs'. apply HN; auto. eapply incl_tran; eauto.
                 --- intros F' s' fd p HF Hp Hs'. apply HS; auto. eapply incl_tran; eauto.
    + apply Conc.safe_bind. eapply safe2_protect with (ck := None) (o := o).
      * left. auto.
      * exact Hop.
      * intros F' s' HF Hs'. cbn [Conc.safe]. apply HN; auto.
      * intros v F1 s0 HF1 HN1 Hs0 Hv0. cbn beta iota.
        set (s1 := obs_st o (obs_rule None None k v) s0).
        change (safe2 t (search f t g0 g1 g2 (op_key o) (Some (LHead, v))) (lvw lv F1 s1, cd) Q). apply IH.
        -- cbn [lvw lv_facts lv_st]. split; [apply open_read_obs; exact Hs0|].
           split; [left; reflexivity|]. split; [left; reflexivity|].
           split; [exact (newfacts_pub _ _ _ HN1)|].
           intros Hz. unfold s1. rewrite obs_rule_lt; [|apply Hv0; reflexivity|left; reflexivity].
           rewrite absent_null by exact Hz. apply st_after_lin. exact Hs0.
        -- intros F' s' HF Hs'. apply HN; auto. eapply incl_tran; eauto.
        -- intros F' s' fd p HF Hp Hs'. apply HS; auto. eapply incl_tran; eauto.
Qed.

(** ** link_node, unlink_node *)
Lemma safe2_link_node t own kk p lv cd o (Q : bool * nat -> lview2 -> Prop) :
  pos_ok (lv_facts lv) kk false p ->
  open_read (lv_st lv) o -> ins_op o kk ->
  (own = None \/ exists n nx, own = Some n /\ lv_own lv = Some (n, kk, nx)) ->
  (forall n, Q (true, n) (mkLV (FPub n kk :: lv_facts lv) None (@Linearized SetSpec o (ins_res o)), cd)) ->
  (forall n, Q (false, n) (mkLV (lv_facts lv) (Some (n, kk, 0%nat)) (lv_st lv), cd)) ->
  safe2 t (link_node own kk p) (lv, cd) Q.
Proof.
  intros (Hpp & Hkl & Hcur) Hst Hop Hown HQ1 HQ0. unfold link_node.
  assert (Hcas : forall n lv1, lv_facts lv1 = lv_facts lv -> lv_own lv1 = Some (n, kk, pcur p) -> lv_st lv1 = lv_st lv ->
     safe2 t (Act (a_cas (pprev p) (pcur p) n false)
               (fun r => if vmark r then Ret (true, n) else Act (a_st_next n 0) (fun _ => Ret (false, n)))) (lv1, cd) Q).
  { intros n lv1 E1 E2 E3. eapply safe2_cas_link with (kk := kk) (o := o); rewrite ?E1, ?E3; eauto.
    - cbn [vmark vok Conc.safe]. apply HQ1.
    - cbn [vmark vok]. eapply safe2_st_next; [exact E2|]. intros v Hv. cbn [Conc.safe lv_facts lv_st].
      rewrite E1, E3. apply HQ0. }
  destruct Hown as [->|(n & nx & -> & Hn)].
  - apply safe2_alloc_st. intros n. cbn [vptr]. apply Hcas; reflexivity.
  - eapply safe2_st_next; [exact Hn|]. intros v Hv. rewrite Hv. apply Hcas; reflexivity.
Qed.

Lemma safe2_unlink_node t p kk lv cd (Q : bool -> lview2 -> Prop) :
  pos_ok (lv_facts lv) kk true p -> open_read (lv_st lv) (SErase kk) ->
  Q true (mkLV (FFrozen (pcur p) (pnext p) :: lv_facts lv) (lv_own lv) (@Linearized SetSpec (SErase kk) (RBool true)), cd) ->
  Q false (lv, cd) ->
  safe2 t (unlink_node t p) (lv, cd) Q.
Proof.
  intros (Hpp & Hkl & Hcur) Hst HQ1 HQ0. unfold unlink_node, LNext.
  eapply safe2_cas_mark; [exact Hcur|exact Hst|..].
  - cbn [vmark vok]. apply safe2_cas_unlink.
    + cbn [lv_facts]. eapply ppub_incl; [|exact Hpp]. apply incl_tl. apply incl_refl.
    + cbn [lv_facts]. left. reflexivity.
    + cbn [vmark vok]. apply Conc.safe_bind. apply safe2_retire. exact HQ1.
    + cbn [vmark vok Conc.safe]. exact HQ1.
  - cbn [vmark vok Conc.safe]. exact HQ0.
Qed.

Lemma open_read_pending o : open_read (@Pending SetSpec o) o.
Proof. left; reflexivity. Qed.

(** ** the operation loops *)
Lemma safe2_insert_loop fuel : forall sf ic withf t g0 g1 g2 kk fr own lv cd
    (Q : out (bool * option nat) -> lview2 -> Prop),
  open_read (lv_st lv) (SInsert kk) ->
  (own = None \/ exists n nx, own = Some n /\ lv_own lv = Some (n, kk, nx)) ->
  (forall l', Q None l') ->
  (forall F' own', Q (Some (false, None)) (mkLV F' own' (@Linearized SetSpec (SInsert kk) (RBool false)), cd)) ->
  (forall F' n, Q (Some (true, Some n)) (mkLV F' None (@Linearized SetSpec (SInsert kk) (RBool true)), cd)) ->
  safe2 t (insert_loop fuel sf ic withf t g0 g1 g2 kk fr own) (lv, cd) Q.
Proof.
  induction fuel as [|f IH]; intros sf ic withf t g0 g1 g2 kk fr own lv cd Q Hst Hown HN HF HT; cbn [insert_loop].
  - cbn [Conc.safe]. apply HN.
  - apply Conc.safe_bind. change kk with (op_key (SInsert kk)) at 1.
    apply safe2_search with (o := SInsert kk); [split; [exact Hst|exact I]|..].
    + intros F' s' _ _. cbn [Conc.safe]. apply HN.
    + intros F' s' found p HF' Hp [Hs' Hres]. cbn [op_key] in Hp. destruct found.
      * cbn [Conc.safe]. unfold lvw. rewrite (Hres (RBool false) eq_refl). apply HF.
      * assert (Hown' : own = None \/ exists n nx, own = Some n /\ lv_own (lvw lv F' s') = Some (n, kk, nx)) by exact Hown.
        destruct withf.
        -- destruct (alloc1 fr) as [g fr']. apply Conc.safe_bind. apply safe2_assign_guard.
           apply Conc.safe_bind. eapply safe2_link_node with (o := SInsert kk); [exact Hp|exact Hs'|left; reflexivity|exact Hown'|..].
           ++ intros n. cbn [fst snd]. apply safe2_emit_other; [reflexivity|reflexivity|].
              apply Conc.safe_bind. apply safe2_cnt_inc. apply Conc.safe_bind. apply safe2_clear_guard.
              cbn [Conc.safe]. apply HT.
           ++ intros n. cbn [fst snd]. apply Conc.safe_bind. apply safe2_clear_guard.
              apply IH; auto. right. exists n, 0%nat. split; reflexivity.
        -- apply Conc.safe_bind. eapply safe2_link_node with (o := SInsert kk); [exact Hp|exact Hs'|left; reflexivity|exact Hown'|..].
           ++ intros n. cbn [fst snd]. apply Conc.safe_bind. apply safe2_cnt_inc. cbn [Conc.safe]. apply HT.
           ++ intros n. cbn [fst snd]. apply IH; auto. right. exists n, 0%nat. split; reflexivity.
Qed.

Lemma safe2_update_loop fuel : forall sf ic allow t g0 g1 g2 kk fr own lv cd
    (Q : out (bool * bool * option nat) -> lview2 -> Prop),
  open_read (lv_st lv) (SUpdate kk allow) ->
  (own = None \/ exists n nx, own = Some n /\ lv_own lv = Some (n, kk, nx)) ->
  (forall l', Q None l') ->
  (forall F' own', Q (Some (true, false, None)) (mkLV F' own' (@Linearized SetSpec (SUpdate kk allow) (RPair true false)), cd)) ->
  (forall F' own', allow = false -> Q (Some (false, false, None)) (mkLV F' own' (@Linearized SetSpec (SUpdate kk allow) (RPair false false)), cd)) ->
  (forall F' n, Q (Some (true, true, Some n)) (mkLV F' None (@Linearized SetSpec (SUpdate kk allow) (RPair true true)), cd)) ->
  safe2 t (update_loop fuel sf ic allow t g0 g1 g2 kk fr own) (lv, cd) Q.
Proof.
  induction fuel as [|f IH]; intros sf ic allow t g0 g1 g2 kk fr own lv cd Q Hst Hown HN HE HF HT; cbn [update_loop].
  - cbn [Conc.safe]. apply HN.
  - apply Conc.safe_bind. change kk with (op_key (SUpdate kk allow)) at 1.
    apply safe2_search with (o := SUpdate kk allow); [split; [exact Hst|exact I]|..].
    + intros F' s' _ _. cbn [Conc.safe]. apply HN.
    + intros F' s' found p HF' Hp [Hs' Hres]. cbn [op_key] in Hp.
      assert (Hown' : own = None \/ exists n nx, own = Some n /\ lv_own (lvw lv F' s') = Some (n, kk, nx)) by exact Hown.
      destruct found.
      * destruct Hp as (Hpp & Hkl & Hcur). unfold LNext.
        eapply safe2_ld with (ck := Some kk) (kp := None) (o := SUpdate kk allow); [right; exists kk; auto|exact I|exact Hs'|].
        intros v _. cbn [op_key lvw lv_facts lv_own lv_st].
        destruct (vmark v) eqn:Em.
        -- apply IH; auto. cbn [lv_st]. apply open_read_obs. exact Hs'.
        -- rewrite obs_rule_present by exact Em. cbn [obs_st].
           replace (lin_read (SUpdate kk allow) true s') with (@Linearized SetSpec (SUpdate kk allow) (RPair true false))
             by (unfold lin_read; destruct allow; reflexivity).
           apply safe2_emit_other; [reflexivity|reflexivity|]. cbn [Conc.safe]. apply HE.
      * destruct allow; cbn [negb].
        -- destruct (alloc1 fr) as [g fr']. apply Conc.safe_bind. apply safe2_assign_guard.
           apply Conc.safe_bind. eapply safe2_link_node with (o := SUpdate kk true); [exact Hp|exact Hs'|right; reflexivity|exact Hown'|..].
           ++ intros n. cbn [fst snd]. apply Conc.safe_bind. apply safe2_cnt_inc.
              apply safe2_emit_other; [reflexivity|reflexivity|].
              apply Conc.safe_bind. apply safe2_clear_guard. cbn [Conc.safe]. apply HT.
           ++ intros n. cbn [fst snd]. apply Conc.safe_bind. apply safe2_clear_guard.
              apply IH; auto. right. exists n, 0%nat. split; reflexivity.
        -- cbn [Conc.safe]. unfold lvw. rewrite (Hres (RPair false false) eq_refl). apply HF. reflexivity.
Qed.

Lemma safe2_erase_loop fuel : forall sf ic code mine t g0 g1 g2 kk lv cd (Q : out bool -> lview2 -> Prop),
  open_read (lv_st lv) (SErase kk) ->
  (forall l', Q None l') ->
  (forall F' own' s', open_read s' (SErase kk) -> (Z.eqb code 6 = false -> s' = @Linearized SetSpec (SErase kk) (RBool false)) ->
        Q (Some false) (mkLV F' own' s', cd)) ->
  (forall F' own', Q (Some true) (mkLV F' own' (@Linearized SetSpec (SErase kk) (RBool true)), cd)) ->
  safe2 t (erase_loop fuel sf ic code mine t g0 g1 g2 kk) (lv, cd) Q.
Proof.
  induction fuel as [|f IH]; intros sf ic code mine t g0 g1 g2 kk lv cd Q Hst HN HF HT; cbn [erase_loop].
  - cbn [Conc.safe]. apply HN.
  - apply Conc.safe_bind. change kk with (op_key (SErase kk)) at 1.
    apply safe2_search with (o := SErase kk); [split; [exact Hst|exact I]|..].
    + intros F' s' _ _. cbn [Conc.safe]. apply HN.
    + intros F' s' found p HF' Hp [Hs' Hres]. cbn [op_key] in Hp. destruct found.
      * destruct (Z.eqb code 6 && negb (Nat.eqb (pcur p) mine)) eqn:Ec.
        -- cbn [Conc.safe]. unfold lvw. apply HF; [exact Hs'|].
           intros E6. rewrite E6 in Ec. discriminate.
        -- apply Conc.safe_bind. eapply safe2_unlink_node; [exact Hp|exact Hs'|..].
           ++ destruct (Z.eqb code 5).
              ** apply safe2_emit_other; [reflexivity|reflexivity|]. apply Conc.safe_bind. apply safe2_cnt_dec. cbn [Conc.safe]. apply HT.
              ** apply Conc.safe_bind. apply safe2_cnt_dec. cbn [Conc.safe]. apply HT.
           ++ apply IH; auto.
      * cbn [Conc.safe]. unfold lvw. apply HF; [exact Hs'|]. intros _. apply (Hres (RBool false) eq_refl).
Qed.

(** ** one client operation *)
Lemma safe2_give_up t l (Q : out lstate -> lview2 -> Prop) :
  (forall l', Q None l') -> safe2 t give_up l Q.
Proof. destruct l as [lv c]. intros H. unfold give_up. apply safe2_emit_other; [reflexivity|reflexivity|]. cbn [Conc.safe]. apply H. Qed.

Lemma safe2_run_op fuel sf ic t o ls lv cd0 (Q : out lstate -> lview2 -> Prop) :
  lv_st lv = @Idle SetSpec ->
  (forall l', Q None l') ->
  (forall ls' F' own' cd', Q (Some ls') (mkLV F' own' (@Idle SetSpec), cd')) ->
  safe2 t (run_op fuel sf ic t o ls) (lv, cd0) Q.
Proof.
  intros Hi HN HS. unfold run_op, ev_inv.
  set (code := nth 0 o 0). set (k := nth 1 o 0). set (x := nth 2 o 0). set (v3 := nth 3 o 0).
  clearbody code k x v3. clear o.
  destruct ls as [fr own]. destruct (alloc3 fr) as [[[g0 g1] g2] fr1].
  destruct (Z.leb 1 code && Z.leb code 10) eqn:Hrange.
  2: { cbn [Conc.safe]. destruct lv as [F ow st]; cbn in Hi; subst st. apply HS. }
  apply safe2_emit_inv; [exact Hi|].
  destruct (Z.eqb code 1 || Z.eqb code 2) eqn:E12.
  { (* insert *)
    assert (Eop : spec_op code k x = SInsert k) by (unfold spec_op; rewrite E12; reflexivity).
    assert (E6 : Z.eqb code 6 = false) by (rewrite orb_true_iff, !Z.eqb_eq in E12; apply Z.eqb_neq; lia).
    rewrite Eop.
    apply Conc.safe_bind. apply safe2_insert_loop; [apply open_read_pending|left; reflexivity|..].
    - intros l'. apply safe2_give_up. exact HN.
    - intros F' own'. apply Conc.safe_bind. apply safe2_free_guards. intros fr2.
      eapply safe2_emit_ret; [reflexivity|reflexivity|rewrite E6; reflexivity|]. cbn [Conc.safe]. apply HS.
    - intros F' n. apply Conc.safe_bind. apply safe2_free_guards. intros fr2.
      eapply safe2_emit_ret; [reflexivity|reflexivity|rewrite E6; reflexivity|]. cbn [Conc.safe]. apply HS. }
  destruct (Z.eqb code 3) eqn:E3.
  { (* update *)
    assert (Eop : spec_op code k x = SUpdate k (Z.odd x)) by (unfold spec_op; rewrite E12, E3; reflexivity).
    assert (E6 : Z.eqb code 6 = false) by (apply Z.eqb_eq in E3; apply Z.eqb_neq; lia).
    rewrite Eop.
    apply Conc.safe_bind. apply safe2_update_loop; [apply open_read_pending|left; reflexivity|..].
    - intros l'. apply safe2_give_up. exact HN.
    - intros F' own'. apply Conc.safe_bind. apply safe2_free_guards. intros fr2.
      eapply safe2_emit_ret; [reflexivity|reflexivity|rewrite E6; reflexivity|]. cbn [Conc.safe]. apply HS.
    - intros F' own' _. apply Conc.safe_bind. apply safe2_free_guards. intros fr2.
      eapply safe2_emit_ret; [reflexivity|reflexivity|rewrite E6; reflexivity|]. cbn [Conc.safe]. apply HS.
    - intros F' n. apply Conc.safe_bind. apply safe2_free_guards. intros fr2.
      eapply safe2_emit_ret; [reflexivity|reflexivity|rewrite E6; reflexivity|]. cbn [Conc.safe]. apply HS. }
  destruct (Z.eqb code 4 || Z.eqb code 5 || Z.eqb code 6) eqn:E456.
  { (* erase, erase with functor, unlink *)
    assert (Eop : spec_op code k x = SErase k).
    { unfold spec_op. rewrite E12, E3. replace (Z.leb 4 code && Z.leb code 7) with true; [reflexivity|].
      symmetry. apply andb_true_iff. rewrite !orb_true_iff, !Z.eqb_eq in E456. rewrite !Z.leb_le. lia. }
    rewrite Eop.
    apply Conc.safe_bind. apply safe2_erase_loop; [apply open_read_pending|..].
    - intros l'. apply safe2_give_up. exact HN.
    - intros F' own' s' Hs' Hlin. apply Conc.safe_bind. apply safe2_free_guards. intros fr2.
      destruct (Z.eqb code 6) eqn:E6.
      + eapply safe2_emit_ret_drop; [exact Hs'|rewrite E6; reflexivity|]. cbn [Conc.safe]. apply HS.
      + eapply safe2_emit_ret; [cbn [lv_st]; apply Hlin; reflexivity|reflexivity|rewrite E6; reflexivity|]. cbn [Conc.safe]. apply HS.
    - intros F' own'. apply Conc.safe_bind. apply safe2_free_guards. intros fr2.
      eapply safe2_emit_ret; [reflexivity|reflexivity|apply andb_false_r|]. cbn [Conc.safe]. apply HS. }
  destruct (Z.eqb code 7) eqn:E7.
  { (* extract *)
    assert (Eop : spec_op code k x = SErase k).
    { unfold spec_op. rewrite E12, E3. apply Z.eqb_eq in E7. subst code. reflexivity. }
    assert (E6 : Z.eqb code 6 = false) by (apply Z.eqb_eq in E7; apply Z.eqb_neq; lia).
    rewrite Eop.
    apply Conc.safe_bind. apply safe2_erase_loop; [apply open_read_pending|..].
    - intros l'. apply safe2_give_up. exact HN.
    - intros F' own' s' Hs' Hlin. apply Conc.safe_bind. apply safe2_free_guards. intros fr2.
      eapply safe2_emit_ret; [cbn [lv_st]; apply Hlin; reflexivity|reflexivity|rewrite E6; reflexivity|]. cbn [Conc.safe]. apply HS.
    - intros F' own'. apply Conc.safe_bind. apply safe2_free_guards. intros fr2.
      apply Conc.safe_bind. apply safe2_use_guarded. apply Conc.safe_bind. apply safe2_free_guards. intros fr3.
      eapply safe2_emit_ret; [reflexivity|reflexivity|rewrite E6; reflexivity|]. cbn [Conc.safe]. apply HS. }
  (* get, contains, find with functor *)
  assert (Eop : spec_op code k x = SContains k).
  { unfold spec_op. rewrite E12, E3. replace (Z.leb 4 code && Z.leb code 7) with false; [reflexivity|].
    symmetry. apply andb_false_iff.
    rewrite !orb_false_iff, !Z.eqb_neq in E456. rewrite Z.eqb_neq in E7.
    destruct (Z.leb_spec 4 code); [right|left; reflexivity]. apply Z.leb_gt. lia. }
  assert (E6 : Z.eqb code 6 = false) by (rewrite !orb_false_iff in E456; tauto).
  rewrite Eop.
  apply Conc.safe_bind. change k with (op_key (SContains k)) at 1.
  apply safe2_search with (o := SContains k); [split; [apply open_read_pending|exact I]|..].
  - intros F' s' _ _. apply safe2_give_up. exact HN.
  - intros F' s' found p _ _ [Hs' Hres].
    assert (Hst : lv_st (lvw (mkLV (lv_facts lv) (lv_own lv) (@Pending SetSpec (SContains k))) F' s') = @Linearized SetSpec (SContains k) (RBool found))
      by (cbn; apply Hres; reflexivity).
    destruct (Z.eqb code 8 && found) eqn:E8.
    + apply andb_true_iff in E8. destruct E8 as [_ ->].
      apply Conc.safe_bind. apply safe2_free_guards. intros fr2.
      apply Conc.safe_bind. apply safe2_use_guarded. apply Conc.safe_bind. apply safe2_free_guards. intros fr3.
      eapply safe2_emit_ret; [exact Hst|reflexivity|rewrite E6; reflexivity|]. cbn [Conc.safe]. apply HS.
    + destruct (Z.eqb code 10 && found) eqn:E10.
      * apply andb_true_iff in E10. destruct E10 as [_ ->].
        apply safe2_emit_other; [reflexivity|reflexivity|].
        apply Conc.safe_bind. apply safe2_free_guards. intros fr2.
        eapply safe2_emit_ret; [exact Hst|reflexivity|rewrite E6; reflexivity|]. cbn [Conc.safe]. apply HS.
      * apply Conc.safe_bind. apply safe2_free_guards. intros fr2.
        eapply safe2_emit_ret; [exact Hst|destruct found; reflexivity|rewrite E6; reflexivity|]. cbn [Conc.safe]. apply HS.
Qed.

Lemma safe2_run_ops fuel sf ic t os : forall ls lv cd,
  lv_st lv = @Idle SetSpec -> safe2 t (run_ops fuel sf ic t os ls) (lv, cd) (fun _ _ => True).
Proof.
  induction os as [|o os IH]; intros ls lv cd Hi; cbn [run_ops]; [exact I|].
  apply Conc.safe_bind. apply safe2_run_op; [exact Hi|..].
  - intros l'. exact I.
  - intros ls' F' own' cd'. apply IH. reflexivity.
Qed.

Lemma safe2_thread fuel sf ic t os lv cd :
  lv_st lv = @Idle SetSpec -> safe2 t (thread_prog fuel sf ic t os) (lv, cd) (@Conc.QTrue lview2).
Proof.
  intros Hi. unfold thread_prog. apply safe2_neutral with (v := v0); [apply neutral_begin|].
  eapply Conc.safe_weaken; [|apply safe2_run_ops; exact Hi]. intros; exact I.
Qed.

Definition aux20 : aux2 := mkAux2 aux0 (fun _ => 0).

Lemma Inv2_init : Inv2 init aux20 [].
Proof.
  destruct Inv_init as (L & HS & [H1 H2]). exists L. split; [exact HS|].
  constructor; cbn [b_base aux20].
  - exact H1.
  - exists []. split; [cbn; reflexivity|]. intros t Hn. exfalso. apply Hn. reflexivity.
Qed.

Lemma init_ok2 fuel sf ic ths : Conc.cfg_ok view2 Inv2 (init_cfg fuel sf ic ths).
Proof.
  exists aux20. split; [exact Inv2_init|].
  intros t p Hp. cbn [init_cfg Conc.threads] in Hp.
  destruct (thread_progs_nth _ _ _ _ _ _ _ Hp) as [os ->]. cbn [Nat.add].
  apply safe2_thread. reflexivity.
Qed.

(** ** full linearizability, every schedule *)
Theorem mlist_linearizable_lp fuel sf ic ths c :
  Conc.reach (init_cfg fuel sf ic ths) c ->
  exists atr, lp_valid SetSpec atr /\ erase atr = full_hist (Conc.trace c).
Proof.
  intros Hr. destruct (Conc.reach_Inv (init_ok2 fuel sf ic ths) Hr) as (a & L & _ & [(S & st & H1 & _) (pend & H2 & _)]).
  exists (a_atr (b_base a)). split; [exists (S, st); exact H1|]. unfold full_hist. rewrite H2. reflexivity.
Qed.

Theorem mlist_linearizable fuel sf ic ths c :
  Conc.reach (init_cfg fuel sf ic ths) c -> linearizable SetSpec (full_hist (Conc.trace c)).
Proof.
  intros Hr. destruct (mlist_linearizable_lp _ _ _ _ _ Hr) as (atr & Hv & <-).
  apply lp_valid_linearizable. exact Hv.
Qed.
