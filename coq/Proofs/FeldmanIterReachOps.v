(** * The set operations of LV.Model.Feldman in the step relation [SR] of FeldmanIterTraceDefs: they leave the ghost value of
      the iterators alone (FeldmanStepRel.safe_run_op + [strengthen]); all their events are quiet. *)
From Coq Require Import ZArith NArith List Bool Arith PeanoNat Lia String.
From LV Require Import Base.Conc Base.Events Model.Feldman Model.FeldmanIter.
From LV Require Import Proofs.FeldmanStepInv Proofs.FeldmanStepThm Proofs.ConcRel Proofs.FeldmanIterTraceDefs.
From LV Require Proofs.FeldmanStepRel.
Import ListNotations.

Set Implicit Arguments.

Ltac qacc := split; [intros ?g; auto with facc | intros ?v].

Section Ops.
  Variables (hbits abits W : nat) (hs : list N).
  Hypothesis Hh : 0 < hbits.
  Hypothesis Ha : 0 < abits.

  Notation Inv := (@FeldmanStepInv.Inv hbits abits hs).
  Notation prog := (Conc.prog G V ev).
  Notation SR := (@FeldmanIterTraceDefs.SR hs).
  Notation SR1 := (@FeldmanIterTraceDefs.SR1 hs).
  Notation safeR := (@ConcRel.safeR G V ev Aux L WI view Inv SR).

  Variable w : WI.

  Lemma q_traverse h : forall sf p, q_prog w (traverse abits sf h p).
  Proof.
    induction sf as [|sf IH]; intros p; cbn [traverse q_prog]; [exact I|]. qacc.
    destruct (Nat.eqb (sbits (vslot v)) 2); [apply IH|]. destruct (Nat.eqb (sbits (vslot v)) 1); [apply IH|exact I].
  Qed.

  Lemma q_protect_loop t s p : forall sf cur, q_prog w (protect_loop sf t s p cur).
  Proof.
    induction sf as [|sf IH]; intros cur; cbn [protect_loop q_prog]; [exact I|].
    unfold a_gst, a_sync. qacc. qacc. qacc. destruct (slot_eqb (vslot v1) (vslot cur)); [exact I|apply IH].
  Qed.

  Lemma q_protect sf t s p : q_prog w (protect sf t s p).
  Proof. unfold protect. cbn [q_prog]. qacc. apply q_protect_loop. Qed.

  Lemma q_protect_arr t s p : forall sf, q_prog w (protect_arr sf t s p).
  Proof.
    induction sf as [|sf IH]; cbn [protect_arr q_prog]; [exact I|].
    unfold a_gst, a_sync. qacc. qacc. qacc. qacc. destruct (slot_eqb (vslot v2) (vslot v)); [exact I|apply IH].
  Qed.

  Lemma q_retire t : q_prog w (retire t).
  Proof. unfold retire, a_rld, a_rst. cbn [q_prog]. qacc. qacc. exact I. Qed.

  Lemma q_expand p cur : q_prog w (expand_slot abits hs p cur).
  Proof.
    unfold expand_slot. cbn [q_prog]. qacc. destruct (vok v); [|exact I]. cbn [q_prog]. qacc. qacc. exact I.
  Qed.

  Lemma q_upd_loop sf is_update allow t g0 k id : forall fuel p, q_prog w (upd_loop abits W hs fuel sf is_update allow t g0 k id p).
  Proof.
    induction fuel as [|fuel IH]; intros p; cbn [upd_loop]; [exact I|].
    apply q_bind; [apply q_traverse|]. intros [[p' v]|]; [|exact I].
    apply q_bind; [apply q_protect_arr|]. intros [v'|]; [|exact I].
    destruct (negb (slot_eqb (vslot v') (vslot v))); [apply IH|].
    destruct (negb (Nat.eqb (sptr (vslot v)) 0)).
    - destruct (N.eqb (hash hs (vkey v')) (hash hs k)).
      + destruct is_update; [|exact I]. cbn [q_prog]. qacc. destruct (vok v0); [|apply IH].
        apply q_bind; [apply q_retire|]. intros _. exact I.
      + destruct allow; [|exact I]. destruct (Nat.ltb (poff p') W); [|exact I].
        apply q_bind; [apply q_expand|]. intros _. apply IH.
    - destruct allow; [|exact I]. cbn [q_prog]. qacc. destruct (vok v0); [|apply IH]. cbn [q_prog]. qacc. exact I.
  Qed.

  Lemma q_erase_loop sf t g0 k : forall fuel p, q_prog w (erase_loop abits hs fuel sf t g0 k p).
  Proof.
    induction fuel as [|fuel IH]; intros p; cbn [erase_loop]; [exact I|].
    apply q_bind; [apply q_traverse|]. intros [[p' v]|]; [|exact I].
    apply q_bind; [apply q_protect|]. intros [v'|]; [|exact I].
    destruct (negb (slot_eqb (vslot v') (vslot v))); [apply IH|].
    destruct (negb (Nat.eqb (sptr (vslot v)) 0)); [|exact I].
    destruct (N.eqb (hash hs (vkey v')) (hash hs k)); [|exact I].
    cbn [q_prog]. qacc. destruct (vok v0); [|apply IH].
    apply q_bind; [apply q_retire|]. intros _. cbn [q_prog]. qacc. exact I.
  Qed.

  Lemma q_find_loop sf t g0 k : forall fuel p, q_prog w (find_loop abits hs fuel sf t g0 k p).
  Proof.
    induction fuel as [|fuel IH]; intros p; cbn [find_loop]; [exact I|].
    apply q_bind; [apply q_traverse|]. intros [[p' v]|]; [|exact I].
    apply q_bind; [apply q_protect|]. intros [v'|]; [|exact I].
    destruct (negb (slot_eqb (vslot v') (vslot v))); [apply IH|exact I].
  Qed.

  Lemma q_unlink_loop sf t g0 h x : forall fuel p, q_prog w (unlink_loop abits hs fuel sf t g0 h x p).
  Proof.
    induction fuel as [|fuel IH]; intros p; cbn [unlink_loop]; [exact I|].
    apply q_bind; [apply q_traverse|]. intros [[p' v]|]; [|exact I].
    apply q_bind; [apply q_protect|]. intros [v'|]; [|exact I].
    destruct (negb (slot_eqb (vslot v') (vslot v))); [apply IH|].
    destruct (negb (Nat.eqb (sptr (vslot v)) 0)); [|exact I].
    destruct (N.eqb (hash hs (vkey v')) h && Nat.eqb (sptr (vslot v)) x); [|exact I].
    cbn [q_prog]. qacc. destruct (vok v0); [|apply IH].
    apply q_bind; [apply q_retire|]. intros _. cbn [q_prog]. qacc. exact I.
  Qed.

  Lemma quiet_oof : quiet w [ev_oof].
  Proof. intros e [<-|[]]. right. left. reflexivity. Qed.

  Lemma q_give_up : q_prog w give_up.
  Proof. unfold give_up. cbn [q_prog]. split; [apply quiet_oof|exact I]. Qed.

  Hypothesis Hw : wact w = false.

  Lemma quiet_inv c k : ~ iter_code c -> quiet w [ev_inv c k].
  Proof.
    intros Hc e [<-|[]]. right. right. split; [exact Hw|]. split; [|split].
    - intros (k' & E). discriminate E.
    - intros (b & E). discriminate E.
    - intros (c' & k' & Hc' & E). unfold ev_inv in E. injection E as E1 E2. apply Nat2Z.inj in E1. subst c'. auto.
  Qed.

  Lemma quiet_ret a b : quiet w [ev_ret a b].
  Proof.
    intros e [<-|[]]. right. right. split; [exact Hw|]. split; [|split].
    - intros (k' & E). discriminate E.
    - intros (b0 & E). discriminate E.
    - intros (c' & k' & Hc' & E). discriminate E.
  Qed.

  Lemma q_run_op fuel t o gs :
    (forall code kz, o = [code; kz] -> ~ iter_code (Z.to_nat code)) -> q_prog w (run_op hbits abits W hs fuel t o gs).
  Proof.
    intros Hc. unfold run_op. destruct o as [|code [|kz [|x r]]]; try exact I.
    specialize (Hc code kz eq_refl).
    destruct (Nat.eqb (Z.to_nat code) 1 || Nat.eqb (Z.to_nat code) 3 || Nat.eqb (Z.to_nat code) 4).
    - cbn [q_prog]. split; [apply quiet_inv; exact Hc|]. qacc. unfold a_sync. qacc.
      apply q_bind; [apply q_upd_loop|]. intros [[x y]|]; [|apply q_give_up].
      unfold a_gst. cbn [q_prog]. qacc. qacc. split; [apply quiet_ret|exact I].
    - destruct (Nat.eqb (Z.to_nat code) 7).
      + cbn [q_prog]. split; [apply quiet_inv; exact Hc|].
        apply q_bind; [apply q_erase_loop|]. intros [[x y]|]; [|apply q_give_up].
        unfold a_gst. cbn [q_prog]. qacc. split; [apply quiet_ret|exact I].
      + cbn [q_prog]. split; [apply quiet_inv; exact Hc|].
        apply q_bind; [apply q_find_loop|]. intros [[x y]|]; [|apply q_give_up].
        unfold a_gst. cbn [q_prog]. qacc. split; [apply quiet_ret|exact I].
  Qed.

  (** a set operation: the thread stays idle, the ghost value is unchanged *)
  Lemma safeR_run_op fuel t o gs l :
    (forall code kz, o = [code; kz] -> ~ iter_code (Z.to_nat code)) -> ph l = PIdle ->
    safeR t (run_op hbits abits W hs fuel t o gs) l w (fun _ l' w' => ph l' = PIdle /\ w' = w).
  Proof.
    intros Hc Hp. apply strengthen; [exact Hw|apply q_run_op; exact Hc|].
    pose proof (@FeldmanStepRel.safe_run_op hbits abits W hs Hh Ha WI SR1 w (@HSR1 hs w) fuel t o gs l Hp) as H.
    unfold FeldmanStepRel.safe in H. eapply ConcRel.safeR_weaken; [|exact H].
    intros r l' w' [H1 H2]. unfold FeldmanStepRel.QI' in H1. auto.
  Qed.
End Ops.
