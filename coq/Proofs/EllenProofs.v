(** * The leaf-oriented BST invariant of the EllenBinTree<HP> step model holds for EVERY schedule.

    Part 1 (pure): the two CASes that change the tree — the child CAS of help_insert and the child CAS of
    help_marked — preserve the invariant [T] under the preconditions the algorithm establishes.
    Part 2 (Owicki–Gries over [Conc.safe]): those preconditions hold at every reachable state:
      - the thread that flagged a node (IFlag / DFlag) is the only one that changes its children or its update word
        until it unflags it (this implementation has no helping); a marked node is frozen;
      - search-path lemma: [ever k n] = "n was on the search path of k at some time" is closed under the current child
        in direction k, and an internal node that ever was on the path of k and is not marked IS on the path of k. *)
From Coq Require Import ZArith List String Bool Lia PeanoNat.
From LV Require Import Base.Conc Base.Events Model.Ellen.
Import ListNotations.
Local Open Scope Z_scope.

Definition internal (g : G) (n : ptr) : Prop := is_internal_f (flags g n) = true.
Definition dirk (g : G) (k : Z) (n : ptr) : bool := 0 <=? cmp_node k (flags g n) (ikey g n).

(** [T g n lo hi]: the subtree of [n] is a leaf-oriented BST with all keys in [lo, hi) *)
Inductive T (g : G) : ptr -> Z -> Z -> Prop :=
| T_leaf n lo hi : ~ internal g n -> lo <= node_key g n < hi -> T g n lo hi
| T_int n lo hi : internal g n -> lo <= node_key g n < hi ->
    T g (lft g n) lo (node_key g n) -> T g (rgt g n) (node_key g n) hi -> T g n lo hi.

Inductive insub (g : G) (n : ptr) : ptr -> Prop :=
| insub_refl : insub g n n
| insub_step m d : insub g n m -> internal g m -> insub g n (child g m d).

(** [path g k n m]: the search for [k] started at [n] passes through [m] *)
Inductive path (g : G) (k : Z) (n : ptr) : ptr -> Prop :=
| path_refl : path g k n n
| path_step m : path g k n m -> internal g m -> path g k n (child g m (dirk g k m)).

Lemma path_insub g k n m : path g k n m -> insub g n m.
Proof. induction 1; [constructor|now constructor]. Qed.

Lemma insub_trans g a b c : insub g a b -> insub g b c -> insub g a c.
Proof. intros H1 H2. induction H2; [exact H1|now constructor]. Qed.

Lemma T_widen g n lo hi : T g n lo hi -> forall lo' hi', lo' <= lo -> hi <= hi' -> T g n lo' hi'.
Proof.
  induction 1 as [n lo hi Hl Hk|n lo hi Hi Hk _ IH1 _ IH2]; intros lo' hi' H1 H2.
  - apply T_leaf; [exact Hl|lia].
  - apply T_int; [exact Hi|lia|apply IH1; lia|apply IH2; lia].
Qed.

Lemma insub_inv g n x : insub g n x -> x = n \/ (internal g n /\ (insub g (lft g n) x \/ insub g (rgt g n) x)).
Proof.
  induction 1 as [|m d Hm IHm Him]; [now left|right].
  destruct IHm as [->|(Hn & [IHm|IHm])].
  - split; [exact Him|]. destruct d; cbn [child]; [right|left]; constructor.
  - split; [exact Hn|left; now constructor].
  - split; [exact Hn|right; now constructor].
Qed.

Lemma T_keys g n lo hi : T g n lo hi -> forall x, insub g n x -> lo <= node_key g x < hi.
Proof.
  induction 1 as [n lo hi Hl Hk|n lo hi Hi Hk H1 IH1 H2 IH2]; intros x Hx; destruct (insub_inv _ _ _ Hx) as [->|(Hn & [Hs|Hs])];
    try exact Hk; try contradiction.
  - specialize (IH1 x Hs). lia.
  - specialize (IH2 x Hs). lia.
Qed.

(** the tree-shaped fields of the nodes of a subtree are the same in [g'] *)
Definition same_on (g g' : G) (P : ptr -> Prop) : Prop :=
  forall x, P x -> flags g' x = flags g x /\ ikey g' x = ikey g x /\ lft g' x = lft g x /\ rgt g' x = rgt g x.

Lemma node_key_same g g' x : flags g' x = flags g x -> ikey g' x = ikey g x -> node_key g' x = node_key g x.
Proof. intros H1 H2. unfold node_key. now rewrite H1, H2. Qed.

Lemma T_frame g g' n lo hi : T g n lo hi -> same_on g g' (insub g n) -> T g' n lo hi.
Proof.
  induction 1 as [n lo hi Hl Hk|n lo hi Hi Hk H1 IH1 H2 IH2]; intros Hs.
  - destruct (Hs n (insub_refl _ _)) as (E1 & E2 & _). apply T_leaf; [unfold internal in *; now rewrite E1|].
    now rewrite (node_key_same g g' n E1 E2).
  - destruct (Hs n (insub_refl _ _)) as (E1 & E2 & E3 & E4). rewrite <- (node_key_same g g' n E1 E2) in *.
    apply T_int; [unfold internal in *; now rewrite E1|exact Hk|rewrite E3|rewrite E4].
    + apply IH1. intros x Hx. apply Hs. eapply insub_trans; [|exact Hx]. change (lft g n) with (child g n false). constructor; [constructor|exact Hi].
    + apply IH2. intros x Hx. apply Hs. eapply insub_trans; [|exact Hx]. change (rgt g n) with (child g n true). constructor; [constructor|exact Hi].
Qed.

Lemma path_frame g g' k n m : path g k n m -> same_on g g' (insub g n) -> path g' k n m.
Proof.
  induction 1 as [|m Hm IH Hi]; intros Hs; [constructor|].
  destruct (Hs m (path_insub _ _ _ _ Hm)) as (E1 & E2 & E3 & E4).
  assert (Ed : dirk g' k m = dirk g k m) by (unfold dirk; now rewrite E1, E2).
  assert (Ec : child g' m (dirk g' k m) = child g m (dirk g k m)) by (rewrite Ed; unfold child; now rewrite E3, E4).
  rewrite <- Ec. constructor; [now apply IH|unfold internal in *; now rewrite E1].
Qed.

Lemma T_inv_int g n lo hi : T g n lo hi -> internal g n ->
  lo <= node_key g n < hi /\ T g (lft g n) lo (node_key g n) /\ T g (rgt g n) (node_key g n) hi.
Proof. intros H Hi. inversion H; subst; [contradiction|auto]. Qed.

(** *** the child CAS of help_marked: the parent [p] of the deleted leaf is replaced by the sibling [s] *)
Lemma T_delete g gp d p d' lo hi n :
  T g n lo hi -> child g gp d = p -> internal g p -> p <> gp ->
  let g' := set_child g gp d (child g p d') in T g' n lo hi.
Proof.
  intros HT Hc Hp Hne g'.
  assert (Ef : flags g' = flags g) by (unfold g', set_child; destruct d; reflexivity).
  assert (Ek : ikey g' = ikey g) by (unfold g', set_child; destruct d; reflexivity).
  assert (Enk : forall x, node_key g' x = node_key g x) by (intros x; unfold node_key; now rewrite Ef, Ek).
  assert (Ei : forall x, internal g' x <-> internal g x) by (intros x; unfold internal; now rewrite Ef).
  assert (Eo : forall x dd, (x <> gp \/ dd <> d) -> child g' x dd = child g x dd).
  { intros x dd H. unfold g', set_child, child. destruct d, dd; cbn; unfold upd1; try reflexivity;
      destruct (Nat.eqb_spec x gp); try reflexivity; destruct H; congruence. }
  induction HT as [n lo hi Hl Hk|n lo hi Hi Hk H1 IH1 H2 IH2].
  - apply T_leaf; [rewrite Ei; exact Hl|now rewrite Enk].
  - assert (Hsub : forall dd, T g' (child g n dd) (if dd then node_key g n else lo) (if dd then hi else node_key g n))
      by (intros [|]; cbn [child]; assumption).
    assert (Hch : forall dd, T g' (child g' n dd) (if dd then node_key g n else lo) (if dd then hi else node_key g n)).
    { intros dd. destruct (Nat.eq_dec n gp) as [->|Nn]; [destruct (Bool.bool_dec dd d) as [->|Nd]|].
      - (* the changed cell: the subtree of p is replaced by the subtree of s *)
        specialize (Hsub d). rewrite Hc in Hsub.
        assert (Es : child g' gp d = child g p d') by (unfold g', set_child, child; destruct d; cbn; unfold upd1; now rewrite Nat.eqb_refl).
        rewrite Es. destruct (T_inv_int _ _ _ _ Hsub (proj2 (Ei p) Hp)) as (Hk' & L & R).
        rewrite Enk in *. rewrite <- (Eo p d' (or_introl Hne)).
        destruct d'; cbn [child]; [eapply T_widen; [exact R|lia|lia]|eapply T_widen; [exact L|lia|lia]].
      - rewrite Eo by (right; exact Nd). apply Hsub.
      - rewrite Eo by (left; exact Nn). apply Hsub. }
    apply T_int; [rewrite Ei; exact Hi|now rewrite Enk|rewrite Enk; exact (Hch false)|rewrite Enk; exact (Hch true)].
Qed.

(** *** keys and directions *)
Lemma inf0 f : inf_of f = 0 <-> Z.land f 4 = 0 /\ Z.land f 2 = 0.
Proof.
  unfold inf_of. change 6 with (Z.lor 4 2). rewrite Z.land_lor_distr_r. apply Z.lor_eq_0_iff.
Qed.

Lemma node_key_fin g n : inf_of (flags g n) = 0 -> node_key g n = if is_internal_f (flags g n) then ikey g n else lkey n.
Proof. intros H. apply inf0 in H. destruct H as [H4 H2]. unfold node_key. rewrite H4, H2. reflexivity. Qed.
Lemma node_key_inf g n : inf_of (flags g n) <> 0 -> 1000 <= node_key g n.
Proof.
  intros H. unfold node_key. destruct (Z.eqb_spec (Z.land (flags g n) 4) 0) as [E4|E4]; cbn [negb]; [|lia].
  destruct (Z.eqb_spec (Z.land (flags g n) 2) 0) as [E2|E2]; cbn [negb]; [|lia]. exfalso. apply H. apply inf0. auto.
Qed.

Lemma dirk_spec g k n : internal g n -> k < 1000 -> (dirk g k n = true <-> node_key g n <= k).
Proof.
  intros Hi Hk. unfold dirk, cmp_node. destruct (Z.eqb_spec (inf_of (flags g n)) 0) as [E|E].
  - rewrite (node_key_fin _ _ E). unfold internal in Hi. rewrite Hi. unfold cmp3.
    destruct (Z.ltb_spec k (ikey g n)); [split; [discriminate|lia]|]. destruct (Z.eqb_spec k (ikey g n)); split; auto; lia.
  - pose proof (node_key_inf _ _ E). split; [discriminate|lia].
Qed.

(** *** no node is below itself in a [T]-tree (derivations are finite) *)
Fixpoint Td (d : nat) (g : G) (n : ptr) (lo hi : Z) : Prop :=
  match d with
  | O => False
  | S d' => lo <= node_key g n < hi /\ (internal g n -> Td d' g (lft g n) lo (node_key g n) /\ Td d' g (rgt g n) (node_key g n) hi)
  end.

Lemma Td_mono d : forall d' g n lo hi, Td d g n lo hi -> (d <= d')%nat -> Td d' g n lo hi.
Proof.
  induction d as [|d IH]; intros d' g n lo hi H Hd; [contradiction|]. destruct d' as [|d']; [lia|].
  cbn [Td] in *. destruct H as [H1 H2]. split; [exact H1|]. intros Hi. destruct (H2 Hi). split; apply IH; auto; lia.
Qed.
Lemma Td_widen d : forall g n lo hi lo' hi', Td d g n lo hi -> lo' <= lo -> hi <= hi' -> Td d g n lo' hi'.
Proof.
  induction d as [|d IH]; intros g n lo hi lo' hi' H H1 H2; [contradiction|]. cbn [Td] in *. destruct H as [K1 K2]. split; [lia|].
  intros Hi. destruct (K2 Hi). split; eapply IH; eauto; lia.
Qed.
Lemma T_Td g n lo hi : T g n lo hi -> exists d, Td d g n lo hi.
Proof.
  induction 1 as [n lo hi Hl Hk|n lo hi Hi Hk _ [d1 IH1] _ [d2 IH2]].
  - exists 1%nat. cbn. split; [exact Hk|]. intros; contradiction.
  - exists (S (Nat.max d1 d2)). cbn [Td]. split; [exact Hk|]. intros _. split; eapply Td_mono; eauto; lia.
Qed.
Lemma Td_child d g n lo hi dd x :
  Td (S d) g n lo hi -> internal g n -> insub g (child g n dd) x -> exists d' l h, (d' <= d)%nat /\ lo <= l /\ h <= hi /\ Td d' g x l h.
Proof.
  intros H Hi Hx. cbn [Td] in H. destruct H as [Hk H]. destruct (H Hi) as [HL HR].
  induction Hx as [|m d2 Hm IH Him].
  - destruct dd; cbn [child]; [exists d, (node_key g n), hi|exists d, lo, (node_key g n)]; repeat split; auto; lia.
  - destruct IH as (d' & l & h & D1 & D2 & D3 & D4). destruct d' as [|d'']; [contradiction|].
    cbn [Td] in D4. destruct D4 as [Kk K]. destruct (K Him) as [KL KR].
    destruct d2; cbn [child]; [exists d'', (node_key g m), h|exists d'', l, (node_key g m)]; repeat split; auto; lia.
Qed.
Lemma no_cycle g p dd lo hi : T g p lo hi -> internal g p -> ~ insub g (child g p dd) p.
Proof.
  intros HT Hi Hc. destruct (T_Td _ _ _ _ HT) as [d Hd]. clear HT. revert lo hi Hd.
  induction d as [d IH] using lt_wf_ind. intros lo hi Hd. destruct d as [|d]; [contradiction|].
  destruct (Td_child _ _ _ _ _ _ _ Hd Hi Hc) as (d' & l & h & D1 & D2 & D3 & D4).
  apply (IH d' ltac:(lia) lo hi). eapply Td_widen; eauto.
Qed.

(** *** the range of a node on the search path of [k] contains [k] *)
Lemma path_head g k n p : path g k n p -> n = p \/ (internal g n /\ path g k (child g n (dirk g k n)) p).
Proof.
  induction 1 as [|m Hm IH Hi]; [now left|right]. destruct IH as [->|(Hn & IH)].
  - split; [exact Hi|constructor].
  - split; [exact Hn|now constructor].
Qed.

Lemma T_path_range g k : forall n lo hi, T g n lo hi -> lo <= k < hi -> k < 1000 -> forall p, path g k n p ->
  exists l h, lo <= l /\ h <= hi /\ l <= k < h /\ T g p l h.
Proof.
  induction 1 as [n lo hi Hl Hk|n lo hi Hi Hk H1 IH1 H2 IH2]; intros Hr Hk1 p Hp; destruct (path_head _ _ _ _ Hp) as [<-|(Hn & Hp')].
  - exists lo, hi. repeat split; try lia. now apply T_leaf.
  - contradiction.
  - exists lo, hi. repeat split; try lia. now apply T_int.
  - pose proof (dirk_spec g k n Hi Hk1) as Hd. destruct (dirk g k n) eqn:Ed; cbn [child] in Hp'.
    + assert (node_key g n <= k) by (now apply Hd). destruct (IH2 ltac:(lia) Hk1 p Hp') as (l & h & A1 & A2 & A3 & A4).
      exists l, h. repeat split; auto; lia.
    + assert (~ node_key g n <= k) by (intros X; apply Hd in X; discriminate). destruct (IH1 ltac:(lia) Hk1 p Hp') as (l & h & A1 & A2 & A3 & A4).
      exists l, h. repeat split; auto; lia.
Qed.

Lemma T_key g n lo hi : T g n lo hi -> lo <= node_key g n < hi.
Proof. destruct 1; assumption. Qed.

(** *** the child CAS of help_insert: the leaf [l0] below [p] in direction [k] is replaced by the new internal node [ni] *)
Section Insert.
Variables (g : G) (k : Z) (p ni : ptr).
Let d := dirk g k p.
Let l0 := child g p d.
Let g' := set_child g p d ni.
Hypothesis Hk1 : k < 1000.
Hypothesis Hip : internal g p.
Hypothesis Hl0 : ~ internal g l0.
Hypothesis Hini : internal g ni.
Hypothesis Hne : ni <> p.
Hypothesis Hla : ~ internal g (lft g ni).
Hypothesis Hlb : ~ internal g (rgt g ni).
Hypothesis Hab : (lft g ni = l0 /\ node_key g (rgt g ni) = k) \/ (rgt g ni = l0 /\ node_key g (lft g ni) = k).
Hypothesis Hord : node_key g (lft g ni) < node_key g ni <= node_key g (rgt g ni).

Let Ef : flags g' = flags g. Proof. unfold g', set_child; destruct d; reflexivity. Qed.
Let Ek : ikey g' = ikey g. Proof. unfold g', set_child; destruct d; reflexivity. Qed.
Let Enk x : node_key g' x = node_key g x. Proof. unfold node_key; now rewrite Ef, Ek. Qed.
Let Ei x : internal g' x <-> internal g x. Proof. unfold internal; now rewrite Ef. Qed.
Let Eo x dd : (x <> p \/ dd <> d) -> child g' x dd = child g x dd.
Proof.
  intros H. unfold g', set_child, child. destruct d, dd; cbn; unfold upd1; try reflexivity;
    destruct (Nat.eqb_spec x p); try reflexivity; destruct H; congruence.
Qed.
Let Es : child g' p d = ni.
Proof. unfold g', set_child, child; destruct d; cbn; unfold upd1; now rewrite Nat.eqb_refl. Qed.

Let Hframe m l h : T g m l h -> ~ insub g m p -> T g' m l h.
Proof.
  intros Hm Hnp. apply (T_frame g g' m l h Hm). intros x Hx.
  assert (x <> p) by (intros ->; contradiction).
  rewrite Ef, Ek. repeat split; auto; [change (lft g' x) with (child g' x false); change (lft g x) with (child g x false)|
    change (rgt g' x) with (child g' x true); change (rgt g x) with (child g x true)]; apply Eo; now left.
Qed.

Lemma T_insert_at lo hi : T g p lo hi -> lo <= k < hi -> T g' p lo hi.
Proof.
  intros HT Hr. destruct (T_inv_int _ _ _ _ HT Hip) as (Hk & H1 & H2).
  pose proof (dirk_spec g k p Hip Hk1) as Hd. fold d in Hd.
  assert (Hl0r : T g l0 (if d then node_key g p else lo) (if d then hi else node_key g p)) by (unfold l0; generalize d; intros [|]; cbn [child]; assumption).
  assert (Hkr : (if d then node_key g p else lo) <= k < (if d then hi else node_key g p)).
  { revert Hd. generalize d. intros [|] Hd; [assert (node_key g p <= k) by (now apply Hd); lia|].
    assert (~ node_key g p <= k) by (intros X; apply Hd in X; discriminate). lia. }
  assert (Hl0k : (if d then node_key g p else lo) <= node_key g l0 < (if d then hi else node_key g p)).
  { exact (T_key _ _ _ _ Hl0r). }
  assert (Hnew : T g' ni (if d then node_key g p else lo) (if d then hi else node_key g p)).
  { assert (Ea : lft g' ni = lft g ni) by (change (lft g' ni) with (child g' ni false); change (lft g ni) with (child g ni false); apply Eo; now left).
    assert (Eb : rgt g' ni = rgt g ni) by (change (rgt g' ni) with (child g' ni true); change (rgt g ni) with (child g ni true); apply Eo; now left).
    assert (Hrange : (if d then node_key g p else lo) <= node_key g (lft g ni) /\ node_key g (rgt g ni) < (if d then hi else node_key g p)).
    { destruct Hab as [(A1 & A2)|(A1 & A2)]; rewrite A1, A2; lia. }
    apply T_int; [rewrite Ei; exact Hini|rewrite Enk; lia|rewrite Ea, Enk|rewrite Eb, Enk].
    - apply T_leaf; [rewrite Ei; exact Hla|rewrite Enk; lia].
    - apply T_leaf; [rewrite Ei; exact Hlb|rewrite Enk; lia]. }
  assert (Hch : forall dd, T g' (child g' p dd) (if dd then node_key g p else lo) (if dd then hi else node_key g p)).
  { intros dd. destruct (Bool.bool_dec dd d) as [->|N].
    - rewrite Es. exact Hnew.
    - rewrite Eo by (right; exact N). apply Hframe; [destruct dd; cbn [child]; assumption|]. eapply no_cycle; [exact HT|exact Hip]. }
  apply T_int; [rewrite Ei; exact Hip|rewrite Enk; exact Hk| |]; rewrite Enk; [exact (Hch false)|exact (Hch true)].
Qed.

Lemma T_insert : forall n lo hi, T g n lo hi -> lo <= k < hi -> path g k n p -> T g' n lo hi.
Proof.
  induction 1 as [n lo hi Hl Hk|n lo hi Hi Hk H1 IH1 H2 IH2]; intros Hr Hp.
  - destruct (path_head _ _ _ _ Hp) as [->|(Hn & _)]; [|contradiction]. contradiction.
  - destruct (Nat.eq_dec n p) as [->|Nn]; [apply T_insert_at; [now apply T_int|exact Hr]|].
    destruct (path_head _ _ _ _ Hp) as [->|(_ & Hp')]; [congruence|].
    pose proof (dirk_spec g k n Hi Hk1) as Hd.
    assert (Hin : insub g (child g n (dirk g k n)) p) by (eapply path_insub; eauto).
    apply T_int; [rewrite Ei; exact Hi|rewrite Enk; exact Hk| |]; rewrite Enk.
    + change (lft g' n) with (child g' n false). rewrite Eo by (now left). cbn [child].
      destruct (dirk g k n) eqn:Ed; cbn [child] in *.
      * apply Hframe; [exact H1|]. intros Hx. pose proof (T_keys _ _ _ _ H1 _ Hx). pose proof (T_keys _ _ _ _ H2 _ Hin). lia.
      * apply IH1; [|exact Hp']. assert (~ node_key g n <= k) by (intros X; apply Hd in X; discriminate). lia.
    + change (rgt g' n) with (child g' n true). rewrite Eo by (now left). cbn [child].
      destruct (dirk g k n) eqn:Ed; cbn [child] in *.
      * apply IH2; [|exact Hp']. assert (node_key g n <= k) by (now apply Hd). lia.
      * apply Hframe; [exact H2|]. intros Hx. pose proof (T_keys _ _ _ _ H2 _ Hx). pose proof (T_keys _ _ _ _ H1 _ Hin). lia.
Qed.
End Insert.

(** paths to internal nodes survive the insertion CAS *)
Lemma path_insert g k' p d ni n :
  ~ internal g (child g p d) -> path g k' root n -> internal g n -> path (set_child g p d ni) k' root n.
Proof.
  intros Hl Hp. set (g' := set_child g p d ni).
  assert (Ef : flags g' = flags g) by (unfold g', set_child; destruct d; reflexivity).
  assert (Ek : ikey g' = ikey g) by (unfold g', set_child; destruct d; reflexivity).
  induction Hp as [|m Hm IH Hi]; intros Hn; [constructor|].
  assert (Ed : dirk g' k' m = dirk g k' m) by (unfold dirk; now rewrite Ef, Ek).
  assert (Ec : child g' m (dirk g' k' m) = child g m (dirk g k' m)).
  { rewrite Ed. destruct (Nat.eq_dec m p) as [->|Nm].
    - destruct (Bool.bool_dec (dirk g k' p) d) as [E|E]; [rewrite E in Hn; contradiction|].
      unfold g', set_child, child. destruct d, (dirk g k' p); cbn; try reflexivity; congruence.
    - unfold g', set_child, child. destruct d, (dirk g k' m); cbn; unfold upd1; try reflexivity; destruct (Nat.eqb_spec m p); congruence. }
  rewrite <- Ec. constructor; [now apply IH|unfold internal in *; now rewrite Ef].
Qed.

(** below the Inf1 node every key is finite *)
Lemma below_inf1 g k p : T g root (-1) 1002 -> node_key g root = 1001 -> internal g root -> node_key g (lft g root) = 1000 ->
  0 <= k < 1000 -> path g k root p -> internal g p -> p <> root -> node_key g (child g p (dirk g k p)) < 1000.
Proof.
  intros HT Hkr Hir HL Hk Hp Hip Hne.
  destruct (path_head _ _ _ _ Hp) as [E|(_ & Hp1)]; [congruence|].
  assert (Hd0 : dirk g k root = false).
  { destruct (dirk g k root) eqn:E; [|reflexivity]. apply (dirk_spec g k root Hir ltac:(lia)) in E. lia. }
  rewrite Hd0 in Hp1. cbn [child] in Hp1.
  destruct (T_inv_int _ _ _ _ HT Hir) as (_ & H1 & _). rewrite Hkr in H1. set (r1 := lft g root) in *.
  assert (Hgen : forall q l h, T g q l h -> h <= 1000 -> l <= k < h -> path g k q p -> node_key g (child g p (dirk g k p)) < 1000).
  { intros q l h Hq Hh Hr Hpq. destruct (T_path_range g k q l h Hq Hr ltac:(lia) p Hpq) as (l' & h' & A1 & A2 & A3 & A4).
    destruct (T_inv_int _ _ _ _ A4 Hip) as (B1 & B2 & B3).
    destruct (dirk g k p); cbn [child]; [pose proof (T_key _ _ _ _ B3)|pose proof (T_key _ _ _ _ B2)]; lia. }
  destruct (path_head _ _ _ _ Hp1) as [E|(Hi1 & Hp2)].
  - subst p. assert (Hd1 : dirk g k r1 = false).
    { destruct (dirk g k r1) eqn:E; [|reflexivity]. apply (dirk_spec g k r1 Hip ltac:(lia)) in E. lia. }
    rewrite Hd1. cbn [child]. destruct (T_inv_int _ _ _ _ H1 Hip) as (_ & B2 & _). pose proof (T_key _ _ _ _ B2). lia.
  - assert (Hd1 : dirk g k r1 = false).
    { destruct (dirk g k r1) eqn:E; [|reflexivity]. apply (dirk_spec g k r1 Hi1 ltac:(lia)) in E. lia. }
    rewrite Hd1 in Hp2. cbn [child] in Hp2. destruct (T_inv_int _ _ _ _ H1 Hi1) as (_ & B2 & _). rewrite HL in B2.
    apply (Hgen (lft g r1) (-1) 1000 B2); [lia|lia|exact Hp2].
Qed.

(** * Part 2: every reachable state of programs of insert / contains satisfies the invariant *)
Definition owner_of (p : ptr) : nat := ((p - 4) / 32) mod 64.
Definition ser_of (p : ptr) : nat := ((p - 4) / 32) / 64.
Lemma mk_id_owner t ser kind key : (t < 64)%nat -> (kind < 4)%nat -> (key < 8)%nat -> owner_of (mk_id t ser kind key) = t.
Proof.
  intros Ht Hk Hy. unfold owner_of, mk_id.
  replace (4 + 32 * (ser * 64 + t) + 8 * kind + key - 4)%nat with ((8 * kind + key) + (ser * 64 + t) * 32)%nat by lia.
  rewrite Nat.div_add by lia. rewrite (Nat.div_small (8 * kind + key) 32) by lia. cbn [Nat.add].
  rewrite Nat.add_comm, Nat.mod_add by lia. now apply Nat.mod_small.
Qed.
Lemma mk_id_ser t ser kind key : (t < 64)%nat -> (kind < 4)%nat -> (key < 8)%nat -> ser_of (mk_id t ser kind key) = ser.
Proof.
  intros Ht Hk Hy. unfold ser_of, mk_id.
  replace (4 + 32 * (ser * 64 + t) + 8 * kind + key - 4)%nat with ((8 * kind + key) + (ser * 64 + t) * 32)%nat by lia.
  rewrite Nat.div_add by lia. rewrite (Nat.div_small (8 * kind + key) 32) by lia. cbn [Nat.add].
  rewrite Nat.add_comm, Nat.div_add by lia. rewrite (Nat.div_small t 64) by lia. reflexivity.
Qed.
Lemma mk_id_ge t ser kind key : (4 <= mk_id t ser kind key)%nat.
Proof. unfold mk_id. lia. Qed.
Lemma mk_id_lkey t ser key : (key < 8)%nat -> lkey (mk_id t ser 0 key) = Z.of_nat key.
Proof.
  intros H. unfold lkey, mk_id. f_equal. replace (4 + 32 * (ser * 64 + t) + 8 * 0 + key - 4)%nat with (key + (4 * (ser * 64 + t)) * 8)%nat by lia.
  rewrite Nat.mod_add by lia. now apply Nat.mod_small.
Qed.

Record lview := mkLV {
  vpa : list (Z * ptr);                       (* (k, n): n is published; if it is internal it is on the search path of k *)
  vfl : list (ptr * Z * Z);                   (* (n, flags, key) of a published node (immutable) *)
  vleaf : option ptr;                         (* my leaf, not linked yet *)
  vni : option (ptr * Z * Z * ptr * ptr);     (* my internal node, not linked yet: flags, key, left, right *)
  vser : nat
}.
Record aux := mkAux { apub : ptr -> bool; aviews : nat -> lview }.
Definition view (a : aux) (t : nat) : lview := aviews a t.
Definition mk_a (a : aux) (t : nat) (pub' : ptr -> bool) (lv' : lview) : aux :=
  mkAux pub' (fun u => if Nat.eqb u t then lv' else aviews a u).
Lemma view_mk_same a t pub' lv' : view (mk_a a t pub' lv') t = lv'.
Proof. unfold view, mk_a; cbn. now rewrite Nat.eqb_refl. Qed.
Lemma view_mk_other a t pub' lv' u : u <> t -> view (mk_a a t pub' lv') u = view a u.
Proof. unfold view, mk_a; cbn. intros H. destruct (Nat.eqb_spec u t); congruence. Qed.
Lemma frame_mk a t pub' lv' : Conc.frame view t a (mk_a a t pub' lv').
Proof. intros u H. now apply view_mk_other. Qed.

Definition own_ok (pub : ptr -> bool) (t : nat) (n : ptr) : Prop := (4 <= n)%nat /\ pub n = false /\ owner_of n = t.

Definition lv_ok (g : G) (pub : ptr -> bool) (t : nat) (lv : lview) : Prop :=
  Forall (fun kn => pub (snd kn) = true /\ (internal g (snd kn) -> path g (fst kn) root (snd kn))) (vpa lv) /\
  Forall (fun x => pub (fst (fst x)) = true /\ flags g (fst (fst x)) = snd (fst x) /\ ikey g (fst (fst x)) = snd x) (vfl lv) /\
  match vleaf lv with Some l => own_ok pub t l /\ flags g l = 0 | None => True end /\
  match vni lv with
  | Some (n, f, key, l, r) => (own_ok pub t n /\ vleaf lv <> Some n) /\ flags g n = f /\ ikey g n = key /\ lft g n = l /\ rgt g n = r
  | None => True
  end /\
  (forall n, (4 <= n)%nat -> owner_of n = t -> (vser lv <= ser_of n)%nat ->
     pub n = false /\ vleaf lv <> Some n /\ (forall f key l r, vni lv <> Some (n, f, key, l, r))).

Record IS (g : G) (a : aux) : Prop := {
  s_T : T g root (-1) 1002;
  s_root : flags g root = 5;
  s_L : node_key g (lft g root) = 1000;
  s_noroot : forall n d, apub a n = true -> internal g n -> child g n d <> root;
  s_closed : forall n d, apub a n = true -> internal g n -> apub a (child g n d) = true;
  s_rootpub : apub a root = true;
  s_views : forall t, lv_ok g (apub a) t (view a t)
}.
Definition Inv (g : G) (a : aux) (tr : list (nat * ev)) : Prop := IS g a.

Definition SAFE {R} (t : nat) (p : prog R) (lv : lview) : Prop :=
  @Conc.safe G V ev aux lview view Inv R t p lv (fun _ _ => True).

Lemma S_ret {R} t (r : R) lv : SAFE t (Ret r) lv.
Proof. exact Logic.I. Qed.

Lemma S_emit {R} t es (k : prog R) lv : SAFE t k lv -> SAFE t (Emit es k) lv.
Proof.
  intros H. unfold SAFE. cbn [Conc.safe]. intros g a tr Hi Hv. exists a. split; [exact Hi|]. split; [intros u _; reflexivity|]. now rewrite Hv.
Qed.

Lemma S_act {R} t f (k : V -> prog R) lv :
  (forall g a, IS g a -> view a t = lv ->
     exists pub' lv', IS (fst (fst (f g))) (mk_a a t pub' lv') /\ SAFE t (k (snd (fst (f g)))) lv') ->
  SAFE t (Act f k) lv.
Proof.
  intros H. unfold SAFE. cbn [Conc.safe]. intros g a tr Hi Hv. destruct (H g a Hi Hv) as (pub' & lv' & H1 & H2).
  exists (mk_a a t pub' lv'). split; [exact H1|]. split; [apply frame_mk|]. now rewrite view_mk_same.
Qed.

(** the tree-shaped fields are the same, except those of the node [n] *)
Definition same_but (g g' : G) (n : option ptr) : Prop :=
  forall x, Some x <> n -> flags g' x = flags g x /\ ikey g' x = ikey g x /\ lft g' x = lft g x /\ rgt g' x = rgt g x.

Lemma insub_pub g a x : IS g a -> insub g root x -> apub a x = true.
Proof. intros Hs H. induction H as [|m d Hm IH Hi]; [apply (s_rootpub _ _ Hs)|now apply (s_closed _ _ Hs)]. Qed.

Lemma sb_internal g g' n x : same_but g g' n -> Some x <> n -> (internal g' x <-> internal g x).
Proof. intros H N. destruct (H x N) as (E & _). unfold internal. now rewrite E. Qed.
Lemma sb_child g g' n x d : same_but g g' n -> Some x <> n -> child g' x d = child g x d.
Proof. intros H N. destruct (H x N) as (_ & _ & E3 & E4). unfold child. now rewrite E3, E4. Qed.
Lemma sb_key g g' n x : same_but g g' n -> Some x <> n -> node_key g' x = node_key g x.
Proof. intros H N. destruct (H x N) as (E1 & E2 & _). now apply node_key_same. Qed.

Definition unpub (pub : ptr -> bool) (n : option ptr) : Prop := match n with Some x => pub x = false | None => True end.
Lemma unpub_ne pub n x : unpub pub n -> pub x = true -> Some x <> n.
Proof. intros H Hx E. subst n. cbn in H. congruence. Qed.

Lemma sb_same_on g g' a n : IS g a -> same_but g g' n -> unpub (apub a) n -> same_on g g' (insub g root).
Proof. intros Hs Hb Hu x Hx. apply Hb. eapply unpub_ne; eauto. eapply insub_pub; eauto. Qed.

Lemma sb_path g g' a n k x : IS g a -> same_but g g' n -> unpub (apub a) n -> path g k root x -> path g' k root x.
Proof. intros Hs Hb Hu Hp. eapply path_frame; [exact Hp|eapply sb_same_on; eauto]. Qed.

(** the view of a thread that does not own [n] *)
Lemma lv_ok_sb g g' a n t u :
  IS g a -> same_but g g' n -> unpub (apub a) n -> (forall x, n = Some x -> (4 <= x)%nat /\ owner_of x = t) -> u <> t ->
  lv_ok g' (apub a) u (view a u).
Proof.
  intros Hs Hb Hu Ho Nu. destruct (s_views _ _ Hs u) as (H1 & H2 & H3 & H4 & H5). split; [|split; [|split; [|split]]].
  - rewrite Forall_forall in *. intros kn Hin. destruct (H1 _ Hin) as [A B]. split; [exact A|]. intros Hi.
    eapply sb_path; eauto. apply B. apply (proj1 (sb_internal g g' n (snd kn) Hb (unpub_ne _ _ _ Hu A))). exact Hi.
  - rewrite Forall_forall in *. intros x Hin. destruct (H2 _ Hin) as (A & B & C). destruct (Hb (fst (fst x)) (unpub_ne _ _ _ Hu A)) as (E1 & E2 & _).
    rewrite E1, E2. auto.
  - destruct (vleaf (view a u)) as [l|]; [|exact Logic.I]. destruct H3 as [(O1 & O2 & O3) F].
    assert (N : Some l <> n) by (intros E; destruct (Ho l (eq_sym E)); congruence).
    destruct (Hb l N) as (E1 & _). rewrite E1. repeat split; auto.
  - destruct (vni (view a u)) as [[[[[m f] key] l] r]|]; [|exact Logic.I]. destruct H4 as [((O1 & O2 & O3) & O4) F].
    assert (N : Some m <> n) by (intros E; destruct (Ho m (eq_sym E)); congruence).
    destruct (Hb m N) as (E1 & E2 & E3 & E4). rewrite E1, E2, E3, E4. destruct F as (F1 & F2 & F3 & F4). repeat split; auto.
  - exact H5.
Qed.

(** a step that changes tree-shaped fields only of an unpublished node of the running thread (or of no node) *)
Lemma IS_sb g g' a t n lv' :
  IS g a -> same_but g g' n -> unpub (apub a) n -> (forall x, n = Some x -> (4 <= x)%nat /\ owner_of x = t) ->
  lv_ok g' (apub a) t lv' -> IS g' (mk_a a t (apub a) lv').
Proof.
  intros Hs Hb Hu Ho Hv. pose proof Hs as [h1 h2 h3 h4 h5 h6 h7].
  assert (Nr : Some root <> n) by (eapply unpub_ne; eauto).
  assert (Hir : internal g root) by (unfold internal; rewrite h2; reflexivity).
  assert (N1 : Some (lft g root) <> n) by (eapply unpub_ne; eauto; apply (h5 root false h6 Hir)).
  constructor; cbn [apub mk_a].
  - eapply T_frame; [exact h1|eapply sb_same_on; eauto].
  - destruct (Hb root Nr) as (E & _). now rewrite E.
  - destruct (Hb root Nr) as (_ & _ & E & _). rewrite E. rewrite (sb_key g g' n); auto.
  - intros m d Hp Hi. pose proof (unpub_ne _ _ _ Hu Hp) as N. rewrite (sb_child g g' n m d Hb N). apply h4; [exact Hp|]. now apply (sb_internal g g' n m Hb N).
  - intros m d Hp Hi. pose proof (unpub_ne _ _ _ Hu Hp) as N. rewrite (sb_child g g' n m d Hb N). apply h5; [exact Hp|]. now apply (sb_internal g g' n m Hb N).
  - exact h6.
  - intros u. destruct (Nat.eq_dec u t) as [->|Nu]; [rewrite view_mk_same; exact Hv|].
    rewrite view_mk_other by exact Nu. eapply lv_ok_sb; eauto.
Qed.

Definition treelike (f : G -> G * V * list ev) : Prop := forall g, same_but g (fst (fst (f g))) None.

(** the part of a view that does not mention own nodes is insensitive to [same_but] on unpublished nodes *)
Lemma lv_ok_keep g g' a t lv :
  IS g a -> same_but g g' None -> lv_ok g (apub a) t lv -> lv_ok g' (apub a) t lv.
Proof.
  intros Hs Hb (H1 & H2 & H3 & H4 & H5). assert (N : forall x, Some x <> (None : option ptr)) by discriminate.
  split; [|split; [|split; [|split]]].
  - rewrite Forall_forall in *. intros kn Hin. destruct (H1 _ Hin) as [A B]. split; [exact A|]. intros Hi.
    eapply (sb_path g g' a None); eauto; [exact Logic.I|]. apply B. apply (proj1 (sb_internal g g' None (snd kn) Hb (N _))). exact Hi.
  - rewrite Forall_forall in *. intros x Hin. destruct (H2 _ Hin) as (A & B & C). destruct (Hb (fst (fst x)) (N _)) as (E1 & E2 & _). rewrite E1, E2. auto.
  - destruct (vleaf lv) as [l|]; [|exact Logic.I]. destruct (Hb l (N _)) as (E1 & _). now rewrite E1.
  - destruct (vni lv) as [[[[[m f] key] l] r]|]; [|exact Logic.I]. destruct (Hb m (N _)) as (E1 & E2 & E3 & E4). now rewrite E1, E2, E3, E4.
  - exact H5.
Qed.

Lemma S_keep {R} t f (k : V -> prog R) lv :
  treelike f ->
  (forall g a, IS g a -> view a t = lv -> exists lv', lv_ok g (apub a) t lv' /\ SAFE t (k (snd (fst (f g)))) lv') ->
  SAFE t (Act f k) lv.
Proof.
  intros Hf H. apply S_act. intros g a Hs Hv. destruct (H g a Hs Hv) as (lv' & V1 & V2).
  exists (apub a), lv'. split; [|exact V2]. apply (IS_sb g _ a t None lv' Hs (Hf g)); [exact Logic.I|discriminate|].
  eapply lv_ok_keep; eauto.
Qed.

Lemma S_nx {R} t f (k : V -> prog R) lv : treelike f -> (forall v, SAFE t (k v) lv) -> SAFE t (Act f k) lv.
Proof.
  intros Hf H. apply S_keep; [exact Hf|]. intros g a Hs Hv. exists lv. split; [rewrite <- Hv; apply (s_views _ _ Hs)|apply H].
Qed.
Ltac tl := intros g0 x0 _; cbn; auto.
Ltac nx := apply S_nx; [tl|intros ?].

(** ** facts of a view *)
Definition addpa (k : Z) (c : ptr) (lv : lview) : lview := mkLV ((k, c) :: vpa lv) (vfl lv) (vleaf lv) (vni lv) (vser lv).
Definition addfl (n : ptr) (f key : Z) (lv : lview) : lview := mkLV (vpa lv) ((n, f, key) :: vfl lv) (vleaf lv) (vni lv) (vser lv).
Definition vle (lv lv' : lview) : Prop :=
  incl (vpa lv) (vpa lv') /\ incl (vfl lv) (vfl lv') /\ vleaf lv' = vleaf lv /\ vni lv' = vni lv /\ vser lv' = vser lv.
Lemma vle_refl lv : vle lv lv.
Proof. repeat split; auto using incl_refl. Qed.
Lemma vle_trans a b c : vle a b -> vle b c -> vle a c.
Proof. intros (A1 & A2 & A3 & A4 & A5) (B1 & B2 & B3 & B4 & B5). repeat split; try congruence; eapply incl_tran; eauto. Qed.
Lemma vle_addpa k c lv : vle lv (addpa k c lv).
Proof. repeat split; cbn; auto using incl_refl, incl_tl. Qed.
Lemma vle_addfl n f key lv : vle lv (addfl n f key lv).
Proof. repeat split; cbn; auto using incl_refl, incl_tl. Qed.
Definition knownp (lv : lview) (n : ptr) : Prop := n = root \/ exists k, In (k, n) (vpa lv).
Lemma knownp_mono lv lv' n : vle lv lv' -> knownp lv n -> knownp lv' n.
Proof. intros (H & _) [->|(k & Hk)]; [now left|right; exists k; auto]. Qed.

Lemma knownp_pub g a t n : IS g a -> knownp (view a t) n -> apub a n = true.
Proof.
  intros Hs [->|(k & Hk)]; [apply (s_rootpub _ _ Hs)|]. destruct (s_views _ _ Hs t) as (H1 & _). rewrite Forall_forall in H1. apply (H1 _ Hk).
Qed.

Lemma lv_ok_addfl g a t lv n : IS g a -> view a t = lv -> knownp lv n -> lv_ok g (apub a) t (addfl n (flags g n) (ikey g n) lv).
Proof.
  intros Hs Hv Hk. pose proof (s_views _ _ Hs t) as Vt. rewrite Hv in Vt. destruct Vt as (H1 & H2 & H3 & H4 & H5).
  split; [exact H1|]. split; [|split; [exact H3|split; [exact H4|exact H5]]]. cbn [vfl addfl]. constructor; [|exact H2]. cbn. split; [|auto]. rewrite <- Hv in Hk. eapply knownp_pub; eauto.
Qed.

Lemma S_ld_flags {R} t n (k : V -> prog R) lv :
  knownp lv n -> (forall f key, SAFE t (k (VFl f key)) (addfl n f key lv)) -> SAFE t (Act (a_ld_flags n) k) lv.
Proof.
  intros Hk H. apply S_keep; [tl|]. intros g a Hs Hv. exists (addfl n (flags g n) (ikey g n) lv). split; [now apply lv_ok_addfl|apply H].
Qed.

Lemma S_ld_flags_own {R} t ni f key l r (k : V -> prog R) lv :
  vni lv = Some (ni, f, key, l, r) -> SAFE t (k (VFl f key)) lv -> SAFE t (Act (a_ld_flags ni) k) lv.
Proof.
  intros Ho H. apply S_keep; [tl|]. intros g a Hs Hv. exists lv. pose proof (s_views _ _ Hs t) as Vt. rewrite Hv in Vt. split; [exact Vt|].
  destruct Vt as (_ & _ & _ & H4 & _). rewrite Ho in H4. destruct H4 as (_ & E1 & E2 & _). cbn [a_ld_flags fst snd]. now rewrite E1, E2.
Qed.

Lemma S_ld_child {R} t k0 pp fp kp (k : V -> prog R) lv :
  In (k0, pp) (vpa lv) -> In (pp, fp, kp) (vfl lv) -> is_internal_f fp = true ->
  (forall c, c <> root -> SAFE t (k (VP c)) (addpa k0 c lv)) ->
  SAFE t (Act (a_ld_child pp (0 <=? cmp_node k0 fp kp)) k) lv.
Proof.
  intros Hpa Hfl Hint H. apply S_keep; [tl|]. intros g a Hs Hv. cbn [a_ld_child fst snd].
  pose proof (s_views _ _ Hs t) as Vt. rewrite Hv in Vt. pose proof Vt as (H1 & H2 & H3 & H4 & H5).
  pose proof H1 as H1'. pose proof H2 as H2'. rewrite Forall_forall in H1', H2'.
  destruct (H1' _ Hpa) as [P1 P2]. destruct (H2' _ Hfl) as (F1 & F2 & F3). cbn [fst snd] in *.
  assert (Hi : internal g pp) by (unfold internal; now rewrite F2).
  assert (Hd : dirk g k0 pp = (0 <=? cmp_node k0 fp kp)) by (unfold dirk; now rewrite F2, F3).
  set (c := child g pp (0 <=? cmp_node k0 fp kp)).
  exists (addpa k0 c lv). split; [|apply H; apply (s_noroot _ _ Hs); assumption].
  split; [|split; [exact H2|split; [exact H3|split; [exact H4|exact H5]]]]. cbn [vpa addpa]. constructor; [|exact H1]. cbn [fst snd]. split; [apply (s_closed _ _ Hs); assumption|].
  intros _. unfold c. rewrite <- Hd. constructor; [now apply P2|exact Hi].
Qed.

(** ** stores into my own, not yet linked, nodes *)
Definition set_ni (lv : lview) (x : option (ptr * Z * Z * ptr * ptr)) : lview := mkLV (vpa lv) (vfl lv) (vleaf lv) x (vser lv).

Lemma lv_pub_parts g g' a n t lv :
  IS g a -> same_but g g' n -> unpub (apub a) n -> lv_ok g (apub a) t lv ->
  Forall (fun kn => apub a (snd kn) = true /\ (internal g' (snd kn) -> path g' (fst kn) root (snd kn))) (vpa lv) /\
  Forall (fun x => apub a (fst (fst x)) = true /\ flags g' (fst (fst x)) = snd (fst x) /\ ikey g' (fst (fst x)) = snd x) (vfl lv).
Proof.
  intros Hs Hb Hu (H1 & H2 & _). split; rewrite Forall_forall in *.
  - intros kn Hin. destruct (H1 _ Hin) as [A B]. split; [exact A|]. intros Hi.
    eapply sb_path; eauto. apply B. apply (proj1 (sb_internal g g' n (snd kn) Hb (unpub_ne _ _ _ Hu A))). exact Hi.
  - intros x Hin. destruct (H2 _ Hin) as (A & B & C). destruct (Hb (fst (fst x)) (unpub_ne _ _ _ Hu A)) as (E1 & E2 & _). rewrite E1, E2. auto.
Qed.

(** generic: an action that rewrites fields of my internal node *)
Lemma S_own_ni {R} t f (k : V -> prog R) lv ni f0 key0 l0 r0 f1 key1 l1 r1 :
  vni lv = Some (ni, f0, key0, l0, r0) ->
  (forall g, same_but g (fst (fst (f g))) (Some ni) /\
             (flags g ni = f0 -> ikey g ni = key0 -> lft g ni = l0 -> rgt g ni = r0 ->
              let g' := fst (fst (f g)) in flags g' ni = f1 /\ ikey g' ni = key1 /\ lft g' ni = l1 /\ rgt g' ni = r1)) ->
  (forall v, SAFE t (k v) (set_ni lv (Some (ni, f1, key1, l1, r1)))) ->
  SAFE t (Act f k) lv.
Proof.
  intros Ho Hf H. apply S_act. intros g a Hs Hv. destruct (Hf g) as [Hb Hnew].
  pose proof (s_views _ _ Hs t) as Vt. rewrite Hv in Vt. pose proof Vt as (H1 & H2 & H3 & H4 & H5). rewrite Ho in H4.
  destruct H4 as (((O1 & O2 & O3) & O4) & E1 & E2 & E3 & E4).
  exists (apub a), (set_ni lv (Some (ni, f1, key1, l1, r1))). split; [|apply H].
  assert (Hu : unpub (apub a) (Some ni)) by exact O2.
  apply (IS_sb g _ a t (Some ni)); auto; [intros x E; inversion E; subst; auto|].
  destruct (lv_pub_parts g _ a (Some ni) t lv Hs Hb Hu Vt) as [P1 P2].
  split; [exact P1|]. split; [exact P2|]. cbn [vleaf vni set_ni vser]. split; [|split].
  - destruct (vleaf lv) as [l|] eqn:El; [|exact Logic.I]. destruct H3 as [(L1 & L2 & L3) L4].
    assert (N : Some l <> Some ni) by congruence.
    destruct (Hb l N) as (E & _). rewrite E. repeat split; auto.
  - split; [repeat split; auto|]. now apply Hnew.
  - intros n Hn1 Hn2 Hn3. destruct (H5 n Hn1 Hn2 Hn3) as (A & B & C). split; [exact A|]. split; [exact B|].
    intros f' key' l' r' E. inversion E; subst. eapply C. exact Ho.
Qed.

(** ** allocation: the constructor store of a fresh node *)
Lemma S_alloc_leaf {R} t sr key (k : V -> prog R) lv :
  (t < 64)%nat -> (key < 8)%nat -> (vser lv <= sr)%nat ->
  (forall v, SAFE t (k v) (mkLV (vpa lv) (vfl lv) (Some (mk_id t sr 0 key)) (vni lv) (S sr))) ->
  SAFE t (Act (a_st_flags (mk_id t sr 0 key) 0) k) lv.
Proof.
  intros Ht Hk Hsr H. set (leaf := mk_id t sr 0 key). apply S_act. intros g a Hs Hv.
  pose proof (s_views _ _ Hs t) as Vt. rewrite Hv in Vt. pose proof Vt as (H1 & H2 & H3 & H4 & H5).
  assert (Hge : (4 <= leaf)%nat) by apply mk_id_ge.
  assert (Hown : owner_of leaf = t) by (apply mk_id_owner; lia).
  assert (Hser : ser_of leaf = sr) by (apply mk_id_ser; lia).
  destruct (H5 leaf Hge Hown ltac:(lia)) as (Fp & Fl & Fn).
  exists (apub a), (mkLV (vpa lv) (vfl lv) (Some leaf) (vni lv) (S sr)). split; [|apply H].
  assert (Hb : same_but g (fst (fst (a_st_flags leaf 0 g))) (Some leaf)).
  { intros x Nx. cbn [a_st_flags fst snd flags ikey lft rgt]. unfold upd1. destruct (Nat.eqb_spec x leaf); [congruence|auto]. }
  apply (IS_sb g _ a t (Some leaf)); auto; [intros x E; injection E as <-; auto|].
  destruct (lv_pub_parts g _ a (Some leaf) t lv Hs Hb Fp Vt) as [P1 P2].
  split; [exact P1|]. split; [exact P2|]. cbn [vleaf vni vser]. split; [|split].
  - split; [repeat split; auto|]. cbn [a_st_flags fst snd flags]. unfold upd1. now rewrite Nat.eqb_refl.
  - destruct (vni lv) as [[[[[m f] key'] l] r]|] eqn:En; [|exact Logic.I]. destruct H4 as [((O1 & O2 & O3) & O4) F].
    assert (N : Some m <> Some leaf) by (intros E; injection E as ->; eapply Fn; reflexivity).
    destruct (Hb m N) as (E1 & E2 & E3 & E4). rewrite E1, E2, E3, E4. split; [split; [repeat split; auto|congruence]|exact F].
  - intros n Hn1 Hn2 Hn3. destruct (H5 n Hn1 Hn2 ltac:(lia)) as (A & B & C). split; [exact A|]. split; [|exact C].
    intros E. inversion E; subst n. lia.
Qed.

Lemma S_alloc_ni {R} t sr (k : V -> prog R) lv :
  (t < 64)%nat -> (vser lv <= sr)%nat ->
  (forall v key l r, SAFE t (k v) (mkLV (vpa lv) (vfl lv) (vleaf lv) (Some (mk_id t sr 1 0, 1, key, l, r)) (S sr))) ->
  SAFE t (Act (a_st_flags (mk_id t sr 1 0) 1) k) lv.
Proof.
  intros Ht Hsr H. set (ni := mk_id t sr 1 0). apply S_act. intros g a Hs Hv.
  pose proof (s_views _ _ Hs t) as Vt. rewrite Hv in Vt. pose proof Vt as (H1 & H2 & H3 & H4 & H5).
  assert (Hge : (4 <= ni)%nat) by apply mk_id_ge.
  assert (Hown : owner_of ni = t) by (apply mk_id_owner; lia).
  assert (Hser : ser_of ni = sr) by (apply mk_id_ser; lia).
  destruct (H5 ni Hge Hown ltac:(lia)) as (Fp & Fl & Fn).
  exists (apub a), (mkLV (vpa lv) (vfl lv) (vleaf lv) (Some (ni, 1, ikey g ni, lft g ni, rgt g ni)) (S sr)). split; [|apply H].
  assert (Hb : same_but g (fst (fst (a_st_flags ni 1 g))) (Some ni)).
  { intros x Nx. cbn [a_st_flags fst snd flags ikey lft rgt]. unfold upd1. destruct (Nat.eqb_spec x ni); [congruence|auto]. }
  apply (IS_sb g _ a t (Some ni)); auto; [intros x E; injection E as <-; auto|].
  destruct (lv_pub_parts g _ a (Some ni) t lv Hs Hb Fp Vt) as [P1 P2].
  split; [exact P1|]. split; [exact P2|]. cbn [vleaf vni vser]. split; [|split].
  - destruct (vleaf lv) as [l|] eqn:El; [|exact Logic.I]. destruct H3 as [(L1 & L2 & L3) L4].
    assert (N : Some l <> Some ni) by exact Fl. destruct (Hb l N) as (E & _). rewrite E. repeat split; auto.
  - split; [split; [repeat split; auto|exact Fl]|]. cbn [a_st_flags fst snd flags ikey lft rgt]. unfold upd1. rewrite Nat.eqb_refl. auto.
  - intros n Hn1 Hn2 Hn3. destruct (H5 n Hn1 Hn2 ltac:(lia)) as (A & B & C). split; [exact A|]. split; [exact B|].
    intros f' key' l' r' E. inversion E; subst n. lia.
Qed.
