(** * The leaf-oriented BST invariant of the EllenBinTree<HP> step model holds for EVERY schedule.

    Part 1 (pure): the two CASes that change the tree — the child CAS of help_insert and the child CAS of
    help_marked — preserve the invariant [T] under the preconditions the algorithm establishes.
    Part 2 (Owicki–Gries over [Conc.safe]): those preconditions hold at every reachable state:
      - the thread that flagged a node (IFlag / DFlag) is the only one that changes its children or its update word
        until it unflags it (this implementation has no helping); a marked node is frozen;
      - search-path lemma: [ever k n] = "n was on the search path of k at some time" is closed under the current child
        in direction k, and an internal node that ever was on the path of k and is not marked IS on the path of k. *)
From Coq Require Import ZArith List String Bool Lia PeanoNat.
From LV Require Import Base.Conc Base.Events Model.Ellen.
Import ListNotations.
Local Open Scope Z_scope.

Definition internal (g : G) (n : ptr) : Prop := is_internal_f (flags g n) = true.
Definition dirk (g : G) (k : Z) (n : ptr) : bool := 0 <=? cmp_node k (flags g n) (ikey g n).

(** [T g n lo hi]: the subtree of [n] is a leaf-oriented BST with all keys in [lo, hi) *)
Inductive T (g : G) : ptr -> Z -> Z -> Prop :=
| T_leaf n lo hi : ~ internal g n -> lo <= node_key g n < hi -> T g n lo hi
| T_int n lo hi : internal g n -> lo <= node_key g n < hi ->
    T g (lft g n) lo (node_key g n) -> T g (rgt g n) (node_key g n) hi -> T g n lo hi.

Inductive insub (g : G) (n : ptr) : ptr -> Prop :=
| insub_refl : insub g n n
| insub_step m d : insub g n m -> internal g m -> insub g n (child g m d).

(** [path g k n m]: the search for [k] started at [n] passes through [m] *)
Inductive path (g : G) (k : Z) (n : ptr) : ptr -> Prop :=
| path_refl : path g k n n
| path_step m : path g k n m -> internal g m -> path g k n (child g m (dirk g k m)).

Lemma path_insub g k n m : path g k n m -> insub g n m.
Proof. induction 1; [constructor|now constructor]. Qed.

Lemma insub_trans g a b c : insub g a b -> insub g b c -> insub g a c.
Proof. intros H1 H2. induction H2; [exact H1|now constructor]. Qed.

Lemma T_widen g n lo hi : T g n lo hi -> forall lo' hi', lo' <= lo -> hi <= hi' -> T g n lo' hi'.
Proof.
  induction 1 as [n lo hi Hl Hk|n lo hi Hi Hk _ IH1 _ IH2]; intros lo' hi' H1 H2.
  - apply T_leaf; [exact Hl|lia].
  - apply T_int; [exact Hi|lia|apply IH1; lia|apply IH2; lia].
Qed.

Lemma insub_inv g n x : insub g n x -> x = n \/ (internal g n /\ (insub g (lft g n) x \/ insub g (rgt g n) x)).
Proof.
  induction 1 as [|m d Hm IHm Him]; [now left|right].
  destruct IHm as [->|(Hn & [IHm|IHm])].
  - split; [exact Him|]. destruct d; cbn [child]; [right|left]; constructor.
  - split; [exact Hn|left; now constructor].
  - split; [exact Hn|right; now constructor].
Qed.

Lemma T_keys g n lo hi : T g n lo hi -> forall x, insub g n x -> lo <= node_key g x < hi.
Proof.
  induction 1 as [n lo hi Hl Hk|n lo hi Hi Hk H1 IH1 H2 IH2]; intros x Hx; destruct (insub_inv _ _ _ Hx) as [->|(Hn & [Hs|Hs])];
    try exact Hk; try contradiction.
  - specialize (IH1 x Hs). lia.
  - specialize (IH2 x Hs). lia.
Qed.

(** the tree-shaped fields of the nodes of a subtree are the same in [g'] *)
Definition same_on (g g' : G) (P : ptr -> Prop) : Prop :=
  forall x, P x -> flags g' x = flags g x /\ ikey g' x = ikey g x /\ lft g' x = lft g x /\ rgt g' x = rgt g x.

Lemma node_key_same g g' x : flags g' x = flags g x -> ikey g' x = ikey g x -> node_key g' x = node_key g x.
Proof. intros H1 H2. unfold node_key. now rewrite H1, H2. Qed.

Lemma T_frame g g' n lo hi : T g n lo hi -> same_on g g' (insub g n) -> T g' n lo hi.
Proof.
  induction 1 as [n lo hi Hl Hk|n lo hi Hi Hk H1 IH1 H2 IH2]; intros Hs.
  - destruct (Hs n (insub_refl _ _)) as (E1 & E2 & _). apply T_leaf; [unfold internal in *; now rewrite E1|].
    now rewrite (node_key_same g g' n E1 E2).
  - destruct (Hs n (insub_refl _ _)) as (E1 & E2 & E3 & E4). rewrite <- (node_key_same g g' n E1 E2) in *.
    apply T_int; [unfold internal in *; now rewrite E1|exact Hk|rewrite E3|rewrite E4].
    + apply IH1. intros x Hx. apply Hs. eapply insub_trans; [|exact Hx]. change (lft g n) with (child g n false). constructor; [constructor|exact Hi].
    + apply IH2. intros x Hx. apply Hs. eapply insub_trans; [|exact Hx]. change (rgt g n) with (child g n true). constructor; [constructor|exact Hi].
Qed.

Lemma path_frame g g' k n m : path g k n m -> same_on g g' (insub g n) -> path g' k n m.
Proof.
  induction 1 as [|m Hm IH Hi]; intros Hs; [constructor|].
  destruct (Hs m (path_insub _ _ _ _ Hm)) as (E1 & E2 & E3 & E4).
  assert (Ed : dirk g' k m = dirk g k m) by (unfold dirk; now rewrite E1, E2).
  assert (Ec : child g' m (dirk g' k m) = child g m (dirk g k m)) by (rewrite Ed; unfold child; now rewrite E3, E4).
  rewrite <- Ec. constructor; [now apply IH|unfold internal in *; now rewrite E1].
Qed.

Lemma T_inv_int g n lo hi : T g n lo hi -> internal g n ->
  lo <= node_key g n < hi /\ T g (lft g n) lo (node_key g n) /\ T g (rgt g n) (node_key g n) hi.
Proof. intros H Hi. inversion H; subst; [contradiction|auto]. Qed.

(** *** the child CAS of help_marked: the parent [p] of the deleted leaf is replaced by the sibling [s] *)
Lemma T_delete g gp d p d' lo hi n :
  T g n lo hi -> child g gp d = p -> internal g p -> p <> gp ->
  let g' := set_child g gp d (child g p d') in T g' n lo hi.
Proof.
  intros HT Hc Hp Hne g'.
  assert (Ef : flags g' = flags g) by (unfold g', set_child; destruct d; reflexivity).
  assert (Ek : ikey g' = ikey g) by (unfold g', set_child; destruct d; reflexivity).
  assert (Enk : forall x, node_key g' x = node_key g x) by (intros x; unfold node_key; now rewrite Ef, Ek).
  assert (Ei : forall x, internal g' x <-> internal g x) by (intros x; unfold internal; now rewrite Ef).
  assert (Eo : forall x dd, (x <> gp \/ dd <> d) -> child g' x dd = child g x dd).
  { intros x dd H. unfold g', set_child, child. destruct d, dd; cbn; unfold upd1; try reflexivity;
      destruct (Nat.eqb_spec x gp); try reflexivity; destruct H; congruence. }
  induction HT as [n lo hi Hl Hk|n lo hi Hi Hk H1 IH1 H2 IH2].
  - apply T_leaf; [rewrite Ei; exact Hl|now rewrite Enk].
  - assert (Hsub : forall dd, T g' (child g n dd) (if dd then node_key g n else lo) (if dd then hi else node_key g n))
      by (intros [|]; cbn [child]; assumption).
    assert (Hch : forall dd, T g' (child g' n dd) (if dd then node_key g n else lo) (if dd then hi else node_key g n)).
    { intros dd. destruct (Nat.eq_dec n gp) as [->|Nn]; [destruct (Bool.bool_dec dd d) as [->|Nd]|].
      - (* the changed cell: the subtree of p is replaced by the subtree of s *)
        specialize (Hsub d). rewrite Hc in Hsub.
        assert (Es : child g' gp d = child g p d') by (unfold g', set_child, child; destruct d; cbn; unfold upd1; now rewrite Nat.eqb_refl).
        rewrite Es. destruct (T_inv_int _ _ _ _ Hsub (proj2 (Ei p) Hp)) as (Hk' & L & R).
        rewrite Enk in *. rewrite <- (Eo p d' (or_introl Hne)).
        destruct d'; cbn [child]; [eapply T_widen; [exact R|lia|lia]|eapply T_widen; [exact L|lia|lia]].
      - rewrite Eo by (right; exact Nd). apply Hsub.
      - rewrite Eo by (left; exact Nn). apply Hsub. }
    apply T_int; [rewrite Ei; exact Hi|now rewrite Enk|rewrite Enk; exact (Hch false)|rewrite Enk; exact (Hch true)].
Qed.

(** *** keys and directions *)
Lemma inf0 f : inf_of f = 0 <-> Z.land f 4 = 0 /\ Z.land f 2 = 0.
Proof.
  unfold inf_of. change 6 with (Z.lor 4 2). rewrite Z.land_lor_distr_r. apply Z.lor_eq_0_iff.
Qed.

Lemma node_key_fin g n : inf_of (flags g n) = 0 -> node_key g n = if is_internal_f (flags g n) then ikey g n else lkey n.
Proof. intros H. apply inf0 in H. destruct H as [H4 H2]. unfold node_key. rewrite H4, H2. reflexivity. Qed.
Lemma node_key_inf g n : inf_of (flags g n) <> 0 -> 1000 <= node_key g n.
Proof.
  intros H. unfold node_key. destruct (Z.eqb_spec (Z.land (flags g n) 4) 0) as [E4|E4]; cbn [negb]; [|lia].
  destruct (Z.eqb_spec (Z.land (flags g n) 2) 0) as [E2|E2]; cbn [negb]; [|lia]. exfalso. apply H. apply inf0. auto.
Qed.

Lemma dirk_spec g k n : internal g n -> k < 1000 -> (dirk g k n = true <-> node_key g n <= k).
Proof.
  intros Hi Hk. unfold dirk, cmp_node. destruct (Z.eqb_spec (inf_of (flags g n)) 0) as [E|E].
  - rewrite (node_key_fin _ _ E). unfold internal in Hi. rewrite Hi. unfold cmp3.
    destruct (Z.ltb_spec k (ikey g n)); [split; [discriminate|lia]|]. destruct (Z.eqb_spec k (ikey g n)); split; auto; lia.
  - pose proof (node_key_inf _ _ E). split; [discriminate|lia].
Qed.

(** *** no node is below itself in a [T]-tree (derivations are finite) *)
Fixpoint Td (d : nat) (g : G) (n : ptr) (lo hi : Z) : Prop :=
  match d with
  | O => False
  | S d' => lo <= node_key g n < hi /\ (internal g n -> Td d' g (lft g n) lo (node_key g n) /\ Td d' g (rgt g n) (node_key g n) hi)
  end.

Lemma Td_mono d : forall d' g n lo hi, Td d g n lo hi -> (d <= d')%nat -> Td d' g n lo hi.
Proof.
  induction d as [|d IH]; intros d' g n lo hi H Hd; [contradiction|]. destruct d' as [|d']; [lia|].
  cbn [Td] in *. destruct H as [H1 H2]. split; [exact H1|]. intros Hi. destruct (H2 Hi). split; apply IH; auto; lia.
Qed.
Lemma Td_widen d : forall g n lo hi lo' hi', Td d g n lo hi -> lo' <= lo -> hi <= hi' -> Td d g n lo' hi'.
Proof.
  induction d as [|d IH]; intros g n lo hi lo' hi' H H1 H2; [contradiction|]. cbn [Td] in *. destruct H as [K1 K2]. split; [lia|].
  intros Hi. destruct (K2 Hi). split; eapply IH; eauto; lia.
Qed.
Lemma T_Td g n lo hi : T g n lo hi -> exists d, Td d g n lo hi.
Proof.
  induction 1 as [n lo hi Hl Hk|n lo hi Hi Hk _ [d1 IH1] _ [d2 IH2]].
  - exists 1%nat. cbn. split; [exact Hk|]. intros; contradiction.
  - exists (S (Nat.max d1 d2)). cbn [Td]. split; [exact Hk|]. intros _. split; eapply Td_mono; eauto; lia.
Qed.
Lemma Td_child d g n lo hi dd x :
  Td (S d) g n lo hi -> internal g n -> insub g (child g n dd) x -> exists d' l h, (d' <= d)%nat /\ lo <= l /\ h <= hi /\ Td d' g x l h.
Proof.
  intros H Hi Hx. cbn [Td] in H. destruct H as [Hk H]. destruct (H Hi) as [HL HR].
  induction Hx as [|m d2 Hm IH Him].
  - destruct dd; cbn [child]; [exists d, (node_key g n), hi|exists d, lo, (node_key g n)]; repeat split; auto; lia.
  - destruct IH as (d' & l & h & D1 & D2 & D3 & D4). destruct d' as [|d'']; [contradiction|].
    cbn [Td] in D4. destruct D4 as [Kk K]. destruct (K Him) as [KL KR].
    destruct d2; cbn [child]; [exists d'', (node_key g m), h|exists d'', l, (node_key g m)]; repeat split; auto; lia.
Qed.
Lemma no_cycle g p dd lo hi : T g p lo hi -> internal g p -> ~ insub g (child g p dd) p.
Proof.
  intros HT Hi Hc. destruct (T_Td _ _ _ _ HT) as [d Hd]. clear HT. revert lo hi Hd.
  induction d as [d IH] using lt_wf_ind. intros lo hi Hd. destruct d as [|d]; [contradiction|].
  destruct (Td_child _ _ _ _ _ _ _ Hd Hi Hc) as (d' & l & h & D1 & D2 & D3 & D4).
  apply (IH d' ltac:(lia) lo hi). eapply Td_widen; eauto.
Qed.

(** *** the range of a node on the search path of [k] contains [k] *)
Lemma path_head g k n p : path g k n p -> n = p \/ (internal g n /\ path g k (child g n (dirk g k n)) p).
Proof.
  induction 1 as [|m Hm IH Hi]; [now left|right]. destruct IH as [->|(Hn & IH)].
  - split; [exact Hi|constructor].
  - split; [exact Hn|now constructor].
Qed.

Lemma T_path_range g k : forall n lo hi, T g n lo hi -> lo <= k < hi -> k < 1000 -> forall p, path g k n p ->
  exists l h, lo <= l /\ h <= hi /\ l <= k < h /\ T g p l h.
Proof.
  induction 1 as [n lo hi Hl Hk|n lo hi Hi Hk H1 IH1 H2 IH2]; intros Hr Hk1 p Hp; destruct (path_head _ _ _ _ Hp) as [<-|(Hn & Hp')].
  - exists lo, hi. repeat split; try lia. now apply T_leaf.
  - contradiction.
  - exists lo, hi. repeat split; try lia. now apply T_int.
  - pose proof (dirk_spec g k n Hi Hk1) as Hd. destruct (dirk g k n) eqn:Ed; cbn [child] in Hp'.
    + assert (node_key g n <= k) by (now apply Hd). destruct (IH2 ltac:(lia) Hk1 p Hp') as (l & h & A1 & A2 & A3 & A4).
      exists l, h. repeat split; auto; lia.
    + assert (~ node_key g n <= k) by (intros X; apply Hd in X; discriminate). destruct (IH1 ltac:(lia) Hk1 p Hp') as (l & h & A1 & A2 & A3 & A4).
      exists l, h. repeat split; auto; lia.
Qed.

Lemma T_key g n lo hi : T g n lo hi -> lo <= node_key g n < hi.
Proof. destruct 1; assumption. Qed.

(** *** the child CAS of help_insert: the leaf [l0] below [p] in direction [k] is replaced by the new internal node [ni] *)
Section Insert.
Variables (g : G) (k : Z) (p ni : ptr).
Let d := dirk g k p.
Let l0 := child g p d.
Let g' := set_child g p d ni.
Hypothesis Hk1 : k < 1000.
Hypothesis Hip : internal g p.
Hypothesis Hl0 : ~ internal g l0.
Hypothesis Hini : internal g ni.
Hypothesis Hne : ni <> p.
Hypothesis Hla : ~ internal g (lft g ni).
Hypothesis Hlb : ~ internal g (rgt g ni).
Hypothesis Hab : (lft g ni = l0 /\ node_key g (rgt g ni) = k) \/ (rgt g ni = l0 /\ node_key g (lft g ni) = k).
Hypothesis Hord : node_key g (lft g ni) < node_key g ni <= node_key g (rgt g ni).

Let Ef : flags g' = flags g. Proof. unfold g', set_child; destruct d; reflexivity. Qed.
Let Ek : ikey g' = ikey g. Proof. unfold g', set_child; destruct d; reflexivity. Qed.
Let Enk x : node_key g' x = node_key g x. Proof. unfold node_key; now rewrite Ef, Ek. Qed.
Let Ei x : internal g' x <-> internal g x. Proof. unfold internal; now rewrite Ef. Qed.
Let Eo x dd : (x <> p \/ dd <> d) -> child g' x dd = child g x dd.
Proof.
  intros H. unfold g', set_child, child. destruct d, dd; cbn; unfold upd1; try reflexivity;
    destruct (Nat.eqb_spec x p); try reflexivity; destruct H; congruence.
Qed.
Let Es : child g' p d = ni.
Proof. unfold g', set_child, child; destruct d; cbn; unfold upd1; now rewrite Nat.eqb_refl. Qed.

Let Hframe m l h : T g m l h -> ~ insub g m p -> T g' m l h.
Proof.
  intros Hm Hnp. apply (T_frame g g' m l h Hm). intros x Hx.
  assert (x <> p) by (intros ->; contradiction).
  rewrite Ef, Ek. repeat split; auto; [change (lft g' x) with (child g' x false); change (lft g x) with (child g x false)|
    change (rgt g' x) with (child g' x true); change (rgt g x) with (child g x true)]; apply Eo; now left.
Qed.

Lemma T_insert_at lo hi : T g p lo hi -> lo <= k < hi -> T g' p lo hi.
Proof.
  intros HT Hr. destruct (T_inv_int _ _ _ _ HT Hip) as (Hk & H1 & H2).
  pose proof (dirk_spec g k p Hip Hk1) as Hd. fold d in Hd.
  assert (Hl0r : T g l0 (if d then node_key g p else lo) (if d then hi else node_key g p)) by (unfold l0; generalize d; intros [|]; cbn [child]; assumption).
  assert (Hkr : (if d then node_key g p else lo) <= k < (if d then hi else node_key g p)).
  { revert Hd. generalize d. intros [|] Hd; [assert (node_key g p <= k) by (now apply Hd); lia|].
    assert (~ node_key g p <= k) by (intros X; apply Hd in X; discriminate). lia. }
  assert (Hl0k : (if d then node_key g p else lo) <= node_key g l0 < (if d then hi else node_key g p)).
  { exact (T_key _ _ _ _ Hl0r). }
  assert (Hnew : T g' ni (if d then node_key g p else lo) (if d then hi else node_key g p)).
  { assert (Ea : lft g' ni = lft g ni) by (change (lft g' ni) with (child g' ni false); change (lft g ni) with (child g ni false); apply Eo; now left).
    assert (Eb : rgt g' ni = rgt g ni) by (change (rgt g' ni) with (child g' ni true); change (rgt g ni) with (child g ni true); apply Eo; now left).
    assert (Hrange : (if d then node_key g p else lo) <= node_key g (lft g ni) /\ node_key g (rgt g ni) < (if d then hi else node_key g p)).
    { destruct Hab as [(A1 & A2)|(A1 & A2)]; rewrite A1, A2; lia. }
    apply T_int; [rewrite Ei; exact Hini|rewrite Enk; lia|rewrite Ea, Enk|rewrite Eb, Enk].
    - apply T_leaf; [rewrite Ei; exact Hla|rewrite Enk; lia].
    - apply T_leaf; [rewrite Ei; exact Hlb|rewrite Enk; lia]. }
  assert (Hch : forall dd, T g' (child g' p dd) (if dd then node_key g p else lo) (if dd then hi else node_key g p)).
  { intros dd. destruct (Bool.bool_dec dd d) as [->|N].
    - rewrite Es. exact Hnew.
    - rewrite Eo by (right; exact N). apply Hframe; [destruct dd; cbn [child]; assumption|]. eapply no_cycle; [exact HT|exact Hip]. }
  apply T_int; [rewrite Ei; exact Hip|rewrite Enk; exact Hk| |]; rewrite Enk; [exact (Hch false)|exact (Hch true)].
Qed.

Lemma T_insert : forall n lo hi, T g n lo hi -> lo <= k < hi -> path g k n p -> T g' n lo hi.
Proof.
  induction 1 as [n lo hi Hl Hk|n lo hi Hi Hk H1 IH1 H2 IH2]; intros Hr Hp.
  - destruct (path_head _ _ _ _ Hp) as [->|(Hn & _)]; [|contradiction]. contradiction.
  - destruct (Nat.eq_dec n p) as [->|Nn]; [apply T_insert_at; [now apply T_int|exact Hr]|].
    destruct (path_head _ _ _ _ Hp) as [->|(_ & Hp')]; [congruence|].
    pose proof (dirk_spec g k n Hi Hk1) as Hd.
    assert (Hin : insub g (child g n (dirk g k n)) p) by (eapply path_insub; eauto).
    apply T_int; [rewrite Ei; exact Hi|rewrite Enk; exact Hk| |]; rewrite Enk.
    + change (lft g' n) with (child g' n false). rewrite Eo by (now left). cbn [child].
      destruct (dirk g k n) eqn:Ed; cbn [child] in *.
      * apply Hframe; [exact H1|]. intros Hx. pose proof (T_keys _ _ _ _ H1 _ Hx). pose proof (T_keys _ _ _ _ H2 _ Hin). lia.
      * apply IH1; [|exact Hp']. assert (~ node_key g n <= k) by (intros X; apply Hd in X; discriminate). lia.
    + change (rgt g' n) with (child g' n true). rewrite Eo by (now left). cbn [child].
      destruct (dirk g k n) eqn:Ed; cbn [child] in *.
      * apply IH2; [|exact Hp']. assert (node_key g n <= k) by (now apply Hd). lia.
      * apply Hframe; [exact H2|]. intros Hx. pose proof (T_keys _ _ _ _ H2 _ Hx). pose proof (T_keys _ _ _ _ H1 _ Hin). lia.
Qed.
End Insert.

(** paths to internal nodes survive the insertion CAS *)
Lemma path_insert g k' p d ni n :
  ~ internal g (child g p d) -> path g k' root n -> internal g n -> path (set_child g p d ni) k' root n.
Proof.
  intros Hl Hp. set (g' := set_child g p d ni).
  assert (Ef : flags g' = flags g) by (unfold g', set_child; destruct d; reflexivity).
  assert (Ek : ikey g' = ikey g) by (unfold g', set_child; destruct d; reflexivity).
  induction Hp as [|m Hm IH Hi]; intros Hn; [constructor|].
  assert (Ed : dirk g' k' m = dirk g k' m) by (unfold dirk; now rewrite Ef, Ek).
  assert (Ec : child g' m (dirk g' k' m) = child g m (dirk g k' m)).
  { rewrite Ed. destruct (Nat.eq_dec m p) as [->|Nm].
    - destruct (Bool.bool_dec (dirk g k' p) d) as [E|E]; [rewrite E in Hn; contradiction|].
      unfold g', set_child, child. destruct d, (dirk g k' p); cbn; try reflexivity; congruence.
    - unfold g', set_child, child. destruct d, (dirk g k' m); cbn; unfold upd1; try reflexivity; destruct (Nat.eqb_spec m p); congruence. }
  rewrite <- Ec. constructor; [now apply IH|unfold internal in *; now rewrite Ef].
Qed.

(** below the Inf1 node every key is finite *)
Lemma below_inf1 g k p : T g root (-1) 1002 -> node_key g root = 1001 -> internal g root -> node_key g (lft g root) = 1000 ->
  0 <= k < 1000 -> path g k root p -> internal g p -> p <> root -> node_key g (child g p (dirk g k p)) < 1000.
Proof.
  intros HT Hkr Hir HL Hk Hp Hip Hne.
  destruct (path_head _ _ _ _ Hp) as [E|(_ & Hp1)]; [congruence|].
  assert (Hd0 : dirk g k root = false).
  { destruct (dirk g k root) eqn:E; [|reflexivity]. apply (dirk_spec g k root Hir ltac:(lia)) in E. lia. }
  rewrite Hd0 in Hp1. cbn [child] in Hp1.
  destruct (T_inv_int _ _ _ _ HT Hir) as (_ & H1 & _). rewrite Hkr in H1. set (r1 := lft g root) in *.
  assert (Hgen : forall q l h, T g q l h -> h <= 1000 -> l <= k < h -> path g k q p -> node_key g (child g p (dirk g k p)) < 1000).
  { intros q l h Hq Hh Hr Hpq. destruct (T_path_range g k q l h Hq Hr ltac:(lia) p Hpq) as (l' & h' & A1 & A2 & A3 & A4).
    destruct (T_inv_int _ _ _ _ A4 Hip) as (B1 & B2 & B3).
    destruct (dirk g k p); cbn [child]; [pose proof (T_key _ _ _ _ B3)|pose proof (T_key _ _ _ _ B2)]; lia. }
  destruct (path_head _ _ _ _ Hp1) as [E|(Hi1 & Hp2)].
  - subst p. assert (Hd1 : dirk g k r1 = false).
    { destruct (dirk g k r1) eqn:E; [|reflexivity]. apply (dirk_spec g k r1 Hip ltac:(lia)) in E. lia. }
    rewrite Hd1. cbn [child]. destruct (T_inv_int _ _ _ _ H1 Hip) as (_ & B2 & _). pose proof (T_key _ _ _ _ B2). lia.
  - assert (Hd1 : dirk g k r1 = false).
    { destruct (dirk g k r1) eqn:E; [|reflexivity]. apply (dirk_spec g k r1 Hi1 ltac:(lia)) in E. lia. }
    rewrite Hd1 in Hp2. cbn [child] in Hp2. destruct (T_inv_int _ _ _ _ H1 Hi1) as (_ & B2 & _). rewrite HL in B2.
    apply (Hgen (lft g r1) (-1) 1000 B2); [lia|lia|exact Hp2].
Qed.

(** * Part 2: every reachable state of programs of insert / contains satisfies the invariant *)
Definition owner_of (p : ptr) : nat := ((p - 4) / 32) mod 64.
Definition ser_of (p : ptr) : nat := ((p - 4) / 32) / 64.
Lemma mk_id_owner t ser kind key : (t < 64)%nat -> (kind < 4)%nat -> (key < 8)%nat -> owner_of (mk_id t ser kind key) = t.
Proof.
  intros Ht Hk Hy. unfold owner_of, mk_id.
  replace (4 + 32 * (ser * 64 + t) + 8 * kind + key - 4)%nat with ((8 * kind + key) + (ser * 64 + t) * 32)%nat by lia.
  rewrite Nat.div_add by lia. rewrite (Nat.div_small (8 * kind + key) 32) by lia. cbn [Nat.add].
  rewrite Nat.add_comm, Nat.mod_add by lia. now apply Nat.mod_small.
Qed.
Lemma mk_id_ser t ser kind key : (t < 64)%nat -> (kind < 4)%nat -> (key < 8)%nat -> ser_of (mk_id t ser kind key) = ser.
Proof.
  intros Ht Hk Hy. unfold ser_of, mk_id.
  replace (4 + 32 * (ser * 64 + t) + 8 * kind + key - 4)%nat with ((8 * kind + key) + (ser * 64 + t) * 32)%nat by lia.
  rewrite Nat.div_add by lia. rewrite (Nat.div_small (8 * kind + key) 32) by lia. cbn [Nat.add].
  rewrite Nat.add_comm, Nat.div_add by lia. rewrite (Nat.div_small t 64) by lia. reflexivity.
Qed.
Lemma mk_id_ge t ser kind key : (4 <= mk_id t ser kind key)%nat.
Proof. unfold mk_id. lia. Qed.
Lemma mk_id_lkey t ser key : (key < 8)%nat -> lkey (mk_id t ser 0 key) = Z.of_nat key.
Proof.
  intros H. unfold lkey, mk_id. f_equal. replace (4 + 32 * (ser * 64 + t) + 8 * 0 + key - 4)%nat with (key + (4 * (ser * 64 + t)) * 8)%nat by lia.
  rewrite Nat.mod_add by lia. now apply Nat.mod_small.
Qed.

Record lview := mkLV {
  vpa : list (Z * ptr);                       (* (k, n): n is published; if it is internal it is on the search path of k *)
  vfl : list (ptr * Z * Z);                   (* (n, flags, key) of a published node (immutable) *)
  vleaf : option ptr;                         (* my leaf, not linked yet *)
  vni : option (ptr * Z * Z * ptr * ptr);     (* my internal node, not linked yet: flags, key, left, right *)
  vser : nat
}.
Record aux := mkAux { apub : ptr -> bool; aviews : nat -> lview }.
Definition view (a : aux) (t : nat) : lview := aviews a t.
Definition mk_a (a : aux) (t : nat) (pub' : ptr -> bool) (lv' : lview) : aux :=
  mkAux pub' (fun u => if Nat.eqb u t then lv' else aviews a u).
Lemma view_mk_same a t pub' lv' : view (mk_a a t pub' lv') t = lv'.
Proof. unfold view, mk_a; cbn. now rewrite Nat.eqb_refl. Qed.
Lemma view_mk_other a t pub' lv' u : u <> t -> view (mk_a a t pub' lv') u = view a u.
Proof. unfold view, mk_a; cbn. intros H. destruct (Nat.eqb_spec u t); congruence. Qed.
Lemma frame_mk a t pub' lv' : Conc.frame view t a (mk_a a t pub' lv').
Proof. intros u H. now apply view_mk_other. Qed.

Definition own_ok (pub : ptr -> bool) (t : nat) (n : ptr) : Prop := (4 <= n)%nat /\ pub n = false /\ owner_of n = t.

Definition lv_ok (g : G) (pub : ptr -> bool) (t : nat) (lv : lview) : Prop :=
  Forall (fun kn => pub (snd kn) = true /\ (internal g (snd kn) -> path g (fst kn) root (snd kn))) (vpa lv) /\
  Forall (fun x => pub (fst (fst x)) = true /\ flags g (fst (fst x)) = snd (fst x) /\ ikey g (fst (fst x)) = snd x) (vfl lv) /\
  match vleaf lv with Some l => own_ok pub t l /\ flags g l = 0 | None => True end /\
  match vni lv with
  | Some (n, f, key, l, r) => (own_ok pub t n /\ vleaf lv <> Some n) /\ flags g n = f /\ ikey g n = key /\ lft g n = l /\ rgt g n = r
  | None => True
  end /\
  (forall n, (4 <= n)%nat -> owner_of n = t -> (vser lv <= ser_of n)%nat ->
     pub n = false /\ vleaf lv <> Some n /\ (forall f key l r, vni lv <> Some (n, f, key, l, r))).

Record IS (g : G) (a : aux) : Prop := {
  s_T : T g root (-1) 1002;
  s_root : flags g root = 5;
  s_L : node_key g (lft g root) = 1000;
  s_noroot : forall n d, apub a n = true -> internal g n -> child g n d <> root;
  s_closed : forall n d, apub a n = true -> internal g n -> apub a (child g n d) = true;
  s_rootpub : apub a root = true;
  s_views : forall t, lv_ok g (apub a) t (view a t);
  s_null : flags g null = 0
}.
Definition Inv (g : G) (a : aux) (tr : list (nat * ev)) : Prop := IS g a.

Definition SAFE {R} (t : nat) (p : prog R) (lv : lview) : Prop :=
  @Conc.safe G V ev aux lview view Inv R t p lv (fun _ _ => True).

Lemma S_ret {R} t (r : R) lv : SAFE t (Ret r) lv.
Proof. exact Logic.I. Qed.

Lemma S_emit {R} t es (k : prog R) lv : SAFE t k lv -> SAFE t (Emit es k) lv.
Proof.
  intros H. unfold SAFE. cbn [Conc.safe]. intros g a tr Hi Hv. exists a. split; [exact Hi|]. split; [intros u _; reflexivity|]. now rewrite Hv.
Qed.

Lemma S_act {R} t f (k : V -> prog R) lv :
  (forall g a, IS g a -> view a t = lv ->
     exists pub' lv', IS (fst (fst (f g))) (mk_a a t pub' lv') /\ SAFE t (k (snd (fst (f g)))) lv') ->
  SAFE t (Act f k) lv.
Proof.
  intros H. unfold SAFE. cbn [Conc.safe]. intros g a tr Hi Hv. destruct (H g a Hi Hv) as (pub' & lv' & H1 & H2).
  exists (mk_a a t pub' lv'). split; [exact H1|]. split; [apply frame_mk|]. now rewrite view_mk_same.
Qed.

(** the tree-shaped fields are the same, except those of the node [n] *)
Definition same_but (g g' : G) (n : option ptr) : Prop :=
  forall x, Some x <> n -> flags g' x = flags g x /\ ikey g' x = ikey g x /\ lft g' x = lft g x /\ rgt g' x = rgt g x.

Lemma insub_pub g a x : IS g a -> insub g root x -> apub a x = true.
Proof. intros Hs H. induction H as [|m d Hm IH Hi]; [apply (s_rootpub _ _ Hs)|now apply (s_closed _ _ Hs)]. Qed.

Lemma sb_internal g g' n x : same_but g g' n -> Some x <> n -> (internal g' x <-> internal g x).
Proof. intros H N. destruct (H x N) as (E & _). unfold internal. now rewrite E. Qed.
Lemma sb_child g g' n x d : same_but g g' n -> Some x <> n -> child g' x d = child g x d.
Proof. intros H N. destruct (H x N) as (_ & _ & E3 & E4). unfold child. now rewrite E3, E4. Qed.
Lemma sb_key g g' n x : same_but g g' n -> Some x <> n -> node_key g' x = node_key g x.
Proof. intros H N. destruct (H x N) as (E1 & E2 & _). now apply node_key_same. Qed.

Definition unpub (pub : ptr -> bool) (n : option ptr) : Prop := match n with Some x => pub x = false | None => True end.
Lemma unpub_ne pub n x : unpub pub n -> pub x = true -> Some x <> n.
Proof. intros H Hx E. subst n. cbn in H. congruence. Qed.

Lemma sb_same_on g g' a n : IS g a -> same_but g g' n -> unpub (apub a) n -> same_on g g' (insub g root).
Proof. intros Hs Hb Hu x Hx. apply Hb. eapply unpub_ne; eauto. eapply insub_pub; eauto. Qed.

Lemma sb_path g g' a n k x : IS g a -> same_but g g' n -> unpub (apub a) n -> path g k root x -> path g' k root x.
Proof. intros Hs Hb Hu Hp. eapply path_frame; [exact Hp|eapply sb_same_on; eauto]. Qed.

(** the view of a thread that does not own [n] *)
Lemma lv_ok_sb g g' a n t u :
  IS g a -> same_but g g' n -> unpub (apub a) n -> (forall x, n = Some x -> (4 <= x)%nat /\ owner_of x = t) -> u <> t ->
  lv_ok g' (apub a) u (view a u).
Proof.
  intros Hs Hb Hu Ho Nu. destruct (s_views _ _ Hs u) as (H1 & H2 & H3 & H4 & H5). split; [|split; [|split; [|split]]].
  - rewrite Forall_forall in *. intros kn Hin. destruct (H1 _ Hin) as [A B]. split; [exact A|]. intros Hi.
    eapply sb_path; eauto. apply B. apply (proj1 (sb_internal g g' n (snd kn) Hb (unpub_ne _ _ _ Hu A))). exact Hi.
  - rewrite Forall_forall in *. intros x Hin. destruct (H2 _ Hin) as (A & B & C). destruct (Hb (fst (fst x)) (unpub_ne _ _ _ Hu A)) as (E1 & E2 & _).
    rewrite E1, E2. auto.
  - destruct (vleaf (view a u)) as [l|]; [|exact Logic.I]. destruct H3 as [(O1 & O2 & O3) F].
    assert (N : Some l <> n) by (intros E; destruct (Ho l (eq_sym E)); congruence).
    destruct (Hb l N) as (E1 & _). rewrite E1. repeat split; auto.
  - destruct (vni (view a u)) as [[[[[m f] key] l] r]|]; [|exact Logic.I]. destruct H4 as [((O1 & O2 & O3) & O4) F].
    assert (N : Some m <> n) by (intros E; destruct (Ho m (eq_sym E)); congruence).
    destruct (Hb m N) as (E1 & E2 & E3 & E4). rewrite E1, E2, E3, E4. destruct F as (F1 & F2 & F3 & F4). repeat split; auto.
  - exact H5.
Qed.

(** a step that changes tree-shaped fields only of an unpublished node of the running thread (or of no node) *)
Lemma IS_sb g g' a t n lv' :
  IS g a -> same_but g g' n -> unpub (apub a) n -> (forall x, n = Some x -> (4 <= x)%nat /\ owner_of x = t) ->
  lv_ok g' (apub a) t lv' -> IS g' (mk_a a t (apub a) lv').
Proof.
  intros Hs Hb Hu Ho Hv. pose proof Hs as [h1 h2 h3 h4 h5 h6 h7 h8].
  assert (Nr : Some root <> n) by (eapply unpub_ne; eauto).
  assert (Hir : internal g root) by (unfold internal; rewrite h2; reflexivity).
  assert (N1 : Some (lft g root) <> n) by (eapply unpub_ne; eauto; apply (h5 root false h6 Hir)).
  constructor; cbn [apub mk_a].
  - eapply T_frame; [exact h1|eapply sb_same_on; eauto].
  - destruct (Hb root Nr) as (E & _). now rewrite E.
  - destruct (Hb root Nr) as (_ & _ & E & _). rewrite E. rewrite (sb_key g g' n); auto.
  - intros m d Hp Hi. pose proof (unpub_ne _ _ _ Hu Hp) as N. rewrite (sb_child g g' n m d Hb N). apply h4; [exact Hp|]. now apply (sb_internal g g' n m Hb N).
  - intros m d Hp Hi. pose proof (unpub_ne _ _ _ Hu Hp) as N. rewrite (sb_child g g' n m d Hb N). apply h5; [exact Hp|]. now apply (sb_internal g g' n m Hb N).
  - exact h6.
  - intros u. destruct (Nat.eq_dec u t) as [->|Nu]; [rewrite view_mk_same; exact Hv|].
    rewrite view_mk_other by exact Nu. eapply lv_ok_sb; eauto.
  - assert (N0 : Some null <> n) by (intros E; destruct (Ho null (eq_sym E)) as [X _]; unfold null in X; lia).
    destruct (Hb null N0) as (E & _). now rewrite E.
Qed.

Definition treelike (f : G -> G * V * list ev) : Prop := forall g, same_but g (fst (fst (f g))) None.

(** the part of a view that does not mention own nodes is insensitive to [same_but] on unpublished nodes *)
Lemma lv_ok_keep g g' a t lv :
  IS g a -> same_but g g' None -> lv_ok g (apub a) t lv -> lv_ok g' (apub a) t lv.
Proof.
  intros Hs Hb (H1 & H2 & H3 & H4 & H5). assert (N : forall x, Some x <> (None : option ptr)) by discriminate.
  split; [|split; [|split; [|split]]].
  - rewrite Forall_forall in *. intros kn Hin. destruct (H1 _ Hin) as [A B]. split; [exact A|]. intros Hi.
    eapply (sb_path g g' a None); eauto; [exact Logic.I|]. apply B. apply (proj1 (sb_internal g g' None (snd kn) Hb (N _))). exact Hi.
  - rewrite Forall_forall in *. intros x Hin. destruct (H2 _ Hin) as (A & B & C). destruct (Hb (fst (fst x)) (N _)) as (E1 & E2 & _). rewrite E1, E2. auto.
  - destruct (vleaf lv) as [l|]; [|exact Logic.I]. destruct (Hb l (N _)) as (E1 & _). now rewrite E1.
  - destruct (vni lv) as [[[[[m f] key] l] r]|]; [|exact Logic.I]. destruct (Hb m (N _)) as (E1 & E2 & E3 & E4). now rewrite E1, E2, E3, E4.
  - exact H5.
Qed.

Lemma S_keep {R} t f (k : V -> prog R) lv :
  treelike f ->
  (forall g a, IS g a -> view a t = lv -> exists lv', lv_ok g (apub a) t lv' /\ SAFE t (k (snd (fst (f g)))) lv') ->
  SAFE t (Act f k) lv.
Proof.
  intros Hf H. apply S_act. intros g a Hs Hv. destruct (H g a Hs Hv) as (lv' & V1 & V2).
  exists (apub a), lv'. split; [|exact V2]. apply (IS_sb g _ a t None lv' Hs (Hf g)); [exact Logic.I|discriminate|].
  eapply lv_ok_keep; eauto.
Qed.

Lemma S_nx {R} t f (k : V -> prog R) lv : treelike f -> (forall v, SAFE t (k v) lv) -> SAFE t (Act f k) lv.
Proof.
  intros Hf H. apply S_keep; [exact Hf|]. intros g a Hs Hv. exists lv. split; [rewrite <- Hv; apply (s_views _ _ Hs)|apply H].
Qed.
Ltac tl := intros g0 x0 _; try (unfold a_cas_upd; destruct (u_eqb _ _));
  cbn [fst snd flags ikey lft rgt a_begin a_ld_flags a_st_emp a_faa_emp a_ld_child a_ld_upd a_faa_cnt a_fas_cnt a_guard_st a_guard_ld a_sync a_ret_ld a_ret_st]; auto.
Ltac nx := apply S_nx; [tl|intros ?].

(** ** facts of a view *)
Definition addpa (k : Z) (c : ptr) (lv : lview) : lview := mkLV ((k, c) :: vpa lv) (vfl lv) (vleaf lv) (vni lv) (vser lv).
Definition addfl (n : ptr) (f key : Z) (lv : lview) : lview := mkLV (vpa lv) ((n, f, key) :: vfl lv) (vleaf lv) (vni lv) (vser lv).
Definition vle (lv lv' : lview) : Prop :=
  incl (vpa lv) (vpa lv') /\ incl (vfl lv) (vfl lv') /\ vleaf lv' = vleaf lv /\ vni lv' = vni lv /\ vser lv' = vser lv.
Lemma vle_refl lv : vle lv lv.
Proof. repeat split; auto using incl_refl. Qed.
Lemma vle_trans a b c : vle a b -> vle b c -> vle a c.
Proof. intros (A1 & A2 & A3 & A4 & A5) (B1 & B2 & B3 & B4 & B5). repeat split; try congruence; eapply incl_tran; eauto. Qed.
Lemma vle_addpa k c lv : vle lv (addpa k c lv).
Proof. repeat split; cbn; auto using incl_refl, incl_tl. Qed.
Lemma vle_addfl n f key lv : vle lv (addfl n f key lv).
Proof. repeat split; cbn; auto using incl_refl, incl_tl. Qed.
Definition knownp (lv : lview) (n : ptr) : Prop := n = root \/ exists k, In (k, n) (vpa lv).
Definition kpath (lv : lview) (k : Z) (n : ptr) : Prop := n = root \/ In (k, n) (vpa lv).
Lemma kpath_mono lv lv' k n : vle lv lv' -> kpath lv k n -> kpath lv' k n.
Proof. intros (H & _) [->|Hk]; [now left|right; auto]. Qed.
Lemma kpath_knownp lv k n : kpath lv k n -> knownp lv n.
Proof. intros [->|H]; [now left|right; eauto]. Qed.

Lemma knownp_mono lv lv' n : vle lv lv' -> knownp lv n -> knownp lv' n.
Proof. intros (H & _) [->|(k & Hk)]; [now left|right; exists k; auto]. Qed.

Lemma knownp_pub g a t n : IS g a -> knownp (view a t) n -> apub a n = true.
Proof.
  intros Hs [->|(k & Hk)]; [apply (s_rootpub _ _ Hs)|]. destruct (s_views _ _ Hs t) as (H1 & _). rewrite Forall_forall in H1. apply (H1 _ Hk).
Qed.

Lemma lv_ok_addfl g a t lv n : IS g a -> view a t = lv -> knownp lv n -> lv_ok g (apub a) t (addfl n (flags g n) (ikey g n) lv).
Proof.
  intros Hs Hv Hk. pose proof (s_views _ _ Hs t) as Vt. rewrite Hv in Vt. destruct Vt as (H1 & H2 & H3 & H4 & H5).
  split; [exact H1|]. split; [|split; [exact H3|split; [exact H4|exact H5]]]. cbn [vfl addfl]. constructor; [|exact H2]. cbn. split; [|auto]. rewrite <- Hv in Hk. eapply knownp_pub; eauto.
Qed.

Lemma S_ld_flags {R} t n (k : V -> prog R) lv :
  knownp lv n ->
  (forall f key, (n = null -> f = 0) -> (n = root -> f = 5) -> (forall f' key', In (n, f', key') (vfl lv) -> f' = f /\ key' = key) ->
     SAFE t (k (VFl f key)) (addfl n f key lv)) ->
  SAFE t (Act (a_ld_flags n) k) lv.
Proof.
  intros Hk H. apply S_keep; [tl|]. intros g a Hs Hv. exists (addfl n (flags g n) (ikey g n) lv). split; [now apply lv_ok_addfl|].
  apply H; [intros ->; apply (s_null _ _ Hs)|intros ->; apply (s_root _ _ Hs)|].
  intros f' key' Hin. pose proof (s_views _ _ Hs t) as Vt. rewrite Hv in Vt. destruct Vt as (_ & H2 & _). rewrite Forall_forall in H2.
  destruct (H2 _ Hin) as (_ & E1 & E2). cbn [fst snd] in *. auto.
Qed.

Lemma S_ld_flags_own {R} t ni f key l r (k : V -> prog R) lv :
  vni lv = Some (ni, f, key, l, r) -> SAFE t (k (VFl f key)) lv -> SAFE t (Act (a_ld_flags ni) k) lv.
Proof.
  intros Ho H. apply S_keep; [tl|]. intros g a Hs Hv. exists lv. pose proof (s_views _ _ Hs t) as Vt. rewrite Hv in Vt. split; [exact Vt|].
  destruct Vt as (_ & _ & _ & H4 & _). rewrite Ho in H4. destruct H4 as (_ & E1 & E2 & _). cbn [a_ld_flags fst snd]. now rewrite E1, E2.
Qed.

Lemma kpath_ok g a t k0 pp : IS g a -> kpath (view a t) k0 pp -> apub a pp = true /\ (internal g pp -> path g k0 root pp).
Proof.
  intros Hs [->|Hin]; [split; [apply (s_rootpub _ _ Hs)|intros _; constructor]|].
  destruct (s_views _ _ Hs t) as (H1 & _). rewrite Forall_forall in H1. apply (H1 _ Hin).
Qed.

Lemma S_ld_child {R} t k0 pp fp kp (k : V -> prog R) lv :
  kpath lv k0 pp -> In (pp, fp, kp) (vfl lv) -> is_internal_f fp = true ->
  (forall c, c <> root -> SAFE t (k (VP c)) (addpa k0 c lv)) ->
  SAFE t (Act (a_ld_child pp (0 <=? cmp_node k0 fp kp)) k) lv.
Proof.
  intros Hpa Hfl Hint H. apply S_keep; [tl|]. intros g a Hs Hv. cbn [a_ld_child fst snd].
  pose proof (s_views _ _ Hs t) as Vt. rewrite Hv in Vt. pose proof Vt as (H1 & H2 & H3 & H4 & H5).
  pose proof H1 as H1'. pose proof H2 as H2'. rewrite Forall_forall in H1', H2'.
  rewrite <- Hv in Hpa. destruct (kpath_ok g a t k0 pp Hs Hpa) as [P1 P2]. destruct (H2' _ Hfl) as (F1 & F2 & F3). cbn [fst snd] in *.
  assert (Hi : internal g pp) by (unfold internal; now rewrite F2).
  assert (Hd : dirk g k0 pp = (0 <=? cmp_node k0 fp kp)) by (unfold dirk; now rewrite F2, F3).
  set (c := child g pp (0 <=? cmp_node k0 fp kp)).
  exists (addpa k0 c lv). split; [|apply H; apply (s_noroot _ _ Hs); assumption].
  split; [|split; [exact H2|split; [exact H3|split; [exact H4|exact H5]]]]. cbn [vpa addpa]. constructor; [|exact H1]. cbn [fst snd]. split; [apply (s_closed _ _ Hs); assumption|].
  intros _. unfold c. rewrite <- Hd. constructor; [now apply P2|exact Hi].
Qed.

(** ** stores into my own, not yet linked, nodes *)
Definition set_ni (lv : lview) (x : option (ptr * Z * Z * ptr * ptr)) : lview := mkLV (vpa lv) (vfl lv) (vleaf lv) x (vser lv).

Lemma lv_pub_parts g g' a n t lv :
  IS g a -> same_but g g' n -> unpub (apub a) n -> lv_ok g (apub a) t lv ->
  Forall (fun kn => apub a (snd kn) = true /\ (internal g' (snd kn) -> path g' (fst kn) root (snd kn))) (vpa lv) /\
  Forall (fun x => apub a (fst (fst x)) = true /\ flags g' (fst (fst x)) = snd (fst x) /\ ikey g' (fst (fst x)) = snd x) (vfl lv).
Proof.
  intros Hs Hb Hu (H1 & H2 & _). split; rewrite Forall_forall in *.
  - intros kn Hin. destruct (H1 _ Hin) as [A B]. split; [exact A|]. intros Hi.
    eapply sb_path; eauto. apply B. apply (proj1 (sb_internal g g' n (snd kn) Hb (unpub_ne _ _ _ Hu A))). exact Hi.
  - intros x Hin. destruct (H2 _ Hin) as (A & B & C). destruct (Hb (fst (fst x)) (unpub_ne _ _ _ Hu A)) as (E1 & E2 & _). rewrite E1, E2. auto.
Qed.

(** generic: an action that rewrites fields of my internal node *)
Lemma S_own_ni {R} t f (k : V -> prog R) lv ni f0 key0 l0 r0 f1 key1 l1 r1 :
  vni lv = Some (ni, f0, key0, l0, r0) ->
  (forall g, same_but g (fst (fst (f g))) (Some ni) /\
             (flags g ni = f0 -> ikey g ni = key0 -> lft g ni = l0 -> rgt g ni = r0 ->
              let g' := fst (fst (f g)) in flags g' ni = f1 /\ ikey g' ni = key1 /\ lft g' ni = l1 /\ rgt g' ni = r1)) ->
  (forall v, SAFE t (k v) (set_ni lv (Some (ni, f1, key1, l1, r1)))) ->
  SAFE t (Act f k) lv.
Proof.
  intros Ho Hf H. apply S_act. intros g a Hs Hv. destruct (Hf g) as [Hb Hnew].
  pose proof (s_views _ _ Hs t) as Vt. rewrite Hv in Vt. pose proof Vt as (H1 & H2 & H3 & H4 & H5). rewrite Ho in H4.
  destruct H4 as (((O1 & O2 & O3) & O4) & E1 & E2 & E3 & E4).
  exists (apub a), (set_ni lv (Some (ni, f1, key1, l1, r1))). split; [|apply H].
  assert (Hu : unpub (apub a) (Some ni)) by exact O2.
  apply (IS_sb g _ a t (Some ni)); auto; [intros x E; inversion E; subst; auto|].
  destruct (lv_pub_parts g _ a (Some ni) t lv Hs Hb Hu Vt) as [P1 P2].
  split; [exact P1|]. split; [exact P2|]. cbn [vleaf vni set_ni vser]. split; [|split].
  - destruct (vleaf lv) as [l|] eqn:El; [|exact Logic.I]. destruct H3 as [(L1 & L2 & L3) L4].
    assert (N : Some l <> Some ni) by congruence.
    destruct (Hb l N) as (E & _). rewrite E. repeat split; auto.
  - split; [repeat split; auto|]. now apply Hnew.
  - intros n Hn1 Hn2 Hn3. destruct (H5 n Hn1 Hn2 Hn3) as (A & B & C). split; [exact A|]. split; [exact B|].
    intros f' key' l' r' E. inversion E; subst. eapply C. exact Ho.
Qed.

(** ** allocation: the constructor store of a fresh node *)
Lemma S_alloc_leaf {R} t sr key (k : V -> prog R) lv :
  (t < 64)%nat -> (key < 8)%nat -> (vser lv <= sr)%nat ->
  (forall v, SAFE t (k v) (mkLV (vpa lv) (vfl lv) (Some (mk_id t sr 0 key)) (vni lv) (S sr))) ->
  SAFE t (Act (a_st_flags (mk_id t sr 0 key) 0) k) lv.
Proof.
  intros Ht Hk Hsr H. set (leaf := mk_id t sr 0 key). apply S_act. intros g a Hs Hv.
  pose proof (s_views _ _ Hs t) as Vt. rewrite Hv in Vt. pose proof Vt as (H1 & H2 & H3 & H4 & H5).
  assert (Hge : (4 <= leaf)%nat) by apply mk_id_ge.
  assert (Hown : owner_of leaf = t) by (apply mk_id_owner; lia).
  assert (Hser : ser_of leaf = sr) by (apply mk_id_ser; lia).
  destruct (H5 leaf Hge Hown ltac:(lia)) as (Fp & Fl & Fn).
  exists (apub a), (mkLV (vpa lv) (vfl lv) (Some leaf) (vni lv) (S sr)). split; [|apply H].
  assert (Hb : same_but g (fst (fst (a_st_flags leaf 0 g))) (Some leaf)).
  { intros x Nx. cbn [a_st_flags fst snd flags ikey lft rgt]. unfold upd1. destruct (Nat.eqb_spec x leaf); [congruence|auto]. }
  apply (IS_sb g _ a t (Some leaf)); auto; [intros x E; injection E as <-; auto|].
  destruct (lv_pub_parts g _ a (Some leaf) t lv Hs Hb Fp Vt) as [P1 P2].
  split; [exact P1|]. split; [exact P2|]. cbn [vleaf vni vser]. split; [|split].
  - split; [repeat split; auto|]. cbn [a_st_flags fst snd flags]. unfold upd1. now rewrite Nat.eqb_refl.
  - destruct (vni lv) as [[[[[m f] key'] l] r]|] eqn:En; [|exact Logic.I]. destruct H4 as [((O1 & O2 & O3) & O4) F].
    assert (N : Some m <> Some leaf) by (intros E; injection E as ->; eapply Fn; reflexivity).
    destruct (Hb m N) as (E1 & E2 & E3 & E4). rewrite E1, E2, E3, E4. split; [split; [repeat split; auto|congruence]|exact F].
  - intros n Hn1 Hn2 Hn3. destruct (H5 n Hn1 Hn2 ltac:(lia)) as (A & B & C). split; [exact A|]. split; [|exact C].
    intros E. inversion E; subst n. lia.
Qed.

Lemma S_alloc_ni {R} t sr (k : V -> prog R) lv :
  (t < 64)%nat -> (vser lv <= sr)%nat ->
  (forall v key l r, SAFE t (k v) (mkLV (vpa lv) (vfl lv) (vleaf lv) (Some (mk_id t sr 1 0, 1, key, l, r)) (S sr))) ->
  SAFE t (Act (a_st_flags (mk_id t sr 1 0) 1) k) lv.
Proof.
  intros Ht Hsr H. set (ni := mk_id t sr 1 0). apply S_act. intros g a Hs Hv.
  pose proof (s_views _ _ Hs t) as Vt. rewrite Hv in Vt. pose proof Vt as (H1 & H2 & H3 & H4 & H5).
  assert (Hge : (4 <= ni)%nat) by apply mk_id_ge.
  assert (Hown : owner_of ni = t) by (apply mk_id_owner; lia).
  assert (Hser : ser_of ni = sr) by (apply mk_id_ser; lia).
  destruct (H5 ni Hge Hown ltac:(lia)) as (Fp & Fl & Fn).
  exists (apub a), (mkLV (vpa lv) (vfl lv) (vleaf lv) (Some (ni, 1, ikey g ni, lft g ni, rgt g ni)) (S sr)). split; [|apply H].
  assert (Hb : same_but g (fst (fst (a_st_flags ni 1 g))) (Some ni)).
  { intros x Nx. cbn [a_st_flags fst snd flags ikey lft rgt]. unfold upd1. destruct (Nat.eqb_spec x ni); [congruence|auto]. }
  apply (IS_sb g _ a t (Some ni)); auto; [intros x E; injection E as <-; auto|].
  destruct (lv_pub_parts g _ a (Some ni) t lv Hs Hb Fp Vt) as [P1 P2].
  split; [exact P1|]. split; [exact P2|]. cbn [vleaf vni vser]. split; [|split].
  - destruct (vleaf lv) as [l|] eqn:El; [|exact Logic.I]. destruct H3 as [(L1 & L2 & L3) L4].
    assert (N : Some l <> Some ni) by exact Fl. destruct (Hb l N) as (E & _). rewrite E. repeat split; auto.
  - split; [split; [repeat split; auto|exact Fl]|]. cbn [a_st_flags fst snd flags ikey lft rgt]. unfold upd1. rewrite Nat.eqb_refl. auto.
  - intros n Hn1 Hn2 Hn3. destruct (H5 n Hn1 Hn2 ltac:(lia)) as (A & B & C). split; [exact A|]. split; [exact B|].
    intros f' key' l' r' E. inversion E; subst n. lia.
Qed.

(** ** the child CAS of help_insert *)
Definition ins_shape (k0 : Z) (p l0 : ptr) (f0 : Z) (leaf : ptr) (fn keyn : Z) (a b : ptr) : Prop :=
  let ncmp := cmp_node k0 f0 (lkey l0) in
  (ncmp < 0 /\ a = leaf /\ b = l0 /\ ((p <> root /\ fn = 1 /\ keyn = lkey l0) \/ (p = root /\ fn = 3))) \/
  (0 < ncmp /\ a = l0 /\ b = leaf /\ fn = 1 /\ keyn = k0).

Lemma leaf_key g l : flags g l = 0 -> node_key g l = lkey l.
Proof. intros E. rewrite node_key_fin by (rewrite E; reflexivity). rewrite E. reflexivity. Qed.

Lemma S_cas_child_ins {R} t k0 p fp kp l0 f0 kl f0a kla ni fn keyn a b leaf (k : V -> prog R) lv :
  0 <= k0 < 8 ->
  kpath lv k0 p -> In (p, fp, kp) (vfl lv) -> is_internal_f fp = true ->
  In (l0, f0, kl) (vfl lv) -> In (l0, f0a, kla) (vfl lv) -> is_internal_f f0a = false ->
  vni lv = Some (ni, fn, keyn, a, b) -> vleaf lv = Some leaf -> lkey leaf = k0 ->
  ins_shape k0 p l0 f0 leaf fn keyn a b ->
  (forall cur, SAFE t (k (VCP false cur)) lv) ->
  SAFE t (k (VCP true l0)) (mkLV (vpa lv) (vfl lv) None None (vser lv)) ->
  SAFE t (Act (a_cas_child p (0 <=? cmp_node k0 fp kp) l0 ni) k) lv.
Proof.
  intros Hk0 Hpa Hflp Hip Hfl0 Hfl0a Hil0 Hni Hleaf Hlk Hshape Hfail Hok. apply S_act. intros g ax Hs Hv.
  pose proof (s_views _ _ Hs t) as Vt. rewrite Hv in Vt. pose proof Vt as (H1 & H2 & H3 & H4 & H5).
  pose proof H1 as H1'. pose proof H2 as H2'. rewrite Forall_forall in H1', H2'.
  assert (Hpa' : kpath (view ax t) k0 p) by (rewrite Hv; exact Hpa).
  destruct (kpath_ok g ax t k0 p Hs Hpa') as [P1 P2]. destruct (H2' _ Hflp) as (F1 & F2 & F3). destruct (H2' _ Hfl0) as (L1 & L2 & _). destruct (H2' _ Hfl0a) as (_ & L2a & _). cbn [fst snd] in *.
  rewrite Hni in H4. destruct H4 as (((O1 & O2 & O3) & O4) & N1 & N2 & N3 & N4).
  rewrite Hleaf in H3. destruct H3 as ((Q1 & Q2 & Q3) & Q4).
  assert (Hi : internal g p) by (unfold internal; now rewrite F2).
  assert (Hd : dirk g k0 p = (0 <=? cmp_node k0 fp kp)) by (unfold dirk; now rewrite F2, F3).
  rewrite <- Hd. set (d := dirk g k0 p). unfold a_cas_child.
  destruct (Nat.eqb_spec (child g p d) l0) as [Ec|Ec]; cbn [fst snd].
  2:{ exists (apub ax), lv. split; [|apply Hfail]. apply (IS_sb g g ax t None); auto; [intros x _; auto|exact Logic.I|discriminate]. }
  set (g' := set_child g p d ni).
  set (pub' := fun x => Nat.eqb x ni || Nat.eqb x leaf || apub ax x).
  exists pub', (mkLV (vpa lv) (vfl lv) None None (vser lv)). split; [|rewrite Ec; exact Hok].
  pose proof (P2 Hi) as Hpath.
  assert (Hroot : internal g root) by (unfold internal; rewrite (s_root _ _ Hs); reflexivity).
  assert (Hkroot : node_key g root = 1001) by (unfold node_key; rewrite (s_root _ _ Hs); reflexivity).
  assert (Hl0leaf : ~ internal g l0) by (unfold internal; rewrite L2a, Hil0; discriminate).
  assert (Hleafleaf : ~ internal g leaf) by (unfold internal; rewrite Q4; discriminate).
  assert (Hkleaf : node_key g leaf = k0) by (rewrite leaf_key by exact Q4; exact Hlk).
  assert (Hnep : ni <> p) by (intros ->; congruence).
  assert (Hpl0 : apub ax l0 = true) by (rewrite <- Ec; now apply (s_closed _ _ Hs)).
  (* the keys *)
  assert (Hkeys : internal g ni /\ ~ internal g a /\ ~ internal g b /\
                  ((a = l0 /\ node_key g b = k0) \/ (b = l0 /\ node_key g a = k0)) /\
                  node_key g a < node_key g ni <= node_key g b /\ (p = root -> node_key g ni = 1000)).
  { unfold ins_shape in Hshape. destruct Hshape as [(Hc & -> & -> & Hcase)|(Hc & -> & -> & -> & ->)].
    - destruct Hcase as [(Npr & -> & ->)|(-> & ->)].
      + assert (Hfin : node_key g l0 < 1000).
        { rewrite <- Ec. apply below_inf1; auto; [apply (s_T _ _ Hs)|apply (s_L _ _ Hs)|lia]. }
        assert (Hinf : inf_of (flags g l0) = 0) by (destruct (Z.eq_dec (inf_of (flags g l0)) 0) as [E|E]; [exact E|pose proof (node_key_inf _ _ E); lia]).
        assert (Hnl0 : node_key g l0 = lkey l0).
        { rewrite node_key_fin by exact Hinf. unfold internal in Hl0leaf. destruct (is_internal_f (flags g l0)); [contradiction|reflexivity]. }
        assert (Hnni : node_key g ni = lkey l0) by (rewrite node_key_fin by (rewrite N1; reflexivity); rewrite N1, N2; reflexivity).
        unfold cmp_node in Hc. rewrite <- L2, Hinf in Hc. cbn [Z.eqb] in Hc. unfold cmp3 in Hc.
        destruct (Z.ltb_spec k0 (lkey l0)); [|destruct (k0 =? lkey l0); lia].
        repeat split; auto; try (unfold internal; rewrite N1; reflexivity); try (right; split; auto; fail); try (left; split; auto; fail); try lia; try (intros; congruence).
      + assert (Hd0 : d = false).
        { unfold d. destruct (dirk g k0 root) eqn:E; [|reflexivity]. apply (dirk_spec g k0 root Hroot ltac:(lia)) in E. lia. }
        assert (Hnl0 : node_key g l0 = 1000) by (rewrite <- Ec, Hd0; apply (s_L _ _ Hs)).
        assert (Hnni : node_key g ni = 1000) by (unfold node_key; rewrite N1; reflexivity).
        repeat split; auto; try (unfold internal; rewrite N1; reflexivity); try (right; split; auto; fail); try (left; split; auto; fail); try lia; try (intros; congruence).
    - assert (Hinf : inf_of (flags g l0) = 0).
      { unfold cmp_node in Hc. rewrite <- L2 in Hc. destruct (Z.eqb_spec (inf_of (flags g l0)) 0); [assumption|lia]. }
      assert (Hnl0 : node_key g l0 = lkey l0).
      { rewrite node_key_fin by exact Hinf. unfold internal in Hl0leaf. destruct (is_internal_f (flags g l0)); [contradiction|reflexivity]. }
      assert (Hnni : node_key g ni = k0) by (rewrite node_key_fin by (rewrite N1; reflexivity); rewrite N1, N2; reflexivity).
      unfold cmp_node in Hc. rewrite <- L2, Hinf in Hc. cbn [Z.eqb] in Hc. unfold cmp3 in Hc.
      destruct (Z.ltb_spec k0 (lkey l0)); [lia|]. destruct (Z.eqb_spec k0 (lkey l0)); [lia|].
      repeat split; auto; try (unfold internal; rewrite N1; reflexivity); try (right; split; auto; fail); try (left; split; auto; fail); try lia; try (intros; congruence).
      intros ->. exfalso. assert (Hd0 : d = false).
      { unfold d. destruct (dirk g k0 root) eqn:E; [|reflexivity]. apply (dirk_spec g k0 root Hroot ltac:(lia)) in E. lia. }
      assert (node_key g l0 = 1000) by (rewrite <- Ec, Hd0; apply (s_L _ _ Hs)). lia. }
  destruct Hkeys as (Kni & Ka & Kb & Kab & Kord & Kroot). rewrite <- N3 in Ka, Kab, Kord. rewrite <- N4 in Kb, Kab, Kord.
  assert (HT' : T g' root (-1) 1002).
  { apply (T_insert g k0 p ni); auto; try lia; [fold d; rewrite Ec; exact Hl0leaf|fold d; rewrite Ec; exact Kab|apply (s_T _ _ Hs)]. }
  assert (Ef : flags g' = flags g) by (unfold g', set_child; destruct d; reflexivity).
  assert (Ek : ikey g' = ikey g) by (unfold g', set_child; destruct d; reflexivity).
  assert (Ei : forall x, internal g' x <-> internal g x) by (intros x; unfold internal; now rewrite Ef).
  assert (Eo : forall x dd, (x <> p \/ dd <> d) -> child g' x dd = child g x dd).
  { intros x dd Hx. unfold g', set_child, child. destruct d, dd; cbn; unfold upd1; try reflexivity;
      destruct (Nat.eqb_spec x p); try reflexivity; destruct Hx; congruence. }
  assert (Es : child g' p d = ni) by (unfold g', set_child, child; destruct d; cbn; unfold upd1; now rewrite Nat.eqb_refl).
  assert (Hpub' : forall x, apub ax x = true -> pub' x = true) by (intros x Hx; unfold pub'; rewrite Hx; apply orb_true_r).
  assert (Hpubni : pub' ni = true) by (unfold pub'; now rewrite Nat.eqb_refl).
  assert (Hpubleaf : pub' leaf = true) by (unfold pub'; rewrite Nat.eqb_refl; apply orb_true_iff; left; apply orb_true_r).
  assert (Hpub'inv : forall x, pub' x = true -> x = ni \/ x = leaf \/ apub ax x = true).
  { intros x Hx. unfold pub' in Hx. apply orb_true_iff in Hx. destruct Hx as [Hx|Hx]; [|auto]. apply orb_true_iff in Hx.
    destruct Hx as [Hx|Hx]; apply Nat.eqb_eq in Hx; auto. }
  (* views *)
  assert (Hparts : forall lv0, 
            Forall (fun kn => apub ax (snd kn) = true /\ (internal g (snd kn) -> path g (fst kn) root (snd kn))) (vpa lv0) ->
            Forall (fun x => apub ax (fst (fst x)) = true /\ flags g (fst (fst x)) = snd (fst x) /\ ikey g (fst (fst x)) = snd x) (vfl lv0) ->
            Forall (fun kn => pub' (snd kn) = true /\ (internal g' (snd kn) -> path g' (fst kn) root (snd kn))) (vpa lv0) /\
            Forall (fun x => pub' (fst (fst x)) = true /\ flags g' (fst (fst x)) = snd (fst x) /\ ikey g' (fst (fst x)) = snd x) (vfl lv0)).
  { intros lv0 A B. split; rewrite Forall_forall in *.
    - intros kn Hin. destruct (A _ Hin) as [A1 A2]. split; [now apply Hpub'|]. intros Hx. apply Ei in Hx.
      apply path_insert; auto. fold d. rewrite Ec. exact Hl0leaf.
    - intros x Hin. destruct (B _ Hin) as (B1 & B2 & B3). rewrite Ef, Ek. split; [now apply Hpub'|auto]. }
  constructor; cbn [apub mk_a].
  - exact HT'.
  - rewrite Ef. apply (s_root _ _ Hs).
  - change (lft g' root) with (child g' root false). rewrite (node_key_same g g') by (now rewrite ?Ef, ?Ek).
    destruct (Nat.eq_dec p root) as [Epr|Npr].
    + subst p. assert (Hd0 : d = false).
      { unfold d. destruct (dirk g k0 root) eqn:E; [|reflexivity]. apply (dirk_spec g k0 root Hroot ltac:(lia)) in E. lia. }
      rewrite <- Hd0 at 1. rewrite Es. now apply Kroot.
    + rewrite Eo by (left; congruence). apply (s_L _ _ Hs).
  - intros n dd Hn Hin. apply Ei in Hin. destruct (Hpub'inv n Hn) as [->|[->|Hp]]; [| contradiction |].
    + rewrite Eo by (now left). destruct dd; cbn [child]; [rewrite N4|rewrite N3];
        destruct Hshape as [(_ & -> & -> & _)|(_ & -> & -> & _)]; try (intros E; rewrite E in Q1; unfold root in Q1; lia);
        rewrite <- Ec; apply (s_noroot _ _ Hs); auto.
    + destruct (Nat.eq_dec n p) as [->|Nn]; [destruct (Bool.bool_dec dd d) as [->|Nd]|].
      * rewrite Es. intros E. rewrite E in O1. unfold root in O1. lia.
      * rewrite Eo by (right; exact Nd). now apply (s_noroot _ _ Hs).
      * rewrite Eo by (left; exact Nn). now apply (s_noroot _ _ Hs).
  - intros n dd Hn Hin. apply Ei in Hin. destruct (Hpub'inv n Hn) as [->|[->|Hp]]; [| contradiction |].
    + rewrite Eo by (now left). destruct dd; cbn [child]; [rewrite N4|rewrite N3];
        destruct Hshape as [(_ & -> & -> & _)|(_ & -> & -> & _)]; auto.
    + destruct (Nat.eq_dec n p) as [->|Nn]; [destruct (Bool.bool_dec dd d) as [->|Nd]|].
      * rewrite Es. exact Hpubni.
      * rewrite Eo by (right; exact Nd). apply Hpub'. now apply (s_closed _ _ Hs).
      * rewrite Eo by (left; exact Nn). apply Hpub'. now apply (s_closed _ _ Hs).
  - apply Hpub'. apply (s_rootpub _ _ Hs).
  - intros u. destruct (Nat.eq_dec u t) as [->|Nu].
    + rewrite view_mk_same. destruct (Hparts lv H1 H2) as [R1 R2]. split; [exact R1|]. split; [exact R2|]. cbn [vleaf vni vser].
      split; [exact Logic.I|]. split; [exact Logic.I|].
      intros n Hn1 Hn2 Hn3. destruct (H5 n Hn1 Hn2 Hn3) as (A & B & C). split; [|split; [discriminate|intros; discriminate]].
      destruct (pub' n) eqn:En; [|reflexivity]. exfalso. destruct (Hpub'inv n En) as [->|[->|Hp]]; [|apply B; exact Hleaf|rewrite Hp in A; discriminate].
      rewrite Hni in C. eapply C; reflexivity.
    + rewrite view_mk_other by exact Nu. destruct (s_views _ _ Hs u) as (U1 & U2 & U3 & U4 & U5).
      destruct (Hparts (view ax u) U1 U2) as [R1 R2]. split; [exact R1|]. split; [exact R2|].
      assert (Hup : forall x, (4 <= x)%nat -> owner_of x = u -> apub ax x = false -> pub' x = false).
      { intros x X1 X2 X3. destruct (pub' x) eqn:En; [|reflexivity]. exfalso. destruct (Hpub'inv x En) as [->|[->|Hp]];
          [rewrite X2 in O3; exact (Nu O3)|rewrite X2 in Q3; exact (Nu Q3)|rewrite Hp in X3; discriminate]. }
      split; [|split].
      * destruct (vleaf (view ax u)) as [l|]; [|exact Logic.I]. destruct U3 as [(L1' & L2' & L3') L4']. rewrite Ef. repeat split; auto.
      * destruct (vni (view ax u)) as [[[[[m f] key] l] r]|]; [|exact Logic.I]. destruct U4 as [((M1 & M2 & M3) & M4) (M5 & M6 & M7 & M8)].
        assert (Nm : m <> p) by (intros ->; congruence).
        rewrite Ef, Ek. change (lft g' m) with (child g' m false). change (rgt g' m) with (child g' m true). rewrite !Eo by (now left).
        repeat split; auto.
      * intros n Hn1 Hn2 Hn3. destruct (U5 n Hn1 Hn2 Hn3) as (A & B & C). split; [now apply Hup|auto].
  - rewrite Ef. apply (s_null _ _ Hs).
Qed.

(** ** monotone-closed safety *)
Definition SAFEm {R} (t : nat) (p : prog R) (lv : lview) : Prop := forall lv', vle lv lv' -> SAFE t p lv'.

Lemma Sm_ret {R} t (r : R) lv : SAFEm t (Ret r) lv.
Proof. intros lv' _. exact Logic.I. Qed.
Lemma Sm_emit {R} t es (k : prog R) lv : SAFEm t k lv -> SAFEm t (Emit es k) lv.
Proof. intros H lv' Hle. apply S_emit. now apply H. Qed.
Lemma Sm_nx {R} t f (k : V -> prog R) lv : treelike f -> (forall v, SAFEm t (k v) lv) -> SAFEm t (Act f k) lv.
Proof. intros Hf H lv' Hle. apply S_nx; [exact Hf|]. intros v. now apply H. Qed.
Ltac snx := apply Sm_nx; [tl|intros ?].

Lemma vle_addfl_mono n f key lv lv' : vle lv lv' -> vle (addfl n f key lv) (addfl n f key lv').
Proof. intros (H1 & H2 & H3 & H4 & H5). repeat split; cbn; auto. intros x [<-|Hx]; [now left|right; auto]. Qed.
Lemma vle_addpa_mono k c lv lv' : vle lv lv' -> vle (addpa k c lv) (addpa k c lv').
Proof. intros (H1 & H2 & H3 & H4 & H5). repeat split; cbn; auto. intros x [<-|Hx]; [now left|right; auto]. Qed.

Lemma Sm_ld_flags {R} t n (k : V -> prog R) lv :
  knownp lv n ->
  (forall f key lv1, vle lv lv1 -> In (n, f, key) (vfl lv1) -> (n = null -> f = 0) -> (n = root -> f = 5) ->
     (forall f' key', In (n, f', key') (vfl lv) -> f' = f /\ key' = key) -> SAFEm t (k (VFl f key)) lv1) ->
  SAFEm t (Act (a_ld_flags n) k) lv.
Proof.
  intros Hk H lv' Hle. apply S_ld_flags; [eapply knownp_mono; eauto|]. intros f key F0 F5 Fc.
  apply (H f key (addfl n f key lv')); auto; [eapply vle_trans; [exact Hle|apply vle_addfl]|now left| |apply vle_refl].
  intros f' key' Hin. apply Fc. destruct Hle as (_ & X & _). now apply X.
Qed.

Lemma Sm_ld_flags_own {R} t ni f key l r (k : V -> prog R) lv :
  vni lv = Some (ni, f, key, l, r) -> SAFEm t (k (VFl f key)) lv -> SAFEm t (Act (a_ld_flags ni) k) lv.
Proof.
  intros Ho H lv' Hle. apply (S_ld_flags_own t ni f key l r); [destruct Hle as (_ & _ & _ & E & _); congruence|now apply H].
Qed.

Lemma Sm_ld_child {R} t k0 pp fp kp (k : V -> prog R) lv :
  kpath lv k0 pp -> In (pp, fp, kp) (vfl lv) -> is_internal_f fp = true ->
  (forall c lv1, vle lv lv1 -> c <> root -> In (k0, c) (vpa lv1) -> SAFEm t (k (VP c)) lv1) ->
  SAFEm t (Act (a_ld_child pp (0 <=? cmp_node k0 fp kp)) k) lv.
Proof.
  intros H1 H2 H3 H lv' Hle. pose proof Hle as (L1 & L2 & _). apply S_ld_child; auto; [eapply kpath_mono; eauto|]. intros c Nc.
  apply (H c (addpa k0 c lv')); auto; [eapply vle_trans; [exact Hle|apply vle_addpa]|now left|apply vle_refl].
Qed.

Lemma vle_set_ni lv lv' x : vle lv lv' -> vle (set_ni lv x) (set_ni lv' x).
Proof. intros (H1 & H2 & H3 & H4 & H5). repeat split; cbn; auto. Qed.

Lemma Sm_own_ni {R} t f (k : V -> prog R) lv ni f0 key0 l0 r0 f1 key1 l1 r1 :
  vni lv = Some (ni, f0, key0, l0, r0) ->
  (forall g, same_but g (fst (fst (f g))) (Some ni) /\
             (flags g ni = f0 -> ikey g ni = key0 -> lft g ni = l0 -> rgt g ni = r0 ->
              let g' := fst (fst (f g)) in flags g' ni = f1 /\ ikey g' ni = key1 /\ lft g' ni = l1 /\ rgt g' ni = r1)) ->
  (forall v, SAFEm t (k v) (set_ni lv (Some (ni, f1, key1, l1, r1)))) ->
  SAFEm t (Act f k) lv.
Proof.
  intros Ho Hf H lv' Hle. eapply S_own_ni; [destruct Hle as (_ & _ & _ & E & _); rewrite E; exact Ho|exact Hf|].
  intros v. apply H. now apply vle_set_ni.
Qed.

Lemma Sm_alloc_leaf {R} t sr key (k : V -> prog R) lv :
  (t < 64)%nat -> (key < 8)%nat -> (vser lv <= sr)%nat ->
  (forall v, SAFEm t (k v) (mkLV (vpa lv) (vfl lv) (Some (mk_id t sr 0 key)) (vni lv) (S sr))) ->
  SAFEm t (Act (a_st_flags (mk_id t sr 0 key) 0) k) lv.
Proof.
  intros Ht Hk Hs H lv' Hle. pose proof Hle as (L1 & L2 & L3 & L4 & L5). apply S_alloc_leaf; auto; [lia|].
  intros v. apply (H v). repeat split; cbn; auto.
Qed.
Lemma Sm_alloc_ni {R} t sr (k : V -> prog R) lv :
  (t < 64)%nat -> (vser lv <= sr)%nat ->
  (forall v key l r, SAFEm t (k v) (mkLV (vpa lv) (vfl lv) (vleaf lv) (Some (mk_id t sr 1 0, 1, key, l, r)) (S sr))) ->
  SAFEm t (Act (a_st_flags (mk_id t sr 1 0) 1) k) lv.
Proof.
  intros Ht Hs H lv' Hle. pose proof Hle as (L1 & L2 & L3 & L4 & L5). apply S_alloc_ni; auto; [lia|].
  intros v key l r. apply (H v key l r). repeat split; cbn; auto.
Qed.

Lemma Sm_cas_child_ins {R} t k0 p fp kp l0 f0 kl f0a kla ni fn keyn a b leaf (k : V -> prog R) lv :
  0 <= k0 < 8 ->
  kpath lv k0 p -> In (p, fp, kp) (vfl lv) -> is_internal_f fp = true ->
  In (l0, f0, kl) (vfl lv) -> In (l0, f0a, kla) (vfl lv) -> is_internal_f f0a = false ->
  vni lv = Some (ni, fn, keyn, a, b) -> vleaf lv = Some leaf -> lkey leaf = k0 ->
  ins_shape k0 p l0 f0 leaf fn keyn a b ->
  (forall cur, SAFEm t (k (VCP false cur)) lv) ->
  SAFEm t (k (VCP true l0)) (mkLV (vpa lv) (vfl lv) None None (vser lv)) ->
  SAFEm t (Act (a_cas_child p (0 <=? cmp_node k0 fp kp) l0 ni) k) lv.
Proof.
  intros A1 A2 A3 A4 A5 A6 A7 A8 A9 A10 A11 Hf Hok lv' Hle. pose proof Hle as (L1 & L2 & L3 & L4 & L5).
  apply (S_cas_child_ins t k0 p fp kp l0 f0 kl f0a kla ni fn keyn a b leaf k lv' A1 (kpath_mono _ _ _ _ Hle A2) (L2 _ A3) A4 (L2 _ A5) (L2 _ A6) A7);
    [congruence|congruence|exact A10|exact A11| |].
  - intros cur. now apply Hf.
  - apply Hok. repeat split; cbn; auto.
Qed.

(** ** the functions of the model *)
Definition tlk (t : nat) (lv : lview) (s : TL) : Prop := tid s = t /\ (vser lv <= ser s)%nat.
Lemma tlk_vle t lv lv1 s : vle lv lv1 -> tlk t lv s -> tlk t lv1 s.
Proof. intros (_ & _ & _ & _ & E) [H1 H2]. split; [exact H1|lia]. Qed.
Lemma tlk_alloc1 t lv s x s1 : alloc1 s = (x, s1) -> tlk t lv s -> tlk t lv s1.
Proof. unfold alloc1. destruct (fl s); intros E H; inversion E; subst; exact H. Qed.
Lemma tlk_free1 t lv x s : tlk t lv s -> tlk t lv (free1 x s).
Proof. intros H. exact H. Qed.
Lemma tlk_allocn t lv : forall n s xs s1, allocn n s = (xs, s1) -> tlk t lv s -> tlk t lv s1.
Proof.
  induction n as [|n IH]; intros s xs s1 E H; cbn [allocn] in E; [inversion E; subst; exact H|].
  destruct (alloc1 s) as [x s'] eqn:Ea. destruct (allocn n s') as [ys s2] eqn:En. inversion E; subst.
  eapply IH; [exact En|]. eapply tlk_alloc1; eauto.
Qed.

Lemma Sm_assign {R} t s slot (k : prog R) lv : SAFEm t k lv -> SAFEm t (g_assign s slot k) lv.
Proof. intros H. unfold g_assign. snx. snx. exact H. Qed.
Lemma Sm_clear {R} t s slot (k : prog R) lv : SAFEm t k lv -> SAFEm t (g_clear s slot k) lv.
Proof. intros H. unfold g_clear. snx. exact H. Qed.
Lemma Sm_copy {R} t s a b (k : prog R) lv : SAFEm t k lv -> SAFEm t (g_copy s a b k) lv.
Proof. intros H. unfold g_copy. snx. snx. snx. exact H. Qed.
Lemma Sm_retire {R} t s (k : prog R) lv : SAFEm t k lv -> SAFEm t (retire s k) lv.
Proof. intros H. unfold retire. snx. snx. exact H. Qed.
Lemma Sm_free_all {R} t slots : forall s (k : TL -> prog R) lv,
  tlk t lv s -> (forall s', tlk t lv s' -> SAFEm t (k s') lv) -> SAFEm t (g_free_all s slots k) lv.
Proof.
  induction slots as [|x r IH]; intros s k lv Ht H; cbn [g_free_all]; [now apply H|]. apply Sm_clear. apply IH; [now apply tlk_free1|exact H].
Qed.

Lemma T_ga_protect_upd {R} t fuel : forall s slot p (k : option uword -> prog R) lv,
  (forall r lv1, vle lv lv1 -> SAFEm t (k r) lv1) -> SAFEm t (ga_protect_upd fuel s slot p k) lv.
Proof.
  induction fuel as [|f IH]; intros s slot p k lv H; cbn [ga_protect_upd]; [apply H, vle_refl|].
  snx. snx. snx. snx. destruct (u_eqb _ _); [apply H, vle_refl|]. now apply IH.
Qed.

Lemma T_ga_protect_child {R} t fuel : forall s slot k0 pp fp kp (k : option ptr -> prog R) lv,
  kpath lv k0 pp -> In (pp, fp, kp) (vfl lv) -> is_internal_f fp = true ->
  (forall lv1, vle lv lv1 -> SAFEm t (k None) lv1) ->
  (forall c lv1, vle lv lv1 -> c <> root -> In (k0, c) (vpa lv1) -> SAFEm t (k (Some c)) lv1) ->
  SAFEm t (ga_protect_child fuel s slot pp (0 <=? cmp_node k0 fp kp) k) lv.
Proof.
  induction fuel as [|f IH]; intros s slot k0 pp fp kp k lv H1 H2 H3 H0 Hk; cbn [ga_protect_child]; [apply H0, vle_refl|].
  apply Sm_ld_child; auto. intros c1 lv1 V1 N1 I1. snx. snx.
  apply Sm_ld_child; [eapply kpath_mono; eauto|destruct V1 as (_ & X & _); now apply X|exact H3|].
  intros c2 lv2 V2 N2 I2. cbn [vptr]. assert (V02 : vle lv lv2) by (eapply vle_trans; eauto).
  destruct (Nat.eqb c1 c2).
  - apply Hk; auto. destruct V2 as (X & _). now apply X.
  - apply IH; auto; [eapply kpath_mono; eauto|destruct V02 as (_ & X & _); now apply X| |].
    + intros lv3 V3. apply H0. eapply vle_trans; eauto.
    + intros c lv3 V3. apply Hk. eapply vle_trans; eauto.
Qed.

Lemma vle_pa lv lv1 x : vle lv lv1 -> In x (vpa lv) -> In x (vpa lv1).
Proof. intros (H & _). apply H. Qed.
Lemma vle_fl lv lv1 x : vle lv lv1 -> In x (vfl lv) -> In x (vfl lv1).
Proof. intros (_ & H & _). apply H. Qed.

Lemma T_protect_child {R} t fuel : forall s slots k0 pp fp kp updp (k : option ptr -> prog R) kf lv,
  kpath lv k0 pp -> In (pp, fp, kp) (vfl lv) -> is_internal_f fp = true ->
  (forall lv1, vle lv lv1 -> SAFEm t (k None) lv1) ->
  (forall c lv1, vle lv lv1 -> c <> root -> In (k0, c) (vpa lv1) -> SAFEm t (k (Some c)) lv1) ->
  (forall lv1, vle lv lv1 -> SAFEm t kf lv1) ->
  SAFEm t (protect_child fuel s slots pp (0 <=? cmp_node k0 fp kp) updp k kf) lv.
Proof.
  induction fuel as [|f IH]; intros s slots k0 pp fp kp updp k kf lv H1 H2 H3 H0 Hk Hf; cbn [protect_child]; [apply Hf, vle_refl|].
  apply T_ga_protect_child; auto. intros c lv1 V1 Nc Ic.
  apply T_ga_protect_child; [eapply kpath_mono; eauto|eapply vle_fl; eauto|exact H3|intros; apply Hf; eapply vle_trans; eauto|].
  intros cv lv2 V2 _ _. assert (V02 : vle lv lv2) by (eapply vle_trans; eauto). snx.
  destruct (negb (u_eqb (vw v) updp)); [now apply H0|].
  destruct (negb (Nat.eqb c cv)).
  { apply IH; auto; [eapply kpath_mono; eauto|eapply vle_fl; eauto| | |].
    - intros lv3 V3. apply H0. eapply vle_trans; eauto.
    - intros c' lv3 V3. apply Hk. eapply vle_trans; eauto.
    - intros lv3 V3. apply Hf. eapply vle_trans; eauto. }
  assert (Ic2 : In (k0, c) (vpa lv2)) by exact (vle_pa _ _ _ V2 Ic).
  destruct (Nat.eqb c null); [apply Sm_clear; now apply Hk|].
  apply Sm_ld_flags; [right; eauto|]. intros fc kc lv3 V3 _ _ _ _. assert (V03 : vle lv lv3) by (eapply vle_trans; eauto).
  assert (Ic3 : In (k0, c) (vpa lv3)) by exact (vle_pa _ _ _ V3 Ic2).
  cbn [Ellen.vfl]. destruct (is_internal_f fc); [apply Sm_clear|apply Sm_assign, Sm_clear]; now apply Hk.
Qed.

(** state of the descent of search *)
Definition Jst (lv : lview) (k0 : Z) (st : sst) : Prop :=
  ((x_leaf st = root /\ x_p st = null) \/
   (In (k0, x_leaf st) (vpa lv) /\ x_leaf st <> root /\ x_p st <> null /\ kpath lv k0 (x_p st) /\
    exists fp kp, In (x_p st, fp, kp) (vfl lv) /\ is_internal_f fp = true /\ x_rl st = (0 <=? cmp_node k0 fp kp))) /\
  (x_gp st = null -> x_p st = null \/ x_p st = root) /\ (x_gp st <> null -> x_p st <> root).

Definition RS (lv : lview) (k0 : Z) (r : sres) (found : bool) : Prop :=
  kpath lv k0 (r_p r) /\ In (k0, r_leaf r) (vpa lv) /\
  (exists fp kp, In (r_p r, fp, kp) (vfl lv) /\ is_internal_f fp = true /\ r_rl r = (0 <=? cmp_node k0 fp kp)) /\
  (exists f0 kl, In (r_leaf r, f0, kl) (vfl lv) /\ is_internal_f f0 = false /\ found = (cmp_node k0 f0 (lkey (r_leaf r)) =? 0)) /\
  (r_gp r = null -> r_p r = root) /\ (r_gp r <> null -> r_p r <> root).

Lemma RS_mono lv lv1 k0 r fd : vle lv lv1 -> RS lv k0 r fd -> RS lv1 k0 r fd.
Proof.
  intros V (A & B & (fp & kp & C1 & C2 & C3) & (f0 & kl & D1 & D2 & D3) & E & F).
  split; [eapply kpath_mono; eauto|]. split; [eapply vle_pa; eauto|]. split; [exists fp, kp; split; [eapply vle_fl; eauto|auto]|].
  split; [exists f0, kl; split; [eapply vle_fl; eauto|auto]|auto].
Qed.

Lemma Jst_mono lv lv1 k0 st : vle lv lv1 -> Jst lv k0 st -> Jst lv1 k0 st.
Proof.
  intros V ([A|(A1 & A2 & A3 & A4 & fp & kp & A5 & A6 & A7)] & B & C); (split; [|auto]); [now left|right].
  split; [eapply vle_pa; eauto|]. split; [exact A2|]. split; [exact A3|]. split; [eapply kpath_mono; eauto|].
  exists fp, kp. split; [eapply vle_fl; eauto|auto].
Qed.

Lemma null_ne_root : null <> root. Proof. discriminate. Qed.

Lemma T_srch {R} t fuel : forall s slots k0 st (k : sres -> bool -> prog R) kf lv,
  Jst lv k0 st ->
  (forall r found lv1, vle lv lv1 -> RS lv1 k0 r found -> SAFEm t (k r found) lv1) ->
  (forall lv1, vle lv lv1 -> SAFEm t kf lv1) ->
  SAFEm t (srch fuel s slots k0 st k kf) lv.
Proof.
  induction fuel as [|f IH]; intros s slots k0 st k kf lv HJ Hk Hf; cbn [srch]; [apply Hf, vle_refl|].
  assert (Hkn : knownp lv (x_leaf st)).
  { destruct HJ as ([(E & _)|(A1 & _)] & _); [left; exact E|right; eauto]. }
  apply Sm_ld_flags; [exact Hkn|]. intros f1 key1 lv1 V1 I1 F0 F5 _. cbn [Ellen.vfl].
  assert (HJ1 : Jst lv1 k0 st) by (eapply Jst_mono; eauto).
  destruct (is_internal_f f1) eqn:Ei1.
  - apply Sm_copy, Sm_copy, Sm_copy. cbv zeta. set (pp := x_leaf st).
    assert (Hretry : forall lv2, vle lv1 lv2 -> SAFEm t (srch f s slots k0 (st_retry (x_p st) (x_updp st) (x_rl st)) k kf) lv2).
    { intros lv2 V2. apply IH.
      - split; [left; split; reflexivity|]. cbn [st_retry x_gp x_p]. split; [intros _; now left|intros _; exact null_ne_root].
      - intros r found lv3 V3. apply Hk. eapply vle_trans; [exact V1|]. eapply vle_trans; eauto.
      - intros lv3 V3. apply Hf. eapply vle_trans; [exact V1|]. eapply vle_trans; eauto. }
    apply T_ga_protect_upd. intros ru lv2 V2. destruct ru as [up|]; [|apply Hf; eapply vle_trans; eauto].
    destruct (Nat.eqb (snd up) 1 || Nat.eqb (snd up) 3); [now apply Hretry|].
    assert (Hkn2 : knownp lv2 pp) by (eapply knownp_mono; [|exact Hkn]; eapply vle_trans; eauto).
    apply Sm_ld_flags; [exact Hkn2|]. intros f2 key2 lv3 V3 I3 _ _ Fc. cbn [Ellen.vfl vkey].
    assert (V13 : vle lv1 lv3) by (eapply vle_trans; eauto).
    assert (E21 : f1 = f2) by (apply (Fc f1 key1); eapply vle_fl; eauto).
    assert (Hpp : kpath lv3 k0 pp).
    { destruct HJ as ([(E & _)|(A1 & _)] & _); [left; exact E|right; eapply vle_pa; [|exact A1]; eapply vle_trans; eauto]. }
    assert (Hppn : pp <> null) by (intros E; specialize (F0 E); subst f1; discriminate).
    apply T_protect_child; [exact Hpp|exact I3|congruence| | |].
    + intros lv4 V4. apply Hretry. eapply vle_trans; eauto.
    + intros c lv4 V4 Nc Ic. apply IH.
      * assert (V34 : vle lv3 lv4) by exact V4. split.
        -- right. split; [exact Ic|]. split; [exact Nc|]. cbn [x_p x_leaf x_rl]. split; [exact Hppn|]. split; [eapply kpath_mono; eauto|].
           exists f2, key2. split; [eapply vle_fl; eauto|]. split; [congruence|reflexivity].
        -- cbn [x_gp x_p]. destruct HJ as (Hc & G1 & G2). split.
           ++ intros E. right. destruct Hc as [(E1 & _)|(_ & _ & N & _)]; [exact E1|contradiction].
           ++ intros N. destruct Hc as [(_ & E1)|(_ & N1 & _)]; [contradiction|exact N1].
      * intros r found lv5 V5. apply Hk. eapply vle_trans; [exact V1|]. eapply vle_trans; [exact V13|]. eapply vle_trans; eauto.
      * intros lv5 V5. apply Hf. eapply vle_trans; [exact V1|]. eapply vle_trans; [exact V13|]. eapply vle_trans; eauto.
    + intros lv4 V4. apply Hf. eapply vle_trans; [exact V1|]. eapply vle_trans; eauto.
  - apply Sm_ld_flags; [eapply knownp_mono; eauto|]. intros f2 key2 lv2 V2 I2 _ _ Fc. cbn [Ellen.vfl].
    assert (E21 : f1 = f2) by (apply (Fc f1 key1); exact I1).
    assert (V02 : vle lv lv2) by (eapply vle_trans; eauto).
    apply Hk; [exact V02|]. destruct HJ as ([(E & _)|(A1 & A2 & A3 & A4 & fp & kp & A5 & A6 & A7)] & G1 & G2).
    { specialize (F5 E). subst f1. discriminate. }
    unfold RS. cbn [r_p r_leaf r_rl r_gp]. split; [exact (kpath_mono _ _ _ _ V02 A4)|]. split; [exact (vle_pa _ _ _ V02 A1)|].
    split; [exists fp, kp; split; [exact (vle_fl _ _ _ V02 A5)|auto]|]. split; [exists f2, key2; split; [exact I2|split; [congruence|reflexivity]]|].
    split; [intros E; destruct (G1 E); [contradiction|assumption]|exact G2].
Qed.

(** ** insert *)
Definition ni_ok (lv : lview) (ni : ptr) : Prop := exists fn key l r, vni lv = Some (ni, fn, key, l, r) /\ (fn = 1 \/ fn = 3).

Lemma lor_land_fn fn inf : (fn = 1 \/ fn = 3) -> Z.lor (Z.land fn 1) inf = Z.lor 1 inf.
Proof. intros [->| ->]; reflexivity. Qed.

Lemma sb_st_flags g n f : same_but g (fst (fst (a_st_flags n f g))) (Some n).
Proof. intros x Nx. cbn [a_st_flags fst snd flags ikey lft rgt]. unfold upd1. destruct (Nat.eqb_spec x n); [congruence|auto]. Qed.
Lemma sb_st_left_key g n key x : same_but g (fst (fst (a_st_left_key n key x g))) (Some n).
Proof. intros y Ny. cbn [a_st_left_key fst snd flags ikey lft rgt]. unfold upd1. destruct (Nat.eqb_spec y n); [congruence|auto]. Qed.
Lemma sb_st_right g n x : same_but g (fst (fst (a_st_right n x g))) (Some n).
Proof. intros y Ny. cbn [a_st_right set_child fst snd flags ikey lft rgt]. unfold upd1. destruct (Nat.eqb_spec y n); [congruence|auto]. Qed.

Lemma T_try_insert {R} t s k0 leaf ni r (k : TL -> bool -> prog R) lv :
  tlk t lv s -> 0 <= k0 < 8 -> RS lv k0 r false -> vleaf lv = Some leaf -> lkey leaf = k0 -> ni_ok lv ni ->
  (forall s' lv1, tlk t lv1 s' -> vleaf lv1 = Some leaf -> ni_ok lv1 ni -> SAFEm t (k s' false) lv1) ->
  (forall s' lv1, tlk t lv1 s' -> SAFEm t (k s' true) lv1) ->
  SAFEm t (try_insert s k0 leaf ni r k) lv.
Proof.
  intros Ht Hk0 HRS Hleaf Hlk (fn & keyn & ca & cb & Hni & Hfn) Hkf Hkt. unfold try_insert.
  destruct HRS as (Hp & Hl & (fp & kp & P1 & P2 & P3) & (f0s & kls & L1 & L2 & L3) & G1 & G2). rewrite P3.
  apply Sm_ld_child; [exact Hp|exact P1|exact P2|]. intros c lv1 V1 _ _.
  assert (Hni1 : vni lv1 = Some (ni, fn, keyn, ca, cb)) by (destruct V1 as (_ & _ & _ & E & _); congruence).
  assert (Hleaf1 : vleaf lv1 = Some leaf) by (destruct V1 as (_ & _ & E & _); congruence).
  cbn [vptr]. destruct (negb (Nat.eqb c (r_leaf r))).
  { apply Hkf; [eapply tlk_vle; eauto|exact Hleaf1|exists fn, keyn, ca, cb; auto]. }
  apply Sm_ld_flags; [right; exists k0; exact (vle_pa _ _ _ V1 Hl)|]. intros f0 kl lv2 V2 I2 _ _ Fc. cbn [Ellen.vfl].
  assert (V02 : vle lv lv2) by (eapply vle_trans; eauto).
  assert (Ef0 : f0s = f0) by (apply (Fc f0s kls); exact (vle_fl _ _ _ V1 L1)).
  assert (Hni2 : vni lv2 = Some (ni, fn, keyn, ca, cb)) by (destruct V2 as (_ & _ & _ & E & _); congruence).
  assert (Hleaf2 : vleaf lv2 = Some leaf) by (destruct V2 as (_ & _ & E & _); congruence).
  set (ncmp := cmp_node k0 f0 (lkey (r_leaf r))).
  assert (Hnz : (ncmp =? 0) = false) by (unfold ncmp; rewrite <- Ef0; symmetry; exact L3).
  (* after the three stores into my internal node *)
  assert (Hrest : forall fn' keyn' a' b' lv3, (incl (vpa lv) (vpa lv3) /\ incl (vfl lv) (vfl lv3)) ->
            True -> vni lv3 = Some (ni, fn', keyn', a', b') -> vleaf lv3 = Some leaf ->
            (fn' = 1 \/ fn' = 3) -> vser lv3 = vser lv ->
            ins_shape k0 (r_p r) (r_leaf r) f0 leaf fn' keyn' a' b' ->
            In (r_leaf r, f0, kl) (vfl lv3) ->
            SAFEm t (let (g, s1) := alloc1 s in
                     let (op, s2) := new_obj s1 2 0 in
                     g_assign s2 g
                       (Act (a_cas_upd (r_p r) (fst (r_updp r), 0%nat) (op, 2%nat)) (fun c0 =>
                          if vok c0 then help_insert r ni op (retire s2 (g_clear s2 g (k (free1 g s2) true)))
                          else g_clear s2 g (k (free1 g s2) false)))) lv3).
  { intros fn' keyn' a' b' lv3 [Vp Vf] _ Hni3 Hleaf3 Hfn3 Hser3 Hshape I3.
    destruct (alloc1 s) as [g s1] eqn:Ea. unfold new_obj.
    assert (Ht2 : tlk t lv3 (free1 g (mkTL (tid s1) (fl s1) (S (ser s1))))).
    { pose proof (tlk_alloc1 _ _ _ _ _ Ea Ht) as [X1 X2]. split; [exact X1|]. cbn [free1 ser]. lia. }
    apply Sm_assign. snx. match goal with |- context [vok ?x] => destruct (vok x) end.
    - unfold help_insert. rewrite P3.
      assert (Hkp : kpath lv3 k0 (r_p r)) by (destruct Hp as [E|E]; [left; exact E|right; now apply Vp]).
      apply (Sm_cas_child_ins t k0 (r_p r) fp kp (r_leaf r) f0 kl f0s kls ni fn' keyn' a' b' leaf _ _ Hk0 Hkp (Vf _ P1) P2 I3 (Vf _ L1) L2 Hni3 Hleaf3 Hlk Hshape).
      + intros cur. snx. snx. apply Sm_retire, Sm_clear. apply Hkt. exact Ht2.
      + snx. snx. apply Sm_retire, Sm_clear. apply Hkt. destruct Ht2 as [X1 X2]. split; [exact X1|exact X2].
    - apply Sm_clear. apply Hkf; [exact Ht2|exact Hleaf3|exists fn', keyn', a', b'; auto]. }
  assert (Hstep : forall inf key' x y,
            (ins_shape k0 (r_p r) (r_leaf r) f0 leaf (Z.lor 1 inf) key' x y) -> (inf = 0 \/ inf = 2) ->
            SAFEm t (set_inf ni inf (Act (a_st_left_key ni key' x) (fun _ => Act (a_st_right ni y) (fun _ =>
                     let (g, s1) := alloc1 s in
                     let (op, s2) := new_obj s1 2 0 in
                     g_assign s2 g
                       (Act (a_cas_upd (r_p r) (fst (r_updp r), 0%nat) (op, 2%nat)) (fun c0 =>
                          if vok c0 then help_insert r ni op (retire s2 (g_clear s2 g (k (free1 g s2) true)))
                          else g_clear s2 g (k (free1 g s2) false))))))) lv2).
  { intros inf key' x y Hshape Hinf. unfold set_inf.
    apply (Sm_ld_flags_own t ni fn keyn ca cb); [exact Hni2|]. cbn [Ellen.vfl]. rewrite (lor_land_fn fn inf Hfn).
    eapply (Sm_own_ni t _ _ lv2 ni fn keyn ca cb (Z.lor 1 inf) keyn ca cb); [exact Hni2| |].
    { intros g. split; [apply sb_st_flags|]. intros E1 E2 E3 E4. cbn [a_st_flags fst snd flags ikey lft rgt]. unfold upd1. rewrite Nat.eqb_refl. auto. }
    intros _. set (lv3 := set_ni lv2 (Some (ni, Z.lor 1 inf, keyn, ca, cb))).
    eapply (Sm_own_ni t _ _ lv3 ni (Z.lor 1 inf) keyn ca cb (Z.lor 1 inf) key' x cb); [reflexivity| |].
    { intros g. split; [apply sb_st_left_key|]. intros E1 E2 E3 E4. cbn [a_st_left_key fst snd flags ikey lft rgt]. unfold upd1. rewrite Nat.eqb_refl. auto. }
    intros _. set (lv4 := set_ni lv3 (Some (ni, Z.lor 1 inf, key', x, cb))).
    eapply (Sm_own_ni t _ _ lv4 ni (Z.lor 1 inf) key' x cb (Z.lor 1 inf) key' x y); [reflexivity| |].
    { intros g. split; [apply sb_st_right|]. intros E1 E2 E3 E4. cbn [a_st_right set_child fst snd flags ikey lft rgt]. unfold upd1. rewrite Nat.eqb_refl. auto. }
    intros _. apply (Hrest (Z.lor 1 inf) key' x y); auto.
    - destruct V02 as (X1 & X2 & _). split; cbn; assumption.
    - destruct Hinf as [->| ->]; [left|right]; reflexivity.
    - cbn. destruct V02 as (_ & _ & _ & _ & E). exact E. }
  destruct (Z.ltb_spec ncmp 0) as [Hc|Hc].
  - destruct (Nat.eqb_spec (r_gp r) null) as [Eg|Ng]; cbn [negb].
    + apply (Hstep 2 0 leaf (r_leaf r)); [|now right]. left. fold ncmp. split; [exact Hc|]. split; [reflexivity|]. split; [reflexivity|].
      right. split; [now apply G1|reflexivity].
    + apply (Hstep 0 (lkey (r_leaf r)) leaf (r_leaf r)); [|now left]. left. fold ncmp. split; [exact Hc|]. split; [reflexivity|]. split; [reflexivity|].
      left. split; [now apply G2|]. split; reflexivity.
  - apply (Hstep 0 k0 (r_leaf r) leaf); [|now left]. right. fold ncmp. apply Z.eqb_neq in Hnz. split; [lia|]. repeat split; reflexivity.
Qed.

Lemma Jst0 lv k0 : Jst lv k0 st0.
Proof. split; [left; split; reflexivity|]. cbn. split; [intros _; now left|intros N; congruence]. Qed.

Lemma T_insert_loop {R} t fuel : forall s k0 leaf slots ni (k : TL -> bool -> prog R) kf lv,
  (t < 64)%nat -> tlk t lv s -> 0 <= k0 < 8 -> vleaf lv = Some leaf -> lkey leaf = k0 ->
  match ni with Some n => ni_ok lv n | None => True end ->
  (forall s' b lv1, tlk t lv1 s' -> SAFEm t (k s' b) lv1) ->
  (forall s' lv1, tlk t lv1 s' -> SAFEm t (kf s') lv1) ->
  SAFEm t (insert_loop fuel s k0 leaf slots ni k kf) lv.
Proof.
  induction fuel as [|f IH]; intros s k0 leaf slots ni k kf lv Hlt Ht Hk0 Hleaf Hlk Hni Hk Hf; cbn [insert_loop]; [now apply Hf|].
  apply T_srch; [apply Jst0| |intros lv1 V; apply Hf; eapply tlk_vle; eauto].
  intros r found lv1 V HRS. assert (Ht1 : tlk t lv1 s) by (eapply tlk_vle; eauto).
  assert (Hleaf1 : vleaf lv1 = Some leaf) by (destruct V as (_ & _ & E & _); congruence).
  assert (Hni1 : match ni with Some n => ni_ok lv1 n | None => True end).
  { destruct ni as [n|]; [|exact Logic.I]. destruct Hni as (fn & key & l & r' & E & F). exists fn, key, l, r'. split; [|exact F].
    destruct V as (_ & _ & _ & E' & _). congruence. }
  destruct found; [now apply Hk|]. destruct (clean r); [|apply IH; auto].
  assert (Hatt : forall n s' lv2, tlk t lv2 s' -> RS lv2 k0 r false -> vleaf lv2 = Some leaf -> ni_ok lv2 n ->
            SAFEm t (try_insert s' k0 leaf n r (fun s'' ok =>
              if ok then Act a_faa_cnt (fun _ => k s'' true) else insert_loop f s'' k0 leaf slots (Some n) k kf)) lv2).
  { intros n s' lv2 Hs' HRS2 Hl2 Hn2. apply (T_try_insert t); [exact Hs'|exact Hk0|exact HRS2|exact Hl2|exact Hlk|exact Hn2| |].
    - intros s'' lv3 Hs'' Hl3 Hn3. apply IH; auto.
    - intros s'' lv3 Hs''. snx. now apply Hk. }
  destruct ni as [n|]; [now apply Hatt|].
  unfold new_obj. destruct Ht1 as [T1 T2]. rewrite T1.
  apply Sm_alloc_ni; [exact Hlt|exact T2|]. intros _ key l r'. snx.
  set (lv2 := mkLV (vpa lv1) (vfl lv1) (vleaf lv1) (Some (mk_id t (ser s) 1 0, 1, key, l, r')) (S (ser s))).
  apply Hatt.
  - split; [reflexivity|]. cbn. lia.
  - destruct HRS as (A & B & C & D & E & F). repeat split; auto.
  - exact Hleaf1.
  - exists 1, key, l, r'. split; [reflexivity|now left].
Qed.

Definition between {R} t (cont : TL -> prog R) : Prop := forall s' lv1, tlk t lv1 s' -> SAFEm t (cont s') lv1.

Lemma Sm_free_all' {R} t slots : forall s (k : TL -> prog R) lv,
  tlk t lv s -> (forall s' lv1, vle lv lv1 -> tlk t lv1 s' -> SAFEm t (k s') lv1) -> SAFEm t (g_free_all s slots k) lv.
Proof.
  intros s k lv Ht H. apply Sm_free_all; [exact Ht|]. intros s' Hs'. apply H; [apply vle_refl|exact Hs'].
Qed.

Lemma T_op_insert {R} t fuel s k (cont : TL -> prog R) lv :
  (t < 64)%nat -> (k < 8)%nat -> tlk t lv s -> between t cont -> SAFEm t (op_insert fuel s k cont) lv.
Proof.
  intros Hlt Hk [T1 T2] Hc. unfold op_insert, new_obj. rewrite T1.
  apply Sm_alloc_leaf; auto. intros _. set (leaf := mk_id t (ser s) 0 k).
  set (lv0 := mkLV (vpa lv) (vfl lv) (Some leaf) (vni lv) (S (ser s))).
  assert (Ht0 : tlk t lv0 (mkTL t (fl s) (S (ser s)))) by (split; [reflexivity|cbn; lia]).
  destruct (alloc1 _) as [gi s1] eqn:Ea1. pose proof (tlk_alloc1 _ _ _ _ _ Ea1 Ht0) as Hs1.
  apply Sm_assign. destruct (allocn 6 s1) as [slots s2] eqn:Ea2. pose proof (tlk_allocn _ _ _ _ _ _ Ea2 Hs1) as Hs2.
  apply (T_insert_loop t); [exact Hlt|exact Hs2|lia|reflexivity|apply mk_id_lkey; exact Hk|exact Logic.I| |].
  - intros s' b lv1 Hs'. apply Sm_free_all; [exact Hs'|]. intros s'' Hs''. apply Sm_clear. unfold finish. apply Sm_emit. now apply Hc.
  - intros s' lv1 Hs'. apply Sm_free_all; [exact Hs'|]. intros s'' Hs''. apply Sm_clear. unfold out_of_fuel. apply Sm_emit. now apply Hc.
Qed.

Lemma T_op_contains {R} t fuel s k (cont : TL -> prog R) lv :
  tlk t lv s -> between t cont -> SAFEm t (op_contains fuel s k cont) lv.
Proof.
  intros Ht Hc. unfold op_contains. destruct (allocn 6 s) as [slots s1] eqn:Ea. pose proof (tlk_allocn _ _ _ _ _ _ Ea Ht) as Hs1.
  apply T_srch; [apply Jst0| |].
  - intros r found lv1 V _. apply Sm_free_all; [eapply tlk_vle; eauto|]. intros s'' Hs''. unfold finish. apply Sm_emit. now apply Hc.
  - intros lv1 V. apply Sm_free_all; [eapply tlk_vle; eauto|]. intros s'' Hs''. unfold out_of_fuel. apply Sm_emit. now apply Hc.
Qed.

(** programs of insert / contains *)
Definition op_ok (o : op) : Prop := match o with OIns k => (k < 8)%nat | OContains _ => True | OErase _ => False end.

Lemma T_run_ops t fuel : (t < 64)%nat -> forall os, Forall op_ok os -> between t (fun s => run_ops fuel s os).
Proof.
  intros Hlt. induction os as [|o r IH]; intros Hok s lv Ht; cbn [run_ops]; [apply Sm_ret|].
  inversion Hok as [|? ? Ho Hr]; subst. specialize (IH Hr). unfold run_op. destruct o as [k|k|k]; cbn [op_ok] in Ho; try contradiction; apply Sm_emit.
  - now apply T_op_insert.
  - now apply T_op_contains.
Qed.

Lemma T_thread t fuel os lv : (t < 64)%nat -> Forall op_ok os -> vser lv = 0%nat -> SAFE t (thread_prog fuel t os) lv.
Proof.
  intros Hlt Hok Hser. assert (H : SAFEm t (thread_prog fuel t os) lv); [|apply H, vle_refl].
  unfold thread_prog. snx. apply (T_run_ops t fuel Hlt os Hok). split; [reflexivity|rewrite Hser; cbn; lia].
Qed.

(** ** the initial state: a decidable check (evaluated for the pre-filled trees of the correspondence runs) *)
Fixpoint nodes_of (fuel : nat) (g : G) (n : ptr) : list ptr :=
  match fuel with
  | O => [n]
  | S f => if is_internal_f (flags g n) then n :: nodes_of f g (lft g n) ++ nodes_of f g (rgt g n) else [n]
  end.
Definition memb (x : ptr) (l : list ptr) : bool := existsb (Nat.eqb x) l.
Definition init_check (g : G) : bool :=
  let L := nodes_of 24 g root in
  bst_ok 24 g root (-1) 1002 && (flags g root =? 5) && (node_key g (lft g root) =? 1000) && (flags g null =? 0) &&
  forallb (fun n => negb (is_internal_f (flags g n)) ||
                    (memb (lft g n) L && memb (rgt g n) L && negb (Nat.eqb (lft g n) root) && negb (Nat.eqb (rgt g n) root))) L &&
  forallb (fun n => Nat.ltb n 4 || (Nat.eqb (owner_of n) 63 && Nat.ltb (ser_of n) 64)) L.

Lemma bst_ok_T fuel : forall g n lo hi, bst_ok fuel g n lo hi = true -> T g n lo hi.
Proof.
  induction fuel as [|f IH]; intros g n lo hi H; cbn [bst_ok] in H; [discriminate|].
  destruct (Nat.eqb n null); [discriminate|]. destruct (is_internal_f (flags g n)) eqn:Ei.
  - apply andb_true_iff in H. destruct H as [H H4]. apply andb_true_iff in H. destruct H as [H H3].
    apply andb_true_iff in H. destruct H as [H1 H2]. apply Z.leb_le in H1. apply Z.ltb_lt in H2.
    apply T_int; [exact Ei|lia|now apply IH|now apply IH].
  - apply andb_true_iff in H. destruct H as [H1 H2]. apply Z.leb_le in H1. apply Z.ltb_lt in H2.
    apply T_leaf; [unfold internal; rewrite Ei; discriminate|lia].
Qed.

Lemma memb_In x l : memb x l = true <-> In x l.
Proof.
  unfold memb. rewrite existsb_exists. split; [intros (y & Hy & E); apply Nat.eqb_eq in E; now subst|intros H; exists x; split; [exact H|apply Nat.eqb_refl]].
Qed.

Lemma nodes_of_head fuel g n : In n (nodes_of fuel g n).
Proof. destruct fuel; cbn [nodes_of]; [now left|]. destruct (is_internal_f (flags g n)); now left. Qed.

Definition aux0 (g : G) : aux :=
  mkAux (fun x => memb x (nodes_of 24 g root)) (fun u => mkLV [] [] None None (if Nat.eqb u 63 then 64%nat else 0%nat)).

Opaque bst_ok nodes_of.
Lemma init_IS g : init_check g = true -> IS g (aux0 g).
Proof.
  unfold init_check, aux0. set (L := nodes_of 24 g root). assert (HLr : In root L) by apply nodes_of_head. clearbody L. intros H. repeat (apply andb_true_iff in H; destruct H as [H ?]).
  rename H0 into Hown, H1 into Hcl, H2 into Hnull, H3 into HL, H4 into Hroot.
  rewrite forallb_forall in Hown, Hcl. apply Z.eqb_eq in Hnull, HL, Hroot.
  constructor; cbn [apub].
  - now apply (bst_ok_T 24).
  - exact Hroot.
  - exact HL.
  - intros n d Hn Hi. apply memb_In in Hn. specialize (Hcl n Hn). unfold internal in Hi. rewrite Hi in Hcl. cbn [negb orb] in Hcl.
    apply andb_true_iff in Hcl; destruct Hcl as [Hcl NR]. apply andb_true_iff in Hcl; destruct Hcl as [Hcl NL]. destruct d; cbn [child]; intros E.
    + rewrite E in NR. cbn in NR. discriminate.
    + rewrite E in NL. cbn in NL. discriminate.
  - intros n d Hn Hi. apply memb_In in Hn. specialize (Hcl n Hn). unfold internal in Hi. rewrite Hi in Hcl. cbn [negb orb] in Hcl.
    apply andb_true_iff in Hcl; destruct Hcl as [Hcl NR]. apply andb_true_iff in Hcl; destruct Hcl as [Hcl NL].
    apply andb_true_iff in Hcl; destruct Hcl as [ML MR]. destruct d; cbn [child]; assumption.
  - apply memb_In. exact HLr.
  - intros t. unfold view. cbn [aviews]. split; [constructor|]. split; [constructor|]. split; [exact Logic.I|]. split; [exact Logic.I|].
    intros n Hn1 Hn2 Hn3. cbn [vser vleaf vni] in *. split; [|split; [discriminate|intros; discriminate]].
    destruct (memb n L) eqn:E; [|reflexivity]. exfalso. apply memb_In in E. specialize (Hown n E).
    apply orb_true_iff in Hown. destruct Hown as [X|X]; [apply Nat.ltb_lt in X; lia|].
    apply andb_true_iff in X. destruct X as [X1 X2]. apply Nat.eqb_eq in X1. apply Nat.ltb_lt in X2.
    rewrite X1 in Hn2. subst t. cbn [Nat.eqb] in Hn3. lia.
  - exact Hnull.
Qed.

Transparent bst_ok nodes_of.

Lemma nth_error_combine {A B} : forall (l1 : list A) (l2 : list B) n a b,
  nth_error (combine l1 l2) n = Some (a, b) -> nth_error l1 n = Some a /\ nth_error l2 n = Some b.
Proof.
  induction l1 as [|x l1 IH]; intros l2 n a b H; [destruct n; discriminate|].
  destruct l2 as [|y l2]; [destruct n; discriminate|]. destruct n as [|n]; cbn in *; [inversion H; auto|now apply IH].
Qed.
Lemma nth_error_seq0 n t t' : nth_error (seq 0 n) t = Some t' -> t' = t /\ (t < n)%nat.
Proof.
  intros H. assert (Hl : (t < n)%nat) by (rewrite <- (seq_length n 0); apply nth_error_Some; congruence).
  split; [|exact Hl]. apply (nth_error_nth _ _ 0%nat) in H. rewrite seq_nth in H by exact Hl. lia.
Qed.

Lemma init_cfg_ok fuel keys ths :
  init_check (init keys) = true -> Forall (Forall op_ok) ths -> (List.length ths <= 63)%nat ->
  @Conc.cfg_ok G V ev aux lview view Inv (init_cfg fuel keys ths).
Proof.
  intros Hi Ho Hlen. exists (aux0 (init keys)). split; [now apply init_IS|].
  intros t p Hp. unfold init_cfg in Hp. cbn [Conc.threads] in Hp. rewrite nth_error_map in Hp.
  destruct (nth_error (combine (seq 0 (List.length ths)) ths) t) as [[t' os]|] eqn:E; [|discriminate].
  injection Hp as <-. cbn [fst snd]. apply nth_error_combine in E. destruct E as [E1 E2].
  apply nth_error_seq0 in E1. destruct E1 as [-> Hlt].
  apply T_thread; [lia| |].
  - apply nth_error_In in E2. rewrite Forall_forall in Ho. now apply Ho.
  - unfold view. cbn [aviews aux0 vser]. destruct (Nat.eqb_spec t 63); [lia|reflexivity].
Qed.

(** * the theorem: for EVERY schedule of programs of insert / contains over a pre-filled tree, at every reachable state the
    tree reachable from m_Root is a leaf-oriented binary search tree (keys of the left subtree < key of the node <= keys
    of the right subtree, Inf1 < Inf2 above all keys) *)
Theorem ellen_bst_invariant fuel keys ths c :
  init_check (init keys) = true -> Forall (Forall op_ok) ths -> (List.length ths <= 63)%nat ->
  Conc.reach (init_cfg fuel keys ths) c -> T (Conc.shared c) root (-1) 1002.
Proof.
  intros Hi Ho Hlen Hr. destruct (Conc.reach_Inv (init_cfg_ok fuel keys ths Hi Ho Hlen) Hr) as (a & Hs). apply (s_T _ _ Hs).
Qed.

(** every pre-filled tree of the correspondence runs passes the initial check *)
Lemma init_check_prefills : forallb (fun m => init_check (init (prefill_keys [Z.of_nat m]))) (seq 0 16) = true.
Proof. vm_compute. reflexivity. Qed.

(** the search of the model for a key ends in the leaf with that key iff the key is among the leaves of the [T]-tree:
    stated only for the monitor's executable check *)
Lemma tree_ok_T g : tree_ok g = true -> T g root (-1) 1002.
Proof. apply (bst_ok_T 24). Qed.

(** ** consequence: no key is present twice — two leaves of a [T]-tree with the same key are the same leaf *)
Lemma T_leaves_distinct g : forall n lo hi, T g n lo hi -> forall x y,
  insub g n x -> insub g n y -> ~ internal g x -> ~ internal g y -> node_key g x = node_key g y -> x = y.
Proof.
  induction 1 as [n lo hi Hl Hk|n lo hi Hi Hk H1 IH1 H2 IH2]; intros x y Hx Hy Lx Ly E.
  - destruct (insub_inv _ _ _ Hx) as [->|(X & _)]; [|contradiction]. destruct (insub_inv _ _ _ Hy) as [->|(X & _)]; [reflexivity|contradiction].
  - destruct (insub_inv _ _ _ Hx) as [->|(_ & Sx)]; [contradiction|]. destruct (insub_inv _ _ _ Hy) as [->|(_ & Sy)]; [contradiction|].
    destruct Sx as [Sx|Sx], Sy as [Sy|Sy].
    + now apply IH1.
    + pose proof (T_keys _ _ _ _ H1 _ Sx). pose proof (T_keys _ _ _ _ H2 _ Sy). lia.
    + pose proof (T_keys _ _ _ _ H2 _ Sx). pose proof (T_keys _ _ _ _ H1 _ Sy). lia.
    + now apply IH2.
Qed.

Theorem ellen_no_duplicate_keys fuel keys ths c x y :
  init_check (init keys) = true -> Forall (Forall op_ok) ths -> (List.length ths <= 63)%nat ->
  Conc.reach (init_cfg fuel keys ths) c ->
  insub (Conc.shared c) root x -> insub (Conc.shared c) root y ->
  ~ internal (Conc.shared c) x -> ~ internal (Conc.shared c) y -> node_key (Conc.shared c) x = node_key (Conc.shared c) y -> x = y.
Proof.
  intros Hi Ho Hlen Hr. eapply T_leaves_distinct. eapply ellen_bst_invariant; eauto.
Qed.
