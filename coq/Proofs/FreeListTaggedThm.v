(** * TaggedFreeList: initial configuration and the theorems for every schedule, under the hypothesis
      that the tag does not wrap ([nowrap]: k + number of successful head CASes in the trace < 2^64). *)
From Coq Require Import ZArith List String Bool Lia PeanoNat.
From LV Require Import Base.Conc Base.Events Model.FreeList Model.FreeListTagged Proofs.FreeListBase
  Proofs.FreeListTaggedInv Proofs.FreeListTaggedSafe Proofs.FreeListThm.
Import ListNotations.
Local Open Scope Z_scope.
Local Open Scope string_scope.

Definition taux_init (k : nat) (ths : list (list op * list nat)) : TAux :=
  mkTA (fun n => if on_init k n then TOn else match own_init ths n with Some t => THeld t | None => TNil end)
       (rev (seq 1 k)) (fun _ => TIdle) (fun t => nth t (helds ths) []) (own_init ths).

Lemma tchain_init K : forall k, (k <= K)%nat -> chain (tnext (tinit K)) k (rev (seq 1 k)).
Proof.
  induction k as [|k IH]; intros Hk; [reflexivity|].
  rewrite rev_seq_S. cbn [chain]. repeat split; [lia|].
  assert (E : tnext (tinit K) (S k) = k).
  { unfold tinit. cbn [tnext]. assert ((S k <=? K)%nat = true) as -> by (apply Nat.leb_le; lia). reflexivity. }
  rewrite E. apply IH. lia.
Qed.

Section TInit.
  Variable fuel k : nat.
  Variable ths : list (list op * list nat).
  Hypothesis Hwf : wf_init k ths.
  Let N := List.length ths.

  Lemma TInvS_init : InvTS N (valid_init k ths) (tinit k) (taux_init k ths).
  Proof.
    destruct Hwf as [Hnd Hgt]. constructor.
    - intros n. cbn [tst taux_init]. unfold valid_init. destruct (on_init k n); cbn [orb].
      + split; discriminate.
      + destruct (own_init ths n); split; try discriminate; reflexivity.
    - intros n. unfold tst_ok. cbn [tst taux_init thl tph].
      destruct (on_init k n); [exact I|]. destruct (own_init ths n) as [t|] eqn:E; [|exact I].
      left. apply (own_init_spec ths n t Hnd). exact E.
    - cbn [tlst taux_init thead tinit]. apply tchain_init. lia.
    - cbn [tlst taux_init]. apply NoDup_rev. apply seq_NoDup.
    - intros n. cbn [tlst taux_init tst]. rewrite <- in_rev, in_seq. unfold on_init.
      destruct (Nat.leb_spec 1 n), (Nat.leb_spec n k); cbn [andb]; split; intros; try lia; try reflexivity;
        destruct (own_init ths n); discriminate.
    - intros t. cbn. exact I.
    - intros t n Hin. cbn [thl taux_init] in Hin. cbn [tst taux_init].
      pose proof (held_gt k ths Hwf t n Hin) as Hg. unfold on_init.
      destruct (Nat.leb_spec 1 n), (Nat.leb_spec n k); cbn [andb]; try lia;
        apply (own_init_spec ths n t Hnd) in Hin; rewrite Hin; reflexivity.
    - intros t. cbn [thl taux_init]. apply NoDup_concat_nth. exact Hnd.
    - intros t Ht. cbn [tph thl taux_init]. split; [reflexivity|]. apply nth_overflow. unfold helds. rewrite map_length. exact Ht.
  Qed.

  Lemma tinit_ok : Conc.cfg_ok (tview) (TInv N (valid_init k ths) (own_init ths) k N) (tinit_cfg fuel k ths).
  Proof.
    exists (taux_init k ths). split.
    - intros _. split; [apply TInvS_init|]. cbn [Conc.trace tinit_cfg]. split; [cbn; lia|split; [reflexivity|split]].
      + intros n t. cbn [town thl taux_init]. rewrite (own_init_spec ths n t (proj1 Hwf)). split; [|tauto].
        intros Hin. split; [|exact Hin]. destruct (Nat.lt_ge_cases t N) as [Hl|Hl]; [exact Hl|].
        rewrite nth_overflow in Hin; [contradiction|]. unfold helds. rewrite map_length. exact Hl.
      + intros t. reflexivity.
    - intros t p Hp. cbn [tinit_cfg Conc.threads] in Hp. rewrite nth_error_map in Hp.
      destruct (nth_error ths t) as [[os H]|] eqn:E; [|discriminate]. injection Hp as <-.
      assert (Ht : (t < N)%nat) by (apply nth_error_Some; congruence).
      assert (Hv : tview (taux_init k ths) t = (H, TIdle)).
      { unfold tview. cbn [thl tph taux_init]. f_equal. unfold helds.
        rewrite (nth_indep _ [] (snd (os, H))) by (rewrite map_length; exact Ht).
        rewrite map_nth. rewrite (nth_error_nth ths t (os, H) E). reflexivity. }
      rewrite Hv. cbn [fst snd]. apply (safe_tthread N (valid_init k ths) (valid_zero k ths Hwf) (own_init ths) k N (le_n N)). exact Ht.
  Qed.
End TInit.

(** ** sequential execution and drain *)
Fixpoint tsolo {R} (p : tprog R) (g : TG) : TG * R :=
  match p with
  | Ret r => (g, r)
  | Emit _ k => tsolo k g
  | Act f k => let '(g', v, _) := f g in tsolo (k v) g'
  end.

Fixpoint tdrain (fuel c : nat) (g : TG) : list nat :=
  match c with
  | O => []
  | S c' => match tsolo (tget fuel) g with
            | (g', Some (S m)) => S m :: tdrain fuel c' g'
            | _ => []
            end
  end.

Definition tseq_ok (g : TG) (l : list nat) : Prop := chain (tnext g) (thead g) l /\ NoDup l.

Lemma tsolo_get_nil fuel g : tseq_ok g [] -> tsolo (tget (S fuel)) g = (g, Some O).
Proof. intros (Hc & _). cbn in Hc. cbn. rewrite Hc. reflexivity. Qed.

Lemma tsolo_get_cons fuel g n r : tseq_ok g (n :: r) ->
  exists g', tsolo (tget (S fuel)) g = (g', Some n) /\ tseq_ok g' r.
Proof.
  intros (Hc & Hnd). cbn in Hc. destruct Hc as (Hh & Hnz & Hc).
  apply NoDup_cons_iff in Hnd. destruct Hnd as [Hnin Hnd].
  eexists. split.
  - cbn [tget tsolo ta_ld_head fst snd tget_loop]. rewrite Hh.
    destruct (Nat.eqb_spec n 0) as [E|_]; [contradiction|].
    cbn [tsolo]. unfold ta_ld_next. cbv iota beta. cbn [fst]. cbn [tsolo]. unfold ta_cas_head.
    rewrite Hh, Nat.eqb_refl, Z.eqb_refl. cbn [andb]. cbv iota beta.
    rewrite same_head_true. cbn [tsolo]. reflexivity.
  - split; [exact Hc|exact Hnd].
Qed.

Lemma tdrain_spec fuel : forall l g c, tseq_ok g l -> (List.length l < c)%nat -> tdrain (S fuel) c g = l.
Proof.
  induction l as [|n r IH]; intros g c Hs Hc.
  - destruct c; [cbn in Hc; lia|]. cbn [tdrain]. rewrite (tsolo_get_nil fuel g Hs). reflexivity.
  - destruct c; [cbn in Hc; lia|]. cbn [tdrain].
    destruct (tsolo_get_cons fuel g n r Hs) as (g' & E & Hs'). rewrite E.
    destruct Hs as ((_ & Hnz & _) & _). destruct n; [contradiction|].
    f_equal. apply IH; [exact Hs'|cbn in Hc; lia].
Qed.

(** ** the theorems *)
Section TTheorems.
  Variable fuel k : nat.
  Variable ths : list (list op * list nat).
  Hypothesis Hwf : wf_init k ths.
  Let N := List.length ths.

  Lemma treach_Inv c : Conc.reach (tinit_cfg fuel k ths) c ->
    exists a, TInv N (valid_init k ths) (own_init ths) k N (Conc.shared c) a (Conc.trace c).
  Proof. intros Hr. exact (Conc.reach_Inv (tinit_ok fuel k ths Hwf) Hr). Qed.

  Theorem tagged_no_double_get c : Conc.reach (tinit_cfg fuel k ths) c -> nowrap k (Conc.trace c) ->
    exists own, mon_run (own_init ths) (Conc.trace c) = Some own.
  Proof. intros Hr Hnw. destruct (treach_Inv c Hr) as (a & HI). destruct (HI Hnw) as (_ & _ & T1 & _). eauto. Qed.

  Lemma tnonidle_open g a tr t : InvTT (own_init ths) k N g a tr -> tph a t <> TIdle -> opens t tr <> 0.
  Proof. intros (_ & _ & _ & T3) Hp. rewrite T3. destruct (tph a t); cbn; try lia. congruence. Qed.

  Theorem tagged_unique_holder c : Conc.reach (tinit_cfg fuel k ths) c -> nowrap k (Conc.trace c) ->
    exists own l,
      mon_run (own_init ths) (Conc.trace c) = Some own /\
      chain (tnext (Conc.shared c)) (thead (Conc.shared c)) l /\ NoDup l /\
      (forall n, In n l -> valid_init k ths n = true /\ own n = None) /\
      (forall n, valid_init k ths n = true -> own n = None ->
                 In n l \/ exists t, opens t (Conc.trace c) <> 0).
  Proof.
    intros Hr Hnw. destruct (treach_Inv c Hr) as (a & HI). destruct (HI Hnw) as (HS & HT).
    pose proof HT as (T0 & T1 & T2 & T3).
    exists (town a), (tlst a). split; [exact T1|]. split; [apply (TS_chain HS)|]. split; [apply (TS_lnd HS)|]. split.
    - intros n Hin. apply (TS_lin HS) in Hin. split.
      + destruct (valid_init k ths n) eqn:E; [reflexivity|]. apply (TS_valid HS) in E. congruence.
      + destruct (town a n) as [t|] eqn:E; [|reflexivity]. apply T2 in E. destruct E as [_ E]. apply (TS_held HS) in E. congruence.
    - intros n Hv Ho. pose proof (TS_st HS n) as Hst. unfold tst_ok in Hst.
      destruct (tst a n) as [|t|] eqn:Es.
      + apply (TS_valid HS) in Es. congruence.
      + right. exists t. destruct Hst as [Hst|Hst].
        * assert (Hlt : (t < N)%nat).
          { destruct (Nat.lt_ge_cases t N) as [Hl|Hl]; [exact Hl|]. rewrite (proj2 (TS_out HS t Hl)) in Hst. contradiction. }
          assert (E : town a n = Some t) by (apply T2; split; assumption). congruence.
        * eapply tnonidle_open; eauto. intros E. rewrite E in Hst. discriminate.
      + left. apply (TS_lin HS). exact Es.
  Qed.

  Theorem tagged_no_loss c : Conc.reach (tinit_cfg fuel k ths) c -> nowrap k (Conc.trace c) ->
    quiescent (Conc.trace c) ->
    exists own l,
      mon_run (own_init ths) (Conc.trace c) = Some own /\
      tseq_ok (Conc.shared c) l /\
      (forall n, In n l <-> valid_init k ths n = true /\ own n = None) /\
      (forall f cn, (List.length l < cn)%nat -> tdrain (S f) cn (Conc.shared c) = l).
  Proof.
    intros Hr Hnw Hq. destruct (treach_Inv c Hr) as (a & HI). destruct (HI Hnw) as (HS & HT).
    pose proof HT as (T0 & T1 & T2 & T3).
    assert (Hidle : forall t, tph a t = TIdle).
    { intros t. destruct (tph a t) eqn:E; try reflexivity; exfalso;
        apply (tnonidle_open (Conc.shared c) a (Conc.trace c) t HT); try congruence; apply Hq. }
    assert (Hseq : tseq_ok (Conc.shared c) (tlst a)) by (split; [apply (TS_chain HS)|apply (TS_lnd HS)]).
    exists (town a), (tlst a). split; [exact T1|]. split; [exact Hseq|]. split.
    - intros n. split.
      + intros Hin. apply (TS_lin HS) in Hin. split.
        * destruct (valid_init k ths n) eqn:E; [reflexivity|]. apply (TS_valid HS) in E. congruence.
        * destruct (town a n) as [t|] eqn:E; [|reflexivity]. apply T2 in E. destruct E as [_ E]. apply (TS_held HS) in E. congruence.
      + intros [Hv Ho]. apply (TS_lin HS). pose proof (TS_st HS n) as Hst. unfold tst_ok in Hst.
        destruct (tst a n) as [|t|] eqn:Es; try reflexivity; exfalso.
        * apply (TS_valid HS) in Es. congruence.
        * rewrite Hidle in Hst. destruct Hst as [Hst|Hst]; [|discriminate].
          assert (Hlt : (t < N)%nat).
          { destruct (Nat.lt_ge_cases t N) as [Hl|Hl]; [exact Hl|]. rewrite (proj2 (TS_out HS t Hl)) in Hst. contradiction. }
          assert (E : town a n = Some t) by (apply T2; split; assumption). congruence.
    - intros f cn Hlen. apply tdrain_spec; assumption.
  Qed.
End TTheorems.
