(** DhpConsStepsB1: copy of LV.Proofs.DhpStepsB1 over the two-directional pointer invariant of LV.Proofs.DhpConsInv (conservation);
    the text differs from the original where the JW part of a goal is proved. *)
(** * DhpStepsB1: steps of the C03 invariant about thread records and their owners (thread_list_, thread_id_). *)
From Coq Require Import ZArith NArith List String Bool Lia PeanoNat.
From LV Require Import Base.Conc Base.Events Model.DhpLang Model.Dhp Proofs.DhpBase Proofs.DhpSeq Proofs.DhpSeqThm Proofs.DhpHist
  Proofs.DhpLangProofs Proofs.DhpInvB Proofs.DhpConsInv Proofs.DhpConsQuietB Proofs.DhpConsQuietB2 Proofs.DhpConsRulesB.
Import ListNotations.

Lemma is_tl_lt g : forall l o r, is_tl g o l -> In r l -> r < List.length (recs g).
Proof. induction l as [|x l IH]; intros o r H Hr; cbn in *; [contradiction|]. destruct H as (_ & H1 & H2). destruct Hr as [->|Hr]; eauto. Qed.
Lemma is_tl_head g h l : is_tl g (Some h) l -> In h l.
Proof. destruct l; cbn; [discriminate|]. intros (E & _). inversion E. now left. Qed.
Lemma is_tl_next g : forall l o h n, is_tl g o l -> In h l -> r_next (grec g h) = Some n -> In n l.
Proof.
  induction l as [|x l IH]; intros o h n H Hh Hn; cbn in *; [contradiction|]. destruct H as (_ & H1 & H2).
  destruct Hh as [->|Hh]; [|right; eapply IH; eauto]. right. rewrite Hn in H2. now apply is_tl_head in H2.
Qed.

Lemma grec_newrec_old c g r : r < List.length (recs g) -> grec (fst (new_rec c g)) r = grec g r.
Proof. intros H. unfold grec, new_rec. cbn. now rewrite app_nth1. Qed.
Lemma grec_newrec_new c g : let x := grec (fst (new_rec c g)) (List.length (recs g)) in
  r_next x = None /\ r_tid x = 0 /\ r_head x = None /\ r_cb x = None.
Proof. unfold grec, new_rec. cbn. rewrite app_nth2 by lia. rewrite Nat.sub_diag. cbn. auto. Qed.

Section StepsB1.
  Variable c : cfg.

  (** ** changes of the view alone *)
  Lemma JO_setv g a t v :
    vb_own v = vb_own (bvs a t) -> vb_node v = vb_node (bvs a t) -> vb_new v = vb_new (bvs a t) -> JO g a -> JO g (setv a t v).
  Proof.
    intros E1 E2 E3. apply JO_frame; auto. intros t'. cbn. unfold fn. destruct (Nat.eqb_spec t' t) as [->|]; auto.
  Qed.
  Lemma JK_setv g a fr t v : vb_blk v = vb_blk (bvs a t) -> vb_limbo v = vb_limbo (bvs a t) -> JK c g a fr -> JK c g (setv a t v) fr.
  Proof.
    intros E1 E2. apply JK_frame; auto. intros t'. cbn. unfold fn. destruct (Nat.eqb_spec t' t) as [->|]; auto.
  Qed.
  Lemma JR_setv g a t v :
    vb_full v = vb_full (bvs a t) -> vb_move v = vb_move (bvs a t) -> vb_cur v = vb_cur (bvs a t) -> vb_dead v = vb_dead (bvs a t) ->
    (forall r, In r (vb_own (bvs a t)) -> (exists ob, vb_move (bvs a t) = Some (r, ob)) \/ vb_dead (bvs a t) = Some r \/ vb_full (bvs a t) = Some r -> In r (vb_own v)) ->
    JR c g a -> JR c g (setv a t v).
  Proof.
    intros E1 E2 E3 E4 Ho. apply JR_frame; auto.
    - intros t'. cbn. unfold fn. destruct (Nat.eqb_spec t' t) as [->|]; auto.
    - intros t' r. cbn. unfold fn. destruct (Nat.eqb_spec t' t) as [->|]; auto.
  Qed.
  (** a change of one view (and of the list of published records) that keeps the pointer part *)
  Lemma JW_view g a a' ds rt tr t :
    (forall t', t' <> t -> bvs a' t' = bvs a t') ->
    (forall p, wh a' p = wh a p) -> (forall r, rch a' r = rch a r) -> (forall r, rw a' r = rw a r) -> (forall r, moved a' r = moved a r) ->
    incl (tl a) (tl a') ->
    vb_pend (bvs a' t) = vb_pend (bvs a t) -> vb_freed (bvs a' t) = vb_freed (bvs a t) ->
    vb_move (bvs a' t) = vb_move (bvs a t) -> vb_cur (bvs a' t) = vb_cur (bvs a t) ->
    (forall r nx, vb_new (bvs a' t) = Some (r, nx) -> exists nx', vb_new (bvs a t) = Some (r, nx')) ->
    (forall r nx, vb_new (bvs a t) = Some (r, nx) -> (exists nx', vb_new (bvs a' t) = Some (r, nx')) \/ In r (tl a')) ->
    (vb_own (bvs a t) <> [] -> vb_own (bvs a' t) <> [] \/ (vb_pend (bvs a t) = None /\ vb_freed (bvs a t) = [])) ->
    (forall r, vb_arr (bvs a' t) = Some r -> vb_arr (bvs a t) = Some r /\ (In r (vb_own (bvs a t)) -> In r (vb_own (bvs a' t)))) ->
    (vb_mine (bvs a' t) = vb_mine (bvs a t) /\ vb_s0 (bvs a' t) = vb_s0 (bvs a t) /\
     (forall r, vb_mine (bvs a t) = Some r -> In r (vb_own (bvs a t)) -> In r (vb_own (bvs a' t)))) ->
    JW g a ds rt tr -> JW g a' ds rt tr.
  Proof.
    intros Fo Ew Ech Erw Emv Etl E1 E2 E3 E4 Hn1 Hn2 Ho Ha HVt [J1 J2 J3 J4 J5 J6 J7 J8 J9].
    assert (Eec : forall r, ec g a' r = ec g a r) by (intros r; unfold ec; now rewrite Ech, Erw, Emv).
    constructor.
    - intros r Hr. rewrite Eec. split; [apply J1; auto|]. intros p. rewrite Ew. now apply J1.
    - intros t' p. rewrite Ew. destruct (Nat.eq_dec t' t) as [->|N]; [rewrite E1, E2|rewrite (Fo t' N)]; apply J2.
    - intros t'. destruct (Nat.eq_dec t' t) as [->|N]; [rewrite E2|rewrite (Fo t' N)]; (split; [apply J3|]); intros p; rewrite Ew; apply J3.
    - split; [apply J4|]. intros p. rewrite Ew. apply J4.
    - intros p. rewrite Ew. apply J5.
    - intros t' r. rewrite Emv, Erw. destruct (Nat.eq_dec t' t) as [->|N]; [rewrite E3, E4|rewrite (Fo t' N)]; apply J6.
    - intros Hoob. destruct (J7 Hoob) as [C1 C2 C3 C4 C5 C6 C7]. constructor.
      + intros p Hp. rewrite Ew. now apply C1.
      + intros p r. rewrite Ew, Eec. apply C2.
      + intros p t'. rewrite Ew. intros H. destruct (C3 p t' H) as (X1 & X2).
        destruct (Nat.eq_dec t' t) as [->|N]; [|rewrite (Fo t' N); auto].
        rewrite E1, E2. split; auto. destruct (Ho X2) as [Y|(Y1 & Y2)]; auto. exfalso. destruct X1 as [X1|X1]; [congruence|rewrite Y2 in X1; contradiction].
      + intros p. rewrite Ew. apply C4.
      + intros r Hr. destruct (C5 r Hr) as [X|(t' & nx & X)]; [left; now apply Etl|].
        destruct (Nat.eq_dec t' t) as [->|N]; [|right; exists t', nx; now rewrite (Fo t' N)].
        destruct (Hn2 r nx X) as [(nx' & Y)|Y]; [right; exists t, nx'; exact Y|now left].
      + intros t' r nx. rewrite Ech. destruct (Nat.eq_dec t' t) as [->|N]; [|rewrite (Fo t' N); apply C6].
        intros H. destruct (Hn1 r nx H) as (nx' & Y). eapply C6; eauto.
      + intros t' r. rewrite Ech. destruct (Nat.eq_dec t' t) as [->|N]; [|rewrite (Fo t' N); apply C7].
        intros H. destruct (Ha r H) as (Y1 & Y2). destruct (C7 t r Y1) as (Z1 & Z2). auto.
    - exact J8.
    - destruct J9 as [H1 H2 H3]. constructor.
      + intros t' r. destruct (Nat.eq_dec t' t) as [->|N].
        * destruct HVt as (-> & _ & V3). intros E. destruct (H1 t r E) as (X1 & X2 & X3). split; [auto|]. split; auto. intros p. rewrite Ew. apply X3.
        * rewrite (Fo t' N). intros E. destruct (H1 t' r E) as (X1 & X2 & X3). split; auto. split; auto. intros p. rewrite Ew. apply X3.
      + intros t' r E. destruct (Nat.eq_dec t' t) as [->|N]; [destruct HVt as (_ & -> & _)|rewrite (Fo t' N)]; apply H2; exact E.
      + intros t' r. destruct (Nat.eq_dec t' t) as [->|N]; [destruct HVt as (-> & -> & _); rewrite E1, E2|rewrite (Fo t' N)]; apply H3.
  Qed.

  Lemma JW_setv_gen g a ds rt tr t v :
    vb_pend v = vb_pend (bvs a t) -> vb_freed v = vb_freed (bvs a t) -> vb_move v = vb_move (bvs a t) -> vb_cur v = vb_cur (bvs a t) ->
    vb_new v = vb_new (bvs a t) ->
    (vb_own (bvs a t) <> [] -> vb_own v <> [] \/ (vb_pend (bvs a t) = None /\ vb_freed (bvs a t) = [])) ->
    (forall r, vb_arr v = Some r -> vb_arr (bvs a t) = Some r /\ (In r (vb_own (bvs a t)) -> In r (vb_own v))) ->
    (vb_mine v = vb_mine (bvs a t) /\ vb_s0 v = vb_s0 (bvs a t) /\ (forall r, vb_mine (bvs a t) = Some r -> In r (vb_own (bvs a t)) -> In r (vb_own v))) ->
    JW g a ds rt tr -> JW g (setv a t v) ds rt tr.
  Proof.
    intros E1 E2 E3 E4 E5 Ho Ha HVt. apply JW_view with (t := t); cbn [setv bvs wh rch rw moved tl]; auto.
    all: try rewrite !fn_same; auto.
    - intros t' N. now rewrite fn_other.
    - intros r nx. rewrite E5. eauto.
    - intros r nx H. left. rewrite E5. eauto.
  Qed.

  Lemma JW_bvs g a a' ds rt tr t v :
    bvs a' = fn (bvs a) t v -> wh a' = wh a -> rch a' = rch a -> rw a' = rw a -> moved a' = moved a -> tl a' = tl a ->
    Vsame (bvs a t) v -> JW g a ds rt tr -> JW g a' ds rt tr.
  Proof.
    intros Eb Ew Ech Erw Emv Etl (V1 & V2 & (V3 & V7 & V8 & V9 & V10 & V11) & V4 & V5 & V6).
    apply JW_view with (t := t); try rewrite Eb; try rewrite Ew; try rewrite Ech; try rewrite Erw; try rewrite Emv; try rewrite Etl; auto.
    all: try rewrite !fn_same; auto.
    - intros t' N. now rewrite fn_other.
    - intros r nx. rewrite V6. eauto.
    - intros r nx H. left. rewrite V6. eauto.
    - rewrite V7. intros r H. split; auto.
  Qed.

  Lemma JW_setv g a ds rt tr t v : Vsame (bvs a t) v -> JW g a ds rt tr -> JW g (setv a t v) ds rt tr.
  Proof. intros (V1 & V2 & (V3 & V7 & V8 & V9 & V10 & V11) & V4 & V5 & V6). apply JW_setv_gen; auto. rewrite V7. intros r H. split; auto. Qed.

  (** visiting a node of thread_list_ *)
  Lemma S_node g a tr t x : (forall h, x = Some h -> In h (tl a)) -> JB c g a tr -> JB c g (setv a t (set_node (bvs a t) x)) tr.
  Proof.
    intros Hx [[O1 O2 O3 O4 O5] K1 R1 W1]. constructor.
    - constructor; cbn [tl setv bvs]; auto.
      + intros t' h. unfold fn. destruct (Nat.eqb_spec t' t) as [->|]; cbn; [apply Hx|apply O2].
      + intros t' r nx. unfold fn. destruct (Nat.eqb_spec t' t) as [->|]; cbn; apply O3.
      + intros t1 t2 r nx nx'. unfold fn. destruct (Nat.eqb_spec t1 t) as [->|], (Nat.eqb_spec t2 t) as [->|]; cbn; auto; apply O4.
      + intros t' r. unfold fn. destruct (Nat.eqb_spec t' t) as [->|]; cbn; apply O5.
    - apply JK_setv; auto.
    - apply JR_setv; auto.
    - apply JW_setv; auto.
  Qed.

  Lemma JB_tl_head g a tr h : JB c g a tr -> tlist g = Some h -> In h (tl a).
  Proof. intros [[O1 _ _ _ _] _ _ _] E. destruct O1 as (O1 & _). rewrite E in O1. now apply is_tl_head in O1. Qed.
  Lemma JB_tl_next g a tr h n : JB c g a tr -> In h (tl a) -> r_next (grec g h) = Some n -> In n (tl a).
  Proof. intros [[O1 _ _ _ _] _ _ _] E. destruct O1 as (O1 & _). eapply is_tl_next; eauto. Qed.

  (** thread_id_.compare_exchange( null, me ) succeeded on a node of thread_list_ *)
  Lemma S_cas_ok g a tr t h :
    vb_node (bvs a t) = Some h -> r_tid (grec g h) = 0 -> JB c g a tr ->
    JB c (upd_rec g h (rs_tid (S t))) (setv a t (set_own (bvs a t) (h :: vb_own (bvs a t)))) tr.
  Proof.
    intros Hn Ht [[O1 O2 O3 O4 O5] K1 R1 W1].
    assert (Hh : In h (tl a)) by (eapply O2; eauto).
    assert (Hlt : h < List.length (recs g)) by (eapply is_tl_lt; [apply O1|exact Hh]).
    set (g' := upd_rec g h (rs_tid (S t))).
    assert (El : List.length (recs g') = List.length (recs g)) by (unfold g', upd_rec; cbn; apply upd_nth_length).
    assert (Eo : forall r, r <> h -> grec g' r = grec g r) by (intros r N; unfold g'; rewrite grec_upd_rec_other; auto).
    assert (Es : grec g' h = rs_tid (S t) (grec g h)) by (unfold g'; now rewrite grec_upd_rec_same).
    assert (Ef : forall r, r_next (grec g' r) = r_next (grec g r) /\ r_head (grec g' r) = r_head (grec g r) /\ r_tail (grec g' r) = r_tail (grec g r) /\
                           r_cb (grec g' r) = r_cb (grec g r) /\ r_cc (grec g' r) = r_cc (grec g r)).
    { intros r. destruct (Nat.eq_dec r h) as [->|N]; [rewrite Es; destruct (grec g h); cbn; auto|rewrite Eo by auto; auto]. }
    constructor.
    - constructor; cbn [tl setv bvs].
      + split; [|apply O1]. change (tlist g') with (tlist g). apply is_tl_frame with (g := g); [lia| |apply O1]. intros r _. apply Ef.
      + intros t' h'. unfold fn. destruct (Nat.eqb_spec t' t) as [->|]; cbn; apply O2.
      + intros t' r nx Hv.
        assert (Hv' : vb_new (bvs a t') = Some (r, nx)) by (revert Hv; unfold fn; destruct (Nat.eqb_spec t' t) as [->|]; cbn; auto).
        destruct (O3 t' r nx Hv') as (X1 & X2 & X3 & X4). assert (N : r <> h) by (intros ->; contradiction).
        rewrite El, Eo by auto. repeat split; auto. destruct X4 as [X4|X4]; [now left|right].
        unfold fn. destruct (Nat.eqb_spec t' t) as [->|]; cbn; auto.
      + intros t1 t2 r nx nx'. unfold fn. destruct (Nat.eqb_spec t1 t) as [->|], (Nat.eqb_spec t2 t) as [->|]; cbn; auto; apply O4.
      + intros t' r. rewrite El. unfold fn. destruct (Nat.eqb_spec t' t) as [->|]; cbn.
        * intros [<-|Hr]; [split; auto; rewrite Es; destruct (grec g h); reflexivity|].
          destruct (O5 t r Hr) as (X1 & X2). assert (N : r <> h) by (intros ->; lia). rewrite Eo by auto. auto.
        * intros Hr. destruct (O5 t' r Hr) as (X1 & X2). assert (N : r <> h) by (intros ->; lia). rewrite Eo by auto. auto.
    - apply JK_setv; auto. eapply JK_frame with (g := g) (a := a); eauto.
    - apply JR_setv; auto; [cbn; auto|]. eapply JR_frame with (g := g) (a := a); eauto.
      all: try solve [intros r; destruct (Ef r) as (_ & X); exact X].
    - apply JW_setv; auto. eapply JW_frame with (g := g) (a := a); eauto.
  Qed.

  (** thread_id_.store( null ) by the owner *)
  Lemma S_sttid0 g a tr t r :
    In r (vb_own (bvs a t)) -> vb_full (bvs a t) <> Some r -> (forall ob, vb_move (bvs a t) <> Some (r, ob)) -> vb_dead (bvs a t) <> Some r ->
    vb_pend (bvs a t) = None -> vb_freed (bvs a t) = [] -> vb_arr (bvs a t) <> Some r -> vb_mine (bvs a t) <> Some r ->
    JB c g a tr ->
    JB c (upd_rec g r (rs_tid 0)) (setv a t (set_own (bvs a t) (remove Nat.eq_dec r (vb_own (bvs a t))))) tr.
  Proof.
    intros Hr N1 N2 N3 Hpe Hfe Har Hmi [[O1 O2 O3 O4 O5] K1 R1 W1].
    destruct (O5 t r Hr) as (Hlt & Htid).
    set (g' := upd_rec g r (rs_tid 0)).
    assert (El : List.length (recs g') = List.length (recs g)) by (unfold g', upd_rec; cbn; apply upd_nth_length).
    assert (Eo : forall r', r' <> r -> grec g' r' = grec g r') by (intros r' N; unfold g'; rewrite grec_upd_rec_other; auto).
    assert (Es : grec g' r = rs_tid 0 (grec g r)) by (unfold g'; now rewrite grec_upd_rec_same).
    assert (Ef : forall r', r_next (grec g' r') = r_next (grec g r') /\ r_head (grec g' r') = r_head (grec g r') /\ r_tail (grec g' r') = r_tail (grec g r') /\
                           r_cb (grec g' r') = r_cb (grec g r') /\ r_cc (grec g' r') = r_cc (grec g r')).
    { intros r'. destruct (Nat.eq_dec r' r) as [->|N]; [rewrite Es; destruct (grec g r); cbn; auto|rewrite Eo by auto; auto]. }
    constructor.
    - constructor; cbn [tl setv bvs].
      + split; [|apply O1]. change (tlist g') with (tlist g). apply is_tl_frame with (g := g); [lia| |apply O1]. intros r' _. apply Ef.
      + intros t' h'. unfold fn. destruct (Nat.eqb_spec t' t) as [->|]; cbn; apply O2.
      + intros t' r' nx Hv.
        assert (Hv' : vb_new (bvs a t') = Some (r', nx)) by (revert Hv; unfold fn; destruct (Nat.eqb_spec t' t) as [->|]; cbn; auto).
        destruct (O3 t' r' nx Hv') as (X1 & X2 & X3 & X4). rewrite El. destruct (Ef r') as (-> & _). repeat split; auto.
        destruct (Nat.eq_dec r' r) as [->|N]; [left; rewrite Es; destruct (grec g r); reflexivity|]. rewrite Eo by auto.
        destruct X4 as [X4|X4]; [now left|right]. unfold fn. destruct (Nat.eqb_spec t' t) as [->|]; cbn; auto. now apply in_in_remove.
      + intros t1 t2 r' nx nx'. unfold fn. destruct (Nat.eqb_spec t1 t) as [->|], (Nat.eqb_spec t2 t) as [->|]; cbn; auto; apply O4.
      + intros t' r'. rewrite El. unfold fn. destruct (Nat.eqb_spec t' t) as [->|]; cbn.
        * intros Hr'. apply in_remove in Hr'. destruct Hr' as (Hr' & N). rewrite Eo by auto. auto.
        * intros Hr'. destruct (O5 t' r' Hr') as (X1 & X2). assert (N : r' <> r) by (intros ->; rewrite Htid in X2; congruence). rewrite Eo by auto. auto.
    - apply JK_setv; auto. eapply JK_frame with (g := g) (a := a); eauto.
    - apply JR_setv; auto.
      + cbn. intros r' Hr' [(ob & X)|[X|X]]; apply in_in_remove; auto; try congruence.
      + eapply JR_frame with (g := g) (a := a); eauto.
        all: try solve [intros r'; destruct (Ef r') as (_ & X); exact X].
    - apply JW_setv_gen; auto.
      + cbn. intros r' H. split; auto. intros Hr'. apply in_in_remove; auto. intros ->. apply Har. exact H.
      + cbn. split; auto. split; auto. intros r' H Hr'. apply in_in_remove; auto. intros ->. apply Hmi. exact H.
      + eapply JW_frame with (g := g) (a := a); eauto.
  Qed.
End StepsB1.
