(** * Linearizability of the two-lock queue model (cds::container::RWQueue) for every schedule.

    Linearization points: enqueue - the store to [m_Tail.ptr->m_pNext]; dequeue - the load of
    [m_Head.ptr->m_pNext] (null: the queue is empty at that instant; non-null: that node's value is taken).
    The proof establishes mutual exclusion of each spin lock on the way: a thread's knowledge of the plain
    field [ptr], learned when its exchange acquired the lock, stays true until it unlocks. *)
From Coq Require Import ZArith List String Bool Lia PeanoNat.
From LV Require Import Base.Conc Base.Events Base.Lin Spec.Specs Proofs.LinProofs Model.RWQueue Proofs.MSQueueBase.
Import ListNotations.
Local Open Scope string_scope.
Local Open Scope list_scope.

Record tview := mkTV {
  tv_st : status Fifo;
  tv_tl : option nat;      (* I hold the tail lock and m_Tail.ptr has this value *)
  tv_hd : option nat       (* I hold the head lock and m_Head.ptr has this value *)
}.

Record Aux := mkAux { done : list nat; rest : list nat; views : nat -> tview }.
Definition view (a : Aux) (t : nat) : tview := views a t.
Definition updv (vs : nat -> tview) (t : nat) (v : tview) : nat -> tview :=
  fun x => if Nat.eqb x t then v else vs x.
Definition auxset (a : Aux) (d r : list nat) (t : nat) (v : tview) : Aux := mkAux d r (updv (views a) t v).
Definition LL (g : G) (a : Aux) : list nat := done a ++ hptr g :: rest a.

Definition nocand : nat -> bool := fun _ => false.

Record Inv (g : G) (a : Aux) (tr : list (nat * ev)) : Prop := mkInv {
  I_nodup : NoDup (LL g a);
  I_linked : linked (nxt g) (LL g a);
  I_lt : forall n, In n (LL g a) -> (n < nalloc g)%nat;
  I_last : exists l', LL g a = l' ++ [tptr g];
  I_tl : forall t p, tv_tl (views a t) = Some p -> tlock g = true /\ tptr g = p;
  I_hd : forall t p, tv_hd (views a t) = Some p -> hlock g = true /\ hptr g = p;
  I_tl1 : forall t t', t <> t' -> tv_tl (views a t) <> None -> tv_tl (views a t') = None;
  I_hd1 : forall t t', t <> t' -> tv_hd (views a t) <> None -> tv_hd (views a t') = None;
  I_spec : SpecInv (map (val g) (rest a)) (fun t => tv_st (views a t)) nocand (hist tr)
}.

Lemma updv_same vs t v : updv vs t v t = v.
Proof. unfold updv. now rewrite Nat.eqb_refl. Qed.
Lemma updv_other vs t v x : x <> t -> updv vs t v x = vs x.
Proof. unfold updv. intros H. destruct (Nat.eqb_spec x t); congruence. Qed.

Notation safe := (@Conc.safe G V ev Aux tview view Inv).

Lemma view_auxset a d r t v : view (auxset a d r t v) t = v.
Proof. unfold view, auxset. cbn. apply updv_same. Qed.
Lemma frame_auxset a d r t v : Conc.frame view t a (auxset a d r t v).
Proof. intros t' H. unfold view, auxset. cbn. now apply updv_other. Qed.
Lemma frame_refl t a : Conc.frame view t a a.
Proof. intros ? ?. reflexivity. Qed.

Lemma safe_act {R} t (f : act) (k : V -> prog R) l Q :
  (forall g a tr, Inv g a tr -> views a t = l ->
     exists d r v', Inv (fst (fst (f g))) (auxset a d r t v') (tr ++ Conc.tag t (snd (f g))) /\
                    safe t (k (snd (fst (f g)))) v' Q) ->
  safe t (Act f k) l Q.
Proof.
  intros H. cbn [Conc.safe]. intros g a tr HI Hv. destruct (H g a tr HI Hv) as (d & r & v' & A & B).
  exists (auxset a d r t v'). split; [exact A|]. split; [apply frame_auxset|].
  rewrite view_auxset. exact B.
Qed.

Lemma safe_emit {R} t es (k : prog R) l Q :
  (forall g a tr, Inv g a tr -> views a t = l ->
     exists d r v', Inv g (auxset a d r t v') (tr ++ Conc.tag t es) /\ safe t k v' Q) ->
  safe t (Emit es k) l Q.
Proof.
  intros H. cbn [Conc.safe]. intros g a tr HI Hv. destruct (H g a tr HI Hv) as (d & r & v' & A & B).
  exists (auxset a d r t v'). split; [exact A|]. split; [apply frame_auxset|].
  rewrite view_auxset. exact B.
Qed.

Lemma Inv_acc g a tr t k o b : Inv g a tr -> Inv g a (tr ++ Conc.tag t [EvAcc k o b]).
Proof.
  intros [H1 H2 H3 H4 H5 H6 H7 H8 H9]. constructor; auto.
  rewrite hist_app, hist_acc, app_nil_r. exact H9.
Qed.

(** the views of the other threads after thread [t] changed its own *)
Ltac others x t Hne :=
  destruct (Nat.eq_dec x t) as [->|Hne]; [rewrite updv_same|rewrite updv_other by exact Hne].

Lemma uniq_upd (proj : tview -> option nat) vs t v :
  (forall x x', x <> x' -> proj (vs x) <> None -> proj (vs x') = None) ->
  (proj v <> None -> forall x, x <> t -> proj (vs x) = None) ->
  forall x x', x <> x' -> proj (updv vs t v x) <> None -> proj (updv vs t v x') = None.
Proof.
  intros H Hv x x' Hne. destruct (Nat.eq_dec x t) as [->|N1]; destruct (Nat.eq_dec x' t) as [->|N2];
    try congruence; rewrite ?updv_same, ?updv_other by assumption.
  - intros Hp. apply Hv; auto.
  - intros Hp. destruct (proj v) eqn:E; [|reflexivity]. exfalso.
    assert (Hc : proj (vs x) = None) by (apply Hv; [discriminate|exact N1]). congruence.
  - apply H; exact Hne.
Qed.

(** [H]: the uniqueness invariant of the projection, [Hv]: the view of [t] before the step *)
Ltac uniq H Hv t :=
  apply uniq_upd; [exact H|cbn;
    first [ congruence
          | let y := fresh "y" in let Hy := fresh "Hy" in
            intros _ y Hy; first [ solve [auto] | apply (H t y); [congruence|rewrite Hv; discriminate] ] ]].

(** *** the spin lock: acquire / failed attempt / release *)
Lemma Inv_acquire_tail g a tr t s :
  Inv g a tr -> views a t = mkTV s None None -> tlock g = false ->
  Inv (set_lock g STail true) (auxset a (done a) (rest a) t (mkTV s (Some (tptr g)) None)) tr.
Proof.
  intros [H1 H2 H3 H4 H5 H6 H7 H8 H9] Hv Hl.
  assert (Hnone : forall x, tv_tl (views a x) = None).
  { intros x. destruct (tv_tl (views a x)) eqn:E; [|reflexivity]. destruct (H5 _ _ E). congruence. }
  constructor; unfold LL in *; cbn [set_lock auxset views done rest hptr tptr tlock hlock nxt val nalloc]; auto.
  - intros x p. others x t Hne; cbn.
    + intros E. injection E as <-. auto.
    + rewrite Hnone. discriminate.
  - intros x p. others x t Hne; cbn; [discriminate|]. intros E. apply (H6 _ _ E).
  - uniq H7 Hv t.
  - uniq H8 Hv t.
  - eapply spec_ext; [| |exact H9]; auto. intros x. cbn. others x t Hne; [now rewrite Hv|reflexivity].
Qed.

Lemma Inv_acquire_head g a tr t s :
  Inv g a tr -> views a t = mkTV s None None -> hlock g = false ->
  Inv (set_lock g SHead true) (auxset a (done a) (rest a) t (mkTV s None (Some (hptr g)))) tr.
Proof.
  intros [H1 H2 H3 H4 H5 H6 H7 H8 H9] Hv Hl.
  assert (Hnone : forall x, tv_hd (views a x) = None).
  { intros x. destruct (tv_hd (views a x)) eqn:E; [|reflexivity]. destruct (H6 _ _ E). congruence. }
  constructor; unfold LL in *; cbn [set_lock auxset views done rest hptr tptr tlock hlock nxt val nalloc]; auto.
  - intros x p. others x t Hne; cbn; [discriminate|]. intros E. apply (H5 _ _ E).
  - intros x p. others x t Hne; cbn.
    + intros E. injection E as <-. auto.
    + rewrite Hnone. discriminate.
  - uniq H7 Hv t.
  - uniq H8 Hv t.
  - eapply spec_ext; [| |exact H9]; auto. intros x. cbn. others x t Hne; [now rewrite Hv|reflexivity].
Qed.

(** an exchange on a lock that is taken writes [true] over [true] *)
Lemma set_lock_same g s : get_lock g s = true -> set_lock g s true = g.
Proof. destruct g, s; cbn; intros ->; reflexivity. Qed.

Lemma Inv_release_tail g a tr t s p :
  Inv g a tr -> views a t = mkTV s (Some p) None ->
  Inv (set_lock g STail false) (auxset a (done a) (rest a) t (mkTV s None None)) tr.
Proof.
  intros [H1 H2 H3 H4 H5 H6 H7 H8 H9] Hv.
  assert (Hnone : forall x, x <> t -> tv_tl (views a x) = None).
  { intros x Hx. apply (H7 t x); [congruence|]. rewrite Hv. discriminate. }
  constructor; unfold LL in *; cbn [set_lock auxset views done rest hptr tptr tlock hlock nxt val nalloc]; auto.
  - intros x q. others x t Hne; cbn; [discriminate|]. rewrite Hnone by exact Hne. discriminate.
  - intros x q. others x t Hne; cbn; [discriminate|]. intros E. apply (H6 _ _ E).
  - uniq H7 Hv t.
  - uniq H8 Hv t.
  - eapply spec_ext; [| |exact H9]; auto. intros x. cbn. others x t Hne; [now rewrite Hv|reflexivity].
Qed.

Lemma Inv_release_head g a tr t s p :
  Inv g a tr -> views a t = mkTV s None (Some p) ->
  Inv (set_lock g SHead false) (auxset a (done a) (rest a) t (mkTV s None None)) tr.
Proof.
  intros [H1 H2 H3 H4 H5 H6 H7 H8 H9] Hv.
  assert (Hnone : forall x, x <> t -> tv_hd (views a x) = None).
  { intros x Hx. apply (H8 t x); [congruence|]. rewrite Hv. discriminate. }
  constructor; unfold LL in *; cbn [set_lock auxset views done rest hptr tptr tlock hlock nxt val nalloc]; auto.
  - intros x q. others x t Hne; cbn; [discriminate|]. intros E. apply (H5 _ _ E).
  - intros x q. others x t Hne; cbn; [discriminate|]. rewrite Hnone by exact Hne. discriminate.
  - uniq H7 Hv t.
  - uniq H8 Hv t.
  - eapply spec_ext; [| |exact H9]; auto. intros x. cbn. others x t Hne; [now rewrite Hv|reflexivity].
Qed.

Lemma Inv_cnt g a tr d :
  Inv g a tr -> Inv (mkG (hlock g) (tlock g) (hptr g) (tptr g) (nxt g) (val g) (nalloc g) d) a tr.
Proof. intros [H1 H2 H3 H4 H5 H6 H7 H8 H9]. constructor; auto. Qed.

Lemma spec_ext_r q stf cf h stf' cf' :
  SpecInv q stf cf h ->
  (forall t, stf' t = stf t) -> (forall t, cf' t = true -> cf t = true) ->
  SpecInv q stf' cf' h.
Proof. intros H H1 H2. eapply spec_ext; eauto. Qed.

(** *** invoke / response *)
Lemma Inv_event g a tr t (e : aev Fifo) name args s s' :
  Inv g a tr -> views a t = mkTV s None None ->
  (forall f : stmap, f t = s ->
     @lp_step Fifo (map (val g) (rest a), f) e = Some (map (val g) (rest a), Lin.upd f t s')) ->
  hev_of t (EvCli name args) = erase [e] ->
  Inv g (auxset a (done a) (rest a) t (mkTV s' None None)) (tr ++ Conc.tag t [EvCli name args]).
Proof.
  intros [H1 H2 H3 H4 H5 H6 H7 H8 H9] Hv Hstep He.
  constructor; auto; cbn [auxset views done rest].
  - intros x p. others x t Hne; cbn; [discriminate|]. apply H5.
  - intros x p. others x t Hne; cbn; [discriminate|]. apply H6.
  - uniq H7 Hv t.
  - uniq H8 Hv t.
  - rewrite hist_snoc, He.
    eapply spec_ext_r; [eapply spec_event with (t := t) (s' := s'); [exact H9|reflexivity|]| |]; auto.
    + intros f Hf. apply Hstep. cbn in Hf. now rewrite Hv in Hf.
    + intros x. cbn. unfold Lin.upd. destruct (Nat.eqb_spec x t) as [->|Hne];
        [now rewrite updv_same|now rewrite updv_other].
Qed.

(** *** linearization point of enqueue *)
Lemma Inv_store_next g a tr t v tp :
  Inv g a tr -> views a t = mkTV (@Pending Fifo (Enq v)) (Some tp) None ->
  Inv (fst (fst (a_st_next tp v g)))
      (auxset a (done a) (rest a ++ [nalloc g]) t
         (mkTV (@Linearized Fifo (Enq v) (RBool true)) (Some (nalloc g)) None)) tr.
Proof.
  intros [H1 H2 H3 H4 H5 H6 H7 H8 H9] Hv. cbn [a_st_next fst].
  set (n := nalloc g).
  destruct (H5 t tp) as (Hl & Htp); [now rewrite Hv|].
  destruct H4 as (l' & El). rewrite Htp in El.
  assert (HnL : ~ In n (LL g a)) by (intros Hin; apply H3 in Hin; unfold n in Hin; lia).
  assert (ELL : done a ++ hptr g :: (rest a ++ [n]) = LL g a ++ [n]).
  { unfold LL. now rewrite <- app_assoc. }
  assert (Htpl : (tp < nalloc g)%nat).
  { apply H3. rewrite El. apply in_or_app. right. now left. }
  constructor; unfold LL; cbn [auxset views done rest hptr tptr tlock hlock nxt val nalloc]; rewrite ?ELL.
  - apply NoDup_snoc; auto.
  - rewrite El in *. apply NoDup_remove_2 in H1. rewrite app_nil_r in H1.
    eapply linked_snoc with (nx := fun x => if Nat.eqb x n then None else nxt g x).
    + eapply linked_ext; [|exact H2]. intros x Hx. cbn. destruct (Nat.eqb_spec x n) as [->|]; [contradiction|reflexivity].
    + exact H1.
    + intros Hin. apply HnL. apply in_or_app. now left.
    + unfold n. lia.
    + intros y Hy. cbn. destruct (Nat.eqb_spec y tp); congruence.
    + cbn. now rewrite Nat.eqb_refl.
    + cbn. now rewrite Nat.eqb_refl.
  - intros x Hx. apply in_app_or in Hx. destruct Hx as [Hx|[<-|[]]]; [apply H3 in Hx|unfold n]; lia.
  - exists (LL g a). reflexivity.
  - intros x p. others x t Hne; cbn.
    + intros E. injection E as <-. auto.
    + intros E. exfalso. assert (Hc : tv_tl (views a x) = None).
      { apply (H7 t x); [congruence|]. rewrite Hv. discriminate. } congruence.
  - intros x p. others x t Hne; cbn; [discriminate|]. intros E. apply (H6 _ _ E).
  - uniq H7 Hv t.
  - uniq H8 Hv t.
  - rewrite map_app. cbn [map]. rewrite Nat.eqb_refl.
    assert (Em : map (fun x => if Nat.eqb x n then v else val g x) (rest a) = map (val g) (rest a)).
    { apply map_ext_in. intros x Hx. destruct (Nat.eqb_spec x n) as [->|]; [|reflexivity].
      exfalso. apply HnL. unfold LL. apply in_or_app. right. now right. }
    rewrite Em. rewrite <- (app_nil_r (hist tr)). change (@nil (hev Fifo)) with (erase [@ALin Fifo t]).
    eapply spec_ext_r; [eapply spec_event with (t := t) (s' := @Linearized Fifo (Enq v) (RBool true)); [exact H9|reflexivity|]| |]; auto.
    + intros f Hf. cbn in Hf. rewrite Hv in Hf. cbn in Hf. apply step_lin_enq. exact Hf.
    + intros x. cbn. unfold Lin.upd. destruct (Nat.eqb_spec x t) as [->|Hne];
        [now rewrite updv_same|now rewrite updv_other].
Qed.

(** *** linearization point of dequeue *)
Lemma Inv_load_next_some g a tr t hp x :
  Inv g a tr -> views a t = mkTV (@Pending Fifo Deq) None (Some hp) -> nxt g hp = Some x ->
  Inv (mkG (hlock g) (tlock g) x (tptr g) (nxt g) (val g) (nalloc g) (cnt g))
      (auxset a (done a ++ [hp]) (List.tl (rest a)) t
         (mkTV (@Linearized Fifo Deq (RVal (Some (val g x)))) None (Some x))) tr.
Proof.
  intros [H1 H2 H3 H4 H5 H6 H7 H8 H9] Hv Hn.
  destruct (H6 t hp) as (Hl & Hhp); [now rewrite Hv|].
  assert (Er : exists r', rest a = x :: r').
  { unfold LL in H2. rewrite Hhp in H2. pose proof (linked_mid _ _ _ _ H2) as Hm. rewrite Hn in Hm.
    destruct (rest a) as [|b r']; [discriminate|]. injection Hm as <-. now exists r'. }
  destruct Er as (r' & Er).
  assert (ELL : (done a ++ [hp]) ++ x :: r' = done a ++ hp :: x :: r') by (now rewrite <- app_assoc).
  assert (EL0 : LL g a = done a ++ hp :: x :: r') by (unfold LL; now rewrite Hhp, Er).
  rewrite EL0 in H1, H2, H3, H4.
  constructor; unfold LL; cbn [auxset views done rest hptr tptr tlock hlock nxt val nalloc]; rewrite ?Er; cbn [List.tl];
    rewrite ?ELL; auto.
  - intros y p. others y t Hne; cbn; [discriminate|]. intros E. apply (H5 _ _ E).
  - intros y p. others y t Hne; cbn.
    + intros E. injection E as <-. auto.
    + intros E. exfalso. assert (Hc : tv_hd (views a y) = None).
      { apply (H8 t y); [congruence|]. rewrite Hv. discriminate. } congruence.
  - uniq H7 Hv t.
  - uniq H8 Hv t.
  - rewrite Er in H9. cbn [map] in H9. rewrite <- (app_nil_r (hist tr)).
    change (@nil (hev Fifo)) with (erase [@ALin Fifo t]).
    eapply spec_ext_r; [eapply spec_event with (t := t) (s' := @Linearized Fifo Deq (RVal (Some (val g x)))); [exact H9|reflexivity|]| |]; auto.
    + intros f Hf. cbn in Hf. rewrite Hv in Hf. cbn in Hf. apply step_lin_deq. exact Hf.
    + intros y. cbn. unfold Lin.upd. destruct (Nat.eqb_spec y t) as [->|Hne];
        [now rewrite updv_same|now rewrite updv_other].
Qed.

Lemma Inv_load_next_none g a tr t hp :
  Inv g a tr -> views a t = mkTV (@Pending Fifo Deq) None (Some hp) -> nxt g hp = None ->
  Inv g (auxset a (done a) (rest a) t (mkTV empty_lin None (Some hp))) tr.
Proof.
  intros [H1 H2 H3 H4 H5 H6 H7 H8 H9] Hv Hn.
  destruct (H6 t hp) as (Hl & Hhp); [now rewrite Hv|].
  assert (Er : rest a = []).
  { unfold LL in H2. rewrite Hhp in H2. pose proof (linked_mid _ _ _ _ H2) as Hm. rewrite Hn in Hm.
    destruct (rest a); [reflexivity|discriminate]. }
  constructor; auto; cbn [auxset views done rest].
  - intros y p. others y t Hne; cbn; [discriminate|]. apply H5.
  - intros y p. others y t Hne; cbn; [|apply H6]. intros E. injection E as <-. auto.
  - uniq H7 Hv t.
  - uniq H8 Hv t.
  - rewrite Er in *. cbn [map] in *. rewrite <- (app_nil_r (hist tr)).
    change (@nil (hev Fifo)) with (erase [@ALin Fifo t]).
    eapply spec_ext_r; [eapply spec_event with (t := t) (s' := empty_lin); [exact H9|reflexivity|]| |]; auto.
    + intros f Hf. cbn in Hf. rewrite Hv in Hf. cbn in Hf. cbn. rewrite Hf. reflexivity.
    + intros y. cbn. unfold Lin.upd. destruct (Nat.eqb_spec y t) as [->|Hne];
        [now rewrite updv_same|now rewrite updv_other].
Qed.

(** ** programs *)
Definition Qlock_t (s : status Fifo) : option nat -> tview -> Prop :=
  fun r l => match r with Some p => l = mkTV s (Some p) None | None => True end.
Definition Qlock_h (s : status Fifo) : option nat -> tview -> Prop :=
  fun r l => match r with Some p => l = mkTV s None (Some p) | None => True end.

Lemma Inv_same g a tr t : Inv g a tr -> Inv g (auxset a (done a) (rest a) t (views a t)) tr.
Proof.
  intros [H1 H2 H3 H4 H5 H6 H7 H8 H9]. constructor; auto; cbn [auxset views done rest].
  - intros x p. others x t Hne; apply H5.
  - intros x p. others x t Hne; apply H6.
  - apply uniq_upd; [exact H7|intros Hp y Hy; apply (H7 t y); [congruence|exact Hp]].
  - apply uniq_upd; [exact H8|intros Hp y Hy; apply (H8 t y); [congruence|exact Hp]].
  - eapply spec_ext; [| |exact H9]; auto. intros x. cbn. others x t Hne; reflexivity.
Qed.

Lemma safe_lock_tail fuel : forall t s,
  safe t (lock_outer fuel STail) (mkTV s None None) (Qlock_t s) /\
  safe t (lock_inner fuel STail) (mkTV s None None) (Qlock_t s).
Proof.
  induction fuel as [|f IH]; intros t s; split; cbn [lock_outer lock_inner]; try exact I.
  - apply safe_act. intros g a tr HI Hv. cbn [a_xchg fst snd vb vn get_lock get_ptr].
    destruct (tlock g) eqn:El.
    + exists (done a), (rest a), (mkTV s None None). split; [|apply IH].
      rewrite (set_lock_same g STail El). apply Inv_acc. rewrite <- Hv. apply Inv_same. exact HI.
    + exists (done a), (rest a), (mkTV s (Some (tptr g)) None). split; [|reflexivity].
      apply Inv_acc. apply Inv_acquire_tail; auto.
  - apply safe_act. intros g a tr HI Hv. cbn [a_ld_lock fst snd vb get_lock].
    exists (done a), (rest a), (mkTV s None None). split.
    + apply Inv_acc. rewrite <- Hv. apply Inv_same. exact HI.
    + destruct (tlock g); apply IH.
Qed.

Lemma safe_lock_head fuel : forall t s,
  safe t (lock_outer fuel SHead) (mkTV s None None) (Qlock_h s) /\
  safe t (lock_inner fuel SHead) (mkTV s None None) (Qlock_h s).
Proof.
  induction fuel as [|f IH]; intros t s; split; cbn [lock_outer lock_inner]; try exact I.
  - apply safe_act. intros g a tr HI Hv. cbn [a_xchg fst snd vb vn get_lock get_ptr].
    destruct (hlock g) eqn:El.
    + exists (done a), (rest a), (mkTV s None None). split; [|apply IH].
      rewrite (set_lock_same g SHead El). apply Inv_acc. rewrite <- Hv. apply Inv_same. exact HI.
    + exists (done a), (rest a), (mkTV s None (Some (hptr g))). split; [|reflexivity].
      apply Inv_acc. apply Inv_acquire_head; auto.
  - apply safe_act. intros g a tr HI Hv. cbn [a_ld_lock fst snd vb get_lock].
    exists (done a), (rest a), (mkTV s None None). split.
    + apply Inv_acc. rewrite <- Hv. apply Inv_same. exact HI.
    + destruct (hlock g); apply IH.
Qed.

Lemma safe_with_ic {R} ic t k d (p : prog R) l Q : safe t p l Q -> safe t (with_ic ic k d p) l Q.
Proof.
  intros H. unfold with_ic. destruct ic; [|exact H].
  cbn [Conc.safe]. intros g a tr HI Hv. exists a. cbn [a_cnt fst snd].
  split; [apply Inv_acc; apply Inv_cnt; exact HI|]. split; [apply frame_refl|]. rewrite Hv. exact H.
Qed.

Definition v_idle : tview := mkTV (@Idle Fifo) None None.
Definition VL (s : status Fifo) : tview := mkTV s None None.

Lemma safe_enqueue ic fuel t v :
  safe t (enqueue ic fuel v) (VL (@Pending Fifo (Enq v)))
       (fun ok l => if ok then l = VL (@Linearized Fifo (Enq v) (RBool true)) else True).
Proof.
  unfold enqueue. apply Conc.safe_bind. eapply Conc.safe_weaken; [|apply (safe_lock_tail fuel t)].
  intros [tp|] l Hl; cbn in Hl; [subst l|exact I].
  apply safe_act. intros g a tr HI Hv.
  exists (done a), (rest a ++ [nalloc g]), (mkTV (@Linearized Fifo (Enq v) (RBool true)) (Some (nalloc g)) None).
  split; [apply Inv_acc; apply Inv_store_next; auto|].
  set (n := nalloc g). clearbody n. clear g a tr HI Hv.
  apply safe_act. intros g a tr HI Hv. cbn [a_unlock fst snd].
  exists (done a), (rest a), (VL (@Linearized Fifo (Enq v) (RBool true))). split.
  - apply Inv_acc. eapply Inv_release_tail; eauto.
  - apply safe_with_ic. reflexivity.
Qed.

Lemma safe_dequeue ic fuel t :
  safe t (dequeue ic fuel) (VL (@Pending Fifo Deq))
       (fun r l => match r with
                   | None => True
                   | Some None => l = VL empty_lin
                   | Some (Some v) => l = VL (@Linearized Fifo Deq (RVal (Some v)))
                   end).
Proof.
  unfold dequeue. apply Conc.safe_bind. eapply Conc.safe_weaken; [|apply (safe_lock_head fuel t)].
  intros [hp|] l Hl; cbn in Hl; [subst l|exact I].
  apply safe_act. intros g a tr HI Hv. unfold a_ld_next.
  destruct (nxt g hp) as [x|] eqn:En; cbn [fst snd vp vz].
  - exists (done a ++ [hp]), (List.tl (rest a)), (mkTV (@Linearized Fifo Deq (RVal (Some (val g x)))) None (Some x)).
    split; [apply Inv_acc; apply Inv_load_next_some; auto|].
    set (v := val g x). clearbody v. clear g a tr HI Hv En.
    apply safe_act. intros g a tr HI Hv. cbn [a_unlock fst snd].
    exists (done a), (rest a), (VL (@Linearized Fifo Deq (RVal (Some v)))). split.
    + apply Inv_acc. eapply Inv_release_head; eauto.
    + apply safe_with_ic. reflexivity.
  - exists (done a), (rest a), (mkTV empty_lin None (Some hp)).
    split; [apply Inv_acc; apply Inv_load_next_none; auto|].
    clear g a tr HI Hv En.
    apply safe_act. intros g a tr HI Hv. cbn [a_unlock fst snd].
    exists (done a), (rest a), (VL empty_lin). split; [|reflexivity].
    apply Inv_acc. eapply Inv_release_head; eauto.
Qed.

Lemma safe_ret {R} t name args (r : res) (o : qop) (x : R) (Q : R -> tview -> Prop) :
  hev_of t (EvCli name args) = [@HRes Fifo t r] ->
  Q x v_idle ->
  safe t (Emit [EvCli name args] (Ret x)) (VL (@Linearized Fifo o r)) Q.
Proof.
  intros He HQ. apply safe_emit. intros g a tr HI Hv.
  exists (done a), (rest a), v_idle. split; [|exact HQ].
  eapply Inv_event with (e := @ARes Fifo t r); eauto.
  intros f Hf. eapply step_res. exact Hf.
Qed.

Lemma safe_outoffuel {R} t (x : R) l (Q : R -> tview -> Prop) :
  (forall l', Q x l') -> safe t (Emit [EvCli "outoffuel" []] (Ret x)) l Q.
Proof.
  intros HQ. cbn [Conc.safe]. intros g a tr HI Hv. exists a. split.
  - destruct HI as [H1 H2 H3 H4 H5 H6 H7 H8 H9]. constructor; auto.
    rewrite hist_snoc. cbn. rewrite app_nil_r. exact H9.
  - split; [apply frame_refl|]. apply HQ.
Qed.

Definition Qop : bool -> tview -> Prop := fun ok l => if ok then l = v_idle else True.

Lemma safe_run_op ic fuel t o : safe t (run_op ic fuel o) v_idle Qop.
Proof.
  destruct o as [v|]; cbn [run_op].
  - apply safe_emit. intros g a tr HI Hv. exists (done a), (rest a), (VL (@Pending Fifo (Enq v))). split.
    { eapply Inv_event with (e := @AInv Fifo t (Enq v)); eauto. intros f Hf. apply step_inv. exact Hf. }
    apply Conc.safe_bind. eapply Conc.safe_weaken; [|apply safe_enqueue].
    intros [|] l Hl; cbn in Hl.
    + subst l. eapply safe_ret; reflexivity.
    + apply safe_outoffuel. intros; exact I.
  - apply safe_emit. intros g a tr HI Hv. exists (done a), (rest a), (VL (@Pending Fifo Deq)). split.
    { eapply Inv_event with (e := @AInv Fifo t Deq); eauto. intros f Hf. apply step_inv. exact Hf. }
    apply Conc.safe_bind. eapply Conc.safe_weaken; [|apply safe_dequeue].
    intros [[v|]|] l Hl; cbn in Hl.
    + subst l. eapply safe_ret; reflexivity.
    + subst l. eapply safe_ret; reflexivity.
    + apply safe_outoffuel. intros; exact I.
Qed.

Lemma safe_run_ops ic fuel t os : safe t (run_ops ic fuel os) v_idle (@Conc.QTrue tview).
Proof.
  induction os as [|o r IH]; cbn [run_ops]; [exact I|].
  apply Conc.safe_bind. eapply Conc.safe_weaken; [|apply safe_run_op].
  intros [|] l Hl; cbn in Hl; [subst l; apply IH|exact I].
Qed.

Lemma safe_thread ic fuel t os : safe t (thread_prog ic fuel os) v_idle (@Conc.QTrue tview).
Proof.
  unfold thread_prog. cbn [Conc.safe]. intros g a tr HI Hv. exists a. cbn [a_begin fst snd].
  split; [apply Inv_acc; exact HI|]. split; [apply frame_refl|]. rewrite Hv. apply safe_run_ops.
Qed.

Definition aux0 : Aux := mkAux [] [] (fun _ => v_idle).

Lemma init_ok ic fuel ths : Conc.cfg_ok view Inv (init_cfg ic fuel ths).
Proof.
  exists aux0. split.
  - constructor; unfold LL; try exact spec_init; cbn; try (intros; discriminate); try (intros; reflexivity).
    + constructor; [intros []|constructor].
    + auto.
    + intros n [<-|[]]. lia.
    + now exists [].
  - intros t p Hp. cbn [init_cfg Conc.threads] in Hp. rewrite nth_error_map in Hp.
    destruct (nth_error ths t); inversion Hp; subst. apply safe_thread.
Qed.

(** ** the theorems *)
Theorem rwq_lp_trace ic fuel ths c :
  Conc.reach (init_cfg ic fuel ths) c ->
  exists atr : list (aev Fifo), lp_valid Fifo atr /\ erase atr = hist (Conc.trace c).
Proof.
  intros Hr. destruct (Conc.reach_Inv (init_ok ic fuel ths) Hr) as (a & HI).
  destruct (spec_valid _ _ _ _ (I_spec _ _ _ HI)) as (atr & f & A & _ & C).
  exists atr. split; [|exact C]. eexists. exact A.
Qed.

Theorem rwqueue_linearizable ic fuel ths c :
  Conc.reach (init_cfg ic fuel ths) c -> linearizable Fifo (hist (Conc.trace c)).
Proof.
  intros Hr. destruct (rwq_lp_trace _ _ _ _ Hr) as (atr & Hv & <-).
  apply lp_valid_linearizable. exact Hv.
Qed.

(** mutual exclusion of the two spin locks, as established by the invariant: the threads that hold a
    lock know the guarded pointer, and at most one thread holds each lock *)
Theorem rwq_locks_exclusive ic fuel ths c :
  Conc.reach (init_cfg ic fuel ths) c ->
  exists a, (forall t t', t <> t' -> tv_tl (views a t) <> None -> tv_tl (views a t') = None) /\
            (forall t t', t <> t' -> tv_hd (views a t) <> None -> tv_hd (views a t') = None) /\
            (forall t p, tv_tl (views a t) = Some p -> tlock (Conc.shared c) = true /\ tptr (Conc.shared c) = p) /\
            (forall t p, tv_hd (views a t) = Some p -> hlock (Conc.shared c) = true /\ hptr (Conc.shared c) = p).
Proof.
  intros Hr. destruct (Conc.reach_Inv (init_ok ic fuel ths) Hr) as (a & HI).
  exists a. repeat split; try apply HI; eapply HI; eauto.
Qed.
