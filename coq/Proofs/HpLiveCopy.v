(** * C01, second sentence, for guards obtained by Guard::copy towards a HIGHER slot index (classic scan).

    [hp_copied_ptr_live]: thread t protects p in slot i (protect() returned: "protected i p" at v0), later copies slot i
    into slot j > i ("copy j i" at c0 ... "copied" at v1) without having released slot i in between; then p is not
    given to its disposer before t releases slot j -- for every program, every schedule, under the client discipline
    of [HpLive.client_discipline].  The source guard may be cleared or reassigned at any time after the copy returned.
    Proof: slot i holds p from protect's last store to the return of the copy, slot j holds p from the copy's store
    on; this is a [chain] (HpLiveCopyInv), no classic scan that began after protect's store disposes p ([j_safe]);
    a scan that began before it cannot hold p in its retired array (as in HpLive).
    [hp_copy_downward_refuted]: the same statement for j < i is false (computed schedule). *)
From Coq Require Import ZArith List String Bool Lia PeanoNat.
From LV Require Import Base.Conc Base.Events Model.Hp Proofs.HpTrace Proofs.HpInv Proofs.HpSteps Proofs.HpProofs Proofs.HpLive
  Proofs.HpLiveCopyInv Proofs.HpLiveCopySafe.
Import ListNotations.
Local Open Scope string_scope.
Local Open Scope list_scope.

(** ** statement *)
Definition copied_ptr_live_statement (ord : nat -> nat -> Prop) : Prop :=
  forall (c : cfgT) (ths : list (list op)) cf,
    cInplace c = false ->
    Conc.reach (Hp.init_cfg c ths) cf -> client_discipline (Conc.trace cf) ->
    forall v0 c0 v1 d t u i j p,
      v0 < c0 -> c0 < v1 -> v1 < d -> ord i j -> p <> 0%Z ->
      nth_error (Conc.trace cf) v0 = Some (t, EvCli "protected" [zn i; p]) ->
      nth_error (Conc.trace cf) c0 = Some (t, EvCli "copy" [zn j; zn i]) ->
      nth_error (Conc.trace cf) v1 = Some (t, EvCli "copied" []) ->
      (forall m e, c0 < m < v1 -> nth_error (Conc.trace cf) m = Some (t, e) -> is_opstart e = false) ->
      nth_error (Conc.trace cf) d = Some (u, ev_dispose p) ->
      exists m e, nth_error (Conc.trace cf) m = Some (t, e) /\
        ((v0 < m < v1 /\ releases i e) \/ (v1 < m < d /\ releases j e)).

(** ** an operation that is open after a response started after that response *)
Lemma open_after_resp (tr : trace) t lo hi j eR :
  nth_error tr lo = Some (t, eR) -> is_resp' eR = true -> is_opstart eR = false ->
  (forall m e, lo < m < hi -> nth_error tr m = Some (t, e) -> rel_b j e = false) ->
  forall n e0, lo < n <= hi -> open_op (firstn n tr) t = Some e0 -> rel_b j e0 = true -> False.
Proof.
  intros Hlo Hresp Hnop Hnorel n e0 Hn Ho Hrel. destruct (open_op_index _ _ _ Ho) as (i0 & H1 & Hop & H3).
  apply nth_error_firstn_some in H1. destruct H1 as (Hi0 & H1).
  destruct (Nat.lt_trichotomy i0 lo) as [Hlt|[->|Hgt]].
  - assert (E : is_resp' eR = false) by (apply (H3 lo); [exact Hlt|rewrite nth_error_firstn_lt by lia; exact Hlo]). congruence.
  - rewrite Hlo in H1. inversion H1; subst e0. congruence.
  - rewrite (Hnorel i0 e0) in Hrel; [discriminate|lia|exact H1].
Qed.

(** ** the discipline excludes a retire( p ) before the store of a protect() that validated p (tail of HpLive) *)
Lemma protect_store_not_after_retire (tr : trace) :
  TrOK tr ->
  (forall p, p <> 0%Z -> forall i i' u u' k k', nth_error tr i = Some (u, EvCli "publish" [k; p]) ->
     nth_error tr i' = Some (u', EvCli "publish" [k'; p]) -> i = i') ->
  (forall i u p, nth_error tr i = Some (u, EvCli "retire" [p]) ->
     (exists i0, i = S i0 /\ nth_error tr i0 = Some (u, EvCli "unlinked" [p])) \/
     (forall i' u' k, nth_error tr i' <> Some (u', EvCli "publish" [k; p]))) ->
  forall t w g0 k p rho u1, p <> 0%Z -> rho < g0 -> g0 < w ->
    nth_error tr rho = Some (u1, ev_retire p) -> nth_error tr w = Some (t, EvCli "g_ld" [zn k; p]) -> False.
Proof.
  intros Hok Hpub Hret t w g0 k p rho u1 Hp Hrho' Hgw Hrt Hw.
  destruct (Hok w t _ Hw) as (_ & _ & _ & _ & Hld & _). pose proof (Hld k p eq_refl) as Hsrc. symmetry in Hsrc.
  destruct (src_at_index _ _ _ Hsrc Hp) as (i2 & u3 & old2 & Hi2 & Hlast2).
  apply nth_error_firstn_some in Hi2. destruct Hi2 as (Hi2w & Hi2).
  destruct (Hok i2 u3 _ Hi2) as (_ & _ & _ & Hgs2 & _). destruct (Hgs2 k p old2 eq_refl) as (_ & Ho2).
  destruct (open_op_index _ _ _ Ho2) as (a2 & Ha2 & _ & Hnr2).
  apply nth_error_firstn_some in Ha2. destruct Ha2 as (Ha2lt & Ha2).
  destruct (Hret rho u1 p Hrt) as [(i0 & -> & Hunl)|Hnever]; [|exact (Hnever a2 u3 (zn k) Ha2)].
  destruct (Hok i0 u1 _ Hunl) as (_ & _ & _ & _ & _ & Hun & _).
  destruct (Hun p eq_refl) as (k2 & o2 & Hne & Hlast).
  assert (Hi0lt : i0 < List.length tr) by (apply nth_error_Some; congruence).
  unfold last_te in Hlast. rewrite firstn_length, Nat.min_l in Hlast by lia.
  assert (Hi0pos : 0 < i0).
  { destruct i0; [exfalso; apply Hne; reflexivity|lia]. }
  apply nth_error_firstn_some in Hlast. destruct Hlast as (_ & Hiu). set (iu := i0 - 1) in *.
  destruct (Hok iu u1 _ Hiu) as (_ & _ & _ & Hgsu & _). destruct (Hgsu k2 o2 p eq_refl) as (Hsrcu & _). symmetry in Hsrcu.
  destruct (src_at_index _ _ _ Hsrcu Hp) as (i1 & u2 & old1 & Hi1 & Hlast1).
  apply nth_error_firstn_some in Hi1. destruct Hi1 as (Hi1u & Hi1).
  destruct (Hok i1 u2 _ Hi1) as (_ & _ & _ & Hgs1 & _). destruct (Hgs1 k2 p old1 eq_refl) as (_ & Ho1).
  destruct (open_op_index _ _ _ Ho1) as (a1 & Ha1 & _ & Hnr1).
  apply nth_error_firstn_some in Ha1. destruct Ha1 as (Ha1lt & Ha1).
  assert (Ea : a1 = a2) by (eapply (Hpub p Hp); eauto). subst a2.
  rewrite Ha1 in Ha2. inversion Ha2 as [[Eu Ek]]. apply zn_inj in Ek. subst u3 k2.
  assert (Ei : i1 = i2).
  { destruct (Nat.lt_trichotomy i1 i2) as [H|[H|H]]; [exfalso|exact H|exfalso].
    - assert (E : is_resp' (EvCli "g_src" [zn k; p; old1]) = false).
      { apply (Hnr2 i1); [lia|]. rewrite nth_error_firstn_lt by lia. exact Hi1. }
      discriminate.
    - assert (E : is_resp' (EvCli "g_src" [zn k; p; old2]) = false).
      { apply (Hnr1 i2); [lia|]. rewrite nth_error_firstn_lt by lia. exact Hi2. }
      discriminate. }
  subst i2.
  assert (E : is_src_on k (snd (u1, EvCli "g_src" [zn k; o2; p])) = false).
  { apply (Hlast2 iu); [unfold iu; lia|]. rewrite nth_error_firstn_lt by (unfold iu; lia). exact Hiu. }
  cbn in E. rewrite Z.eqb_refl in E. discriminate.
Qed.

Lemma slot_at_firstn_firstn (tr : trace) x n r j : x <= n -> slot_at (firstn x (firstn n tr)) r j = slot_at (firstn x tr) r j.
Proof. intros H. rewrite firstn_firstn. now replace (Nat.min x n) with x by lia. Qed.

(** ** the theorem *)
Theorem hp_copied_ptr_live : copied_ptr_live_statement lt.
Proof.
  intros c ths cf Hcl Hr (Hro & Hpub & Hret & _) v0 c0 v1 d t u i j p Hv0c0 Hc0v1 Hv1d Hij Hp Hv0 Hc0 Hv1 Hnoop Hd.
  destruct (reach_inv2 c Hcl ths cf Hr) as (a1 & a2 & HI & HI2). pose proof (i_tr _ _ _ _ HI) as Hok.
  set (tr := Conc.trace cf) in *.
  assert (Hdlt : d < List.length tr) by (apply nth_error_Some; congruence).
  set (chk := fun m => match nth_error tr m with
                       | Some (t', e) => (Nat.eqb t' t && (((Nat.ltb v0 m) && (Nat.ltb m v1) && rel_b i e) || ((Nat.ltb v1 m) && (Nat.ltb m d) && rel_b j e)))%bool
                       | None => false end).
  destruct (existsb chk (seq 0 d)) eqn:Ef.
  { apply existsb_exists in Ef. destruct Ef as (m & Hin & Hm). apply in_seq in Hin. unfold chk in Hm.
    destruct (nth_error tr m) as [[t' e]|] eqn:Em; [|discriminate]. apply andb_true_iff in Hm. destruct Hm as (E1 & E2).
    apply Nat.eqb_eq in E1. subst t'. exists m, e. split; [exact Em|]. apply orb_true_iff in E2. destruct E2 as [E2|E2].
    - left. apply andb_true_iff in E2. destruct E2 as (E2 & E3). apply andb_true_iff in E2. destruct E2 as (E2 & E4).
      apply Nat.ltb_lt in E2, E4. split; [lia|now apply rel_b_releases].
    - right. apply andb_true_iff in E2. destruct E2 as (E2 & E3). apply andb_true_iff in E2. destruct E2 as (E2 & E4).
      apply Nat.ltb_lt in E2, E4. split; [lia|now apply rel_b_releases]. }
  exfalso.
  assert (Hchk : forall m e, m < d -> nth_error tr m = Some (t, e) ->
            ((Nat.ltb v0 m) && (Nat.ltb m v1) && rel_b i e || (Nat.ltb v1 m) && (Nat.ltb m d) && rel_b j e)%bool = false).
  { intros m e Hm Hn. match goal with |- ?b = false => destruct b eqn:E; [|reflexivity] end. exfalso.
    rewrite <- not_true_iff_false in Ef. apply Ef. apply existsb_exists. exists m. split; [apply in_seq; lia|].
    unfold chk. rewrite Hn. now rewrite Nat.eqb_refl, E. }
  assert (Hnorel_i : forall m e, v0 < m < v1 -> nth_error tr m = Some (t, e) -> rel_b i e = false).
  { intros m e Hm Hn. pose proof (Hchk m e ltac:(lia) Hn) as E. apply orb_false_iff in E. destruct E as (E & _).
    destruct (Nat.ltb_spec v0 m); [|lia]. destruct (Nat.ltb_spec m v1); [|lia]. exact E. }
  assert (Hnorel_j : forall m e, v1 < m < d -> nth_error tr m = Some (t, e) -> rel_b j e = false).
  { intros m e Hm Hn. pose proof (Hchk m e ltac:(lia) Hn) as E. apply orb_false_iff in E. destruct E as (_ & E).
    destruct (Nat.ltb_spec v1 m); [|lia]. destruct (Nat.ltb_spec m d); [|lia]. exact E. }
  (* what "protected" says *)
  destruct (Hok v0 t _ Hv0) as (_ & _ & _ & _ & _ & _ & Hprot & _).
  destruct (Hprot i p eq_refl) as (r & k & g0 & Hg0 & Hall & w0 & Hgw & Hw).
  apply nth_error_firstn_some in Hg0. destruct Hg0 as (Hg0v & Hg0).
  apply nth_error_firstn_some in Hw. destruct Hw as (Hwv & Hw).
  assert (Hall' : forall m e, g0 < m < v0 -> nth_error tr m = Some (t, e) -> pat_ok e = true).
  { intros m e Hm Hn. apply (Hall m e); [lia|]. rewrite nth_error_firstn_lt by lia. exact Hn. }
  pose proof (open_after_resp tr t v0 v1 i _ Hv0 eq_refl eq_refl Hnorel_i) as Hopen_i.
  pose proof (open_after_resp tr t v1 d j _ Hv1 eq_refl eq_refl Hnorel_j) as Hopen_j.
  assert (Hopen_det : forall n, v0 < n <= d -> open_op (firstn n tr) t = Some (EvCli "detach" []) -> False).
  { intros n Hn Ho. destruct (Nat.le_gt_cases n v1) as [H|H].
    - apply (Hopen_i n _ ltac:(lia) Ho). reflexivity.
    - apply (Hopen_j n _ ltac:(lia) Ho). reflexivity. }
  (* t stays attached to r from g0 to d *)
  assert (HA : forall m, g0 + m <= d -> att_at (firstn (g0 + m) tr) t = Some r).
  { destruct (Hok g0 t _ Hg0) as (Hslot & _). destruct (Hslot r i p eq_refl) as (Hatt0 & _).
    induction m as [|m IHm]; intros Hm; [now rewrite Nat.add_0_r|].
    rewrite Nat.add_succ_r. specialize (IHm ltac:(lia)).
    destruct (nth_error tr (g0 + m)) as [[u' e]|] eqn:En; [|apply nth_error_None in En; lia].
    rewrite (att_at_S tr (g0 + m) _ t En). unfold att_step. cbn [fst snd].
    destruct (Nat.eqb_spec u' t) as [->|Hne]; [|exact IHm].
    destruct (att_upd_cases e (att_at (firstn (g0 + m) tr) t)) as [E|[(z & -> & E)|(z & -> & E)]]; [now rewrite E| |]; exfalso.
    - destruct (ev_ok_att_wf _ _ _ (Hok _ t _ En)) as (r' & ->).
      destruct (Hok _ t _ En) as (_ & _ & Hatt & _). destruct (Hatt r' eq_refl) as (Hnone & _). congruence.
    - destruct (Nat.eq_dec m 0) as [->|Hm0]; [rewrite Nat.add_0_r in En; rewrite Hg0 in En; discriminate|].
      destruct (Nat.lt_ge_cases (g0 + m) v0) as [H1|H1].
      + assert (Hp1 : pat_ok (EvCli "g_det" [z]) = true) by (apply (Hall' (g0 + m)); [lia|exact En]). discriminate.
      + destruct (Nat.eq_dec (g0 + m) v0) as [E1|E1]; [rewrite E1, Hv0 in En; discriminate|].
        destruct (Hok _ t _ En) as (_ & Hdet & _). apply (Hopen_det (g0 + m)); [lia|now apply (Hdet z)]. }
  assert (HA' : forall n, g0 <= n <= d -> att_at (firstn n tr) t = Some r).
  { intros n Hn. replace n with (g0 + (n - g0)) by lia. apply HA. lia. }
  (* a store into a slot of r between g0 and d is a store of t inside an operation on that slot *)
  assert (Hstore : forall m u' jj x, g0 < m <= d -> nth_error tr m = Some (u', ev_slot r jj x) ->
            u' = t /\ exists e0, open_op (firstn m tr) t = Some e0 /\ rel_b jj e0 = true).
  { intros m u' jj x Hm Hn. destruct (Hok m u' _ Hn) as (Hsl & _). destruct (Hsl r jj x eq_refl) as (Hatt & e0 & Ho & Hrel).
    assert (u' = t) by (eapply (att_excl tr Hok m); [lia|exact Hatt|apply HA'; lia]). subst u'. split; [reflexivity|eauto]. }
  (* nothing is stored into slot (r,i) after g0 up to v1 *)
  assert (HBi : forall m te, S g0 <= m < S v1 -> nth_error tr m = Some te -> slot_write r i (snd te) = false).
  { intros m [u' e] Hm Hn. cbn [snd]. destruct (slot_write r i e) eqn:Esw; [exfalso|reflexivity].
    destruct (slot_write_form _ _ _ Esw) as (x & ->).
    destruct (Hstore m u' i x ltac:(lia) Hn) as (-> & e0 & Ho & Hrel).
    destruct (Nat.lt_ge_cases m v0) as [H1|H1].
    - assert (Hp1 : pat_ok (ev_slot r i x) = true) by (apply (Hall' m); [lia|exact Hn]). discriminate.
    - destruct (Nat.eq_dec m v0) as [->|E1]; [rewrite Hv0 in Hn; discriminate|].
      apply (Hopen_i m e0); [lia|exact Ho|exact Hrel]. }
  assert (Hg0lt : g0 < List.length tr) by (apply nth_error_Some; congruence).
  assert (Hheld_i : held (firstn (S v1) tr) (S g0) r i p).
  { apply (held_extend tr (S g0) r i p (S g0) (S v1)); [|lia|lia|lia|exact HBi].
    intros x Hx. rewrite firstn_length in Hx. assert (x = S g0) by lia. subst x.
    rewrite firstn_firstn, Nat.min_id. rewrite (slot_at_firstn_S tr g0 _ r i Hg0). cbn. now rewrite !Z.eqb_refl. }
  assert (Hi_at : forall x, S g0 <= x <= S v1 -> slot_at (firstn x tr) r i = p).
  { intros x Hx. specialize (Hheld_i x). rewrite firstn_length in Hheld_i. rewrite slot_at_firstn_firstn in Hheld_i by lia.
    apply Hheld_i. lia. }
  (* what "copied" says *)
  destruct (j_copied _ _ _ _ HI2 v1 t Hv1) as (c0' & j' & i' & r' & ld & x & w & Hcp). cbn [cp_ok] in Hcp.
  destruct Hcp as (K1 & K2 & K3 & K4 & K5 & K6 & K7).
  apply nth_error_firstn_some in K1. destruct K1 as (K1v & K1).
  apply nth_error_firstn_some in K4. destruct K4 as (K4v & K4).
  apply nth_error_firstn_some in K6. destruct K6 as (K6v & K6).
  assert (K7' : forall m e, c0' < m < v1 -> nth_error tr m = Some (t, e) -> m <> w -> cp_inert e = true).
  { intros m e Hm Hn Hmw. apply (K7 m e); [lia| |exact Hmw]. rewrite nth_error_firstn_lt by lia. exact Hn. }
  assert (Ec0 : c0' = c0).
  { destruct (Nat.lt_trichotomy c0' c0) as [H|[H|H]]; [exfalso|exact H|exfalso].
    - destruct (Nat.eq_dec c0 w) as [E|E]; [subst w; rewrite Hc0 in K6; discriminate|].
      pose proof (K7' c0 _ ltac:(lia) Hc0 E) as E2. discriminate.
    - pose proof (Hnoop c0' _ ltac:(lia) K1) as E2. discriminate. }
  subst c0'. rewrite Hc0 in K1. inversion K1 as [[Ej Ei]]. apply zn_inj in Ej, Ei. subst j' i'.
  assert (Er : r' = r).
  { destruct (Hok w t _ K6) as (Hsl & _). destruct (Hsl r' j x eq_refl) as (Hatt & _).
    rewrite (HA' w ltac:(lia)) in Hatt. now inversion Hatt. }
  subst r'. rewrite slot_at_firstn_firstn in K5 by lia. rewrite (Hi_at ld ltac:(lia)) in K5. subst x.
  (* nothing is stored into slot (r,j) after w up to d *)
  assert (HBj : forall m te, S w <= m < S d -> nth_error tr m = Some te -> slot_write r j (snd te) = false).
  { intros m [u' e] Hm Hn. cbn [snd]. destruct (slot_write r j e) eqn:Esw; [exfalso|reflexivity].
    destruct (slot_write_form _ _ _ Esw) as (x & ->).
    destruct (Hstore m u' j x ltac:(lia) Hn) as (-> & e0 & Ho & Hrel).
    destruct (Nat.lt_ge_cases m v1) as [H1|H1].
    - pose proof (K7' m _ ltac:(lia) Hn ltac:(lia)) as E2. discriminate.
    - destruct (Nat.eq_dec m v1) as [->|E1]; [rewrite Hv1 in Hn; discriminate|].
      apply (Hopen_j m e0); [lia|exact Ho|exact Hrel]. }
  assert (Hwlt : w < List.length tr) by lia.
  assert (Hheld_j : held (firstn (S d) tr) (S w) r j p).
  { apply (held_extend tr (S w) r j p (S w) (S d)); [|lia|lia|lia|exact HBj].
    intros y Hy. rewrite firstn_length in Hy. assert (y = S w) by lia. subst y.
    rewrite firstn_firstn, Nat.min_id. rewrite (slot_at_firstn_S tr w _ r j K6). cbn. now rewrite !Z.eqb_refl. }
  (* the chain: slot i up to w, slot j afterwards *)
  assert (Hchain : chain (firstn (S d) tr) (S g0) r p).
  { exists (fun y => if Nat.leb y w then i else j). split.
    - intros y Hy. rewrite firstn_length in Hy. destruct (Nat.leb_spec y w) as [Hle|Hgt].
      + rewrite slot_at_firstn_firstn by lia. apply Hi_at. lia.
      + apply Hheld_j. rewrite firstn_length. lia.
    - intros y y' Ha Hb Hc. destruct (Nat.leb_spec y w); destruct (Nat.leb_spec y' w); lia. }
  (* the scan that disposed p began before protect's store ... *)
  destruct (hp_dispose_after_retire c ths cf Hr d u p Hd) as (s & Hs & rho & u1 & Hrho & Hrt). fold tr in Hs, Hrt.
  destruct (Nat.le_gt_cases (S g0) s) as [Hle|Hgt].
  { apply (j_safe _ _ _ _ HI2 d u p s Hd Hs Hp r). eapply chain_weaken; [exact Hle|exact Hchain]. }
  (* ... so retire( p ) precedes that store, which the discipline excludes *)
  assert (Hrho' : rho < g0).
  { destruct (Nat.eq_dec rho g0) as [->|Hne]; [rewrite Hg0 in Hrt; discriminate|lia]. }
  exact (protect_store_not_after_retire tr Hok Hpub Hret t w0 g0 k p rho u1 Hp Hrho' Hgw Hrt Hw).
Qed.

(** ** the single-guard theorem again, now as a corollary of the chain invariant (classic scan): a constant chain *)
Corollary hp_no_dispose_while_chained c ths cf :
  cInplace c = false -> Conc.reach (init_cfg c ths) cf ->
  forall d t p s, nth_error (Conc.trace cf) d = Some (t, ev_dispose p) ->
    last_sb (firstn d (Conc.trace cf)) t = Some s -> p <> 0%Z ->
    forall r, ~ chain (firstn (S d) (Conc.trace cf)) s r p.
Proof. intros Hcl Hr. destruct (reach_inv2 c Hcl ths cf Hr) as (a1 & a2 & _ & HI2). exact (j_safe _ _ _ _ HI2). Qed.
