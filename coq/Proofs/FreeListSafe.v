(** * FreeList: the proof rule [Conc.safe] for every program of LV.Model.FreeList, the initial
      configuration, and the theorems for every schedule. *)
From Coq Require Import ZArith List String Bool Lia PeanoNat.
From LV Require Import Base.Conc Base.Events Model.FreeList Proofs.FreeListBase Proofs.FreeListInv Proofs.FreeListSteps.
Import ListNotations.
Local Open Scope Z_scope.
Local Open Scope string_scope.

Section Safe.
  Variable N : nat.
  Hypothesis HN : Z.of_nat N + 1 < FLAG.
  Variable valid0 : nat -> bool.
  Hypothesis Hv0 : valid0 O = false.
  Variable own0 : omap.
  Variable NR : nat.      (* threads 0..NR-1 are client threads; NR..N-1 are idle place holders (cache slots of
                             CachedFreeList) whose held list is not client ownership *)
  Hypothesis HNR : (NR <= N)%nat.

  Notation InvS := (InvS N valid0).

  Definition view (a : Aux) (t : nat) : list nat * phase := (hl a t, ph a t).

  (** the trace part of the invariant: the ownership monitor has not fired and its map is exactly the
      held lists; a thread is inside an operation iff its phase is not [Idle] *)
  Definition InvT (a : Aux) (tr : list (nat * ev)) : Prop :=
    mon_run own0 tr = Some (own a) /\
    (forall n t, own a n = Some t <-> (t < NR)%nat /\ In n (hl a t)) /\
    (forall t, opens t tr = if is_idle (ph a t) then 0 else 1).

  Definition Inv (g : G) (a : Aux) (tr : list (nat * ev)) : Prop := InvS g a /\ InvT a tr.

  Notation safe := (@Conc.safe G V ev Aux (list nat * phase) view Inv).

  Lemma InvT_acc a a' tr t k o ok :
    InvT a tr -> (forall t', hl a' t' = hl a t') -> own a' = own a ->
    (forall t', is_idle (ph a' t') = is_idle (ph a t')) ->
    InvT a' (tr ++ Conc.tag t [EvAcc k o ok]).
  Proof.
    intros (T1 & T2 & T3) Hh Ho Hi. split; [|split].
    - rewrite mon_run_app, T1, Ho. reflexivity.
    - intros n t'. rewrite Ho, Hh. apply T2.
    - intros t'. rewrite opens_app, Hi, T3. cbn. destruct (Nat.eqb t t'); lia.
  Qed.

  Lemma hl_step_same a n s l t p o t' : hl (step_aux a n s l t p (hl a t) o) t' = hl a t'.
  Proof. cbn. unfold upd. destruct (Nat.eqb_spec t' t); congruence. Qed.

  Lemma idle_upd a t p t' : is_idle p = is_idle (ph a t) -> is_idle (upd (ph a) t p t') = is_idle (ph a t').
  Proof. intros H. unfold upd. destruct (Nat.eqb_spec t' t); [subst; exact H|reflexivity]. Qed.

  Lemma frame_step a n s l t p H o : Conc.frame view t a (step_aux a n s l t p H o).
  Proof. intros t' Hne. unfold view. cbn. now rewrite !upd_other. Qed.

  Lemma view_step a n s l t p H o : view (step_aux a n s l t p H o) t = (H, p).
  Proof. unfold view. cbn. now rewrite !upd_same. Qed.

  Lemma frame_refl a t : Conc.frame view t a a.
  Proof. intros ? ?; reflexivity. Qed.

  (** an [InvT] step for an access that keeps the held lists and idleness *)
  Lemma InvT_step a n s l t p tr k o ok :
    InvT a tr -> is_idle p = is_idle (ph a t) ->
    InvT (step_aux a n s l t p (hl a t) (own a)) (tr ++ Conc.tag t [EvAcc k o ok]).
  Proof.
    intros HT Hi. eapply InvT_acc; eauto.
    - intros t'. apply hl_step_same.
    - intros t'. cbn [ph step_aux]. apply idle_upd. exact Hi.
  Qed.

  (** ** rules for the individual accesses *)

  (** accesses that change nothing the invariant sees *)
  Lemma rule_read t (f : act) l R (k : V -> prog R) Q :
    (forall g, fst (fst (f g)) = g /\ exists kd o ok, snd (f g) = [EvAcc kd o ok]) ->
    (forall v, safe t (k v) l Q) -> safe t (Act f k) l Q.
  Proof.
    intros Hf Hk. cbn [Conc.safe]. intros g a tr [HS HT] Hv.
    destruct (Hf g) as (E1 & kd & o & ok & E2). rewrite E1, E2.
    exists a. split; [|split; [apply frame_refl|rewrite Hv; apply Hk]].
    split; [exact HS|]. eapply InvT_acc; eauto.
  Qed.

  Lemma rule_ld_head t l R (k : V -> prog R) Q :
    (forall v, safe t (k v) l Q) -> safe t (Act a_ld_head k) l Q.
  Proof. apply rule_read. intros g. split; [reflexivity|]. repeat eexists. Qed.

  Lemma rule_ld_refs t n l R (k : V -> prog R) Q :
    (forall v, safe t (k v) l Q) -> safe t (Act (a_ld_refs n) k) l Q.
  Proof. apply rule_read. intros g. split; [reflexivity|]. repeat eexists. Qed.

  Lemma rule_begin t l R (k : V -> prog R) Q :
    (forall v, safe t (k v) l Q) -> safe t (Act a_begin k) l Q.
  Proof. apply rule_read. intros g. split; [reflexivity|]. repeat eexists. Qed.

  Ltac open_act g a tr HS HT Hv Hh Hp :=
    cbn [Conc.safe]; intros g a tr [HS HT] Hv; unfold view in Hv; injection Hv as Hh Hp.

  Lemma rule_cas_refs t H h r R (k : V -> prog R) Q :
    r mod FLAG <> 0 ->
    (forall w, w <> r -> safe t (k (O, w)) (H, Busy) Q) ->
    safe t (k (O, r)) (H, GRef h) Q ->
    safe t (Act (a_cas_refs h r (u32 (r + 1))) k) (H, Busy) Q.
  Proof.
    intros Hm Kf Ks. open_act g a tr HS HT Hv Hh Hp.
    unfold a_cas_refs. destruct (Z.eqb_spec (refs g h) r) as [E|E]; cbn [fst snd].
    - exists (aux_set a h (st a h) t (GRef h)). split; [split|split].
      + apply (step_cas_refs N HN valid0); auto.
      + apply InvT_step; auto. rewrite Hp; reflexivity.
      + apply frame_step.
      + unfold aux_set. rewrite view_step, Hh, E. exact Ks.
    - exists a. split; [split; [exact HS|eapply InvT_acc; eauto]|split; [apply frame_refl|]].
      unfold view. rewrite Hh, Hp. apply Kf. exact E.
  Qed.

  Lemma rule_ld_next t H h R (k : V -> prog R) Q :
    (forall x, safe t (k (x, 0)) (H, GNext h x) Q) ->
    safe t (Act (a_ld_next h) k) (H, GRef h) Q.
  Proof.
    intros Ks. open_act g a tr HS HT Hv Hh Hp. unfold a_ld_next. cbn [fst snd].
    exists (aux_set a h (st a h) t (GNext h (next g h))). split; [split|split].
    - apply (step_ld_next N valid0); auto.
    - apply InvT_step; auto. rewrite Hp; reflexivity.
    - apply frame_step.
    - unfold aux_set. rewrite view_step, Hh. apply Ks.
  Qed.

  Lemma rule_cas_head_get t H h x R (k : V -> prog R) Q :
    h <> O ->
    safe t (k (h, 0)) (H, GTook h) Q ->
    (forall c, c <> h -> safe t (k (c, 0)) (H, GFail h) Q) ->
    safe t (Act (a_cas_head h x) k) (H, GNext h x) Q.
  Proof.
    intros Hnz Ks Kf. open_act g a tr HS HT Hv Hh Hp.
    unfold a_cas_head. destruct (Nat.eqb_spec (head g) h) as [E|E]; cbn [fst snd].
    - exists (step_aux a h (Taking t) (tl (lst a)) t (GTook h) (hl a t) (own a)). split; [split|split].
      + apply (step_cas_head_get_ok N valid0); auto.
      + apply InvT_step; auto. rewrite Hp; reflexivity.
      + apply frame_step.
      + rewrite view_step, Hh, E. exact Ks.
    - exists (aux_set a h (st a h) t (GFail h)). split; [split|split].
      + eapply (step_cas_head_get_fail N valid0); eauto.
      + apply InvT_step; auto. rewrite Hp; reflexivity.
      + apply frame_step.
      + unfold aux_set. rewrite view_step, Hh. apply Kf. exact E.
  Qed.

  Lemma rule_fas2 t H h R (k : V -> prog R) Q :
    (forall v, safe t (k v) (H, PRet h) Q) ->
    safe t (Act (a_fas_refs h 2) k) (H, GTook h) Q.
  Proof.
    intros Ks. open_act g a tr HS HT Hv Hh Hp. unfold a_fas_refs. cbn [fst snd].
    exists (aux_set a h (Held t) t (PRet h)). split; [split|split].
    - apply (step_fas2 N HN valid0); auto.
    - apply InvT_step; auto. rewrite Hp; reflexivity.
    - apply frame_step.
    - unfold aux_set. rewrite view_step, Hh. apply Ks.
  Qed.

  Lemma rule_fas1 t H h R (k : V -> prog R) Q :
    safe t (k (O, FLAG + 1)) (H, AStart h) Q ->
    (forall w, w <> FLAG + 1 -> safe t (k (O, w)) (H, Busy) Q) ->
    safe t (Act (a_fas_refs h 1) k) (H, GFail h) Q.
  Proof.
    intros Ka Kr. open_act g a tr HS HT Hv Hh Hp. unfold a_fas_refs. cbn [fst snd].
    destruct (Z.eq_dec (refs g h) (FLAG + 1)) as [E|E].
    - exists (aux_set a h (Adding t) t (AStart h)). split; [split|split].
      + apply (step_fas1_readd N HN valid0); auto.
      + apply InvT_step; auto. rewrite Hp; reflexivity.
      + apply frame_step.
      + unfold aux_set. rewrite view_step, Hh, E. exact Ka.
    - exists (aux_set a h (st a h) t Busy). split; [split|split].
      + apply (step_fas1_release N HN valid0); auto.
      + apply InvT_step; auto. rewrite Hp; reflexivity.
      + apply frame_step.
      + unfold aux_set. rewrite view_step, Hh. apply Kr. exact E.
  Qed.

  Lemma rule_put_faa t H n R (k : V -> prog R) Q :
    safe t (k (O, 0)) (H, AStart n) Q ->
    (forall w, w <> 0 -> safe t (k (O, w)) (H, Busy) Q) ->
    safe t (Act (a_faa_refs n FLAG) k) (H, PPut n) Q.
  Proof.
    intros Ka Kr. open_act g a tr HS HT Hv Hh Hp. unfold a_faa_refs. cbn [fst snd].
    destruct (Z.eq_dec (refs g n) 0) as [E|E].
    - exists (aux_set a n (Adding t) t (AStart n)). split; [split|split].
      + apply (step_put_add N HN valid0); auto.
      + apply InvT_step; auto. rewrite Hp; reflexivity.
      + apply frame_step.
      + unfold aux_set. rewrite view_step, Hh, E. exact Ka.
    - exists (aux_set a n Pending t Busy). split; [split|split].
      + apply (step_put_pending N HN valid0); auto.
      + apply InvT_step; auto. rewrite Hp; reflexivity.
      + apply frame_step.
      + unfold aux_set. rewrite view_step, Hh. apply Kr. exact E.
  Qed.

  Lemma rule_st_next t H n h R (k : V -> prog R) Q :
    (forall v, safe t (k v) (H, ANxt n h) Q) ->
    safe t (Act (a_st_next n h) k) (H, AStart n) Q.
  Proof.
    intros Ks. open_act g a tr HS HT Hv Hh Hp. unfold a_st_next. cbn [fst snd].
    exists (aux_set a n (st a n) t (ANxt n h)). split; [split|split].
    - apply (step_st_next N valid0); auto.
    - apply InvT_step; auto. rewrite Hp; reflexivity.
    - apply frame_step.
    - unfold aux_set. rewrite view_step, Hh. apply Ks.
  Qed.

  Lemma rule_st_refs t H n h R (k : V -> prog R) Q :
    (forall v, safe t (k v) (H, APub n h) Q) ->
    safe t (Act (a_st_refs n 1) k) (H, ANxt n h) Q.
  Proof.
    intros Ks. open_act g a tr HS HT Hv Hh Hp. unfold a_st_refs. cbn [fst snd].
    exists (aux_set a n (Publ t) t (APub n h)). split; [split|split].
    - apply (step_st_refs N valid0); auto.
    - apply InvT_step; auto. rewrite Hp; reflexivity.
    - apply frame_step.
    - unfold aux_set. rewrite view_step, Hh. apply Ks.
  Qed.

  Lemma rule_cas_head_add t H n h R (k : V -> prog R) Q :
    safe t (k (h, 0)) (H, Busy) Q ->
    (forall c, c <> h -> safe t (k (c, 0)) (H, AFail n) Q) ->
    safe t (Act (a_cas_head h n) k) (H, APub n h) Q.
  Proof.
    intros Ks Kf. open_act g a tr HS HT Hv Hh Hp.
    unfold a_cas_head. destruct (Nat.eqb_spec (head g) h) as [E|E]; cbn [fst snd].
    - exists (step_aux a n OnList (n :: lst a) t Busy (hl a t) (own a)). split; [split|split].
      + eapply (step_cas_head_add_ok N valid0 Hv0); eauto.
      + apply InvT_step; auto. rewrite Hp; reflexivity.
      + apply frame_step.
      + rewrite view_step, Hh, E. exact Ks.
    - exists (aux_set a n (st a n) t (AFail n)). split; [split|split].
      + eapply (step_cas_head_add_fail N valid0); eauto.
      + apply InvT_step; auto. rewrite Hp; reflexivity.
      + apply frame_step.
      + unfold aux_set. rewrite view_step, Hh. apply Kf. exact E.
  Qed.

  Lemma rule_add_faa t H n R (k : V -> prog R) Q :
    safe t (k (O, 1)) (H, AStart n) Q ->
    (forall w, w <> 1 -> safe t (k (O, w)) (H, Busy) Q) ->
    safe t (Act (a_faa_refs n (FLAG - 1)) k) (H, AFail n) Q.
  Proof.
    intros Ka Kr. open_act g a tr HS HT Hv Hh Hp. unfold a_faa_refs. cbn [fst snd].
    destruct (Z.eq_dec (refs g n) 1) as [E|E].
    - exists (aux_set a n (Adding t) t (AStart n)). split; [split|split].
      + apply (step_add_faa_retry N HN valid0); auto.
      + apply InvT_step; auto. rewrite Hp; reflexivity.
      + apply frame_step.
      + unfold aux_set. rewrite view_step, Hh, E. exact Ka.
    - exists (aux_set a n Pending t Busy). split; [split|split].
      + apply (step_add_faa_pending N HN valid0); auto.
      + apply InvT_step; auto. rewrite Hp; reflexivity.
      + apply frame_step.
      + unfold aux_set. rewrite view_step, Hh. apply Kr. exact E.
  Qed.

  (** ** rules for the client events *)
  Lemma InvT_emit a a' tr t e :
    InvT a tr -> mon_ev (own a) t e = Some (own a') ->
    (forall n t', own a' n = Some t' <-> (t' < NR)%nat /\ In n (hl a' t')) ->
    (forall t', (if is_idle (ph a t') then 0 else 1) + (if Nat.eqb t t' then ev_open e else 0)
                = if is_idle (ph a' t') then 0 else 1) ->
    InvT a' (tr ++ Conc.tag t [e]).
  Proof.
    intros (T1 & T2 & T3) Hm Ho Hop. split; [|split].
    - rewrite mon_run_app, T1. cbn. exact Hm.
    - exact Ho.
    - intros t'. rewrite opens_app, T3, <- Hop. cbn. lia.
  Qed.

  (** events that change neither ownership nor held lists: only the idle flag of [t] *)
  Lemma rule_emit_plain t H p p' e R (k : prog R) Q :
    (t < N)%nat -> node_of p = None -> node_of p' = None ->
    (forall o, mon_ev o t e = Some o) ->
    (if is_idle p then 0 else 1) + ev_open e = (if is_idle p' then 0 else 1) ->
    safe t k (H, p') Q -> safe t (Emit [e] k) (H, p) Q.
  Proof.
    intros Ht Hn Hn' Hm Hop Ks. cbn [Conc.safe]. intros g a tr [HS HT] Hv. unfold view in Hv. injection Hv as Hh Hp.
    exists (aux_set a O (st a O) t p'). split; [split|split].
    - apply (step_phase_only N valid0 Hv0); auto. rewrite Hp; exact Hn.
    - eapply InvT_emit; eauto.
      + destruct HT as (_ & T2 & _). intros n t'. unfold aux_set. rewrite hl_step_same. apply T2.
      + intros t'. cbn [ph aux_set step_aux]. unfold upd. destruct (Nat.eqb_spec t' t) as [->|Hne].
        * rewrite Nat.eqb_refl, Hp. exact Hop.
        * destruct (Nat.eqb_spec t t'); [congruence|lia].
    - apply frame_step.
    - unfold aux_set. rewrite view_step, Hh. exact Ks.
  Qed.

  Lemma rule_emit_inv_get t H R (k : prog R) Q :
    (t < N)%nat -> safe t k (H, Busy) Q -> safe t (Emit [EvCli "inv_get" []] k) (H, Idle) Q.
  Proof. intros Ht. apply rule_emit_plain; auto. Qed.

  Lemma rule_emit_ret_null t H R (k : prog R) Q :
    (t < N)%nat -> safe t k (H, Idle) Q -> safe t (Emit [EvCli "ret_get" [-1]] k) (H, Busy) Q.
  Proof. intros Ht. apply rule_emit_plain; auto. Qed.

  Lemma rule_emit_ret_put t H R (k : prog R) Q :
    (t < N)%nat -> safe t k (H, Idle) Q -> safe t (Emit [EvCli "ret_put" []] k) (H, Busy) Q.
  Proof. intros Ht. apply rule_emit_plain; auto. Qed.

  Lemma rule_emit_skip t H R (k : prog R) Q :
    (t < N)%nat -> safe t k (H, Idle) Q -> safe t (Emit [EvCli "skip" []] k) (H, Idle) Q.
  Proof. intros Ht. apply rule_emit_plain; auto. Qed.

  (** out of fuel: the thread stops where it is *)
  Lemma rule_emit_oof t l : safe t (Emit [EvCli "outoffuel" []] (Ret tt)) l (@Conc.QTrue _).
  Proof.
    cbn [Conc.safe]. intros g a tr [HS HT] Hv. exists a. split; [split; [exact HS|]|split; [apply frame_refl|exact I]].
    eapply InvT_emit; eauto.
    - apply HT.
    - intros t'. cbn. destruct (Nat.eqb t t'); lia.
  Qed.

  Lemma rule_emit_ret_get t H n R (k : prog R) Q :
    (t < NR)%nat ->
    safe t k ((H ++ [n])%list, Idle) Q -> safe t (Emit [EvCli "ret_get" (zn n)] k) (H, PRet n) Q.
  Proof.
    intros HtR Ks. cbn [Conc.safe]. intros g a tr [HS HT] Hv. unfold view in Hv. injection Hv as Hh Hp.
    pose proof (S_ph HS t) as Hx. rewrite Hp in Hx. cbn in Hx. destruct Hx as [Hst Hnin].
    destruct HT as (T1 & T2 & T3).
    assert (Hown : own a n = None).
    { destruct (own a n) as [t'|] eqn:E; [|reflexivity]. apply T2 in E. destruct E as [_ E]. pose proof (S_held HS t' n E) as E'.
      rewrite Hst in E'. injection E' as <-. contradiction. }
    exists (step_aux a n (Held t) (lst a) t Idle (hl a t ++ [n])%list (upd (own a) n (Some t))). split; [split|split].
    - apply (step_ret_get N valid0); auto.
    - eapply InvT_emit; [split; [exact T1|split; [exact T2|exact T3]]| | |].
      + unfold zn. cbn. assert ((Z.of_nat n <? 0)%Z = false) as -> by (apply Z.ltb_ge; lia). rewrite Nat2Z.id, Hown. reflexivity.
      + intros m t'. cbn [own hl step_aux]. unfold upd.
        destruct (Nat.eqb_spec m n) as [->|Hm]; destruct (Nat.eqb_spec t' t) as [->|Ht'].
        * split; [intros _; split; [exact HtR|apply in_or_app; right; left; reflexivity]|reflexivity].
        * split; [congruence|]. intros [_ Hin]. apply (S_held HS) in Hin. congruence.
        * rewrite T2, in_app_iff. cbn. split; [tauto|]. intros [Hl [E|[E|[]]]]; [tauto|congruence].
        * apply T2.
      + intros t'. cbn [ph step_aux]. unfold upd. destruct (Nat.eqb_spec t' t) as [->|Hne].
        * rewrite Nat.eqb_refl, Hp. reflexivity.
        * destruct (Nat.eqb_spec t t'); [congruence|lia].
    - apply frame_step.
    - rewrite view_step, Hh. exact Ks.
  Qed.

  Lemma rule_emit_inv_put t H i n R (k : prog R) Q :
    (t < N)%nat -> (t < NR)%nat -> nth_error H i = Some n ->
    safe t k (remove_nth i H, PPut n) Q -> safe t (Emit [EvCli "inv_put" (zn n)] k) (H, Idle) Q.
  Proof.
    intros Ht HtR Hi Ks. cbn [Conc.safe]. intros g a tr [HS HT] Hv. unfold view in Hv. injection Hv as Hh Hp.
    rewrite <- Hh in Hi.
    assert (Hin : In n (hl a t)) by (eapply nth_error_In; eauto).
    pose proof (S_held HS t n Hin) as Hst.
    destruct (remove_nth_spec (hl a t) i n Hi (S_hnd HS t)) as (R1 & R2 & R3).
    destruct HT as (T1 & T2 & T3).
    assert (Hown : own a n = Some t) by (apply T2; split; [exact HtR|exact Hin]).
    exists (step_aux a n (Held t) (lst a) t (PPut n) (remove_nth i (hl a t)) (upd (own a) n None)). split; [split|split].
    - apply (step_inv_put N valid0); auto.
    - eapply InvT_emit; [split; [exact T1|split; [exact T2|exact T3]]| | |].
      + unfold zn. cbn. rewrite Nat2Z.id, Hown, Nat.eqb_refl. reflexivity.
      + intros m t'. cbn [own hl step_aux]. unfold upd.
        destruct (Nat.eqb_spec m n) as [->|Hm]; destruct (Nat.eqb_spec t' t) as [->|Ht'].
        * split; [discriminate|]. intros [_ Hc]. contradiction.
        * split; [discriminate|]. intros [_ Hin']. apply (S_held HS) in Hin'. congruence.
        * rewrite T2. rewrite (R3 m Hm). tauto.
        * apply T2.
      + intros t'. cbn [ph step_aux]. unfold upd. destruct (Nat.eqb_spec t' t) as [->|Hne].
        * rewrite Nat.eqb_refl, Hp. reflexivity.
        * destruct (Nat.eqb_spec t t'); [congruence|lia].
    - apply frame_step.
    - rewrite view_step, Hh. exact Ks.
  Qed.

  (** ** the programs *)
  Definition Qdone (H : list nat) : bool -> list nat * phase -> Prop :=
    fun ok l => ok = true -> l = (H, Busy).

  Lemma safe_add_loop fuel : forall t H n h, safe t (add_loop fuel n h) (H, AStart n) (Qdone H).
  Proof.
    induction fuel as [|f IH]; intros t H n h; cbn [add_loop].
    - cbn. unfold Qdone. discriminate.
    - apply rule_st_next. intros _. apply rule_st_refs. intros _. apply rule_cas_head_add.
      + cbn [vnode fst]. rewrite Nat.eqb_refl. cbn. unfold Qdone. reflexivity.
      + intros c Hc. cbn [vnode fst]. destruct (Nat.eqb_spec c h) as [E|_]; [contradiction|].
        apply rule_add_faa.
        * cbn [vword snd]. rewrite Z.eqb_refl. apply IH.
        * intros w Hw. cbn [vword snd]. destruct (Z.eqb_spec w 1) as [E|_]; [contradiction|].
          cbn. unfold Qdone. reflexivity.
  Qed.

  Lemma safe_add_knowing fuel t H n : safe t (add_knowing fuel n) (H, AStart n) (Qdone H).
  Proof. unfold add_knowing. apply rule_ld_head. intros v. apply safe_add_loop. Qed.

  Lemma safe_put fuel t H n : safe t (put fuel n) (H, PPut n) (Qdone H).
  Proof.
    unfold put. apply rule_put_faa.
    - cbn [vword snd]. rewrite Z.eqb_refl. apply safe_add_knowing.
    - intros w Hw. cbn [vword snd]. destruct (Z.eqb_spec w 0) as [E|_]; [contradiction|].
      cbn. unfold Qdone. reflexivity.
  Qed.

  Definition Qget (H : list nat) : option nat -> list nat * phase -> Prop :=
    fun r l => match r with
               | None => True
               | Some O => l = (H, Busy)
               | Some n => l = (H, PRet n)
               end.

  Lemma safe_get_loop fuel : forall t H h, safe t (get_loop fuel h) (H, Busy) (Qget H).
  Proof.
    induction fuel as [|f IH]; intros t H h; cbn [get_loop].
    - cbn. exact I.
    - destruct (Nat.eqb_spec h 0) as [E|Hnz]; [cbn; reflexivity|].
      apply rule_ld_refs. intros v. cbv zeta.
      destruct (Z.eqb_spec (vword v mod FLAG) 0) as [E|Hm].
      + apply rule_ld_head. intros v'. apply IH.
      + apply rule_cas_refs; [exact Hm| |].
        * intros w Hw. cbn [vword snd]. destruct (Z.eqb_spec w (vword v)) as [E|_]; [contradiction|]. cbn [negb].
          apply rule_ld_head. intros v'. apply IH.
        * cbn [vword snd]. rewrite Z.eqb_refl. cbn [negb].
          apply rule_ld_next. intros x. cbn [vnode fst]. apply rule_cas_head_get; [exact Hnz| |].
          -- cbn [vnode fst]. rewrite Nat.eqb_refl. apply rule_fas2. intros _. cbn.
             destruct h; [contradiction|reflexivity].
          -- intros c Hc. cbn [vnode fst]. destruct (Nat.eqb_spec c h) as [E|_]; [contradiction|].
             apply rule_fas1.
             ++ cbn [vword snd]. rewrite Z.eqb_refl. apply Conc.safe_bind.
                eapply Conc.safe_weaken; [|apply safe_add_knowing].
                intros ok l Hl. destruct ok; [rewrite (Hl eq_refl); apply IH|cbn; exact I].
             ++ intros w Hw. cbn [vword snd]. destruct (Z.eqb_spec w (FLAG + 1)) as [E|_]; [contradiction|].
                apply IH.
  Qed.

  Lemma safe_get fuel t H : safe t (get fuel) (H, Busy) (Qget H).
  Proof. unfold get. apply rule_ld_head. intros v. apply safe_get_loop. Qed.

  Lemma safe_run_ops fuel t : (t < NR)%nat -> forall os H, safe t (run_ops fuel os H) (H, Idle) (@Conc.QTrue _).
  Proof.
    intros HtR. assert (Ht : (t < N)%nat) by lia. induction os as [|o r IH]; intros H; cbn [run_ops]; [exact I|].
    destruct o as [|i].
    - apply rule_emit_inv_get; [exact Ht|]. apply Conc.safe_bind.
      eapply Conc.safe_weaken; [|apply safe_get].
      intros res l Hl. destruct res as [[|n]|]; cbn in Hl.
      + subst l. apply rule_emit_ret_null; [exact Ht|]. apply IH.
      + subst l. apply rule_emit_ret_get; [exact HtR|]. apply IH.
      + apply rule_emit_oof.
    - destruct (nth_error H i) as [n|] eqn:Hi.
      + eapply rule_emit_inv_put; [exact Ht|exact HtR|exact Hi|]. apply Conc.safe_bind.
        eapply Conc.safe_weaken; [|apply safe_put].
        intros ok l Hl. destruct ok.
        * rewrite (Hl eq_refl). apply rule_emit_ret_put; [exact Ht|]. apply IH.
        * apply rule_emit_oof.
      + apply rule_emit_skip; [exact Ht|]. apply IH.
  Qed.

  Lemma safe_thread fuel t os H : (t < NR)%nat -> safe t (thread_prog fuel os H) (H, Idle) (@Conc.QTrue _).
  Proof. intros Ht. unfold thread_prog. apply rule_begin. intros _. apply safe_run_ops. exact Ht. Qed.
End Safe.
