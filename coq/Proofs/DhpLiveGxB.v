(** * DhpLiveGxB: C02, second sentence for DHP, from the hazard cell to the client's Guard object.  Part X-B: the
      trace-level derivation.  [gce_of_disc]: a trace all of whose events satisfy [PhiG] (DhpLiveGcA; proved for every
      reachable trace in DhpLiveGxA, given the allocator discipline), [PhiD] ([cell_disc], the allocator discipline) and
      [PhiA] (DhpLiveB; proved for every reachable trace in DhpLiveD) satisfies [guard_cell_exclusive] (DhpLiveGcE):
      after protect( Guard j ) of thread t returned p, the hazard cell its last store went to is the cell of Guard j, a cell
      of t's attached record since before the store, and it stays one and nobody stores to it until t starts
      detach / ~Guard / assign / clear / protect on Guard j. *)
From Coq Require Import ZArith NArith List String Bool Lia PeanoNat.
From LV Require Import Base.Conc Base.Events Model.DhpLang Model.Dhp Proofs.DhpBase Proofs.DhpHist
  Proofs.DhpLiveA Proofs.DhpLiveB Proofs.DhpLiveF Proofs.DhpLiveGcA Proofs.DhpLiveGcB Proofs.DhpLiveGcE.
Import ListNotations.
Local Open Scope string_scope.
Local Open Scope list_scope.

(** ** the two classifications agree on what they share *)
Lemma gl_cls e :
  match gcls e with
  | GSlotAcc => lcls e = LSlotAcc
  | GSlot s x => lcls e = LSlot s x
  | GOp a => lcls e = LOp a /\ e = EvCli "op" a
  | GRet a => lcls e = LRet a
  | _ => lcls e <> LSlotAcc /\ (forall s x, lcls e <> LSlot s x) /\ (forall a, lcls e <> LOp a)
  end.
Proof.
  destruct e as [k o b|name args].
  - destruct k; cbn;
      repeat match goal with |- context [match ?x with _ => _ end] => is_var x; destruct x; cbn end;
      first [reflexivity | repeat split; intros; discriminate].
  - unfold gcls, lcls. destruct (String.eqb_spec name "op") as [->|N1]; [split; reflexivity|].
    destruct (String.eqb_spec name "ret") as [->|N2]; [reflexivity|].
    destruct (String.eqb_spec name "_relall") as [->|N3]; [cbn; repeat split; intros; discriminate|].
    destruct (String.eqb_spec name "_own") as [->|N4].
    { destruct args as [|k [|a [|i [|? ?]]]]; cbn; repeat split; intros; discriminate. }
    destruct (classify (EvCli name args)) as [| | |r b|f b|f b| | | | |]; try reflexivity; try (repeat split; intros; discriminate);
      destruct f; repeat split; intros; discriminate.
Qed.

Lemma lsl_sstep_other st u e t : lcls e <> LSlotAcc -> (forall s x, lcls e <> LSlot s x) -> lsl (sstep st (u, e)) t = lsl st t.
Proof.
  intros A B. unfold sstep. cbn [fst snd]. destruct (lcls e) as [a|a| |s x|k1|k0| | | |]; try reflexivity; try congruence;
    try (exfalso; eapply B; reflexivity).
  destruct (pend st u) as [[k' q]|]; [destruct (Nat.eqb k0 k')|]; reflexivity.
Qed.
Lemma lop_sstep_other st u e t : (forall a, lcls e <> LOp a) -> lop (sstep st (u, e)) t = lop st t.
Proof.
  intros A. unfold sstep. cbn [fst snd]. destruct (lcls e) as [a|a0| |s x|k1|k0| | | |]; try reflexivity; try (exfalso; eapply A; reflexivity).
  destruct (pend st u) as [[k' q]|]; [destruct (Nat.eqb k0 k')|]; reflexivity.
Qed.

Lemma gsl_lsl tr t n s : gsl (gfold tr) t = Some (n, s) -> exists x, lsl (sfold tr) t = Some (n, s, x).
Proof.
  induction tr as [|[u e] tr IH] using rev_ind; [discriminate|]. rewrite gfold_snoc, sfold_snoc.
  pose proof (gl_cls e) as GL. pose proof (glen_gfold tr) as Lg. pose proof (slen_sfold tr) as Ls.
  unfold gstep. cbn [fst snd]. destruct (gcls e) as [a|a| |s' x| | | | | | |] eqn:Eg; cbn [gsl].
  - destruct GL as (GL & _). unfold sstep. cbn [fst snd]. rewrite GL. cbn [lsl]. unfold fnu.
    destruct (Nat.eqb t u); [discriminate|exact IH].
  - unfold sstep. cbn [fst snd]. rewrite GL. exact IH.
  - unfold sstep. cbn [fst snd]. rewrite GL. cbn [lsl]. unfold fnu. destruct (Nat.eqb t u); [discriminate|exact IH].
  - unfold sstep. cbn [fst snd]. rewrite GL. cbn [lsl]. unfold fnu. destruct (Nat.eqb t u); [|exact IH].
    intros E. inversion E; subst. exists x. now rewrite Lg, Ls.
  - destruct GL as (A & B & _). rewrite lsl_sstep_other by assumption. exact IH.
  - destruct GL as (A & B & _). rewrite lsl_sstep_other by assumption. exact IH.
  - destruct GL as (A & B & _). rewrite lsl_sstep_other by assumption. exact IH.
  - destruct GL as (A & B & _). rewrite lsl_sstep_other by assumption. exact IH.
  - destruct GL as (A & B & _). rewrite lsl_sstep_other by assumption. exact IH.
  - destruct GL as (A & B & _). rewrite lsl_sstep_other by assumption. exact IH.
  - destruct GL as (A & B & _). rewrite lsl_sstep_other by assumption. exact IH.
Qed.

Lemma gop_lop tr t : gop (gfold tr) t = [] \/ gop (gfold tr) t = lop (sfold tr) t.
Proof.
  induction tr as [|[u e] tr IH] using rev_ind; [now left|]. rewrite gfold_snoc, sfold_snoc.
  pose proof (gl_cls e) as GL. unfold gstep. cbn [fst snd]. destruct (gcls e) as [a|a| |s' x| | | | | | |] eqn:Eg; cbn [gop].
  - destruct GL as (GL & _). unfold sstep. cbn [fst snd]. rewrite GL. cbn [lop]. unfold fnu. destruct (Nat.eqb t u); [now right|exact IH].
  - unfold sstep. cbn [fst snd]. rewrite GL. cbn [lop]. unfold fnu. destruct (Nat.eqb t u); [now left|exact IH].
  - unfold sstep. cbn [fst snd]. rewrite GL. exact IH.
  - unfold sstep. cbn [fst snd]. rewrite GL. exact IH.
  - destruct GL as (_ & _ & C). rewrite lop_sstep_other by assumption. exact IH.
  - destruct GL as (_ & _ & C). rewrite lop_sstep_other by assumption. exact IH.
  - destruct GL as (_ & _ & C). rewrite lop_sstep_other by assumption. exact IH.
  - destruct GL as (_ & _ & C). rewrite lop_sstep_other by assumption. exact IH.
  - destruct GL as (_ & _ & C). rewrite lop_sstep_other by assumption. exact IH.
  - destruct GL as (_ & _ & C). rewrite lop_sstep_other by assumption. exact IH.
  - destruct GL as (_ & _ & C). rewrite lop_sstep_other by assumption. exact IH.
Qed.

(** the arguments of the announced operation are natural numbers *)
Lemma gop_nonneg tr : TPropG tr -> forall t, Forall (fun z => (0 <= z)%Z) (gop (gfold tr) t).
Proof.
  induction tr as [|[u e] tr IH] using rev_ind; intros HT t; [constructor|]. rewrite gfold_snoc.
  pose proof (TPropG_last _ _ _ HT) as (_ & _ & _ & _ & _ & _ & P7). specialize (IH (TPropG_prefix _ _ HT) t).
  unfold gstep. cbn [fst snd]. destruct (gcls e) as [a|a| |s' x| | | | | | |] eqn:Eg; cbn [gop]; try exact IH.
  - unfold fnu. destruct (Nat.eqb t u); [exact (P7 a eq_refl)|exact IH].
  - unfold fnu. destruct (Nat.eqb t u); [constructor|exact IH].
Qed.

(** ** while a thread is inside protect() with its last store having hit a cell, it did nothing else since that store *)
Definition quiet7 (e : ev) : Prop :=
  match gcls e with GOp _ | GRet _ | GSlot _ _ | GSlotAcc | GOwn _ | GRelall => False | _ => True end.

Lemma window tr : TPropG tr -> forall t n s a b, gsl (gfold tr) t = Some (n, s) -> gop (gfold tr) t = [7%Z; a; b] ->
  n < List.length tr /\ gop (gfold (firstn n tr)) t = [7%Z; a; b] /\ gmp (gfold (firstn n tr)) t = gmp (gfold tr) t /\
  (forall i e, n <= i < List.length tr -> nth_error tr i = Some (t, e) ->
     (i = n /\ exists x, gcls e = GSlot s x) \/ (n < i /\ quiet7 e)).
Proof.
  induction tr as [|[u e] tr IH] using rev_ind; intros HT t n s a b; [discriminate|].
  rewrite gfold_snoc, app_length. cbn [List.length]. pose proof (TPropG_last _ _ _ HT) as PG. pose proof (TPropG_prefix _ _ HT) as HT0.
  assert (Hstep : forall n0, gsl (gfold tr) t = Some (n0, s) -> gop (gfold tr) t = [7%Z; a; b] ->
            (u = t -> quiet7 e) ->
            n0 < List.length tr + 1 /\ gop (gfold (firstn n0 (tr ++ [(u, e)]))) t = [7%Z; a; b] /\
            gmp (gfold (firstn n0 (tr ++ [(u, e)]))) t = gmp (gfold tr) t /\
            (forall i e0, n0 <= i < List.length tr + 1 -> nth_error (tr ++ [(u, e)]) i = Some (t, e0) ->
               (i = n0 /\ exists x, gcls e0 = GSlot s x) \/ (n0 < i /\ quiet7 e0))).
  { intros n0 H1 H2 Hq. destruct (IH HT0 t n0 s a b H1 H2) as (L & A1 & A2 & A3).
    rewrite firstn_app_le by lia. split; [lia|]. split; [exact A1|]. split; [exact A2|].
    intros i e0 Hi Hn. destruct (Nat.lt_ge_cases i (List.length tr)) as [Li|Li].
    - rewrite nth_error_app1 in Hn by exact Li. apply A3; [lia|exact Hn].
    - rewrite nth_error_app2 in Hn by exact Li. replace (i - List.length tr) with 0 in Hn by lia. cbn in Hn.
      inversion Hn; subst u e0. right. split; [lia|now apply Hq]. }
  destruct (Nat.eq_dec u t) as [->|Nu].
  2:{ rewrite (f_equal w_sl (viewG_gstep_other (gfold tr) u e t (fun E => Nu (eq_sym E))) : gsl _ t = gsl (gfold tr) t).
      rewrite (f_equal w_op (viewG_gstep_other (gfold tr) u e t (fun E => Nu (eq_sym E))) : gop _ t = gop (gfold tr) t).
      rewrite (f_equal w_mp (viewG_gstep_other (gfold tr) u e t (fun E => Nu (eq_sym E))) : gmp _ t = gmp (gfold tr) t).
      intros H1 H2. apply Hstep; auto. intros E. now destruct Nu. }
  destruct PG as (_ & _ & _ & P4 & P5 & _).
  unfold gstep. cbn [fst snd]. pose proof (glen_gfold tr) as Lg.
  destruct (gcls e) as [a0|a0| |s' x| | | |s'| | |] eqn:Eg; cbn [gsl gop gmp]; rewrite ?fnu_same;
    try discriminate; try (intros H1 H2; apply Hstep; auto; intros _; unfold quiet7; now rewrite Eg).
  - (* the store itself *)
    intros H1 H2. inversion H1; subst n s'. rewrite Lg. split; [lia|].
    rewrite firstn_app_le, firstn_all by lia. split; [exact H2|]. split; [reflexivity|].
    intros i e0 Hi Hn. assert (i = List.length tr) by lia. subst i. rewrite nth_error_app2, Nat.sub_diag in Hn by lia.
    cbn in Hn. inversion Hn; subst e0. left. split; [reflexivity|eauto].
  - (* relall *) intros _ H2. rewrite (P5 eq_refl) in H2. discriminate.
  - (* own *) intros _ H2. destruct (P4 s' eq_refl) as (j0 & E0 & _). rewrite E0 in H2. discriminate.
Qed.

(** ** ownership of a cell by a thread, with the index since when *)
Definition live_t (c : cfg) (h : H) (t : nat) (s : gref) (kl : nat) : Prop :=
  match s with
  | GI r i => att h r = Some (t, kl) /\ i < eff_H c
  | GE b i => exists r k0, att h r = Some (t, k0) /\ In (b, kl) (linked h r) /\ i < c_GB c
  end.

Lemma live_t_live c h t s kl : live_t c h t s kl -> live c h s kl.
Proof.
  destruct s as [r i|b i]; cbn.
  - intros (A & B). eauto.
  - intros (r & k0 & A & B & C). exists r, t, k0. auto.
Qed.
Lemma ownc_live_t c h t s : ownc c h t s -> exists kl, live_t c h t s kl.
Proof.
  destruct s as [r i|b i]; cbn.
  - intros ((k & A) & B). exists k. auto.
  - intros ((r & k & kb & A & A2) & B). exists kb, r, k. auto.
Qed.

Lemma live_t_step c st h u e t j s kl : K c st h -> PhiG st u e -> gfind (gmp st t) j = Some s ->
  live_t c h t s kl -> live_t c (hstep h (u, e)) t s kl.
Proof.
  intros HK (_ & P2 & P3 & _) Hg HL. pose proof (gcls_classify e) as GC.
  assert (Hrec : forall r k0, att h r = Some (t, k0) ->
            att (hstep h (u, e)) r = att h r /\ forall x, In x (linked h r) -> In x (linked (hstep h (u, e)) r)).
  { intros r k0 Ha. rewrite att_hstep, linked_hstep. cbn [fst snd].
    destruct (gcls e) as [a|a| |s' x|r'|r'| |s'|b'| |] eqn:Eg.
    1,2,3,7,8,9,11: destruct GC as (G1 & G2 & G3 & _); destruct (classify e); try (split; [reflexivity|auto]);
      [now destruct (G1 r0)|now destruct (G2 r0)|now destruct (G3 r0 b)].
    - rewrite GC. auto.
    - rewrite GC. destruct (P3 r' eq_refl) as (_ & Tn). destruct (Nat.eqb_spec r r') as [->|N]; [|auto].
      exfalso. apply (Tn t). eapply k_ta; eauto.
    - rewrite GC. destruct (P2 r' eq_refl) as (T0 & _ & Tm). destruct (Nat.eqb_spec r r') as [->|N]; [|auto].
      exfalso. destruct (k_at _ _ _ HK _ _ T0) as (k1 & A1). assert (u = t) by congruence. subst u.
      rewrite Tm in Hg. discriminate.
    - destruct GC as (r1 & b1 & ->). split; [reflexivity|]. intros x Hx. destruct (Nat.eqb r r1); [now right|exact Hx]. }
  destruct s as [r i|b i]; cbn [live_t] in *.
  - destruct HL as (A & B). destruct (Hrec r kl A) as (E & _). split; [congruence|exact B].
  - destruct HL as (r & k0 & A & B & C). destruct (Hrec r k0 A) as (E & F). exists r, k0. split; [congruence|]. split; [now apply F|exact C].
Qed.

(** a store to the cell of Guard j of thread t is made by t itself, inside a releasing operation on Guard j *)
Lemma slot_store_releases c st h u e t j s kl x : K c st h -> PhiG st u e -> PhiD c st h u e -> gfind (gmp st t) j = Some s ->
  live_t c h t s kl -> gcls e = GSlot s x -> u = t /\ releasesD j (EvCli "op" (gop st t)).
Proof.
  intros HK (P1 & _) (_ & D2) Hg HL Eg. destruct (P1 s x Eg) as [(code & j' & rest & Ho & Gc & Hf)|[(Ho & r & i & -> & Ht)|(b & i & j' & -> & Hp & Ho)]].
  - destruct (k_inj _ _ _ HK _ _ _ _ _ Hf Hg) as (-> & ->). split; [reflexivity|]. rewrite Ho. cbn. split; [reflexivity|]. right. split; [exact Gc|reflexivity].
  - cbn [live_t] in HL. destruct HL as (A & _). destruct (k_at _ _ _ HK _ _ Ht) as (k1 & A1). assert (u = t) by congruence. subst u.
    split; [reflexivity|]. rewrite Ho. cbn. auto.
  - exfalso. cbn [live_t] in HL. destruct HL as (r & k0 & A & B & _). exact (D2 b i x Eg Hp r t k0 kl A B).
Qed.

Lemma drop_of_not4 z args m : z <> 4%Z -> drop_of (z :: args) m = m.
Proof.
  intros N. unfold drop_of. destruct z as [|p|p]; try reflexivity.
  destruct p as [p|p|]; try reflexivity. destruct p as [p|p|]; try reflexivity. destruct p; try reflexivity.
  now destruct N.
Qed.

Lemma drop_keep args m j : Forall (fun z => (0 <= z)%Z) args -> ~ releasesD j (EvCli "op" args) ->
  gfind (drop_of args m) j = gfind m j.
Proof.
  intros Hn Hr. destruct args as [|z args]; [reflexivity|]. destruct (Z.eq_dec z 4) as [->|N]; [|now rewrite drop_of_not4].
  destruct args as [|j' [|? ?]]; try reflexivity. cbn [drop_of]. apply gfind_gdrop_other.
  intros ->. apply Hr. cbn. split; [reflexivity|]. right. split; [auto|]. inversion Hn as [|? ? _ Hn']. inversion Hn' as [|? ? Hj _].
  unfold zn. now rewrite Z2Nat.id.
Qed.

Lemma gcls_op_inv e a : gcls e = GOp a -> e = EvCli "op" a.
Proof. intros E. pose proof (gl_cls e) as GL. rewrite E in GL. apply GL. Qed.

Lemma is_slot_gcls s e : is_slot_of s e -> exists x, gcls e = GSlot s x.
Proof.
  intros (x & Hc). pose proof (gcls_classify e) as GC.
  destruct (gcls e) as [a|a| |s' x'|r'|r'| |s'|b'| |]; try (destruct GC as (_ & _ & _ & G4); now destruct (G4 s x));
    try congruence.
  - assert (s' = s) by congruence. subst. eauto.
  - destruct GC as (r1 & b1 & E). congruence.
Qed.

Section Main.
  Variables (c : cfg) (tr : list (nat * ev)).
  Hypothesis HT : TPropG tr.
  Hypothesis HD : cell_disc c tr.

  Lemma K_at i : i <= List.length tr -> K c (gfold (firstn i tr)) (hist (firstn i tr)).
  Proof.
    intros Hi. apply K_good.
    - apply (TPropG_prefix (firstn i tr) (skipn i tr)). now rewrite firstn_skipn.
    - apply (cell_disc_prefix c (firstn i tr) (skipn i tr)). now rewrite firstn_skipn.
  Qed.
  Lemma T_at i : i <= List.length tr -> TPropG (firstn i tr).
  Proof. intros Hi. apply (TPropG_prefix (firstn i tr) (skipn i tr)). now rewrite firstn_skipn. Qed.

  Variables (t j k p v g0 : nat) (s : gref).
  Hypothesis Hv : nth_error tr v = Some (t, EvCli "ret" [zn p]).
  Hypothesis Hgop : gop (gfold (firstn v tr)) t = [7%Z; zn j; zn k].
  Hypothesis Hgf : gfind (gmp (gfold (firstn v tr)) t) j = Some s.
  Hypothesis Hgsl : gsl (gfold (firstn v tr)) t = Some (g0, s).

  Let st i := gfold (firstn i tr).
  Let hh i := hist (firstn i tr).

  Lemma v_lt : v < List.length tr. Proof. apply nth_error_Some. congruence. Qed.

  Definition Rop (i : nat) : Prop :=
    (i <= v /\ gop (st i) t = [7%Z; zn j; zn k]) \/
    (v < i /\ (gop (st i) t = [] \/ ~ releasesD j (EvCli "op" (gop (st i) t)))).

  Definition InvW (kl i : nat) : Prop := gfind (gmp (st i) t) j = Some s /\ live_t c (hh i) t s kl /\ Rop i.

  Lemma win : g0 < v /\ gop (st g0) t = [7%Z; zn j; zn k] /\ gmp (st g0) t = gmp (st v) t /\
    (forall i e, g0 <= i < v -> nth_error tr i = Some (t, e) -> (i = g0 /\ exists x, gcls e = GSlot s x) \/ (g0 < i /\ quiet7 e)).
  Proof.
    pose proof v_lt as Lv. destruct (window (firstn v tr) (T_at v ltac:(lia)) t g0 s (zn j) (zn k) Hgsl Hgop) as (L & A1 & A2 & A3).
    rewrite firstn_length, Nat.min_l in L by lia. rewrite firstn_firstn, Nat.min_l in A1, A2 by lia.
    split; [exact L|]. split; [exact A1|]. split; [exact A2|].
    intros i e Hi Hn. apply A3; [rewrite firstn_length, Nat.min_l by lia; exact Hi|]. rewrite nth_firstn_lt by lia. exact Hn.
  Qed.

  Lemma base : exists kl, kl < g0 /\ InvW kl g0.
  Proof.
    pose proof v_lt as Lv. destruct win as (L & A1 & A2 & _).
    assert (Hg0 : gfind (gmp (st g0) t) j = Some s) by (rewrite A2; exact Hgf).
    pose proof (K_at g0 ltac:(lia)) as HK. destruct (ownc_live_t _ _ _ _ (k_cd _ _ _ HK t j s Hg0)) as (kl & HL).
    exists kl. split.
    - destruct s as [r i|b i]; cbn [live_t] in HL.
      + destruct HL as (A & _). apply att_lt in A. rewrite firstn_length in A. lia.
      + destruct HL as (r & k0 & _ & B & _). apply linked_lt in B. rewrite firstn_length in B. lia.
    - split; [exact Hg0|]. split; [exact HL|]. left. split; [lia|exact A1].
  Qed.

  Lemma stepW kl d : (forall i e, v < i < d -> nth_error tr i = Some (t, e) -> ~ releasesD j e) ->
    forall i, g0 <= i -> i < d -> d <= List.length tr -> InvW kl i -> InvW kl (Datatypes.S i).
  Proof.
    intros Hnr i Hi0 Hid Hd (Hg & HL & HR). destruct win as (Lg0 & _ & _ & W).
    destruct (nth_error tr i) as [[u e]|] eqn:En; [|apply nth_error_None in En; lia].
    pose proof (HT i u e En) as PG. pose proof (K_at i ltac:(lia)) as HK.
    unfold InvW, Rop, st, hh in *. rewrite (gfold_firstn_S tr i _ En), (hist_firstn_S tr i _ En).
    split; [|split; [eapply live_t_step; eauto|]].
    - (* the table *)
      destruct (Nat.eq_dec u t) as [->|Nu].
      2:{ rewrite (f_equal w_mp (viewG_gstep_other (gfold (firstn i tr)) u e t (fun E => Nu (eq_sym E))) : gmp _ t = gmp _ t). exact Hg. }
      destruct PG as (_ & P2 & _ & P4 & P5 & P6 & _). unfold gstep. cbn [fst snd].
      destruct (gcls e) as [a0|a0| |s' x| | | |s'| | |] eqn:Eg; cbn [gmp]; rewrite ?fnu_same; try exact Hg.
      + (* ret *)
        destruct HR as [(_ & Ho)|(Lv & [Ho|Ho])].
        * rewrite Ho, drop_of_not4 by discriminate. exact Hg.
        * destruct (P6 a0 eq_refl) as (Ne & _). now destruct Ne.
        * rewrite drop_keep; [exact Hg| |exact Ho]. apply (gop_nonneg _ (T_at i ltac:(lia))).
      + (* relall *)
        exfalso. pose proof (P5 eq_refl) as Ho. destruct HR as [(_ & Ho')|(Lv & [Ho'|Ho'])]; try congruence.
        apply Ho'. rewrite Ho. cbn. auto.
      + (* own *)
        destruct (P4 s' eq_refl) as (j0 & Ho & Hf). rewrite Ho. cbn [own_of]. unfold zn at 1. rewrite Nat2Z.id. cbn [gfind].
        destruct (Nat.eqb_spec j0 j) as [->|N]; [congruence|exact Hg].
    - (* the announced operation *)
      unfold Rop, st in *.
      destruct (Nat.eq_dec u t) as [->|Nu].
      2:{ rewrite (f_equal w_op (viewG_gstep_other (gfold (firstn i tr)) u e t (fun E => Nu (eq_sym E))) : gop _ t = gop _ t).
          destruct HR as [(Li & Ho)|(Li & Ho)]; [|right; split; [lia|exact Ho]].
          destruct (Nat.eq_dec i v) as [->|Niv]; [rewrite Hv in En; inversion En; congruence|]. left. split; [lia|exact Ho]. }
      destruct (Nat.lt_trichotomy i v) as [Liv|[->|Liv]].
      + (* before the answer: the thread is quiet *)
        destruct HR as [(_ & Ho)|(Li & _)]; [|lia]. left. split; [lia|].
        destruct (W i e ltac:(lia) En) as [(_ & x & Ex)|(_ & Q)].
        * unfold gstep. cbn [fst snd]. rewrite Ex. exact Ho.
        * unfold quiet7 in Q. unfold gstep. cbn [fst snd]. destruct (gcls e); try (now destruct Q); exact Ho.
      + (* the answer *)
        rewrite Hv in En. inversion En; subst e. right. split; [lia|]. left. unfold gstep. cbn [fst snd]. rewrite gcls_ret. cbn. apply fnu_same.
      + right. split; [lia|]. destruct HR as [(Li & _)|(_ & Ho)]; [lia|].
        unfold gstep. cbn [fst snd]. destruct (gcls e) as [a0|a0| |s' x| | | |s'| | |] eqn:Eg; cbn [gop]; rewrite ?fnu_same; try exact Ho.
        * right. rewrite <- (gcls_op_inv e a0 Eg). apply (Hnr i e); [lia|exact En].
        * now left.
  Qed.

  Lemma allW kl d : (forall i e, v < i < d -> nth_error tr i = Some (t, e) -> ~ releasesD j e) -> d <= List.length tr ->
    InvW kl g0 -> forall i, g0 <= i <= d -> InvW kl i.
  Proof.
    intros Hnr Hd H0 i Hi. replace i with (g0 + (i - g0)) by lia. assert (Hm : g0 + (i - g0) <= d) by lia.
    induction (i - g0) as [|m IH]; [now rewrite Nat.add_0_r|]. rewrite Nat.add_succ_r. apply (stepW kl d Hnr); try lia. apply IH. lia.
  Qed.

  Lemma exclusive : exists kl, kl < g0 /\
    forall d, v < d -> d <= List.length tr ->
      (forall i e, v < i < d -> nth_error tr i = Some (t, e) -> ~ releasesD j e) ->
      live c (hist (firstn d tr)) s kl /\
      forall i te, g0 < i < d -> nth_error tr i = Some te -> ~ is_slot_of s (snd te).
  Proof.
    destruct base as (kl & Lk & H0). exists kl. split; [exact Lk|]. intros d Lvd Ld Hnr.
    pose proof (allW kl d Hnr Ld H0) as HA. destruct win as (Lg0 & _ & _ & W). split.
    - destruct (HA d ltac:(lia)) as (_ & HL & _). apply live_t_live with (t := t). exact HL.
    - intros i [u e] Hi En Hs. cbn [snd] in Hs. destruct (is_slot_gcls _ _ Hs) as (x & Eg).
      destruct (HA i ltac:(lia)) as (Hg & HL & HR).
      destruct (slot_store_releases c _ _ u e t j s kl x (K_at i ltac:(lia)) (HT i u e En) (HD i u e En) Hg HL Eg) as (-> & Hrel).
      destruct (Nat.lt_trichotomy i v) as [Liv|[->|Liv]].
      + destruct (W i e ltac:(lia) En) as [(E0 & _)|(_ & Q)]; [lia|]. unfold quiet7 in Q. now rewrite Eg in Q.
      + rewrite Hv in En. inversion En; subst e. discriminate.
      + destruct HR as [(Li & _)|(_ & [Ho|Ho])]; [lia| |contradiction]. unfold st in Ho. rewrite Ho in Hrel. exact Hrel.
  Qed.
End Main.

(** ** the derivation *)
Theorem gce_of_disc c tr : TPropG tr -> cell_disc c tr -> TProp PhiA tr -> guard_cell_exclusive c tr.
Proof.
  intros HT HD HP v t j k p Hp Hv Hop.
  assert (Lv : v < List.length tr) by (apply nth_error_Some; congruence).
  pose proof (HT v t _ Hv) as (_ & _ & _ & _ & _ & P6 & _). destruct (P6 [zn p] eq_refl) as (Ne & Hpr).
  assert (Hgop : gop (gfold (firstn v tr)) t = [7%Z; zn j; zn k]).
  { destruct (gop_lop (firstn v tr) t) as [E|E]; [now destruct Ne|]. now rewrite E. }
  destruct (Hpr j k Hgop) as (s & g0 & Hgf & Hgsl).
  destruct (gsl_lsl _ _ _ _ Hgsl) as (x & Hl).
  assert (x = p).
  { destruct (HP v t _ Hv) as (PP & _). destruct (PP (zn p) eq_refl (zn j) (zn k) Hop) as (w & _ & Hw).
    - unfold zn. rewrite Nat2Z.id. exact Hp.
    - destruct (Hw g0 s x Hl) as (E & _). rewrite E. unfold zn. now rewrite Nat2Z.id. }
  subst x. destruct (exclusive c tr HT HD t j k p v g0 s Hv Hgop Hgf Hgsl) as (kl & Lk & Hall).
  exists g0, s, kl. split; [exact Hl|]. split; [exact Lk|exact Hall].
Qed.
