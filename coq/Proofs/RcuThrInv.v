(** * general_threaded (LV.Model.RcuThreaded): accounting invariant.  As for general_buffered every retired object is in
      exactly one place (disposed, buffer, hands of a thread); the reclamation thread (thread N) frees the head of the
      buffer between front() and pop_front(): while it is in that window ([TStale]) the head is accounted to its hands
      although it is physically still in the buffer.  Destruct: the destructor thread posts the stop task only after
      join has seen all clients terminate; when the reclamation thread leaves its loop ("ddone") buffer and hands are empty. *)
From Coq Require Import ZArith List String Bool Lia PeanoNat.
From LV Require Import Base.Conc Base.Events Model.RcuGp Model.RcuBuf Model.RcuThreaded Proofs.RcuGpInv Proofs.RcuBufInv.
Import ListNotations.
Local Open Scope string_scope.
Local Open Scope list_scope.
Local Open Scope Z_scope.

Definition is_ddone : ev -> bool := is_cli "ddone".
Definition plainT (e : ev) : Prop := plain e /\ is_ddone e = false.

Inductive tstate := TIdle | TJoined | TEmpty | TStale (joined : bool).
Definition is_stale (v : tstate) : bool := match v with TStale _ => true | _ => false end.
Definition jl (v : tstate) : Prop := v = TJoined \/ v = TStale true.

Record AuxT := mkT {
  t_h : hands;
  t_d : nat -> bool;        (* the client has emitted "done" *)
  t_i : nat -> bool;        (* ... and has been counted by g_ndone *)
  t_fin : bool;             (* "ddone" has been emitted *)
  t_v : nat -> tstate
}.
Definition LT := (list Z * bool * bool * tstate)%type.
Definition viewT (a : AuxT) (t : nat) : LT := (mine t (t_h a), t_d a t, t_i a t, t_v a t).

Definition stale (N : nat) (a : AuxT) : bool := is_stale (t_v a N).
Definition lbuf (N : nat) (g : G) (a : AuxT) : list (Z * Z) := if stale N a then tl (g_buf g) else g_buf g.
Definition all_clients_done (N : nat) (a : AuxT) : Prop := forall t, (t < N)%nat -> t_d a t = true.
Definition drained (N : nat) (g : G) (a : AuxT) : Prop := g_buf g = [] /\ all_clients_done N a.

Record InvT (N : nat) (g : G) (a : AuxT) (tr : trace) : Prop := {
  A1 : forall p, nret p tr = (ndisp p tr + cz p (map fst (lbuf N g a)) + cz p (map snd (t_h a)))%nat;
  AS : stale N a = true -> g_buf g <> [];
  A3 : forall t, t_d a t = true -> mine t (t_h a) = [];
  A4 : forall x, In x (t_h a) -> (fst x <= N)%nat;
  A5 : forall t i, at_ tr i t is_done -> t_d a t = true;
  AJ : g_ndone g = List.length (filter (t_i a) (seq 0 N)) /\ forall t, t_i a t = true -> t_d a t = true;
  AQ : g_quit g = true -> all_clients_done N a;
  AM : forall t, jl (t_v a t) -> all_clients_done N a;
  AE : forall t, t_v a t = TEmpty -> drained N g a;
  AF : t_fin a = true -> drained N g a /\ t_h a = [];
  A6 : forall t i, at_ tr i t is_ddone -> t_fin a = true
}.

Lemma done_no_hands N g a tr t : InvT N g a tr -> all_clients_done N a -> (t < N)%nat -> mine t (t_h a) = [].
Proof. intros HI Hd Ht. apply (A3 _ _ _ _ HI). apply Hd; exact Ht. Qed.

Ltac old_at H :=
  let t0 := fresh "t0" in let i := fresh "i" in let Hat := fresh "Hat" in let Hat' := fresh "Hat'" in let X := fresh "X" in
  intros t0 i Hat; destruct (at_snoc_inv _ _ _ _ _ _ Hat) as [Hat'|(_ & _ & X)]; [eapply H; eauto|first [discriminate|congruence]].

(** nothing of the accounting changes *)
Lemma InvT_plain N g g' a tr t e :
  g_buf g' = g_buf g -> g_quit g' = g_quit g -> g_ndone g' = g_ndone g -> plainT e ->
  InvT N g a tr -> InvT N g' a (tr ++ [(t, e)]).
Proof.
  intros Eb Eq En (Hp & Hdd) [H1 HS H3 H4 H5 HJ HQ HM HE HF H6]. destruct (plain_counts e 0 Hp) as (_ & _ & Hd).
  assert (Elb : lbuf N g' a = lbuf N g a) by (unfold lbuf; rewrite Eb; reflexivity).
  assert (Edr : drained N g a -> drained N g' a) by (unfold drained; rewrite Eb; auto).
  constructor.
  - intros p. destruct (plain_counts e p Hp) as (P1 & P2 & _). unfold nret, ndisp. rewrite !cnt_ev_snoc, P1, P2, Elb.
    specialize (H1 p). unfold nret, ndisp in H1. lia.
  - rewrite Eb. exact HS.
  - exact H3.
  - exact H4.
  - old_at H5.
  - rewrite En. exact HJ.
  - rewrite Eq. exact HQ.
  - exact HM.
  - intros t0 Ht0. apply Edr. eapply HE; eauto.
  - intros Hf. destruct (HF Hf) as (A & B). split; [apply Edr; exact A|exact B].
  - old_at H6.
Qed.

Definition with_h (a : AuxT) (h : hands) : AuxT := mkT h (t_d a) (t_i a) (t_fin a) (t_v a).

Lemma not_fin_if_hands N g a tr t p hs : InvT N g a tr -> mine t (t_h a) = p :: hs -> t_fin a = false.
Proof.
  intros HI Hm. destruct (t_fin a) eqn:E; [|reflexivity]. destruct (AF _ _ _ _ HI E) as (_ & Hh). rewrite Hh in Hm. discriminate.
Qed.

(** "retire p" by a client that is not done *)
Lemma InvT_retire N g a tr t p :
  (t < N)%nat -> t_d a t = false -> InvT N g a tr ->
  InvT N g (with_h a (t_h a ++ [(t, p)])) (tr ++ [(t, EvCli "retire" [p])]).
Proof.
  intros Ht Hdt HI. pose proof HI as [H1 HS H3 H4 H5 HJ HQ HM HE HF H6].
  constructor; cbn [with_h t_h t_d t_i t_fin t_v].
  - intros q. unfold nret, ndisp. rewrite !cnt_ev_snoc. rewrite map_app, cz_app. cbn [map snd]. rewrite cz_cons. change (cz q []) with O.
    specialize (H1 q). unfold nret, ndisp in H1. change (lbuf N g (with_h a (t_h a ++ [(t, p)]))) with (lbuf N g a).
    destruct (Z.eq_dec p q) as [->|Nq].
    + rewrite is_retire_self, is_dispose_retire. lia.
    + rewrite is_retire_other by congruence. rewrite is_dispose_retire. lia.
  - exact HS.
  - intros t0 Hd. destruct (Nat.eq_dec t0 t) as [->|Ne]; [congruence|]. rewrite mine_app, mine_cons_other by exact Ne.
    rewrite (H3 t0 Hd). reflexivity.
  - intros x Hx. apply in_app_or in Hx. destruct Hx as [Hx|[<-|[]]]; [apply H4; exact Hx|cbn; lia].
  - old_at H5.
  - exact HJ.
  - exact HQ.
  - exact HM.
  - intros t0 Ht0. destruct (HE t0 Ht0) as (_ & X). rewrite (X t Ht) in Hdt. discriminate.
  - intros Hf. destruct (HF Hf) as ((_ & X) & _). rewrite (X t Ht) in Hdt. discriminate.
  - old_at H6.
Qed.

(** successful push by a client that holds the object *)
Lemma InvT_push N g a tr t p e hs k o ok :
  (t < N)%nat -> mine t (t_h a) = p :: hs -> InvT N g a tr ->
  InvT N (set_buf g (g_buf g ++ [(p, e)])) (with_h a (rm1 t p (t_h a))) (tr ++ [(t, EvAcc k o ok)]).
Proof.
  intros Ht Hm HI. pose proof HI as [H1 HS H3 H4 H5 HJ HQ HM HE HF H6]. pose proof (mine_head_in _ _ _ _ Hm) as Hin.
  constructor; cbn [with_h t_h t_d t_i t_fin t_v set_buf g_buf g_quit g_ndone].
  - intros q. unfold nret, ndisp. rewrite !cnt_ev_snoc. cbn [is_retire is_dispose cli_is].
    assert (Elb : lbuf N (set_buf g (g_buf g ++ [(p, e)])) (with_h a (rm1 t p (t_h a))) = lbuf N g a ++ [(p, e)]).
    { unfold lbuf. change (stale N (with_h a (rm1 t p (t_h a)))) with (stale N a). cbn [set_buf g_buf]. destruct (stale N a) eqn:Es; [|reflexivity].
      destruct (g_buf g) as [|x r] eqn:Eb; [exfalso; apply (HS eq_refl); reflexivity|reflexivity]. }
    rewrite Elb, map_app, cz_app. cbn [map fst]. rewrite cz_cons. change (cz q []) with O.
    specialize (H1 q). unfold nret, ndisp in H1. pose proof (cz_rm1 t p (t_h a) q Hin) as X. lia.
  - intros _ X. destruct (g_buf g); discriminate.
  - intros t0 Hd. destruct (Nat.eq_dec t0 t) as [->|Ne].
    + rewrite (H3 t Hd) in Hm. discriminate.
    + rewrite mine_rm1_other by exact Ne. apply H3; exact Hd.
  - intros x Hx. apply H4. eapply rm1_incl; eauto.
  - old_at H5.
  - exact HJ.
  - exact HQ.
  - exact HM.
  - intros t0 Ht0. destruct (HE t0 Ht0) as (_ & X). rewrite (H3 t (X t Ht)) in Hm. discriminate.
  - intros Hf. destruct (HF Hf) as ((_ & X) & _). rewrite (H3 t (X t Ht)) in Hm. discriminate.
  - old_at H6.
Qed.

(** "dispose p" of an object in the caller's hands *)
Lemma InvT_dispose N g a tr t p hs :
  mine t (t_h a) = p :: hs -> InvT N g a tr ->
  InvT N g (with_h a (rm1 t p (t_h a))) (tr ++ [(t, EvCli "dispose" [p])]).
Proof.
  intros Hm HI. pose proof HI as [H1 HS H3 H4 H5 HJ HQ HM HE HF H6]. pose proof (mine_head_in _ _ _ _ Hm) as Hin.
  pose proof (not_fin_if_hands _ _ _ _ _ _ _ HI Hm) as Hnf.
  constructor; cbn [with_h t_h t_d t_i t_fin t_v].
  - intros q. unfold nret, ndisp. rewrite !cnt_ev_snoc. specialize (H1 q). unfold nret, ndisp in H1.
    change (lbuf N g (with_h a (rm1 t p (t_h a)))) with (lbuf N g a).
    pose proof (cz_rm1 t p (t_h a) q Hin) as X. rewrite is_retire_dispose.
    destruct (Z.eq_dec p q) as [->|Nq].
    + rewrite is_dispose_self. lia.
    + rewrite is_dispose_other by congruence. lia.
  - exact HS.
  - intros t0 Hd. destruct (Nat.eq_dec t0 t) as [->|Ne].
    + rewrite (H3 t Hd) in Hm. discriminate.
    + rewrite mine_rm1_other by exact Ne. apply H3; exact Hd.
  - intros x Hx. apply H4. eapply rm1_incl; eauto.
  - old_at H5.
  - exact HJ.
  - exact HQ.
  - exact HM.
  - exact HE.
  - congruence.
  - old_at H6.
Qed.

Definition with_d (a : AuxT) (t : nat) : AuxT :=
  mkT (t_h a) (fun x => if Nat.eqb x t then true else t_d a x) (t_i a) (t_fin a) (t_v a).
Definition with_i (a : AuxT) (t : nat) : AuxT :=
  mkT (t_h a) (t_d a) (fun x => if Nat.eqb x t then true else t_i a x) (t_fin a) (t_v a).
Definition with_v (a : AuxT) (t : nat) (s : tstate) : AuxT :=
  mkT (t_h a) (t_d a) (t_i a) (t_fin a) (fun x => if Nat.eqb x t then s else t_v a x).

(** front() of the reclamation thread (thread N) returned an entry it is going to free: the head goes into its hands *)
Lemma InvT_front N g a tr p e r (j : bool) k o ok :
  t_d a N = false -> t_v a N = (if j then TJoined else TIdle) -> g_buf g = (p, e) :: r -> InvT N g a tr ->
  InvT N g (with_v (with_h a ((N, p) :: t_h a)) N (TStale j)) (tr ++ [(N, EvAcc k o ok)]).
Proof.
  intros Hdt Hv Hb HI. pose proof HI as [H1 HS H3 H4 H5 HJ HQ HM HE HF H6].
  assert (Hst : stale N a = false) by (unfold stale; rewrite Hv; destruct j; reflexivity).
  constructor; cbn [with_v with_h t_h t_d t_i t_fin t_v].
  - intros q. unfold nret, ndisp. rewrite !cnt_ev_snoc. cbn [is_retire is_dispose cli_is]. cbn [map snd]. rewrite cz_cons.
    specialize (H1 q). unfold nret, ndisp in H1. unfold lbuf, stale in *. cbn [with_v with_h t_v]. rewrite Nat.eqb_refl. cbn [is_stale].
    rewrite Hst in H1. rewrite Hb in *. cbn [tl map fst] in *. rewrite cz_cons in H1. lia.
  - intros _. rewrite Hb. discriminate.
  - intros t0 Hd. destruct (Nat.eq_dec t0 N) as [->|Ne]; [congruence|]. rewrite mine_cons_other by exact Ne. apply H3; exact Hd.
  - intros x [<-|Hx]; [cbn; lia|apply H4; exact Hx].
  - old_at H5.
  - exact HJ.
  - exact HQ.
  - intros t0. destruct (Nat.eqb_spec t0 N) as [->|Ne]; [|apply HM].
    intros [X|X]; [discriminate|]. inversion X; subst j. apply (HM N). left. exact Hv.
  - intros t0. destruct (Nat.eqb t0 N); [discriminate|]. intros Ht0. destruct (HE t0 Ht0) as (X & _). rewrite Hb in X. discriminate.
  - intros Hf. destruct (HF Hf) as ((X & _) & _). rewrite Hb in X. discriminate.
  - old_at H6.
Qed.

(** pop_front() of the stale head *)
Lemma InvT_popfront N g a tr (j : bool) k o ok :
  t_v a N = TStale j -> InvT N g a tr ->
  InvT N (set_buf g (tl (g_buf g))) (with_v a N (if j then TJoined else TIdle)) (tr ++ [(N, EvAcc k o ok)]).
Proof.
  intros Hv HI. pose proof HI as [H1 HS H3 H4 H5 HJ HQ HM HE HF H6].
  assert (Hst : stale N a = true) by (unfold stale; rewrite Hv; reflexivity).
  assert (Hst' : stale N (with_v a N (if j then TJoined else TIdle)) = false) by (unfold stale; cbn; rewrite Nat.eqb_refl; destruct j; reflexivity).
  constructor; cbn [with_v t_h t_d t_i t_fin t_v set_buf g_buf g_quit g_ndone].
  - intros q. unfold nret, ndisp. rewrite !cnt_ev_snoc. cbn [is_retire is_dispose cli_is].
    specialize (H1 q). unfold nret, ndisp in H1. unfold lbuf in *. rewrite Hst' . rewrite Hst in H1. cbn [set_buf g_buf]. lia.
  - rewrite Hst'. discriminate.
  - exact H3.
  - exact H4.
  - old_at H5.
  - exact HJ.
  - exact HQ.
  - intros t0. destruct (Nat.eqb_spec t0 N) as [->|Ne]; [|apply HM].
    intros [X|X]; destruct j; try discriminate. apply (HM N). right. exact Hv.
  - intros t0. destruct (Nat.eqb t0 N); [destruct j; discriminate|]. intros Ht0. destruct (HE t0 Ht0) as (X & _).
    exfalso. apply (HS Hst). exact X.
  - intros Hf. destruct (HF Hf) as ((X & _) & _). exfalso. apply (HS Hst). exact X.
  - old_at H6.
Qed.

(** "done" with empty hands *)
Lemma InvT_done N g a tr t :
  mine t (t_h a) = [] -> InvT N g a tr -> InvT N g (with_d a t) (tr ++ [(t, EvCli "done" [])]).
Proof.
  intros Hm [H1 HS H3 H4 H5 HJ HQ HM HE HF H6].
  assert (Mono : all_clients_done N a -> all_clients_done N (with_d a t)).
  { intros H t0 Ht0. cbn. destruct (Nat.eqb t0 t); auto. }
  constructor; cbn [with_d t_h t_d t_i t_fin t_v].
  - intros q. unfold nret, ndisp. rewrite !cnt_ev_snoc. specialize (H1 q). unfold nret, ndisp in H1.
    change (lbuf N g (with_d a t)) with (lbuf N g a). rewrite is_retire_done, is_dispose_done. lia.
  - exact HS.
  - intros t0. destruct (Nat.eqb_spec t0 t) as [->|Ne]; [intros _; exact Hm|apply H3].
  - exact H4.
  - intros t0 i Hat. destruct (at_snoc_inv _ _ _ _ _ _ Hat) as [Hat'|(_ & -> & _)].
    + destruct (Nat.eqb t0 t); [reflexivity|eapply H5; eauto].
    + rewrite Nat.eqb_refl. reflexivity.
  - destruct HJ as (J1 & J2). split; [exact J1|]. intros t0 Hi. destruct (Nat.eqb t0 t); [reflexivity|apply J2; exact Hi].
  - intros X. apply Mono. apply HQ; exact X.
  - intros t0 Ht0. apply Mono. eapply HM; eauto.
  - intros t0 Ht0. destruct (HE t0 Ht0) as (A & C). split; auto.
  - intros Hf. destruct (HF Hf) as ((A & C) & D). split; [split; auto|exact D].
  - old_at H6.
Qed.

Lemma filter_seq_same (f : nat -> bool) t : forall m s1, (t < s1)%nat ->
  filter (fun x => if Nat.eqb x t then true else f x) (seq s1 m) = filter f (seq s1 m).
Proof.
  induction m as [|m IHm]; intros s1 Hs; [reflexivity|]. cbn [seq filter]. destruct (Nat.eqb_spec s1 t); [lia|]. rewrite IHm by lia. reflexivity.
Qed.

Lemma filter_seq_flip_gen (f : nat -> bool) t : f t = false -> forall n s, (s <= t < s + n)%nat ->
  List.length (filter (fun x => if Nat.eqb x t then true else f x) (seq s n)) = S (List.length (filter f (seq s n))).
Proof.
  intros Hf. induction n as [|n IH]; intros s0 Hr; [lia|]. cbn [seq filter]. destruct (Nat.eqb_spec s0 t) as [->|Ne].
  - rewrite Hf. cbn [List.length]. f_equal. rewrite filter_seq_same by lia. reflexivity.
  - destruct (f s0); cbn [List.length]; rewrite IH by lia; reflexivity.
Qed.

Lemma filter_len_le {A} (f : A -> bool) l : (List.length (filter f l) <= List.length l)%nat.
Proof. induction l as [|x r IH]; cbn; [lia|]. destruct (f x); cbn; lia. Qed.

Lemma filter_seq_all (f : nat -> bool) N : List.length (filter f (seq 0 N)) = N -> forall t, (t < N)%nat -> f t = true.
Proof.
  intros H t Ht. destruct (f t) eqn:E; [reflexivity|exfalso].
  assert (X : forall n s, (s <= t < s + n)%nat -> (List.length (filter f (seq s n)) < n)%nat).
  { induction n as [|n IH]; intros s0 Hr; [lia|]. cbn [seq filter]. destruct (Nat.eq_dec s0 t) as [->|Ne].
    - rewrite E. pose proof (filter_len_le f (seq (S t) n)) as Y. rewrite seq_length in Y. lia.
    - destruct (f s0); cbn [List.length]; specialize (IH (S s0)); lia. }
  specialize (X N 0%nat). lia.
Qed.

(** the client's termination becomes visible to join *)
Lemma InvT_inc N g a tr t k o ok :
  (t < N)%nat -> t_d a t = true -> t_i a t = false -> InvT N g a tr ->
  InvT N (set_ndone g (S (g_ndone g))) (with_i a t) (tr ++ [(t, EvAcc k o ok)]).
Proof.
  intros Ht Hd Hi [H1 HS H3 H4 H5 HJ HQ HM HE HF H6].
  constructor; cbn [with_i t_h t_d t_i t_fin t_v set_ndone g_buf g_quit g_ndone].
  - intros q. unfold nret, ndisp. rewrite !cnt_ev_snoc. cbn [is_retire is_dispose cli_is]. specialize (H1 q). unfold nret, ndisp in H1.
    change (lbuf N (set_ndone g (S (g_ndone g))) (with_i a t)) with (lbuf N g a). lia.
  - exact HS.
  - exact H3.
  - exact H4.
  - old_at H5.
  - destruct HJ as (J1 & J2). split.
    + rewrite J1. symmetry. apply filter_seq_flip_gen; [exact Hi|lia].
    + intros t0. destruct (Nat.eqb_spec t0 t) as [->|Ne]; [intros _; exact Hd|apply J2].
  - exact HQ.
  - exact HM.
  - exact HE.
  - exact HF.
  - old_at H6.
Qed.

Lemma stale_with_v N a t s : is_stale (t_v a t) = false -> is_stale s = false -> stale N (with_v a t s) = stale N a.
Proof. intros H1 H2. unfold stale. cbn. destruct (Nat.eqb_spec N t) as [->|Ne]; [rewrite H1, H2|]; reflexivity. Qed.

(** a thread outside the stale window learns that all clients are done: join saw them (destructor), or the
    reclamation thread took a task with m_bQuit set *)
Lemma InvT_joined N g a tr t k o ok g' :
  is_stale (t_v a t) = false -> all_clients_done N a ->
  g_buf g' = g_buf g -> g_ndone g' = g_ndone g -> (g_quit g' = g_quit g \/ g_quit g' = true) ->
  InvT N g a tr -> InvT N g' (with_v a t TJoined) (tr ++ [(t, EvAcc k o ok)]).
Proof.
  intros Hns Hall Eb En Eq HI. pose proof HI as [H1 HS H3 H4 H5 HJ HQ HM HE HF H6].
  assert (Est : stale N (with_v a t TJoined) = stale N a) by (apply stale_with_v; auto).
  constructor; cbn [with_v t_h t_d t_i t_fin t_v].
  - intros q. unfold nret, ndisp. rewrite !cnt_ev_snoc. cbn [is_retire is_dispose cli_is]. specialize (H1 q). unfold nret, ndisp in H1.
    unfold lbuf in *. rewrite Est, Eb. lia.
  - rewrite Est, Eb. exact HS.
  - exact H3.
  - exact H4.
  - old_at H5.
  - rewrite En. exact HJ.
  - intros _. exact Hall.
  - intros t0. destruct (Nat.eqb t0 t); [intros _; exact Hall|apply HM].
  - intros t0. destruct (Nat.eqb t0 t); [discriminate|]. intros Ht0. destruct (HE t0 Ht0) as (A & C). split; [rewrite Eb; exact A|exact C].
  - intros Hf. destruct (HF Hf) as ((A & C) & D). split; [split; [rewrite Eb; exact A|exact C]|exact D].
  - old_at H6.
Qed.

Lemma join_all N g a tr : InvT N g a tr -> g_ndone g = N -> all_clients_done N a.
Proof.
  intros HI Hn. destruct (AJ _ _ _ _ HI) as (J1 & J2). intros t0 Ht0. apply J2. apply (filter_seq_all (t_i a) N); [congruence|exact Ht0].
Qed.

(** the mailbox changes (post / take / ready) without raising the quit flag, or raising it after join *)
Lemma InvT_mail N g a tr t task ready quit k o ok :
  (quit = g_quit g \/ all_clients_done N a) -> InvT N g a tr ->
  InvT N (set_mail g task ready quit) a (tr ++ [(t, EvAcc k o ok)]).
Proof.
  intros Hq HI. pose proof HI as [H1 HS H3 H4 H5 HJ HQ HM HE HF H6].
  assert (Hall : quit = true -> all_clients_done N a).
  { intros E. destruct Hq as [Hq|Hq]; [apply HQ; congruence|exact Hq]. }
  constructor; cbn [set_mail g_buf g_quit g_ndone].
  - intros q. unfold nret, ndisp. rewrite !cnt_ev_snoc. cbn [is_retire is_dispose cli_is]. specialize (H1 q). unfold nret, ndisp in H1.
    change (lbuf N (set_mail g task ready quit) a) with (lbuf N g a). lia.
  - exact HS.
  - exact H3.
  - exact H4.
  - old_at H5.
  - exact HJ.
  - exact Hall.
  - exact HM.
  - exact HE.
  - exact HF.
  - old_at H6.
Qed.

(** front() found the buffer empty and all clients are done *)
Lemma InvT_empty N g a tr t k o ok :
  is_stale (t_v a t) = false -> g_buf g = [] -> all_clients_done N a -> InvT N g a tr ->
  InvT N g (with_v a t TEmpty) (tr ++ [(t, EvAcc k o ok)]).
Proof.
  intros Hns Hb Hq HI. pose proof HI as [H1 HS H3 H4 H5 HJ HQ HM HE HF H6].
  assert (Est : stale N (with_v a t TEmpty) = stale N a) by (apply stale_with_v; auto).
  constructor; cbn [with_v t_h t_d t_i t_fin t_v].
  - intros q. unfold nret, ndisp. rewrite !cnt_ev_snoc. cbn [is_retire is_dispose cli_is]. specialize (H1 q). unfold nret, ndisp in H1.
    unfold lbuf in *. rewrite Est. lia.
  - rewrite Est. exact HS.
  - exact H3.
  - exact H4.
  - old_at H5.
  - exact HJ.
  - exact HQ.
  - intros t0. destruct (Nat.eqb t0 t); [intros [X|X]; discriminate|apply HM].
  - intros t0. destruct (Nat.eqb t0 t); [intros _; split; assumption|apply HE].
  - exact HF.
  - old_at H6.
Qed.

(** "ddone": the reclamation thread (thread N) leaves its loop holding nothing *)
Lemma InvT_ddone N g a tr :
  t_v a N = TEmpty -> mine N (t_h a) = [] -> InvT N g a tr ->
  InvT N g (mkT (t_h a) (t_d a) (t_i a) true (t_v a)) (tr ++ [(N, EvCli "ddone" [])]).
Proof.
  intros Hv Hm HI. pose proof HI as [H1 HS H3 H4 H5 HJ HQ HM HE HF H6].
  destruct (HE N Hv) as (D1 & D3).
  assert (Hh : t_h a = []).
  { destruct (t_h a) as [|[t0 p] r] eqn:E; [reflexivity|exfalso].
    assert (Ht0 : (t0 <= N)%nat) by (apply (H4 (t0, p)); left; reflexivity).
    destruct (Nat.eq_dec t0 N) as [->|Ne].
    - rewrite mine_cons_same in Hm. discriminate.
    - assert (X : mine t0 ((t0, p) :: r) = []) by (apply H3; apply D3; lia). rewrite mine_cons_same in X. discriminate. }
  constructor; cbn [t_h t_d t_i t_fin t_v].
  - intros q. unfold nret, ndisp. rewrite !cnt_ev_snoc. specialize (H1 q). unfold nret, ndisp in H1.
    change (lbuf N g (mkT (t_h a) (t_d a) (t_i a) true (t_v a))) with (lbuf N g a).
    assert (E1 : is_retire q (EvCli "ddone" []) = false) by reflexivity. assert (E2 : is_dispose q (EvCli "ddone" []) = false) by reflexivity.
    rewrite E1, E2. lia.
  - exact HS.
  - exact H3.
  - exact H4.
  - old_at H5.
  - exact HJ.
  - exact HQ.
  - exact HM.
  - exact HE.
  - intros _. split; [split; assumption|exact Hh].
  - intros t0 i Hat. reflexivity.
Qed.

(** frames *)
Lemma frameT_h a t h' : (forall t', t' <> t -> mine t' h' = mine t' (t_h a)) -> Conc.frame viewT t a (with_h a h').
Proof. intros H t' Hne. unfold viewT. cbn [with_h t_h t_d t_i t_v]. rewrite (H t' Hne). reflexivity. Qed.
Lemma frameT_v a t s : Conc.frame viewT t a (with_v a t s).
Proof. intros t' Hne. unfold viewT. cbn. destruct (Nat.eqb_spec t' t); [contradiction|reflexivity]. Qed.
