(** * MSPriorityQueue: every history in which no push overlaps a pop is linearizable to the bounded max-priority
      queue -- any number of alternating phases of concurrent pushes and concurrent pops, EVERY schedule.

    Two invariants over independent auxiliary states are combined ([MsPqStack.safe_prod]):
      - [MsPqPhasesPop.TInv]: conservation (MsPqInv), the tag invariant of push phases ([MsPqPhasesPush.Ext], in
        force while no pop is pending), the frontier invariant and the specification linkage of pop phases ([PExt]:
        [PopFacts], [PL], in force while no push is pending);
      - [MsPqPhasesSpec.SInv]: the specification state through push phases (in force while no pop is pending).
    Both are in force at quiescent points, where they hand the specification state to each other: when the last pending
    push returns, [SInv] (already stepped) gives [spec_quiescent], from which the pop linkage [PL] starts
    ([TInv_ret_push]); when the last pending pop returns, [TInv] (already stepped) gives [spec_quiescent]
    ([quiescent_spec]), from which [SLive] starts again ([SInv_ret_pop]).

    Theorems (every schedule, any number of threads, any programs):
      [mspq_phases_heap]          at every quiescent point of a disciplined run the heap is a max-heap ([Good]) holding
                                  exactly the items pushed and not handed back;
      [mspq_phases_lp_valid]      the trace of a disciplined run, annotated with the linearization points at the
                                  size-lock acquisitions, is a valid LP trace of BPQueue: each push is answered as the
                                  specification answers at that instant, each pop returns a maximum of the abstract
                                  multiset at the instant it calls dec() under m_Lock;
      [mspq_phase_linearizable]   = [MsPqPhase.mspq_phase_linearizable_statement], the last clause of C11. *)
From Coq Require Import ZArith List String Bool Lia PeanoNat Permutation.
From LV Require Import Base.Conc Base.Events Base.Lin Spec.Specs Model.MsPq Proofs.LinProofs
  Proofs.MsPqBrc Proofs.MsPqInv Proofs.MsPqSteps Proofs.MsPqProofs Proofs.MsPqHeap Proofs.MsPqPhase Proofs.MsPqPush
  Proofs.MsPqPushLin Proofs.MsPqPhasesPush Proofs.MsPqPhasesPop Proofs.MsPqPhasesSpec.
Require LV.Proofs.MsPqPop LV.Proofs.MsPqStack LV.Proofs.MsPqBrcAll LV.Proofs.MsPqReal.
Import ListNotations.
Local Open Scope string_scope.
Local Open Scope list_scope.

Section Stack.
  Variable cap : nat.
  Hypothesis OK : slots_ok cap = true.
  Hypothesis SH : shape_ok cap = true.
  Variable bsz : nat.
  Hypothesis Hbsz : cap < bsz.
  Notation Sp := (BPQueue cap).
  Notation Inv := (MsPqInv.Inv cap).

  Definition CAux := (TAux * SAux)%type.
  Definition cview : CAux -> nat -> ((tv * tv2) * pv) * slv := viewP tview sview.
  Definition CInv : G -> CAux -> list (nat * ev) -> Prop := InvP (TInv cap) (SInv cap).
  Notation csafe := (@Conc.safe G V ev CAux (((tv * tv2) * pv) * slv) cview CInv).
  Definition cidle : ((tv * tv2) * pv) * slv := (tidle, sidle).
  Definition Qcop : bool -> ((tv * tv2) * pv) * slv -> Prop := fun ok l' => ok = true -> l' = cidle.

  Lemma cframe t (aT aT' : TAux) (aS aS' : SAux) :
    Conc.frame tview t aT aT' -> Conc.frame sview t aS aS' -> Conc.frame cview t (aT, aS) (aT', aS').
  Proof. intros FT FS u Hu. unfold cview, viewP. cbn [fst snd]. rewrite (FT u Hu), (FS u Hu). reflexivity. Qed.

  Lemma Inv_bc g a1 tr : Inv g a1 tr -> (0 <= bc (ctr g))%Z.
  Proof. intros Hi. pose proof (iC _ _ _ _ Hi) as [C1 _]. rewrite C1, bc_st. lia. Qed.

  Lemma crun_op_push hf lf t x : csafe t (run_op cap bsz hf lf t (OPush x)) cidle Qcop.
  Proof.
    cbn [run_op Conc.safe]. intros g [aT aS] tr [HT HS] Hv. unfold cview, viewP, cidle in Hv. cbn [fst snd] in *.
    assert (VT : tview aT t = tidle) by exact (f_equal fst Hv).
    assert (VS : sview aS t = sidle) by exact (f_equal snd Hv).
    destruct (TInv_inv_push cap g aT tr t x HT VT) as (aT' & HT' & FT & VT').
    destruct (SInv_inv_push cap g aS tr t x HS VS) as (aS' & HS' & FS & VS').
    exists (aT', aS'). split; [split; assumption|]. split; [apply cframe; assumption|].
    unfold cview, viewP. cbn [fst snd]. rewrite VT', VS'. apply Conc.safe_bind.
    eapply Conc.safe_weaken; [|apply (safe_prod tview (TInv cap) sview (SInv cap) _ t _ _ _ _ (tpush_body cap OK SH bsz Hbsz hf lf t x) (ssafe_push cap bsz hf lf t t x))].
    intros [b|] [l1 l2] [[H1 H1'] H2]; cbn [fst snd optQ2 optS] in *; cbn [Conc.safe].
    - intros g2 [cT cS] tr2 [HT2 HS2] Hv2. unfold cview, viewP in Hv2. cbn [fst snd] in *.
      assert (WT : tview cT t = l1) by exact (f_equal fst Hv2).
      assert (WS : sview cS t = l2) by exact (f_equal snd Hv2). subst l1. rewrite H2 in WS.
      destruct (SInv_ret_push cap g2 cS tr2 t x b HS2 WS) as (cS' & HS2' & FS2 & VS2').
      assert (Hpp : In t (pp (scan_of tr2))).
      { apply (b3 _ _ _ (proj1 HS2)). unfold sview in WS. rewrite WS. destruct b; cbn; lia. }
      destruct (TInv_ret_push cap OK SH bsz Hbsz g2 cT tr2 t x b HT2 H1 H1') as (cT' & HT2' & FT2 & VT2').
      { intros Hdp. apply (SInv_quiescent cap g2 cS' _ HS2'); [|exact Hdp]. apply (ret_push_quiescent tr2 t _ Hpp Hdp). }
      exists (cT', cS'). split; [split; assumption|]. split; [apply cframe; assumption|].
      intros _. unfold cview, viewP, cidle. cbn [fst snd]. rewrite VT2', VS2'. reflexivity.
    - intros g2 [cT cS] tr2 [HT2 HS2] Hv2. unfold cview, viewP in Hv2. cbn [fst snd] in *.
      assert (WT : tview cT t = l1) by exact (f_equal fst Hv2). subst l1.
      exists (cT, cS). split; [split|].
      + cbn [fst]. apply (TInv_stopped_push cap g2 cT tr2 t HT2). rewrite H1'. reflexivity.
      + cbn [snd]. apply (SInv_quiet cap g2 g2 cS tr2 t [EvCli "stopped" []] eq_refl eq_refl HS2).
      + split; [intros u Hu; reflexivity|]. intros E. discriminate.
  Qed.

  Lemma crun_op_pop hf lf t : csafe t (run_op cap bsz hf lf t OPop) cidle Qcop.
  Proof.
    cbn [run_op Conc.safe]. intros g [aT aS] tr [HT HS] Hv. unfold cview, viewP, cidle in Hv. cbn [fst snd] in *.
    assert (VT : tview aT t = tidle) by exact (f_equal fst Hv).
    assert (VS : sview aS t = sidle) by exact (f_equal snd Hv).
    destruct (TInv_inv_pop cap g aT tr t HT VT) as (aT' & HT' & FT & VT').
    destruct (SInv_inv_pop cap g aS tr t HS VS) as (aS' & HS' & FS & VS').
    exists (aT', aS'). split; [split; assumption|]. split; [apply cframe; assumption|].
    unfold cview, viewP. cbn [fst snd]. rewrite VT', VS'. apply Conc.safe_bind.
    eapply Conc.safe_weaken; [|apply (safe_prod tview (TInv cap) sview (SInv cap) _ t _ _ _ _ (tsafe_pop cap OK SH bsz Hbsz hf lf t)
                                         (ssafe_dead cap (pop bsz hf lf) t spop (fun _ l => l = spop) (quietp_pop bsz hf lf) eq_refl (fun _ => eq_refl)))].
    assert (Hret : forall (r : option item) l1 l2, Qtpop r l1 -> l2 = spop ->
              csafe t (Emit [EvCli "ret_pop" (ret_pop_args r)] (Ret true)) (l1, l2) Qcop).
    { intros r l1 l2 H1 H2. cbn [Conc.safe]. intros g2 [cT cS] tr2 [HT2 HS2] Hv2. unfold cview, viewP in Hv2. cbn [fst snd] in *.
      assert (WT : tview cT t = l1) by exact (f_equal fst Hv2).
      assert (WS : sview cS t = l2) by exact (f_equal snd Hv2). rewrite H2 in WS. unfold Qtpop in H1. rewrite H1 in WT.
      destruct (TInv_ret_pop cap g2 cT tr2 t r HT2 WT) as (cT' & HT2' & FT2 & VT2').
      assert (Hqq : In t (qq (scan_of tr2))).
      { apply (b4 _ _ _ (proj1 HS2)). unfold sview in WS. rewrite WS. reflexivity. }
      destruct (SInv_ret_pop cap g2 cS tr2 t (ret_pop_args r) HS2 WS) as (cS' & HS2' & FS2 & VS2').
      { destruct r as [[p i]|]; reflexivity. }
      { destruct cT as [[c1 c2] c3]. destruct HT2 as [[Hi2 _] _]. apply (Inv_bc g2 c1 tr2 Hi2). }
      { intros Hdq. apply (quiescent_spec cap bsz Hbsz g2 cT' _ HT2' Hdq). apply (ret_pop_quiescent tr2 t _ Hqq Hdq). }
      exists (cT', cS'). split; [split; assumption|]. split; [apply cframe; assumption|].
      intros _. unfold cview, viewP, cidle. cbn [fst snd]. rewrite VT2', VS2'. reflexivity. }
    intros [[x|]|] [l1 l2] [H1 H2]; cbn [fst snd optQ3] in *.
    - apply (Hret (Some x) l1 l2 H1 H2).
    - apply (Hret None l1 l2 H1 H2).
    - cbn [Conc.safe]. intros g2 [cT cS] tr2 [HT2 HS2] Hv2. exists (cT, cS). split; [split|].
      + cbn [fst]. apply (TInv_quiet cap g2 cT tr2 t [EvCli "stopped" []] eq_refl eq_refl eq_refl HT2).
      + cbn [snd]. apply (SInv_quiet cap g2 g2 cS tr2 t [EvCli "stopped" []] eq_refl eq_refl HS2).
      + split; [intros u Hu; reflexivity|]. intros E. discriminate.
  Qed.

  Lemma crun_ops hf lf t : forall os, csafe t (run_ops cap bsz hf lf t os) cidle (@Conc.QTrue _).
  Proof.
    induction os as [|o r IH]; cbn [run_ops]; [exact I|].
    apply Conc.safe_bind. eapply Conc.safe_weaken; [|destruct o as [x|]; [apply crun_op_push|apply crun_op_pop]].
    intros [|] l' Hl'; [|exact I]. rewrite (Hl' eq_refl). exact IH.
  Qed.

  Lemma cthread hf lf t os : csafe t (thread_prog cap bsz hf lf t os) cidle (@Conc.QTrue _).
  Proof.
    unfold thread_prog. cbn [Conc.safe]. intros g [aT aS] tr [HT HS] Hv. cbn [a_begin fst snd] in *. exists (aT, aS).
    split; [split; [apply (TInv_quiet cap); [reflexivity|reflexivity|reflexivity|exact HT]|apply (SInv_quiet cap g); [reflexivity|reflexivity|exact HS]]|].
    split; [intros u Hu; reflexivity|]. rewrite Hv. apply crun_ops.
  Qed.

  Lemma cinit_ok hf lf ths : Conc.cfg_ok cview CInv (init_cfg cap bsz hf lf ths).
  Proof.
    exists (((mkA (fun _ => idle) [], fun _ => idle2), fun _ => idle3), mkSA (fun _ => sidle) []). split.
    - split; [apply (tinit cap)|apply sinit].
    - intros t p Hp. cbn [init_cfg Conc.threads] in Hp. destruct (nth_thread_progs cap bsz Hbsz hf lf ths 0 t p Hp) as [os ->].
      cbn [Nat.add]. apply cthread.
  Qed.

  (** ** the theorems *)
  (** the phase discipline, read off the trace: [phased tr] = no push was invoked while a pop was pending and no pop
      while a push was pending (pushes overlap each other arbitrarily, and so do pops; any number of phases) *)

  (** whenever no operation is pending in a disciplined run, the heap is a max-heap -- the cells in use are the first
      [count] slots, all tagged Available, every cell in use is not larger than its parent -- holding exactly the items
      pushed and not handed back *)
  Theorem mspq_phases_heap hf lf ths c :
    Conc.reach (init_cfg cap bsz hf lf ths) c ->
    phased (Conc.trace c) = true -> (forall t, pend (Conc.trace c) t = false) ->
    Good (count (Conc.shared c)) (cellv (Conc.shared c)) (cellt (Conc.shared c)) /\
    Permutation (heap_items cap (Conc.shared c) ++ given_back (Conc.trace c)) (invoked (Conc.trace c)).
  Proof.
    intros Hr Hph Hq. split; [|apply (mspq_conservation_quiescent cap OK bsz Hbsz hf lf ths c Hr Hq)].
    destruct (Conc.reach_Inv (cinit_ok hf lf ths) Hr) as ([[[a1 a2] a3] aS] & [[Hi He] Hx] & [B _]). cbn [fst snd] in *.
    unfold phased in Hph. apply negb_true_iff in Hph. destruct (SBook_idle cap aS _ B Hq) as [Hpp Hqq].
    assert (Hdp : dp (Conc.trace c) = false) by (unfold dp; rewrite Hph, Hpp; reflexivity).
    destruct Hx as (_ & _ & _ & _ & U5). destruct (U5 Hdp) as [F _]. set (g := Conc.shared c) in *.
    assert (Hidle : forall t, inop (tvs a1 t) = false) by (intros t; rewrite <- (iP _ _ _ _ Hi t); apply Hq).
    assert (Hpin : forall t, pin (a3 t) = false).
    { intros t. destruct (pin (a3 t)) eqn:E; [|reflexivity]. pose proof (k8 _ _ _ F t E) as K. rewrite Hidle in K. discriminate. }
    assert (Hnd : forall j, ~ isdirty a3 j) by (intros j [u Hu]; destruct (k9 _ _ _ F u (Hpin u)) as (_ & E & _); congruence).
    pose proof (iC _ _ _ _ Hi) as [_ Hcap].
    split; [|split; [split|]].
    - intros i. split.
      + intros Hv. destruct (occ_le cap OK bsz Hbsz g a1 _ i Hi (k6 _ _ _ F) Hv) as (j & Hj & Hjc & Ej). exists j. split; [|exact Ej]. split; [lia|].
        destruct (Nat.le_gt_cases j (count g)) as [|Hgt]; [assumption|]. exfalso.
        destruct (iO _ _ _ _ Hi) as (O1 & _ & _). destruct (O1 j ltac:(lia)) as [_ K]. destruct (K Hgt) as [K1|[u K1]]; [rewrite Ej in K1; congruence|].
        destruct (k9 _ _ _ F u (Hpin u)) as (_ & _ & E & _). congruence.
      + intros (j & Hj & <-). apply (occ_ge cap bsz Hbsz g a1 _ j Hi (k6 _ _ _ F) Hj).
    - intros i Hv. apply (iT _ _ _ _ Hi). exact Hv.
    - intros i Hv. destruct (cellt g i) as [| |u] eqn:Et; [|reflexivity|exfalso; apply (k3 _ _ _ F i u Et)].
      exfalso. apply Hv. apply (iT _ _ _ _ Hi). exact Et.
    - intros k Hk x Hx. destruct (k5 _ _ _ F k (Nat.div2 k) x (anc1 k Hk) Hx) as (y & Hy & Hle). exists y. split; [exact Hy|]. apply Hle. apply Hnd.
  Qed.

  (** disciplined runs are valid LP traces of the bounded max-priority queue, with the linearization points at the
      size-lock acquisitions (push: "g_inc" / "g_full", pop: "g_dec" / "g_emp") *)
  Theorem mspq_phases_lp_valid hf lf ths c :
    Conc.reach (init_cfg cap bsz hf lf ths) c -> phased (Conc.trace c) = true -> lp_valid Sp (atrace cap (Conc.trace c)).
  Proof.
    intros Hr Hph. destruct (Conc.reach_Inv (cinit_ok hf lf ths) Hr) as ([[[a1 a2] a3] aS] & [[Hi He] Hx] & [B L]). cbn [fst snd] in *.
    unfold phased in Hph. apply negb_true_iff in Hph. destruct (dq (Conc.trace c)) eqn:Edq.
    - assert (Hdp : dp (Conc.trace c) = false).
      { unfold dq in Edq. rewrite Hph in Edq. cbn [orb] in Edq. unfold dp. rewrite Hph. cbn [orb].
        destruct (scan_excl _ Hph) as [E|E]; [rewrite E; reflexivity|rewrite E in Edq; discriminate]. }
      destruct Hx as (_ & _ & _ & _ & U5). destruct (U5 Hdp) as [_ (s & stt & oS & o1 & Hrun & _)]. exists (s, stt). exact Hrun.
    - destruct (L eq_refl) as (_ & s & stt & Hrun & _). exists (s, stt). exact Hrun.
  Qed.

  Theorem mspq_phases_linearizable hf lf ths c :
    Conc.reach (init_cfg cap bsz hf lf ths) c -> phased (Conc.trace c) = true ->
    linearizable Sp (hist_of cap (Conc.trace c)).
  Proof.
    intros Hr Hph. rewrite <- erase_atrace. apply lp_valid_linearizable. apply (mspq_phases_lp_valid hf lf ths c Hr Hph).
  Qed.

  (** the hypothesis of the property is stated on the HISTORY ([MsPqPhase.no_push_pop_overlap]); on reachable traces it
      implies the discipline read off the trace *)
  Lemma overlap_free_phased hf lf ths c :
    Conc.reach (init_cfg cap bsz hf lf ths) c -> no_push_pop_overlap (hist_of cap (Conc.trace c)) = true -> phased (Conc.trace c) = true.
  Proof.
    intros Hr Hno. destruct (Conc.reach_Inv (cinit_ok hf lf ths) Hr) as ([aT aS] & _ & [B _]). cbn [fst snd] in *.
    destruct (phase_scan_hscan _ [] [] Hno) as ([P Q] & E). destruct (b6 _ _ _ B P Q E) as (Hb & _).
    unfold phased. rewrite Hb. reflexivity.
  Qed.

  Theorem mspq_phase_linearizable_sec hf lf ths c :
    Conc.reach (init_cfg cap bsz hf lf ths) c -> no_push_pop_overlap (hist_of cap (Conc.trace c)) = true ->
    linearizable Sp (hist_of cap (Conc.trace c)).
  Proof. intros Hr Hno. apply (mspq_phases_linearizable hf lf ths c Hr). apply (overlap_free_phased hf lf ths c Hr Hno). Qed.
End Stack.

(** the last clause of C11, as stated in LV.Proofs.MsPqPhase *)
Theorem mspq_phase_linearizable : mspq_phase_linearizable_statement.
Proof.
  intros cap OK SH bsz Hbsz hf lf ths c Hr Hno. apply (mspq_phase_linearizable_sec cap OK SH bsz Hbsz hf lf ths c Hr Hno).
Qed.

(** ** the capacities of the real code: capacity() = 2^k - 1 ([MsPqReal.rcap k]), any buffer size above it; the counter
    facts [slots_ok] / [shape_ok] are discharged by [MsPqBrcAll] (closed form, no bounded sweep) *)
Notation rcap := MsPqReal.rcap.

Theorem mspq_phases_heap_real k bsz hf lf ths c :
  k <= 61 -> rcap k < bsz -> Conc.reach (init_cfg (rcap k) bsz hf lf ths) c ->
  phased (Conc.trace c) = true -> (forall t, pend (Conc.trace c) t = false) ->
  Good (count (Conc.shared c)) (cellv (Conc.shared c)) (cellt (Conc.shared c)) /\
  Permutation (heap_items (rcap k) (Conc.shared c) ++ given_back (Conc.trace c)) (invoked (Conc.trace c)).
Proof. intros Hk Hb. apply (mspq_phases_heap (rcap k) (MsPqBrcAll.slots_ok_all k Hk) (MsPqBrcAll.shape_ok_all k Hk) bsz Hb). Qed.

Theorem mspq_phases_lp_valid_real k bsz hf lf ths c :
  k <= 61 -> rcap k < bsz -> Conc.reach (init_cfg (rcap k) bsz hf lf ths) c ->
  phased (Conc.trace c) = true -> lp_valid (BPQueue (rcap k)) (atrace (rcap k) (Conc.trace c)).
Proof. intros Hk Hb. apply (mspq_phases_lp_valid (rcap k) (MsPqBrcAll.slots_ok_all k Hk) (MsPqBrcAll.shape_ok_all k Hk) bsz Hb). Qed.

Theorem mspq_phase_linearizable_real k bsz hf lf ths c :
  k <= 61 -> rcap k < bsz -> Conc.reach (init_cfg (rcap k) bsz hf lf ths) c ->
  no_push_pop_overlap (hist_of (rcap k) (Conc.trace c)) = true ->
  linearizable (BPQueue (rcap k)) (hist_of (rcap k) (Conc.trace c)).
Proof. intros Hk Hb. apply (mspq_phase_linearizable (rcap k) (MsPqBrcAll.slots_ok_all k Hk) (MsPqBrcAll.shape_ok_all k Hk) bsz Hb). Qed.

(** ** the two-phase discipline of LV.Proofs.MsPqPop (a push phase followed by a pop phase: [MsPqPop.twophase], the
    hypothesis of the two-phase theorems of Properties_C11.v) is an instance of the phase discipline *)
Lemma scan_old_new tr :
  MsPqPop.pp (MsPqPop.scan_of tr) = pp2 (scan2_of tr) /\ MsPqPop.seen (MsPqPop.scan_of tr) = seen2 (scan2_of tr) /\
  MsPqPop.bad (MsPqPop.scan_of tr) = bad2 (scan2_of tr).
Proof.
  induction tr as [|e tr IH] using rev_ind; [cbn; auto|]. unfold MsPqPop.scan_of, scan2_of in *. rewrite !fold_left_app. cbn [fold_left].
  set (s := fold_left MsPqPop.scan_step tr _) in *. set (s2 := fold_left scan2_step tr _) in *. destruct IH as (E1 & E2 & E3).
  unfold MsPqPop.scan_step, scan2_step. destruct (snd e) as [| n args]; [auto|].
  destruct (String.eqb n "inv_push"); [cbn; rewrite E1, E2, E3; auto|].
  destruct (String.eqb n "ret_push"); [cbn; rewrite E1, E2, E3; auto|].
  destruct (String.eqb n "inv_pop"); [cbn; rewrite E1, E3; auto|auto].
Qed.

Lemma twophase_old_new tr : MsPqPop.twophase tr = twophase tr.
Proof. unfold MsPqPop.twophase, twophase. destruct (scan_old_new tr) as (_ & _ & E). rewrite E. reflexivity. Qed.

Theorem twophase_is_phased tr : MsPqPop.twophase tr = true -> phased tr = true.
Proof. rewrite twophase_old_new. apply twophase_phased. Qed.
