(** * C28_Metrics — what feldman_hashset::details::metrics::make establishes, for every argument. *)
Require Import ZArith Lia List Bool.
Require Import LV.Base.CInt LV.Model.FeldmanPath.
Import ListNotations.
Local Open Scope Z_scope.

(** the normalisation, mathematically *)
Definition norm_array (array_bits : Z) : Z := Z.max array_bits 2.
Definition clamp_head (head_bits hash_bits : Z) : Z := Z.min (Z.max head_bits 4) hash_bits.
Definition norm_head (head_bits array_bits hash_bits : Z) : Z :=
  clamp_head head_bits hash_bits + (hash_bits - clamp_head head_bits hash_bits) mod norm_array array_bits.
(** number of array levels below the head *)
Definition levels (head_bits array_bits hash_bits : Z) : Z :=
  (hash_bits - norm_head head_bits array_bits hash_bits) / norm_array array_bits.

Lemma p64 : 2 ^ 64 = 18446744073709551616. Proof. reflexivity. Qed.

Lemma c_rem_u64 x y : 0 <= x < 2 ^ 64 -> 0 < y -> c_rem u64 x y = Some (x mod y).
Proof.
  intros Hx Hy. unfold c_rem. replace (y =? 0) with false by (symmetry; apply Z.eqb_neq; lia).
  assert (0 <= Z.quot x y <= x).
  { rewrite Z.quot_div_nonneg by lia. split; [apply Z.div_pos; lia|].
    apply Z.div_le_upper_bound; [lia|]. nia. }
  replace (in_rangeb u64 (Z.quot x y)) with true.
  - now rewrite Z.rem_mod_nonneg by lia.
  - symmetry. apply in_rangeb_spec. unfold in_range, imin, imax. simpl isigned. cbv iota. simpl ibits. lia.
Qed.

Lemma usub_u64_small a b : 0 <= b <= a -> a < 2 ^ 64 -> usub u64 a b = a - b.
Proof. intros. unfold usub. simpl ibits. apply Z.mod_small. lia. Qed.

Lemma uadd_u64_small a b : 0 <= a -> 0 <= b -> a + b < 2 ^ 64 -> uadd u64 a b = a + b.
Proof. intros. unfold uadd. simpl ibits. apply Z.mod_small. lia. Qed.

Lemma c_shl_u64_one n : c_shl u64 1 n = if (0 <=? n) && (n <? 64) then Some (2 ^ n) else None.
Proof.
  unfold c_shl, shift_ok. simpl ibits. simpl isigned.
  destruct ((0 <=? n) && (n <? 64)) eqn:E; [|reflexivity].
  apply andb_true_iff in E as [E1 E2]. apply Z.leb_le in E1. apply Z.ltb_lt in E2.
  rewrite Z.shiftl_mul_pow2, Z.mul_1_l by lia. f_equal. apply Z.mod_small.
  split; [apply Z.pow_nonneg; lia|]. apply Z.pow_lt_mono_r; lia.
Qed.

Lemma norm_bounds head array Hb : 0 <= head -> 0 <= array -> 4 <= Hb ->
  let c := clamp_head head Hb in let h' := norm_head head array Hb in let a' := norm_array array in
  4 <= c <= Hb /\ c <= h' <= Hb /\ h' < c + a' /\ 2 <= a' /\ (Hb - h') mod a' = 0 /\
  Hb = h' + levels head array Hb * a' /\ 0 <= levels head array Hb.
Proof.
  intros Hh Ha HHb c h' a'. unfold levels. fold h' a'.
  assert (Hc : 4 <= c <= Hb) by (unfold c, clamp_head; lia).
  assert (Ha' : 2 <= a') by (unfold a', norm_array; lia).
  pose proof (Z.mod_pos_bound (Hb - c) a' ltac:(lia)) as Hm.
  pose proof (Z.mod_le (Hb - c) a' ltac:(lia) ltac:(lia)) as Hle.
  assert (Hh' : h' = c + (Hb - c) mod a') by reflexivity.
  assert (Hq : Hb - h' = (Hb - c) / a' * a').
  { rewrite Hh'. rewrite Z.mod_eq by lia. lia. }
  repeat split; try lia.
  - rewrite Hq. apply Z.mod_mul. lia.
  - rewrite Hq. rewrite Z.div_mul by lia. lia.
  - rewrite Hq. rewrite Z.div_mul by lia. apply Z.div_pos; lia.
Qed.

(** the generated-style code computes exactly the normalisation; undefined behaviour ([None]) exactly when one of
    the two [size_t(1) << bits] shifts by 64 or more *)
Lemma make_spec head array size : 0 <= head < 2 ^ 64 -> 0 <= array < 2 ^ 64 -> 1 <= size <= 8 ->
  let h' := norm_head head array (8 * size) in let a' := norm_array array in
  metrics_make head array size =
    if (h' <? 64) && (a' <? 64) then Some (mk_metrics (2 ^ h') h' (2 ^ a') a') else None.
Proof.
  intros Hh Ha Hs h' a'. rewrite p64 in *.
  destruct (norm_bounds head array (8 * size) ltac:(lia) ltac:(lia) ltac:(lia)) as (Hc & Hh' & Hlt & Ha' & _).
  fold h' a' in Hh', Hlt, Ha'.
  unfold metrics_make.
  assert (Hhb : umul u64 size 8 = 8 * size).
  { unfold umul. simpl ibits. rewrite Z.mod_small; lia. }
  rewrite Hhb. unfold c_lt, c_gt, c_ne.
  (* array clamp *)
  assert (Ea : (if array <? 2 then Some 2 else Some array) = Some a').
  { unfold a', norm_array. destruct (array <? 2) eqn:E; [apply Z.ltb_lt in E | apply Z.ltb_ge in E]; f_equal; lia. }
  rewrite Ea. cbn [obind].
  assert (E1 : (if head <? 4 then Some 4 else Some head) = Some (Z.max head 4)).
  { destruct (head <? 4) eqn:E; [apply Z.ltb_lt in E | apply Z.ltb_ge in E]; f_equal; lia. }
  rewrite E1. cbn [obind].
  assert (E2 : (if 8 * size <? Z.max head 4 then Some (8 * size) else Some (Z.max head 4))
               = Some (clamp_head head (8 * size))).
  { unfold clamp_head. destruct (8 * size <? Z.max head 4) eqn:E; [apply Z.ltb_lt in E | apply Z.ltb_ge in E]; f_equal; lia. }
  rewrite E2. cbn [obind].
  set (c := clamp_head head (8 * size)) in *.
  rewrite usub_u64_small by lia.
  rewrite c_rem_u64 by lia. cbn [obind].
  assert (E3 : (if negb ((8 * size - c) mod a' =? 0)
                then Some (uadd u64 c ((8 * size - c) mod a')) else Some c) = Some h').
  { assert (h' = c + (8 * size - c) mod a') by reflexivity.
    destruct ((8 * size - c) mod a' =? 0) eqn:E; cbn [negb obind].
    - apply Z.eqb_eq in E. f_equal. lia.
    - f_equal. rewrite uadd_u64_small; lia. }
  rewrite E3. cbn [obind].
  rewrite !c_shl_u64_one.
  replace (0 <=? h') with true by (symmetry; apply Z.leb_le; lia).
  replace (0 <=? a') with true by (symmetry; apply Z.leb_le; lia).
  cbn [andb].
  destruct (h' <? 64); cbn [obind andb]; [|reflexivity].
  destruct (a' <? 64); cbn [obind]; reflexivity.
Qed.

(** [make_normalises]: everything the code guarantees about the result *)
Lemma make_normalises_all head array size : 0 <= head < 2 ^ 64 -> 0 <= array < 2 ^ 64 -> 1 <= size <= 8 ->
  let W := 8 * size in
  let h' := norm_head head array W in let a' := norm_array array in let n := levels head array W in
  (* the bounds *)
  4 <= h' <= W /\ Z.min (Z.max head 4) W <= h' < Z.min (Z.max head 4) W + a' /\
  2 <= a' /\ a' = Z.max array 2 /\
  (* the remainder is moved into the head: every array level is exactly a' bits wide, none is narrower *)
  (W - h') mod a' = 0 /\ W = h' + n * a' /\ 0 <= n /\
  (* result, and undefined behaviour exactly for a 2^64 head or a >= 2^64 array node *)
  (h' < 64 -> a' < 64 ->
     metrics_make head array size = Some (mk_metrics (2 ^ h') h' (2 ^ a') a')) /\
  (64 <= h' \/ 64 <= a' -> metrics_make head array size = None).
Proof.
  intros Hh Ha Hs W h' a' n.
  destruct (norm_bounds head array W ltac:(lia) ltac:(lia) ltac:(unfold W; lia)) as (Hc & Hh' & Hlt & Ha' & Hm & HW & Hn).
  fold h' a' n in Hh', Hlt, Ha', Hm, HW, Hn. unfold clamp_head in *.
  pose proof (make_spec head array size Hh Ha Hs) as Hmk. cbv zeta in Hmk. fold W h' a' in Hmk.
  repeat split; try lia; try reflexivity; try assumption.
  - intros H1 H2. rewrite Hmk.
    replace (h' <? 64) with true by (symmetry; apply Z.ltb_lt; lia).
    replace (a' <? 64) with true by (symmetry; apply Z.ltb_lt; lia). reflexivity.
  - intros [H1|H1]; rewrite Hmk.
    + replace (h' <? 64) with false by (symmetry; apply Z.ltb_ge; lia). reflexivity.
    + replace (a' <? 64) with false by (symmetry; apply Z.ltb_ge; lia). now rewrite andb_false_r.
Qed.
