(** * DhpConsSTrace: what a trace says about one thread's attachment: the objects it handed to retire() since its last
      "_att" event ([mine]), the record of that event ([latt]), and whether its last event is a "_scanb r" ([lsb]). *)
From Coq Require Import ZArith NArith List String Bool Lia PeanoNat.
From LV Require Import Base.Conc Base.Events Model.DhpLang Model.Dhp Proofs.DhpBase Proofs.DhpHist Proofs.DhpInvB.
Import ListNotations.

Definition mine_step (t : nat) (acc : list nat) (te : nat * ev) : list nat :=
  if Nat.eqb (fst te) t then match classify (snd te) with HAtt _ => [] | _ => retired_ev (snd te) ++ acc end else acc.
Definition mine (tr : list (nat * ev)) (t : nat) : list nat := fold_left (mine_step t) tr [].

Definition latt_step (t : nat) (acc : option nat) (te : nat * ev) : option nat :=
  if Nat.eqb (fst te) t then match classify (snd te) with HAtt r => Some r | _ => acc end else acc.
Definition latt (tr : list (nat * ev)) (t : nat) : option nat := fold_left (latt_step t) tr None.

Definition lsb_step (t : nat) (acc : option nat) (te : nat * ev) : option nat :=
  if Nat.eqb (fst te) t then match classify (snd te) with HScanb r => Some r | _ => None end else acc.
Definition lsb (tr : list (nat * ev)) (t : nat) : option nat := fold_left (lsb_step t) tr None.

Lemma mine_app tr es t : mine (tr ++ es) t = fold_left (mine_step t) es (mine tr t).
Proof. unfold mine. apply fold_left_app. Qed.
Lemma latt_app tr es t : latt (tr ++ es) t = fold_left (latt_step t) es (latt tr t).
Proof. unfold latt. apply fold_left_app. Qed.
Lemma lsb_app tr es t : lsb (tr ++ es) t = fold_left (lsb_step t) es (lsb tr t).
Proof. unfold lsb. apply fold_left_app. Qed.

(** events that change none of the three for their own thread *)
Definition hq (e : ev) : Prop :=
  retired_ev e = [] /\ match classify e with HAtt _ | HScanb _ => False | _ => True end.

Definition HSame (tr tr' : list (nat * ev)) : Prop :=
  forall t, mine tr' t = mine tr t /\ latt tr' t = latt tr t /\ (forall r, lsb tr' t = Some r -> lsb tr t = Some r).

Lemma HSame_refl tr : HSame tr tr.
Proof. intros t. repeat split; auto. Qed.
#[export] Hint Resolve HSame_refl : core.

Lemma fold_other {B} (f : nat -> B -> nat * ev -> B) t t' es :
  (forall acc te, fst te = t' -> f t acc te = acc) -> forall acc, fold_left (f t) (Conc.tag t' es) acc = acc.
Proof. intros Hf. unfold Conc.tag. induction es as [|e es IH]; intros acc; cbn; auto. rewrite Hf by reflexivity. apply IH. Qed.

Lemma mine_other tr t t' es : t' <> t -> mine (tr ++ Conc.tag t' es) t = mine tr t.
Proof. intros N. rewrite mine_app. apply (fold_other mine_step). intros acc te E. unfold mine_step. rewrite E. destruct (Nat.eqb_spec t' t); [contradiction|reflexivity]. Qed.
Lemma latt_other tr t t' es : t' <> t -> latt (tr ++ Conc.tag t' es) t = latt tr t.
Proof. intros N. rewrite latt_app. apply (fold_other latt_step). intros acc te E. unfold latt_step. rewrite E. destruct (Nat.eqb_spec t' t); [contradiction|reflexivity]. Qed.
Lemma lsb_other tr t t' es : t' <> t -> lsb (tr ++ Conc.tag t' es) t = lsb tr t.
Proof. intros N. rewrite lsb_app. apply (fold_other lsb_step). intros acc te E. unfold lsb_step. rewrite E. destruct (Nat.eqb_spec t' t); [contradiction|reflexivity]. Qed.

Lemma mine_hq t es : Forall hq es -> forall acc, fold_left (mine_step t) (Conc.tag t es) acc = acc.
Proof.
  unfold Conc.tag. induction es as [|e es IH]; intros Hq acc; cbn; auto. inversion Hq as [|? ? (E1 & E2) Hq']; subst.
  unfold mine_step at 2. cbn [fst snd]. rewrite Nat.eqb_refl, E1. destruct (classify e); try contradiction; cbn; now apply IH.
Qed.
Lemma latt_hq t es : Forall hq es -> forall acc, fold_left (latt_step t) (Conc.tag t es) acc = acc.
Proof.
  unfold Conc.tag. induction es as [|e es IH]; intros Hq acc; cbn; auto. inversion Hq as [|? ? (E1 & E2) Hq']; subst.
  unfold latt_step at 2. cbn [fst snd]. rewrite Nat.eqb_refl. destruct (classify e); try contradiction; cbn; now apply IH.
Qed.
Lemma lsb_hq t es : Forall hq es -> forall acc r, fold_left (lsb_step t) (Conc.tag t es) acc = Some r -> acc = Some r.
Proof.
  unfold Conc.tag. induction es as [|e es IH]; intros Hq acc r; cbn; auto. inversion Hq as [|? ? (E1 & E2) Hq']; subst.
  unfold lsb_step at 2. cbn [fst snd]. rewrite Nat.eqb_refl. intros H. apply (IH Hq') in H.
  destruct (classify e); try contradiction; discriminate.
Qed.

Lemma HSame_hq tr t es : Forall hq es -> HSame tr (tr ++ Conc.tag t es).
Proof.
  intros Hq t'. destruct (Nat.eq_dec t t') as [<-|N].
  - rewrite mine_app, latt_app, lsb_app, mine_hq, latt_hq by exact Hq. repeat split; auto. intros r. apply lsb_hq. exact Hq.
  - rewrite mine_other, latt_other, lsb_other by exact N. repeat split; auto.
Qed.

(** single events of the thread itself *)
Lemma mine_snoc tr t e : mine (tr ++ [(t, e)]) t = match classify e with HAtt _ => [] | _ => retired_ev e ++ mine tr t end.
Proof. rewrite mine_app. cbn. unfold mine_step. cbn. now rewrite Nat.eqb_refl. Qed.
Lemma latt_snoc tr t e : latt (tr ++ [(t, e)]) t = match classify e with HAtt r => Some r | _ => latt tr t end.
Proof. rewrite latt_app. cbn. unfold latt_step. cbn. now rewrite Nat.eqb_refl. Qed.
Lemma lsb_snoc tr t e : lsb (tr ++ [(t, e)]) t = match classify e with HScanb r => Some r | _ => None end.
Proof. rewrite lsb_app. cbn. unfold lsb_step. cbn. now rewrite Nat.eqb_refl. Qed.
Lemma mine_snoc_other tr t t' e : t' <> t -> mine (tr ++ [(t', e)]) t = mine tr t.
Proof. intros N. apply (mine_other tr t t' [e] N). Qed.
Lemma latt_snoc_other tr t t' e : t' <> t -> latt (tr ++ [(t', e)]) t = latt tr t.
Proof. intros N. apply (latt_other tr t t' [e] N). Qed.
Lemma lsb_snoc_other tr t t' e : t' <> t -> lsb (tr ++ [(t', e)]) t = lsb tr t.
Proof. intros N. apply (lsb_other tr t t' [e] N). Qed.
