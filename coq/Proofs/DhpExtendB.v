(** * DhpExtendB: thread_hp_storage::extend / alloc / free keep the C02 invariant and return to the caller's view. *)
From Coq Require Import ZArith NArith List String Bool Lia PeanoNat.
From LV Require Import Base.Conc Base.Events Model.DhpLang Model.Dhp Proofs.DhpBase Proofs.DhpHist
  Proofs.DhpLangProofs Proofs.DhpInvA Proofs.DhpStepsA Proofs.DhpQuietA Proofs.DhpSlotA Proofs.DhpScanA Proofs.DhpScanC
  Proofs.DhpScanD Proofs.DhpPresA Proofs.DhpAllocA Proofs.DhpAllocB Proofs.DhpAllocC Proofs.DhpViewA Proofs.DhpLinkA Proofs.DhpRulesA
  Proofs.DhpExtendA.
Import ListNotations.

Section ExtendB.
  Variable c : cfg.
  Notation dsafeA := (@dsafe G ev AuxA VA viewA (InvA c)).

  (** a pure load that updates the bookkeeping fields of the view *)
  Lemma dsafe_load_en {X R} t (f : A X) (k : X -> @dprog G ev R) l (e : G -> option (option nat * bool)) (n : G -> option nat) Q :
    (forall g, fst (fst (f g)) = g /\ Forall qev (snd (f g))) ->
    (forall g a h, viewA a t = l -> JA c g a h ->
       (forall e0 fl, e g = Some (e0, fl) -> exists r, va_tls l = Some r /\ r_ext (grec g r) = e0 /\
                                              (fl = true -> exists b, va_blk l = Some b /\ gb_nextb (ggb g b) = e0)) /\
       (forall n0, n g = Some n0 -> after g (tlist g) n0)) ->
    (forall g, dsafeA t (k (snd (fst (f g)))) (with_en l (e g) (n g)) Q) -> dsafeA t (DAct f k) l Q.
  Proof.
    intros Hf Hc Hk. apply dsafe_act_J.
    - intros g. destruct (Hf g) as (_ & Hq). intros ev0 He. rewrite Forall_forall in Hq. now apply qev_not_dispose, Hq.
    - intros g a tr Hv. destruct (Hf g) as (Eg & Hq).
      exists (upd_aux a t (with_en l (e g) (n g)) (bown a)). split; [apply frame_upd_aux|]. split.
      + intros Hfl J. rewrite Eg. rewrite hist_app. pose proof (hQ_fold_quiet t _ (hist tr) Hq) as Hh.
        assert (J' : JA c g a (fold_left hstep (Conc.tag t (snd (f g))) (hist tr))).
        { eapply JA_quiet; [apply piA_refl|apply hQ_hA; exact Hh|apply hQ_scan; exact Hh|apply hQ_freeh; exact Hh| |exact J].
          intros s. destruct Hh as (B1&_). rewrite B1. apply (ja_slot _ _ _ _ J). }
        destruct (Hc g a _ Hv J') as (C1 & C2). apply JA_view_en; auto.
      + unfold viewA. rewrite upd_aux_same. apply Hk.
  Qed.

  Lemma with_en_id l : with_en l (va_e l) (va_node l) = l.
  Proof. destruct l; reflexivity. Qed.

  (** thread_hp_storage::extend *)
  Lemma spec_hp_extend t r l : va_tls l = Some r -> va_blk l = None -> va_e l = None ->
    dsafeA t (hp_extend c r) l (fun o l' => match o with Some _ => l' = l | None => True end).
  Proof.
    intros Htls Hb He. unfold hp_extend.
    apply dsafe_xbind. eapply dsafe_weaken; [|apply (spec_hp_alloc c t l Hb He)].
    intros [b|] l1 K; [|exact I]. subst l1. set (l1 := with_blk l (Some b)).
    unfold xbind at 1. unfold act at 1. cbn [dbind].
    apply (dsafe_load_en t (a_ld_ext r) _ l1 (fun g => Some (r_ext (grec g r), false)) (fun _ => va_node l1)).
    - intros g. cbn. split; auto. repeat constructor.
    - intros g a h Hv J. split.
      + intros e0 fl E. inversion E; subst. exists r. split; [exact Htls|]. split; auto. discriminate.
      + intros n0 E. apply (ja_node _ _ _ _ J t). unfold viewA in Hv. rewrite Hv. exact E.
    - intros g. cbn [a_ld_ext fst snd]. set (e := r_ext (grec g r)). set (l2 := with_en l1 (Some (e, false)) (va_node l1)).
      unfold xbind at 1. unfold loc at 1. cbn [dbind].
      apply dsafe_loc_J. intros g1 a1 tr1 Hv1.
      exists (upd_aux a1 t (with_e l2 (Some (e, true))) (bown a1)). split; [apply frame_upd_aux|]. split.
      + intros _ J. cbn [fst]. eapply JA_nextb; eauto.
      + unfold viewA. rewrite upd_aux_same. cbn [snd]. set (l3 := with_e l2 (Some (e, true))).
        unfold xbind at 1. unfold act at 1. cbn [dbind].
        apply dsafe_act_J.
        * intros g2. unfold a_st_ext_g. cbn [snd]. apply nodisp_app; [apply nodisp_acc|apply nodisp_one, nd_link].
        * intros g2 a2 tr2 Hv2.
          exists (upd_aux a2 t (with_blk_e l3 None None) (fun x => if Nat.eqb x b then BLinked r else bown a2 x)).
          split; [apply frame_upd_aux|]. split.
          -- intros _ J. cbn [a_st_ext_g fst snd]. rewrite hist_app. cbn [Conc.tag map app fold_left acc].
             rewrite hstep_acc, hstep_link. cbn [hlen slotv lastw att linked scan freeh flbad].
             eapply (JA_link c g2 a2 (hist tr2) t l3 r b e); eauto.
          -- unfold viewA. rewrite upd_aux_same. cbn [a_st_ext_g fst snd].
             assert (El : with_blk_e l3 None None = l) by (destruct l; cbn in *; subst; reflexivity).
             rewrite El. apply dsafe_loc_quiet; [intros g3; apply quietG_fhead|]. intros []. cbn. reflexivity.
  Qed.

  (** thread_hp_storage::alloc() *)
  Lemma spec_hp_galloc t r l : va_tls l = Some r -> va_blk l = None -> va_e l = None ->
    dsafeA t (hp_galloc c r) l (fun o l' => match o with Some _ => l' = l | None => True end).
  Proof.
    intros Htls Hb He. unfold hp_galloc.
    unfold xbind at 1. unfold loc at 1. cbn [dbind].
    apply dsafe_loc_quiet'; [intros g; apply quietG_refl|]. intros g. cbn [fst snd].
    apply dsafe_xbind.
    assert (Hx : dsafeA t (match r_fhead (grec g r) with None => hp_extend c r | Some _ => ret tt end) l
                   (fun o l' => match o with Some _ => l' = l | None => True end)).
    { destruct (r_fhead (grec g r)); [cbn; reflexivity|now apply spec_hp_extend]. }
    eapply dsafe_weaken; [|exact Hx]. intros [x|] l1 K; [|exact I]. subst l1.
    unfold loc. apply dsafe_loc_quiet'.
    - intros g1. destruct (r_fhead (grec g1 r)); cbn; [apply quietG_fhead|apply quietG_refl].
    - intros g1. cbn. reflexivity.
  Qed.

  (** thread_hp_storage::free( g ) *)
  Lemma neut_hp_gfree r s : neutP c (hp_gfree r s).
  Proof.
    unfold hp_gfree. apply neutP_xbind; [apply neutP_st_slot|intros _].
    apply quietP_neutP, quietP_loc. intros g. cbn.
    eapply quietG_trans; [apply quietG_snext_set|apply quietG_fhead].
  Qed.
End ExtendB.
