(** * Theorems about the wrapped Vyukov model (LV.Model.VyukovWrap), read off LV.Proofs.VyukovWrapLin.
      The statements of LV.Proofs.VyukovTheorems with the hypothesis "fewer than 2^62 - 2^k enqueue claims in total"
      ([claims_bound]) replaced by [fresh]: no thread sleeps through 2^62 enqueue claims between two of its own
      steps.  The run may be arbitrarily long and may start at any position [s0] (also just below 2^63 and 2^64).
      Positions and sequence numbers of the concrete state are the ghost ones modulo 2^64 ([Rel]).

      Also here: the finding about the strict (C++ standard) reading of the signed difference. *)
From Coq Require Import String ZArith List Bool Lia PeanoNat.
From LV Require Import Base.Conc Base.Events Base.CInt Base.Lin Spec.Specs Model.Vyukov Model.VyukovWrap
                       Proofs.VyukovSpec Proofs.VyukovArith Proofs.VyukovCore Proofs.VyukovLin Proofs.LinProofs
                       Proofs.VyukovTheorems Proofs.VyukovWrapArith Proofs.VyukovWrapCore Proofs.VyukovWrapLin.
Import ListNotations.
Local Open Scope Z_scope.

(** the old hypothesis implies the new one *)
Lemma fresh_of_claims_bound k tr : claims_bound k tr -> fresh tr.
Proof.
  unfold claims_bound. intros H. apply claims_fresh. unfold L62.
  assert (0 < 2 ^ Z.of_nat k) by (apply Z.pow_pos_nonneg; lia). lia.
Qed.

(** [fresh], computed (for concrete traces) *)
Fixpoint fresh_from (pre_rev rest : list (nat * ev)) : bool :=
  match rest with
  | [] => true
  | e :: r => (since_r pre_rev (fst e) <? L62) && fresh_from (e :: pre_rev) r
  end.
Definition freshb (tr : list (nat * ev)) : bool := fresh_from [] tr.

Lemma fresh_from_ok rest : forall pre, fresh_from (rev pre) rest = true ->
  forall p e post, rest = p ++ e :: post -> since (pre ++ p) (fst e) < L62.
Proof.
  induction rest as [|x rest IH]; intros pre H p e post E.
  - destruct p; discriminate.
  - cbn [fresh_from] in H. apply andb_true_iff in H. destruct H as [H1 H2].
    destruct p as [|y p]; cbn [app] in E; inversion E; subst.
    + rewrite app_nil_r. unfold since. apply Z.ltb_lt. exact H1.
    + replace (pre ++ y :: p) with ((pre ++ [y]) ++ p) by (rewrite <- app_assoc; reflexivity).
      apply (IH (pre ++ [y])) with (post := post); auto. rewrite rev_app_distr. exact H2.
Qed.

Lemma freshb_ok tr : freshb tr = true -> fresh tr.
Proof. intros H pre e post E. apply (fresh_from_ok tr [] H pre e post E). Qed.

(** what a start state must satisfy: it is the image of a ghost state that satisfies the invariant *)
Definition start_ok (k : nat) (sc : option nat) (mp : bool) (e0 : Z) (g0 : G) : Prop :=
  exists gg0, Rel k g0 gg0 /\ RealInv k sc e0 (list (aev (VQ (2 ^ k)))) (Ext07 k mp) gg0 (caux0 k) [].

Lemma start_ok_at k q sc mp s0 :
  (1 <= k)%nat -> (k <= 61)%nat -> qcap q = 2 ^ Z.of_nat k -> 0 <= s0 -> start_ok k sc mp s0 (init_at q s0).
Proof. intros Hk Hk61 Hq Hs. exists (gh0 k s0). split; [exact (init_rel k q Hq s0)|exact (winit_real k Hk Hk61 sc mp s0 Hs)]. Qed.

Lemma start_ok_init k sc mp : (1 <= k)%nat -> (k <= 61)%nat -> start_ok k sc mp 0 init.
Proof. intros Hk Hk61. exists init. split; [exact (init_rel0 k Hk Hk61)|exact (init_real k Hk sc mp)]. Qed.

Lemma cell_add_mod k p i : (1 <= k)%nat -> (k <= 61)%nat -> cell k (p mod m64 + i) = cell k (p + i).
Proof.
  intros Hk Hk61. unfold cell. rewrite Zplus_mod. fold (cell k (p mod m64)). rewrite (cell_mod k Hk Hk61).
  unfold cell. rewrite <- Zplus_mod. reflexivity.
Qed.

Section WTheorems.
  Variable k : nat.
  Hypothesis Hk : (1 <= k)%nat.
  Hypothesis Hk61 : (k <= 61)%nat.
  Variable q : qcfg.
  Hypothesis Hq : qcap q = 2 ^ Z.of_nat k.
  Variable fuel : nat.
  Variable ths : list (list op).

  Notation capn := (2 ^ k)%nat.
  Notation cap := (2 ^ Z.of_nat k).
  Notation cell := (VyukovArith.cell k).

  Section AnyMode.
    Variable sc : option nat.
    Variable mp : bool.
    Variable e0 : Z.
    Variable g0 : G.
    Hypothesis H0 : start_ok k sc mp e0 g0.
    Hypothesis Hal : programs_allowed sc mp ths.
    Variable c : Conc.config G V ev.
    Hypothesis Hr : Conc.reach (cfg_from q g0 fuel ths) c.
    Hypothesis Hf : fresh (Conc.trace c).

    Let g := Conc.shared c.

    Lemma wreal : exists a : WAux (list (aev (VQ capn))),
      Rel k g (gh _ a) /\ RealInv k sc e0 _ (Ext07 k mp) (gh _ a) (core _ a) (Conc.trace c).
    Proof.
      destruct H0 as (gg0 & R0 & I0).
      exact (wreach_real_gen k Hk Hk61 q Hq sc mp e0 g0 gg0 fuel ths c R0 I0 Hal Hr Hf).
    Qed.

    (** the ghost positions: unbounded integers of which the stored positions and sequence numbers are the
        residues; they satisfy the order and cell-phase invariants, and m_posEnqueue counts the claims *)
    Theorem vyukovw_ghost_state :
      exists gg : G,
        posE g = posE gg mod m64 /\ posD g = posD gg mod m64 /\
        (forall i, 0 <= i < cap -> seqs g i = seqs gg i mod m64) /\
        posE gg = e0 + nclaims (Conc.trace c) /\
        0 <= posD gg /\ posD gg <= posE gg /\ posE gg <= posD gg + cap /\
        forall p,
          (posD gg <= p < posE gg -> seqs gg (cell p) = p + 1 \/ seqs gg (cell p) = p) /\
          (posE gg <= p < posD gg + cap -> seqs gg (cell p) = p \/ seqs gg (cell p) = p - cap + 1).
    Proof.
      destruct wreal as (a & HR & R). exists (gh _ a).
      destruct HR as [A B C D E]. pose proof (ri_pos _ _ _ _ _ _ _ _ R) as (P1 & P2 & P3).
      repeat split; auto.
      - exact (ri_claims _ _ _ _ _ _ _ _ R).
      - intros Hp. destruct (ri_used _ _ _ _ _ _ _ _ R p Hp) as [H|[H _]]; auto.
      - intros Hp. destruct (ri_free _ _ _ _ _ _ _ _ R p Hp) as [H|[H _]]; auto.
    Qed.

    (** the occupancy as the code computes it, in size_t: m_posEnqueue - m_posDequeue lies in [0, capacity] *)
    Theorem vyukovw_occupancy : 0 <= usub u64 (posE g) (posD g) <= cap.
    Proof.
      destruct wreal as (a & HR & R). pose proof (ri_pos _ _ _ _ _ _ _ _ R) as (P1 & P2 & P3).
      rewrite (rel_E _ _ _ HR), (rel_D _ _ _ HR), usub_mod. pose proof (cap_le_61 k Hk Hk61).
      rewrite Z.mod_small; [lia|]. rewrite m64_val. assert (2 ^ 61 = 2305843009213693952) by reflexivity. lia.
    Qed.

    (** the LP-annotated trace: valid against the specification, its erasure is the history of the trace, its
        final abstract state is the content of the cells from m_posDequeue on, as many as the size_t difference of
        the positions says *)
    Theorem vyukovw_lp_trace :
      exists (atr : list (aev (VQ capn))) (qs : list Z) (S : nat -> status (VQ capn)),
        lp_run lp_init atr = Some (qs, S) /\
        erase atr = hist capn (Conc.trace c) /\
        Z.of_nat (length qs) = usub u64 (posE g) (posD g) /\
        (forall i, (i < length qs)%nat -> nth_error qs i = Some (datas g (cell (posD g + Z.of_nat i)))) /\
        no_ub (Conc.trace c) = true /\
        (mp = true -> exists atr', unemb atr = Some atr' /\ erase atr' = hist_b capn (Conc.trace c)).
    Proof.
      destruct wreal as (a & HR & R).
      destruct (ri_ext _ _ _ _ _ _ _ _ R) as ((S & E1 & _) & E2 & E3 & E4).
      exists (ext _ (core _ a)), (absq _ (core _ a)), S. repeat split; auto.
      - pose proof (ri_pos _ _ _ _ _ _ _ _ R) as (P1 & P2 & P3).
        rewrite (ri_len _ _ _ _ _ _ _ _ R), (rel_E _ _ _ HR), (rel_D _ _ _ HR), usub_mod.
        pose proof (cap_le_61 k Hk Hk61). symmetry. apply Z.mod_small.
        rewrite m64_val. assert (2 ^ 61 = 2305843009213693952) by reflexivity. lia.
      - intros i Hi. rewrite (ri_content _ _ _ _ _ _ _ _ R i Hi), (rel_D _ _ _ HR), (cell_add_mod k _ _ Hk Hk61).
        rewrite (rel_dat _ _ _ HR). reflexivity.
    Qed.

    Theorem vyukovw_no_loss_no_dup :
      exists (atr : list (aev (VQ capn))) (qs : list Z),
        lp_valid (VQ capn) atr /\ erase atr = hist capn (Conc.trace c) /\
        Z.of_nat (length qs) = usub u64 (posE g) (posD g) /\
        (forall i, (i < length qs)%nat -> nth_error qs i = Some (datas g (cell (posD g + Z.of_nat i)))) /\
        fst (moved capn lp_init atr) = snd (moved capn lp_init atr) ++ qs.
    Proof.
      destruct vyukovw_lp_trace as (atr & qs & S & E1 & E2 & E3 & E4 & _).
      exists atr, qs. repeat split; auto.
      - exists (qs, S). exact E1.
      - pose proof (conservation capn atr lp_init (qs, S) E1) as C. cbn [fst lp_init] in C. exact C.
    Qed.

    Theorem vyukovw_linearizable_vq :
      linearizable (VQ capn) (hist capn (Conc.trace c)).
    Proof.
      destruct vyukovw_lp_trace as (atr & qs & S & E1 & E2 & _).
      rewrite <- E2. apply lp_valid_linearizable. exists (qs, S). exact E1.
    Qed.

    Theorem vyukovw_lin_points :
      exists atr : list (aev (VQ capn)),
        lp_valid (VQ capn) atr /\ erase atr = hist capn (Conc.trace c) /\
        forall pre t post qs S o,
          atr = pre ++ @ALin (VQ capn) t :: post ->
          lp_run lp_init pre = Some (qs, S) -> S t = @Pending (VQ capn) o ->
          (length qs <= capn)%nat /\
          lp_run lp_init (pre ++ [@ALin (VQ capn) t]) =
            Some (fst (vq_step capn qs o), Lin.upd S t (@Linearized (VQ capn) o (snd (vq_step capn qs o)))) /\
          (forall x, o = VEnq x -> (snd (vq_step capn qs o) = RBool false <-> length qs = capn)) /\
          (o = VDeq -> (snd (vq_step capn qs o) = RVal None <-> qs = [])) /\
          (o = VFront -> snd (vq_step capn qs o) = RVal (hd_error qs) /\ fst (vq_step capn qs o) = qs) /\
          (o = VPopFront -> fst (vq_step capn qs o) = tl qs).
    Proof.
      destruct vyukovw_lp_trace as (atr & qs0 & S0 & E1 & E2 & _).
      exists atr. split; [exists (qs0, S0); exact E1|]. split; [exact E2|].
      intros pre t post qs S o Hs R Hp.
      destruct (vq_lin_point capn pre t qs S o R Hp) as [L1 L2]. split; auto. split; auto.
      split; [|split; [|split]].
      - intros x ->. apply vq_enq_result; auto.
      - intros ->. apply vq_deq_result.
      - intros ->. destruct (vq_front_pop_result capn qs) as (A & B & _). auto.
      - intros ->. destruct (vq_front_pop_result capn qs) as (_ & _ & A & _). auto.
    Qed.
  End AnyMode.

  (** the plain enqueue / dequeue interface against [BFifo (2^k)] *)
  Theorem vyukovw_linearizable e0 g0 c :
    start_ok k None true e0 g0 -> programs_allowed None true ths ->
    Conc.reach (cfg_from q g0 fuel ths) c -> fresh (Conc.trace c) ->
    (exists atr : list (aev (BFifo capn)),
       lp_valid (BFifo capn) atr /\ erase atr = hist_b capn (Conc.trace c)) /\
    linearizable (BFifo capn) (hist_b capn (Conc.trace c)).
  Proof.
    intros H0 Hal Hr Hf.
    destruct (vyukovw_lp_trace None true e0 g0 H0 Hal c Hr Hf) as (atr & qs & S & E1 & E2 & _ & _ & _ & E6).
    destruct (E6 eq_refl) as (atr' & U & E').
    assert (V : lp_valid (BFifo capn) atr').
    { apply (lp_valid_unemb capn atr atr' U). exists (qs, S). exact E1. }
    split; [exists atr'; auto|]. rewrite <- E'. apply lp_valid_linearizable. exact V.
  Qed.
End WTheorems.

(** ** The strict reading of  static_cast<intptr_t>(seq) - static_cast<intptr_t>(pos)

    With the checked signed subtraction of LV.Model.Vyukov (the C++ standard's semantics) the very first dequeue
    on an EMPTY queue whose positions have reached 2^63 - 1 overflows: seq = 2^63 - 1 (the cell is free for
    position 2^63 - 1), pos + 1 = 2^63 converts to INTPTR_MIN, and (2^63 - 1) - (-2^63) does not fit intptr_t.
    One thread, no concurrency, capacity 2, no enqueue claim in the run (so the old bound [claims_bound] holds:
    what it really excluded was a start position other than 0).  The state [init_at q (2^63 - 1)] is the one a
    queue is in after 2^63 - 1 items went through it. *)
Theorem vyukov_strict_signed_overflow_at_2_63 :
  let q := mkQ 2 false in
  let ths := [[ODeq]] in
  let c := fst (Conc.run 50 0 [] (init_cfg_strict_at q (2 ^ 63 - 1) 10 ths)) in
  Conc.threads (init_cfg_strict_at q (2 ^ 63 - 1) 10 ths) = map (thread_prog q 10) ths /\
  Conc.reach (init_cfg_strict_at q (2 ^ 63 - 1) 10 ths) c /\
  claims_bound 1 (Conc.trace c) /\
  no_ub (Conc.trace c) = false /\
  In (0%nat, EvCli "ub"%string []) (Conc.trace c) /\
  sdif (2 ^ 63 - 1) (uadd u64 (2 ^ 63 - 1) 1) = None.
Proof.
  cbv zeta. split; [reflexivity|]. split; [apply Conc.run_reach|].
  split; [unfold claims_bound; vm_compute; reflexivity|].
  split; [vm_compute; reflexivity|]. split; [vm_compute; tauto|]. vm_compute. reflexivity.
Qed.

(** the same run under the two's complement reading: the dequeue reports "empty" *)
Example vyukov_wrap_same_run_at_2_63 :
  let q := mkQ 2 false in
  let c := fst (Conc.run 50 0 [] (init_cfg_at q (2 ^ 63 - 1) 10 [[ODeq]])) in
  no_ub (Conc.trace c) = true /\
  hist_b 2 (Conc.trace c) = [@HInv (BFifo 2) 0%nat Deq; @HRes (BFifo 2) 0%nat (RVal None)].
Proof. cbv zeta. split; vm_compute; reflexivity. Qed.
