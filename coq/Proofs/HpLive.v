(** * C01, second sentence: a guard obtained by protect() refers to a live object until it is released.
      Pure trace reasoning on top of [TrOK] (what every ghost / client event says about the trace before it),
      the client discipline, and [hp_guard_set_after_retire]. *)
From Coq Require Import ZArith List String Bool Lia PeanoNat.
From LV Require Import Base.Conc Base.Events Model.Hp Proofs.HpTrace Proofs.HpInv Proofs.HpSteps Proofs.HpProofs.
Import ListNotations.
Local Open Scope string_scope.
Local Open Scope list_scope.

(** ** statement *)
Definition releases (j : nat) (e : ev) : Prop :=
  match e with
  | EvCli n (x :: _) => (n = "protect" \/ n = "assign" \/ n = "clear" \/ n = "copy") /\ x = zn j
  | EvCli n [] => n = "detach"
  | _ => False
  end.
Definition client_discipline (tr : trace) : Prop :=
  retire_once tr /\
  (forall p, p <> 0%Z -> forall i i' u u' k k', nth_error tr i = Some (u, EvCli "publish" [k; p]) ->
     nth_error tr i' = Some (u', EvCli "publish" [k'; p]) -> i = i') /\
  (forall i u p, nth_error tr i = Some (u, EvCli "retire" [p]) ->
     (exists i0, i = S i0 /\ nth_error tr i0 = Some (u, EvCli "unlinked" [p])) \/
     (forall i' u' k, nth_error tr i' <> Some (u', EvCli "publish" [k; p]))) /\
  (forall i u j o, nth_error tr i = Some (u, EvCli "assign" [j; o]) -> o = 0%Z).
Definition guarded_ptr_live_statement : Prop :=
  forall (c : cfgT) (ths : list (list op)) cf,
    Conc.reach (Hp.init_cfg c ths) cf -> client_discipline (Conc.trace cf) ->
    forall v d t u j p, v < d -> p <> 0%Z ->
      nth_error (Conc.trace cf) v = Some (t, EvCli "protected" [zn j; p]) ->
      nth_error (Conc.trace cf) d = Some (u, ev_dispose p) ->
      exists i e, v < i < d /\ nth_error (Conc.trace cf) i = Some (t, e) /\ releases j e.

Lemma rel_b_releases j e : rel_b j e = true -> releases j e.
Proof.
  destruct e as [k o b|n args]; [discriminate|]. destruct args as [|x rest]; cbn.
  - intros H. now apply String.eqb_eq in H.
  - intros H. apply andb_true_iff in H. destruct H as (H1 & H2). apply Z.eqb_eq in H2. split; [|exact H2].
    cbn in H1. repeat (apply orb_true_iff in H1; destruct H1 as [H1|H1]; [apply String.eqb_eq in H1; tauto|]). discriminate.
Qed.

(** ** prefixes *)
Lemma nth_error_firstn_lt {A} (l : list A) n i : i < n -> nth_error (firstn n l) i = nth_error l i.
Proof.
  revert n i. induction l as [|x l IH]; intros [|n] [|i] H; cbn; try lia; auto. apply IH. lia.
Qed.
Lemma nth_error_firstn_some {A} (l : list A) n i x : nth_error (firstn n l) i = Some x -> i < n /\ nth_error l i = Some x.
Proof.
  intros H. assert (Hi : i < List.length (firstn n l)) by (apply nth_error_Some; congruence).
  rewrite firstn_length in Hi. assert (i < n) by lia. split; [assumption|]. now rewrite nth_error_firstn_lt in H.
Qed.
Lemma firstn_S_snoc {A} (l : list A) i x : nth_error l i = Some x -> firstn (S i) l = firstn i l ++ [x].
Proof.
  revert l. induction i as [|i IH]; intros [|y l] H; cbn in *; try discriminate.
  - inversion H; reflexivity.
  - f_equal. now apply IH.
Qed.

Lemma att_at_S tr i te t : nth_error tr i = Some te -> att_at (firstn (S i) tr) t = att_step t (att_at (firstn i tr) t) te.
Proof. intros H. rewrite (firstn_S_snoc tr i te H). apply att_at_snoc. Qed.
Lemma open_op_S tr i te t : nth_error tr i = Some te -> open_op (firstn (S i) tr) t = op_step t (open_op (firstn i tr) t) te.
Proof. intros H. rewrite (firstn_S_snoc tr i te H). apply open_op_snoc. Qed.
Lemma src_at_S tr i te k : nth_error tr i = Some te -> src_at (firstn (S i) tr) k = src_upd k (snd te) (src_at (firstn i tr) k).
Proof. intros H. rewrite (firstn_S_snoc tr i te H). apply src_at_snoc. Qed.

(** ** the operation in progress: where it started *)
Lemma open_op_index tr t e0 : open_op tr t = Some e0 ->
  exists i0, nth_error tr i0 = Some (t, e0) /\ is_opstart e0 = true /\
    forall i e, i0 < i -> nth_error tr i = Some (t, e) -> is_resp' e = false.
Proof.
  induction tr as [|[u e] tr IH] using rev_ind; [discriminate|]. rewrite open_op_snoc. unfold op_step. cbn.
  destruct (Nat.eqb_spec u t) as [->|Hne].
  - unfold op_upd. destruct (is_opstart e) eqn:Eo.
    + intros H. inversion H; subst e0. exists (List.length tr). split; [rewrite nth_error_app2 by lia; now rewrite Nat.sub_diag|].
      split; [exact Eo|]. intros i e1 Hi Hn. exfalso.
      assert (i < List.length (tr ++ [(t, e)])) by (apply nth_error_Some; congruence). rewrite app_length in H0. cbn in H0. lia.
    + destruct (is_resp' e) eqn:Er; [discriminate|]. intros H. destruct (IH H) as (i0 & H1 & H2 & H3).
      assert (Hlt : i0 < List.length tr) by (apply nth_error_Some; congruence).
      exists i0. split; [rewrite nth_error_app1 by exact Hlt; exact H1|]. split; [exact H2|].
      intros i e1 Hi Hn. destruct (Nat.lt_ge_cases i (List.length tr)) as [Hl|Hl].
      * rewrite nth_error_app1 in Hn by exact Hl. eapply H3; eauto.
      * rewrite nth_error_app2 in Hn by exact Hl. destruct (i - List.length tr) as [|m]; cbn in Hn; [|destruct m; discriminate].
        inversion Hn; subst. exact Er.
  - intros H. destruct (IH H) as (i0 & H1 & H2 & H3).
    assert (Hlt : i0 < List.length tr) by (apply nth_error_Some; congruence).
    exists i0. split; [rewrite nth_error_app1 by exact Hlt; exact H1|]. split; [exact H2|].
    intros i e1 Hi Hn. destruct (Nat.lt_ge_cases i (List.length tr)) as [Hl|Hl].
    + rewrite nth_error_app1 in Hn by exact Hl. eapply H3; eauto.
    + rewrite nth_error_app2 in Hn by exact Hl. destruct (i - List.length tr) as [|m]; cbn in Hn; [|destruct m; discriminate].
      inversion Hn; congruence.
Qed.

(** ** the content of a client source: who wrote it *)
Definition is_src_on (k : nat) (e : ev) : bool :=
  match e with EvCli n [k'; _; _] => (String.eqb n "g_src" && Z.eqb k' (zn k))%bool | _ => false end.
Lemma src_upd_other k e acc : is_src_on k e = false -> src_upd k e acc = acc.
Proof.
  destruct e as [k0 o b|n args]; [reflexivity|]. cbn. destruct args as [|a [|b [|c0 [|d rest]]]]; try reflexivity.
  intros ->. reflexivity.
Qed.
Lemma src_at_index tr k p : src_at tr k = p -> p <> 0%Z ->
  exists i u old, nth_error tr i = Some (u, EvCli "g_src" [zn k; p; old]) /\
    forall i' te, i < i' -> nth_error tr i' = Some te -> is_src_on k (snd te) = false.
Proof.
  induction tr as [|[u e] tr IH] using rev_ind; [cbn; intros <- H; congruence|].
  rewrite src_at_snoc. cbn [snd]. intros Hs Hp. destruct (is_src_on k e) eqn:Es.
  - destruct e as [k0 o b|n args]; [discriminate|]. destruct args as [|a [|b [|c0 [|d0 rest]]]]; try discriminate.
    cbn in Es. apply andb_true_iff in Es. destruct Es as (E1 & E2). apply String.eqb_eq in E1. apply Z.eqb_eq in E2. subst n a.
    cbn in Hs. rewrite Z.eqb_refl in Hs. cbn in Hs. subst b.
    exists (List.length tr), u, c0. split; [rewrite nth_error_app2 by lia; now rewrite Nat.sub_diag|].
    intros i' te Hi Hn. exfalso. assert (i' < List.length (tr ++ [(u, EvCli "g_src" [zn k; p; c0])])) by (apply nth_error_Some; congruence).
    rewrite app_length in H. cbn in H. lia.
  - rewrite src_upd_other in Hs by exact Es. destruct (IH Hs Hp) as (i & u0 & old & H1 & H2).
    assert (Hlt : i < List.length tr) by (apply nth_error_Some; congruence).
    exists i, u0, old. split; [rewrite nth_error_app1 by exact Hlt; exact H1|].
    intros i' te Hi Hn. destruct (Nat.lt_ge_cases i' (List.length tr)) as [Hl|Hl].
    + rewrite nth_error_app1 in Hn by exact Hl. eapply H2; eauto.
    + rewrite nth_error_app2 in Hn by exact Hl. destruct (i' - List.length tr) as [|m]; cbn in Hn; [|destruct m; discriminate].
      inversion Hn; subst. exact Es.
Qed.

(** ** attachment is exclusive at every prefix *)
Lemma att_upd_cases e acc :
  att_upd e acc = acc \/ (exists z, e = EvCli "g_att" [z] /\ att_upd e acc = Some (Z.to_nat z)) \/
  (exists z, e = EvCli "g_det" [z] /\ att_upd e acc = None).
Proof.
  destruct e as [k o b|n args]; [now left|]. cbn. destruct args as [|z [|z2 rest]]; try now left.
  destruct (String.eqb_spec n "g_att") as [->|H1]; [right; left; eauto|].
  destruct (String.eqb_spec n "g_det") as [->|H2]; [right; right; eauto|now left].
Qed.

Lemma att_excl tr : TrOK tr -> forall n, n <= List.length tr -> forall t1 t2 r,
  att_at (firstn n tr) t1 = Some r -> att_at (firstn n tr) t2 = Some r -> t1 = t2.
Proof.
  intros Hok. induction n as [|n IH]; intros Hn t1 t2 r H1 H2; [discriminate|].
  destruct (nth_error tr n) as [te|] eqn:En; [|apply nth_error_None in En; lia]. destruct te as [u e].
  rewrite (att_at_S tr n _ t1 En) in H1. rewrite (att_at_S tr n _ t2 En) in H2. unfold att_step in H1, H2. cbn [fst snd] in H1, H2.
  specialize (IH ltac:(lia)).
  destruct (Nat.eqb_spec u t1) as [E1|N1]; destruct (Nat.eqb_spec u t2) as [E2|N2]; try congruence.
  - subst t1. destruct (att_upd_cases e (att_at (firstn n tr) u)) as [E|[(z & -> & E)|(z & -> & E)]].
    + rewrite E in H1. eauto.
    + destruct (ev_ok_att_wf _ _ _ (Hok n u _ En)) as (r' & ->).
      destruct (Hok n u _ En) as (_ & _ & Hatt & _). destruct (Hatt r' eq_refl) as (_ & Hfree).
      cbn in H1. unfold zn in H1. rewrite Nat2Z.id in H1. inversion H1; subst r'. exfalso. eapply Hfree; eauto.
    + cbn in H1. discriminate.
  - subst t2. destruct (att_upd_cases e (att_at (firstn n tr) u)) as [E|[(z & -> & E)|(z & -> & E)]].
    + rewrite E in H2. eauto.
    + destruct (ev_ok_att_wf _ _ _ (Hok n u _ En)) as (r' & ->).
      destruct (Hok n u _ En) as (_ & _ & Hatt & _). destruct (Hatt r' eq_refl) as (_ & Hfree).
      cbn in H2. unfold zn in H2. rewrite Nat2Z.id in H2. inversion H2; subst r'. exfalso. eapply Hfree; eauto.
    + cbn in H2. discriminate.
  - eauto.
Qed.

(** ** the theorem *)
Lemma slot_write_form r j e : slot_write r j e = true -> exists x, e = ev_slot r j x.
Proof.
  destruct e as [k o b|n args]; [discriminate|]. cbn. destruct args as [|a [|b [|x [|w rest]]]]; try discriminate.
  intros H. apply andb_true_iff in H. destruct H as (H1 & H2). apply andb_true_iff in H2. destruct H2 as (H2 & H3).
  apply String.eqb_eq in H1. apply Z.eqb_eq in H2. apply Z.eqb_eq in H3. subst. exists x. reflexivity.
Qed.

Lemma cnt_firstn_le name p (tr : trace) n : (cnt name p (firstn n tr) <= cnt name p tr)%Z.
Proof. rewrite <- (firstn_skipn n tr) at 2. apply cnt_le_app. Qed.

Lemma retire_once_firstn tr n : retire_once tr -> retire_once (firstn n tr).
Proof. intros H p. specialize (H p). pose proof (cnt_firstn_le "retire" p tr n). lia. Qed.

Theorem hp_guarded_ptr_live : guarded_ptr_live_statement.
Proof.
  intros c ths cf Hr (Hro & Hpub & Hret & _) v d t u j p Hvd Hp Hv Hd.
  destruct (reach_inv _ _ _ Hr) as (a & HI). pose proof (i_tr _ _ _ _ HI) as Hok.
  set (tr := Conc.trace cf) in *.
  assert (Hdlt : d < List.length tr) by (apply nth_error_Some; congruence).
  set (chk := fun i => match nth_error tr i with Some (t', e) => (Nat.eqb t' t && rel_b j e)%bool | None => false end).
  destruct (existsb chk (seq (S v) (d - S v))) eqn:Ef.
  { apply existsb_exists in Ef. destruct Ef as (i & Hin & Hi). apply in_seq in Hin. unfold chk in Hi.
    destruct (nth_error tr i) as [[t' e]|] eqn:Ei; [|discriminate]. apply andb_true_iff in Hi. destruct Hi as (E1 & E2).
    apply Nat.eqb_eq in E1. subst t'. exists i, e. split; [lia|]. split; [exact Ei|now apply rel_b_releases]. }
  exfalso.
  assert (Hnorel : forall i e, v < i < d -> nth_error tr i = Some (t, e) -> rel_b j e = false).
  { intros i e Hi Hn. destruct (rel_b j e) eqn:E; [|reflexivity]. exfalso. rewrite <- not_true_iff_false in Ef. apply Ef.
    apply existsb_exists. exists i. split; [apply in_seq; lia|]. unfold chk. rewrite Hn. now rewrite Nat.eqb_refl, E. }
  (* what "protected" says *)
  destruct (Hok v t _ Hv) as (_ & _ & _ & _ & _ & _ & Hprot & _).
  destruct (Hprot j p eq_refl) as (r & k & g0 & Hg0 & Hall & w & Hgw & Hw).
  apply nth_error_firstn_some in Hg0. destruct Hg0 as (Hg0v & Hg0).
  apply nth_error_firstn_some in Hw. destruct Hw as (Hwv & Hw).
  assert (Hall' : forall i e, g0 < i < v -> nth_error tr i = Some (t, e) -> pat_ok e = true).
  { intros i e Hi Hn. apply (Hall i e); [lia|]. rewrite nth_error_firstn_lt by lia. exact Hn. }
  destruct (Hok g0 t _ Hg0) as (Hslot & _). destruct (Hslot r j p eq_refl) as (Hatt0 & _).
  (* an operation of t open after v that releases slot j would be a release event between v and d *)
  assert (Hopen : forall n e0, v < n <= d -> open_op (firstn n tr) t = Some e0 -> rel_b j e0 = true -> False).
  { intros n e0 Hn Ho Hrel. destruct (open_op_index _ _ _ Ho) as (i0 & H1 & _ & H3).
    apply nth_error_firstn_some in H1. destruct H1 as (Hi0 & H1).
    destruct (Nat.lt_ge_cases i0 v) as [Hlt|Hge].
    - assert (E : is_resp' (EvCli "protected" [zn j; p]) = false).
      { apply (H3 v); [exact Hlt|]. rewrite nth_error_firstn_lt by lia. exact Hv. }
      discriminate.
    - assert (i0 <> v) by (intros ->; rewrite Hv in H1; inversion H1; subst e0; discriminate).
      rewrite (Hnorel i0 e0) in Hrel; [discriminate|lia|exact H1]. }
  (* t stays attached to r from g0 to d *)
  assert (HA : forall m, g0 + m <= d -> att_at (firstn (g0 + m) tr) t = Some r).
  { induction m as [|m IHm]; intros Hm; [now rewrite Nat.add_0_r|].
    rewrite Nat.add_succ_r. specialize (IHm ltac:(lia)).
    destruct (nth_error tr (g0 + m)) as [[u' e]|] eqn:En; [|apply nth_error_None in En; lia].
    rewrite (att_at_S tr (g0 + m) _ t En). unfold att_step. cbn [fst snd].
    destruct (Nat.eqb_spec u' t) as [->|Hne]; [|exact IHm].
    destruct (att_upd_cases e (att_at (firstn (g0 + m) tr) t)) as [E|[(z & -> & E)|(z & -> & E)]]; [now rewrite E| |]; exfalso.
    - destruct (ev_ok_att_wf _ _ _ (Hok _ t _ En)) as (r' & ->).
      destruct (Hok _ t _ En) as (_ & _ & Hatt & _). destruct (Hatt r' eq_refl) as (Hnone & _). congruence.
    - destruct (Nat.eq_dec m 0) as [->|Hm0]; [rewrite Nat.add_0_r in En; rewrite Hg0 in En; discriminate|].
      destruct (Nat.lt_ge_cases (g0 + m) v) as [H1|H1].
      + assert (Hp1 : pat_ok (EvCli "g_det" [z]) = true) by (apply (Hall' (g0 + m)); [lia|exact En]). discriminate.
      + destruct (Nat.eq_dec (g0 + m) v) as [E1|E1]; [rewrite E1, Hv in En; discriminate|].
        destruct (Hok _ t _ En) as (_ & Hdet & _). apply (Hopen (g0 + m) (EvCli "detach" [])); [lia|now apply (Hdet z)|reflexivity]. }
  assert (HA' : forall n, g0 <= n <= d -> att_at (firstn n tr) t = Some r).
  { intros n Hn. replace n with (g0 + (n - g0)) by lia. apply HA. lia. }
  (* nothing is stored into slot (r,j) after g0 up to d *)
  assert (HB : forall i te, S g0 <= i < S d -> nth_error tr i = Some te -> slot_write r j (snd te) = false).
  { intros i [u' e] Hi Hn. cbn [snd]. destruct (slot_write r j e) eqn:Esw; [exfalso|reflexivity].
    destruct (slot_write_form _ _ _ Esw) as (x & ->).
    destruct (Hok i u' _ Hn) as (Hsl & _). destruct (Hsl r j x eq_refl) as (Hatt & e0 & Ho & Hrel).
    assert (u' = t) by (eapply (att_excl tr Hok i); [lia|exact Hatt|apply HA'; lia]). subst u'.
    destruct (Nat.lt_ge_cases i v) as [H1|H1].
    - assert (Hp1 : pat_ok (ev_slot r j x) = true) by (apply (Hall' i); [lia|exact Hn]). discriminate.
    - destruct (Nat.eq_dec i v) as [->|E1]; [rewrite Hv in Hn; discriminate|].
      destruct (Nat.eq_dec i d) as [->|E2]; [rewrite Hd in Hn; discriminate|].
      apply (Hopen i e0); [lia|exact Ho|exact Hrel]. }
  (* hence slot (r,j) holds p from just after g0 to the disposer call *)
  assert (Hg0lt : g0 < List.length tr) by (apply nth_error_Some; congruence).
  assert (Hheld : held (firstn (S d) tr) (S g0) r j p).
  { apply (held_extend tr (S g0) r j p (S g0) (S d)); [|lia|lia|lia|exact HB].
    intros i Hi. rewrite firstn_length in Hi. assert (i = S g0) by lia. subst i.
    rewrite firstn_firstn, Nat.min_id. rewrite (slot_at_firstn_S tr g0 _ r j Hg0). cbn. now rewrite !Z.eqb_refl. }
  destruct (hp_guard_set_after_retire c ths cf Hr d u p (S g0) r j Hd Hp (fun _ => retire_once_firstn _ _ Hro) Hheld)
    as (rho & u1 & Hrho & Hrt). fold tr in Hrt.
  assert (Hrho' : rho < g0).
  { destruct (Nat.eq_dec rho g0) as [->|Hne]; [rewrite Hg0 in Hrt; discriminate|lia]. }
  (* the validating load read p from source k *)
  destruct (Hok w t _ Hw) as (_ & _ & _ & _ & Hld & _). pose proof (Hld k p eq_refl) as Hsrc. symmetry in Hsrc.
  destruct (src_at_index _ _ _ Hsrc Hp) as (i2 & u3 & old2 & Hi2 & Hlast2).
  apply nth_error_firstn_some in Hi2. destruct Hi2 as (Hi2w & Hi2).
  destruct (Hok i2 u3 _ Hi2) as (_ & _ & _ & Hgs2 & _). destruct (Hgs2 k p old2 eq_refl) as (_ & Ho2).
  destruct (open_op_index _ _ _ Ho2) as (a2 & Ha2 & _ & Hnr2).
  apply nth_error_firstn_some in Ha2. destruct Ha2 as (Ha2lt & Ha2).
  destruct (Hret rho u1 p Hrt) as [(i0 & -> & Hunl)|Hnever]; [|exact (Hnever a2 u3 (zn k) Ha2)].
  destruct (Hok i0 u1 _ Hunl) as (_ & _ & _ & _ & _ & Hun & _).
  destruct (Hun p eq_refl) as (k2 & o2 & Hne & Hlast).
  assert (Hi0lt : i0 < List.length tr) by (apply nth_error_Some; congruence).
  unfold last_te in Hlast. rewrite firstn_length, Nat.min_l in Hlast by lia.
  assert (Hi0pos : 0 < i0).
  { destruct i0; [exfalso; apply Hne; reflexivity|lia]. }
  apply nth_error_firstn_some in Hlast. destruct Hlast as (_ & Hiu). set (iu := i0 - 1) in *.
  destruct (Hok iu u1 _ Hiu) as (_ & _ & _ & Hgsu & _). destruct (Hgsu k2 o2 p eq_refl) as (Hsrcu & _). symmetry in Hsrcu.
  destruct (src_at_index _ _ _ Hsrcu Hp) as (i1 & u2 & old1 & Hi1 & Hlast1).
  apply nth_error_firstn_some in Hi1. destruct Hi1 as (Hi1u & Hi1).
  destruct (Hok i1 u2 _ Hi1) as (_ & _ & _ & Hgs1 & _). destruct (Hgs1 k2 p old1 eq_refl) as (_ & Ho1).
  destruct (open_op_index _ _ _ Ho1) as (a1 & Ha1 & _ & Hnr1).
  apply nth_error_firstn_some in Ha1. destruct Ha1 as (Ha1lt & Ha1).
  assert (Ea : a1 = a2) by (eapply (Hpub p Hp); eauto). subst a2.
  rewrite Ha1 in Ha2. inversion Ha2 as [[Eu Ek]]. apply zn_inj in Ek. subst u3 k2.
  assert (Ei : i1 = i2).
  { destruct (Nat.lt_trichotomy i1 i2) as [H|[H|H]]; [exfalso|exact H|exfalso].
    - assert (E : is_resp' (EvCli "g_src" [zn k; p; old1]) = false).
      { apply (Hnr2 i1); [lia|]. rewrite nth_error_firstn_lt by lia. exact Hi1. }
      discriminate.
    - assert (E : is_resp' (EvCli "g_src" [zn k; p; old2]) = false).
      { apply (Hnr1 i2); [lia|]. rewrite nth_error_firstn_lt by lia. exact Hi2. }
      discriminate. }
  subst i2.
  assert (E : is_src_on k (snd (u1, EvCli "g_src" [zn k; o2; p])) = false).
  { apply (Hlast2 iu); [unfold iu; lia|]. rewrite nth_error_firstn_lt by (unfold iu; lia). exact Hiu. }
  cbn in E. rewrite Z.eqb_refl in E. discriminate.
Qed.
