(** * The sequential EllenBinTree model: invariants and exact traversal for ALL operation sequences. *)
From Coq Require Import ZArith List Bool Lia.
From LV Require Import Model.SkipSeq Model.EllenSeq Proofs.SkipSeqProofs.
Import ListNotations.
Local Open Scope Z_scope.

Definition lt (a b : ekey) : Prop := ek_ltb a b = true.
Definition isfin (a : ekey) : Prop := match a with Fin _ => True | _ => False end.

Ltac ekd := repeat match goal with x : ekey |- _ => destruct x end.
Ltac ek := unfold lt, isfin in *; ekd; cbn [ek_ltb ek_eqb] in *; try congruence; try tauto; try lia.

Lemma lt_trans a b c : lt a b -> lt b c -> lt a c.
Proof. ek. Qed.
Lemma lt_irrefl a : ~ lt a a.
Proof. ek. Qed.
Lemma ltb_false a b : ek_ltb a b = false <-> (a = b \/ lt b a).
Proof.
  unfold lt. destruct a as [x| |], b as [y| |]; cbn [ek_ltb];
    try solve [split; [intros H; try discriminate; auto|intros [H|H]; try discriminate; auto]].
  split.
  - intros H. apply Z.ltb_ge in H. destruct (Z.eq_dec x y) as [->|N]; [now left|right; apply Z.ltb_lt; lia].
  - intros [H|H]; [inversion H; apply Z.ltb_irrefl|apply Z.ltb_lt in H; apply Z.ltb_ge; lia].
Qed.
Lemma eqb_eq a b : ek_eqb a b = true <-> a = b.
Proof.
  destruct a as [x| |], b as [y| |]; cbn [ek_eqb]; try solve [split; intros H; try discriminate; auto].
  rewrite Z.eqb_eq. split; [congruence|intros H; now inversion H].
Qed.
Lemma eqb_neq a b : ek_eqb a b = false <-> a <> b.
Proof. rewrite <- eqb_eq. destruct (ek_eqb a b); split; congruence. Qed.
Lemma lt_eqb a b : lt a b -> ek_eqb a b = false.
Proof. ek. Qed.
Lemma lt_ltb_false a b : lt a b -> ek_ltb b a = false.
Proof. ek. Qed.

(** ** generic sorted lists over [ekey] *)
Fixpoint el_put (ow : bool) (x : ekey) (v : Z) (l : list (ekey * Z)) : list (ekey * Z) :=
  match l with
  | [] => [(x, v)]
  | (y, w) :: r =>
      if ek_ltb x y then (x, v) :: l
      else if ek_eqb x y then (if ow then (y, v) :: r else l)
      else (y, w) :: el_put ow x v r
  end.
Fixpoint el_set (x : ekey) (v : Z) (l : list (ekey * Z)) : list (ekey * Z) :=
  match l with
  | [] => []
  | (y, w) :: r => if ek_eqb x y then (y, v) :: r else (y, w) :: el_set x v r
  end.
Fixpoint el_del (x : ekey) (l : list (ekey * Z)) : list (ekey * Z) :=
  match l with
  | [] => []
  | (y, w) :: r => if ek_eqb x y then r else (y, w) :: el_del x r
  end.

Definition above (x : ekey) (l : list (ekey * Z)) : Prop := forall y, In y (map fst l) -> lt x y.
Definition below (x : ekey) (l : list (ekey * Z)) : Prop := forall y, In y (map fst l) -> lt y x.

Lemma el_put_app_l ow x v A B : above x B -> el_put ow x v (A ++ B) = el_put ow x v A ++ B.
Proof.
  intros H. induction A as [|[a w] A IH]; cbn [app el_put].
  - destruct B as [|[y w] B]; [reflexivity|]. cbn [el_put]. rewrite (H y (or_introl eq_refl)). reflexivity.
  - destruct (ek_ltb x a); [reflexivity|]. destruct (ek_eqb x a); [destruct ow; reflexivity|]. cbn [app]. now rewrite IH.
Qed.
Lemma el_put_app_r ow x v A B : below x A -> el_put ow x v (A ++ B) = A ++ el_put ow x v B.
Proof.
  induction A as [|[a w] A IH]; intros H; cbn [app el_put]; [reflexivity|].
  assert (La : lt a x) by (apply H; now left).
  rewrite (lt_ltb_false _ _ La). assert (ek_eqb x a = false) as -> by (apply eqb_neq; intros ->; eapply lt_irrefl; eauto).
  f_equal. apply IH. intros y Hy. apply H. now right.
Qed.
Lemma el_set_none x v B : above x B -> el_set x v B = B.
Proof.
  induction B as [|[y w] B IH]; intros H; cbn [el_set]; [reflexivity|].
  rewrite (lt_eqb _ _ (H y (or_introl eq_refl))). f_equal. apply IH. intros z Hz. apply H. now right.
Qed.
Lemma el_set_app_l x v A B : above x B -> el_set x v (A ++ B) = el_set x v A ++ B.
Proof.
  intros H. induction A as [|[a w] A IH]; cbn [app el_set]; [now apply el_set_none|].
  destruct (ek_eqb x a); [reflexivity|]. cbn [app]. now rewrite IH.
Qed.
Lemma el_set_app_r x v A B : below x A -> el_set x v (A ++ B) = A ++ el_set x v B.
Proof.
  induction A as [|[a w] A IH]; intros H; cbn [app el_set]; [reflexivity|].
  assert (La : lt a x) by (apply H; now left).
  assert (ek_eqb x a = false) as -> by (apply eqb_neq; intros ->; eapply lt_irrefl; eauto).
  f_equal. apply IH. intros y Hy. apply H. now right.
Qed.
Lemma el_del_none x B : above x B -> el_del x B = B.
Proof.
  induction B as [|[y w] B IH]; intros H; cbn [el_del]; [reflexivity|].
  rewrite (lt_eqb _ _ (H y (or_introl eq_refl))). f_equal. apply IH. intros z Hz. apply H. now right.
Qed.
Lemma el_del_app_l x A B : above x B -> el_del x (A ++ B) = el_del x A ++ B.
Proof.
  intros H. induction A as [|[a w] A IH]; cbn [app el_del]; [now apply el_del_none|].
  destruct (ek_eqb x a); [reflexivity|]. cbn [app]. now rewrite IH.
Qed.
Lemma el_del_app_r x A B : below x A -> el_del x (A ++ B) = A ++ el_del x B.
Proof.
  induction A as [|[a w] A IH]; intros H; cbn [app el_del]; [reflexivity|].
  assert (La : lt a x) by (apply H; now left).
  assert (ek_eqb x a = false) as -> by (apply eqb_neq; intros ->; eapply lt_irrefl; eauto).
  f_equal. apply IH. intros y Hy. apply H. now right.
Qed.

Lemma el_put_keys ow x v l y : In y (map fst (el_put ow x v l)) -> y = x \/ In y (map fst l).
Proof.
  induction l as [|[a w] l IH]; cbn [el_put map fst In]; [intuition|].
  destruct (ek_ltb x a); [cbn; intuition|]. destruct (ek_eqb x a); [destruct ow; cbn; intuition|].
  cbn. intros [H|H]; auto. destruct (IH H); auto.
Qed.

(** ** the tree *)
Fixpoint allkeys (t : etree) : list ekey :=
  match t with
  | ELeaf k _ => [k]
  | ENode K l r => K :: allkeys l ++ allkeys r
  end.

Lemma leaves_allkeys t y : In y (map fst (e_leaves t)) -> In y (allkeys t).
Proof.
  induction t as [k v|K l IHl r IHr]; cbn [e_leaves allkeys map fst In]; [tauto|].
  rewrite map_app. intros H. apply in_app_or in H. right. apply in_or_app. tauto.
Qed.

(** search-tree order over ALL keys (internal and leaf); the right subtree of a node with a finite key holds
    finite keys only *)
Fixpoint ebst (t : etree) : Prop :=
  match t with
  | ELeaf _ _ => True
  | ENode K l r =>
      (forall y, In y (allkeys l) -> lt y K) /\ (forall y, In y (allkeys r) -> ~ lt y K) /\
      (isfin K -> forall y, In y (allkeys r) -> isfin y) /\ ebst l /\ ebst r
  end.

Lemma not_lt_ge y K : ~ lt y K -> y = K \/ lt K y.
Proof. intros H. apply ltb_false. unfold lt in H. destruct (ek_ltb y K); congruence. Qed.

Lemma ebst_above K l x : (forall y, In y (allkeys l) -> ~ lt y K) -> lt x K -> above x (e_leaves l).
Proof. intros H L y Hy. apply leaves_allkeys in Hy. destruct (not_lt_ge _ _ (H y Hy)) as [->|G]; [exact L|eapply lt_trans; eauto]. Qed.
Lemma ebst_below K l x : (forall y, In y (allkeys l) -> lt y K) -> ~ lt x K -> below x (e_leaves l).
Proof.
  intros H L y Hy. apply leaves_allkeys in Hy. specialize (H y Hy).
  destruct (not_lt_ge _ _ L) as [->|G]; [exact H|eapply lt_trans; eauto].
Qed.

Lemma insert_allkeys k v t y : In y (allkeys (e_insert k v t)) -> y = Fin k \/ In y (allkeys t).
Proof.
  induction t as [lk lv|K l IHl r IHr]; cbn [e_insert].
  - destruct (ek_eqb (Fin k) lk); [cbn; tauto|]. destruct (ek_ltb (Fin k) lk); cbn; intuition.
  - destruct (ek_ltb (Fin k) K); cbn [allkeys In]; rewrite !in_app_iff; intros [H|[H|H]]; auto;
      [destruct (IHl H)|destruct (IHr H)]; auto.
Qed.

Lemma setval_allkeys k v t : allkeys (e_setval k v t) = allkeys t.
Proof.
  induction t as [lk lv|K l IHl r IHr]; cbn [e_setval].
  - destruct (ek_eqb (Fin k) lk); reflexivity.
  - destruct (ek_ltb (Fin k) K); cbn [allkeys]; congruence.
Qed.

Lemma erase_allkeys k t y : In y (allkeys (e_erase k t)) -> In y (allkeys t).
Proof.
  induction t as [lk lv|K l IHl r IHr]; cbn [e_erase]; [tauto|].
  destruct (ek_ltb (Fin k) K).
  - destruct l as [lk lv|K' l' r'].
    + destruct (ek_eqb (Fin k) lk); cbn [allkeys In]; rewrite ?in_app_iff; cbn [allkeys In]; tauto.
    + cbn [allkeys In] in *. rewrite !in_app_iff in *. cbn [In] in *. rewrite !in_app_iff in *. intuition.
  - destruct r as [lk lv|K' l' r'].
    + destruct (ek_eqb (Fin k) lk); cbn [allkeys In]; rewrite ?in_app_iff; cbn [allkeys In]; tauto.
    + cbn [allkeys In] in *. rewrite !in_app_iff in *. cbn [In] in *. rewrite !in_app_iff in *. intuition.
Qed.

Lemma insert_ebst k v t : ebst t -> ebst (e_insert k v t).
Proof.
  induction t as [lk lv|K l IHl r IHr]; cbn [e_insert]; intros B.
  - destruct (ek_eqb (Fin k) lk) eqn:E; [exact I|]. destruct (ek_ltb (Fin k) lk) eqn:L; cbn [ebst allkeys In].
    + repeat split; auto.
      * intros y [<-|[]]. exact L.
      * intros y [<-|[]]. apply lt_irrefl.
      * intros F y [<-|[]]. exact F.
    + apply eqb_neq in E. apply ltb_false in L. destruct L as [L|L]; [congruence|].
      repeat split; auto.
      * intros y [<-|[]]. exact L.
      * intros y [<-|[]]. apply lt_irrefl.
      * intros _ y [<-|[]]. exact I.
  - cbn [ebst] in B. destruct B as (B1 & B2 & B3 & Bl & Br). destruct (ek_ltb (Fin k) K) eqn:L; cbn [ebst]; repeat split; auto.
    + intros y Hy. destruct (insert_allkeys _ _ _ _ Hy) as [->|H]; auto.
    + intros y Hy. destruct (insert_allkeys _ _ _ _ Hy) as [->|H]; auto. unfold lt. congruence.
    + intros F y Hy. destruct (insert_allkeys _ _ _ _ Hy) as [->|H]; [exact I|auto].
Qed.

Lemma setval_ebst k v t : ebst t -> ebst (e_setval k v t).
Proof.
  induction t as [lk lv|K l IHl r IHr]; cbn [e_setval]; intros B.
  - destruct (ek_eqb (Fin k) lk); exact I.
  - cbn [ebst] in B. destruct B as (B1 & B2 & B3 & Bl & Br).
    destruct (ek_ltb (Fin k) K); cbn [ebst]; rewrite ?setval_allkeys; repeat split; auto.
Qed.

Lemma ebst_sub K l r : ebst (ENode K l r) -> ebst l /\ ebst r.
Proof. cbn. tauto. Qed.

Lemma erase_ebst k t : ebst t -> ebst (e_erase k t).
Proof.
  induction t as [lk lv|K l IHl r IHr]; cbn [e_erase]; intros B; [exact I|].
  pose proof B as B0. cbn [ebst] in B. destruct B as (B1 & B2 & B3 & Bl & Br).
  destruct (ek_ltb (Fin k) K).
  - destruct l as [lk lv|K' l' r'].
    + destruct (ek_eqb (Fin k) lk); auto.
    + cbn [ebst]. repeat split; auto. intros y Hy. apply B1. eapply erase_allkeys; eauto.
  - destruct r as [lk lv|K' l' r'].
    + destruct (ek_eqb (Fin k) lk); auto.
    + cbn [ebst]. repeat split; auto.
      * intros y Hy. apply B2. eapply erase_allkeys; eauto.
      * intros F y Hy. apply (B3 F). eapply erase_allkeys; eauto.
Qed.

(** *** the leaves after each operation *)
Lemma insert_leaves k v t : ebst t -> e_leaves (e_insert k v t) = el_put false (Fin k) v (e_leaves t).
Proof.
  induction t as [lk lv|K l IHl r IHr]; cbn [e_insert]; intros B.
  - cbn [e_leaves el_put]. destruct (ek_ltb (Fin k) lk) eqn:L.
    + rewrite (lt_eqb _ _ L). reflexivity.
    + destruct (ek_eqb (Fin k) lk); reflexivity.
  - cbn [ebst] in B. destruct B as (B1 & B2 & B3 & Bl & Br). destruct (ek_ltb (Fin k) K) eqn:L; cbn [e_leaves].
    + rewrite IHl by exact Bl. symmetry. apply el_put_app_l. eapply ebst_above; eauto.
    + rewrite IHr by exact Br. symmetry. apply el_put_app_r. eapply ebst_below; eauto. unfold lt; congruence.
Qed.

Lemma setval_leaves k v t : ebst t -> e_leaves (e_setval k v t) = el_set (Fin k) v (e_leaves t).
Proof.
  induction t as [lk lv|K l IHl r IHr]; cbn [e_setval]; intros B.
  - cbn [e_leaves el_set]. destruct (ek_eqb (Fin k) lk); reflexivity.
  - cbn [ebst] in B. destruct B as (B1 & B2 & B3 & Bl & Br). destruct (ek_ltb (Fin k) K) eqn:L; cbn [e_leaves].
    + rewrite IHl by exact Bl. symmetry. apply el_set_app_l. eapply ebst_above; eauto.
    + rewrite IHr by exact Br. symmetry. apply el_set_app_r. eapply ebst_below; eauto. unfold lt; congruence.
Qed.

Lemma erase_leaves k t : ebst t -> (exists K l r, t = ENode K l r) -> e_leaves (e_erase k t) = el_del (Fin k) (e_leaves t).
Proof.
  induction t as [lk lv|K l IHl r IHr]; intros B N; [destruct N as (? & ? & ? & N); discriminate|]. clear N.
  cbn [e_erase]. cbn [ebst] in B. destruct B as (B1 & B2 & B3 & Bl & Br). destruct (ek_ltb (Fin k) K) eqn:L.
  - assert (A : above (Fin k) (e_leaves r)) by (eapply ebst_above; eauto).
    destruct l as [lk lv|K' l' r'].
    + cbn [e_leaves app el_del]. destruct (ek_eqb (Fin k) lk); [reflexivity|]. cbn [e_leaves app]. now rewrite el_del_none.
    + cbn [e_leaves]. rewrite IHl by (auto; eauto). symmetry. now apply el_del_app_l.
  - assert (A : below (Fin k) (e_leaves l)) by (eapply ebst_below; eauto; unfold lt; congruence).
    destruct r as [lk lv|K' l' r'].
    + cbn [e_leaves]. rewrite el_del_app_r by exact A. cbn [el_del]. destruct (ek_eqb (Fin k) lk); [now rewrite app_nil_r|reflexivity].
    + cbn [e_leaves]. rewrite IHr by (auto; eauto). symmetry. now apply el_del_app_r.
Qed.

Lemma mem_leaves k t : ebst t -> e_mem k t = true <-> In (Fin k) (map fst (e_leaves t)).
Proof.
  induction t as [lk lv|K l IHl r IHr]; cbn [e_mem e_leaves map fst In]; intros B.
  - rewrite eqb_eq. intuition.
  - cbn [ebst] in B. destruct B as (B1 & B2 & B3 & Bl & Br). rewrite map_app, in_app_iff.
    destruct (ek_ltb (Fin k) K) eqn:L.
    + rewrite (IHl Bl). split; [tauto|]. intros [H|H]; [exact H|]. exfalso.
      apply leaves_allkeys in H. apply (B2 _ H). exact L.
    + rewrite (IHr Br). split; [tauto|]. intros [H|H]; [|exact H]. exfalso.
      apply leaves_allkeys in H. specialize (B1 _ H). unfold lt in B1. congruence.
Qed.

Lemma min_leaves t : exists v r, e_leaves t = (e_min t, v) :: r.
Proof.
  induction t as [k v|K l IHl r IHr]; cbn [e_leaves e_min]; [eauto|].
  destruct IHl as (v & r' & ->). cbn [app]. eauto.
Qed.

Fixpoint lastfin (l : list (ekey * Z)) : option Z :=
  match l with
  | [] => None
  | (Fin k, _) :: r => match lastfin r with Some k' => Some k' | None => Some k end
  | _ :: r => lastfin r
  end.

Lemma lastfin_app A B : lastfin (A ++ B) = match lastfin B with Some k => Some k | None => lastfin A end.
Proof.
  induction A as [|[a w] A IH]; cbn [app lastfin]; [destruct (lastfin B); reflexivity|].
  destruct a; rewrite IH; destruct (lastfin B); try reflexivity.
Qed.

Lemma lastfin_none l : (forall y, In y (map fst l) -> ~ isfin y) -> lastfin l = None.
Proof.
  induction l as [|[a w] l IH]; cbn [lastfin map fst In]; intros H; [reflexivity|].
  destruct a; [exfalso; apply (H (Fin k)); cbn; auto| |]; apply IH; auto.
Qed.

Lemma lastfin_some l : l <> [] -> (forall y, In y (map fst l) -> isfin y) -> lastfin l <> None.
Proof.
  destruct l as [|[a w] l]; [congruence|]. intros _ H. cbn [lastfin].
  destruct a; [destruct (lastfin l); discriminate| |]; exfalso; apply (H _ (or_introl eq_refl)).
Qed.

Lemma leaves_nonempty t : e_leaves t <> [].
Proof. destruct (min_leaves t) as (v & r & ->). discriminate. Qed.

Lemma max_leaves t : ebst t ->
  match lastfin (e_leaves t) with Some k => e_max t = Fin k | None => ~ isfin (e_max t) end.
Proof.
  induction t as [k v|K l IHl r IHr]; cbn [e_leaves e_max]; intros B.
  - destruct k; cbn; auto.
  - cbn [ebst] in B. destruct B as (B1 & B2 & B3 & Bl & Br). rewrite lastfin_app. destruct K as [K| |].
    + specialize (IHr Br). destruct (lastfin (e_leaves r)) eqn:E; [exact IHr|]. exfalso.
      revert E. apply lastfin_some; [apply leaves_nonempty|]. intros y Hy. apply (B3 I). now apply leaves_allkeys.
    + rewrite lastfin_none; [apply IHl, Bl|]. intros y Hy F. apply leaves_allkeys in Hy. apply (B2 _ Hy). unfold lt. destruct y; cbn in F; [reflexivity|contradiction|contradiction].
    + rewrite lastfin_none; [apply IHl, Bl|]. intros y Hy F. apply leaves_allkeys in Hy. apply (B2 _ Hy). unfold lt. destruct y; cbn in F; [reflexivity|contradiction|contradiction].
Qed.

(** ** the global invariant and the exact traversal *)
Definition fin (l : list (Z * Z)) : list (ekey * Z) := map (fun kv => (Fin (fst kv), snd kv)) l.
Definition SENT : list (ekey * Z) := [(Inf1, 0); (Inf2, 0)].

Lemma el_put_fin ow k v l : el_put ow (Fin k) v (fin l ++ SENT) = fin (sl_put ow k v l) ++ SENT.
Proof.
  induction l as [|[k' v'] l IH]; cbn [fin map app el_put sl_put fst snd ek_ltb ek_eqb]; [reflexivity|].
  fold (fin l). destruct (k <? k'); [reflexivity|]. destruct (Z.eqb_spec k k') as [->|N].
  - destruct ow; reflexivity.
  - cbn [fin map app fst snd]. fold (fin (sl_put ow k v l)). now rewrite IH.
Qed.
Lemma el_set_fin k v l : el_set (Fin k) v (fin l ++ SENT) = fin (sl_upd k v l) ++ SENT.
Proof.
  induction l as [|[k' v'] l IH]; cbn [fin map app el_set sl_upd fst snd ek_eqb]; [reflexivity|].
  fold (fin l). destruct (Z.eqb_spec k k') as [->|N]; [reflexivity|].
  cbn [fin map app fst snd]. fold (fin (sl_upd k v l)). now rewrite IH.
Qed.
Lemma el_del_fin k l : el_del (Fin k) (fin l ++ SENT) = fin (sl_del k l) ++ SENT.
Proof.
  induction l as [|[k' v'] l IH]; cbn [fin map app el_del sl_del fst snd ek_eqb]; [reflexivity|].
  fold (fin l). destruct (Z.eqb_spec k k') as [->|N]; [reflexivity|].
  cbn [fin map app fst snd]. fold (fin (sl_del k l)). now rewrite IH.
Qed.
Lemma fin_only_fin l : fin_only (fin l ++ SENT) = l.
Proof. induction l as [|[k v] l IH]; cbn; [reflexivity|]. f_equal. exact IH. Qed.
Lemma fin_keys k l : In (Fin k) (map fst (fin l ++ SENT)) <-> In k (map fst l).
Proof.
  induction l as [|[k' v'] l IH]; cbn [fin map app fst In].
  - split; [intros [H|[H|[]]]; discriminate|tauto].
  - fold (fin l). rewrite IH. split; intros [H|H]; auto; [left; congruence|left; congruence].
Qed.

Definition einv (t : etree) : Prop :=
  ebst t /\ (exists tl, t = ENode Inf2 tl (ELeaf Inf2 0)) /\
  exists l, ksorted l /\ e_leaves t = fin l ++ SENT.

Lemma einv_traverse t l : e_leaves t = fin l ++ SENT -> e_traverse t = l.
Proof. unfold e_traverse. intros ->. apply fin_only_fin. Qed.

Lemma sl_put_absent k v l : ~ In k (map fst l) -> sl_put true k v l = sl_put false k v l.
Proof.
  induction l as [|[k' v'] r IH]; cbn [sl_put map fst In]; intros N; [reflexivity|].
  destruct (k <? k'); [reflexivity|]. destruct (Z.eqb_spec k k') as [->|_]; [tauto|]. f_equal. apply IH; tauto.
Qed.

Lemma einv_init : einv e_init.
Proof.
  unfold einv, e_init. split; [|split; [eauto|exists []; split; [exact I|reflexivity]]].
  cbn. repeat split; try tauto; intros y [<-|[]]; unfold lt; cbn; congruence.
Qed.

Theorem e_step_inv t o : einv t -> einv (e_step t o) /\ e_traverse (e_step t o) = sl_step (e_traverse t) o.
Proof.
  intros (B & (tl0 & ->) & l & S & E). rewrite (einv_traverse _ _ E).
  set (t := ENode Inf2 tl0 (ELeaf Inf2 0)) in *.
  assert (INS : forall k v, einv (e_insert k v t) /\ e_traverse (e_insert k v t) = sl_put false k v l).
  { intros k v. assert (E' : e_leaves (e_insert k v t) = fin (sl_put false k v l) ++ SENT)
      by (rewrite insert_leaves, E by exact B; apply el_put_fin).
    split; [|now apply einv_traverse]. split; [now apply insert_ebst|]. split; [cbn; eauto|].
    eexists; split; [|exact E']. now apply sl_put_sorted. }
  assert (SET : forall k v, einv (e_setval k v t) /\ e_traverse (e_setval k v t) = sl_upd k v l).
  { intros k v. assert (E' : e_leaves (e_setval k v t) = fin (sl_upd k v l) ++ SENT)
      by (rewrite setval_leaves, E by exact B; apply el_set_fin).
    split; [|now apply einv_traverse]. split; [now apply setval_ebst|]. split; [cbn; eauto|].
    eexists; split; [|exact E']. now apply sl_upd_sorted. }
  assert (DEL : forall k, einv (e_erase k t) /\ e_traverse (e_erase k t) = sl_del k l).
  { intros k. assert (E' : e_leaves (e_erase k t) = fin (sl_del k l) ++ SENT)
      by (rewrite erase_leaves, E by (auto; unfold t; eauto); apply el_del_fin).
    split; [|now apply einv_traverse]. split; [now apply erase_ebst|]. split.
    - unfold t. cbn [e_erase ek_ltb]. destruct tl0 as [lk lv|K' l' r']; [|eauto].
      destruct (ek_eqb (Fin k) lk) eqn:Q; [|eauto]. exfalso. apply eqb_eq in Q. subst lk.
      unfold t in E. cbn [e_leaves app] in E. destruct l as [|[a b] [|? ?]]; cbn in E; try discriminate.
    - eexists; split; [|exact E']. now apply sl_del_sorted. }
  destruct o as [k v|k v|k v|k| |]; cbn [e_step sl_step].
  - apply INS.
  - destruct (e_mem k t) eqn:M.
    + destruct (SET k v) as [I1 I2]. split; [exact I1|]. rewrite I2. symmetry. apply sl_put_upd; [exact S|].
      apply fin_keys. rewrite <- E. apply mem_leaves; assumption.
    + destruct (INS k v) as [I1 I2]. split; [exact I1|]. rewrite I2. symmetry. apply sl_put_absent.
      intros H. apply fin_keys in H. rewrite <- E in H. apply mem_leaves in H; [congruence|exact B].
  - apply SET.
  - apply DEL.
  - destruct (min_leaves t) as (v & r & Hm). rewrite E in Hm.
    assert (Hk : e_min t = match l with [] => Inf1 | (k0, _) :: _ => Fin k0 end).
    { destruct l as [|[k0 v0] l']; cbn in Hm; inversion Hm; unfold t; cbn [e_min]; congruence. }
    rewrite Hk. destruct l as [|[k0 v0] l'].
    + split; [|now rewrite (einv_traverse _ _ E)]. split; [exact B|]. split; [unfold t; eauto|]. exists []. split; [exact I|exact E].
    + destruct (DEL k0) as [I1 I2]. split; [exact I1|]. rewrite I2. cbn [sl_del tl]. now rewrite Z.eqb_refl.
  - pose proof (max_leaves t B) as Hm. rewrite E, lastfin_app in Hm. cbn [SENT lastfin] in Hm.
    destruct l as [|x l'] using rev_ind.
    + cbn [fin map lastfin] in Hm. destruct (e_max t); [cbn in Hm; tauto| |];
        (split; [|now rewrite (einv_traverse _ _ E)]; split; [exact B|]; split; [unfold t; eauto|]; exists []; split; [exact I|exact E]).
    + clear IHl'. destruct x as [k1 v1]. unfold fin in Hm. rewrite map_app, lastfin_app in Hm. cbn [map lastfin fst snd] in Hm.
      rewrite Hm. destruct (DEL k1) as [I1 I2]. split; [exact I1|]. rewrite I2, removelast_last. now apply sl_del_last.
Qed.

Theorem e_run_inv os : einv (e_run os) /\ e_traverse (e_run os) = sl_run os.
Proof.
  unfold e_run, sl_run. assert (H : e_traverse e_init = []) by reflexivity. rewrite <- H.
  generalize einv_init. generalize e_init. induction os as [|o os IH]; intros t I; cbn [fold_left]; [split; [exact I|reflexivity]|].
  destruct (e_step_inv t o I) as [I' T']. rewrite <- T'. now apply IH.
Qed.

(** the library's check_consistency() follows from the (stronger) global order *)
Lemma node_key_in t : In (node_key t) (allkeys t).
Proof. destruct t; cbn; auto. Qed.

Theorem ebst_check_consistency t : ebst t -> e_check_consistency t = true.
Proof.
  induction t as [k v|K l IHl r IHr]; cbn [ebst e_check_consistency]; [reflexivity|].
  intros (B1 & B2 & _ & Bl & Br). rewrite IHl, IHr by assumption.
  pose proof (B1 _ (node_key_in l)) as H1. pose proof (B2 _ (node_key_in r)) as H2.
  unfold lt in *. rewrite H1. destruct (ek_ltb (node_key r) K) eqn:E; [congruence|]. cbn.
  apply ltb_false in E. destruct E as [<-|E]; [now rewrite H1|].
  assert (H3 : lt (node_key l) (node_key r)) by (eapply lt_trans; eauto). unfold lt in H3. now rewrite H3.
Qed.
