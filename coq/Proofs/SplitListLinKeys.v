(** * SplitListLinKeys: renaming the keys of an LP-annotated trace of the set specification.

    [ren_a] / [ren_h] apply a function [r : Z -> Z] to the key of every keyed operation (insert, erase, contains,
    update) of an annotated trace / of a history; results are unchanged.
    [ren_valid]: if [r] is injective on a class [P] of keys, and every invocation of the trace is a keyed operation
    whose key is in [P], then the renamed trace of a valid LP-annotated trace of [SetSpec] is a valid LP-annotated
    trace of [SetSpec] (its abstract set is the image under [r] of the original one).

    Pure lemma about [Base.Lin] / [Spec.Specs]: no model is involved.  Plain stdlib, no functional extensionality. *)
From Coq Require Import ZArith List Bool Arith PeanoNat Lia.
From LV Require Import Base.Lin Spec.Specs Proofs.LinProofs Proofs.MichaelListFullInv.   (* op_key *)
Import ListNotations.

Section Ren.
  Variable r : Z -> Z.

  Definition ren_op (o : set_op) : set_op :=
    match o with
    | SInsert k => SInsert (r k)
    | SErase k => SErase (r k)
    | SContains k => SContains (r k)
    | SUpdate k a => SUpdate (r k) a
    | o' => o'
    end.

  Definition ren_h (e : hev SetSpec) : hev SetSpec :=
    match e with
    | HInv t o => @HInv SetSpec t (ren_op o)
    | HRes t x => @HRes SetSpec t x
    end.

  Definition ren_a (e : aev SetSpec) : aev SetSpec :=
    match e with
    | AInv t o => @AInv SetSpec t (ren_op o)
    | ALin t => @ALin SetSpec t
    | ARes t x => @ARes SetSpec t x
    end.

  Lemma erase_ren atr : erase (map ren_a atr) = map ren_h (erase atr).
  Proof.
    induction atr as [|e atr IH]; [reflexivity|].
    destruct e as [t o|t|t x]; cbn [map ren_a erase ren_h]; now rewrite ?IH.
  Qed.

  (** the operation has a key (it is not one of the extract-min / extract-max operations) *)
  Definition keyed (o : set_op) : Prop :=
    match o with
    | SInsert _ | SErase _ | SContains _ | SUpdate _ _ => True
    | _ => False
    end.

  Variable P : Z -> Prop.

  Definition okeys (e : hev SetSpec) : Prop :=
    match e with
    | HInv _ o => keyed o /\ P (op_key o)
    | HRes _ _ => True
    end.

  (** [r] is injective on [P] *)
  Definition inj_on : Prop := forall z1 z2, P z1 -> P z2 -> r z1 = r z2 -> z1 = z2.

  (** ** the abstract set under the renaming *)
  Lemma eqb_ren z a : inj_on -> P z -> P a -> Z.eqb (r z) (r a) = Z.eqb z a.
  Proof.
    intros Hinj Hz Ha.
    destruct (Z.eqb_spec z a) as [E|E].
    - subst a. apply Z.eqb_refl.
    - apply Z.eqb_neq. intros E'. apply E, Hinj; assumption.
  Qed.

  Lemma zmem_ren z S : inj_on -> P z -> Forall P S -> zmem (r z) (map r S) = zmem z S.
  Proof.
    intros Hinj Hz HS. unfold zmem. induction HS as [|a S Ha HS IH]; [reflexivity|].
    cbn [map existsb]. now rewrite IH, (eqb_ren z a Hinj Hz Ha).
  Qed.

  Lemma zdel_ren z S : inj_on -> P z -> Forall P S -> map r (zdel z S) = zdel (r z) (map r S).
  Proof.
    intros Hinj Hz HS. unfold zdel. induction HS as [|a S Ha HS IH]; [reflexivity|].
    cbn [map filter]. rewrite (eqb_ren z a Hinj Hz Ha).
    destruct (negb (Z.eqb z a)); cbn [map]; now rewrite IH.
  Qed.

  Lemma zdel_Forall z S : Forall P S -> Forall P (zdel z S).
  Proof.
    intros HS. unfold zdel. induction HS as [|a S Ha HS IH]; [constructor|].
    cbn [filter]. destruct (negb (Z.eqb z a)); [constructor; assumption|assumption].
  Qed.

  Lemma set_step_ren S o :
    inj_on -> Forall P S -> keyed o -> P (op_key o) ->
    set_step (map r S) (ren_op o) = (map r (fst (set_step S o)), snd (set_step S o)).
  Proof.
    intros Hinj HS Hk Hp.
    destruct o as [k|k|k|k al| |]; cbn [keyed] in Hk; try contradiction; cbn [op_key] in Hp;
      cbn [ren_op set_step]; rewrite (zmem_ren k S Hinj Hp HS).
    - destruct (zmem k S); reflexivity.
    - destruct (zmem k S); cbn [fst snd]; [|reflexivity]. now rewrite (zdel_ren k S Hinj Hp HS).
    - reflexivity.
    - destruct (zmem k S); [reflexivity|]. destruct al; reflexivity.
  Qed.

  Lemma set_step_Forall S o :
    Forall P S -> keyed o -> P (op_key o) -> Forall P (fst (set_step S o)).
  Proof.
    intros HS Hk Hp.
    destruct o as [k|k|k|k al| |]; cbn [keyed] in Hk; try contradiction; cbn [op_key] in Hp; cbn [set_step].
    - destruct (zmem k S); cbn [fst]; [assumption|constructor; assumption].
    - destruct (zmem k S); cbn [fst]; [apply zdel_Forall|]; assumption.
    - assumption.
    - destruct (zmem k S); cbn [fst]; [assumption|]. destruct al; cbn [fst]; [constructor|]; assumption.
  Qed.

  (** ** thread statuses under the renaming *)
  Definition ren_st (x : status SetSpec) : status SetSpec :=
    match x with
    | Idle => @Idle SetSpec
    | Pending o => @Pending SetSpec (ren_op o)
    | Linearized o y => @Linearized SetSpec (ren_op o) y
    end.

  Definition ren_stat_ok (x : status SetSpec) : Prop :=
    match x with
    | Idle => True
    | Pending o | Linearized o _ => keyed o /\ P (op_key o)
    end.

  Lemma upd_ren (st st' : nat -> status SetSpec) v x :
    (forall t, st' t = ren_st (st t)) ->
    forall t, upd st' v (ren_st x) t = ren_st (upd st v x t).
  Proof.
    intros Hst t. unfold upd. destruct (Nat.eqb t v); [reflexivity|apply Hst].
  Qed.

  Lemma ren_stat_ok_upd (st : nat -> status SetSpec) v x :
    (forall u, ren_stat_ok (st u)) -> ren_stat_ok x -> forall u, ren_stat_ok (upd st v x u).
  Proof.
    intros H Hx u. unfold upd. destruct (Nat.eqb u v); [exact Hx|apply H].
  Qed.

  (** ** runs from related configurations *)
  Definition ren_related (c c' : config SetSpec) : Prop :=
    fst c' = map r (fst c) /\
    (forall t, snd c' t = ren_st (snd c t)) /\
    Forall P (fst c) /\
    (forall u, ren_stat_ok (snd c u)).

  Lemma ren_run atr : inj_on -> forall c c' d,
    ren_related c c' -> Forall okeys (erase atr) -> lp_run c atr = Some d ->
    exists d', lp_run c' (map ren_a atr) = Some d' /\ ren_related d d'.
  Proof.
    intros Hinj.
    induction atr as [|e atr IH]; intros [S st] [S' st'] d Hrel Hcl Hrun.
    - cbn [lp_run] in Hrun. inversion Hrun; subst d. exists (S', st'). split; [reflexivity|exact Hrel].
    - destruct Hrel as (HS & Hst & HP & Hok). cbn [fst snd] in HS, Hst, HP, Hok. subst S'.
      destruct e as [v o|v|v x].
      + (* invocation *)
        cbn [erase] in Hcl. inversion Hcl as [|? ? Hc Hcl']; subst. cbn [okeys] in Hc.
        cbn [lp_run lp_step] in Hrun. destruct (st v) eqn:Ev; try discriminate.
        cbn [map ren_a lp_run lp_step]. rewrite Hst, Ev. cbn [ren_st].
        eapply IH; [|exact Hcl'|exact Hrun].
        split; [reflexivity|]. cbn [fst snd]. split; [|split].
        * exact (upd_ren st st' v (@Pending SetSpec o) Hst).
        * exact HP.
        * apply ren_stat_ok_upd; [assumption|exact Hc].
      + (* linearization point *)
        cbn [erase] in Hcl.
        cbn [lp_run lp_step] in Hrun. destruct (st v) as [|o|o y] eqn:Ev; try discriminate.
        pose proof (Hok v) as Hov. rewrite Ev in Hov. cbn [ren_stat_ok] in Hov. destruct Hov as [Hk Hp].
        cbn [map ren_a lp_run lp_step]. rewrite Hst, Ev. cbn [ren_st].
        eapply IH; [|exact Hcl|exact Hrun].
        change (sstep SetSpec) with set_step.
        rewrite (set_step_ren S o Hinj HP Hk Hp). cbn [fst snd].
        split; [reflexivity|]. cbn [fst snd]. split; [|split].
        * exact (upd_ren st st' v (@Linearized SetSpec o (snd (set_step S o))) Hst).
        * apply set_step_Forall; assumption.
        * apply ren_stat_ok_upd; [assumption|]. cbn [ren_stat_ok]. split; assumption.
      + (* response *)
        cbn [erase] in Hcl. inversion Hcl as [|? ? Hc Hcl']; subst.
        cbn [lp_run lp_step] in Hrun. destruct (st v) as [|o|o y] eqn:Ev; try discriminate.
        destruct (res_eqb SetSpec x y) eqn:Er; try discriminate.
        cbn [map ren_a lp_run lp_step]. rewrite Hst, Ev. cbn [ren_st]. rewrite Er.
        eapply IH; [|exact Hcl'|exact Hrun].
        split; [reflexivity|]. cbn [fst snd]. split; [|split].
        * exact (upd_ren st st' v (@Idle SetSpec) Hst).
        * exact HP.
        * apply ren_stat_ok_upd; [assumption|exact I].
  Qed.

  Lemma ren_related_init : ren_related (@lp_init SetSpec) (@lp_init SetSpec).
  Proof.
    split; [reflexivity|]. split; [reflexivity|]. split; [constructor|]. intros u. exact I.
  Qed.

  Theorem ren_valid atr :
    (forall z1 z2, P z1 -> P z2 -> r z1 = r z2 -> z1 = z2) ->
    Forall okeys (erase atr) -> lp_valid SetSpec atr -> lp_valid SetSpec (map ren_a atr).
  Proof.
    intros Hinj Hcl [d Hd].
    destruct (ren_run atr Hinj _ _ _ ren_related_init Hcl Hd) as (d' & Hd' & _).
    exists d'. exact Hd'.
  Qed.

End Ren.
