(** * SkipListFullFind: the searches of the skip list model (find_position with helping, find_fastpath) against the
      full-history invariant: besides the position facts of Proofs/SkipListLin.v they establish the OBSERVATION on which the
      result of a read-type operation is linearized ([seen]). *)
From Coq Require Import ZArith List String Bool Lia PeanoNat.
From LV Require Import Base.Conc Base.Events Base.Lin Spec.Specs Proofs.LinProofs.
From LV Require Import Model.SkipList Proofs.SkipListProofs Proofs.SkipListLin Proofs.SkipListFullInv Proofs.SkipListFullActs
                       Proofs.SkipListFullActs2 Proofs.SkipListFullMono.
From LV Require Proofs.MichaelListInv Proofs.MichaelListLin Proofs.MichaelListFullInv.
Import ListNotations.
Local Open Scope Z_scope.

(** what a view knows about a position *)
Definition posk_above (n : nat) (lv : lview2) (ps : pos) : Prop :=
  forall L, (n <= L < MAXH)%nat -> known2 lv (pprev ps L) /\ knownz2 lv (psucc ps L) /\ hld lv L (psucc ps L).
Definition posk := posk_above 0.

Lemma posk_kle n lv lv1 ps : kle lv lv1 -> posk_above n lv ps -> posk_above n lv1 ps.
Proof.
  intros V H L HL. destruct (H L HL) as (A & B & C). split; [eapply known2_kle|split; [eapply knownz2_kle|eapply hld_kle]]; eauto.
Qed.

Definition okn (stop : bool) (lv : lview2) (o : fp_out) : Prop :=
  match o with
  | FpFound ps => knownz2 lv (pcur ps) /\ ((stop = true /\ isnode (pcur ps)) \/ posk lv ps)
  | FpNotFound ps => posk lv ps
  | FpOwnRemoved => True
  end.

(** observations at the end of a level / of the search *)
Definition lvl0 (key : Z) (q : ptr) (c : Z) (lv : lview2) : Prop :=
  (q = null \/ 0 < c -> seen key false null lv) /\ (q <> null -> c = 0 -> seen key true q lv).
Definition lvpost (key : Z) (lvl : nat) (cur : mptr) (c : Z) (found : bool) (lv : lview2) : Prop :=
  (found = true -> seen key true (fst cur) lv) /\ (lvl = 0%nat -> found = false -> lvl0 key (fst cur) c lv).
Definition stpost (own : ptr) (key : Z) (o : fp_out) (lv : lview2) : Prop :=
  match o with
  | FpFound ps => if Nat.eqb (pcur ps) null then seen key false null lv else seen key true (pcur ps) lv
  | FpNotFound _ => seen key false null lv
  | FpOwnRemoved => own <> null
  end.

Section WithNodes.
Variable nodes : cfg0.
Local Notation SAFEm := (SAFEm nodes).

Ltac nxl := intros g0; cbn; repeat split; eauto.
Ltac snx := apply Sm_nx; [nxl|intros ?].

Lemma T_ga_protect {R} t fuel : forall s slot p l (k : option mptr -> prog R) lv,
  (forall lv1, vle2 lv lv1 -> SAFEm t (k None) lv1) ->
  (forall x lv1, vle2 lv lv1 -> lnk l p (fst x) -> knownz2 lv1 (fst x) -> hld lv1 l (fst x) -> SAFEm t (k (Some x)) lv1) ->
  SAFEm t (ga_protect fuel s slot p l k) lv.
Proof.
  induction fuel as [|f IH]; intros s slot p l k lv H0 H1; cbn [ga_protect]; [apply H0, vle2_refl|].
  apply Sm_ld. intros x1 lv1 V1 L1 K1 D1. snx. snx. apply Sm_ld. intros x2 lv2 V2 L2 K2 D2. cbn [vp].
  assert (V : vle2 lv lv2) by (eapply vle2_trans; eauto).
  destruct (mp_eqb x1 x2).
  - apply H1; [exact V|exact L1|eapply knownz2_kle; [apply V2|exact K1]|eapply hld_kle; [apply V2|exact D1]].
  - apply IH.
    + intros lv3 Hle. apply H0. eapply vle2_trans; eauto.
    + intros x lv3 Hle. apply H1. eapply vle2_trans; eauto.
Qed.

(** GuardArray::protect at level 0 on a node below [key]: the value returned was seen by an observing load *)
Lemma T_ga_protect_abs {R} t key fuel : forall s slot p (k : option mptr -> prog R) lv,
  known2 lv p -> below key p ->
  (forall lv1, kle lv lv1 -> SAFEm t (k None) lv1) ->
  (forall x lv1, kle lv lv1 -> lnk 0 p (fst x) -> knownz2 lv1 (fst x) -> hld lv1 0 (fst x) ->
     (snd x = false -> fst x = null \/ key < key_of (fst x) -> seen key false null lv1) -> SAFEm t (k (Some x)) lv1) ->
  SAFEm t (ga_protect fuel s slot p 0 k) lv.
Proof.
  induction fuel as [|f IH]; intros s slot p k lv Kp Hb H0 H1; cbn [ga_protect]; [apply H0, kle_refl|].
  apply Sm_ld. intros x1 lv1 V1 L1 K1 D1. snx. snx.
  apply (Sm_ldk_abs nodes t key); [eapply known2_kle; [apply V1|exact Kp]|exact Hb|]. intros x2 lv2 V2 L2 K2 D2 _ S2. cbn [vp].
  assert (V : kle lv lv2) by (eapply kle_trans; [apply V1|exact V2]).
  destruct (mp_eqb x1 x2) eqn:E.
  - apply mp_eqb_eq in E. subst x2. apply H1; auto.
  - apply IH; [eapply known2_kle; eauto|exact Hb| |].
    + intros lv3 Hle. apply H0. eapply kle_trans; eauto.
    + intros x lv3 Hle. apply H1. eapply kle_trans; eauto.
Qed.

Lemma T_ga_protect_lvl {R} t key fuel s slot p l (k : option mptr -> prog R) lv :
  known2 lv p -> below key p ->
  (forall lv1, kle lv lv1 -> SAFEm t (k None) lv1) ->
  (forall x lv1, kle lv lv1 -> lnk l p (fst x) -> knownz2 lv1 (fst x) -> hld lv1 l (fst x) ->
     (l = 0%nat -> snd x = false -> fst x = null \/ key < key_of (fst x) -> seen key false null lv1) -> SAFEm t (k (Some x)) lv1) ->
  SAFEm t (ga_protect fuel s slot p l k) lv.
Proof.
  intros Kp Hb H0 H1. destruct l as [|l].
  - apply (T_ga_protect_abs t key); auto.
  - apply T_ga_protect.
    + intros lv1 V. apply H0. apply V.
    + intros x lv1 V Lx Kx Dx. apply H1; auto; [apply V|discriminate].
Qed.

Lemma T_g_protect_again {R} t fuel : forall s slot p l cur (k : option mptr -> prog R) lv,
  known2 lv p ->
  (forall lv1, vle2 lv lv1 -> SAFEm t (k None) lv1) ->
  (forall x lv1, vle2 lv lv1 -> lnk l p (fst x) -> knownz2 lv1 (fst x) -> hld lv1 l (fst x) -> fzfact2 l p x lv1 -> SAFEm t (k (Some x)) lv1) ->
  SAFEm t (g_protect_again fuel s slot p l cur k) lv.
Proof.
  induction fuel as [|f IH]; intros s slot p l cur k lv Hk H0 H1; cbn [g_protect_again]; [apply H0, vle2_refl|].
  snx. snx. apply Sm_ldk; [exact Hk|]. intros x2 lv1 V L2 K2 D2 F2. cbn [vp]. destruct (mp_eqb cur x2); [now apply H1|].
  apply IH; [eapply known2_kle; [apply V|exact Hk]| |].
  - intros lv2 Hle. apply H0. eapply vle2_trans; eauto.
  - intros x lv2 Hle. apply H1. eapply vle2_trans; eauto.
Qed.

Lemma T_g_protect {R} t fuel : forall s slot p l (k : option mptr -> prog R) lv,
  known2 lv p ->
  (forall lv1, vle2 lv lv1 -> SAFEm t (k None) lv1) ->
  (forall x lv1, vle2 lv lv1 -> lnk l p (fst x) -> knownz2 lv1 (fst x) -> hld lv1 l (fst x) -> fzfact2 l p x lv1 -> SAFEm t (k (Some x)) lv1) ->
  SAFEm t (g_protect fuel s slot p l k) lv.
Proof.
  destruct fuel as [|f]; intros s slot p l k lv Hk H0 H1; cbn [g_protect]; [apply H0, vle2_refl|].
  apply Sm_ld. intros x1 lv1 V1 L1 K1 D1. snx. snx. apply Sm_ldk; [eapply known2_kle; [apply V1|exact Hk]|].
  intros x2 lv2 V2 L2 K2 D2 F2. cbn [vp].
  assert (V' : vle2 lv lv2) by (eapply vle2_trans; eauto).
  destruct (mp_eqb x1 x2); [now apply H1|].
  apply T_g_protect_again; [eapply known2_kle; [apply V'|exact Hk]| |].
  - intros lv3 Hle. apply H0. eapply vle2_trans; eauto.
  - intros x lv3 Hle. apply H1. eapply vle2_trans; eauto.
Qed.

Lemma T_help_remove {R} t n fuel s l pred cur (k : res TL -> prog R) lv :
  tlk t n s -> ltp l pred cur -> known2 lv pred -> known2 lv cur ->
  (forall r lv1, vle2 lv lv1 -> match r with Ok s' => tlk t n s' | Fuel => True end -> SAFEm t (k r) lv1) ->
  SAFEm t (help_remove fuel s l pred cur k) lv.
Proof.
  intros Ht Hpc Kp Kc Hk. unfold help_remove. snx. destruct (vz v =? Z.of_nat l + 1); [|apply Hk; [apply vle2_refl|exact Ht]].
  destruct (alloc1 s) as [hp s1] eqn:Ea. pose proof (tlk_alloc1 _ _ _ _ _ Ea Ht) as Ht1.
  apply T_g_protect; [exact Kc|intros; apply Hk; [assumption|exact Logic.I]|]. intros succ lv1 V Ls Ks Ds Fs.
  assert (Hdone : forall lv2, vle2 lv1 lv2 -> SAFEm t (g_clear s1 hp (k (Ok (free1 hp s1)))) lv2).
  { intros lv2 V2. apply Sm_clear. apply Hk; [eapply vle2_trans; eauto|apply tlk_free1; exact Ht1]. }
  destruct (snd succ) eqn:Em; [|apply Hdone, vle2_refl].
  assert (Hafter : forall ok c lv2, vle2 lv1 lv2 ->
            SAFEm t (if vok (VC ok c) then Act (a_fas_unl cur 1) (fun u1 => if vz u1 =? 1 then retire s1 (g_clear s1 hp (k (Ok (free1 hp s1)))) else g_clear s1 hp (k (Ok (free1 hp s1))))
                     else g_clear s1 hp (k (Ok (free1 hp s1)))) lv2).
  { intros ok c lv2 V2. cbn [vok]. destruct ok; [|now apply Hdone]. snx. destruct (vz v0 =? 1); [apply Sm_retire|]; now apply Hdone. }
  destruct l as [|l'].
  - apply Sm_cas0_unlink; [eapply known2_kle; [apply V|exact Kp]|apply Fs; auto|eapply ltp_trans; eauto|].
    intros ok c lv2 V2 _. now apply Hafter.
  - apply Sm_cas_up; [discriminate|cbn [fst]; eapply ltp_trans; eauto|exact Ks|reflexivity|left; now apply hld_hok|].
    intros ok c lv2 V2 _ _ _ _. now apply Hafter.
Qed.

Lemma seen_lvl0_vle2 key q c lv lv' : vle2 lv lv' -> lvl0 key q c lv -> lvl0 key q c lv'.
Proof. intros V [A B]. split; intros; eapply seen_vle2; eauto. Qed.

Lemma T_fp_level {R} t n fuel : forall s key stop own lvl pred ps ncmp (retry : TL -> prog R) k kf kown lv,
  tlk t n s -> below key pred -> known2 lv pred ->
  (forall s' lv1, tlk t n s' -> kle lv lv1 -> SAFEm t (retry s') lv1) -> (forall lv1, kle lv lv1 -> SAFEm t kf lv1) ->
  (own <> null -> forall s' lv1, tlk t n s' -> kle lv lv1 -> SAFEm t (kown s') lv1) ->
  (forall s' pred' cur c found lv1, tlk t n s' -> kle lv lv1 -> below key pred' -> known2 lv1 pred' -> knownz2 lv1 (fst cur) ->
      hld lv1 lvl (fst cur) -> curfact key stop cur c found -> lvpost key lvl cur c found lv1 -> SAFEm t (k s' pred' cur c found) lv1) ->
  SAFEm t (fp_level fuel s key stop own lvl pred ps ncmp retry k kf kown) lv.
Proof.
  induction fuel as [|f IH]; intros s key stop own lvl pred ps ncmp retry k kf kown lv Ht Hb Kp Hr Hf Ho Hk; cbn [fp_level]; [apply Hf, kle_refl|].
  apply (T_ga_protect_lvl t key); [exact Kp|exact Hb|exact Hf|]. intros cur lv1 V1 Lc Kc Dc Habs.
  destruct (snd cur) eqn:Em; [now apply Hr|].
  assert (Kp1 : known2 lv1 pred) by (eapply known2_kle; eauto).
  destruct (Nat.eqb (fst cur) null) eqn:En.
  { apply Nat.eqb_eq in En. apply Hk; auto.
    - split; [discriminate|now left].
    - split; [discriminate|]. intros El _. split; [intros _; apply Habs; auto|intros X; contradiction]. }
  pose proof (eqb_null _ En) as Nn.
  pose proof (lnk_ltp _ _ _ Lc Nn) as Lt.
  assert (Kc1 : known2 lv1 (fst cur)) by (apply known_of_knownz2; assumption).
  assert (Hin : In (fst cur) (vkn (fst lv1))) by (destruct Kc1 as [E|E]; [exfalso; destruct Lt as [X _]; unfold isnode, head in *; lia|exact E]).
  assert (Nh : fst cur <> head) by (destruct Lt as [X _]; unfold isnode, head in *; lia).
  set (c := cmpk (fst cur) key).
  (* everything after the load of the successor's cell *)
  assert (Htail : forall xs lv2, kle lv1 lv2 -> lnk lvl (fst cur) (fst xs) ->
            (snd xs = false -> c = 0 -> seen key true (fst cur) lv2) ->
            (0 < c -> lvl = 0%nat -> seen key false null lv2) ->
            SAFEm t (Act (a_ld_next pred lvl) (fun vr =>
                  if negb (mp_eqb (vp vr) (fst cur, false)) then retry s
                  else if snd (vp (VP xs)) then
                    if negb (Nat.eqb own null) && Nat.eqb (fst cur) own then kown s
                    else help_remove (S f) s lvl pred (fst cur) (fun rs => match rs with Ok s' => retry s' | Fuel => kf end)
                  else
                    let c := cmpk (fst cur) key in
                    if c <? 0 then
                      g_copy s (gslot ps (2 * lvl)) (gslot ps (2 * lvl + 1))
                        (fp_level f s key stop own lvl (fst cur) ps c retry k kf kown)
                    else if (c =? 0) && stop then k s pred cur 0 true
                    else k s pred cur c false)) lv2).
  { intros xs lv2 V2 Ls Sp Sa. apply Sm_ld. intros xr lv3 V3 Lr Kr Dr. cbn [vp].
    assert (V13 : kle lv1 lv3) by (eapply kle_trans; [exact V2|apply V3]).
    assert (V03 : kle lv lv3) by (eapply kle_trans; eauto).
    destruct (negb (mp_eqb xr (fst cur, false))); [now apply Hr|].
    destruct (snd xs) eqn:Exs.
    - destruct (negb (Nat.eqb own null) && Nat.eqb (fst cur) own) eqn:Eo.
      + apply Ho; auto. apply andb_true_iff in Eo. destruct Eo as [Eo _]. apply negb_true_iff, Nat.eqb_neq in Eo. exact Eo.
      + apply (T_help_remove t n); [exact Ht|exact Lt|eapply known2_kle; [exact V13|exact Kp1]|eapply known2_kle; [exact V13|exact Kc1]|].
        intros [s'|] lv4 V4 Hs; [apply Hr; [exact Hs|]|apply Hf]; (eapply kle_trans; [exact V03|apply V4]).
    - fold c. destruct (Z.ltb_spec c 0) as [C|C].
      + apply Sm_copy. apply IH; auto.
        * right. split; [eapply ltp_isnode; eauto|]. unfold c, cmpk in C. lia.
        * eapply known2_kle; [exact V13|exact Kc1].
        * intros s' lv4 Hs V4. apply Hr; [exact Hs|]. eapply kle_trans; eauto.
        * intros lv4 V4. apply Hf. eapply kle_trans; eauto.
        * intros No s' lv4 Hs V4. apply Ho; auto. eapply kle_trans; eauto.
        * intros s' pred' cur' c' found lv4 Ht' V4. apply Hk; auto. eapply kle_trans; eauto.
      + destruct ((c =? 0) && stop) eqn:E.
        * apply andb_true_iff in E. destruct E as [E1 E2]. apply Z.eqb_eq in E1.
          apply Hk; auto; [eapply known2_kle; [exact V13|exact Kp1]|eapply knownz2_kle; [exact V13|exact Kc]|eapply hld_kle; [exact V13|exact Dc]| |].
          -- split; [intros _; split; [eapply ltp_isnode; eauto|exact E2]|]. right.
             repeat split; [eapply ltp_isnode; eauto|fold c; lia|lia|intros _ X; discriminate].
          -- split; [intros _; eapply seen_vle2; [exact V3|]; now apply Sp|intros _ X; discriminate].
        * apply Hk; auto; [eapply known2_kle; [exact V13|exact Kp1]|eapply knownz2_kle; [exact V13|exact Kc]|eapply hld_kle; [exact V13|exact Dc]| |].
          -- split; [discriminate|]. right. repeat split; [eapply ltp_isnode; eauto|exact C|].
             intros -> _. rewrite andb_true_r in E. apply Z.eqb_neq in E. lia.
          -- split; [discriminate|]. intros El _. split.
             ++ intros [X|X]; [contradiction|]. eapply seen_vle2; [exact V3|]. now apply Sa.
             ++ intros _ X. eapply seen_vle2; [exact V3|]. now apply Sp. }
  destruct (Z.eq_dec (key_of (fst cur)) key) as [Ek|Nk].
  - apply (Sm_ldk_pres nodes t key); [exact Hin|exact Ek| |exact Nh|].
    { destruct lvl; [now left|right]. destruct Dc as [X|X]; [contradiction|exact X]. }
    intros xs lv2 V2 Ls Ks Ds Fs Ss. apply Htail; auto.
    intros X. unfold c, cmpk in X. lia.
  - apply Sm_ldk; [exact Kc1|]. intros xs lv2 V2 Ls Ks Ds Fs. apply Htail; auto; [apply V2| |].
    + intros _ X. unfold c, cmpk in X. lia.
    + intros X El. eapply seen_vle2; [exact V2|]. apply Habs; auto. right. unfold c, cmpk in X. lia.
Qed.

Lemma T_fp_levels {R} t sn fuel : forall n s key stop own pred ps ncmp (retry : TL -> prog R) k kf lv,
  tlk t sn s -> (n <= MAXH)%nat -> below key pred -> known2 lv pred -> pos_above n key stop ps -> posk_above n lv ps ->
  ((n < MAXH)%nat -> knownz2 lv (pcur ps) /\ (pcur ps = null \/ (isnode (pcur ps) /\ ncmp = cmpk (pcur ps) key /\ 0 <= ncmp)) /\
                     (n = 0%nat -> lvl0 key (pcur ps) ncmp lv)) ->
  (forall s' lv1, tlk t sn s' -> kle lv lv1 -> SAFEm t (retry s') lv1) -> (forall lv1, kle lv lv1 -> SAFEm t kf lv1) ->
  (forall s' o lv1, tlk t sn s' -> kle lv lv1 -> fp_post key stop o -> okn stop lv1 o -> stpost own key o lv1 -> SAFEm t (k s' o) lv1) ->
  SAFEm t (fp_levels fuel n s key stop own pred ps ncmp retry k kf) lv.
Proof.
  induction n as [|lvl IH]; intros s key stop own pred ps ncmp retry k kf lv Ht Hn Hb Kp Hp Hq Hc Hr Hf Hk; cbn [fp_levels].
  - destruct (Hc ltac:(unfold MAXH; lia)) as (Kc & Hc' & H0). specialize (H0 eq_refl). destruct H0 as [H0a H0b].
    destruct (Z.eqb_spec ncmp 0) as [E|E]; apply Hk; auto using kle_refl; cbn [fp_post okn stpost].
    + right. split; [exact Hp|]. destruct Hc' as [H|(H1 & H2 & _)]; [now left|right]. split; auto. unfold cmpk in H2. lia.
    + split; [exact Kc|now right].
    + destruct (Nat.eqb_spec (pcur ps) null) as [X|X]; [apply H0a; now left|now apply H0b].
    + apply H0a. destruct Hc' as [H|(H1 & H2 & H3)]; [now left|right; lia].
  - apply Sm_assign. apply (T_fp_level t sn); auto.
    + intros No s' lv1 Hs V. apply Hk; auto; exact Logic.I.
    + intros s' pred' cur c found lv1 Ht' V Hb' Kp' Kc' Dc' Hcf Hlp. destruct found.
      * destruct Hcf as [Hfd _]. destruct (Hfd eq_refl) as [F1 F2]. apply Hk; auto; cbn [fp_post okn stpost pcur].
        -- left. split; assumption.
        -- split; [exact Kc'|]. left. split; assumption.
        -- destruct (Nat.eqb_spec (fst cur) null) as [X|X]; [exfalso; rewrite X in F1; unfold isnode, null in F1; lia|]. destruct Hlp as [Hl1 _]. now apply Hl1.
      * apply IH; auto; [lia| | | | | |].
        -- intros L HL. cbn [pprev psucc]. destruct Hcf as [_ Hcf]. destruct (Nat.eq_dec L lvl) as [->|NL].
           ++ rewrite !set_lvl_same. split; [exact Hb'|]. destruct Hcf as [H|(H1 & H2 & H3 & H4)]; [now left|right].
              split; [exact H1|]. unfold cmpk in *. destruct stop; [specialize (H4 eq_refl eq_refl); lia|lia].
           ++ rewrite !set_lvl_other by exact NL. apply Hp. lia.
        -- intros L HL. cbn [pprev psucc]. destruct (Nat.eq_dec L lvl) as [->|NL].
           ++ rewrite !set_lvl_same. split; [exact Kp'|split; assumption].
           ++ rewrite !set_lvl_other by exact NL. eapply posk_kle; [exact V|exact Hq|lia].
        -- intros _. cbn [pcur]. split; [exact Kc'|]. split.
           ++ destruct Hcf as [_ [H|(H1 & H2 & H3 & H4)]]; [now left|right; auto].
           ++ intros El. destruct Hlp as [_ Hl2]. now apply Hl2.
        -- intros s'' lv2 Hs V2. apply Hr; [exact Hs|]. eapply kle_trans; eauto.
        -- intros lv2 V2. apply Hf. eapply kle_trans; eauto.
        -- intros s'' o lv2 Ht'' V2. apply Hk; auto. eapply kle_trans; eauto.
Qed.

Lemma T_find_position {R} t n fuel : forall s key stop own ps (k : TL -> fp_out -> prog R) kf lv,
  tlk t n s ->
  (forall s' o lv1, tlk t n s' -> kle lv lv1 -> fp_post' own key stop o -> okn stop lv1 o -> stpost own key o lv1 -> SAFEm t (k s' o) lv1) ->
  (forall lv1, kle lv lv1 -> SAFEm t kf lv1) -> SAFEm t (find_position fuel s key stop own ps k kf) lv.
Proof.
  induction fuel as [|f IH]; intros s key stop own ps k kf lv Ht Hk Hf; cbn [find_position]; [apply Hf, kle_refl|].
  apply (T_fp_levels t n); auto.
  - now left.
  - now left.
  - intros L HL. lia.
  - intros L HL. lia.
  - intros HL. lia.
  - intros s' lv1 Hs V. apply IH; auto.
    + intros s'' o lv2 Ht'' V2. apply Hk; auto. eapply kle_trans; eauto.
    + intros lv2 V2. apply Hf. eapply kle_trans; eauto.
  - intros s' [ps'| ps'|] lv1 Ht' V Hp Ho Hst.
    + destruct (Nat.eqb own null && Nat.eqb (pcur ps') null) eqn:E.
      * apply andb_true_iff in E. destruct E as [E1 E2]. cbn [stpost] in Hst. rewrite E2 in Hst. apply Nat.eqb_eq in E2. cbn [fp_post okn] in *.
        assert (Nn : ~ isnode (pcur ps')) by (unfold isnode; rewrite E2; unfold null; lia).
        apply Hk; auto.
        -- split; [|intros _; exact Logic.I]. cbn [fp_post]. destruct Hp as [(_ & Hn)|(Hp & _)]; [tauto|exact Hp].
        -- cbn [okn]. destruct Ho as (_ & [(_ & Hn)|Ho]); [tauto|exact Ho].
      * apply Hk; auto. split; [exact Hp|]. intros ->. cbn [Nat.eqb andb] in E. now apply Nat.eqb_neq.
    + apply Hk; auto. split; [exact Hp|intros _; exact Logic.I].
    + apply Hk; auto. split; [exact Logic.I|intros _; exact Logic.I].
Qed.

Lemma posk_full (stop : bool) lv ps : (stop = true /\ isnode (pcur ps)) \/ posk lv ps -> stop = false -> posk lv ps.
Proof. intros [(E & _)|H] E'; [congruence|exact H]. Qed.

(** ** find_fastpath *)
Definition ffpost (key : Z) (lvl : nat) (o : ff_out) (lv : lview2) : Prop :=
  match o with
  | FFound => exists d, seen key true d lv
  | FNotFound => lvl = 0%nat -> seen key false null lv
  | _ => True
  end.

Lemma T_ff_level {R} t key fuel : forall s ga gb lvl pred cur (k : ff_out -> ptr -> prog R) kf lv,
  knownz2 lv (fst cur) -> lnk lvl pred (fst cur) ->
  (lvl = 0%nat -> snd cur = false -> fst cur = null \/ key < key_of (fst cur) -> seen key false null lv) ->
  (forall o p lv1, kle lv lv1 -> (o = FNotFound -> p = pred \/ (known2 lv1 p /\ below key p)) -> ffpost key lvl o lv1 -> SAFEm t (k o p) lv1) ->
  (forall lv1, kle lv lv1 -> SAFEm t kf lv1) ->
  SAFEm t (ff_level fuel s key ga gb lvl pred cur k kf) lv.
Proof.
  induction fuel as [|f IH]; intros s ga gb lvl pred cur k kf lv Kc Lc Habs Hk Hf; cbn [ff_level]; [apply Hf, kle_refl|].
  destruct (Nat.eqb (fst cur) null && negb (snd cur)) eqn:E0.
  { apply andb_true_iff in E0. destruct E0 as [E1 E2]. apply Nat.eqb_eq in E1. apply negb_true_iff in E2.
    apply Hk; [apply kle_refl|intros _; now left|]. intros El. apply Habs; auto. }
  destruct (snd cur) eqn:Em; [apply Hk; [apply kle_refl|discriminate|exact Logic.I]|].
  rewrite andb_true_r in E0. pose proof (eqb_null _ E0) as Nn.
  assert (Kc1 : known2 lv (fst cur)) by (apply known_of_knownz2; assumption).
  assert (Hnode : isnode (fst cur)) by (eapply ltp_isnode; eapply lnk_ltp; eauto).
  assert (Hin : In (fst cur) (vkn (fst lv))) by (destruct Kc1 as [E|E]; [unfold isnode, head in *; lia|exact E]).
  assert (Nh : fst cur <> head) by (unfold isnode, head in *; lia).
  destruct (Z.ltb_spec (cmpk (fst cur) key) 0) as [C|C].
  - apply Sm_copy. assert (Hb : below key (fst cur)) by (right; split; [exact Hnode|unfold cmpk in C; lia]).
    apply (T_ga_protect_lvl t key); [exact Kc1|exact Hb|exact Hf|]. intros nx lv1 V Ln Kn Dn Hn. apply IH; auto.
    + intros o p lv2 V2 Hp. apply Hk; [eapply kle_trans; eauto|].
      intros Eo. destruct (Hp Eo) as [->|X]; [right; split; [eapply known2_kle; [exact V2|eapply known2_kle; eauto]|exact Hb]|now right].
    + intros lv2 V2. apply Hf. eapply kle_trans; eauto.
  - destruct (Z.eqb_spec (cmpk (fst cur) key) 0) as [E|E].
    + apply (Sm_ldk_pres nodes t key); [exact Hin|unfold cmpk in E; lia|now left|exact Nh|].
      intros x lv1 V _ _ _ _ Sx. cbn [vp]. destruct (snd x) eqn:Ex.
      * apply Hk; [exact V|discriminate|exact Logic.I].
      * apply Hk; [exact V|discriminate|]. exists (fst cur). now apply Sx.
    + apply Hk; [apply kle_refl|intros _; now left|]. intros El. apply Habs; auto. right. unfold cmpk in *. lia.
Qed.

End WithNodes.
