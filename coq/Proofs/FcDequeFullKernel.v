(** * FCDeque with clear(): instances of the kernel theorems, for EVERY schedule.

    (1) the kernel model LV.Model.FcKernel (wait_strategy::backoff) with the request words 2..8
        (push_front/back [move], pop_front/back, clear): [fcdequefull_linearizable];
    (2) the kernel model LV.Model.FcKernelWake: condition-variable wait strategies (wakeup_any) AND
        kernel::invoke_exclusive ([WExcl]) = the accesses of FCDeque::empty() and of FCDeque::apply( f ) with a
        functor that does not modify the deque: [fcdequefull_wake_linearizable] - the history of
        push/pop/clear stays linearizable when any number of empty()/apply() calls run concurrently.

    Linearization point of every request, clear included: its execution by the combiner ("exec"), or, for a
    collided push/pop pair, the instant of the collision in fc_process. *)
From Coq Require Import ZArith List String Bool Lia PeanoNat.
From LV Require Import Base.Conc Base.Events Base.Lin Spec.Specs Proofs.LinProofs
                       Model.FcKernel Model.FcKernelWake Model.FcBatch Proofs.FcBatchProofs Proofs.FcKernelProofs
                       Proofs.FcContainers Proofs.FcWakeProofs Model.FcDequeFull Proofs.FcDequeFull.
From LV Require Proofs.FcKernelShape Proofs.FcKernelFree Proofs.FcWakeFree.
Import ListNotations.

Set Implicit Arguments.

Lemma dqf_capply_spec (c : St DequeFull) op arg :
  dqf_okop op = true -> dqf_apply c op arg = sstep DequeFull c (dqf_dec op arg).
Proof. apply dqf_apply_spec. Qed.

(** ** (1) wait_strategy::backoff *)
Definition dqf_init_cfg (chk : bool) (fuel mask npass : nat) (ths : list (list cop)) :=
  FcKernel.init_cfg RUnit res_enc dqf_apply (None : itprev) dqf_visit chk fuel mask npass ([] : list Z) ths.

Theorem fcdequefull_single_combiner chk fuel mask npass ths c :
  ops_ok dqf_okop ths -> Conc.reach (dqf_init_cfg chk fuel mask npass ths) c ->
  exists h, mon None (Conc.trace c) = Some h.
Proof.
  intros Hok Hr.
  exact (proj1 (fc_partA (S := DequeFull) res_dec res_dec_enc dqf_okop_ge2 dqf_capply_spec (pinit := (None : itprev)) (pheld := held_of) eq_refl dqf_visit_sound Hok Hr)).
Qed.

Theorem fcdequefull_lp_valid_partA chk fuel mask npass ths c :
  ops_ok dqf_okop ths -> Conc.reach (dqf_init_cfg chk fuel mask npass ths) c ->
  has_lost (Conc.trace c) = false -> lp_valid DequeFull (annot DequeFull res_dec dqf_dec (Conc.trace c)).
Proof.
  intros Hok Hr.
  exact (proj2 (fc_partA (S := DequeFull) res_dec res_dec_enc dqf_okop_ge2 dqf_capply_spec (pinit := (None : itprev)) (pheld := held_of) eq_refl dqf_visit_sound Hok Hr)).
Qed.

Theorem fcdequefull_linearizable_partA chk fuel mask npass ths c :
  ops_ok dqf_okop ths -> Conc.reach (dqf_init_cfg chk fuel mask npass ths) c ->
  has_lost (Conc.trace c) = false -> linearizable DequeFull (fc_history DequeFull res_dec dqf_dec (Conc.trace c)).
Proof. intros Hok Hr Hl. apply lp_valid_linearizable. eapply fcdequefull_lp_valid_partA; eauto. Qed.

Theorem fcdequefull_never_lost fuel mask npass ths c :
  ops_ok dqf_okop ths -> passes_ok npass ths -> Conc.reach (dqf_init_cfg true fuel mask npass ths) c ->
  has_lost (Conc.trace c) = false.
Proof.
  intros Hok Hp Hr. unfold dqf_init_cfg in Hr.
  exact (FcKernelShape.fc_never_lost (ops_ok_progs_ok dqf_okop_ge2 Hok Hp) Hr).
Qed.

Theorem fcdequefull_lp_valid fuel mask npass ths c :
  ops_ok dqf_okop ths -> passes_ok npass ths -> Conc.reach (dqf_init_cfg true fuel mask npass ths) c ->
  lp_valid DequeFull (annot DequeFull res_dec dqf_dec (Conc.trace c)).
Proof. intros Hok Hp Hr. apply (fcdequefull_lp_valid_partA Hok Hr). exact (fcdequefull_never_lost Hok Hp Hr). Qed.

Theorem fcdequefull_linearizable fuel mask npass ths c :
  ops_ok dqf_okop ths -> passes_ok npass ths -> Conc.reach (dqf_init_cfg true fuel mask npass ths) c ->
  linearizable DequeFull (fc_history DequeFull res_dec dqf_dec (Conc.trace c)).
Proof. intros Hok Hp Hr. apply lp_valid_linearizable. exact (fcdequefull_lp_valid Hok Hp Hr). Qed.

(** publication records are not used after they were freed *)
Lemma dqf_visit_recs : forall p c r op tid arg p' c' cs, dqf_visit p c r op tid arg = (p', c', cs) ->
  (forall q, In q (map fst cs) -> q = r \/ In q (it_recs p)) /\ (forall q, In q (it_recs p') -> q = r \/ In q (it_recs p)).
Proof. exact dq_visit_recs. Qed.

Theorem fcdequefull_records_not_used_after_free fuel mask npass ths c :
  ops_ok dqf_okop ths -> passes_ok npass ths -> Conc.reach (dqf_init_cfg true fuel mask npass ths) c ->
  FcKernelFree.has_uaf (Conc.trace c) = false.
Proof.
  intros Hok Hp Hr. unfold dqf_init_cfg in Hr.
  exact (proj1 (@FcKernelFree.fc_no_uaf _ _ _ _ _ _ (None : itprev) _ it_recs eq_refl dqf_visit_recs _ _ _ _ _ _ (ops_ok_progs_ok_free dqf_okop_ge2 Hok Hp) Hr)).
Qed.

(** ** (2) wakeup_any() wait strategies and invoke_exclusive (empty() / apply()) *)
Definition dqfw_init_cfg (wk wkin : bool) (fuel mask npass : nat) (ths : list (list wop)) :=
  FcKernelWake.init_cfg RUnit res_enc dqf_apply (None : itprev) dqf_visit wk wkin fuel mask npass ([] : list Z) ths.

Definition dqfw_ops_ok (ths : list (list wop)) : Prop := FcWakeProofs.wops_ok dqf_okop ths.
Definition dqfw_passes_ok (npass : nat) (ths : list (list wop)) : Prop := Forall (Forall (FcWakeFree.wop_pass npass)) ths.

Lemma dqfw_passes_ok_pos npass ths : 1 <= npass -> dqfw_passes_ok npass ths.
Proof.
  intros H. apply Forall_forall. intros os _. apply Forall_forall. intros [b op arg| |] _; cbn; auto.
Qed.

Lemma dqfw_progs_ok npass ths : dqfw_ops_ok ths -> dqfw_passes_ok npass ths -> FcWakeFree.wprogs_ok npass ths.
Proof.
  intros Hok Hp. split; [|exact Hp]. eapply Forall_impl; [|exact Hok]. intros os Hos.
  eapply Forall_impl; [|exact Hos]. intros [b op arg| |] Ho; cbn in *; auto. apply dqf_okop_ge2. exact Ho.
Qed.

(** one holder of the combiner lock at a time, exclusive sections included: both orders of the wakeup *)
Theorem fcdequefull_wake_single_combiner wk wkin fuel mask npass ths c :
  dqfw_ops_ok ths -> Conc.reach (dqfw_init_cfg wk wkin fuel mask npass ths) c ->
  exists h, mon None (Conc.trace c) = Some h.
Proof.
  intros Hok Hr. unfold dqfw_init_cfg in Hr.
  exact (proj1 (@fc_wake_partA DequeFull RUnit res_enc res_dec res_dec_enc dqf_okop dqf_okop_ge2 dqf_dec dqf_apply dqf_capply_spec
                  itprev (None : itprev) held_of eq_refl dqf_visit dqf_visit_sound wk wkin fuel mask npass ths c Hok Hr)).
Qed.

Theorem fcdequefull_wake_lp_valid_partA wk wkin fuel mask npass ths c :
  dqfw_ops_ok ths -> Conc.reach (dqfw_init_cfg wk wkin fuel mask npass ths) c ->
  has_lost (Conc.trace c) = false -> lp_valid DequeFull (annot DequeFull res_dec dqf_dec (Conc.trace c)).
Proof.
  intros Hok Hr. unfold dqfw_init_cfg in Hr.
  exact (proj2 (@fc_wake_partA DequeFull RUnit res_enc res_dec res_dec_enc dqf_okop dqf_okop_ge2 dqf_dec dqf_apply dqf_capply_spec
                  itprev (None : itprev) held_of eq_refl dqf_visit dqf_visit_sound wk wkin fuel mask npass ths c Hok Hr)).
Qed.

Theorem fcdequefull_wake_never_lost wk fuel mask npass ths c :
  dqfw_ops_ok ths -> dqfw_passes_ok npass ths -> Conc.reach (dqfw_init_cfg wk true fuel mask npass ths) c ->
  FcKernelFree.has_uaf (Conc.trace c) = false /\ has_lost (Conc.trace c) = false.
Proof.
  intros Hok Hp Hr. unfold dqfw_init_cfg in Hr.
  exact (@FcWakeFree.fc_wake_no_uaf _ _ RUnit res_enc dqf_apply _ (None : itprev) dqf_visit it_recs eq_refl dqf_visit_recs
           wk fuel mask npass _ ths c (dqfw_progs_ok Hok Hp) Hr).
Qed.

Theorem fcdequefull_wake_lp_valid wk fuel mask npass ths c :
  dqfw_ops_ok ths -> dqfw_passes_ok npass ths -> Conc.reach (dqfw_init_cfg wk true fuel mask npass ths) c ->
  lp_valid DequeFull (annot DequeFull res_dec dqf_dec (Conc.trace c)).
Proof.
  intros Hok Hp Hr. eapply fcdequefull_wake_lp_valid_partA; [exact Hok|exact Hr|].
  exact (proj2 (fcdequefull_wake_never_lost Hok Hp Hr)).
Qed.

Theorem fcdequefull_wake_linearizable wk fuel mask npass ths c :
  dqfw_ops_ok ths -> dqfw_passes_ok npass ths -> Conc.reach (dqfw_init_cfg wk true fuel mask npass ths) c ->
  linearizable DequeFull (fc_history DequeFull res_dec dqf_dec (Conc.trace c)).
Proof. intros Hok Hp Hr. apply lp_valid_linearizable. exact (fcdequefull_wake_lp_valid Hok Hp Hr). Qed.

(** ** (3) empty() with its result: invoke_exclusive with the functor `bRet = deq.empty()`
       (LV.Model.FcDequeFull, Section KernelExcl; proofs LV.Proofs.FcDequeFullExcl / FcDequeFullExclFree).

    Client programs [xop]: requests 2..8 through combine / batch_combine, thread exit, [XExcl 9 0] = empty() and
    [XExcl 10 0] = apply( size functor ).  The history contains these calls as operations [FEmpty] / [FSize] of the
    specification [DequeFull], recorded at the instant the caller acquires the combiner lock (inside the real call). *)
From LV Require Proofs.FcDequeFullExcl Proofs.FcDequeFullExclFree.

Lemma dqx_excl_spec (c : St DequeFull) op arg :
  dqx_ok op = true -> dqx_excl op arg c = sstep DequeFull c (dqf_dec op arg).
Proof.
  unfold dqx_ok, xop_empty, xop_apply_size. intros H. apply orb_true_iff in H.
  destruct H as [H|H]; apply Nat.eqb_eq in H; subst op; reflexivity.
Qed.

Definition dqx_ops_ok (ths : list (list xop)) : Prop := FcDequeFullExcl.xops_ok dqf_okop dqx_ok ths.
Definition dqx_passes_ok (npass : nat) (ths : list (list xop)) : Prop := Forall (Forall (FcDequeFullExclFree.xop_pass npass)) ths.

Lemma dqx_passes_ok_pos npass ths : 1 <= npass -> dqx_passes_ok npass ths.
Proof.
  intros H. apply Forall_forall. intros os _. apply Forall_forall. intros [b op arg| |op arg] _; cbn; auto.
Qed.

Lemma dqx_progs_ok npass ths : dqx_ops_ok ths -> dqx_passes_ok npass ths -> FcDequeFullExclFree.xprogs_ok npass ths.
Proof.
  intros Hok Hp. split; [|exact Hp]. eapply Forall_impl; [|exact Hok]. intros os Hos.
  eapply Forall_impl; [|exact Hos]. intros [b op arg| |op arg] Ho; cbn in *; auto. apply dqf_okop_ge2. exact Ho.
Qed.

Lemma dqx_partA wk wkin fuel mask npass ths c :
  dqx_ops_ok ths -> Conc.reach (dqx_init_cfg wk wkin fuel mask npass ths) c ->
  (exists h, mon None (Conc.trace c) = Some h) /\
  (has_lost (Conc.trace c) = false ->
   exists st, lp_run lp_init (annot DequeFull res_dec dqf_dec (Conc.trace c)) = Some (g_cont (Conc.shared c), st)).
Proof.
  intros Hok Hr. unfold dqx_init_cfg in Hr.
  exact (@FcDequeFullExcl.fc_excl_partA DequeFull RUnit res_enc res_dec res_dec_enc dqf_okop dqf_okop_ge2 dqf_dec dqf_apply
           dqf_capply_spec itprev (None : itprev) held_of eq_refl dqf_visit dqf_visit_sound wk wkin dqx_ok dqx_excl dqx_excl_spec
           fuel mask npass ths c Hok Hr).
Qed.

(** one holder of the combiner lock at a time (combiners and empty() calls), both orders of the wakeup *)
Theorem fcdequefull_excl_single_holder wk wkin fuel mask npass ths c :
  dqx_ops_ok ths -> Conc.reach (dqx_init_cfg wk wkin fuel mask npass ths) c ->
  exists h, mon None (Conc.trace c) = Some h.
Proof. intros Hok Hr. exact (proj1 (dqx_partA Hok Hr)). Qed.

Theorem fcdequefull_excl_never_lost wk fuel mask npass ths c :
  dqx_ops_ok ths -> dqx_passes_ok npass ths -> Conc.reach (dqx_init_cfg wk true fuel mask npass ths) c ->
  FcKernelFree.has_uaf (Conc.trace c) = false /\ has_lost (Conc.trace c) = false.
Proof.
  intros Hok Hp Hr. unfold dqx_init_cfg in Hr.
  exact (@FcDequeFullExclFree.fc_excl_no_uaf _ _ RUnit res_enc dqf_apply _ (None : itprev) dqf_visit it_recs eq_refl dqf_visit_recs
           wk dqx_excl fuel mask npass _ ths c (dqx_progs_ok Hok Hp) Hr).
Qed.

(** at every reachable configuration the std::deque holds exactly the contents of the sequential deque after the
    linearization points so far (requests executed by combiners, collided pairs, empty() calls) *)
Theorem fcdequefull_excl_container_is_spec wk fuel mask npass ths c :
  dqx_ops_ok ths -> dqx_passes_ok npass ths -> Conc.reach (dqx_init_cfg wk true fuel mask npass ths) c ->
  exists st, lp_run lp_init (annot DequeFull res_dec dqf_dec (Conc.trace c)) = Some (g_cont (Conc.shared c), st).
Proof.
  intros Hok Hp Hr. apply (proj2 (dqx_partA Hok Hr)). exact (proj2 (fcdequefull_excl_never_lost Hok Hp Hr)).
Qed.

Theorem fcdequefull_excl_lp_valid_partA wk wkin fuel mask npass ths c :
  dqx_ops_ok ths -> Conc.reach (dqx_init_cfg wk wkin fuel mask npass ths) c ->
  has_lost (Conc.trace c) = false -> lp_valid DequeFull (annot DequeFull res_dec dqf_dec (Conc.trace c)).
Proof. intros Hok Hr Hl. destruct (proj2 (dqx_partA Hok Hr) Hl) as (st & H). eexists. exact H. Qed.

Theorem fcdequefull_excl_lp_valid wk fuel mask npass ths c :
  dqx_ops_ok ths -> dqx_passes_ok npass ths -> Conc.reach (dqx_init_cfg wk true fuel mask npass ths) c ->
  lp_valid DequeFull (annot DequeFull res_dec dqf_dec (Conc.trace c)).
Proof.
  intros Hok Hp Hr. destruct (fcdequefull_excl_container_is_spec Hok Hp Hr) as (st & H). eexists. exact H.
Qed.

(** push_front / push_back / pop_front / pop_back / clear / empty: every history is linearizable *)
Theorem fcdequefull_excl_linearizable wk fuel mask npass ths c :
  dqx_ops_ok ths -> dqx_passes_ok npass ths -> Conc.reach (dqx_init_cfg wk true fuel mask npass ths) c ->
  linearizable DequeFull (fc_history DequeFull res_dec dqf_dec (Conc.trace c)).
Proof. intros Hok Hp Hr. apply lp_valid_linearizable. exact (fcdequefull_excl_lp_valid Hok Hp Hr). Qed.
