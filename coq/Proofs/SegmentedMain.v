(** * SegmentedQueue: the three statements of property C08, read off the invariant. *)
From Coq Require Import ZArith List String Bool Lia PeanoNat.
From LV Require Import Base.Conc Base.Events Model.Segmented Proofs.SegmentedBase Proofs.SegmentedSteps Proofs.SegmentedSafe.
Import ListNotations.
Local Open Scope string_scope.
Local Open Scope list_scope.

(** a dequeue operation that was invoked and has not responded *)
Definition pending_deq (tr : list (nat * ev)) (t k : nat) : Prop :=
  In (ev_inv_deq t k) (evs tr) /\ forall t' e, In (t', e) tr -> ev_op e = Some (t, k) -> ev_is_ret e = false.

(** ** conservation *)
Theorem segq_conservation fuel arg ths c :
  prog_ok (ceil2 arg) ths -> Conc.reach (init_cfg fuel arg ths) c ->
  let g := Conc.shared c in let tr := Conc.trace c in
  (forall x, In (ev_ret_enq x) (evs tr) -> inserted g x) /\
  (forall x s i s' i', cptr g s i = Some x -> cptr g s' i' = Some x -> s = s' /\ i = i') /\
  (forall x, inserted g x -> In (ev_inv_enq x) (evs tr)) /\
  (forall x, count_ret x tr <= 1) /\
  (forall x, 1 <= count_ret x tr -> marked g x /\ In (ev_inv_enq x) (evs tr)) /\
  (forall x, marked g x -> count_ret x tr = 1 \/ (count_ret x tr = 0 /\ exists t k, pending_deq tr t k)).
Proof.
  intros Hok Hr g tr. destruct (segq_Inv fuel arg ths c Hok Hr) as (a & HI).
  pose proof (inv_si _ _ _ _ HI) as HS. pose proof (inv_ti _ _ _ _ HI) as HT.
  split; [exact (ti_ret _ _ HT)|]. split; [exact (si_uniq _ _ HS)|]. split; [exact (ti_inv _ _ HT)|].
  split; [|split].
  - intros x. destruct (count_ret x tr) as [|n] eqn:E; [lia|].
    destruct (ti_cnt _ _ HT x) as (_ & K); [fold tr; lia|]. fold tr in K. lia.
  - intros x H. destruct (ti_cnt _ _ HT x H) as ((s & i & K) & _). split; [exists s, i; exact K|].
    apply (ti_inv _ _ HT). exists s, i. unfold cptr. now rewrite K.
  - intros x Hm. destruct (inv_mk _ _ _ _ HI x Hm) as [K|(t & Ht)]; [left; exact K|right].
    split; [apply (inv_tk_cnt _ _ _ _ HI x t Ht)|].
    destruct Ht as (rd & E). pose proof (inv_vi _ _ _ _ HI t) as HV.
    pose proof (vi_ph _ _ _ _ HV) as P. rewrite E in P. cbn in P. destruct P as (P1 & _).
    exists t, (v_idx (a t)). split; [exact P1|].
    intros t' e Hin Hop. destruct (vi_ops _ _ _ _ HV t' e _ Hin Hop) as [K|(_ & _ & K)]; [lia|exact K].
Qed.

(** ** quasi bound *)
Lemma pigeon (R : item -> nat -> Prop) (n ix : nat) : forall ys,
  NoDup ys ->
  (forall y, In y ys -> exists i, i < n /\ i <> ix /\ R y i) ->
  (forall y y' i, R y i -> R y' i -> y = y') ->
  ix < n -> List.length ys < n.
Proof.
  intros ys Hnd Hex Hinj Hix.
  assert (Hl : exists l, List.length l = List.length ys /\ NoDup l /\ (forall i, In i l -> i < n /\ i <> ix) /\
                         (forall i, In i l -> exists y, In y ys /\ R y i)).
  { induction ys as [|y r IH].
    - exists []. split; [reflexivity|]. split; [constructor|]. split; intros i [].
    - inversion Hnd; subst. destruct IH as (l & L1 & L2 & L3 & L4); auto.
      { intros y0 H0. apply Hex. right. exact H0. }
      destruct (Hex y (or_introl eq_refl)) as (i & I1 & I2 & I3).
      exists (i :: l). split; [cbn; now rewrite L1|]. split; [|split].
      + constructor; [|exact L2]. intros Hin. destruct (L4 i Hin) as (y' & Hy' & Ry').
        assert (y = y') by (eapply Hinj; eauto). subst y'. contradiction.
      + intros i0 [<-|H]; [split; [exact I1|exact I2]|apply (L3 i0 H)].
      + intros i0 [<-|H]; [exists y; split; [left; reflexivity|exact I3]|].
        destruct (L4 i0 H) as (y' & Hy' & Ry'). exists y'. split; [right; exact Hy'|exact Ry']. }
  destruct Hl as (l & L1 & L2 & L3 & _).
  assert (Hnd' : NoDup (ix :: l)).
  { constructor; [|exact L2]. intros H. destruct (L3 ix H) as (_ & N). congruence. }
  assert (Hincl : incl (ix :: l) (seq 0 n)).
  { intros i [<-|H]; apply in_seq; [lia|]. destruct (L3 i H). lia. }
  pose proof (NoDup_incl_length Hnd' Hincl) as Le. rewrite seq_length in Le. cbn in Le. lia.
Qed.

Theorem segq_quasi_bound fuel arg ths c :
  prog_ok (ceil2 arg) ths -> Conc.reach (init_cfg fuel arg ths) c ->
  let g := Conc.shared c in let tr := Conc.trace c in
  forall x, marked g x ->
  forall ys, NoDup ys ->
    (forall y, In y ys -> completed_before tr (ev_ret_enq y) (ev_inv_enq x) /\ unmarked_in g y) ->
    List.length ys < ceil2 arg.
Proof.
  intros Hok Hr g tr x (sx & ix & Hx) ys Hnd Hys. destruct (segq_Inv fuel arg ths c Hok Hr) as (a & HI).
  pose proof (inv_si _ _ _ _ HI) as HS. pose proof (inv_ti _ _ _ _ HI) as HT. fold g in HS, HT. fold tr in HT.
  assert (Hxp : cptr g sx ix = Some x) by (unfold cptr; now rewrite Hx).
  destruct (si_range _ _ HS sx ix) as (Lx1 & Lx2); [rewrite Hxp; discriminate|].
  assert (Hsx : sx <= lo g) by (apply (si_mark _ _ HS sx ix); unfold cmark; now rewrite Hx).
  apply (pigeon (fun y i => cells g sx i = (Some y, false)) (ceil2 arg) ix ys Hnd); [| |exact Lx2].
  - intros y Hy. destruct (Hys y Hy) as (C & sy & iy & Ky).
    assert (Hyp : cptr g sy iy = Some y) by (unfold cptr; now rewrite Ky).
    destruct (si_range _ _ HS sy iy) as (Ly1 & Ly2); [rewrite Hyp; discriminate|].
    assert (Le : sy <= sx) by (eapply (ti_ord _ _ HT); eauto).
    assert (Ge : lo g <= sy).
    { destruct (Nat.le_gt_cases (lo g) sy) as [K|K]; [exact K|exfalso].
      pose proof (si_exh _ _ HS sy iy K Ly2) as M. unfold cmark in M. rewrite Ky in M. discriminate. }
    assert (sy = sx) by lia. subst sy. exists iy. split; [exact Ly2|]. split; [|exact Ky].
    intros ->. rewrite Hx in Ky. discriminate.
  - intros y y' i K1 K2. rewrite K1 in K2. inversion K2. reflexivity.
Qed.

(** ** meaning of "empty" *)
Theorem segq_empty_meaning fuel arg ths c :
  prog_ok (ceil2 arg) ths -> Conc.reach (init_cfg fuel arg ths) c ->
  let g := Conc.shared c in let tr := Conc.trace c in
  forall t k y, In (ev_ret_deq_empty t k) (evs tr) ->
    completed_before tr (ev_ret_enq y) (ev_inv_deq t k) -> marked g y.
Proof.
  intros Hok Hr g tr t k y H C. destruct (segq_Inv fuel arg ths c Hok Hr) as (a & HI).
  eapply (ti_emp _ _ (inv_ti _ _ _ _ HI)); eauto.
Qed.

(** ** the quasi factor: rounding, and the programs the harness runs *)
Lemma ceil2_pow2 j : ceil2 (2 ^ j) = 2 ^ j.
Proof. unfold ceil2. now rewrite Nat.log2_up_pow2 by lia. Qed.

Lemma ceil2_ge n : n <= ceil2 n.
Proof.
  unfold ceil2. destruct n as [|n]; [lia|]. destruct n as [|n]; [cbn; lia|].
  apply Nat.log2_up_spec. lia.
Qed.

Lemma ceil2_pos n : 0 < ceil2 n.
Proof. unfold ceil2. pose proof (Nat.pow_nonzero 2 (Nat.log2_up n)). lia. Qed.

Lemma rot_perm_ok k s : 0 < k -> perm_ok k (rot k s).
Proof.
  intros Hk i. unfold rot. rewrite in_map_iff. split.
  - intros (j & <- & _). apply Nat.mod_upper_bound. lia.
  - intros Hi. set (s' := s mod k). assert (Hs' : s' < k) by (apply Nat.mod_upper_bound; lia).
    destruct (Nat.le_gt_cases s' i) as [Le|Gt].
    + exists (i - s'). split; [|apply in_seq; lia].
      rewrite <- Nat.add_mod_idemp_l by lia. fold s'. replace (s' + (i - s')) with i by lia. apply Nat.mod_small. exact Hi.
    + exists (i + k - s'). split; [|apply in_seq; lia].
      rewrite <- Nat.add_mod_idemp_l by lia. fold s'. replace (s' + (i + k - s')) with (i + 1 * k) by lia.
      rewrite Nat.mod_add by lia. apply Nat.mod_small. exact Hi.
Qed.

(** every program the driver can decode satisfies the hypothesis of the theorems *)
Lemma decode_prog_ok arg (ths : list (list (list Z))) : prog_ok (ceil2 arg) (map (decode_ops (ceil2 arg)) ths).
Proof.
  pose proof (ceil2_pos arg) as Hk. unfold prog_ok. apply Forall_forall. intros os Hos.
  apply in_map_iff in Hos. destruct Hos as (zs & <- & _). clear ths.
  induction zs as [|o r IH]; cbn [decode_ops]; [constructor|].
  destruct (decode_op (ceil2 arg) o) as [op|] eqn:E; [|exact IH]. constructor; [|exact IH].
  unfold decode_op in E. destruct o as [|z o']; [discriminate|].
  destruct z as [|p|p]; try discriminate.
  destruct p as [p|p|]; try discriminate.
  - destruct p as [p|p|]; try discriminate. injection E as <-. cbn. intros r0. apply rot_perm_ok. exact Hk.
  - destruct o' as [|v st]; [discriminate|]. injection E as <-. cbn. intros r0. apply rot_perm_ok. exact Hk.
Qed.
