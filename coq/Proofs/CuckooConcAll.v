(** * CuckooSet: linearizability and no duplicates for both mutex policies.

    [CuckooConcProofs.v] (cuckoo::striping<>) and [CuckooConcFProofs.v] (cuckoo::refinable<>) put together: the
    statements [cuckoo_linearizable_statement] / [cuckoo_nodup_statement] of [CuckooConcProofs.v] hold. *)
From Coq Require Import List Lia PeanoNat.
From LV Require Import Base.Conc Base.Events Base.Lin Spec.Specs Model.CuckooConc Proofs.StripedConcSpec Proofs.CuckooConcInv.
From LV Require Proofs.CuckooConcProofs Proofs.CuckooConcFInv Proofs.CuckooConcFProofs.

Theorem cuckoo_linearizable : CuckooConcProofs.cuckoo_linearizable_statement.
Proof.
  intros cf Hnl ths c Hr Hnd. destruct (c_pol cf) eqn:E.
  - exact (CuckooConcProofs.cuckoo_striping_linearizable cf E Hnl ths c Hr Hnd).
  - exact (CuckooConcFProofs.cuckoo_refinable_linearizable cf E Hnl ths c Hr Hnd).
Qed.

Theorem cuckoo_nodup : CuckooConcProofs.cuckoo_nodup_statement.
Proof.
  intros cf Hnl ths c Hr. destruct (c_pol cf) eqn:E.
  - exact (CuckooConcProofs.cuckoo_striping_nodup cf E Hnl ths c Hr).
  - exact (CuckooConcFProofs.cuckoo_refinable_nodup cf E Hnl ths c Hr).
Qed.
