(** * LazyListLin: the LP-annotated trace of the LazyList model, modifying operations only
      (same history function [upd_hist] and the same bookkeeping as for MichaelList).
      Linearization points: link_node's second store (insert, inserting update) and unlink_node's first store
      (erase, unlink, extract), both executed under the locks of predecessor and current node. *)
From Coq Require Import ZArith List String Bool Lia PeanoNat.
From LV Require Import Base.Conc Base.Events Base.Lin Spec.Specs Proofs.LinProofs.
From LV Require Proofs.MichaelListInv Proofs.MichaelListLin.
From LV Require Import Model.LazyList Proofs.LazyListBase Proofs.LazyListInv Proofs.LazyListSteps Proofs.LazyListActs.
Import ListNotations.
Local Open Scope Z_scope.

Notation upd_hist := MichaelListInv.upd_hist.
Notation spec_op := MichaelListInv.spec_op.
Notation res_of := MichaelListInv.res_of.
Notation is_read := MichaelListInv.is_read.

Record aux3 := mkAux3 { c_base : aux; c_atr : list (aev SetSpec); c_st : nat -> status SetSpec }.
Definition lview3 := (lview * status SetSpec)%type.
Definition view3 (a : aux3) (t : nat) : lview3 := (view (c_base a) t, c_st a t).

Definition mk_a3 (a : aux3) (t : nat) (pub' : nat -> bool) (succ' : nat -> option nat) (lv' : lview)
                 (atr' : list (aev SetSpec)) (s' : status SetSpec) : aux3 :=
  mkAux3 (mk_a (c_base a) t pub' succ' lv') atr' (fun u => if Nat.eqb u t then s' else c_st a u).

Lemma view3_mk_same a t pub' succ' lv' atr' s' : view3 (mk_a3 a t pub' succ' lv' atr' s') t = (lv', s').
Proof. unfold view3, mk_a3; cbn [c_base c_st]. rewrite view_mk_same, Nat.eqb_refl. reflexivity. Qed.
Lemma view3_mk_other a t pub' succ' lv' atr' s' u : u <> t -> view3 (mk_a3 a t pub' succ' lv' atr' s') u = view3 a u.
Proof.
  intros H. unfold view3, mk_a3; cbn [c_base c_st]. rewrite view_mk_other by exact H.
  destruct (Nat.eqb_spec u t); congruence.
Qed.
Lemma frame3_mk a t pub' succ' lv' atr' s' : Conc.frame view3 t a (mk_a3 a t pub' succ' lv' atr' s').
Proof. intros u H. now apply view3_mk_other. Qed.

(** the abstract set = keys of the unmarked nodes of the logical chain *)
Definition abs (g : G) (L : list nat) (S : list Z) : Prop :=
  forall k, zmem k S = true <-> exists n, In n L /\ nmark (heap g n) = false /\ nkey (heap g n) = k.

Record IL3 (g : G) (a : aux3) (tr : list (nat * ev)) (L : list nat) : Prop := {
  il3_run : exists S st, lp_run lp_init (c_atr a) = Some (S, st) /\ (forall t, st t = c_st a t) /\ abs g L S;
  il3_hist : erase (c_atr a) = upd_hist tr
}.

Definition Inv3 (g : G) (a : aux3) (tr : list (nat * ev)) : Prop := exists L, IS g (c_base a) L /\ IL3 g a tr L.

Lemma upd_hist_acc tr t k o ok : upd_hist (tr ++ Conc.tag t [EvAcc k o ok]) = upd_hist tr.
Proof. rewrite MichaelListInv.upd_hist_app. reflexivity. Qed.

Lemma st_same (a : aux3) t (st : nat -> status SetSpec) :
  (forall u, st u = c_st a u) -> forall u, st u = (if Nat.eqb u t then c_st a t else c_st a u).
Proof. intros H u. destruct (Nat.eqb_spec u t) as [->|]; apply H. Qed.

Lemma IL3_acc g g' a t pub' succ' lv' L L' tr kd ob ok :
  IL3 g a tr L -> (forall S, abs g L S -> abs g' L' S) ->
  IL3 g' (mk_a3 a t pub' succ' lv' (c_atr a) (c_st a t)) (tr ++ Conc.tag t [EvAcc kd ob ok]) L'.
Proof.
  intros [(S & st & H1 & H2 & H3) H4] Habs. constructor; cbn [c_atr c_st mk_a3].
  - exists S, st. split; [exact H1|]. split; [apply st_same; exact H2|auto].
  - rewrite upd_hist_acc. exact H4.
Qed.

Lemma upd_st (st : nat -> status SetSpec) (a : aux3) t s' :
  (forall u, st u = c_st a u) -> forall u, upd st t s' u = (if Nat.eqb u t then s' else c_st a u).
Proof. intros H u. unfold upd. destruct (Nat.eqb_spec u t); auto. Qed.

Lemma IL3_lp g g' a t pub' succ' lv' L L' tr kd ob ok o :
  IL3 g a tr L -> c_st a t = @Pending SetSpec o ->
  (forall S, abs g L S -> abs g' L' (fst (set_step S o))) ->
  forall r, (forall S, abs g L S -> snd (set_step S o) = r) ->
  IL3 g' (mk_a3 a t pub' succ' lv' (c_atr a ++ [ALin t]) (@Linearized SetSpec o r)) (tr ++ Conc.tag t [EvAcc kd ob ok]) L'.
Proof.
  intros [(S & st & H1 & H2 & H3) H4] Hp Habs r Hr. constructor; cbn [c_atr c_st mk_a3].
  - exists (fst (set_step S o)), (upd st t (@Linearized SetSpec o r)). split; [|split; [apply upd_st; exact H2|apply Habs; exact H3]].
    rewrite (MichaelListInv.lp_run_snoc _ _ _ H1). cbn [lp_step]. rewrite H2, Hp. rewrite <- (Hr S H3). reflexivity.
  - rewrite upd_hist_acc, erase_app. cbn [erase]. rewrite app_nil_r. exact H4.
Qed.

Lemma IL3_cli_other g a t lv' L tr name args :
  IL3 g a tr L -> String.eqb name "inv" = false -> String.eqb name "ret" = false ->
  IL3 g (mk_a3 a t (a_pub (c_base a)) (a_succ (c_base a)) lv' (c_atr a) (c_st a t)) (tr ++ Conc.tag t [EvCli name args]) L.
Proof.
  intros [(S & st & H1 & H2 & H3) H4] N1 N2. constructor; cbn [c_atr c_st mk_a3].
  - exists S, st. split; [exact H1|]. split; [apply st_same; exact H2|auto].
  - rewrite MichaelListInv.upd_hist_app. cbn [Conc.tag map fold_left MichaelListInv.hstep]. rewrite N1, N2. exact H4.
Qed.

Lemma IL3_inv g a t lv' L tr c k x v :
  IL3 g a tr L -> c_st a t = @Idle SetSpec ->
  IL3 g (mk_a3 a t (a_pub (c_base a)) (a_succ (c_base a)) lv' (c_atr a ++ [@AInv SetSpec t (spec_op c k x)]) (@Pending SetSpec (spec_op c k x)))
        (tr ++ Conc.tag t [EvCli "inv" [c; k; x; v]]) L.
Proof.
  intros [(S & st & H1 & H2 & H3) H4] Hi. constructor; cbn [c_atr c_st mk_a3].
  - exists S, (upd st t (@Pending SetSpec (spec_op c k x))). split; [|split; [apply upd_st; exact H2|exact H3]].
    rewrite (MichaelListInv.lp_run_snoc _ _ _ H1). cbn [lp_step]. rewrite H2, Hi. reflexivity.
  - rewrite MichaelListInv.upd_hist_app, erase_app.
    cbn [erase Conc.tag map fold_left MichaelListInv.hstep String.eqb Ascii.eqb Bool.eqb]. rewrite H4. reflexivity.
Qed.

Lemma IL3_ret_lin g a t lv' L tr o r a1 b1 :
  IL3 g a tr L -> c_st a t = @Linearized SetSpec o r -> res_of o a1 b1 = r -> is_read o r = false ->
  IL3 g (mk_a3 a t (a_pub (c_base a)) (a_succ (c_base a)) lv' (c_atr a ++ [@ARes SetSpec t r]) (@Idle SetSpec))
        (tr ++ Conc.tag t [EvCli "ret" [a1; b1]]) L.
Proof.
  intros [(S & st & H1 & H2 & H3) H4] Hs Hr Hrd. constructor; cbn [c_atr c_st mk_a3].
  - exists S, (upd st t (@Idle SetSpec)). split; [|split; [apply upd_st; exact H2|exact H3]].
    rewrite (MichaelListInv.lp_run_snoc _ _ _ H1). cbn [lp_step]. rewrite H2, Hs, MichaelListLin.res_eqb_refl. reflexivity.
  - destruct (MichaelListLin.lp_open_split _ _ _ t o H1) as (A & B & EA & HB & _); [rewrite H2, Hs; reflexivity|].
    destruct (MichaelListInv.erase_split_last t o A B HB) as [K1 _]. rewrite <- EA, H4 in K1.
    rewrite MichaelListInv.upd_hist_app, erase_app.
    cbn [erase Conc.tag map fold_left MichaelListInv.hstep String.eqb Ascii.eqb Bool.eqb].
    rewrite K1. cbv zeta. rewrite Hr, Hrd, H4. reflexivity.
Qed.

Lemma IL3_ret_read g a t lv' L tr o a1 b1 :
  IL3 g a tr L -> c_st a t = @Pending SetSpec o -> is_read o (res_of o a1 b1) = true ->
  exists atr', IL3 g (mk_a3 a t (a_pub (c_base a)) (a_succ (c_base a)) lv' atr' (@Idle SetSpec)) (tr ++ Conc.tag t [EvCli "ret" [a1; b1]]) L.
Proof.
  intros [(S & st & H1 & H2 & H3) H4] Hs Hrd.
  destruct (MichaelListLin.lp_open_split _ _ _ t o H1) as (A & B & EA & HB & HP); [rewrite H2, Hs; reflexivity|].
  assert (HB' : forall e, In e B -> MichaelListInv.aev_tid e <> t) by (apply HP; rewrite H2; exact Hs).
  rewrite EA in H1. destruct (MichaelListInv.lp_run_remove A B t o S st H1 HB') as (st' & K1 & K2 & K3).
  exists (A ++ B). constructor; cbn [c_atr c_st mk_a3].
  - exists S, st'. split; [exact K1|]. split; [|exact H3].
    intros u. destruct (Nat.eqb_spec u t) as [->|Hu]; [exact K3|]. rewrite K2 by exact Hu. apply H2.
  - destruct (MichaelListInv.erase_split_last t o A B HB) as [J1 J2]. rewrite <- EA, H4 in J1, J2.
    rewrite MichaelListInv.upd_hist_app. cbn [Conc.tag map fold_left MichaelListInv.hstep String.eqb Ascii.eqb Bool.eqb].
    rewrite J1. cbv zeta. rewrite Hrd. symmetry. exact J2.
Qed.
