(** * Every operation of LV.Model.IterList ([run_op]) is safe for the invariant and the step relation of
      Proofs/IterListIterDefs.v: the thread learns linked nodes while it walks, its ghost value stays as it is. *)
From Coq Require Import ZArith List String Bool Lia PeanoNat.
From LV Require Import Base.Conc Base.Events Model.IterList Model.IterListIter Proofs.ConcRel Proofs.IterListIterDefs
                       Proofs.IterListIterOps.
Import ListNotations.

Set Implicit Arguments.

Lemma lx_mine l0 l n p : lext l0 l -> lext l0 (set_mine l n p).
Proof. intros H. eapply lext_trans; [exact H|apply lext_set_mine]. Qed.
Lemma lx_known l0 l n : lext l0 l -> lext l0 (add_known n l).
Proof. intros H. eapply lext_trans; [exact H|apply lext_add_known]. Qed.
Lemma kn_mine l n p m : kn l m -> kn (set_mine l n p) m.
Proof. intros H. exact H. Qed.
Lemma kn_add l n m : kn l m -> kn (add_known n l) m.
Proof. intros [H|H]; [left; exact H|right; right; exact H]. Qed.
Lemma kn_new l n : kn (add_known n l) n.
Proof. right. left. reflexivity. Qed.
Lemma kn_head l : kn l HEAD.
Proof. left. reflexivity. Qed.
#[export] Hint Resolve lext_refl lx_mine lx_known kn_mine kn_add kn_new kn_head lext_kn : lx.

Lemma quiet_cli w name args : wph w = false -> name <> "visit"%string -> name <> "erased"%string ->
  (name = "inv"%string -> nth 0 args 0%Z <> 20%Z) -> quiet w [EvCli name args].
Proof.
  intros Hw H1 H2 H3 e [<-|[]]. right; right. split; [exact Hw|].
  split; [intros (a & E); inversion E; congruence|]. split; [intros (a & E); inversion E; congruence|].
  intros (o & E & Ho). inversion E. subst. apply H3; auto.
Qed.

Lemma quiet_oof w : quiet w [ev_oof].
Proof. intros e [<-|[]]. right. left. reflexivity. Qed.

Section Ops2.
  Variables (N X : nat).
  Variable t : nat.

  Notation safeR := (@ConcRel.safeR G V ev Aux L W view (Inv N) (SR N X)).
  Notation prog := (Conc.prog G V ev).

  Definition post {R} (l0 : L) (w : W) (P : R -> L -> Prop) : R -> L -> W -> Prop :=
    fun r l' w' => w' = w /\ lext l0 l' /\ P r l'.
  Definition PT {R} : R -> L -> Prop := fun _ _ => True.

  Ltac fin := cbn [ConcRel.safeR]; unfold post, PT; split; [reflexivity|split; [eauto with lx|try exact I; auto with lx]].

  Definition Ppos (r : option (bool * pos)) (l' : L) : Prop :=
    match r with
    | Some (b, p) => kn l' (pprev p) /\ kn l' (pcur p) /\ pprev p <> TAIL /\ (pfound p <> 0 -> pcur p <> TAIL) /\
                     (b = true -> pfound p <> 0)
    | None => True
    end.

  Lemma search_loop_safe fuel : forall tt gg pg ins k pPrev pPrevVal l0 l w, lext l0 l -> kn l pPrev -> pPrev <> TAIL ->
    safeR t (search_loop fuel tt gg pg ins k pPrev pPrevVal) l w (post l0 w Ppos).
  Proof.
    induction fuel as [|f IH]; intros tt gg pg ins k pPrev pPrevVal l0 l w Hl Hp Hpt; cbn [search_loop].
    - fin.
    - apply act_ldn; [exact Hp|]. intros pc _. cbn [vptr].
      apply act_ldn; [apply kn_new|]. intros pn Hpn. cbn [vptr].
      destruct (Nat.eqb_spec pc pn) as [E|E].
      + fin. cbn [Ppos pprev pcur pfound]. repeat split; auto with lx; try congruence.
      + assert (Hpc : pc <> TAIL) by (intros K; apply E; rewrite (Hpn K); exact K).
        apply dbind; [auto with dact|]. intros [v|]; [|fin].
        destruct (negb (Nat.eqb (vptr v) 0) && Z.leb k (vkey v)) eqn:Ec.
        * fin. cbn [Ppos pprev pcur pfound]. repeat split; auto with lx.
          intros _. apply andb_prop in Ec. destruct Ec as [Ec _]. apply negb_true_iff in Ec. apply Nat.eqb_neq in Ec. exact Ec.
        * destruct ins.
          -- apply dbind; [auto with dact|]. intros _. apply IH; auto with lx.
          -- apply IH; auto with lx.
  Qed.

  Lemma head_tail : HEAD <> TAIL.
  Proof. discriminate. Qed.

  Lemma search_safe fuel tt gg k l0 l w : lext l0 l ->
    safeR t (search fuel tt gg k) l w (post l0 w Ppos).
  Proof. intros Hl. unfold search. apply search_loop_safe; auto using head_tail with lx. Qed.

  Lemma inserting_search_safe fuel tt gg pg k l0 l w : lext l0 l ->
    safeR t (inserting_search fuel tt gg pg k) l w (post l0 w Ppos).
  Proof.
    intros Hl. unfold inserting_search. apply act_data; [auto with dact|]. intros v.
    apply search_loop_safe; auto using head_tail with lx.
  Qed.

  Lemma find_prev_safe fuel tt fr k l0 l w : lext l0 l ->
    safeR t (find_prev fuel tt fr k) l w (post l0 w PT).
  Proof.
    intros Hl. unfold find_prev. destruct (pop fr) as [gg fr'].
    apply ConcRel.safeR_bind. eapply ConcRel.safeR_weaken; [|apply search_loop_safe; eauto using head_tail with lx].
    intros [[b p]|] l1 w1 (-> & Hl1 & _); [|fin].
    apply dbind; [auto with dact|]. intros _. fin.
  Qed.

  Lemma link_data_safe fuel tt fr it k p l0 l w : lext l0 l -> kn l (pprev p) -> pprev p <> TAIL ->
    (pfound p <> 0 -> pcur p <> TAIL) ->
    safeR t (link_data fuel tt fr it k p) l w (post l0 w PT).
  Proof.
    intros Hl Hp Hpt Hct. unfold link_data.
    assert (Hsc : pcur p <> TAIL \/ pfound p = 0) by (destruct (Nat.eq_dec (pfound p) 0); auto).
    assert (Hsp : forall i, pprev p <> TAIL \/ i = 0) by (intros i; left; exact Hpt).
    apply act_data; [apply d_casd; auto|]. intros r1. destruct (negb (vmark r1)); [fin|].
    apply act_data; [apply d_casd; auto|]. intros r2.
    destruct (negb (vmark r2)). { apply act_data; [apply d_std; auto|]. intros _. fin. }
    apply act_data; [auto with dact|]. intros vn.
    destruct (negb (Nat.eqb (vptr vn) (pcur p))).
    { apply act_data; [apply d_std; auto|]. intros _. apply act_data; [apply d_std; auto|]. intros _. fin. }
    assert (Hcont : forall l1 : L, lext l0 l1 -> kn l1 (pprev p) ->
      safeR t (if negb (Nat.eqb (pprev p) HEAD) && Nat.eqb (pprevval p) 0
               then Act (a_casd (pprev p) 0 true it false (Some k)) (fun r3 =>
                      Act (a_std (pcur p) (pfound p) false None) (fun _ => Ret (Some (vmark r3))))
               else Act a_new_next (fun nv =>
                      let n := vptr nv in
                      Act (a_std n it false (Some k)) (fun _ =>
                        Act (a_stn n (pcur p)) (fun _ =>
                          Act (a_casn (pprev p) (pcur p) n) (fun r3 =>
                            Act (a_std (pprev p) (pprevval p) false None) (fun _ =>
                              Act (a_std (pcur p) (pfound p) false None) (fun _ => Ret (Some (vmark r3))))))))) l1 w (post l0 w PT)).
    { intros l1 Hl1 Hp1. destruct (negb (Nat.eqb (pprev p) HEAD) && Nat.eqb (pprevval p) 0).
      - apply act_data; [apply d_casd; auto|]. intros r3. apply act_data; [apply d_std; auto|]. intros _. fin.
      - apply act_new. intros n Hn. cbn [vptr].
        apply act_data; [apply d_std; left; unfold TAIL; lia|]. intros _.
        apply act_stn; [reflexivity|lia|]. intros _.
        apply act_casn; [auto with lx|exact Hpt|reflexivity|lia|reflexivity|]. intros r3.
        apply act_data; [apply d_std; auto|]. intros _. apply act_data; [apply d_std; auto|]. intros _. fin. }
    destruct (Nat.eqb (pprevval p) 0).
    - apply ConcRel.safeR_bind. eapply ConcRel.safeR_weaken; [|apply find_prev_safe with (l0 := l); apply lext_refl].
      intros [q|] l1 w1 (-> & Hl1 & _); [|fin; eapply lext_trans; eauto].
      destruct (Nat.eqb q (pprev p)).
      + apply Hcont; [eapply lext_trans; eauto|eauto with lx].
      + apply act_data; [apply d_std; auto|]. intros _. apply act_data; [apply d_std; auto|]. intros _. fin; eapply lext_trans; eauto.
    - apply Hcont; auto.
  Qed.

  Lemma q_fn w c f k : wph w = false -> quiet w [ev_fn c f k].
  Proof. intros H. apply quiet_cli; auto; try discriminate. Qed.
  Lemma q_ret w a b : wph w = false -> quiet w [ev_ret a b].
  Proof. intros H. apply quiet_cli; auto; try discriminate. Qed.
  Lemma q_inv w o : wph w = false -> nth 0 o 0%Z <> 20%Z -> quiet w [ev_inv o].
  Proof. intros H Ho. apply quiet_cli; auto; try discriminate; intros _; cbn; exact Ho. Qed.

  Lemma insert_loop_safe fuel : forall sf ic withf tt gg pg fr it k l0 l w, wph w = false -> lext l0 l ->
    safeR t (insert_loop fuel sf ic withf tt gg pg fr it k) l w (post l0 w PT).
  Proof.
    induction fuel as [|f IH]; intros sf ic withf tt gg pg fr it k l0 l w Hw Hl; cbn [insert_loop]; [fin|].
    apply ConcRel.safeR_bind. eapply ConcRel.safeR_weaken; [|apply inserting_search_safe; eauto].
    intros [[[|] p]|] l1 w1 (-> & Hl1 & HP); [fin| |fin].
    destruct HP as (K1 & K2 & K3 & K4 & K5).
    apply ConcRel.safeR_bind. eapply ConcRel.safeR_weaken; [|apply link_data_safe; eauto].
    intros [[|]|] l2 w2 (-> & Hl2 & _); [| |fin].
    - destruct withf.
      + apply emit_quiet; [apply q_fn; exact Hw|]. apply dbind; [auto with dact|]. intros _. fin.
      + apply dbind; [auto with dact|]. intros _. fin.
    - apply IH; auto.
  Qed.

  Lemma update_loop_safe fuel : forall sf ic allow tt gg pg fr it k l0 l w, wph w = false -> lext l0 l ->
    safeR t (update_loop fuel sf ic allow tt gg pg fr it k) l w (post l0 w PT).
  Proof.
    induction fuel as [|f IH]; intros sf ic allow tt gg pg fr it k l0 l w Hw Hl; cbn [update_loop]; [fin|].
    apply ConcRel.safeR_bind. eapply ConcRel.safeR_weaken; [|apply inserting_search_safe; eauto].
    intros [[[|] p]|] l1 w1 (-> & Hl1 & HP); [| |fin].
    - destruct HP as (K1 & K2 & K3 & K4 & K5).
      apply act_data; [apply d_casd; left; auto|]. intros rc. destruct (vmark rc); [|apply IH; auto].
      destruct (Nat.eqb (pfound p) it); [fin|].
      apply dbind; [auto with dact|]. intros _. apply emit_quiet; [apply q_fn; exact Hw|]. fin.
    - destruct HP as (K1 & K2 & K3 & K4 & K5). destruct (negb allow); [fin|].
      apply ConcRel.safeR_bind. eapply ConcRel.safeR_weaken; [|apply link_data_safe; eauto].
      intros [[|]|] l2 w2 (-> & Hl2 & _); [| |fin].
      + apply emit_quiet; [apply q_fn; exact Hw|]. apply dbind; [auto with dact|]. intros _. fin.
      + apply IH; auto.
  Qed.

  Lemma erase_loop_safe fuel : forall sf ic code mn tt gg k l0 l w, wph w = false -> lext l0 l ->
    safeR t (erase_loop fuel sf ic code mn tt gg k) l w (post l0 w PT).
  Proof.
    induction fuel as [|f IH]; intros sf ic code mn tt gg k l0 l w Hw Hl; cbn [erase_loop]; [fin|].
    apply ConcRel.safeR_bind. eapply ConcRel.safeR_weaken; [|apply search_safe; eauto].
    intros [[[|] p]|] l1 w1 (-> & Hl1 & HP); [|fin|fin].
    destruct (Z.eqb code 6 && negb (Nat.eqb (pfound p) mn)); [fin|].
    apply dbind; [auto with dact|]. intros [|]; [|apply IH; auto].
    destruct (Z.eqb code 5).
    - apply emit_quiet; [apply q_fn; exact Hw|]. apply dbind; [auto with dact|]. intros _. fin.
    - apply dbind; [auto with dact|]. intros _. fin.
  Qed.

  Lemma give_up_safe l0 l w : lext l0 l -> safeR t give_up l w (post l0 w PT).
  Proof. intros Hl. unfold give_up. apply emit_quiet; [apply quiet_oof|]. fin. Qed.

  Ltac go Hw :=
    repeat first
      [ match goal with |- safeR _ (Ret _) _ _ _ => fin end
      | match goal with |- safeR _ give_up _ _ _ => apply give_up_safe; solve [eauto with lx] end
      | match goal with |- safeR _ (Emit [ev_ret _ _] _) _ _ _ => apply emit_quiet; [apply q_ret; exact Hw|] end
      | match goal with |- safeR _ (Emit [ev_fn _ _ _] _) _ _ _ => apply emit_quiet; [apply q_fn; exact Hw|] end
      | match goal with |- safeR _ (Conc.bind (insert_loop _ _ _ _ _ _ _ _ _ _) _) _ _ _ =>
          apply ConcRel.safeR_bind; eapply ConcRel.safeR_weaken; [|apply insert_loop_safe; [exact Hw|eauto with lx]];
          let r := fresh "r" in let l' := fresh "l" in let w' := fresh "w" in let H := fresh "Hl" in
          intros r l' w' (-> & H & _) end
      | match goal with |- safeR _ (Conc.bind (update_loop _ _ _ _ _ _ _ _ _ _) _) _ _ _ =>
          apply ConcRel.safeR_bind; eapply ConcRel.safeR_weaken; [|apply update_loop_safe; [exact Hw|eauto with lx]];
          let r := fresh "r" in let l' := fresh "l" in let w' := fresh "w" in let H := fresh "Hl" in
          intros r l' w' (-> & H & _) end
      | match goal with |- safeR _ (Conc.bind (erase_loop _ _ _ _ _ _ _ _) _) _ _ _ =>
          apply ConcRel.safeR_bind; eapply ConcRel.safeR_weaken; [|apply erase_loop_safe; [exact Hw|eauto with lx]];
          let r := fresh "r" in let l' := fresh "l" in let w' := fresh "w" in let H := fresh "Hl" in
          intros r l' w' (-> & H & _) end
      | match goal with |- safeR _ (Conc.bind (search _ _ _ _) _) _ _ _ =>
          apply ConcRel.safeR_bind; eapply ConcRel.safeR_weaken; [|apply search_safe; eauto with lx];
          let r := fresh "r" in let l' := fresh "l" in let w' := fresh "w" in let H := fresh "Hl" in
          intros r l' w' (-> & H & _) end
      | match goal with |- safeR _ (Conc.bind _ _) _ _ _ => apply dbind; [solve [auto with dact]|intros ?] end
      | match goal with |- safeR _ (if ?c then _ else _) _ _ _ => destruct c end
      | match goal with |- safeR _ (match ?x with _ => _ end) _ _ _ => destruct x end ].

  Lemma run_op_safe fuel sf ic o ls l0 l w : wph w = false -> lext l0 l ->
    safeR t (run_op fuel sf ic t o ls) l w (post l0 w PT).
  Proof.
    intros Hw Hl. unfold run_op. destruct ls as [[fr own] sq].
    destruct (Z.leb 1 (nth 0 o 0%Z) && Z.leb (nth 0 o 0%Z) 10) eqn:Hc; [|fin].
    apply andb_prop in Hc. destruct Hc as [Hc1 Hc2]. apply Z.leb_le in Hc1, Hc2.
    apply emit_quiet; [apply q_inv; [exact Hw|lia]|].
    go Hw.
  Qed.
End Ops2.
