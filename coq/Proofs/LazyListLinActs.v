(** * LazyListLinActs: the proof rule [Conc.safe] for each atomic access of the LazyList model, for the invariant
      [Inv3] = structural invariant + LP-annotated trace of the modifying operations. *)
From Coq Require Import ZArith List String Bool Lia PeanoNat.
From LV Require Import Base.Conc Base.Events Base.Lin Spec.Specs Proofs.LinProofs.
From LV Require Proofs.MichaelListInv Proofs.MichaelListLin Proofs.MichaelListActs.
From LV Require Import Model.LazyList Proofs.LazyListBase Proofs.LazyListInv Proofs.LazyListSteps Proofs.LazyListActs
                       Proofs.LazyListLin.
Import ListNotations.
Local Open Scope Z_scope.

Notation safe3 := (@Conc.safe G V ev aux3 lview3 view3 Inv3).

Lemma view3_split a t lv s : view3 a t = (lv, s) -> view (c_base a) t = lv /\ c_st a t = s.
Proof. unfold view3. intros E. inversion E. auto. Qed.

Lemma abs_same g g' L S : same_list_fields g g' -> abs g L S -> abs g' L S.
Proof.
  intros H Ha k. rewrite (Ha k). split; intros (n & H1 & H2 & H3); exists n; destruct (H n) as (K1 & K2 & K3);
    rewrite ?K1, ?K3 in *; auto.
Qed.

(** soft steps: list fields unchanged, one access event *)
Lemma Inv3_soft g g' a t lv lv' s L tr kd ob ok :
  IS g (c_base a) L -> IL3 g a tr L -> view3 a t = (lv, s) -> same_list_fields g g' -> nalloc g' = nalloc g ->
  (forall u n, u <> t -> holds (view (c_base a) u) n -> heap g' n = heap g n) ->
  (forall u n k nx, u <> t -> lv_own (view (c_base a) u) = Some (n, k, nx) -> heap g' n = heap g n) ->
  Forall (fact_ok g' (a_pub (c_base a))) (lv_facts lv') -> Forall (held_ok g' (a_pub (c_base a))) (lv_held lv') ->
  (forall u n, u <> t -> holds lv' n -> holds (view (c_base a) u) n -> False) ->
  own_ok g' (a_pub (c_base a)) (lv_own lv') -> lv_own lv' = lv_own lv -> lv_hole lv' = lv_hole lv ->
  (forall p c s0, lv_hole lv' = Some (p, c, s0) -> In (p, Some (c, false)) (lv_held lv') /\ holds lv' c) ->
  Inv3 g' (mk_a3 a t (a_pub (c_base a)) (a_succ (c_base a)) lv' (c_atr a) s) (tr ++ Conc.tag t [EvAcc kd ob ok]).
Proof.
  intros HS HL Hv Hsame. destruct (view3_split _ _ _ _ Hv) as [Hv1 Hv2]. subst lv s. intros.
  exists L. split; [eapply IS_soft; eauto|]. apply (IL3_acc g g' a t _ _ lv' L L tr kd ob ok HL). intros S. apply abs_same. exact Hsame.
Qed.

Lemma Inv3_keep g g' a t lv s L tr kd ob ok :
  IS g (c_base a) L -> IL3 g a tr L -> view3 a t = (lv, s) -> (forall x, heap g' x = heap g x) -> nalloc g' = nalloc g ->
  Inv3 g' (mk_a3 a t (a_pub (c_base a)) (a_succ (c_base a)) lv (c_atr a) s) (tr ++ Conc.tag t [EvAcc kd ob ok]).
Proof.
  intros H HL Hv Hh Hn. destruct (view3_split _ _ _ _ Hv) as [Hv1 Hv2].
  eapply Inv3_soft; eauto.
  - intros x. rewrite Hh. auto.
  - subst lv. eapply Forall_impl; [|apply (s_facts _ _ _ H)]. intros [n k] K. unfold fact_ok in *. now rewrite Hh.
  - subst lv. eapply (held_ok_frame g g' (a_pub (c_base a)) (a_pub (c_base a))); [auto| |apply (s_held _ _ _ H)]. intros e _. apply Hh.
  - intros u n Hu Hn1 Hn2. subst lv. apply Hu. symmetry. eapply (s_excl _ _ _ H); eauto.
  - subst lv. pose proof (s_own _ _ _ H t) as K. destruct (lv_own (view (c_base a) t)) as [[[n k] nx]|]; cbn [own_ok] in *; auto.
    rewrite Hn, Hh. exact K.
  - intros p c s0 E. subst lv. destruct (s_hole _ _ _ H t p c s0 E) as (_ & K2 & K3 & _). auto.
Qed.

Definition neutral3 (f : act) (v : V) : Prop :=
  forall g, exists g' kd ob ok, f g = (g', v, [EvAcc kd ob ok]) /\ (forall x, heap g' x = heap g x) /\ nalloc g' = nalloc g.

Lemma neutral3_nop kd ob : neutral3 (a_nop kd ob) v0.
Proof. intros g. exists g, kd, ob, true. auto. Qed.
Lemma neutral3_cnt kd d : neutral3 (a_cnt kd d) v0.
Proof. intros g. eexists _, kd, obj_count, true. split; [reflexivity|]. cbn. auto. Qed.
Lemma neutral3_begin : neutral3 a_begin v0.
Proof. intros g. exists g, KBegin, [], true. auto. Qed.

Lemma safe3_neutral {R} t f v (k : V -> prog R) l Q :
  neutral3 f v -> safe3 t (k v) l Q -> safe3 t (Act f k) l Q.
Proof.
  destruct l as [lv s]. intros Hf Hk. cbn [Conc.safe]. intros g a tr (L & HS & HL) Hv.
  destruct (Hf g) as (g' & kd & ob & ok & E & H1 & H2). rewrite E. cbn [fst snd].
  exists (mk_a3 a t (a_pub (c_base a)) (a_succ (c_base a)) lv (c_atr a) s).
  split; [|split; [apply frame3_mk|rewrite view3_mk_same; exact Hk]].
  eapply Inv3_keep; eauto.
Qed.

(** ** loads *)
Lemma safe3_ld {R} t n (k : V -> prog R) lv s Q :
  pk (lv_facts lv) n ->
  (forall v, agrees (lv_held lv) n v -> safe3 t (k v) (with_facts lv (newfacts n v ++ lv_facts lv), s) Q) ->
  safe3 t (Act (a_ld n) k) (lv, s) Q.
Proof.
  intros Hn Hk. cbn [Conc.safe]. intros g a tr (L & HS & HL) Hv. unfold a_ld. cbn [fst snd].
  destruct (view3_split _ _ _ _ Hv) as [Hv1 Hv2].
  set (v := mkV (nnext (heap g n)) (nmark (heap g n)) (nkey (heap g (nnext (heap g n))))).
  pose proof (pk_pz _ _ _ _ _ _ HS Hv1 Hn) as Hpz.
  exists (mk_a3 a t (a_pub (c_base a)) (a_succ (c_base a)) (with_facts lv (newfacts n v ++ lv_facts lv)) (c_atr a) s).
  split; [|split; [apply frame3_mk|rewrite view3_mk_same; apply Hk]].
  - eapply Inv3_soft; eauto; try apply same_refl; cbn [with_facts lv_facts lv_held lv_own lv_hole].
    + apply Forall_app. split; [eapply newfacts_ok; eauto|]. subst lv. apply (s_facts _ _ _ HS).
    + subst lv. apply (s_held _ _ _ HS).
    + intros u x Hu Hx Hx'. subst lv. apply Hu. symmetry. eapply (s_excl _ _ _ HS); eauto.
    + subst lv. apply (s_own _ _ _ HS).
    + intros p c s0 E. subst lv. destruct (s_hole _ _ _ HS t p c s0 E) as (_ & K2 & K3 & _). auto.
  - intros x m Hin. subst lv. pose proof (held_entry _ _ _ _ _ _ HS Hin) as (_ & _ & K). cbn [fst snd] in K. subst v. cbn. tauto.
Qed.

Lemma safe3_ld_held {R} t n (k : V -> prog R) lv s Q :
  holds lv n ->
  (forall v, agrees (lv_held lv) n v ->
             safe3 t (k v) (mkLV (newfacts n v ++ lv_facts lv) ((n, Some (vptr v, vmark v)) :: lv_held lv) (lv_own lv) (lv_hole lv), s) Q) ->
  safe3 t (Act (a_ld n) k) (lv, s) Q.
Proof.
  intros [o Ho] Hk. cbn [Conc.safe]. intros g a tr (L & HS & HL) Hv. unfold a_ld. cbn [fst snd].
  destruct (view3_split _ _ _ _ Hv) as [Hv1 Hv2].
  set (v := mkV (nnext (heap g n)) (nmark (heap g n)) (nkey (heap g (nnext (heap g n))))).
  assert (Hpz : pz (a_pub (c_base a)) n) by (subst lv; apply (held_entry _ _ _ _ _ _ HS Ho)).
  set (lv' := mkLV (newfacts n v ++ lv_facts lv) ((n, Some (vptr v, vmark v)) :: lv_held lv) (lv_own lv) (lv_hole lv)).
  exists (mk_a3 a t (a_pub (c_base a)) (a_succ (c_base a)) lv' (c_atr a) s).
  split; [|split; [apply frame3_mk|rewrite view3_mk_same; apply Hk]].
  - eapply Inv3_soft; eauto; try apply same_refl; cbn [lv' lv_facts lv_held lv_own lv_hole].
    + apply Forall_app. split; [eapply newfacts_ok; eauto|]. subst lv. apply (s_facts _ _ _ HS).
    + constructor; [|subst lv; apply (s_held _ _ _ HS)].
      subst lv. destruct (held_entry _ _ _ _ _ _ HS Ho) as (K1 & K2 & _). unfold held_ok. cbn. auto.
    + intros u x Hu [ox Hx] Hx'. subst lv. apply Hu. symmetry. destruct Hx as [E|Hx].
      * inversion E; subst x. eapply (s_excl _ _ _ HS); eauto. exists o; exact Ho.
      * eapply (s_excl _ _ _ HS); eauto. exists ox; exact Hx.
    + subst lv. apply (s_own _ _ _ HS).
    + intros p c s0 E. subst lv. destruct (s_hole _ _ _ HS t p c s0 E) as (_ & K2 & [oc K3] & _).
      split; [right; exact K2|exists oc; right; exact K3].
  - intros x m Hin. subst lv. pose proof (held_entry _ _ _ _ _ _ HS Hin) as (_ & _ & K). cbn [fst snd] in K. subst v. cbn. tauto.
Qed.

(** ** locks *)
Lemma safe3_xchg {R} t n (k : V -> prog R) lv s Q :
  pk (lv_facts lv) n ->
  safe3 t (k (vok true)) (lv, s) Q ->
  (~ holds lv n -> safe3 t (k (vok false)) (with_held lv ((n, None) :: lv_held lv), s) Q) ->
  safe3 t (Act (a_xchg n) k) (lv, s) Q.
Proof.
  intros Hn Hk1 Hk0. cbn [Conc.safe]. intros g a tr (L & HS & HL) Hv. unfold a_xchg. cbn [fst snd].
  destruct (view3_split _ _ _ _ Hv) as [Hv1 Hv2].
  pose proof (pk_pz _ _ _ _ _ _ HS Hv1 Hn) as Hpz.
  assert (Hsame : same_list_fields g (set_lock g n true)).
  { intros x. destruct (Nat.eq_dec x n) as [->|Hx]; [rewrite heap_set_lock_same; cbn; auto|rewrite heap_set_lock_other; auto]. }
  assert (Hown : forall u x k0 nx, lv_own (view (c_base a) u) = Some (x, k0, nx) -> heap (set_lock g n true) x = heap g x).
  { intros u x k0 nx E. apply heap_set_lock_other. pose proof (s_own _ _ _ HS u) as K. rewrite E in K. cbn in K.
    destruct K as (K1 & K2 & _). destruct Hpz as [->|[->|Hp]]; unfold HEAD, TAIL; try lia. congruence. }
  assert (Hheldu : forall u x, holds (view (c_base a) u) x -> heap (set_lock g n true) x = heap g x).
  { intros u x [o Ho]. destruct (Nat.eq_dec x n) as [->|Hx]; [|now apply heap_set_lock_other].
    rewrite heap_set_lock_same. destruct (held_entry _ _ _ _ _ _ HS Ho) as (_ & K & _). cbn [fst] in K.
    destruct (heap g n) as [a1 a2 a3 a4]. cbn in *. subst a4. reflexivity. }
  assert (Hfacts : Forall (fact_ok (set_lock g n true) (a_pub (c_base a))) (lv_facts lv)).
  { subst lv. eapply Forall_impl; [|apply (s_facts _ _ _ HS)]. intros [x kx] K. unfold fact_ok in *. destruct (Hsame x) as (E & _). now rewrite E. }
  destruct (nlock (heap g n)) eqn:El.
  - exists (mk_a3 a t (a_pub (c_base a)) (a_succ (c_base a)) lv (c_atr a) s).
    split; [|split; [apply frame3_mk|rewrite view3_mk_same; exact Hk1]].
    eapply Inv3_soft; eauto.
    + subst lv. pose proof (s_held _ _ _ HS t) as K. rewrite Forall_forall in *. intros [x o] He. specialize (K _ He).
      unfold held_ok in *. cbn [fst snd] in *. rewrite (Hheldu t x (ex_intro _ o He)). exact K.
    + intros u x Hu Hx Hx'. subst lv. apply Hu. symmetry. eapply (s_excl _ _ _ HS); eauto.
    + subst lv. pose proof (s_own _ _ _ HS t) as K. destruct (lv_own (view (c_base a) t)) as [[[x kx] nx]|] eqn:E; cbn [own_ok] in *; auto.
      rewrite (Hown t x kx nx E). exact K.
    + intros p c s0 E. subst lv. destruct (s_hole _ _ _ HS t p c s0 E) as (_ & K2 & K3 & _). auto.
  - assert (Hfree : forall u, ~ holds (view (c_base a) u) n).
    { intros u [o Ho]. destruct (held_entry _ _ _ _ _ _ HS Ho) as (_ & K & _). cbn [fst] in K. congruence. }
    exists (mk_a3 a t (a_pub (c_base a)) (a_succ (c_base a)) (with_held lv ((n, None) :: lv_held lv)) (c_atr a) s).
    split; [|split; [apply frame3_mk|rewrite view3_mk_same; apply Hk0; rewrite <- Hv1; apply Hfree]].
    eapply Inv3_soft; eauto; cbn [with_held lv_facts lv_held lv_own lv_hole].
    + constructor.
      * unfold held_ok. cbn [fst snd]. rewrite heap_set_lock_same. cbn. auto.
      * subst lv. pose proof (s_held _ _ _ HS t) as K. rewrite Forall_forall in *. intros [x o] He. specialize (K _ He).
        unfold held_ok in *. cbn [fst snd] in *. rewrite (Hheldu t x (ex_intro _ o He)). exact K.
    + intros u x Hu [ox Hx] Hx'. destruct Hx as [E|Hx].
      * inversion E; subst x. eapply Hfree; eauto.
      * subst lv. apply Hu. symmetry. eapply (s_excl _ _ _ HS); eauto. exists ox; exact Hx.
    + subst lv. pose proof (s_own _ _ _ HS t) as K. destruct (lv_own (view (c_base a) t)) as [[[x kx] nx]|] eqn:E; cbn [own_ok] in *; auto.
      rewrite (Hown t x kx nx E). exact K.
    + intros p c s0 E. subst lv. destruct (s_hole _ _ _ HS t p c s0 E) as (_ & K2 & [oc K3] & _).
      split; [right; exact K2|exists oc; right; exact K3].
Qed.

Lemma safe3_ldlock {R} t n (k : V -> prog R) l Q :
  (forall b, safe3 t (k (vok b)) l Q) -> safe3 t (Act (a_ldlock n) k) l Q.
Proof.
  destruct l as [lv s]. intros Hk. cbn [Conc.safe]. intros g a tr (L & HS & HL) Hv. unfold a_ldlock. cbn [fst snd].
  exists (mk_a3 a t (a_pub (c_base a)) (a_succ (c_base a)) lv (c_atr a) s).
  split; [|split; [apply frame3_mk|rewrite view3_mk_same; apply Hk]].
  eapply Inv3_keep; eauto.
Qed.

Lemma safe3_unlock {R} t n (k : V -> prog R) lv s Q :
  holds lv n -> lv_hole lv = None ->
  safe3 t (k v0) (with_held lv (release (lv_held lv) n), s) Q ->
  safe3 t (Act (a_unlock n) k) (lv, s) Q.
Proof.
  intros [o Ho] Hhole Hk. cbn [Conc.safe]. intros g a tr (L & HS & HL) Hv. unfold a_unlock. cbn [fst snd].
  destruct (view3_split _ _ _ _ Hv) as [Hv1 Hv2].
  exists (mk_a3 a t (a_pub (c_base a)) (a_succ (c_base a)) (with_held lv (release (lv_held lv) n)) (c_atr a) s).
  split; [|split; [apply frame3_mk|rewrite view3_mk_same; exact Hk]].
  assert (Hpz : pz (a_pub (c_base a)) n) by (subst lv; apply (held_entry _ _ _ _ _ _ HS Ho)).
  assert (Hsame : same_list_fields g (set_lock g n false)).
  { intros x. destruct (Nat.eq_dec x n) as [->|Hx]; [rewrite heap_set_lock_same; cbn; auto|rewrite heap_set_lock_other; auto]. }
  eapply Inv3_soft; eauto; cbn [with_held lv_facts lv_held lv_own lv_hole].
  - intros u x Hu Hx. apply heap_set_lock_other. intros ->. apply Hu. subst lv. eapply (s_excl _ _ _ HS); eauto. exists o; exact Ho.
  - intros u x k0 nx Hu E. apply heap_set_lock_other. pose proof (s_own _ _ _ HS u) as K. rewrite E in K. cbn in K.
    destruct K as (K1 & K2 & _). destruct Hpz as [->|[->|Hp]]; unfold HEAD, TAIL; try lia. congruence.
  - subst lv. eapply Forall_impl; [|apply (s_facts _ _ _ HS)]. intros [x kx] K. unfold fact_ok in *. destruct (Hsame x) as (E & _). now rewrite E.
  - rewrite Forall_forall. intros [x ox] He. apply release_in in He. destruct He as [He Hx]. subst lv.
    pose proof (held_entry _ _ _ _ _ _ HS He) as K. unfold held_ok in *. cbn [fst snd] in *. rewrite heap_set_lock_other by exact Hx. exact K.
  - intros u x Hu [ox Hx] Hx'. apply release_in in Hx. destruct Hx as [Hx _]. subst lv. apply Hu. symmetry.
    eapply (s_excl _ _ _ HS); eauto. exists ox; exact Hx.
  - subst lv. pose proof (s_own _ _ _ HS t) as K. destruct (lv_own (view (c_base a) t)) as [[[x kx] nx]|] eqn:E; cbn [own_ok] in *; auto.
    destruct K as (K1 & K2 & K3). change (nalloc (set_lock g n false)) with (nalloc g). repeat split; try lia; auto.
    rewrite heap_set_lock_other; [exact K3|]. destruct Hpz as [->|[->|Hp]]; unfold HEAD, TAIL; try lia. congruence.
  - intros p c s0 E. congruence.
Qed.

(** ** allocation and stores *)
Lemma abs_frame g g' L S : (forall x, In x L -> heap g' x = heap g x) -> abs g L S -> abs g' L S.
Proof.
  intros H Ha k. rewrite (Ha k). split; intros (n & H1 & H2 & H3); exists n; (split; [exact H1|]);
    [rewrite (H n H1)|rewrite (H n H1) in H2, H3]; auto.
Qed.

Lemma safe3_alloc {R} t kk (k : V -> prog R) lv s Q :
  (forall n, safe3 t (k (mkV n false kk)) (mkLV (lv_facts lv) (lv_held lv) (Some (n, kk, 0%nat)) (lv_hole lv), s) Q) ->
  safe3 t (Act (a_alloc kk) k) (lv, s) Q.
Proof.
  intros Hk. cbn [Conc.safe]. intros g a tr (L & HS & HL) Hv. unfold a_alloc. cbn [fst snd].
  destruct (view3_split _ _ _ _ Hv) as [Hv1 Hv2].
  change (mkG (upd_heap (heap g) (S (nalloc g)) (mkNode kk 0 false false)) (S (nalloc g)) (count g)) with (alloc_g g kk).
  set (lv' := mkLV (lv_facts lv) (lv_held lv) (Some (S (nalloc g), kk, 0%nat)) (lv_hole lv)).
  exists (mk_a3 a t (a_pub (c_base a)) (a_succ (c_base a)) lv' (c_atr a) s).
  split; [|split; [apply frame3_mk|rewrite view3_mk_same; apply Hk]].
  exists L. split; [subst lv; apply IS_alloc; auto|]. rewrite <- Hv2. apply (IL3_acc g _ a t _ _ lv' L L tr _ _ _ HL).
  intros S. apply abs_frame. intros x Hx. apply heap_alloc_old.
  apply (s_pubL _ _ _ HS) in Hx. apply (pub_range _ _ _ _ HS) in Hx. lia.
Qed.

Lemma safe3_st_own {R} t n kk nx p (k : V -> prog R) lv s Q :
  lv_own lv = Some (n, kk, nx) ->
  safe3 t (k v0) (mkLV (lv_facts lv) (lv_held lv) (Some (n, kk, p)) (lv_hole lv), s) Q ->
  safe3 t (Act (a_st n p false) k) (lv, s) Q.
Proof.
  intros Hown Hk. cbn [Conc.safe]. intros g a tr (L & HS & HL) Hv. unfold a_st. cbn [fst snd].
  destruct (view3_split _ _ _ _ Hv) as [Hv1 Hv2].
  set (lv' := mkLV (lv_facts lv) (lv_held lv) (Some (n, kk, p)) (lv_hole lv)).
  exists (mk_a3 a t (a_pub (c_base a)) (a_succ (c_base a)) lv' (c_atr a) s).
  split; [|split; [apply frame3_mk|rewrite view3_mk_same; exact Hk]].
  exists L. split; [subst lv; eapply IS_own_store; eauto|]. rewrite <- Hv2. apply (IL3_acc g _ a t _ _ lv' L L tr _ _ _ HL).
  intros S. apply abs_frame. intros x Hx. apply heap_set_next_other.
  subst lv. pose proof (s_own _ _ _ HS t) as K. rewrite Hown in K. cbn in K. destruct K as (_ & K & _).
  apply (s_pubL _ _ _ HS) in Hx. congruence.
Qed.

Lemma nodup_map_inj {A B} (f : A -> B) l x y : NoDup (map f l) -> In x l -> In y l -> f x = f y -> x = y.
Proof.
  induction l as [|z l IH]; cbn [map In]; [tauto|]. intros Hnd Hx Hy E. inversion Hnd; subst.
  destruct Hx as [->|Hx], Hy as [->|Hy]; auto.
  - exfalso. apply H1. rewrite E. apply in_map. exact Hy.
  - exfalso. apply H1. rewrite <- E. apply in_map. exact Hx.
Qed.

Definition ins_op := MichaelListActs.ins_op.
Definition ins_res := MichaelListActs.ins_res.

(** link_node's second store: linearization point of insert / inserting update *)
Lemma safe3_st_link {R} t m n kk pc o (k : V -> prog R) lv Q :
  In (m, Some (pc, false)) (lv_held lv) -> lv_own lv = Some (n, kk, pc) -> lv_hole lv = None ->
  klt (lv_facts lv) m kk -> kgt (lv_facts lv) pc kk -> ins_op o kk ->
  safe3 t (k v0) (mkLV (FPub n kk :: lv_facts lv) (set_obs (lv_held lv) m (n, false)) None None, @Linearized SetSpec o (ins_res o)) Q ->
  safe3 t (Act (a_st m n false) k) (lv, @Pending SetSpec o) Q.
Proof.
  intros Hm Hown Hhole Hkm Hkc Hop Hk. cbn [Conc.safe]. intros g a tr (L & HS & HL) Hv. unfold a_st. cbn [fst snd].
  destruct (view3_split _ _ _ _ Hv) as [Hv1 Hv2].
  set (lv' := mkLV (FPub n kk :: lv_facts lv) (set_obs (lv_held lv) m (n, false)) None None).
  assert (Hpc : pc = TAIL \/ a_pub (c_base a) pc = true).
  { destruct Hkc as [->|(kc & Hkc & _)]; [left; reflexivity|right]. pose proof (fact_in _ _ _ _ _ _ HS Hv1 Hkc) as K. cbn in K. tauto. }
  assert (Hk1 : elt (kf g m) (EKey kk)).
  { unfold kf. destruct Hkm as [->|(km & Hkm & Hlt)]; [cbn; exact I|].
    pose proof (fact_in _ _ _ _ _ _ HS Hv1 Hkm) as (K1 & K2). apply (pub_range _ _ _ _ HS) in K1. unfold HEAD, TAIL.
    destruct (Nat.eqb_spec m 1); [lia|]. destruct (Nat.eqb_spec m 2); [lia|]. cbn. lia. }
  assert (Hk2 : elt (EKey kk) (kf g pc)).
  { unfold kf. destruct Hkc as [->|(kc & Hkc & Hlt)]; [cbn; exact I|].
    pose proof (fact_in _ _ _ _ _ _ HS Hv1 Hkc) as (K1 & K2). apply (pub_range _ _ _ _ HS) in K1. unfold HEAD, TAIL.
    destruct (Nat.eqb_spec pc 1); [lia|]. destruct (Nat.eqb_spec pc 2); [lia|]. cbn. lia. }
  pose proof (s_own _ _ _ HS t) as Kown. rewrite Hv1, Hown in Kown. cbn [own_ok] in Kown. destruct Kown as (Kn & Knp & Knh).
  destruct (held_entry _ _ _ _ _ _ HS (eq_ind_r (fun l => In _ (lv_held l)) Hm Hv1)) as (Hmz & Hml & Hmn & Hmm). cbn [fst snd] in *.
  subst lv.
  destruct (IS_link g (c_base a) t lv' L m n kk pc HS Hm Hown Hhole Hpc Hk1 Hk2) as (L' & HS' & HnL & HL'); try reflexivity.
  exists (mk_a3 a t (pub_add (a_pub (c_base a)) n) (a_succ (c_base a)) lv' (c_atr a ++ [ALin t]) (@Linearized SetSpec o (ins_res o))).
  split; [|split; [apply frame3_mk|rewrite view3_mk_same; exact Hk]].
  exists L'. split; [exact HS'|].
  assert (Hnm : n <> m).
  { intros ->. destruct Hmz as [E|[E|E]]; unfold HEAD, TAIL in *; try lia. congruence. }
  set (g' := set_next g m n false).
  assert (Hkey : forall x, nkey (heap g' x) = nkey (heap g x)).
  { intros x. unfold g'. destruct (Nat.eq_dec x m) as [->|Hx]; [rewrite heap_set_next_same; reflexivity|now rewrite heap_set_next_other]. }
  assert (Hmark : forall x, nmark (heap g' x) = nmark (heap g x)).
  { intros x. unfold g'. destruct (Nat.eq_dec x m) as [->|Hx]; [rewrite heap_set_next_same; cbn; congruence|now rewrite heap_set_next_other]. }
  assert (Hnokey : forall S, abs g L S -> zmem kk S = false).
  { intros S Ha. destruct (zmem kk S) eqn:Ez; auto. exfalso. apply Ha in Ez. destruct Ez as (x & H1 & H2 & H3).
    (* x and n both carry key kk in the strictly sorted new chain *)
    destruct (s_chain _ _ _ HS') as [_ Hs]. apply esorted_nodup in Hs.
    assert (Hxn : x <> n) by (intros ->; contradiction).
    assert (Hkx : kf g' x = kf g' n).
    { unfold kf. pose proof (s_pubL _ _ _ HS x H1) as Px. apply (pub_range _ _ _ _ HS) in Px. unfold HEAD, TAIL.
      destruct (Nat.eqb_spec x 1); [lia|]. destruct (Nat.eqb_spec x 2); [lia|].
      destruct (Nat.eqb_spec n 1); [lia|]. destruct (Nat.eqb_spec n 2); [lia|]. rewrite !Hkey, Knh, H3. reflexivity. }
    apply Hxn. apply (nodup_map_inj (kf g') (HEAD :: L' ++ [TAIL])); auto.
    - right. apply in_or_app. left. apply HL'; auto.
    - right. apply in_or_app. left. apply HL'; auto. }
  assert (Habs : forall S, abs g L S -> abs g' L' (kk :: S)).
  { intros S Ha k0. cbn [zmem existsb]. rewrite orb_true_iff. fold (zmem k0 S). rewrite (Ha k0). split.
    - intros [Ek|(x & H1 & H2 & H3)].
      + apply Z.eqb_eq in Ek. subst k0. exists n. split; [apply HL'; auto|]. rewrite Hmark, Hkey, Knh. auto.
      + exists x. split; [apply HL'; auto|]. rewrite Hkey, Hmark; auto.
    - intros (x & H1 & H2 & H3). apply HL' in H1. destruct H1 as [->|H1].
      + left. rewrite Hkey, Knh in H3. cbn in H3. subst k0. apply Z.eqb_refl.
      + right. exists x. rewrite Hkey in H3. rewrite Hmark in H2; auto. }
  apply (IL3_lp g g' a t _ _ lv' L L' tr _ _ _ o HL Hv2).
  - intros S Ha.
    destruct Hop as [->| ->]; cbn [set_step]; rewrite (Hnokey S Ha); cbn [fst]; apply Habs; exact Ha.
  - intros S Ha. destruct Hop as [->| ->]; cbn [set_step ins_res MichaelListActs.ins_res]; rewrite (Hnokey S Ha); reflexivity.
Qed.

Definition del_op (o : set_op) (kk : Z) : Prop := o = SErase kk.

(** ** the structural part is indifferent to client events *)
Lemma IS_keep g a t lv L : IS g a L -> view a t = lv -> IS g (mk_a a t (a_pub a) (a_succ a) lv) L.
Proof.
  intros H Hv. subst lv. apply (IS_soft g g a t (view a t) L H); auto.
  - apply same_refl.
  - apply (s_facts _ _ _ H).
  - apply (s_held _ _ _ H).
  - intros u n Hu Hn1 Hn2. apply Hu. symmetry. eapply (s_excl _ _ _ H); eauto.
  - apply (s_own _ _ _ H).
  - intros p c s E. destruct (s_hole _ _ _ H t p c s E) as (_ & K2 & K3 & _). auto.
Qed.

Lemma safe3_emit_other {R} t name args (k : prog R) lv s Q :
  String.eqb name "inv" = false -> String.eqb name "ret" = false ->
  safe3 t k (lv, s) Q -> safe3 t (Emit [EvCli name args] k) (lv, s) Q.
Proof.
  intros N1 N2 Hk. cbn [Conc.safe]. intros g a tr (L & HS & HL) Hv. destruct (view3_split _ _ _ _ Hv) as [Hv1 Hv2].
  exists (mk_a3 a t (a_pub (c_base a)) (a_succ (c_base a)) lv (c_atr a) s).
  split; [|split; [apply frame3_mk|rewrite view3_mk_same; exact Hk]].
  exists L. split; [apply IS_keep; auto|]. rewrite <- Hv2. apply IL3_cli_other; auto.
Qed.

Lemma safe3_emit_inv {R} t c kk x v (k : prog R) lv Q :
  safe3 t k (lv, @Pending SetSpec (spec_op c kk x)) Q ->
  safe3 t (Emit [EvCli "inv" [c; kk; x; v]] k) (lv, @Idle SetSpec) Q.
Proof.
  intros Hk. cbn [Conc.safe]. intros g a tr (L & HS & HL) Hv. destruct (view3_split _ _ _ _ Hv) as [Hv1 Hv2].
  exists (mk_a3 a t (a_pub (c_base a)) (a_succ (c_base a)) lv (c_atr a ++ [@AInv SetSpec t (spec_op c kk x)]) (@Pending SetSpec (spec_op c kk x))).
  split; [|split; [apply frame3_mk|rewrite view3_mk_same; exact Hk]].
  exists L. split; [apply IS_keep; auto|]. apply IL3_inv; auto.
Qed.

Lemma safe3_emit_ret_lin {R} t o r a1 b1 (k : prog R) lv Q :
  res_of o a1 b1 = r -> is_read o r = false ->
  safe3 t k (lv, @Idle SetSpec) Q ->
  safe3 t (Emit [EvCli "ret" [a1; b1]] k) (lv, @Linearized SetSpec o r) Q.
Proof.
  intros Hr Hrd Hk. cbn [Conc.safe]. intros g a tr (L & HS & HL) Hv. destruct (view3_split _ _ _ _ Hv) as [Hv1 Hv2].
  exists (mk_a3 a t (a_pub (c_base a)) (a_succ (c_base a)) lv (c_atr a ++ [@ARes SetSpec t r]) (@Idle SetSpec)).
  split; [|split; [apply frame3_mk|rewrite view3_mk_same; exact Hk]].
  exists L. split; [apply IS_keep; auto|]. eapply IL3_ret_lin; eauto.
Qed.

Lemma safe3_emit_ret_read {R} t o a1 b1 (k : prog R) lv Q :
  is_read o (res_of o a1 b1) = true ->
  safe3 t k (lv, @Idle SetSpec) Q ->
  safe3 t (Emit [EvCli "ret" [a1; b1]] k) (lv, @Pending SetSpec o) Q.
Proof.
  intros Hrd Hk. cbn [Conc.safe]. intros g a tr (L & HS & HL) Hv. destruct (view3_split _ _ _ _ Hv) as [Hv1 Hv2].
  destruct (IL3_ret_read g a t lv L tr o a1 b1 HL Hv2 Hrd) as (atr' & HL').
  exists (mk_a3 a t (a_pub (c_base a)) (a_succ (c_base a)) lv atr' (@Idle SetSpec)).
  split; [|split; [apply frame3_mk|rewrite view3_mk_same; exact Hk]].
  exists L. split; [apply IS_keep; auto|exact HL'].
Qed.

(** unlink_node's first store (the mark): linearization point of erase / unlink / extract *)
Lemma safe3_st_mark {R} t p c nx kc (k : V -> prog R) lv Q :
  In (p, Some (c, false)) (lv_held lv) -> In (c, Some (nx, false)) (lv_held lv) ->
  In (FPub c kc) (lv_facts lv) -> lv_hole lv = None ->
  safe3 t (k v0) (mkLV (lv_facts lv) (set_obs (lv_held lv) c (HEAD, true)) (lv_own lv) (Some (p, c, nx)),
                 @Linearized SetSpec (SErase kc) (RBool true)) Q ->
  safe3 t (Act (a_st c HEAD true) k) (lv, @Pending SetSpec (SErase kc)) Q.
Proof.
  intros Hp Hc Hkc Hhole Hk. cbn [Conc.safe]. intros g a tr (L & HS & HL) Hv. unfold a_st. cbn [fst snd].
  destruct (view3_split _ _ _ _ Hv) as [Hv1 Hv2].
  set (lv' := mkLV (lv_facts lv) (set_obs (lv_held lv) c (HEAD, true)) (lv_own lv) (Some (p, c, nx))).
  pose proof (fact_in _ _ _ _ _ _ HS Hv1 Hkc) as (Hcp & Hck). subst lv.
  destruct (held_entry _ _ _ _ _ _ HS Hc) as (_ & Hcl & Hcn & Hcm). cbn [fst snd] in *.
  destruct (IS_mark g (c_base a) t lv' L p c nx HS Hp Hc Hcp Hhole) as (HS' & HcL); try reflexivity.
  exists (mk_a3 a t (a_pub (c_base a)) (succ_set (a_succ (c_base a)) c (Some nx)) lv' (c_atr a ++ [ALin t]) (@Linearized SetSpec (SErase kc) (RBool true))).
  split; [|split; [apply frame3_mk|rewrite view3_mk_same; exact Hk]].
  exists L. split; [exact HS'|].
  set (g' := set_next g c HEAD true).
  assert (Hkey : forall x, nkey (heap g' x) = nkey (heap g x)).
  { intros x. unfold g'. destruct (Nat.eq_dec x c) as [->|Hx]; [rewrite heap_set_next_same; reflexivity|now rewrite heap_set_next_other]. }
  assert (Hmark : forall x, x <> c -> nmark (heap g' x) = nmark (heap g x)).
  { intros x Hx. unfold g'. now rewrite heap_set_next_other. }
  assert (Hmc : nmark (heap g' c) = true) by (unfold g'; rewrite heap_set_next_same; reflexivity).
  assert (Hin : forall S, abs g L S -> zmem kc S = true).
  { intros S Ha. apply Ha. exists c. auto. }
  (* the key of c occurs once in L *)
  assert (Huniq : forall x, In x L -> nkey (heap g x) = kc -> x = c).
  { intros x Hx Ekx. destruct (s_chain _ _ _ HS) as [_ Hs]. apply esorted_nodup in Hs.
    apply (nodup_map_inj (kf g) (HEAD :: L ++ [TAIL])); auto.
    - right. apply in_or_app. left. exact Hx.
    - right. apply in_or_app. left. exact HcL.
    - unfold kf. pose proof (s_pubL _ _ _ HS x Hx) as Px. apply (pub_range _ _ _ _ HS) in Px.
      pose proof (pub_range _ _ _ _ HS Hcp) as Pc. unfold HEAD, TAIL.
      destruct (Nat.eqb_spec x 1); [lia|]. destruct (Nat.eqb_spec x 2); [lia|].
      destruct (Nat.eqb_spec c 1); [lia|]. destruct (Nat.eqb_spec c 2); [lia|]. rewrite Ekx, Hck. reflexivity. }
  apply (IL3_lp g g' a t _ _ lv' L L tr _ _ _ (SErase kc) HL Hv2).
  - intros S Ha. cbn [set_step]. rewrite (Hin S Ha). cbn [fst].
    intros k0. rewrite MichaelListActs.zmem_zdel. split.
    + intros [Hne Hm]. apply Ha in Hm. destruct Hm as (x & H1 & H2 & H3).
      exists x. assert (x <> c) by (intros ->; congruence). rewrite Hkey, Hmark; auto.
    + intros (x & H1 & H2 & H3). assert (Hxc : x <> c) by (intros ->; congruence).
      rewrite Hkey in H3. rewrite Hmark in H2 by exact Hxc. split.
      * intros ->. apply Hxc. apply Huniq; auto.
      * apply Ha. exists x. auto.
  - intros S Ha. cbn [set_step]. rewrite (Hin S Ha). reflexivity.
Qed.

(** unlink_node's second store: the marked node leaves the chain, the abstract set does not change *)
Lemma safe3_st_bypass {R} t p c nx (k : V -> prog R) lv s Q :
  lv_hole lv = Some (p, c, nx) ->
  safe3 t (k v0) (mkLV (lv_facts lv) (set_obs (lv_held lv) p (nx, false)) (lv_own lv) None, s) Q ->
  safe3 t (Act (a_st p nx false) k) (lv, s) Q.
Proof.
  intros Hhole Hk. cbn [Conc.safe]. intros g a tr (L & HS & HL) Hv. unfold a_st. cbn [fst snd].
  destruct (view3_split _ _ _ _ Hv) as [Hv1 Hv2].
  set (lv' := mkLV (lv_facts lv) (set_obs (lv_held lv) p (nx, false)) (lv_own lv) None). subst lv.
  destruct (s_hole _ _ _ HS t p c nx Hhole) as (_ & Hp & _).
  destruct (held_entry _ _ _ _ _ _ HS Hp) as (_ & _ & _ & Hpm). cbn [fst snd] in *.
  destruct (IS_bypass g (c_base a) t lv' L p c nx HS Hhole) as (L' & HS' & HcL & Hcm & HL'); try reflexivity.
  exists (mk_a3 a t (a_pub (c_base a)) (succ_set (a_succ (c_base a)) c None) lv' (c_atr a) s).
  split; [|split; [apply frame3_mk|rewrite view3_mk_same; exact Hk]].
  exists L'. split; [exact HS'|]. rewrite <- Hv2.
  apply (IL3_acc g _ a t _ _ lv' L L' tr _ _ _ HL).
  set (g' := set_next g p nx false).
  assert (Hkey : forall x, nkey (heap g' x) = nkey (heap g x)).
  { intros x. unfold g'. destruct (Nat.eq_dec x p) as [->|Hx]; [rewrite heap_set_next_same; reflexivity|now rewrite heap_set_next_other]. }
  assert (Hmark : forall x, nmark (heap g' x) = nmark (heap g x)).
  { intros x. unfold g'. destruct (Nat.eq_dec x p) as [->|Hx]; [rewrite heap_set_next_same; cbn; congruence|now rewrite heap_set_next_other]. }
  intros S Ha k0. rewrite (Ha k0). split.
  - intros (x & H1 & H2 & H3). exists x. rewrite Hkey, Hmark. split; [apply HL'; split; [exact H1|intros ->; congruence]|auto].
  - intros (x & H1 & H2 & H3). rewrite Hkey in H3. rewrite Hmark in H2. apply HL' in H1. exists x. tauto.
Qed.
