(** * SkipListNestE9: the initial state satisfies [EINV]; the theorems
      [skip_levels_nested] (= Properties_C18_Skip.C18_skip_levels_nested_statement: [LevOK] at every reachable state, every
      schedule, programs of all five operations), [skip_levels_quiescent] (the quiescent form) and
      [skip_levels_membership] (Properties_C15.skip_levels_are_sublists_statement for levels below c_nMaxHeight). *)
From Coq Require Import ZArith List String Bool Lia PeanoNat.
From LV Require Import Base.Conc Base.Events Base.Lin Spec.Specs Model.SkipList Proofs.SkipListProofs Proofs.SkipListLin Proofs.SkipListFullExt2
  Proofs.SkipListSub Proofs.SkipListSubThm Proofs.SkipListNest Proofs.SkipListNestProg Proofs.SkipListNestThm
  Proofs.SkipListNestE Proofs.SkipListNestE8.
Import ListNotations.

Fixpoint hq (nodes : list (nat * nat)) (q : ptr) : nat :=
  match nodes with
  | [] => 0
  | (k, h) :: r => if Nat.eqb q (pre_node k) then h else hq r q
  end.

Lemma hq_pos nodes q : 1 <= hq nodes q -> exists k h, In (k, h) nodes /\ q = pre_node k.
Proof.
  induction nodes as [|[k h] r IH]; cbn [hq]; [lia|]. destruct (Nat.eqb_spec q (pre_node k)) as [->|N].
  - intros _. exists k, h. split; [now left|reflexivity].
  - intros H. destruct (IH H) as (k' & h' & H1 & H2). exists k', h'. split; [now right|exact H2].
Qed.

Lemma hq_le nodes q : nodes_ok nodes -> hq nodes q <= MAXH.
Proof.
  induction nodes as [|[k h] r IH]; cbn [hq nodes_ok]; [lia|]. intros (_ & Hh & _ & Hr). destruct (Nat.eqb q (pre_node k)); [lia|auto].
Qed.

Lemma pre_level_hq l : forall nodes q, nodes_ok nodes -> (In q (pre_level l nodes) <-> l < hq nodes q).
Proof.
  induction nodes as [|[k h] r IH]; intros q Hn; cbn [pre_level hq]; [split; [contradiction|lia]|].
  cbn [nodes_ok] in Hn. destruct Hn as (Hk & Hh & Hlt & Hr).
  assert (Nk : ~ In (pre_node k) (pre_level l r)).
  { intros X. destruct (pre_level_in _ _ _ X) as (k' & h' & H1 & H2 & _). apply pre_node_inj in H2. subst k'.
    rewrite Forall_forall in Hlt. specialize (Hlt _ H1). cbn in Hlt. lia. }
  destruct (Nat.eqb_spec q (pre_node k)) as [->|N].
  - destruct (Nat.ltb_spec l h) as [X|X]; [split; [lia|now left]|split; [contradiction|lia]].
  - rewrite <- (IH q Hr). destruct (Nat.ltb l h); [|tauto]. cbn [In]. split; [intros [X|X]; [congruence|exact X]|now right].
Qed.

Lemma link_all_unl nodes : forall q, unl (link_all nodes g_empty) q = Z.of_nat (hq nodes q).
Proof.
  induction nodes as [|[k h] r IH]; intros q; cbn [link_all unl hq]; [reflexivity|]. unfold upd1.
  destruct (Nat.eqb q (pre_node k)); [reflexivity|apply IH].
Qed.

Lemma link_all_hgt nodes : nodes_ok nodes -> forall q, hgt_of (link_all nodes g_empty) q = match hq nodes q with 0 => 1 | h => h end.
Proof.
  induction nodes as [|[k h] r IH]; intros Hn q; cbn [link_all hgt_of hq]; [reflexivity|]. cbn [nodes_ok] in Hn. destruct Hn as (_ & Hh & _ & Hr).
  unfold upd1. destruct (Nat.eqb q (pre_node k)); [destruct h; [lia|reflexivity]|now apply IH].
Qed.

Definition eviews0 (u : nat) : eview := mkEV [] (if Nat.eqb u 63 then 8 else 0) None None.
Definition eaux0 (nodes : list (nat * nat)) : eaux :=
  mkEA (fun l => pre_level l nodes) (hq nodes) (hq nodes) (fun _ => false) [] eviews0.

Lemma init_EINV nodes : nodes_ok nodes -> EINV (init nodes) (eaux0 nodes).
Proof.
  intros Hn.
  assert (Hu : forall q, unl (init nodes) q = Z.of_nat (hq nodes q)) by (intros q; unfold init; cbn [unl]; apply link_all_unl).
  assert (Hh : forall q, hgt_of (init nodes) q = match hq nodes q with 0 => 1 | h => h end) by (intros q; unfold init; cbn [hgt_of]; now apply link_all_hgt).
  constructor; unfold pend, rest; cbn [eLs ealk eanl eadn eapl evw eaux0].
  - intros l _. apply (init_walk nodes l Hn nodes []); [reflexivity|]. unfold init. cbn [nxt]. now rewrite Nat.eqb_refl.
  - intros l q _. now apply pre_level_hq.
  - intros q. rewrite Hh. destruct (hq nodes q); lia.
  - intros q. rewrite Hh. pose proof (hq_le nodes q Hn). destruct (hq nodes q); unfold MAXH in *; lia.
  - intros q _ _. split; reflexivity.
  - intros q Hq. rewrite Hu, Hh. cbn [map count_occ]. destruct (hq nodes q); lia.
  - intros q X. discriminate.
  - intros q l A1 A2. lia.
  - intros q l _. apply init_nm.
  - intros q Hq. destruct (hq_pos _ _ Hq) as (k & h & H1 & ->). destruct (nodes_ok_in _ _ _ Hn H1) as [Hk _].
    split; [apply mk_node_isnode|]. unfold pre_node. rewrite SkipListNest.node_id_owner, SkipListNest.node_id_ser by lia. cbn. lia.
  - split; [constructor|]. intros u q. cbn. split; [contradiction|discriminate].
  - intros u. split; [intros f []|exact Logic.I].
Qed.

Lemma init_cfg_okE fuel nodes ths :
  nodes_ok nodes -> Forall (Forall op_ok) ths -> List.length ths <= 63 ->
  @Conc.cfg_ok G V ev eaux eview evw' EInv (init_cfg fuel nodes ths).
Proof.
  intros Hn Ho Hlen. exists (eaux0 nodes). split; [now apply init_EINV|].
  intros t p Hp. unfold init_cfg in Hp. cbn [Conc.threads] in Hp. rewrite nth_error_map in Hp.
  destruct (nth_error (combine (seq 0 (List.length ths)) ths) t) as [[t' os]|] eqn:E; [|discriminate].
  injection Hp as <-. cbn [fst snd]. apply nth_error_combine2 in E. destruct E as [E1 E2].
  apply nth_error_seq00 in E1. destruct E1 as [-> Hlt].
  apply Q_thread; [lia| | |reflexivity].
  - apply nth_error_In in E2. rewrite Forall_forall in Ho. now apply Ho.
  - unfold evw'. cbn [evw eaux0 eviews0 wser]. destruct (Nat.eqb_spec t 63); [lia|reflexivity].
Qed.

Lemma einv_levok g a : EINV g a -> LevOK g.
Proof.
  intros Hi. exists (eLs a). split; [apply Hi|]. intros l q Hl Hq.
  apply (e_n1 _ _ Hi (S l) q Hl) in Hq. apply (e_n1 _ _ Hi l q); lia.
Qed.

(** ** the theorems *)
Theorem skip_levels_nested fuel nodes ths c :
  nodes_ok nodes -> Forall (Forall op_ok) ths -> List.length ths <= 63 ->
  Conc.reach (init_cfg fuel nodes ths) c -> LevOK (Conc.shared c).
Proof.
  intros Hn Ho Hlen Hr. destruct (Conc.reach_Inv (init_cfg_okE fuel nodes ths Hn Ho Hlen) Hr) as (a & Hi).
  eapply einv_levok; eauto.
Qed.

Theorem skip_levels_quiescent fuel nodes ths c :
  nodes_ok nodes -> Forall (Forall op_ok) ths -> List.length ths <= 63 ->
  Conc.reach (init_cfg fuel nodes ths) c -> ~ exhausted (Conc.trace c) -> quiet (Conc.trace c) ->
  levels_property nodes c.
Proof.
  intros Hn Ho Hlen Hr Hne Hq.
  exact (skip_nested_gives_property fuel nodes ths c Hn Ho Hlen Hr Hne (quiet_ext_quiet _ Hq) (skip_levels_nested fuel nodes ths c Hn Ho Hlen Hr)).
Qed.

Theorem skip_levels_membership fuel nodes ths c l m q :
  nodes_ok nodes -> Forall (Forall op_ok) ths -> List.length ths <= 63 ->
  Conc.reach (init_cfg fuel nodes ths) c -> S l < MAXH ->
  In q (chain (Conc.shared c) (S l) head m) -> exists m', In q (chain (Conc.shared c) l head m').
Proof.
  intros Hn Ho Hlen Hr Hl Hin.
  exact (levok_membership _ l m q (skip_levels_nested fuel nodes ths c Hn Ho Hlen Hr) Hl Hin).
Qed.

(** the ghost accounting of m_nUnlink at every reachable state, in words: every node that was ever linked has
    m_nUnlink = (number of levels it is linked on now) + (unlink CASes whose level_unlinked() is outstanding)
              + (levels its inserter has not linked yet, while it has neither finished nor given up) *)
Theorem skip_unlink_counter fuel nodes ths c :
  nodes_ok nodes -> Forall (Forall op_ok) ths -> List.length ths <= 63 ->
  Conc.reach (init_cfg fuel nodes ths) c ->
  exists a, EINV (Conc.shared c) a.
Proof.
  intros Hn Ho Hlen Hr. exact (Conc.reach_Inv (init_cfg_okE fuel nodes ths Hn Ho Hlen) Hr).
Qed.
