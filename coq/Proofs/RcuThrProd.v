(** * general_threaded: grace-period safety for every schedule.  Product of the gp invariant, the epoch invariant, the
      join / quit component and the mailbox component (LV.Proofs.RcuThrQ). *)
From Coq Require Import ZArith List String Bool Lia PeanoNat.
From LV Require Import Base.Conc Base.Events Model.RcuGp Model.RcuBuf Model.RcuThreaded Proofs.RcuBits Proofs.RcuGpInv
  Proofs.RcuGpSteps Proofs.RcuGpWriter Proofs.RcuGpExtra Proofs.RcuGpSafe Proofs.RcuBufInv Proofs.RcuBufEpoch Proofs.RcuBufSafe
  Proofs.RcuBufProd Proofs.RcuThrInv Proofs.RcuThrGrace Proofs.RcuThrQ.
Import ListNotations.
Local Open Scope string_scope.
Local Open Scope list_scope.
Local Open Scope Z_scope.

Definition Aux4 := (Aux * AuxE * AuxQ * Mail)%type.
Definition L4 := (L * LE * LQ)%type.
Definition view4 (a : Aux4) (t : nat) : L4 :=
  (view (fst (fst (fst a))) t, viewE (snd (fst (fst a))) t, viewQ (snd (fst a)) t).

Section Prod4.
  Variable N : nat.

  Definition Inv4 (g : G) (a : Aux4) (tr : trace) : Prop :=
    Inv g (fst (fst (fst a))) tr /\ InvE g (snd (fst (fst a))) tr /\ InvQ N g (snd (fst a)) tr /\
    InvM g (snd (fst (fst a))) (snd a) tr.

  Notation safe4 := (@Conc.safe G V ev Aux4 L4 view4 Inv4).

  Lemma frame4 t x1 x1' xE xE' xQ xQ' m m' :
    Conc.frame view t x1 x1' -> Conc.frame viewE t xE xE' -> Conc.frame viewQ t xQ xQ' ->
    Conc.frame view4 t (x1, xE, xQ, m) (x1', xE', xQ', m').
  Proof. intros F1 F2 F3 t' H. unfold view4. cbn [fst snd]. rewrite (F1 t' H), (F2 t' H), (F3 t' H). reflexivity. Qed.

  Lemma frameQ_refl t a : Conc.frame viewQ t a a.
  Proof. intros ? ?; reflexivity. Qed.
  Lemma frameQ_d t a : Conc.frame viewQ t a (q_with_d a t).
  Proof. intros t' H. unfold viewQ. cbn. destruct (Nat.eqb_spec t' t); [contradiction|reflexivity]. Qed.
  Lemma frameQ_i t a : Conc.frame viewQ t a (q_with_i a t).
  Proof. intros t' H. unfold viewQ. cbn. destruct (Nat.eqb_spec t' t); [contradiction|reflexivity]. Qed.
  Lemma frameQ_j t a : Conc.frame viewQ t a (q_with_j a t).
  Proof. intros t' H. unfold viewQ. cbn. destruct (Nat.eqb_spec t' t); [contradiction|reflexivity]. Qed.

  Lemma safe4_bind {A B} t (p : prog A) (q : A -> prog B) Q l :
    safe4 t p l (fun r l' => safe4 t (q r) l' Q) -> safe4 t (bind p q) l Q.
  Proof. apply Conc.safe_bind. Qed.

  Ltac getv Hv Hv1 Hm Hs HvQ :=
    pose proof (f_equal (fun x : L4 => fst (fst x)) Hv) as Hv1; pose proof (f_equal (fun x : L4 => fst (snd (fst x))) Hv) as Hm;
    pose proof (f_equal (fun x : L4 => snd (snd (fst x))) Hv) as Hs; pose proof (f_equal (fun x : L4 => snd x) Hv) as HvQ;
    cbn [fst snd] in Hv1, Hm, Hs, HvQ; clear Hv.

  Ltac open4 g x1 xE xQ m tr HI HE HQ HM Hv1 Hm Hs Hd Hi Hj :=
    cbn [Conc.safe]; intros g [[[x1 xE] xQ] m] tr (HI & HE & HQ & HM) Hv;
    unfold view4, view, viewE, viewQ in Hv; cbn [fst snd] in *; injection Hv as Hv1 Hm Hs Hd Hi Hj.

  (** ** lifting programs of the gp core, for a client that is not done *)
  Lemma safe_lift4 {R} t (p : prog R) : (t < N)%nat -> core p -> forall l1 lE qi qj (Q1 : R -> L -> Prop),
    safe1 t p l1 Q1 -> safe4 t p (l1, lE, (false, qi, qj)) (fun r l' => Q1 r (fst (fst l')) /\ snd (fst l') = lE /\ snd l' = (false, qi, qj)).
  Proof.
    intros Ht. induction p as [r|es k IH|f k IH]; intros Hc l1 lE qi qj Q1 Hs; cbn [Conc.safe core] in *.
    - repeat split; auto.
    - destruct Hc as ((e & -> & Hp & Hdd) & Hk). intros g [[[x1 xE] xQ] m] tr (HI & HE & HQ & HM) Hv.
      unfold view4 in Hv. cbn [fst snd] in *.
      pose proof (f_equal (fun x : L4 => fst (fst x)) Hv) as Hv1; pose proof (f_equal (fun x : L4 => snd (fst x)) Hv) as HvE; pose proof (f_equal (fun x : L4 => snd x) Hv) as HvQ; cbn [fst snd] in Hv1, HvE, HvQ.
      destruct (Hs g x1 tr HI Hv1) as (x1' & H1 & H2 & H3).
      exists (x1', xE, xQ, m). split; [split; [exact H1|split; [apply InvE_keep with (g := g); auto|split]]|].
      + rewrite tag1. apply InvQ_ev with (g := g); auto; intros _; unfold viewQ in HvQ; injection HvQ as Hd _ _; auto.
      + apply InvM_keep with (g := g); auto; cbn; lia.
      + split; [apply frame4; [exact H2|apply frameE_refl|apply frameQ_refl]|].
        unfold view4. cbn [fst snd]. rewrite HvE, HvQ. apply IH; assumption.
    - destruct Hc as (Hf & Hk). intros g [[[x1 xE] xQ] m] tr (HI & HE & HQ & HM) Hv.
      unfold view4 in Hv. cbn [fst snd] in *.
      pose proof (f_equal (fun x : L4 => fst (fst x)) Hv) as Hv1; pose proof (f_equal (fun x : L4 => snd (fst x)) Hv) as HvE; pose proof (f_equal (fun x : L4 => snd x) Hv) as HvQ; cbn [fst snd] in Hv1, HvE, HvQ.
      destruct (Hs g x1 tr HI Hv1) as (x1' & H1 & H2 & H3). destruct (Hf g) as ((Eb & Ee & Eq & En & Et) & e & Ee' & Hp & Hdd).
      exists (x1', xE, xQ, m). split; [split; [exact H1|split; [apply InvE_keep with (g := g); auto|split]]|].
      + rewrite Ee', tag1. apply InvQ_ev with (g := g); auto; intros _; unfold viewQ in HvQ; injection HvQ as Hd _ _; auto.
      + apply InvM_keep with (g := g); auto; cbn; lia.
      + split; [apply frame4; [exact H2|apply frameE_refl|apply frameQ_refl]|].
        unfold view4. cbn [fst snd]. rewrite HvE, HvQ. apply IH; auto.
  Qed.

  (** an access that touches nothing any component looks at *)
  Lemma safe4_act_plain {R} t (f : act) (k : V -> prog R) l Q :
    (forall g, g_list (fst (fst (f g))) = g_list g /\ g_nrec (fst (fst (f g))) = g_nrec g /\ g_tid (fst (fst (f g))) = g_tid g /\
               g_acc (fst (fst (f g))) = g_acc g /\ g_lock (fst (fst (f g))) = g_lock g /\ g_ctl (fst (fst (f g))) = g_ctl g /\
               g_buf (fst (fst (f g))) = g_buf g /\ g_epoch (fst (fst (f g))) = g_epoch g /\
               g_quit (fst (fst (f g))) = g_quit g /\ g_ndone (fst (fst (f g))) = g_ndone g /\ g_task (fst (fst (f g))) = g_task g /\
               exists k0 o ok, snd (f g) = [EvAcc k0 o ok]) ->
    (forall v, safe4 t (k v) l Q) -> safe4 t (Act f k) l Q.
  Proof.
    intros Hf Hk. cbn [Conc.safe]. intros g [[[x1 xE] xQ] m] tr (HI & HE & HQ & HM) Hv. cbn [fst snd] in *.
    destruct (Hf g) as (F1 & F2 & F3 & F4 & F5 & F6 & F7 & F8 & F9 & F10 & F11 & k0 & o & ok & Ee).
    exists (x1, xE, xQ, m). rewrite Ee. split; [split; cbn [fst snd]; [rewrite tag1; apply Inv_acc with (g := g); auto|split; [apply InvE_keep with (g := g); auto|split]]|].
    - rewrite tag1. apply InvQ_acc with (g := g); auto.
    - apply InvM_keep with (g := g); auto; cbn; lia.
    - split; [intros ? ?; reflexivity|]. rewrite Hv. apply Hk.
  Qed.

  Ltac plain4 :=
    let g := fresh "g" in
    intros g; cbv beta delta [a_buf_size a_begin acc]; cbn; repeat (split; [reflexivity|]); eexists _, _, _; reflexivity.

  (** an event that is neutral for every component; not a "rlock 1" *)
  Lemma safe4_emit_neutral {R} t name args (k : prog R) l Q :
    neutral (EvCli name args) -> safe4 t k l Q -> safe4 t (Emit (cli name args) k) l Q.
  Proof.
    intros Hn H. cbn [Conc.safe]. intros g [[[x1 xE] xQ] m] tr (HI & HE & HQ & HM) Hv. cbn [fst snd] in *.
    exists (x1, xE, xQ, m). split; [split; cbn [fst snd]; [unfold cli; rewrite tag1; apply Inv_cli_neutral; assumption|split; [apply InvE_keep with (g := g); auto|split]]|].
    - unfold cli. rewrite tag1. apply InvQ_ev with (g := g); auto. intros X. destruct Hn as (Y & _). congruence.
    - apply InvM_keep with (g := g); auto; cbn; lia.
    - split; [intros ? ?; reflexivity|]. rewrite Hv. exact H.
  Qed.

  Variables (sfuel : nat) (cap : Z) (cnt : bool).

  (** "dispose p" of my first (ghost) hand entry, retired before the marker of my completed grace period *)
  Lemma safe4_dispose {R} t p oe k hs es i l1 lq (k0 : prog R) Q :
    l_w l1 = WFin i -> (k < i)%nat -> safe4 t k0 (l1, (hs, es), lq) Q ->
    safe4 t (Emit (cli "dispose" [p]) k0) (l1, ((p, oe, k) :: hs, es), lq) Q.
  Proof.
    intros Hw Hki Hk. cbn [Conc.safe]. intros g [[[x1 xE] xQ] m] tr (HI & HE & HQ & HM) Hv.
    unfold view4, view, viewE in Hv. cbn [fst snd] in *. getv Hv Hv1 Hm Hs HvQ.
    assert (Hin : In (t, (p, oe, k)) (e_h xE)) by (apply gmine_in; rewrite Hm; left; reflexivity).
    destruct (hand_retired _ _ _ _ _ _ _ HE Hin) as (_ & w' & Hat).
    exists (x1, mkE (e_buf xE) (grmf t (e_h xE)) (e_s xE), xQ, m). split; [split; cbn [fst snd]; [|split; [|split]]|].
    - unfold cli. rewrite tag1. eapply step_ev_dispose_keep with (i := i); eauto; [rewrite Hv1; exact Hw|lia].
    - apply InvE_drop; exact HE.
    - unfold cli. rewrite tag1. apply InvQ_ev with (g := g); auto. discriminate.
    - eapply InvM_gen with (g := g); [reflexivity|reflexivity|lia| |exact HM]. intros q e0 k1 He. left. eapply ent_drop; eauto.
    - split; [apply frame4; [apply frame_refl|apply frameE_rmf|apply frameQ_refl]|].
      unfold view4, view, viewE. cbn [fst snd e_h e_s]. rewrite (gmine_grmf_head _ _ _ _ Hm), Hv1, Hs, HvQ. exact Hk.
  Qed.

  Definition clq : LQ := (false, false, false).

  (** the hand-off of general_threaded::synchronize, by a client whose grace period is over *)
  Lemma safe4_handoff t fuel i n hs l1 : forall (Q : bool -> L4 -> Prop),
    l_w l1 = WFin i -> (forall r, Q r (l1, (hs, EIn i n), clq)) ->
    safe4 t (handoff fuel n false) (l1, (hs, EIn i n), clq) Q.
  Proof.
    induction fuel as [|f IH]; intros Q Hw HQ; cbn [handoff]; [apply HQ|].
    cbn [Conc.safe]. intros g [[[x1 xE] xQ] m] tr (HI & HE & HQc & HM) Hv.
    unfold view4, view, viewE in Hv. cbn [fst snd] in *. getv Hv Hv1 Hm Hs HvQ. unfold a_post.
    destruct (g_ready g); cbn [fst snd vz orb].
    - assert (Hwa : l_w (x1 t) = WFin i) by (rewrite Hv1; exact Hw).
      destruct (wfin_closed _ _ _ _ _ HI Hwa) as (Hc & Hi). destruct (E2 _ _ _ HE t i n Hs) as (Hn & _).
      exists (x1, xE, xQ, Some (n, i)). split; [split; cbn [fst snd]; [|split; [|split]]|].
      + unfold acc. rewrite tag1. apply Inv_acc with (g := g); auto.
      + apply InvE_keep with (g := g); auto.
      + unfold acc. rewrite tag1. apply InvQ_mail; [left; reflexivity|exact HQc].
      + apply InvM_post with (m := m); auto. intros p e k [Hin|(t0 & Hin)] Hle.
        * destruct (EB _ _ _ HE p e k Hin) as (_ & _ & X). eapply X; eauto.
        * destruct (EH _ _ _ HE t0 p (Some e) k Hin) as (_ & _ & X). eapply X; eauto.
      + split; [intros ? ?; reflexivity|]. unfold view4, view, viewE. cbn [fst snd]. rewrite Hv1, Hm, Hs, HvQ. cbn. apply HQ.
    - exists (x1, xE, xQ, m). split; [split; cbn [fst snd]; [|split; [|split]]|].
      + unfold acc. rewrite tag1. apply Inv_acc with (g := g); auto.
      + apply InvE_keep with (g := g); auto.
      + unfold acc. rewrite tag1. apply InvQ_acc with (g := g); auto.
      + apply InvM_keep with (g := g); auto; cbn; lia.
      + split; [intros ? ?; reflexivity|]. unfold view4, view, viewE. cbn [fst snd]. rewrite Hv1, Hm, Hs, HvQ. cbn. apply IH; auto.
  Qed.

  Variable t : nat.
  Hypothesis Ht : (t < N)%nat.

  (** general_threaded::synchronize by a client *)
  Lemma safe4_synchronize hs es l1 (Q : bool -> L4 -> Prop) :
    ~ holder (l_w l1) ->
    (forall i n, HsBelow i hs -> SmB l1 i -> Q true (set_w l1 (WFin i), (hs, EIn i n), clq)) -> (forall l', Q false l') ->
    safe4 t (synchronize_t sfuel) (l1, (hs, es), clq) Q.
  Proof.
    intros Hn HT HF. unfold synchronize_t. cbn [Conc.safe]. intros g [[[x1 xE] xQ] m] tr (HI & HE & HQc & HM) Hv.
    unfold view4, view, viewE in Hv. cbn [fst snd] in *. getv Hv Hv1 Hm Hs HvQ. unfold a_epoch_faa. cbn [fst snd vz].
    remember (List.length tr) as i eqn:Ei.
    assert (Hsm : SmB l1 i).
    { intros j Hj. assert (X : l_sm (x1 t) = Some j) by (rewrite Hv1; exact Hj). pose proof (sm_below _ _ _ _ _ HI X). lia. }
    assert (Hbel : HsBelow i hs).
    { intros p oe k Hin. assert (X : In (t, (p, oe, k)) (e_h xE)) by (apply gmine_in; rewrite Hm; exact Hin).
      destruct (hand_retired _ _ _ _ _ _ _ HE X) as (Y & _). lia. }
    exists (updA x1 t (set_w (x1 t) (WStart i)), mkE (e_buf xE) (e_h xE) (fun w => if Nat.eqb w t then EIn i (g_epoch g) else e_s xE w), xQ, m).
    split; [split; cbn [fst snd]; [|split; [|split]]|].
    - unfold acc. rewrite tag1, Ei. apply step_mark with (g := g); auto. rewrite Hv1; exact Hn.
    - unfold acc. rewrite tag1, Ei. apply InvE_faa; exact HE.
    - unfold acc. rewrite tag1. apply InvQ_acc with (g := g); auto.
    - eapply InvM_gen with (g := g); [reflexivity|reflexivity|cbn; lia| |exact HM]. intros p e k He. left. exact He.
    - split; [apply frame4; [apply frame_updA|apply frameE_sync|apply frameQ_refl]|].
      unfold view4, view, viewE. cbn [fst snd e_h e_s]. rewrite updA_same, Hv1, Hm, Nat.eqb_refl, HvQ. cbn [set_w].
      set (n := g_epoch g). clearbody n. clear g x1 xE xQ m tr HI HE HQc HM Hv1 Hm Hs HvQ Ei.
      apply safe4_bind.
      eapply Conc.safe_weaken; [|apply safe_lift4; [exact Ht|apply core_lock_loops|
        refine (proj1 (safe_lock_loops t sfuel i (set_w l1 (WStart i)) (fun ok l' => if ok then l' = set_w l1 (WHeld0 i) else True) eq_refl _ _)); [reflexivity|intros; exact I]]].
      intros [|] [[l1' lE'] lq'] (HQ1 & HQ2 & HQ3); cbn [fst snd] in *; [|apply HF]. subst l1' lE' lq'.
      cbv beta iota. apply safe4_bind.
      eapply Conc.safe_weaken; [|apply safe_lift4; [exact Ht|apply core_flips|
        apply (safe_flips2 t sfuel i _ (fun ok l' => if ok then exists gph done, l' = set_w l1 (WPhase i true gph (PScan done [] L0)) else True));
          [reflexivity|intros gph done; exists gph, done; reflexivity|intros; exact I]]].
      intros [|] [[l1' lE'] lq'] (HQ1 & HQ2 & HQ3); cbn [fst snd] in *; [|apply HF]. destruct HQ1 as (gph & done & ->). subst lE' lq'.
      cbv beta iota. apply safe4_bind.
      eapply Conc.safe_weaken; [|apply safe_lift4; [exact Ht|apply core_unlock|
        apply (safe_unlock t i gph done _ (fun _ l' => l' = set_w l1 (WFin i))); reflexivity]].
      intros [] [[l1' lE'] lq'] (HQ1 & HQ2 & HQ3); cbn [fst snd] in *. subst l1' lE' lq'.
      apply safe4_handoff; [reflexivity|]. intros [|]; [apply HT; assumption|apply HF].
  Qed.

  Lemma safe4_size_reached {R} (k : bool -> prog R) l Q :
    (forall b, safe4 t (k b) l Q) -> safe4 t (size_reached cap cnt k) l Q.
  Proof.
    intros H. unfold size_reached. destruct cnt; [|apply H]. apply safe4_act_plain; [plain4|]. intros v. apply H.
  Qed.

  Lemma safe4_push p e k hs es l1 (Q : bool -> L4 -> Prop) :
    ~ holder (l_w l1) ->
    (forall w' es', ~ holder w' -> Q true (set_w l1 w', (hs, es'), clq)) -> (forall l', Q false l') ->
    safe4 t (push_buffer_t sfuel cap cnt p e) (l1, ((p, Some e, k) :: hs, es), clq) Q.
  Proof.
    intros Hn HT HF. unfold push_buffer_t. cbn [Conc.safe]. intros g [[[x1 xE] xQ] m] tr (HI & HE & HQc & HM) Hv.
    unfold view4, view, viewE in Hv. cbn [fst snd] in *. getv Hv Hv1 Hm Hs HvQ. unfold a_buf_push.
    destruct (Nat.ltb (List.length (g_buf g)) (g_bcap g)); cbn [fst snd vz].
    - exists (x1, mkE (e_buf xE ++ [(p, e, k)]) (grmf t (e_h xE)) (e_s xE), xQ, m). split; [split; cbn [fst snd]; [|split; [|split]]|].
      + unfold acc. rewrite tag1. apply Inv_acc with (g := g); auto.
      + eapply InvE_push; eauto.
      + unfold acc. rewrite tag1. apply InvQ_acc with (g := g); auto.
      + eapply InvM_gen with (g := g); [reflexivity|reflexivity|cbn; lia| |exact HM]. intros q e0 k1 He. left. eapply ent_push; eauto.
      + split; [apply frame4; [apply frame_refl|apply frameE_rmf|apply frameQ_refl]|].
        unfold view4, view, viewE. cbn [fst snd e_h e_s]. rewrite (gmine_grmf_head _ _ _ _ Hm), Hv1, Hs, HvQ. cbn [Z.eqb Pos.eqb].
        apply safe4_size_reached. intros [|].
        * apply safe4_synchronize; [exact Hn| |exact HF]. intros i n _ _. apply HT. intros [].
        * cbn. rewrite <- (set_w_same l1) at 1. apply HT. exact Hn.
    - exists (x1, xE, xQ, m). split; [split; cbn [fst snd]; [|split; [|split]]|].
      + unfold acc. rewrite tag1. apply Inv_acc with (g := g); auto.
      + apply InvE_keep with (g := g); auto.
      + unfold acc. rewrite tag1. apply InvQ_acc with (g := g); auto.
      + apply InvM_keep with (g := g); auto; cbn; lia.
      + split; [intros ? ?; reflexivity|]. unfold view4, view, viewE. cbn [fst snd]. rewrite Hv1, Hm, Hs, HvQ. cbn [Z.eqb].
        apply safe4_bind. apply safe4_synchronize; [exact Hn| |intros l'; cbv beta iota; apply HF].
        intros i n Hbel _. cbv beta iota.
        eapply safe4_dispose; [reflexivity|apply (Hbel p (Some e) k); left; reflexivity|]. cbn. apply HT. intros [].
  Qed.
End Prod4.

Section Prod4b.
  Variable N : nat.
  Notation safe4 := (@Conc.safe G V ev Aux4 L4 view4 (Inv4 N)).
  Variables (sfuel : nat) (cap : Z) (cnt : bool).

  Ltac getv Hv Hv1 Hm Hs HvQ :=
    pose proof (f_equal (fun x : L4 => fst (fst x)) Hv) as Hv1; pose proof (f_equal (fun x : L4 => fst (snd (fst x))) Hv) as Hm;
    pose proof (f_equal (fun x : L4 => snd (snd (fst x))) Hv) as Hs; pose proof (f_equal (fun x : L4 => snd x) Hv) as HvQ;
    cbn [fst snd] in Hv1, Hm, Hs, HvQ; clear Hv.

  Section Client.
  Variable t : nat.
  Hypothesis Ht : (t < N)%nat.

  Lemma safe4_retire_ev {R} p hs es l1 (k : prog R) Q :
    (forall k0, safe4 t k (l1, (hs ++ [(p, None, k0)], es), clq) Q) ->
    safe4 t (Emit (cli "retire" [p]) k) (l1, (hs, es), clq) Q.
  Proof.
    intros Hk. cbn [Conc.safe]. intros g [[[x1 xE] xQ] m] tr (HI & HE & HQc & HM) Hv.
    unfold view4, view, viewE in Hv. cbn [fst snd] in *. getv Hv Hv1 Hm Hs HvQ.
    exists (x1, mkE (e_buf xE) (e_h xE ++ [(t, (p, None, List.length tr))]) (e_s xE), xQ, m). split; [split; cbn [fst snd]; [|split; [|split]]|].
    - unfold cli. rewrite tag1. apply Inv_cli_neutral; [repeat split|exact HI].
    - unfold cli. rewrite tag1. apply InvE_retire; exact HE.
    - unfold cli. rewrite tag1. apply InvQ_ev with (g := g); auto. discriminate.
    - eapply InvM_gen with (g := g); [reflexivity|reflexivity|lia| |exact HM]. intros q e0 k1 He. left. eapply ent_snoc_none; eauto.
    - split; [apply frame4; [apply frame_refl|apply frameE_snoc|apply frameQ_refl]|].
      unfold view4, view, viewE. cbn [fst snd e_h e_s]. rewrite gmine_app, gmine_cons_same, Hm, Hv1, Hs, HvQ. cbn. apply Hk.
  Qed.

  Lemma safe4_emit_retires {R} ps : forall ents es l1 (k : prog R) Q,
    (forall ents', map fst ents' = ps -> safe4 t k (l1, (map fresh_ent (ents ++ ents'), es), clq) Q) ->
    safe4 t (emit_retires ps k) (l1, (map fresh_ent ents, es), clq) Q.
  Proof.
    induction ps as [|p r IH]; intros ents es l1 k Q Hk; cbn [emit_retires].
    - specialize (Hk [] eq_refl). rewrite app_nil_r in Hk. exact Hk.
    - apply safe4_retire_ev. intros k0.
      change (safe4 t (emit_retires r k) (l1, (map fresh_ent ents ++ map fresh_ent [(p, k0)], es), clq) Q).
      rewrite <- map_app. apply IH. intros ents' E. rewrite <- app_assoc. apply Hk. cbn. rewrite E. reflexivity.
  Qed.

  Lemma safe4_push_all e ents : forall es l1 (Q : bool -> L4 -> Prop),
    ~ holder (l_w l1) ->
    (forall w' es', ~ holder w' -> Q true (set_w l1 w', ([], es'), clq)) -> (forall l', Q false l') ->
    safe4 t (push_all_t sfuel cap cnt e (map fst ents)) (l1, (map (loaded_ent e) ents, es), clq) Q.
  Proof.
    induction ents as [|[p k] r IH]; intros es l1 Q Hn HT HF; cbn [push_all_t map fst].
    - cbn. rewrite <- (set_w_same l1). apply HT. exact Hn.
    - apply safe4_bind. cbn [loaded_ent fst snd].
      apply (safe4_push N sfuel cap cnt t Ht); [exact Hn| |intros l'; cbv beta iota; apply HF].
      intros w' es' Hn'. cbv beta iota. apply IH; [exact Hn'| |exact HF].
      intros w'' es'' Hn''. cbn [set_w]. apply HT. exact Hn''.
  Qed.

  Definition Between4 (s : lst) (l : L4) : Prop := IdleS s (fst (fst l)) /\ (exists es, snd (fst l) = ([], es)) /\ snd l = clq.

  Lemma safe4_gpt_retire s ps tail l (Q : bool -> L4 -> Prop) :
    (tail = [] \/ exists name, tail = cli name [] /\ neutral (EvCli name [])) ->
    Between4 s l -> (forall l', Between4 s l' -> Q true l') -> (forall l', Q false l') ->
    safe4 t (gpt_retire sfuel cap cnt ps tail) l Q.
  Proof.
    intros Htail (HI & (es & Hl) & Hq) HT HF. destruct l as [[l1 lE] lq]. cbn [fst snd] in *. subst lE lq. unfold gpt_retire.
    change (@nil hent) with (map fresh_ent []). apply safe4_emit_retires. intros ents Eps. cbn [app].
    cbn [Conc.safe]. intros g [[[x1 xE] xQ] m] tr (HInv & HE & HQc & HM) Hv.
    unfold view4, view, viewE in Hv. cbn [fst snd] in *. getv Hv Hv1 Hm Hs HvQ. unfold a_epoch_ld. cbn [fst snd vz].
    exists (x1, mkE (e_buf xE) (gset t (g_epoch g) (e_h xE)) (e_s xE), xQ, m). split; [split; cbn [fst snd]; [|split; [|split]]|].
    - unfold acc. rewrite tag1. apply Inv_acc with (g := g); auto.
    - apply InvE_load; exact HE.
    - unfold acc. rewrite tag1. apply InvQ_acc with (g := g); auto.
    - eapply InvM_gen with (g := g); [reflexivity|reflexivity|lia| |exact HM]. intros q e0 k1 He.
      destruct (ent_gset _ _ _ _ _ _ He) as [X|X]; [left; exact X|right; lia].
    - split; [apply frame4; [apply frame_refl|apply frameE_set|apply frameQ_refl]|].
      unfold view4, view, viewE. cbn [fst snd e_h e_s]. rewrite gmine_gset_same, Hm, map_set_ep, Hv1, Hs, HvQ.
      apply safe4_bind. rewrite <- Eps.
      assert (Hnh : ~ holder (l_w l1)) by (destruct HI as ((_ & _ & _ & _ & ->) & _); intros []).
      apply safe4_push_all; [exact Hnh| |intros l'; cbv beta iota; apply HF].
      intros w' es' Hn'. cbv beta iota.
      cbn [Conc.safe]. intros g2 [[[y1 yE] yQ] m2] tr2 (HInv2 & HE2 & HQ2 & HM2) Hv2.
      unfold view4, view, viewE in Hv2. cbn [fst snd] in *. getv Hv2 Hv21 Hm2 Hs2 HvQ2.
      exists (updA y1 t (set_w (y1 t) WIdle), yE, yQ, m2).
      assert (Hres : Inv g2 (updA y1 t (set_w (y1 t) WIdle)) tr2) by (apply step_reset; [exact HInv2|rewrite Hv21; exact Hn']).
      split; [split; cbn [fst snd]; [|split; [|split]]|].
      + destruct Htail as [->|(name & -> & Hneu)].
        * cbn. rewrite app_nil_r. exact Hres.
        * unfold cli. rewrite tag1. apply Inv_cli_neutral; assumption.
      + apply InvE_keep with (g := g2); auto.
      + destruct Htail as [->|(name & -> & Hneu)].
        * cbn. rewrite app_nil_r. exact HQ2.
        * unfold cli. rewrite tag1. apply InvQ_ev with (g := g2); auto. intros X. destruct Hneu as (Y & _). congruence.
      + apply InvM_keep with (g := g2); auto; cbn; lia.
      + split; [apply frame4; [apply frame_updA|apply frameE_refl|apply frameQ_refl]|].
        unfold view4, view, viewE. cbn [fst snd]. rewrite updA_same, Hv21, Hm2, Hs2, HvQ2. cbn [Conc.safe set_w].
        apply HT. split; [cbn [fst]; apply (IdleS_set_w s l1); exact HI|]. split; [exists es'; reflexivity|reflexivity].
  Qed.

  Lemma safe4_gpt_sync s l (Q : bool -> L4 -> Prop) :
    Between4 s l -> (forall l', Between4 s l' -> Q true l') -> (forall l', Q false l') ->
    safe4 t (gpt_sync sfuel) l Q.
  Proof.
    intros (HI & (es & Hl) & Hq) HT HF. destruct l as [[l1 lE] lq]. cbn [fst snd] in *. subst lE lq. unfold gpt_sync.
    cbn [Conc.safe]. intros g [[[x1 xE] xQ] m] tr (HInv & HE & HQc & HM) Hv.
    unfold view4, view, viewE in Hv. cbn [fst snd] in *. getv Hv Hv1 Hm Hs HvQ.
    assert (Hw : l_w l1 = WIdle) by (destruct HI as ((_ & _ & _ & _ & X) & _); exact X).
    set (n := List.length tr).
    exists (updA x1 t (set_w (set_sm l1 (Some n)) (WStart n)), xE, xQ, m). split; [split; cbn [fst snd]; [|split; [|split]]|].
    - unfold cli. rewrite tag1. eapply step_ev_begin; eauto; try reflexivity.
      + rewrite Hv1, Hw; intros [].
      + rewrite Hv1; reflexivity.
      + left. rewrite Hv1. repeat split.
    - apply InvE_keep with (g := g); auto.
    - unfold cli. rewrite tag1. apply InvQ_ev with (g := g); auto. discriminate.
    - apply InvM_keep with (g := g); auto; cbn; lia.
    - split; [apply frame4; [apply frame_updA|apply frameE_refl|apply frameQ_refl]|].
      unfold view4, view, viewE. cbn [fst snd]. rewrite updA_same, Hm, Hs, HvQ.
      apply safe4_bind. apply (safe4_synchronize N sfuel t Ht); [intros []| |intros l'; cbv beta iota; apply HF].
      intros i' n' _ Hsm. cbv beta iota. cbn [set_w].
      assert (Hni : (n <= i')%nat) by (apply Hsm; reflexivity).
      clearbody n. clear g x1 xE xQ m tr HInv HE HQc HM Hv1 Hm Hs HvQ.
      cbn [Conc.safe]. intros g [[[x1 xE] xQ] m] tr (HInv & HE & HQc & HM) Hv.
      unfold view4, view, viewE in Hv. cbn [fst snd] in *. getv Hv Hv1 Hm Hs HvQ.
      exists (updA x1 t (set_w (x1 t) WIdle), xE, xQ, m). split; [split; cbn [fst snd]; [|split; [|split]]|].
      + unfold cli. rewrite tag1. eapply step_ev_sync_end with (i := n) (i' := i'); eauto; rewrite Hv1; reflexivity.
      + apply InvE_keep with (g := g); auto.
      + unfold cli. rewrite tag1. apply InvQ_ev with (g := g); auto. discriminate.
      + apply InvM_keep with (g := g); auto; cbn; lia.
      + split; [apply frame4; [apply frame_updA|apply frameE_refl|apply frameQ_refl]|].
        unfold view4, view, viewE. cbn [fst snd]. rewrite updA_same, Hv1, Hm, Hs, HvQ. cbn [Conc.safe set_w].
        apply HT. split; [|split; [eexists; reflexivity|reflexivity]]. cbn [fst].
        destruct HI as ((H1 & H2 & H3 & H4 & H5) & H6). split; [repeat split; cbn; auto|exact H6].
  Qed.

  Definition QT4 : option lst -> L4 -> Prop := fun r l' => match r with Some s' => Between4 s' l' | None => True end.

  Lemma safe4_run_top s o l : Between4 s l -> safe4 t (run_top sfuel cap cnt t s o) l QT4.
  Proof.
    intros HB. destruct o as [o|ps]; cbn [run_top].
    - assert (Hcore : core_op o = true -> safe4 t (run_op 2 sfuel t s o) l QT4).
      { intros Hc. destruct l as [[l1 lE] lq]. destruct HB as (HI & (es & Hl) & Hq). cbn [fst snd] in *. subst lE lq.
        eapply Conc.safe_weaken; [|apply safe_lift4; [exact Ht|apply core_run_op; exact Hc|apply safe_run_op; exact HI]].
        intros [s'|] [[l1' lE'] lq'] (HQ1 & HQ2 & HQ3); cbn [fst snd QT4] in *; [|exact I].
        split; [exact HQ1|]. split; [exists es; exact HQ2|exact HQ3]. }
      destruct o; try (apply Hcore; reflexivity).
      + destruct (my_depth s) eqn:Ed; [|cbn; exact HB].
        apply safe4_bind. apply safe4_gpt_sync with (s := s); [exact HB| |intros; exact I]. intros l' HB'. cbn. exact HB'.
      + destruct (my_depth s) eqn:Ed; [|cbn; exact HB].
        apply safe4_bind. apply safe4_gpt_retire with (s := s); [left; reflexivity|exact HB| |intros; exact I]. intros l' HB'. cbn. exact HB'.
    - destruct (my_depth s) eqn:Ed; [|cbn; exact HB]. destruct ps as [|p r]; [cbn; exact HB|].
      apply safe4_bind. apply safe4_gpt_retire with (s := s); [right; exists "batch_end"; split; [reflexivity|repeat split]|exact HB| |intros; exact I].
      intros l' HB'. cbn. exact HB'.
  Qed.

  (** "done" and the step by which join sees the termination *)
  Lemma safe4_done l1 es : l_ev l1 = O ->
    safe4 t (Emit (cli "done" []) (Act a_done_inc (fun _ => Ret tt))) (l1, ([], es), clq) (@Conc.QTrue L4).
  Proof.
    intros Hev. cbn [Conc.safe]. intros g [[[x1 xE] xQ] m] tr (HInv & HE & HQc & HM) Hv.
    unfold view4, view, viewE in Hv. cbn [fst snd] in *. getv Hv Hv1 Hm Hs HvQ.
    exists (x1, xE, q_with_d xQ t, m). split; [split; cbn [fst snd]; [|split; [|split]]|].
    - unfold cli. rewrite tag1. apply Inv_cli_neutral; [repeat split|exact HInv].
    - apply InvE_keep with (g := g); auto.
    - unfold cli. rewrite tag1. apply InvQ_done; [reflexivity| |exact HQc]. apply (ev0_closed g x1 tr t HInv). rewrite Hv1; exact Hev.
    - apply InvM_keep with (g := g); auto; cbn; lia.
    - split; [apply frame4; [apply frame_refl|apply frameE_refl|apply frameQ_d]|].
      unfold view4, view, viewE, viewQ. cbn [fst snd q_with_d q_d q_i q_j]. rewrite Nat.eqb_refl, Hv1, Hm, Hs.
      unfold viewQ in HvQ. assert (Hi : q_i xQ t = false) by (injection HvQ; auto). assert (Hj : q_j xQ t = false) by (injection HvQ; auto).
      rewrite Hi, Hj. clear g x1 xE xQ m tr HInv HE HQc HM Hv1 Hm Hs HvQ Hi Hj.
      cbn [Conc.safe]. intros g [[[x1 xE] xQ] m] tr (HInv & HE & HQc & HM) Hv.
      unfold view4, view, viewE, viewQ in Hv. cbn [fst snd] in *. getv Hv Hv1 Hm Hs HvQ. unfold a_done_inc. cbn [fst snd].
      exists (x1, xE, q_with_i xQ t, m). split; [split; cbn [fst snd]; [|split; [|split]]|].
      + unfold acc. rewrite tag1. apply Inv_acc with (g := g); auto.
      + apply InvE_keep with (g := g); auto.
      + unfold acc. rewrite tag1. apply InvQ_inc; auto; injection HvQ; auto.
      + apply InvM_keep with (g := g); auto. cbn; lia.
      + split; [apply frame4; [apply frame_refl|apply frameE_refl|apply frameQ_i]|exact I].
  Qed.

  Lemma safe4_run_tops os : forall s l, Between4 s l -> safe4 t (run_tops sfuel cap cnt t s os) l (@Conc.QTrue L4).
  Proof.
    induction os as [|o r IH]; intros s l HB; cbn [run_tops].
    - apply safe4_bind. destruct l as [[l1 lE] lq]. destruct HB as (HI & (es & Hl) & Hq). cbn [fst snd] in *. subst lE lq.
      eapply Conc.safe_weaken; [|apply safe_lift4; [exact Ht|apply core_finish|apply safe_finish_ev; exact HI]].
      intros [] [[l1' lE'] lq'] ((H1 & H2) & H3 & H4). cbn [fst snd] in *. subst lE' lq'. apply safe4_done. exact H1.
    - apply safe4_bind. eapply Conc.safe_weaken; [|apply safe4_run_top; exact HB].
      intros [s'|] l' HQ; cbn [QT4] in HQ.
      + apply IH; exact HQ.
      + apply safe4_emit_neutral; [repeat split|exact I].
  Qed.

  Lemma safe4_thread os : safe4 t (tthread_prog sfuel cap cnt t os) (l0, ([], ENone), clq) (@Conc.QTrue L4).
  Proof.
    unfold tthread_prog. apply safe4_act_plain.
    - intros g. cbv beta delta [a_begin acc]. cbn. repeat (split; [reflexivity|]). eexists _, _, _; reflexivity.
    - intros _. apply safe4_run_tops. split; [cbn; split; [repeat split|reflexivity]|]. split; [exists ENone; reflexivity|reflexivity].
  Qed.
  End Client.
End Prod4b.

Lemma InvM_ents g a a' m tr : (forall p e k, ent a' p e k -> ent a p e k) -> InvM g a m tr -> InvM g a' m tr.
Proof.
  intros H [H0 H1]. constructor; [exact H0|]. intros n i Hm. destruct (H1 n i Hm) as (A & B & C & D).
  split; [exact A|]. split; [exact B|]. split; [exact C|]. intros p e k He Hle. apply (D p e k); [apply H; exact He|exact Hle].
Qed.

(** ** the reclamation thread (thread N) and the destructor (thread N+1) *)
Section Prod4c.
  Variable N : nat.
  Notation safe4 := (@Conc.safe G V ev Aux4 L4 view4 (Inv4 N)).
  Variables (sfuel : nat) (cap : Z) (cnt : bool).

  Ltac getv Hv Hv1 Hm Hs HvQ :=
    pose proof (f_equal (fun x : L4 => fst (fst x)) Hv) as Hv1; pose proof (f_equal (fun x : L4 => fst (snd (fst x))) Hv) as Hm;
    pose proof (f_equal (fun x : L4 => snd (snd (fst x))) Hv) as Hs; pose proof (f_equal (fun x : L4 => snd x) Hv) as HvQ;
    cbn [fst snd] in Hv1, Hm, Hs, HvQ; clear Hv.

  Ltac keep4 g x1 xE xQ m :=
    exists (x1, xE, xQ, m); split; [split; cbn [fst snd]; [unfold acc; rewrite tag1; apply Inv_acc with (g := g); auto|
      split; [apply InvE_keep with (g := g); auto|split; [unfold acc; rewrite tag1; apply InvQ_acc with (g := g); auto|apply InvM_keep with (g := g); auto; cbn; lia]]]|
      split; [intros ? ?; reflexivity|]].

  (** pop_front() after the disposal *)
  Lemma safe4_popfront {R} t l1 es lq (k : prog R) Q :
    safe4 t k (l1, ([], es), lq) Q -> safe4 t (Act a_buf_popfront (fun _ => k)) (l1, ([], es), lq) Q.
  Proof.
    intros Hk. cbn [Conc.safe]. intros g [[[x1 xE] xQ] m] tr (HI & HE & HQc & HM) Hv.
    unfold view4, view, viewE in Hv. cbn [fst snd] in *. getv Hv Hv1 Hm Hs HvQ. unfold a_buf_popfront. cbn [fst snd].
    exists (x1, mkE (tl (e_buf xE)) (e_h xE) (e_s xE), xQ, m). split; [split; cbn [fst snd]; [|split; [|split]]|].
    - unfold acc. rewrite tag1. apply Inv_acc with (g := g); auto.
    - apply InvE_popfront; exact HE.
    - unfold acc. rewrite tag1. apply InvQ_acc with (g := g); auto.
    - eapply InvM_gen with (g := g); [reflexivity|reflexivity|cbn; lia| |exact HM]. intros q e0 k1 He. left. eapply ent_popfront; eauto.
    - split; [intros ? ?; reflexivity|]. unfold view4, view, viewE. cbn [fst snd e_h e_s]. rewrite Hv1, Hm, Hs, HvQ. exact Hk.
  Qed.

  Lemma safe4_drain_normal f : forall n i l1 lq (Q : bool -> L4 -> Prop),
    l_w l1 = WFin i -> Q true (l1, ([], EIn i n), lq) -> (forall l', Q false l') ->
    safe4 N (drain f n false) (l1, ([], EIn i n), lq) Q.
  Proof.
    induction f as [|f IH]; intros n i l1 lq Q Hw HT HF; cbn [drain]; [apply HF|].
    cbn [Conc.safe]. intros g [[[x1 xE] xQ] m] tr (HI & HE & HQc & HM) Hv.
    unfold view4, view, viewE in Hv. cbn [fst snd] in *. getv Hv Hv1 Hm Hs HvQ. unfold a_buf_front.
    destruct (g_buf g) as [|[p e] r] eqn:Eb; cbn [fst snd vp].
    - keep4 g x1 xE xQ m. unfold view4, view, viewE. cbn [fst snd]. rewrite Hv1, Hm, Hs, HvQ. exact HT.
    - rewrite orb_false_r. destruct (e <=? n) eqn:Ele.
      + apply Z.leb_le in Ele.
        destruct (InvE_peek g xE tr N p e r [(N, EvAcc KLd obj_bfront true)] Eb HE) as (k & Hin & HE').
        assert (Hki : (k < i)%nat).
        { destruct (EB _ _ _ HE p e k Hin) as (_ & _ & X). eapply X; eauto. }
        exists (x1, mkE (e_buf xE) ((N, (p, Some e, k)) :: e_h xE) (e_s xE), xQ, m). split; [split; cbn [fst snd]; [|split; [|split]]|].
        * unfold acc. rewrite tag1. apply Inv_acc with (g := g); auto.
        * exact HE'.
        * unfold acc. rewrite tag1. apply InvQ_acc with (g := g); auto.
        * eapply InvM_gen with (g := g); [reflexivity|reflexivity|lia| |exact HM]. intros q e0 k1 He. left. eapply ent_peek; eauto.
        * split; [apply frame4; [apply frame_refl|apply frameE_cons|apply frameQ_refl]|].
          unfold view4, view, viewE. cbn [fst snd e_h e_s]. rewrite gmine_cons_same, Hv1, Hm, Hs, HvQ.
          eapply safe4_dispose; [exact Hw|exact Hki|]. apply safe4_popfront. apply IH; auto.
      + keep4 g x1 xE xQ m. unfold view4, view, viewE. cbn [fst snd]. rewrite Hv1, Hm, Hs, HvQ. exact HT.
  Qed.

  Definition jq : LQ := (false, false, true).

  Lemma safe4_drain_quit f : forall n l1 es (Q : bool -> L4 -> Prop),
    ~ holder (l_w l1) -> (forall w', ~ holder w' -> Q true (set_w l1 w', ([], es), jq)) -> (forall l', Q false l') ->
    safe4 N (drain f n true) (l1, ([], es), jq) Q.
  Proof.
    induction f as [|f IH]; intros n l1 es Q Hn HT HF; cbn [drain]; [apply HF|].
    cbn [Conc.safe]. intros g [[[x1 xE] xQ] m] tr (HI & HE & HQc & HM) Hv.
    unfold view4, view, viewE in Hv. cbn [fst snd] in *. getv Hv Hv1 Hm Hs HvQ. unfold a_buf_front.
    destruct (g_buf g) as [|[p e] r] eqn:Eb; cbn [fst snd vp].
    - keep4 g x1 xE xQ m. unfold view4, view, viewE. cbn [fst snd]. rewrite Hv1, Hm, Hs, HvQ. rewrite <- (set_w_same l1). apply HT. exact Hn.
    - rewrite orb_true_r.
      destruct (InvE_peek g xE tr N p e r [(N, EvAcc KLd obj_bfront true)] Eb HE) as (k & Hin & HE').
      assert (Hall : alld N xQ) by (apply (QM _ _ _ _ HQc N); unfold viewQ in HvQ; injection HvQ; auto).
      assert (Hcl : closed tr (List.length tr)) by (eapply all_closed; eauto).
      assert (Hki : (k < List.length tr)%nat).
      { destruct (EB _ _ _ HE p e k Hin) as ((w & Hat) & _). eapply at_lt; eauto. }
      exists (updA x1 N (set_w (x1 N) (WFin (List.length tr))), mkE (e_buf xE) ((N, (p, Some e, k)) :: e_h xE) (e_s xE), xQ, m).
      split; [split; cbn [fst snd]; [|split; [|split]]|].
      + unfold acc. rewrite tag1. apply step_fin with (g := g); auto. rewrite Hv1; exact Hn.
      + exact HE'.
      + unfold acc. rewrite tag1. apply InvQ_acc with (g := g); auto.
      + eapply InvM_gen with (g := g); [reflexivity|reflexivity|lia| |exact HM]. intros q e0 k1 He. left. eapply ent_peek; eauto.
      + split; [apply frame4; [apply frame_updA|apply frameE_cons|apply frameQ_refl]|].
        unfold view4, view, viewE. cbn [fst snd e_h e_s]. rewrite updA_same, gmine_cons_same, Hv1, Hm, Hs, HvQ.
        eapply safe4_dispose; [reflexivity|exact Hki|]. apply safe4_popfront. apply IH; [intros []| |exact HF].
        intros w' Hw'. cbn [set_w]. apply HT. exact Hw'.
  Qed.

  Lemma safe4_take f : forall l1 es (Q : option (Z * Z) -> L4 -> Prop),
    ~ holder (l_w l1) ->
    (forall n i, Q (Some (n, 0)) (set_w l1 (WFin i), ([], EIn i n), clq)) ->
    (forall n, Q (Some (n, 1)) (l1, ([], es), jq)) -> (forall l', Q None l') ->
    safe4 N (take_task f) (l1, ([], es), clq) Q.
  Proof.
    induction f as [|f IH]; intros l1 es Q Hn H0 H1 HN; cbn [take_task]; [apply HN|].
    cbn [Conc.safe]. intros g [[[x1 xE] xQ] m] tr (HI & HE & HQc & HM) Hv.
    unfold view4, view, viewE in Hv. cbn [fst snd] in *. getv Hv Hv1 Hm Hs HvQ. unfold a_take.
    destruct (g_task g) as [n|] eqn:Et; cbn [fst snd vp].
    - destruct (g_quit g) eqn:Eq; cbn [Z.b2z].
      + exists (x1, xE, q_with_j xQ N, m). split; [split; cbn [fst snd]; [|split; [|split]]|].
        * unfold acc. rewrite tag1. apply Inv_acc with (g := g); auto.
        * apply InvE_keep with (g := g); auto.
        * unfold acc. rewrite tag1. apply InvQ_joined with (g := g); auto. apply (QQ _ _ _ _ HQc Eq).
        * rewrite <- Eq. apply InvM_take; exact HM.
        * split; [apply frame4; [apply frame_refl|apply frameE_refl|apply frameQ_j]|].
          unfold view4, view, viewE, viewQ. cbn [fst snd q_with_j q_d q_i q_j]. rewrite Nat.eqb_refl, Hv1, Hm, Hs.
          unfold viewQ in HvQ. assert (Hd : q_d xQ N = false) by (injection HvQ; auto). assert (Hi : q_i xQ N = false) by (injection HvQ; auto).
          rewrite Hd, Hi. apply H1.
      + destruct (M0 _ _ _ _ HM n Et) as [X|(i & Hmi)]; [congruence|].
        destruct (M1 _ _ _ _ HM n i Hmi) as (A & B & C & D).
        exists (updA x1 N (set_w (x1 N) (WFin i)), mkE (e_buf xE) (e_h xE) (fun w => if Nat.eqb w N then EIn i n else e_s xE w), xQ, m).
        split; [split; cbn [fst snd]; [|split; [|split]]|].
        * unfold acc. rewrite tag1. apply step_fin with (g := g); auto. rewrite Hv1; exact Hn.
        * apply InvE_adopt with (g := g); auto.
        * unfold acc. rewrite tag1. rewrite <- Eq. apply InvQ_mail; [left; reflexivity|exact HQc].
        * rewrite <- Eq. apply InvM_ents with (a := xE); [intros p e k He; exact He|]. apply InvM_take; exact HM.
        * split; [apply frame4; [apply frame_updA|apply frameE_sync|apply frameQ_refl]|].
          unfold view4, view, viewE. cbn [fst snd e_h e_s]. rewrite updA_same, Nat.eqb_refl, Hv1, Hm, HvQ. apply H0.
    - keep4 g x1 xE xQ m. unfold view4, view, viewE. cbn [fst snd]. rewrite Hv1, Hm, Hs, HvQ. apply IH; auto.
  Qed.

  Lemma safe4_disposer rounds fuel : forall l1 es, ~ holder (l_w l1) ->
    safe4 N (disposer rounds fuel) (l1, ([], es), clq) (@Conc.QTrue L4).
  Proof.
    induction rounds as [|r IH]; intros l1 es Hn; cbn [disposer]; [exact I|].
    cbn [Conc.safe]. intros g [[[x1 xE] xQ] m] tr (HI & HE & HQc & HM) Hv.
    unfold view4, view, viewE in Hv. cbn [fst snd] in *. getv Hv Hv1 Hm Hs HvQ. unfold a_set_ready. cbn [fst snd].
    exists (x1, xE, xQ, m). split; [split; cbn [fst snd]; [|split; [|split]]|].
    - unfold acc. rewrite tag1. apply Inv_acc with (g := g); auto.
    - apply InvE_keep with (g := g); auto.
    - unfold acc. rewrite tag1. apply InvQ_mail; [left; reflexivity|exact HQc].
    - apply InvM_keep with (g := g); auto; cbn; lia.
    - split; [intros ? ?; reflexivity|]. unfold view4, view, viewE. cbn [fst snd]. rewrite Hv1, Hm, Hs, HvQ.
      apply safe4_bind. apply safe4_take; [exact Hn| | |intros; exact I].
      + intros n i. cbv beta iota. cbn [Z.eqb negb]. apply safe4_bind.
        apply safe4_drain_normal; [reflexivity| |intros; exact I]. cbv beta iota. apply IH. intros [].
      + intros n. cbv beta iota. cbn [Z.eqb negb]. apply safe4_bind.
        apply safe4_drain_quit; [exact Hn| |intros; exact I]. intros w' Hw'. cbv beta iota.
        apply safe4_emit_neutral; [repeat split|exact I].
  Qed.

  Lemma safe4_join f : forall l1 es (Q : bool -> L4 -> Prop),
    Q true (l1, ([], es), jq) -> (forall l', Q false l') -> safe4 (S N) (join_clients f N) (l1, ([], es), clq) Q.
  Proof.
    induction f as [|f IH]; intros l1 es Q HT HF; cbn [join_clients]; [apply HF|].
    cbn [Conc.safe]. intros g [[[x1 xE] xQ] m] tr (HI & HE & HQc & HM) Hv.
    unfold view4, view, viewE in Hv. cbn [fst snd] in *. getv Hv Hv1 Hm Hs HvQ. unfold a_join. cbn [fst snd vz].
    destruct (Nat.eqb_spec (g_ndone g) N) as [E|E]; cbn [Z.eqb].
    - exists (x1, xE, q_with_j xQ (S N), m). split; [split; cbn [fst snd]; [|split; [|split]]|].
      + unfold acc. rewrite tag1. apply Inv_acc with (g := g); auto.
      + apply InvE_keep with (g := g); auto.
      + unfold acc. rewrite tag1. apply InvQ_joined with (g := g); auto. eapply join_alld; eauto.
      + apply InvM_keep with (g := g); auto; cbn; lia.
      + split; [apply frame4; [apply frame_refl|apply frameE_refl|apply frameQ_j]|].
        unfold view4, view, viewE, viewQ. cbn [fst snd q_with_j q_d q_i q_j]. rewrite Nat.eqb_refl, Hv1, Hm, Hs.
        unfold viewQ in HvQ. assert (Hd : q_d xQ (S N) = false) by (injection HvQ; auto). assert (Hi : q_i xQ (S N) = false) by (injection HvQ; auto).
        rewrite Hd, Hi. exact HT.
    - keep4 g x1 xE xQ m. unfold view4, view, viewE. cbn [fst snd]. rewrite Hv1, Hm, Hs, HvQ. apply IH; auto.
  Qed.

  Lemma safe4_stop f : forall l1 es (Q : bool -> L4 -> Prop),
    (forall r, Q r (l1, ([], es), jq)) -> safe4 (S N) (handoff f max_epoch true) (l1, ([], es), jq) Q.
  Proof.
    induction f as [|f IH]; intros l1 es Q HQ; cbn [handoff]; [apply HQ|].
    cbn [Conc.safe]. intros g [[[x1 xE] xQ] m] tr (HI & HE & HQc & HM) Hv.
    unfold view4, view, viewE in Hv. cbn [fst snd] in *. getv Hv Hv1 Hm Hs HvQ. unfold a_post.
    destruct (g_ready g); cbn [fst snd vz orb].
    - exists (x1, xE, xQ, m). split; [split; cbn [fst snd]; [|split; [|split]]|].
      + unfold acc. rewrite tag1. apply Inv_acc with (g := g); auto.
      + apply InvE_keep with (g := g); auto.
      + unfold acc. rewrite tag1. apply InvQ_mail; [right; apply (QM _ _ _ _ HQc (S N)); unfold viewQ in HvQ; injection HvQ; auto|exact HQc].
      + apply InvM_stop; exact HM.
      + split; [intros ? ?; reflexivity|]. unfold view4, view, viewE. cbn [fst snd]. rewrite Hv1, Hm, Hs, HvQ. apply HQ.
    - keep4 g x1 xE xQ m. unfold view4, view, viewE. cbn [fst snd]. rewrite Hv1, Hm, Hs, HvQ. apply IH; auto.
  Qed.

  Lemma safe4_destructor fuel l1 es : safe4 (S N) (destructor fuel N) (l1, ([], es), clq) (@Conc.QTrue L4).
  Proof.
    unfold destructor. apply safe4_bind. apply safe4_join; [|intros; exact I].
    cbv beta iota. apply safe4_bind. apply safe4_stop. intros [|]; cbv beta iota; [|exact I].
    apply safe4_emit_neutral; [repeat split|exact I].
  Qed.
End Prod4c.

Lemma filter_false_len l : List.length (filter (fun _ : nat => false) l) = O.
Proof. induction l; cbn; auto. Qed.

Lemma tinit4_ok sfuel rounds cap cnt ths :
  Conc.cfg_ok view4 (Inv4 (List.length ths)) (tinit_cfg sfuel rounds cap cnt ths).
Proof.
  exists (fun _ => l0, mkE [] [] (fun _ => ENone), mkQ (fun _ => false) (fun _ => false) (fun _ => false), None). split.
  - cbn [tinit_cfg Conc.shared Conc.trace]. split; [|split; [|split]]; cbn [fst snd].
    + split; [|split; [|split]].
      * constructor; cbn; try discriminate; try contradiction; auto.
        -- intros m _. exists false. reflexivity.
        -- intros r. repeat split; auto.
      * constructor; cbn; try contradiction; try (intros w w' []).
        exists false. split; [reflexivity|discriminate].
      * constructor; cbn; [discriminate|intros; exact I].
      * constructor; cbn; try discriminate.
        -- intros r s (e & H & _). destruct s; discriminate.
        -- intros w i j (e & H & _). destruct i; discriminate.
        -- intros w p d (e & H & _). destruct d; discriminate.
    + constructor; cbn; try contradiction; try discriminate. reflexivity.
    + constructor; cbn [q_d q_i q_j tinit g_ndone g_quit].
      * split; [rewrite filter_false_len; reflexivity|intros; discriminate].
      * intros X; discriminate.
      * intros t0 X; discriminate.
      * intros t0 X; discriminate.
      * intros t0 s (e & H & _). destruct s; discriminate.
    + constructor; cbn [tinit g_task]; [intros n X; discriminate|intros n i X; discriminate].
  - intros t p Hp. cbn [tinit_cfg Conc.threads] in Hp.
    destruct (Nat.lt_ge_cases t (List.length ths)) as [Hlt|Hge].
    + rewrite nth_error_app1 in Hp by (rewrite map_length, number_length; exact Hlt). rewrite nth_error_map in Hp.
      destruct (nth_error (number O ths) t) as [x|] eqn:E; [|discriminate]. inversion Hp; subst p.
      apply nth_error_number in E. cbn in E. rewrite E. unfold view4, view, viewE, viewQ. cbn. apply safe4_thread; assumption.
    + rewrite nth_error_app2 in Hp by (rewrite map_length, number_length; exact Hge). rewrite map_length, number_length in Hp.
      destruct (t - List.length ths)%nat as [|[|k]] eqn:Ek; cbn in Hp; try (destruct k; discriminate).
      * inversion Hp; subst p. assert (t = List.length ths) by lia. subst t. unfold view4, view, viewE, viewQ. cbn. apply safe4_disposer. intros [].
      * inversion Hp; subst p. assert (t = S (List.length ths)) by lia. subst t. unfold view4, view, viewE, viewQ. cbn. apply safe4_destructor.
Qed.

(** ** theorems for every schedule: general_threaded *)
Theorem gpt_dispose_safe_all sfuel rounds cap cnt ths c :
  Conc.reach (tinit_cfg sfuel rounds cap cnt ths) c -> dispose_safe (Conc.trace c).
Proof.
  intros Hr. destruct (Conc.reach_Inv (tinit4_ok sfuel rounds cap cnt ths) Hr) as (a & (_ & _ & _ & I4) & _). apply (DS _ _ I4).
Qed.

Theorem gpt_synchronize_waits_all sfuel rounds cap cnt ths c :
  Conc.reach (tinit_cfg sfuel rounds cap cnt ths) c -> sync_waits (Conc.trace c).
Proof.
  intros Hr. destruct (Conc.reach_Inv (tinit4_ok sfuel rounds cap cnt ths) Hr) as (a & (_ & _ & _ & I4) & _). apply (SW _ _ I4).
Qed.
