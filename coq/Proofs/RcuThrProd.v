(** * general_threaded: grace-period safety for every schedule.  Product of the gp invariant, the epoch invariant, the
      join / quit component and the mailbox component (LV.Proofs.RcuThrQ). *)
From Coq Require Import ZArith List String Bool Lia PeanoNat.
From LV Require Import Base.Conc Base.Events Model.RcuGp Model.RcuBuf Model.RcuThreaded Proofs.RcuBits Proofs.RcuGpInv
  Proofs.RcuGpSteps Proofs.RcuGpWriter Proofs.RcuGpExtra Proofs.RcuGpSafe Proofs.RcuBufInv Proofs.RcuBufEpoch Proofs.RcuBufSafe
  Proofs.RcuBufProd Proofs.RcuThrInv Proofs.RcuThrGrace Proofs.RcuThrQ.
Import ListNotations.
Local Open Scope string_scope.
Local Open Scope list_scope.
Local Open Scope Z_scope.

Definition Aux4 := (Aux * AuxE * AuxQ * Mail)%type.
Definition L4 := (L * LE * LQ)%type.
Definition view4 (a : Aux4) (t : nat) : L4 :=
  (view (fst (fst (fst a))) t, viewE (snd (fst (fst a))) t, viewQ (snd (fst a)) t).

Section Prod4.
  Variable N : nat.

  Definition Inv4 (g : G) (a : Aux4) (tr : trace) : Prop :=
    Inv g (fst (fst (fst a))) tr /\ InvE g (snd (fst (fst a))) tr /\ InvQ N g (snd (fst a)) tr /\
    InvM g (snd (fst (fst a))) (snd a) tr.

  Notation safe4 := (@Conc.safe G V ev Aux4 L4 view4 Inv4).

  Lemma frame4 t x1 x1' xE xE' xQ xQ' m m' :
    Conc.frame view t x1 x1' -> Conc.frame viewE t xE xE' -> Conc.frame viewQ t xQ xQ' ->
    Conc.frame view4 t (x1, xE, xQ, m) (x1', xE', xQ', m').
  Proof. intros F1 F2 F3 t' H. unfold view4. cbn [fst snd]. rewrite (F1 t' H), (F2 t' H), (F3 t' H). reflexivity. Qed.

  Lemma frameQ_refl t a : Conc.frame viewQ t a a.
  Proof. intros ? ?; reflexivity. Qed.
  Lemma frameQ_d t a : Conc.frame viewQ t a (q_with_d a t).
  Proof. intros t' H. unfold viewQ. cbn. destruct (Nat.eqb_spec t' t); [contradiction|reflexivity]. Qed.
  Lemma frameQ_i t a : Conc.frame viewQ t a (q_with_i a t).
  Proof. intros t' H. unfold viewQ. cbn. destruct (Nat.eqb_spec t' t); [contradiction|reflexivity]. Qed.
  Lemma frameQ_j t a : Conc.frame viewQ t a (q_with_j a t).
  Proof. intros t' H. unfold viewQ. cbn. destruct (Nat.eqb_spec t' t); [contradiction|reflexivity]. Qed.

  Lemma safe4_bind {A B} t (p : prog A) (q : A -> prog B) Q l :
    safe4 t p l (fun r l' => safe4 t (q r) l' Q) -> safe4 t (bind p q) l Q.
  Proof. apply Conc.safe_bind. Qed.

  Ltac open4 g x1 xE xQ m tr HI HE HQ HM Hv1 Hm Hs Hd Hi Hj :=
    cbn [Conc.safe]; intros g [[[x1 xE] xQ] m] tr (HI & HE & HQ & HM) Hv;
    unfold view4, view, viewE, viewQ in Hv; cbn [fst snd] in *; injection Hv as Hv1 Hm Hs Hd Hi Hj.

  (** ** lifting programs of the gp core, for a client that is not done *)
  Lemma safe_lift4 {R} t (p : prog R) : (t < N)%nat -> core p -> forall l1 lE qi qj (Q1 : R -> L -> Prop),
    safe1 t p l1 Q1 -> safe4 t p (l1, lE, (false, qi, qj)) (fun r l' => Q1 r (fst (fst l')) /\ snd (fst l') = lE /\ snd l' = (false, qi, qj)).
  Proof.
    intros Ht. induction p as [r|es k IH|f k IH]; intros Hc l1 lE qi qj Q1 Hs; cbn [Conc.safe core] in *.
    - repeat split; auto.
    - destruct Hc as ((e & -> & Hp & Hdd) & Hk). intros g [[[x1 xE] xQ] m] tr (HI & HE & HQ & HM) Hv.
      unfold view4 in Hv. cbn [fst snd] in *. injection Hv as Hv1 HvE HvQ.
      destruct (Hs g x1 tr HI Hv1) as (x1' & H1 & H2 & H3).
      exists (x1', xE, xQ, m). split; [split; [exact H1|split; [apply InvE_keep with (g := g); auto|split]]|].
      + rewrite tag1. apply InvQ_ev with (g := g); auto; intros _; unfold viewQ in HvQ; injection HvQ as Hd _ _; auto.
      + apply InvM_keep with (g := g); auto. lia.
      + split; [apply frame4; [exact H2|apply frameE_refl|apply frameQ_refl]|].
        unfold view4. cbn [fst snd]. rewrite HvE, HvQ. apply IH; assumption.
    - destruct Hc as (Hf & Hk). intros g [[[x1 xE] xQ] m] tr (HI & HE & HQ & HM) Hv.
      unfold view4 in Hv. cbn [fst snd] in *. injection Hv as Hv1 HvE HvQ.
      destruct (Hs g x1 tr HI Hv1) as (x1' & H1 & H2 & H3). destruct (Hf g) as ((Eb & Ee & Eq & En & Et) & e & Ee' & Hp & Hdd).
      exists (x1', xE, xQ, m). split; [split; [exact H1|split; [apply InvE_keep with (g := g); auto|split]]|].
      + rewrite Ee', tag1. apply InvQ_ev with (g := g); auto; intros _; unfold viewQ in HvQ; injection HvQ as Hd _ _; auto.
      + apply InvM_keep with (g := g); auto. lia.
      + split; [apply frame4; [exact H2|apply frameE_refl|apply frameQ_refl]|].
        unfold view4. cbn [fst snd]. rewrite HvE, HvQ. apply IH; auto.
  Qed.

  (** an access that touches nothing any component looks at *)
  Lemma safe4_act_plain {R} t (f : act) (k : V -> prog R) l Q :
    (forall g, g_list (fst (fst (f g))) = g_list g /\ g_nrec (fst (fst (f g))) = g_nrec g /\ g_tid (fst (fst (f g))) = g_tid g /\
               g_acc (fst (fst (f g))) = g_acc g /\ g_lock (fst (fst (f g))) = g_lock g /\ g_ctl (fst (fst (f g))) = g_ctl g /\
               g_buf (fst (fst (f g))) = g_buf g /\ g_epoch (fst (fst (f g))) = g_epoch g /\
               g_quit (fst (fst (f g))) = g_quit g /\ g_ndone (fst (fst (f g))) = g_ndone g /\ g_task (fst (fst (f g))) = g_task g /\
               exists k0 o ok, snd (f g) = [EvAcc k0 o ok]) ->
    (forall v, safe4 t (k v) l Q) -> safe4 t (Act f k) l Q.
  Proof.
    intros Hf Hk. cbn [Conc.safe]. intros g [[[x1 xE] xQ] m] tr (HI & HE & HQ & HM) Hv. cbn [fst snd] in *.
    destruct (Hf g) as (F1 & F2 & F3 & F4 & F5 & F6 & F7 & F8 & F9 & F10 & F11 & k0 & o & ok & Ee).
    exists (x1, xE, xQ, m). rewrite Ee. split; [split; cbn [fst snd]; [rewrite tag1; apply Inv_acc with (g := g); auto|split; [apply InvE_keep with (g := g); auto|split]]|].
    - rewrite tag1. apply InvQ_acc with (g := g); auto.
    - apply InvM_keep with (g := g); auto. lia.
    - split; [intros ? ?; reflexivity|]. rewrite Hv. apply Hk.
  Qed.

  Ltac plain4 :=
    let g := fresh "g" in
    intros g; cbv beta delta [a_buf_size a_begin acc]; cbn; repeat (split; [reflexivity|]); eexists _, _, _; reflexivity.

  (** an event that is neutral for every component; not a "rlock 1" *)
  Lemma safe4_emit_neutral {R} t name args (k : prog R) l Q :
    neutral (EvCli name args) -> safe4 t k l Q -> safe4 t (Emit (cli name args) k) l Q.
  Proof.
    intros Hn H. cbn [Conc.safe]. intros g [[[x1 xE] xQ] m] tr (HI & HE & HQ & HM) Hv. cbn [fst snd] in *.
    exists (x1, xE, xQ, m). split; [split; cbn [fst snd]; [unfold cli; rewrite tag1; apply Inv_cli_neutral; assumption|split; [apply InvE_keep with (g := g); auto|split]]|].
    - unfold cli. rewrite tag1. apply InvQ_ev with (g := g); auto. intros X. destruct Hn as (Y & _). congruence.
    - apply InvM_keep with (g := g); auto. lia.
    - split; [intros ? ?; reflexivity|]. rewrite Hv. exact H.
  Qed.

  Variables (sfuel : nat) (cap : Z) (cnt : bool).

  (** "dispose p" of my first (ghost) hand entry, retired before the marker of my completed grace period *)
  Lemma safe4_dispose {R} t p oe k hs es i l1 lq (k0 : prog R) Q :
    l_w l1 = WFin i -> (k < i)%nat -> safe4 t k0 (l1, (hs, es), lq) Q ->
    safe4 t (Emit (cli "dispose" [p]) k0) (l1, ((p, oe, k) :: hs, es), lq) Q.
  Proof.
    intros Hw Hki Hk. cbn [Conc.safe]. intros g [[[x1 xE] xQ] m] tr (HI & HE & HQ & HM) Hv.
    unfold view4, view, viewE in Hv. cbn [fst snd] in *. injection Hv as Hv1 Hm Hs HvQ.
    assert (Hin : In (t, (p, oe, k)) (e_h xE)) by (apply gmine_in; rewrite Hm; left; reflexivity).
    destruct (hand_retired _ _ _ _ _ _ _ HE Hin) as (_ & w' & Hat).
    exists (x1, mkE (e_buf xE) (grmf t (e_h xE)) (e_s xE), xQ, m). split; [split; cbn [fst snd]; [|split; [|split]]|].
    - unfold cli. rewrite tag1. eapply step_ev_dispose_keep with (i := i); eauto; [rewrite Hv1; exact Hw|lia].
    - apply InvE_drop; exact HE.
    - unfold cli. rewrite tag1. apply InvQ_ev with (g := g); auto. discriminate.
    - eapply InvM_gen with (g := g); [reflexivity|reflexivity|lia| |exact HM]. intros q e0 k1 He. left. eapply ent_drop; eauto.
    - split; [apply frame4; [apply frame_refl|apply frameE_rmf|apply frameQ_refl]|].
      unfold view4, view, viewE. cbn [fst snd e_h e_s]. rewrite (gmine_grmf_head _ _ _ _ Hm), Hv1, Hs, HvQ. exact Hk.
  Qed.

  Definition clq : LQ := (false, false, false).

  (** the hand-off of general_threaded::synchronize, by a client whose grace period is over *)
  Lemma safe4_handoff t fuel i n hs l1 : forall (Q : bool -> L4 -> Prop),
    l_w l1 = WFin i -> (forall r, Q r (l1, (hs, EIn i n), clq)) ->
    safe4 t (handoff fuel n false) (l1, (hs, EIn i n), clq) Q.
  Proof.
    induction fuel as [|f IH]; intros Q Hw HQ; cbn [handoff]; [apply HQ|].
    cbn [Conc.safe]. intros g [[[x1 xE] xQ] m] tr (HI & HE & HQc & HM) Hv.
    unfold view4, view, viewE in Hv. cbn [fst snd] in *. injection Hv as Hv1 Hm Hs HvQ. unfold a_post.
    destruct (g_ready g); cbn [fst snd vz orb].
    - assert (Hwa : l_w (x1 t) = WFin i) by (rewrite Hv1; exact Hw).
      destruct (wfin_closed _ _ _ _ _ HI Hwa) as (Hc & Hi). destruct (E2 _ _ _ HE t i n Hs) as (Hn & _).
      exists (x1, xE, xQ, Some (n, i)). split; [split; cbn [fst snd]; [|split; [|split]]|].
      + unfold acc. rewrite tag1. apply Inv_acc with (g := g); auto.
      + apply InvE_keep with (g := g); auto.
      + unfold acc. rewrite tag1. apply InvQ_mail; [left; reflexivity|exact HQc].
      + apply InvM_post; auto. intros p e k [Hin|(t0 & Hin)] Hle.
        * destruct (EB _ _ _ HE p e k Hin) as (_ & _ & X). eapply X; eauto.
        * destruct (EH _ _ _ HE t0 p (Some e) k Hin) as (_ & _ & X). eapply X; eauto.
      + split; [intros ? ?; reflexivity|]. unfold view4, view, viewE. cbn [fst snd]. rewrite Hv1, Hm, Hs, HvQ. cbn. apply HQ.
    - exists (x1, xE, xQ, m). split; [split; cbn [fst snd]; [|split; [|split]]|].
      + unfold acc. rewrite tag1. apply Inv_acc with (g := g); auto.
      + apply InvE_keep with (g := g); auto.
      + unfold acc. rewrite tag1. apply InvQ_acc with (g := g); auto.
      + apply InvM_keep with (g := g); auto. lia.
      + split; [intros ? ?; reflexivity|]. unfold view4, view, viewE. cbn [fst snd]. rewrite Hv1, Hm, Hs, HvQ. cbn. apply IH; auto.
  Qed.

  Variable t : nat.
  Hypothesis Ht : (t < N)%nat.

  (** general_threaded::synchronize by a client *)
  Lemma safe4_synchronize hs es l1 (Q : bool -> L4 -> Prop) :
    ~ holder (l_w l1) ->
    (forall i n, HsBelow i hs -> SmB l1 i -> Q true (set_w l1 (WFin i), (hs, EIn i n), clq)) -> (forall l', Q false l') ->
    safe4 t (synchronize_t sfuel) (l1, (hs, es), clq) Q.
  Proof.
    intros Hn HT HF. unfold synchronize_t. cbn [Conc.safe]. intros g [[[x1 xE] xQ] m] tr (HI & HE & HQc & HM) Hv.
    unfold view4, view, viewE in Hv. cbn [fst snd] in *. injection Hv as Hv1 Hm Hs HvQ. unfold a_epoch_faa. cbn [fst snd vz].
    remember (List.length tr) as i eqn:Ei.
    assert (Hsm : SmB l1 i).
    { intros j Hj. assert (X : l_sm (x1 t) = Some j) by (rewrite Hv1; exact Hj). pose proof (sm_below _ _ _ _ _ HI X). lia. }
    assert (Hbel : HsBelow i hs).
    { intros p oe k Hin. assert (X : In (t, (p, oe, k)) (e_h xE)) by (apply gmine_in; rewrite Hm; exact Hin).
      destruct (hand_retired _ _ _ _ _ _ _ HE X) as (Y & _). lia. }
    exists (updA x1 t (set_w (x1 t) (WStart i)), mkE (e_buf xE) (e_h xE) (fun w => if Nat.eqb w t then EIn i (g_epoch g) else e_s xE w), xQ, m).
    split; [split; cbn [fst snd]; [|split; [|split]]|].
    - unfold acc. rewrite tag1, Ei. apply step_mark with (g := g); auto. rewrite Hv1; exact Hn.
    - unfold acc. rewrite tag1, Ei. apply InvE_faa; exact HE.
    - unfold acc. rewrite tag1. apply InvQ_acc with (g := g); auto.
    - eapply InvM_gen with (g := g); [reflexivity|reflexivity|cbn; lia| |exact HM]. intros p e k He. left. exact He.
    - split; [apply frame4; [apply frame_updA|apply frameE_sync|apply frameQ_refl]|].
      unfold view4, view, viewE. cbn [fst snd e_h e_s]. rewrite updA_same, Hv1, Hm, Nat.eqb_refl, HvQ. cbn [set_w].
      set (n := g_epoch g). clearbody n. clear g x1 xE xQ m tr HI HE HQc HM Hv1 Hm Hs HvQ Ei.
      apply safe4_bind.
      eapply Conc.safe_weaken; [|apply safe_lift4; [exact Ht|apply core_lock_loops|
        refine (proj1 (safe_lock_loops t sfuel i (set_w l1 (WStart i)) (fun ok l' => if ok then l' = set_w l1 (WHeld0 i) else True) eq_refl _ _)); [reflexivity|intros; exact I]]].
      intros [|] [[l1' lE'] lq'] (HQ1 & HQ2 & HQ3); cbn [fst snd] in *; [|apply HF]. subst l1' lE' lq'.
      cbv beta iota. apply safe4_bind.
      eapply Conc.safe_weaken; [|apply safe_lift4; [exact Ht|apply core_flips|
        apply (safe_flips2 t sfuel i _ (fun ok l' => if ok then exists gph done, l' = set_w l1 (WPhase i true gph (PScan done [] L0)) else True));
          [reflexivity|intros gph done; exists gph, done; reflexivity|intros; exact I]]].
      intros [|] [[l1' lE'] lq'] (HQ1 & HQ2 & HQ3); cbn [fst snd] in *; [|apply HF]. destruct HQ1 as (gph & done & ->). subst lE' lq'.
      cbv beta iota. apply safe4_bind.
      eapply Conc.safe_weaken; [|apply safe_lift4; [exact Ht|apply core_unlock|
        apply (safe_unlock t i gph done _ (fun _ l' => l' = set_w l1 (WFin i))); reflexivity]].
      intros [] [[l1' lE'] lq'] (HQ1 & HQ2 & HQ3); cbn [fst snd] in *. subst l1' lE' lq'.
      apply safe4_handoff; [reflexivity|]. intros [|]; [apply HT; assumption|apply HF].
  Qed.

  Lemma safe4_size_reached {R} (k : bool -> prog R) l Q :
    (forall b, safe4 t (k b) l Q) -> safe4 t (size_reached cap cnt k) l Q.
  Proof.
    intros H. unfold size_reached. destruct cnt; [|apply H]. apply safe4_act_plain; [plain4|]. intros v. apply H.
  Qed.

  Lemma safe4_push p e k hs es l1 (Q : bool -> L4 -> Prop) :
    ~ holder (l_w l1) ->
    (forall w' es', ~ holder w' -> Q true (set_w l1 w', (hs, es'), clq)) -> (forall l', Q false l') ->
    safe4 t (push_buffer_t sfuel cap cnt p e) (l1, ((p, Some e, k) :: hs, es), clq) Q.
  Proof.
    intros Hn HT HF. unfold push_buffer_t. cbn [Conc.safe]. intros g [[[x1 xE] xQ] m] tr (HI & HE & HQc & HM) Hv.
    unfold view4, view, viewE in Hv. cbn [fst snd] in *. injection Hv as Hv1 Hm Hs HvQ. unfold a_buf_push.
    destruct (Nat.ltb (List.length (g_buf g)) (g_bcap g)); cbn [fst snd vz].
    - exists (x1, mkE (e_buf xE ++ [(p, e, k)]) (grmf t (e_h xE)) (e_s xE), xQ, m). split; [split; cbn [fst snd]; [|split; [|split]]|].
      + unfold acc. rewrite tag1. apply Inv_acc with (g := g); auto.
      + eapply InvE_push; eauto.
      + unfold acc. rewrite tag1. apply InvQ_acc with (g := g); auto.
      + eapply InvM_gen with (g := g); [reflexivity|reflexivity|cbn; lia| |exact HM]. intros q e0 k1 He. left. eapply ent_push; eauto.
      + split; [apply frame4; [apply frame_refl|apply frameE_rmf|apply frameQ_refl]|].
        unfold view4, view, viewE. cbn [fst snd e_h e_s]. rewrite (gmine_grmf_head _ _ _ _ Hm), Hv1, Hs, HvQ. cbn [Z.eqb Pos.eqb].
        apply safe4_size_reached. intros [|].
        * apply safe4_synchronize; [exact Hn| |exact HF]. intros i n _ _. apply HT. intros [].
        * cbn. rewrite <- (set_w_same l1) at 1. apply HT. exact Hn.
    - exists (x1, xE, xQ, m). split; [split; cbn [fst snd]; [|split; [|split]]|].
      + unfold acc. rewrite tag1. apply Inv_acc with (g := g); auto.
      + apply InvE_keep with (g := g); auto.
      + unfold acc. rewrite tag1. apply InvQ_acc with (g := g); auto.
      + apply InvM_keep with (g := g); auto. lia.
      + split; [intros ? ?; reflexivity|]. unfold view4, view, viewE. cbn [fst snd]. rewrite Hv1, Hm, Hs, HvQ. cbn [Z.eqb].
        apply safe4_bind. apply safe4_synchronize; [exact Hn| |intros l'; cbv beta iota; apply HF].
        intros i n Hbel _. cbv beta iota.
        eapply safe4_dispose; [reflexivity|apply (Hbel p (Some e) k); left; reflexivity|]. cbn. apply HT. intros [].
  Qed.
End Prod4.
