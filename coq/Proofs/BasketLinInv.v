(** * BasketQueue: the linearization part of the invariant and its preservation.

    [Inv2 = Inv /\ LinI]: [Inv] is the chain invariant of [LV.Proofs.BasketInv]; [LinI] keeps an annotated
    trace [ltr] (events of [LV.Proofs.BasketLinBase]) whose run ends in
        E = the values of ALL nodes ever linked, in chain order (dummy excluded),
        d = the number of deleted nodes (marked pointers),
    i.e. in the FIFO queue "values of the undeleted nodes in chain order".  Per thread it keeps the facts that
    justify the two retroactive linearization points:
      [x_bk = Some tl]  the thread saw [tl->next == null] during its present enqueue: none of its events lies
                        after the linearization point of any node behind [tl] ([nopost t (index of tl)]);
      [x_ec = Some m]   the thread saw, during its present dequeue, the chain end in a deleted node when [m]
                        items had been enqueued: by the end of that stretch of the trace all [m] had been
                        dequeued ([nd m ltr = m]) and the thread has no event after it. *)
From Coq Require Import ZArith List Bool Lia PeanoNat.
From LV Require Import Base.Conc Base.Events Base.Lin Spec.Specs Proofs.LinProofs Model.Basket
  Proofs.MSQueueBase Proofs.BasketBase Proofs.BasketInv Proofs.BasketLinBase.
Import ListNotations.
Local Open Scope list_scope.

Record xview := mkX { x_bk : option nat; x_ec : option nat }.
Definition x0 : xview := mkX None None.

Record Aux2 := mkA2 { base : Aux; ltr : list bev; xvs : nat -> xview }.
Definition view2 (a : Aux2) (t : nat) : tview * xview := (views (base a) t, xvs a t).
Definition updx (xs : nat -> xview) (t : nat) (x : xview) : nat -> xview :=
  fun u => if Nat.eqb u t then x else xs u.

Definition EE (b : Aux) : list nat := List.tl (GG b).

Definition xok (b : Aux) (tr : list bev) (t : nat) (x : xview) : Prop :=
  (forall tl, x_bk x = Some tl ->
     In tl (GG b) /\ forall i, nth_error (GG b) i = Some tl -> nopost t i tr) /\
  (forall m, x_ec x = Some m -> nd m tr = m /\ nopost t m tr).

Record LinI (g : G) (a : Aux2) (tr : list (nat * ev)) : Prop := mkLinI {
  L_run : exists f, brun binit (ltr a) = Some (mkB (map (val g) (EE (base a))) (length (dpre (base a))) f) /\
                    forall t, f t = tv_st (views (base a) t);
  L_hist : berase (ltr a) = hist tr;
  L_x : forall t, xok (base a) (ltr a) t (xvs a t)
}.

Definition Inv2 (g : G) (a : Aux2) (tr : list (nat * ev)) : Prop := Inv g (base a) tr /\ LinI g a tr.

Lemma updx_same xs t x : updx xs t x t = x.
Proof. unfold updx. now rewrite Nat.eqb_refl. Qed.
Lemma updx_other xs t x u : u <> t -> updx xs t x u = xs u.
Proof. unfold updx. intros H. destruct (Nat.eqb_spec u t); congruence. Qed.

Lemma xok_x0 b tr t : xok b tr t x0.
Proof. split; cbn; intros; discriminate. Qed.

Lemma xok_GG b b' tr t x : GG b' = GG b -> xok b tr t x -> xok b' tr t x.
Proof. intros E (A & B). split; [|exact B]. rewrite E. exact A. Qed.

(** ** the list of items *)
Lemma tl_app {A} (P : list A) x (X : list A) :
  List.tl (P ++ x :: X) = List.tl (P ++ [x]) ++ X /\ length (List.tl (P ++ [x])) = length P.
Proof.
  destruct P as [|p P]; cbn; [auto|]. rewrite <- app_assoc. cbn. split; [reflexivity|].
  rewrite app_length. cbn. lia.
Qed.

Lemma EE_split b : EE b = List.tl (dpre b ++ [bnd b]) ++ live b /\ length (List.tl (dpre b ++ [bnd b])) = length (dpre b).
Proof. unfold EE, GG. apply tl_app. Qed.

Lemma EE_length b : length (EE b) = length (dpre b) + length (live b).
Proof. destruct (EE_split b) as (E1 & E2). rewrite E1, app_length. lia. Qed.

Lemma GG_length b : length (GG b) = S (length (EE b)).
Proof. unfold EE, GG. destruct (dpre b); cbn; reflexivity. Qed.

Lemma lin_counts g a tr :
  LinI g a tr -> nenq (ltr a) = length (EE (base a)) /\ ndeq (ltr a) = length (dpre (base a)).
Proof.
  intros [(f & R & _) _ _]. destruct (brun_counts _ _ _ R) as (A & B & _). cbn in A, B.
  rewrite map_length in A. lia.
Qed.

(** a node that ends the chain sits at index [nenq ltr] *)
Lemma last_index g a tr y i :
  Inv2 g a tr -> nth_error (GG (base a)) i = Some y -> fst (nxt g y) = None -> i = length (EE (base a)).
Proof.
  intros (HI & HL) Ei En.
  assert (Hin : In y (GG (base a))) by (eapply nth_error_In; eauto).
  destruct (linked_last _ _ _ (I_linked _ _ _ HI) Hin En) as (l' & El).
  assert (El' : nth_error (GG (base a)) (length l') = Some y).
  { rewrite El, nth_error_app2, Nat.sub_diag by lia. reflexivity. }
  assert (i = length l').
  { apply (proj1 (NoDup_nth_error (GG (base a))) (I_nodup _ _ _ HI)); [apply nth_error_Some; congruence|congruence]. }
  pose proof (GG_length (base a)) as HG. rewrite El, app_length in HG. cbn in HG. lia.
Qed.

(** ** steps that change neither the chain nor the annotated trace *)
Lemma Lin_keep g a tr g' b' tr' xs' :
  Inv g (base a) tr -> LinI g a tr ->
  (forall n, (n < nalloc g)%nat -> val g' n = val g n) ->
  GG b' = GG (base a) -> length (dpre b') = length (dpre (base a)) ->
  (forall t, tv_st (views b' t) = tv_st (views (base a) t)) ->
  hist tr' = hist tr ->
  (forall t, xok b' (ltr a) t (xs' t)) ->
  LinI g' (mkA2 b' (ltr a) xs') tr'.
Proof.
  intros HI [(f & R & F) H2 H3] Hval HG Hd Hst Hh Hx. constructor; cbn [base ltr xvs].
  - exists f. split; [|intros t; now rewrite Hst].
    unfold EE. rewrite HG, Hd. fold (EE (base a)).
    assert (Em : map (val g') (EE (base a)) = map (val g) (EE (base a))).
    { apply map_ext_in. intros n Hn. apply Hval. apply (I_lt _ _ _ HI).
      unfold EE in Hn. destruct (GG (base a)); cbn in *; [contradiction|now right]. }
    rewrite Em. exact R.
  - now rewrite Hh.
  - exact Hx.
Qed.

(** the stepping thread replaces its own facts *)
Lemma xoks_upd b b' tr (xs : nat -> xview) t x :
  GG b' = GG b -> (forall u, xok b tr u (xs u)) -> xok b' tr t x -> forall u, xok b' tr u (updx xs t x u).
Proof.
  intros HG H Hx u. destruct (Nat.eq_dec u t) as [->|Hne].
  - now rewrite updx_same.
  - rewrite updx_other by exact Hne. eapply xok_GG; eauto.
Qed.

(** ** an event appended at the end of the annotated trace *)
Lemma Lin_append g a tr g' b' tr' xs' t e E' d' s' :
  LinI g a tr ->
  bnext (map (val g) (EE (base a))) (length (dpre (base a))) (tv_st (views (base a) t)) e = Some (E', d', s') ->
  btid e = t ->
  E' = map (val g') (EE b') -> d' = length (dpre b') ->
  (forall u, tv_st (views b' u) = if Nat.eqb u t then s' else tv_st (views (base a) u)) ->
  hist tr' = hist tr ++ berase [e] ->
  (forall u, xok b' (ltr a ++ [e]) u (xs' u)) ->
  LinI g' (mkA2 b' (ltr a ++ [e]) xs') tr'.
Proof.
  intros [(f & R & F) H2 H3] Hn Ht HE Hd Hst Hh Hx. constructor; cbn [base ltr xvs].
  - exists (pupd f t s'). split.
    + rewrite brun_app, R. cbn [brun]. unfold bstep. cbn [bE bd bst]. rewrite Ht, F, Hn, HE, Hd. reflexivity.
    + intros u. rewrite Hst. unfold pupd. destruct (Nat.eqb u t); auto.
  - rewrite berase_app, H2, Hh. reflexivity.
  - exact Hx.
Qed.

(** what the other threads know survives an appended event *)
Lemma xok_app b b' tr e u x :
  GG b' = GG b -> btid e <> u -> (is_deq e = false \/ ndeq tr < nenq tr) ->
  xok b tr u x -> xok b' (tr ++ [e]) u x.
Proof.
  intros HG He Hd (A & B). split.
  - intros tl Hb. destruct (A tl Hb) as (A1 & A2). rewrite HG. split; [exact A1|].
    intros i Hi. apply nopost_app; auto.
  - intros m Hm. destruct (B m Hm) as (B1 & B2). split; [|apply nopost_app; auto].
    destruct Hd as [Hd|Hd]; [now rewrite nd_app_other|].
    rewrite nd_app_many; [exact B1|]. pose proof (nd_le tr m). lia.
Qed.

(** ... and a node appended at the end of the chain *)
Lemma xok_app_snoc b b' tr t n u x :
  GG b' = GG b ++ [n] -> length (GG b) = S (nenq tr) -> t <> u ->
  xok b tr u x -> xok b' (tr ++ [BEnq t]) u x.
Proof.
  intros HG Hl He (A & B). split.
  - intros tl Hb. destruct (A tl Hb) as (A1 & A2). rewrite HG. split; [apply in_or_app; now left|].
    intros i Hi. destruct (Nat.lt_ge_cases i (length (GG b))) as [Hlt|Hge].
    + rewrite nth_error_app1 in Hi by exact Hlt. apply nopost_app; auto.
    + apply nopost_few. rewrite nenq_app. cbn. lia.
  - intros m Hm. destruct (B m Hm) as (B1 & B2). split; [|apply nopost_app; auto].
    now rewrite nd_app_other.
Qed.

(** ** the basket insertion: a retroactive linearization point *)
Lemma Lin_ins_enq g a tr g' b' tr' t v tl n P Q :
  Inv g (base a) tr -> LinI g a tr ->
  tv_st (views (base a) t) = PPend (Enq v) -> x_bk (xvs a t) = Some tl ->
  GG (base a) = P ++ tl :: Q -> NoDup (GG (base a)) -> ~ In n (GG (base a)) ->
  length (dpre (base a)) <= length P ->
  GG b' = P ++ tl :: n :: Q -> length (dpre b') = length (dpre (base a)) ->
  (forall x, (x < nalloc g)%nat -> val g' x = val g x) -> val g' n = v ->
  (forall u, tv_st (views b' u) = if Nat.eqb u t then PLin (RBool true) else tv_st (views (base a) u)) ->
  hist tr' = hist tr ->
  LinI g' (mkA2 b' (ins (length P) (BEnq t) (ltr a)) (updx (xvs a) t x0)) tr'.
Proof.
  intros HI HL Hs Hbk HG Hnd Hn Hd HG' Hd' Hval Hv Hst Hh.
  pose proof (lin_counts _ _ _ HL) as (Cn & Cd).
  destruct HL as [(f & R & F) H2 H3].
  assert (Ei : nth_error (GG (base a)) (length P) = Some tl).
  { rewrite HG, nth_error_app2, Nat.sub_diag by lia. reflexivity. }
  assert (Hnp : nopost t (length P) (ltr a)).
  { destruct (H3 t) as (A & _). destruct (A tl Hbk) as (_ & A2). apply A2. exact Ei. }
  destruct (tl_app P tl Q) as (T1 & T2). destruct (tl_app P tl (n :: Q)) as (T3 & _).
  destruct (brun_ins_enq t v (ltr a) (length P) binit _ R) as (st' & R' & F').
  { cbn [bst]. now rewrite F. } { exact Hnp. } { cbn. lia. }
  cbn [binit bE bd bst List.length Nat.add] in R'.
  constructor; cbn [base ltr xvs].
  - exists st'. split.
    + rewrite R'. f_equal. f_equal; [|symmetry; exact Hd'].
      unfold EE. rewrite HG, HG', T1, T3, !map_app. cbn [map]. rewrite Hv.
      assert (Em : forall l, (forall x, In x l -> In x (GG (base a))) -> map (val g') l = map (val g) l).
      { intros l Hl. apply map_ext_in. intros x Hx. apply Hval. apply (I_lt _ _ _ HI). auto. }
      rewrite (Em (List.tl (P ++ [tl]))), (Em Q).
      * rewrite <- T2 at 1. rewrite <- (map_length (val g) (List.tl (P ++ [tl]))). apply insert_at_app.
      * intros x Hx. rewrite HG. apply in_or_app. right. now right.
      * intros x Hx. rewrite HG. destruct P as [|p P]; cbn in Hx |- *; [contradiction|].
        right. apply in_app_or in Hx. apply in_or_app. destruct Hx as [Hx|[Hx|[]]]; [now left|right; now left].
    + intros u. rewrite F', Hst, F. destruct (Nat.eqb u t); reflexivity.
  - rewrite berase_ins by reflexivity. now rewrite Hh.
  - intros u. destruct (Nat.eq_dec u t) as [->|Hne]; [rewrite updx_same; apply xok_x0|].
    rewrite updx_other by exact Hne. destruct (H3 u) as (A & B). split.
    + intros tl' Hb. destruct (A tl' Hb) as (A1 & A2). split.
      { rewrite HG'. rewrite HG in A1. apply in_app_or in A1. apply in_or_app.
        destruct A1 as [A1|[A1|A1]]; [now left|right; now left|right; right; now right]. }
      intros i Hi. rewrite HG' in Hi.
      destruct (Nat.le_gt_cases i (length P)) as [Hle|Hgt].
      * apply nopost_ins_ge; [cbn; congruence|exact Hle|]. apply A2. rewrite HG.
        destruct (Nat.eq_dec i (length P)) as [->|Hne2].
        -- rewrite nth_error_app2, Nat.sub_diag in Hi |- * by lia. exact Hi.
        -- rewrite nth_error_app1 in Hi |- * by lia. exact Hi.
      * destruct i as [|i]; [lia|].
        assert (Hold : nth_error (GG (base a)) i = Some tl' \/ tl' = n).
        { rewrite HG. rewrite nth_error_app2 in Hi by lia.
          destruct (Nat.eq_dec i (length P)) as [->|Hne2].
          - replace (S (length P) - length P) with 1 in Hi by lia. cbn in Hi. right. congruence.
          - left. rewrite nth_error_app2 by lia.
            replace (S i - length P) with (S (S (i - length P - 1))) in Hi by lia.
            replace (i - length P) with (S (i - length P - 1)) by lia. cbn in Hi |- *. exact Hi. }
        destruct Hold as [Hold| ->]; [|contradiction].
        assert (i <> length P).
        { intros ->. rewrite Ei in Hold. injection Hold as <-.
          (* tl' = tl at index S (length P) of the new chain: that is n *)
          rewrite nth_error_app2 in Hi by lia. replace (S (length P) - length P) with 1 in Hi by lia.
          cbn in Hi. injection Hi as <-. contradiction. }
        apply nopost_ins_lt; [cbn; congruence|reflexivity|lia|]. apply A2. exact Hold.
    + intros m Hm. destruct (B m Hm) as (B1 & B2).
      assert (m <= length P) by (pose proof (nd_le (ltr a) m); lia).
      split; [rewrite nd_ins_enq by (auto; reflexivity); exact B1|].
      apply nopost_ins_ge; [cbn; congruence|assumption|exact B2].
Qed.

(** ** the "empty" answer: a retroactive linearization point *)
Lemma Lin_ins_emp g a tr g' b' tr' t m :
  Inv g (base a) tr -> LinI g a tr ->
  tv_st (views (base a) t) = PPend Deq -> x_ec (xvs a t) = Some m ->
  (forall n, (n < nalloc g)%nat -> val g' n = val g n) ->
  GG b' = GG (base a) -> length (dpre b') = length (dpre (base a)) ->
  (forall u, tv_st (views b' u) = if Nat.eqb u t then PLin (RVal None) else tv_st (views (base a) u)) ->
  hist tr' = hist tr ->
  LinI g' (mkA2 b' (ins m (BEmp t) (ltr a)) (updx (xvs a) t x0)) tr'.
Proof.
  intros HI [(f & R & F) H2 H3] Hs Hec Hval HG Hd Hst Hh.
  destruct (H3 t) as (_ & B). destruct (B m Hec) as (B1 & B2).
  destruct (brun_ins_emp t (ltr a) m binit _ R) as (st' & R' & F').
  { cbn [bst]. now rewrite F. } { exact B2. } { cbn. lia. } { cbn. lia. }
  cbn [bE bd bst] in R'.
  constructor; cbn [base ltr xvs].
  - exists st'. split.
    + rewrite R'. unfold EE. rewrite HG, Hd. fold (EE (base a)).
      assert (Em : map (val g') (EE (base a)) = map (val g) (EE (base a))).
      { apply map_ext_in. intros n Hn. apply Hval. apply (I_lt _ _ _ HI).
        unfold EE in Hn. destruct (GG (base a)); cbn in *; [contradiction|now right]. }
      now rewrite Em.
    + intros u. rewrite F', Hst, F. destruct (Nat.eqb u t); reflexivity.
  - rewrite berase_ins by reflexivity. now rewrite Hh.
  - intros u. destruct (Nat.eq_dec u t) as [->|Hne]; [rewrite updx_same; apply xok_x0|].
    rewrite updx_other by exact Hne. destruct (H3 u) as (A' & B'). split.
    + intros tl Hb. destruct (A' tl Hb) as (A1 & A2). rewrite HG. split; [exact A1|].
      intros i Hi. apply nopost_ins_other; [cbn; congruence|reflexivity|]. auto.
    + intros m' Hm. destruct (B' m' Hm) as (C1 & C2).
      split; [rewrite nd_ins_other by reflexivity; exact C1|].
      apply nopost_ins_other; [cbn; congruence|reflexivity|exact C2].
Qed.
