(** * FreeList: initial configuration, and the theorems for every schedule, any number of threads and
      nodes: no double get, unique holder, no loss (+ the sequential drain corollary). *)
From Coq Require Import ZArith List String Bool Lia PeanoNat.
From LV Require Import Base.Conc Base.Events Model.FreeList Proofs.FreeListBase Proofs.FreeListInv Proofs.FreeListSteps Proofs.FreeListSafe.
Import ListNotations.
Local Open Scope Z_scope.
Local Open Scope string_scope.

(** ** the initial configuration *)
Definition helds (ths : list (list op * list nat)) : list (list nat) := map snd ths.
Definition on_init (k n : nat) : bool := (Nat.leb 1 n && Nat.leb n k)%bool.

Fixpoint owner_in (hs : list (list nat)) (t : nat) (n : nat) : option nat :=
  match hs with
  | [] => None
  | h :: r => if existsb (Nat.eqb n) h then Some t else owner_in r (S t) n
  end.

(** the ownership map the monitor starts from: node n is owned by the thread that holds it initially *)
Definition own_init (ths : list (list op * list nat)) : omap := fun n => owner_in (helds ths) O n.

(** the nodes that exist: 1..k (on the list) and the nodes some thread holds *)
Definition valid_init (k : nat) (ths : list (list op * list nat)) (n : nat) : bool :=
  (on_init k n || match own_init ths n with Some _ => true | None => false end)%bool.

(** client discipline at the start: no node is held twice, and held nodes are not among 1..k *)
Definition wf_init (k : nat) (ths : list (list op * list nat)) : Prop :=
  NoDup (List.concat (helds ths)) /\ forall n, In n (List.concat (helds ths)) -> (k < n)%nat.

Lemma existsb_eqb_In n h : existsb (Nat.eqb n) h = true <-> In n h.
Proof.
  rewrite existsb_exists. split.
  - intros (x & Hx & E). apply Nat.eqb_eq in E. subst. exact Hx.
  - intros H. exists n. split; [exact H|apply Nat.eqb_refl].
Qed.

Lemma owner_in_spec hs : forall t0 n t, NoDup (List.concat hs) ->
  (owner_in hs t0 n = Some t <-> (t0 <= t)%nat /\ In n (nth (t - t0) hs [])).
Proof.
  induction hs as [|h r IH]; intros t0 n t Hnd; cbn [owner_in].
  - split; [discriminate|]. intros [_ H]. destruct (t - t0)%nat; cbn in H; contradiction.
  - cbn [List.concat] in Hnd.
    assert (Hr : NoDup (List.concat r)) by (eapply NoDup_app_r; eauto).
    destruct (existsb (Nat.eqb n) h) eqn:E.
    + apply existsb_eqb_In in E. split.
      * intros H. injection H as <-. split; [lia|]. rewrite Nat.sub_diag. exact E.
      * intros [Hle Hin]. destruct (t - t0)%nat as [|d] eqn:Ed.
        -- f_equal. lia.
        -- exfalso. cbn in Hin.
           assert (In n (List.concat r)).
           { apply in_concat. exists (nth d r []). split; [|exact Hin].
             destruct (Nat.lt_ge_cases d (List.length r)) as [Hl|Hl]; [apply nth_In; exact Hl|].
             rewrite nth_overflow in Hin by exact Hl. contradiction. }
           eapply NoDup_app_disj; eauto.
    + rewrite (IH (S t0) n t Hr). split.
      * intros [Hle Hin]. split; [lia|]. replace (t - t0)%nat with (S (t - S t0)) by lia. exact Hin.
      * intros [Hle Hin]. destruct (t - t0)%nat as [|d] eqn:Ed.
        -- cbn in Hin. apply existsb_eqb_In in Hin. congruence.
        -- cbn in Hin. split; [lia|]. replace (t - S t0)%nat with d by lia. exact Hin.
Qed.

Lemma own_init_spec ths n t : NoDup (List.concat (helds ths)) ->
  (own_init ths n = Some t <-> In n (nth t (helds ths) [])).
Proof.
  intros Hnd. unfold own_init. rewrite (owner_in_spec (helds ths) O n t Hnd). rewrite Nat.sub_0_r.
  split; [tauto|]. intros H; split; [lia|exact H].
Qed.

Definition aux_init (k : nat) (ths : list (list op * list nat)) : Aux :=
  mkA (fun n => if on_init k n then OnList else match own_init ths n with Some t => Held t | None => Nil end)
      (rev (seq 1 k)) (fun _ => Idle) (fun t => nth t (helds ths) []) (own_init ths).

Lemma rev_seq_S k : rev (seq 1 (S k)) = S k :: rev (seq 1 k).
Proof. rewrite seq_S, rev_app_distr. reflexivity. Qed.

Lemma chain_init K : forall k, (k <= K)%nat -> chain (next (init K)) k (rev (seq 1 k)).
Proof.
  induction k as [|k IH]; intros Hk; [reflexivity|].
  rewrite rev_seq_S. cbn [chain]. repeat split; [lia|].
  assert (E : next (init K) (S k) = k).
  { unfold init. cbn [next]. assert ((S k <=? K)%nat = true) as -> by (apply Nat.leb_le; lia). reflexivity. }
  rewrite E. apply IH. lia.
Qed.

Section Init.
  Variable fuel k : nat.
  Variable ths : list (list op * list nat).
  Hypothesis Hwf : wf_init k ths.
  Let N := List.length ths.
  Hypothesis HN : Z.of_nat N + 1 < FLAG.

  Lemma valid_zero : valid_init k ths O = false.
  Proof.
    unfold valid_init. cbn [on_init Nat.leb andb orb].
    destruct (own_init ths O) as [t|] eqn:E; [|reflexivity].
    destruct Hwf as [Hnd Hgt]. apply (own_init_spec ths O t Hnd) in E.
    assert (In O (List.concat (helds ths))).
    { apply in_concat. exists (nth t (helds ths) []). split; [|exact E].
      destruct (Nat.lt_ge_cases t (List.length (helds ths))) as [Hl|Hl]; [apply nth_In; exact Hl|].
      rewrite nth_overflow in E by exact Hl. contradiction. }
    apply Hgt in H. lia.
  Qed.

  Lemma held_gt t n : In n (nth t (helds ths) []) -> (k < n)%nat.
  Proof.
    intros E. destruct Hwf as [Hnd Hgt]. apply Hgt. apply in_concat. exists (nth t (helds ths) []). split; [|exact E].
    destruct (Nat.lt_ge_cases t (List.length (helds ths))) as [Hl|Hl]; [apply nth_In; exact Hl|].
    rewrite nth_overflow in E by exact Hl. contradiction.
  Qed.

  Lemma cnt_init n : cnt N (aux_init k ths) n = O.
  Proof. apply count_all_false. intros t _. reflexivity. Qed.

  Lemma NoDup_concat_nth {A} (ls : list (list A)) t : NoDup (List.concat ls) -> NoDup (nth t ls []).
  Proof.
    revert t. induction ls as [|l r IH]; intros t H.
    - destruct t; constructor.
    - cbn in H. destruct t; cbn.
      + eapply NoDup_app_l; eauto.
      + apply IH. eapply NoDup_app_r; eauto.
  Qed.

  Lemma InvS_init : InvS N (valid_init k ths) (init k) (aux_init k ths).
  Proof.
    destruct Hwf as [Hnd Hgt]. constructor.
    - intros n. cbn [st aux_init]. unfold valid_init. destruct (on_init k n); cbn [orb].
      + split; discriminate.
      + destruct (own_init ths n); split; try discriminate; reflexivity.
    - intros n. rewrite cnt_init. cbn [st aux_init refs init]. fold (on_init k n).
      destruct (on_init k n); [reflexivity|]. destruct (own_init ths n); reflexivity.
    - intros n. unfold st_ok. rewrite cnt_init. cbn [st aux_init hl ph].
      destruct (on_init k n); [exact I|]. destruct (own_init ths n) as [t|] eqn:E; [|reflexivity].
      left. apply (own_init_spec ths n t Hnd). exact E.
    - cbn [lst aux_init head init]. apply chain_init. lia.
    - cbn [lst aux_init]. apply NoDup_rev. apply seq_NoDup.
    - intros n. cbn [lst aux_init st]. rewrite <- in_rev, in_seq. unfold on_init.
      destruct (Nat.leb_spec 1 n), (Nat.leb_spec n k); cbn [andb]; split; intros; try lia; try reflexivity;
        destruct (own_init ths n); discriminate.
    - intros t. cbn. exact I.
    - intros t n Hin. cbn [hl aux_init] in Hin. cbn [st aux_init].
      pose proof (held_gt t n Hin) as Hg. unfold on_init.
      destruct (Nat.leb_spec 1 n), (Nat.leb_spec n k); cbn [andb]; try lia;
        apply (own_init_spec ths n t Hnd) in Hin; rewrite Hin; reflexivity.
    - intros t. cbn [hl aux_init]. apply NoDup_concat_nth. exact Hnd.
    - intros t Ht. cbn [ph hl aux_init]. split; [reflexivity|]. apply nth_overflow. unfold helds. rewrite map_length. exact Ht.
  Qed.

  Lemma init_ok : Conc.cfg_ok (view) (Inv N (valid_init k ths) (own_init ths) N) (init_cfg fuel k ths).
  Proof.
    exists (aux_init k ths). split.
    - split; [apply InvS_init|]. cbn [Conc.trace init_cfg]. split; [reflexivity|split].
      + intros n t. cbn [own hl aux_init]. rewrite (own_init_spec ths n t (proj1 Hwf)). split; [|tauto].
        intros Hin. split; [|exact Hin]. destruct (Nat.lt_ge_cases t N) as [Hl|Hl]; [exact Hl|].
        rewrite nth_overflow in Hin; [contradiction|]. unfold helds. rewrite map_length. exact Hl.
      + intros t. reflexivity.
    - intros t p Hp. cbn [init_cfg Conc.threads] in Hp. rewrite nth_error_map in Hp.
      destruct (nth_error ths t) as [[os H]|] eqn:E; [|discriminate]. injection Hp as <-.
      assert (Ht : (t < N)%nat) by (apply nth_error_Some; congruence).
      assert (Hv : view (aux_init k ths) t = (H, Idle)).
      { unfold view. cbn [hl ph aux_init]. f_equal. unfold helds.
        rewrite (nth_indep _ [] (snd (os, H))) by (rewrite map_length; exact Ht).
        rewrite map_nth. rewrite (nth_error_nth ths t (os, H) E). reflexivity. }
      rewrite Hv. cbn [fst snd]. apply (safe_thread N HN (valid_init k ths) valid_zero (own_init ths) N (le_n N)). exact Ht.
  Qed.
End Init.

(** ** sequential execution of a program (one thread running alone) and the drain *)
Fixpoint solo {R} (p : prog R) (g : G) : G * R :=
  match p with
  | Ret r => (g, r)
  | Emit _ k => solo k g
  | Act f k => let '(g', v, _) := f g in solo (k v) g'
  end.

(** [drain fuel c g]: up to [c] successive get() by a single thread, until one returns nullptr *)
Fixpoint drain (fuel c : nat) (g : G) : list nat :=
  match c with
  | O => []
  | S c' => match solo (get fuel) g with
            | (g', Some (S m)) => S m :: drain fuel c' g'
            | _ => []
            end
  end.

Definition seq_ok (g : G) (l : list nat) : Prop :=
  chain (next g) (head g) l /\ NoDup l /\ forall n, In n l -> refs g n = 1.

Lemma solo_get_nil fuel g : seq_ok g [] -> solo (get (S fuel)) g = (g, Some O).
Proof. intros (Hc & _). cbn in Hc. cbn. rewrite Hc. reflexivity. Qed.

Lemma solo_get_cons fuel g n r : seq_ok g (n :: r) ->
  exists g', solo (get (S fuel)) g = (g', Some n) /\ seq_ok g' r.
Proof.
  intros (Hc & Hnd & Hr). cbn in Hc. destruct Hc as (Hh & Hnz & Hc).
  assert (R1 : refs g n = 1) by (apply Hr; left; reflexivity).
  apply NoDup_cons_iff in Hnd. destruct Hnd as [Hnin Hnd].
  eexists. split.
  - cbn [get solo a_ld_head vnode fst get_loop]. rewrite Hh.
    destruct (Nat.eqb_spec n 0) as [E|_]; [contradiction|].
    cbn [solo a_ld_refs vword snd]. rewrite R1. change (1 mod FLAG =? 0)%Z with false. cbv iota.
    cbn [solo]. unfold a_cas_refs. rewrite R1. change (1 =? 1)%Z with true. cbv iota beta. cbn [vword snd].
    change (1 =? 1)%Z with true. cbn [negb]. cbv iota.
    cbn [solo]. unfold a_ld_next. cbv iota beta. cbn [vnode fst].
    cbn [solo]. unfold a_cas_head. cbn [head set_refs]. rewrite Hh, Nat.eqb_refl. cbv iota beta. cbn [vnode fst].
    rewrite Nat.eqb_refl. cbn [solo]. unfold a_fas_refs. cbv iota beta. cbn [solo]. reflexivity.
  - cbn. split; [exact Hc|split; [exact Hnd|]].
    intros m Hm. assert (m <> n) by (intros ->; contradiction).
    cbn [refs set_refs set_head]. destruct (Nat.eqb_spec m n) as [E|_]; [contradiction|]. apply Hr. right. exact Hm.
Qed.

Lemma drain_spec fuel : forall l g c, seq_ok g l -> (List.length l < c)%nat -> drain (S fuel) c g = l.
Proof.
  induction l as [|n r IH]; intros g c Hs Hc.
  - destruct c; [cbn in Hc; lia|]. cbn [drain]. rewrite (solo_get_nil fuel g Hs). reflexivity.
  - destruct c; [cbn in Hc; lia|]. cbn [drain].
    destruct (solo_get_cons fuel g n r Hs) as (g' & E & Hs'). rewrite E.
    destruct Hs as ((_ & Hnz & _) & _). destruct n; [contradiction|].
    f_equal. apply IH; [exact Hs'|cbn in Hc; lia].
Qed.

(** ** the theorems *)
Section Theorems.
  Variable fuel k : nat.
  Variable ths : list (list op * list nat).
  Hypothesis Hwf : wf_init k ths.
  Hypothesis HN : Z.of_nat (List.length ths) + 1 < FLAG.
  Let N := List.length ths.

  Lemma reach_Inv c : Conc.reach (init_cfg fuel k ths) c ->
    exists a, Inv N (valid_init k ths) (own_init ths) N (Conc.shared c) a (Conc.trace c).
  Proof. intros Hr. exact (Conc.reach_Inv (init_ok fuel k ths Hwf HN) Hr). Qed.

  (** a node returned by get() is not returned by another get() until it has been put back: the
      ownership monitor never fires, on any schedule *)
  Theorem freelist_no_double_get c : Conc.reach (init_cfg fuel k ths) c ->
    exists own, mon_run (own_init ths) (Conc.trace c) = Some own.
  Proof. intros Hr. destruct (reach_Inv c Hr) as (a & _ & T1 & _). eauto. Qed.

  Lemma nonidle_open a tr t : InvT (own_init ths) N a tr -> ph a t <> Idle -> opens t tr <> 0.
  Proof.
    intros (_ & _ & T3) Hp. rewrite T3. destruct (ph a t); cbn; try lia. congruence.
  Qed.

  (** at every instant every node is either held by exactly one thread ([own n = Some t]) or logically
      on the list ([own n = None]); the physical list reachable from head is null-terminated,
      duplicate-free and contains only nodes that nobody holds; a node that nobody holds is on the
      physical list unless some thread is inside an operation *)
  Theorem freelist_unique_holder c : Conc.reach (init_cfg fuel k ths) c ->
    exists own l,
      mon_run (own_init ths) (Conc.trace c) = Some own /\
      chain (next (Conc.shared c)) (head (Conc.shared c)) l /\ NoDup l /\
      (forall n, In n l -> valid_init k ths n = true /\ own n = None) /\
      (forall n, valid_init k ths n = true -> own n = None ->
                 In n l \/ exists t, opens t (Conc.trace c) <> 0).
  Proof.
    intros Hr. destruct (reach_Inv c Hr) as (a & HS & HT). pose proof HT as (T1 & T2 & T3).
    exists (own a), (lst a). split; [exact T1|]. split; [apply (S_chain HS)|]. split; [apply (S_lnd HS)|]. split.
    - intros n Hin. apply (S_lin HS) in Hin. split.
      + destruct (valid_init k ths n) eqn:E; [reflexivity|]. apply (S_valid HS) in E. congruence.
      + destruct (own a n) as [t|] eqn:E; [|reflexivity]. apply T2 in E. destruct E as [_ E]. apply (S_held HS) in E. congruence.
    - intros n Hv Ho. pose proof (S_st HS n) as Hst. unfold st_ok in Hst.
      destruct (st a n) as [|t|t| | |t|t] eqn:Es.
      + apply (S_valid HS) in Es. congruence.
      + right. exists t. destruct Hst as [Hst|[Hst|Hst]].
        * assert (Hlt : (t < N)%nat).
          { destruct (Nat.lt_ge_cases t N) as [Hl|Hl]; [exact Hl|]. rewrite (proj2 (S_out HS t Hl)) in Hst. contradiction. }
          assert (E : own a n = Some t) by (apply T2; split; assumption). congruence.
        * eapply nonidle_open; eauto. congruence.
        * eapply nonidle_open; eauto. congruence.
      + right. exists t. eapply nonidle_open; eauto. congruence.
      + left. apply (S_lin HS). exact Es.
      + right. destruct (count_pos_ex _ _ Hst) as (t & Ht & Hf). exists t. eapply nonidle_open; eauto.
        intros E. rewrite E in Hf. discriminate.
      + right. exists t. destruct Hst as [_ [Hst|[h Hst]]]; eapply nonidle_open; eauto; congruence.
      + right. exists t. destruct Hst as [[h Hst]|Hst]; eapply nonidle_open; eauto; congruence.
  Qed.

  (** once all threads are quiescent, the nodes reachable from head are exactly the nodes that were put
      and not taken out (nobody holds them), each with reference word 1; a single thread calling get()
      repeatedly obtains exactly those nodes and then nullptr *)
  Theorem freelist_no_loss c : Conc.reach (init_cfg fuel k ths) c -> quiescent (Conc.trace c) ->
    exists own l,
      mon_run (own_init ths) (Conc.trace c) = Some own /\
      seq_ok (Conc.shared c) l /\
      (forall n, In n l <-> valid_init k ths n = true /\ own n = None) /\
      (forall f cn, (List.length l < cn)%nat -> drain (S f) cn (Conc.shared c) = l).
  Proof.
    intros Hr Hq. destruct (reach_Inv c Hr) as (a & HS & HT). pose proof HT as (T1 & T2 & T3).
    assert (Hidle : forall t, ph a t = Idle).
    { intros t. destruct (ph a t) eqn:E; try reflexivity; exfalso;
        apply (nonidle_open a (Conc.trace c) t HT); try congruence; apply Hq. }
    assert (Hcnt : forall n, cnt N a n = O).
    { intros n. apply count_all_false. intros t _. rewrite Hidle. reflexivity. }
    assert (Hseq : seq_ok (Conc.shared c) (lst a)).
    { split; [apply (S_chain HS)|split; [apply (S_lnd HS)|]]. intros n Hin. apply (S_lin HS) in Hin.
      rewrite (S_refs HS n), Hin, Hcnt. reflexivity. }
    exists (own a), (lst a). split; [exact T1|]. split; [exact Hseq|]. split.
    - intros n. split.
      + intros Hin. apply (S_lin HS) in Hin. split.
        * destruct (valid_init k ths n) eqn:E; [reflexivity|]. apply (S_valid HS) in E. congruence.
        * destruct (own a n) as [t|] eqn:E; [|reflexivity]. apply T2 in E. destruct E as [_ E]. apply (S_held HS) in E. congruence.
      + intros [Hv Ho]. apply (S_lin HS). pose proof (S_st HS n) as Hst. unfold st_ok in Hst.
        destruct (st a n) as [|t|t| | |t|t] eqn:Es; try reflexivity; exfalso.
        * apply (S_valid HS) in Es. congruence.
        * rewrite Hidle in Hst. destruct Hst as [Hst|[Hst|Hst]]; try discriminate.
          assert (Hlt : (t < N)%nat).
          { destruct (Nat.lt_ge_cases t N) as [Hl|Hl]; [exact Hl|]. rewrite (proj2 (S_out HS t Hl)) in Hst. contradiction. }
          assert (E : own a n = Some t) by (apply T2; split; assumption). congruence.
        * rewrite Hidle in Hst. discriminate.
        * rewrite Hcnt in Hst. lia.
        * rewrite Hidle in Hst. destruct Hst as [_ [Hst|[h Hst]]]; discriminate.
        * rewrite Hidle in Hst. destruct Hst as [[h Hst]|Hst]; discriminate.
    - intros f cn Hlen. apply drain_spec; assumption.
  Qed.
End Theorems.
