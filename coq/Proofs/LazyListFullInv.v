(** * LazyListFullInv: invariant for FULL linearizability of the LazyList model (reads included), with HELPING.

    Structure: the invariant [IS] of LazyListInv, unchanged.  The LP-annotated trace contains every operation.
    An operation whose result is a read of the key (failed insert / erase, update of an existing key, contains / find /
    get) is linearized at one of its own accesses that observes the key present or absent (as for MichaelList, the last
    observation wins), with one exception that needs helping:

      contains( k ) finds the node [c] with key k in its traversal and then loads c's next field; if that value is
      marked it returns false.  c may have been unmarked when the traversal met it and be unlinked, and k re-inserted,
      by the time of the second load: no access of the reader is a linearization point.  The reader WATCHES c from the
      moment its traversal meets it ([h_cand t = Some c], part of its view); the thread that marks c (the first store of
      unlink_node, the linearization point of its erase) linearizes, in the same step and after itself, every reader
      that watches c: right after the mark k is absent.  The status of a thread in the annotated trace is therefore
      NOT part of its view: the view holds a status [h_vs t] that is exact unless the watched node is marked
      ([srel]). *)
From Coq Require Import ZArith List String Bool Lia PeanoNat.
From LV Require Import Base.Conc Base.Events Base.Lin Spec.Specs Proofs.LinProofs.
From LV Require Proofs.MichaelListInv Proofs.MichaelListLin Proofs.MichaelListActs Proofs.MichaelListProofs Proofs.MichaelListFullInv.
From LV Require Import Model.LazyList Proofs.LazyListBase Proofs.LazyListInv Proofs.LazyListSteps Proofs.LazyListActs
                       Proofs.LazyListLin.
Import ListNotations.
Local Open Scope Z_scope.

Notation open_read := MichaelListFullInv.open_read.
Notation obs_res := MichaelListFullInv.obs_res.
Notation lin_read := MichaelListFullInv.lin_read.
Notation op_key := MichaelListFullInv.op_key.
Notation full_hist := MichaelListProofs.full_hist.
Notation fstep := MichaelListProofs.fstep.
Notation code_of := MichaelListProofs.code_of.
Notation fstate := MichaelListFullInv.fstate.

Record aux7 := mkAux7 {
  h_base : aux;
  h_atr : list (aev SetSpec);
  h_vs : nat -> status SetSpec;
  h_cand : nat -> option nat;
  h_code : nat -> Z;
  h_watch : list nat
}.
Definition lview7 := (lview * status SetSpec * option nat * Z)%type.
Definition view7 (a : aux7) (t : nat) : lview7 := (view (h_base a) t, h_vs a t, h_cand a t, h_code a t).

Definition absent_st (k : Z) : status SetSpec := @Linearized SetSpec (SContains k) (RBool false).

(** the status of thread [t] in the annotated trace, relative to its view *)
Definition srel (g : G) (a : aux7) (t : nat) (s : status SetSpec) : Prop :=
  match h_cand a t with
  | None => s = h_vs a t
  | Some c => a_pub (h_base a) c = true /\ open_read (h_vs a t) (SContains (nkey (heap g c))) /\
              (if nmark (heap g c) then s = absent_st (nkey (heap g c)) else s = h_vs a t)
  end.

Record IL7 (g : G) (a : aux7) (tr : list (nat * ev)) (L : list nat) : Prop := {
  il7_run : exists S st, lp_run lp_init (h_atr a) = Some (S, st) /\ abs g L S /\ (forall t, srel g a t (st t));
  il7_hist : exists pend, fold_left fstep tr (([], []) : fstate) = (erase (h_atr a), pend) /\
                          forall t, h_vs a t <> @Idle SetSpec -> code_of t pend = h_code a t;
  il7_watch : NoDup (h_watch a) /\ forall t, h_cand a t <> None -> In t (h_watch a)
}.

Definition Inv7 (g : G) (a : aux7) (tr : list (nat * ev)) : Prop := exists L, IS g (h_base a) L /\ IL7 g a tr L.

(** ** updating the auxiliary state of the acting thread *)
Definition updf {A} (f : nat -> A) (t : nat) (x : A) : nat -> A := fun u => if Nat.eqb u t then x else f u.
Lemma updf_same {A} (f : nat -> A) t x : updf f t x t = x.
Proof. unfold updf. now rewrite Nat.eqb_refl. Qed.
Lemma updf_other {A} (f : nat -> A) t x u : u <> t -> updf f t x u = f u.
Proof. unfold updf. intros H. destruct (Nat.eqb_spec u t); congruence. Qed.

Definition mk_a7 (a : aux7) (t : nat) (pub' : nat -> bool) (succ' : nat -> option nat) (lv' : lview)
                 (atr' : list (aev SetSpec)) (vs' : status SetSpec) (cd' : option nat) (code' : Z) : aux7 :=
  mkAux7 (mk_a (h_base a) t pub' succ' lv') atr' (updf (h_vs a) t vs') (updf (h_cand a) t cd') (updf (h_code a) t code')
         (if in_dec Nat.eq_dec t (h_watch a) then h_watch a else t :: h_watch a).

Lemma view7_mk_same a t pub' succ' lv' atr' vs' cd' code' :
  view7 (mk_a7 a t pub' succ' lv' atr' vs' cd' code') t = (lv', vs', cd', code').
Proof. unfold view7, mk_a7; cbn [h_base h_vs h_cand h_code]. rewrite view_mk_same, !updf_same. reflexivity. Qed.
Lemma view7_mk_other a t pub' succ' lv' atr' vs' cd' code' u : u <> t ->
  view7 (mk_a7 a t pub' succ' lv' atr' vs' cd' code') u = view7 a u.
Proof. intros H. unfold view7, mk_a7; cbn [h_base h_vs h_cand h_code]. rewrite view_mk_other by exact H. rewrite !updf_other by exact H. reflexivity. Qed.
Lemma frame7_mk a t pub' succ' lv' atr' vs' cd' code' : Conc.frame view7 t a (mk_a7 a t pub' succ' lv' atr' vs' cd' code').
Proof. intros u H. now apply view7_mk_other. Qed.

Lemma watch_mk a t : NoDup (h_watch a) ->
  NoDup (if in_dec Nat.eq_dec t (h_watch a) then h_watch a else t :: h_watch a) /\
  In t (if in_dec Nat.eq_dec t (h_watch a) then h_watch a else t :: h_watch a) /\
  (forall u, In u (h_watch a) -> In u (if in_dec Nat.eq_dec t (h_watch a) then h_watch a else t :: h_watch a)).
Proof.
  intros H. destruct (in_dec Nat.eq_dec t (h_watch a)) as [Hi|Hi].
  - auto.
  - split; [constructor; assumption|]. split; [left; reflexivity|intros u Hu; right; exact Hu].
Qed.

(** the status relation of the other threads when marks and keys of published nodes do not change *)
Lemma srel_other g g' a t pub' succ' lv' atr' vs' cd' code' u s :
  u <> t -> (forall x, a_pub (h_base a) x = true -> pub' x = true) ->
  (forall x, a_pub (h_base a) x = true -> nkey (heap g' x) = nkey (heap g x) /\ nmark (heap g' x) = nmark (heap g x)) ->
  srel g a u s -> srel g' (mk_a7 a t pub' succ' lv' atr' vs' cd' code') u s.
Proof.
  intros Hu Hp Hh. unfold srel, mk_a7; cbn [h_cand h_vs h_base a_pub mk_a]. rewrite !updf_other by exact Hu.
  destruct (h_cand a u) as [c|]; auto. intros (H1 & H2 & H3). destruct (Hh c H1) as [K1 K2]. rewrite K1, K2. auto.
Qed.

Lemma fold_fstep_app tr tr' : fold_left fstep (tr ++ tr') (([], []) : fstate) = fold_left fstep tr' (fold_left fstep tr ([], [])).
Proof. apply fold_left_app. Qed.

(** ** an access of thread [t] that does not touch the annotated trace: marks/keys of published nodes unchanged,
    the own view status and candidate unchanged *)
Lemma IL7_acc g g' a t pub' succ' lv' L L' tr kd ob ok :
  IL7 g a tr L ->
  (forall S, abs g L S -> abs g' L' S) ->
  (forall x, a_pub (h_base a) x = true -> pub' x = true) ->
  (forall x, a_pub (h_base a) x = true -> nkey (heap g' x) = nkey (heap g x) /\ nmark (heap g' x) = nmark (heap g x)) ->
  IL7 g' (mk_a7 a t pub' succ' lv' (h_atr a) (h_vs a t) (h_cand a t) (h_code a t)) (tr ++ Conc.tag t [EvAcc kd ob ok]) L'.
Proof.
  intros [(S & st & H1 & H2 & H3) (pend & H4 & H5) (W1 & W2)] Habs Hp Hh. constructor; cbn [h_atr h_vs h_cand h_code h_watch mk_a7].
  - exists S, st. split; [exact H1|]. split; [apply Habs; exact H2|]. intros u.
    destruct (Nat.eq_dec u t) as [->|Hu].
    + specialize (H3 t). unfold srel in *. cbn [h_cand h_vs h_base mk_a7 a_pub mk_a]. rewrite !updf_same.
      destruct (h_cand a t) as [c|]; auto. destruct H3 as (K1 & K2 & K3). destruct (Hh c K1) as [J1 J2]. rewrite J1, J2. auto.
    + apply (srel_other g g' a t pub' succ' lv' _ _ _ _ u (st u)); auto.
  - exists pend. split; [rewrite fold_fstep_app, H4; reflexivity|].
    intros u Hu. destruct (Nat.eq_dec u t) as [->|Hn]; [rewrite updf_same in Hu; rewrite updf_same; apply H5; exact Hu|rewrite updf_other in Hu by exact Hn; rewrite updf_other by exact Hn; apply H5; exact Hu].
  - destruct (watch_mk a t W1) as (K1 & K2 & K3). split; [exact K1|]. intros u Hu.
    destruct (Nat.eq_dec u t) as [->|Hn]; [exact K2|]. rewrite updf_other in Hu by exact Hn. apply K3. apply W2. exact Hu.
Qed.

(** ** (re-)linearization of the acting thread: an own observation, or a real linearization point.
    [cd']: the new candidate; when it is [Some c] the node is unmarked in the new state, or the new status is the
    "absent" one *)
Lemma IL7_lin g g' a t pub' succ' lv' L L' tr kd ob ok o vs' cd' :
  IL7 g a tr L -> (exists s0, srel g a t s0 /\ open_read s0 o) -> open_read (h_vs a t) o ->
  (forall x, a_pub (h_base a) x = true -> pub' x = true) ->
  (forall x, a_pub (h_base a) x = true -> nkey (heap g' x) = nkey (heap g x) /\ nmark (heap g' x) = nmark (heap g x)) ->
  (forall S, abs g L S -> abs g' L' (fst (set_step S o)) /\ vs' = @Linearized SetSpec o (snd (set_step S o))) ->
  (match cd' with
   | None => True
   | Some c => pub' c = true /\ o = SContains (nkey (heap g' c)) /\
               (nmark (heap g' c) = true -> vs' = absent_st (nkey (heap g' c)))
   end) ->
  exists atr', IL7 g' (mk_a7 a t pub' succ' lv' atr' vs' cd' (h_code a t)) (tr ++ Conc.tag t [EvAcc kd ob ok]) L'.
Proof.
  intros [(S & st & H1 & H2 & H3) (pend & H4 & H5) (W1 & W2)] (s0 & Hs0 & Hop0) Hopv Hp Hh Habs Hcd.
  destruct (Habs S H2) as [Ha Hl].
  (* the actual status of t is open *)
  assert (Hst : open_read (st t) o).
  { pose proof (H3 t) as K. unfold srel in K, Hs0. destruct (h_cand a t) as [c|].
    - destruct K as (K1 & K2 & K3), Hs0 as (_ & _ & J3). destruct (nmark (heap g c)); congruence.
    - congruence. }
  destruct (MichaelListFullInv.to_pending _ _ _ _ _ H1 Hst) as (atr0 & st0 & K1 & K2 & K3 & K4).
  exists (atr0 ++ [ALin t]). constructor; cbn [h_atr h_vs h_cand h_code h_watch mk_a7].
  - exists (fst (set_step S o)), (upd st0 t (@Linearized SetSpec o (snd (set_step S o)))). split; [|split; [exact Ha|]].
    + rewrite (MichaelListInv.lp_run_snoc _ _ _ K1). cbn [lp_step]. rewrite K2. reflexivity.
    + intros u. destruct (Nat.eq_dec u t) as [->|Hu].
      * unfold upd. rewrite Nat.eqb_refl. unfold srel. cbn [h_cand h_vs h_base mk_a7 a_pub mk_a]. rewrite !updf_same.
        destruct cd' as [c|]; [|congruence]. destruct Hcd as (C1 & C2 & C3). split; [exact C1|]. subst o.
        split.
        -- rewrite Hl. right. eexists. split; [reflexivity|]. destruct (snd (set_step S (SContains (nkey (heap g' c))))); reflexivity.
        -- destruct (nmark (heap g' c)) eqn:Em; [rewrite <- Hl; apply C3; reflexivity|congruence].
      * unfold upd. destruct (Nat.eqb_spec u t); [contradiction|]. rewrite K3 by exact Hu. apply (srel_other g g' a t pub' succ' lv' _ _ _ _ u (st u)); auto.
  - exists pend. split.
    + rewrite fold_fstep_app, H4, erase_app. cbn [erase Conc.tag map fold_left MichaelListProofs.fstep]. rewrite app_nil_r, K4. reflexivity.
    + intros u Hu. destruct (Nat.eq_dec u t) as [->|Hn]; [rewrite updf_same|rewrite updf_other in Hu by exact Hn; rewrite updf_other by exact Hn; apply H5; exact Hu].
      apply H5. destruct Hopv as [Hp0|(r & Hp0 & _)]; rewrite Hp0; discriminate.
  - destruct (watch_mk a t W1) as (J1 & J2 & J3). split; [exact J1|]. intros u Hu.
    destruct (Nat.eq_dec u t) as [->|Hn]; [exact J2|]. rewrite updf_other in Hu by exact Hn. apply J3. apply W2. exact Hu.
Qed.

(** ** helping: linearize every thread of [W] that watches [c], after the marking store *)
Definition watches (a : aux7) (c : nat) (u : nat) : bool :=
  match h_cand a u with Some c' => Nat.eqb c' c | None => false end.

Lemma help_loop a c kc : forall (W : list nat) (atr : list (aev SetSpec)) S st,
  lp_run lp_init atr = Some (S, st) -> zmem kc S = false ->
  (forall u, In u W -> watches a c u = true -> open_read (st u) (SContains kc)) ->
  exists atr' st', lp_run lp_init atr' = Some (S, st') /\ erase atr' = erase atr /\
    (forall u, In u W -> watches a c u = true -> st' u = absent_st kc) /\
    (forall u, ~ (In u W /\ watches a c u = true) -> st' u = st u).
Proof.
  induction W as [|w W IH]; intros atr S st Hr Hz Hop.
  - exists atr, st. split; [exact Hr|]. split; [reflexivity|]. split; [intros u []|auto].
  - destruct (IH atr S st Hr Hz (fun u Hu => Hop u (or_intror Hu))) as (atr1 & st1 & R1 & E1 & A1 & O1).
    destruct (watches a c w) eqn:Ew.
    + destruct (in_dec Nat.eq_dec w W) as [Hin|Hnin].
      * (* already done *)
        exists atr1, st1. split; [exact R1|]. split; [exact E1|]. split.
        -- intros u [<-|Hu] Hwu; [apply A1; assumption|apply A1; assumption].
        -- intros u Hn. apply O1. intros [Hu Hwu]. apply Hn. split; [right; exact Hu|exact Hwu].
      * assert (Hw : open_read (st1 w) (SContains kc)).
        { rewrite O1; [apply Hop; [left; reflexivity|exact Ew]|]. intros [Hu _]. contradiction. }
        destruct (MichaelListFullInv.to_pending _ _ _ _ _ R1 Hw) as (atr0 & st0 & K1 & K2 & K3 & K4).
        exists (atr0 ++ [ALin w]), (upd st0 w (absent_st kc)). split; [|split; [|split]].
        -- rewrite (MichaelListInv.lp_run_snoc _ _ _ K1). cbn [lp_step]. rewrite K2. unfold absent_st. cbn. rewrite Hz. reflexivity.
        -- rewrite erase_app. cbn [erase]. rewrite app_nil_r, K4. exact E1.
        -- intros u [<-|Hu] Hwu; [unfold upd; rewrite Nat.eqb_refl; reflexivity|].
           unfold upd. destruct (Nat.eqb_spec u w) as [->|Hne]; [reflexivity|]. rewrite K3 by exact Hne. apply A1; assumption.
        -- intros u Hn. unfold upd. destruct (Nat.eqb_spec u w) as [->|Hne]; [exfalso; apply Hn; split; [left; reflexivity|exact Ew]|].
           rewrite K3 by exact Hne. apply O1. intros [Hu Hwu]. apply Hn. split; [right; exact Hu|exact Hwu].
    + exists atr1, st1. split; [exact R1|]. split; [exact E1|]. split.
      * intros u [<-|Hu] Hwu; [congruence|apply A1; assumption].
      * intros u Hn. apply O1. intros [Hu Hwu]. apply Hn. split; [right; exact Hu|exact Hwu].
Qed.

(** the marking store of unlink_node: linearization point of the erase and of every reader that watches the node *)
Lemma IL7_mark g a t succ' lv' L tr c kc kd ob ok :
  IL7 g a tr L -> h_cand a t = None -> open_read (h_vs a t) (SErase kc) ->
  a_pub (h_base a) c = true -> nkey (heap g c) = kc -> nmark (heap g c) = false -> In c L ->
  (forall x, In x L -> nkey (heap g x) = kc -> x = c) ->
  exists atr', IL7 (set_next g c HEAD true)
                   (mk_a7 a t (a_pub (h_base a)) succ' lv' atr' (@Linearized SetSpec (SErase kc) (RBool true)) None (h_code a t))
                   (tr ++ Conc.tag t [EvAcc kd ob ok]) L.
Proof.
  intros [(S & st & H1 & H2 & H3) (pend & H4 & H5) (W1 & W2)] Hct Hop Hcp Hck Hcm HcL Huniq.
  set (g' := set_next g c HEAD true).
  assert (Hkey : forall x, nkey (heap g' x) = nkey (heap g x)).
  { intros x. unfold g'. destruct (Nat.eq_dec x c) as [->|Hx]; [rewrite heap_set_next_same; reflexivity|now rewrite heap_set_next_other]. }
  assert (Hmark : forall x, x <> c -> nmark (heap g' x) = nmark (heap g x)).
  { intros x Hx. unfold g'. now rewrite heap_set_next_other. }
  assert (Hmc : nmark (heap g' c) = true) by (unfold g'; rewrite heap_set_next_same; reflexivity).
  assert (Hst : st t = h_vs a t) by (pose proof (H3 t) as K; unfold srel in K; rewrite Hct in K; exact K).
  assert (Hin : zmem kc S = true) by (apply H2; exists c; auto).
  rewrite <- Hst in Hop.
  destruct (MichaelListFullInv.to_pending _ _ _ _ _ H1 Hop) as (atr0 & st0 & K1 & K2 & K3 & K4).
  set (S1 := zdel kc S).
  assert (R1 : lp_run lp_init (atr0 ++ [ALin t]) = Some (S1, upd st0 t (@Linearized SetSpec (SErase kc) (RBool true)))).
  { rewrite (MichaelListInv.lp_run_snoc _ _ _ K1). cbn [lp_step]. rewrite K2. cbn. rewrite Hin. reflexivity. }
  assert (Hz1 : zmem kc S1 = false).
  { destruct (zmem kc S1) eqn:E; auto. apply MichaelListActs.zmem_zdel in E. destruct E as [E _]. congruence. }
  destruct (help_loop a c kc (h_watch a) _ _ _ R1 Hz1) as (atr' & st' & R2 & E2 & A2 & O2).
  { intros u Hu Hw. unfold watches in Hw. destruct (h_cand a u) as [c'|] eqn:Ecu; [|discriminate]. apply Nat.eqb_eq in Hw. subst c'.
    assert (Hut : u <> t) by (intros ->; congruence).
    unfold upd. destruct (Nat.eqb_spec u t); [contradiction|]. rewrite K3 by exact Hut.
    pose proof (H3 u) as K. unfold srel in K. rewrite Ecu in K. destruct K as (_ & J2 & J3). rewrite Hcm in J3. rewrite J3, <- Hck. exact J2. }
  exists atr'. constructor; cbn [h_atr h_vs h_cand h_code h_watch mk_a7].
  - exists S1, st'. split; [exact R2|]. split.
    + (* the abstract set loses kc *)
      intros k0. unfold S1. rewrite MichaelListActs.zmem_zdel, (H2 k0). split.
      * intros [Hne (x & X1 & X2 & X3)]. exists x. assert (x <> c) by (intros ->; congruence). rewrite Hkey, Hmark; auto.
      * intros (x & X1 & X2 & X3). assert (Hxc : x <> c) by (intros ->; congruence).
        rewrite Hkey in X3. rewrite Hmark in X2 by exact Hxc. split; [|exists x; auto].
        intros ->. apply Hxc. apply Huniq; auto.
    + intros u. destruct (Nat.eq_dec u t) as [->|Hu].
      * unfold srel. cbn [h_cand h_vs mk_a7]. rewrite !updf_same.
        rewrite O2; [unfold upd; rewrite Nat.eqb_refl; reflexivity|]. intros [_ Hw]. unfold watches in Hw. rewrite Hct in Hw. discriminate.
      * unfold srel. cbn [h_cand h_vs h_base mk_a7 a_pub mk_a]. rewrite !updf_other by exact Hu.
        pose proof (H3 u) as K. unfold srel in K.
        destruct (h_cand a u) as [c'|] eqn:Ecu.
        -- destruct K as (J1 & J2 & J3). rewrite Hkey. split; [exact J1|]. split; [exact J2|].
           destruct (Nat.eq_dec c' c) as [->|Hcc].
           ++ rewrite Hmc. rewrite Hck. apply A2; [apply W2; congruence|]. unfold watches. rewrite Ecu. apply Nat.eqb_refl.
           ++ rewrite (Hmark c' Hcc).
              assert (Es : st' u = st u).
              { rewrite O2; [unfold upd; destruct (Nat.eqb_spec u t); [contradiction|]; apply K3; exact Hu|].
                intros [_ Hw]. unfold watches in Hw. rewrite Ecu in Hw. apply Nat.eqb_eq in Hw. contradiction. }
              rewrite Es. exact J3.
        -- assert (Es : st' u = st u).
           { rewrite O2; [unfold upd; destruct (Nat.eqb_spec u t); [contradiction|]; apply K3; exact Hu|].
             intros [_ Hw]. unfold watches in Hw. rewrite Ecu in Hw. discriminate. }
           rewrite Es. exact K.
  - exists pend. split.
    + rewrite fold_fstep_app, H4, E2, erase_app. cbn [erase Conc.tag map fold_left MichaelListProofs.fstep]. rewrite app_nil_r, K4. reflexivity.
    + intros u Hu. destruct (Nat.eq_dec u t) as [->|Hn]; [rewrite updf_same|rewrite updf_other in Hu by exact Hn; rewrite updf_other by exact Hn; apply H5; exact Hu].
      apply H5. rewrite <- Hst. destruct Hop as [Hp0|(r & Hp0 & _)]; rewrite Hp0; discriminate.
  - destruct (watch_mk a t W1) as (J1 & J2 & J3). split; [exact J1|]. intros u Hu.
    destruct (Nat.eq_dec u t) as [->|Hn]; [exact J2|]. rewrite updf_other in Hu by exact Hn. apply J3. apply W2. exact Hu.
Qed.

(** ** client events (the acting thread watches nothing) *)
Lemma srel_keep g a t lv' atr' vs' cd' code' u s :
  u <> t -> srel g a u s -> srel g (mk_a7 a t (a_pub (h_base a)) (a_succ (h_base a)) lv' atr' vs' cd' code') u s.
Proof. intros Hu H. apply (srel_other g g a t _ _ lv' atr' vs' cd' code' u s); auto. Qed.

Lemma IL7_cli_other g a t lv' L tr name args :
  IL7 g a tr L -> String.eqb name "inv" = false -> String.eqb name "ret" = false ->
  IL7 g (mk_a7 a t (a_pub (h_base a)) (a_succ (h_base a)) lv' (h_atr a) (h_vs a t) (h_cand a t) (h_code a t)) (tr ++ Conc.tag t [EvCli name args]) L.
Proof.
  intros [(S & st & H1 & H2 & H3) (pend & H4 & H5) (W1 & W2)] N1 N2. constructor; cbn [h_atr h_vs h_cand h_code h_watch mk_a7].
  - exists S, st. split; [exact H1|]. split; [exact H2|]. intros u. destruct (Nat.eq_dec u t) as [->|Hu].
    + specialize (H3 t). unfold srel in *. cbn [h_cand h_vs h_base mk_a7 a_pub mk_a]. rewrite !updf_same. exact H3.
    + apply srel_keep; auto.
  - exists pend. split; [rewrite fold_fstep_app, H4; cbn [Conc.tag map fold_left MichaelListProofs.fstep]; rewrite N1, N2; reflexivity|].
    intros u Hu. destruct (Nat.eq_dec u t) as [->|Hn]; [rewrite updf_same in Hu; rewrite updf_same; apply H5; exact Hu|rewrite updf_other in Hu by exact Hn; rewrite updf_other by exact Hn; apply H5; exact Hu].
  - destruct (watch_mk a t W1) as (K1 & K2 & K3). split; [exact K1|]. intros u Hu.
    destruct (Nat.eq_dec u t) as [->|Hn]; [exact K2|]. rewrite updf_other in Hu by exact Hn. apply K3. apply W2. exact Hu.
Qed.

Lemma IL7_inv g a t lv' L tr c k x v :
  IL7 g a tr L -> h_vs a t = @Idle SetSpec -> h_cand a t = None ->
  IL7 g (mk_a7 a t (a_pub (h_base a)) (a_succ (h_base a)) lv' (h_atr a ++ [@AInv SetSpec t (spec_op c k x)])
               (@Pending SetSpec (spec_op c k x)) None c)
        (tr ++ Conc.tag t [EvCli "inv" [c; k; x; v]]) L.
Proof.
  intros [(S & st & H1 & H2 & H3) (pend & H4 & H5) (W1 & W2)] Hi Hc. constructor; cbn [h_atr h_vs h_cand h_code h_watch mk_a7].
  - assert (Hst : st t = @Idle SetSpec) by (pose proof (H3 t) as K; unfold srel in K; rewrite Hc in K; congruence).
    exists S, (upd st t (@Pending SetSpec (spec_op c k x))). split; [|split; [exact H2|]].
    + rewrite (MichaelListInv.lp_run_snoc _ _ _ H1). cbn [lp_step]. rewrite Hst. reflexivity.
    + intros u. unfold upd. destruct (Nat.eqb_spec u t) as [->|Hu].
      * unfold srel. cbn [h_cand h_vs mk_a7]. rewrite !updf_same. reflexivity.
      * apply srel_keep; auto.
  - exists ((t, c) :: pend). split.
    + rewrite fold_fstep_app, H4, erase_app. cbn [erase Conc.tag map fold_left MichaelListProofs.fstep String.eqb Ascii.eqb Bool.eqb]. reflexivity.
    + intros u Hu. destruct (Nat.eq_dec u t) as [->|Hn].
      * rewrite updf_same. cbn [MichaelListProofs.code_of]. rewrite Nat.eqb_refl. reflexivity.
      * rewrite updf_other in Hu by exact Hn. rewrite updf_other by exact Hn.
        rewrite MichaelListFullInv.code_of_other by exact Hn. apply H5. exact Hu.
  - destruct (watch_mk a t W1) as (K1 & K2 & K3). split; [exact K1|]. intros u Hu.
    destruct (Nat.eq_dec u t) as [->|Hn]; [exact K2|]. rewrite updf_other in Hu by exact Hn. apply K3. apply W2. exact Hu.
Qed.

Lemma IL7_ret g a t lv' L tr o r a1 b1 :
  IL7 g a tr L -> h_vs a t = @Linearized SetSpec o r -> h_cand a t = None ->
  res_of o a1 b1 = r -> (Z.eqb (h_code a t) 6 && Z.eqb a1 0 = false) ->
  IL7 g (mk_a7 a t (a_pub (h_base a)) (a_succ (h_base a)) lv' (h_atr a ++ [@ARes SetSpec t r]) (@Idle SetSpec) None (h_code a t))
        (tr ++ Conc.tag t [EvCli "ret" [a1; b1]]) L.
Proof.
  intros [(S & st & H1 & H2 & H3) (pend & H4 & H5) (W1 & W2)] Hs Hc Hr Hcd. constructor; cbn [h_atr h_vs h_cand h_code h_watch mk_a7].
  - assert (Hst : st t = @Linearized SetSpec o r) by (pose proof (H3 t) as K; unfold srel in K; rewrite Hc in K; congruence).
    exists S, (upd st t (@Idle SetSpec)). split; [|split; [exact H2|]].
    + rewrite (MichaelListInv.lp_run_snoc _ _ _ H1). cbn [lp_step]. rewrite Hst, MichaelListLin.res_eqb_refl. reflexivity.
    + intros u. unfold upd. destruct (Nat.eqb_spec u t) as [->|Hu].
      * unfold srel. cbn [h_cand h_vs mk_a7]. rewrite !updf_same. reflexivity.
      * apply srel_keep; auto.
  - assert (Hst : st t = @Linearized SetSpec o r) by (pose proof (H3 t) as K; unfold srel in K; rewrite Hc in K; congruence).
    destruct (MichaelListLin.lp_open_split _ _ _ t o H1) as (A & B & EA & HB & _); [rewrite Hst; reflexivity|].
    destruct (MichaelListInv.erase_split_last t o A B HB) as [K1 _]. rewrite <- EA in K1.
    exists pend. split.
    + rewrite fold_fstep_app, H4, erase_app. cbn [erase Conc.tag map fold_left MichaelListProofs.fstep String.eqb Ascii.eqb Bool.eqb].
      rewrite K1. rewrite (H5 t) by (rewrite Hs; discriminate). rewrite Hcd, Hr. reflexivity.
    + intros u Hu. destruct (Nat.eq_dec u t) as [->|Hn]; [rewrite updf_same in Hu; congruence|].
      rewrite updf_other in Hu by exact Hn. rewrite updf_other by exact Hn. apply H5. exact Hu.
  - destruct (watch_mk a t W1) as (K1 & K2 & K3). split; [exact K1|]. intros u Hu.
    destruct (Nat.eq_dec u t) as [->|Hn]; [exact K2|]. rewrite updf_other in Hu by exact Hn. apply K3. apply W2. exact Hu.
Qed.

(** a failed unlink is not an operation of the sequential set: it is deleted *)
Lemma IL7_ret_drop g a t lv' L tr o a1 b1 :
  IL7 g a tr L -> open_read (h_vs a t) o -> h_cand a t = None ->
  Z.eqb (h_code a t) 6 && Z.eqb a1 0 = true ->
  exists atr', IL7 g (mk_a7 a t (a_pub (h_base a)) (a_succ (h_base a)) lv' atr' (@Idle SetSpec) None (h_code a t)) (tr ++ Conc.tag t [EvCli "ret" [a1; b1]]) L.
Proof.
  intros [(S & st & H1 & H2 & H3) (pend & H4 & H5) (W1 & W2)] Hop Hc Hcd.
  assert (Hst : st t = h_vs a t) by (pose proof (H3 t) as K; unfold srel in K; rewrite Hc in K; exact K).
  assert (Hne : h_vs a t <> @Idle SetSpec) by (destruct Hop as [Hp|(r & Hp & _)]; rewrite Hp; discriminate).
  rewrite <- Hst in Hop.
  destruct (MichaelListFullInv.to_pending _ _ _ _ _ H1 Hop) as (atr0 & st0 & K1 & K2 & K3 & K4).
  destruct (MichaelListLin.lp_open_split _ _ _ t o K1) as (A & B & EA & HB & HP); [rewrite K2; reflexivity|].
  assert (HB' : forall e, In e B -> MichaelListInv.aev_tid e <> t) by (apply HP; exact K2).
  rewrite EA in K1. destruct (MichaelListInv.lp_run_remove A B t o S st0 K1 HB') as (st' & J1 & J2 & J3).
  exists (A ++ B). constructor; cbn [h_atr h_vs h_cand h_code h_watch mk_a7].
  - exists S, st'. split; [exact J1|]. split; [exact H2|].
    intros u. destruct (Nat.eq_dec u t) as [->|Hu].
    + unfold srel. cbn [h_cand h_vs mk_a7]. rewrite !updf_same. exact J3.
    + rewrite J2 by exact Hu. rewrite K3 by exact Hu. apply srel_keep; auto.
  - destruct (MichaelListInv.erase_split_last t o A B HB) as [E1 E2]. rewrite <- EA, K4 in E1, E2.
    exists pend. split.
    + rewrite fold_fstep_app, H4. cbn [Conc.tag map fold_left MichaelListProofs.fstep String.eqb Ascii.eqb Bool.eqb].
      rewrite E1. rewrite (H5 t Hne), Hcd. rewrite E2. reflexivity.
    + intros u Hu. destruct (Nat.eq_dec u t) as [->|Hn]; [rewrite updf_same in Hu; congruence|].
      rewrite updf_other in Hu by exact Hn. rewrite updf_other by exact Hn. apply H5. exact Hu.
  - destruct (watch_mk a t W1) as (K5 & K6 & K7). split; [exact K5|]. intros u Hu.
    destruct (Nat.eq_dec u t) as [->|Hn]; [exact K6|]. rewrite updf_other in Hu by exact Hn. apply K7. apply W2. exact Hu.
Qed.

(** an access that changes the acting thread's view status / candidate without touching the annotated trace *)
Lemma IL7_accv g g' a t pub' succ' lv' L L' tr kd ob ok vs' cd' :
  IL7 g a tr L ->
  (forall S, abs g L S -> abs g' L' S) ->
  (forall x, a_pub (h_base a) x = true -> pub' x = true) ->
  (forall x, a_pub (h_base a) x = true -> nkey (heap g' x) = nkey (heap g x) /\ nmark (heap g' x) = nmark (heap g x)) ->
  (forall s, srel g a t s -> srel g' (mk_a7 a t pub' succ' lv' (h_atr a) vs' cd' (h_code a t)) t s) ->
  (vs' <> @Idle SetSpec -> h_vs a t <> @Idle SetSpec) ->
  IL7 g' (mk_a7 a t pub' succ' lv' (h_atr a) vs' cd' (h_code a t)) (tr ++ Conc.tag t [EvAcc kd ob ok]) L'.
Proof.
  intros [(S & st & H1 & H2 & H3) (pend & H4 & H5) (W1 & W2)] Habs Hp Hh Hnew Hidle. constructor; cbn [h_atr h_vs h_cand h_code h_watch mk_a7].
  - exists S, st. split; [exact H1|]. split; [apply Habs; exact H2|]. intros u.
    destruct (Nat.eq_dec u t) as [->|Hu]; [apply Hnew; apply H3|].
    apply (srel_other g g' a t pub' succ' lv' _ _ _ _ u (st u)); auto.
  - exists pend. split; [rewrite fold_fstep_app, H4; reflexivity|].
    intros u Hu. destruct (Nat.eq_dec u t) as [->|Hn]; [rewrite updf_same in Hu; rewrite updf_same; apply H5; apply Hidle; exact Hu|rewrite updf_other in Hu by exact Hn; rewrite updf_other by exact Hn; apply H5; exact Hu].
  - destruct (watch_mk a t W1) as (K1 & K2 & K3). split; [exact K1|]. intros u Hu.
    destruct (Nat.eq_dec u t) as [->|Hn]; [exact K2|]. rewrite updf_other in Hu by exact Hn. apply K3. apply W2. exact Hu.
Qed.
