(** * RcuPtr (C04): every client program is safe for the extended invariant [XInv] of LV.Proofs.RcuPtrXDisp (strict or not);
      the theorems for every schedule: a disposer never runs while the disposing thread is inside a read-side section;
      a release() inside the lock is never followed by a disposal before the section is closed. *)
From Coq Require Import ZArith List String Bool Lia PeanoNat.
From LV Require Import Base.Conc Base.Events Model.RcuGp Model.RcuPtr Proofs.RcuBits Proofs.RcuGpInv Proofs.RcuGpSteps
  Proofs.RcuGpWriter Proofs.RcuGpSafe Proofs.RcuPtrInv Proofs.RcuPtrBase Proofs.RcuPtrSafe Proofs.RcuPtrXDisp.
Import ListNotations.
Local Open Scope string_scope.
Local Open Scope list_scope.
Local Open Scope Z_scope.

Lemma xsafe_payload {R} t p n (k : pprog R) l Q :
  neutral (EvCli n [p]) -> xsafe t k l Q -> xsafe t (Act (a_pl_ld p) (fun _ => Emit (cli n [p]) k)) l Q.
Proof.
  intros N H.
  change (Act (a_pl_ld p) (fun _ => Emit (cli n [p]) k))
    with (pbind (Act (a_pl_ld p) (fun _ => Emit (cli n [p]) (Ret tt))) (fun _ => k)).
  apply xsafe_quiet_then; [apply pquiet_payload; [exact N|exact I]|]. intros _. exact H.
Qed.

Section XOps.
  Variables (strict : bool) (fuel : nat) (t : nat).

  Lemma xrelease_then rec d ps l (s' : pst) :
    PIdle rec d l -> s_rec s' = rec -> s_depth s' = d -> (rec = None -> d = O) ->
    xsafe t (pbind (do_release fuel ps) (fun ok => if ok then Ret (Some s') else Ret None)) l PQOp.
  Proof.
    intros HI E1 E2 E3. apply xsafe_bind. apply xsafe_do_release with (rec := rec) (d := d); [exact HI| |intros l'; exact I].
    intros l' HI'. cbn. split; [rewrite E1, E2; exact HI'|rewrite E1, E2; exact E3].
  Qed.

  Lemma xerase_loop_safe n m : forall ch l (Q : option (Z * list Z) -> PL -> Prop),
    PIdle (Some m) O l -> (forall r l', PIdle (Some m) O l' -> Q (Some r) l') -> (forall l', Q None l') ->
    xsafe t (erase_loop n fuel m ch) l Q.
  Proof.
    induction n as [|n IH]; intros ch l Q HI HS HN; cbn [erase_loop]; [apply HN|].
    apply xsafe_bind. apply xsafe_rlock; [exact HI|reflexivity|]. intros l1 HI1.
    apply xsafe_quiet_then; [apply pquiet_remove_try|].
    intros [ch1|p ch1|ch1|]; [| | |apply HN].
    - apply xsafe_bind. apply xsafe_runlock; [exact HI1|]. intros l2 HI2. apply HS; exact HI2.
    - apply xsafe_bind. apply xsafe_runlock; [exact HI1|]. intros l2 HI2. apply HS; exact HI2.
    - apply xsafe_bind. apply xsafe_runlock; [exact HI1|]. intros l2 HI2. apply IH; auto.
  Qed.

  Lemma xrun_pop_safe s o l : PIdleS s l -> xsafe t (run_pop strict fuel t s o) l PQOp.
  Proof.
    intros (HI & Hnd). destruct s as [rec d rpp rpc xp]. cbn [s_rec s_depth s_rpp s_rpc s_xp] in *.
    destruct o; cbn [run_pop s_rec s_depth s_rpp s_rpc s_xp]; unfold outside; cbn [s_rec s_depth s_rpp s_rpc s_xp].
    - (* attach *) destruct rec as [m|]; [split; assumption|]. rewrite (Hnd eq_refl) in *.
      destruct l as [la lb]. apply xsafe_pre; [apply nd_lift; apply nd_bquiet; apply bquiet_attach|].
      eapply psafe_weaken; [|apply psafe_lift; apply safe_attach; exact HI].
      intros [m|] l' (HQ & _); cbn in HQ; [|exact I].
      apply xsafe_emit_neutral; [neu|]. split; [exact HQ|discriminate].
    - (* detach *) destruct rec as [m|]; [|split; assumption]. destruct d as [|d]; [|split; assumption].
      destruct l as [la lb]. apply xsafe_pre; [apply nd_lift; apply nd_bquiet; apply bquiet_detach|].
      eapply psafe_weaken; [|apply psafe_lift; apply safe_detach with (Q := fun _ l' => Idle None O l'); [exact HI|auto]].
      intros [] l' (HQ & _). apply xsafe_emit_neutral; [neu|]. split; [exact HQ|reflexivity].
    - (* rlock *) destruct rec as [m|]; [|split; assumption]. destruct (depth_ok d) eqn:Hok; [|split; assumption].
      apply xsafe_bind. apply xsafe_rlock; auto. intros l' HI'. split; [exact HI'|discriminate].
    - (* runlock *) destruct rec as [m|]; [|split; assumption]. destruct d as [|d]; [split; assumption|].
      apply xsafe_bind. apply xsafe_runlock; auto. intros l' HI'. split; [exact HI'|discriminate].
    - (* insert *) destruct rec as [m|]; [|split; assumption]. destruct d as [|d]; cbn [Nat.eqb]; [|split; assumption].
      unfold op_insert. apply xsafe_bind. apply xsafe_rlock; [exact HI|reflexivity|]. intros l1 HI1.
      apply xsafe_quiet_then; [apply pquiet_insert_loop|]. intros [[p ch]|]; [|exact I].
      apply xsafe_bind. apply xsafe_runlock; [exact HI1|]. intros l2 HI2.
      apply xsafe_emit_neutral; [neu|]. apply xrelease_then with (rec := Some m) (d := O); auto; try discriminate.
    - (* find *) destruct rec as [m|]; [|split; assumption]. destruct d as [|d]; cbn [Nat.eqb]; [|split; assumption].
      unfold op_find. apply xsafe_bind. apply xsafe_rlock; [exact HI|reflexivity|]. intros l1 HI1.
      apply xsafe_quiet_then; [apply pquiet_search|]. intros [[p ch]|]; [|exact I].
      apply xsafe_quiet_then.
      { destruct (p =? 0); [exact I|]. apply pquiet_payload; [neu|exact I]. }
      intros _. apply xsafe_bind. apply xsafe_runlock; [exact HI1|]. intros l2 HI2.
      apply xrelease_then with (rec := Some m) (d := O); auto; try discriminate.
    - (* get *) destruct (Nat.eqb d 0); cbv iota; [split; assumption|]. unfold op_get.
      apply xsafe_quiet_then; [apply pquiet_search|]. intros [[p ch]|]; [|exact I].
      apply xsafe_emit_neutral; [neu|]. split; assumption.
    - (* deref *) destruct (Nat.eqb d 0 || (rpp =? 0)); cbv iota; [split; assumption|]. unfold op_deref. cbn [s_rpp].
      apply xsafe_payload; [neu|]. split; assumption.
    - (* rp_release *) destruct (Nat.eqb d 0 || negb strict); cbv iota; [|split; assumption]. unfold op_rp_release. cbn [s_rpc s_rec s_depth s_xp].
      apply xrelease_then with (rec := rec) (d := d); auto.
    - (* erase *) destruct rec as [m|]; [|split; assumption]. destruct d as [|d]; cbn [Nat.eqb]; [|split; assumption].
      unfold op_erase. apply xsafe_bind. apply xerase_loop_safe; [exact HI| |intros l'; exact I].
      intros [p ch] l1 HI1. apply xsafe_emit_neutral; [neu|].
      apply xrelease_then with (rec := Some m) (d := O); auto; try discriminate.
    - (* extract *) destruct rec as [m|]; [|split; assumption].
      destruct d as [|d]; cbn [Nat.eqb andb]; [|split; assumption]. destruct (xp =? 0); cbv iota; [|split; assumption].
      unfold op_extract. apply xsafe_bind. apply xsafe_rlock; [exact HI|reflexivity|]. intros l1 HI1.
      apply xsafe_quiet_then; [apply pquiet_extract_loop|]. intros [[p ch]|]; [|exact I].
      apply xsafe_bind. apply xsafe_runlock; [exact HI1|]. intros l2 HI2.
      apply xsafe_emit_neutral; [neu|]. apply xrelease_then with (rec := Some m) (d := O); auto; try discriminate.
    - (* xderef *) destruct (xp =? 0); cbv iota; [split; assumption|]. unfold op_xderef. cbn [s_xp].
      apply xsafe_payload; [neu|]. split; assumption.
    - (* xp_release *) destruct (xp =? 0); cbv iota; [split; assumption|].
      destruct (Nat.eqb d 0 || negb strict); cbv iota; [|split; assumption]. unfold op_xp_release. cbn [s_rpc s_rec s_depth s_xp s_rpp].
      apply xrelease_then with (rec := rec) (d := d); auto.
  Qed.

  Lemma xp_leave_all_safe m d : forall l (Q : unit -> PL -> Prop),
    PIdle (Some m) d l -> (forall l', PIdle (Some m) O l' -> Q tt l') -> xsafe t (p_leave_all m d) l Q.
  Proof.
    induction d as [|d IH]; intros l Q HI HQ; cbn [p_leave_all].
    - apply HQ; exact HI.
    - apply xsafe_bind. apply xsafe_runlock; [exact HI|]. intros l' HI'. apply IH; auto.
  Qed.

  Lemma xp_finish_safe s l : PIdleS s l -> xsafe t (p_finish fuel s) l (@Conc.QTrue PL).
  Proof.
    intros (HI & Hnd). destruct s as [rec d rpp rpc xp]. cbn [s_rec s_depth s_rpp s_rpc s_xp] in *. unfold p_finish.
    cbn [s_rec s_depth s_rpp s_rpc s_xp].
    assert (K : forall l1, PIdle rec O l1 ->
      xsafe t (pbind (do_release fuel rpc) (fun ok =>
        if ok then
          pbind (if xp =? 0 then Ret true else do_release fuel [xp]) (fun ok' =>
            if ok' then
              match rec with
              | Some m => pbind (lift (detach m)) (fun _ => Emit (cli "detach" []) (Ret tt))
              | None => Ret tt
              end
            else Emit (cli "outoffuel" []) (Ret tt))
        else Emit (cli "outoffuel" []) (Ret tt))) l1 (@Conc.QTrue PL)).
    { intros l1 HI1. apply xsafe_bind. apply xsafe_do_release with (rec := rec) (d := O); [exact HI1| |].
      - intros l2 HI2. apply xsafe_bind.
        assert (X : forall l3, PIdle rec O l3 ->
                  xsafe t (match rec with
                           | Some m => pbind (lift (detach m)) (fun _ => Emit (cli "detach" []) (Ret tt))
                           | None => Ret tt end) l3 (@Conc.QTrue PL)).
        { intros [la lb] HI3. destruct rec as [m|]; [|exact I].
          apply xsafe_pre; [apply nd_lift; apply nd_bquiet; apply bquiet_detach|].
          eapply psafe_weaken; [|apply psafe_lift; apply safe_detach with (Q := fun _ _ => True); [exact HI3|auto]].
          intros [] l' _. apply xsafe_emit_neutral; [neu|exact I]. }
        destruct (xp =? 0); [cbn; apply X; exact HI2|].
        apply xsafe_do_release with (rec := rec) (d := O); [exact HI2| |].
        + intros l3 HI3. apply X; exact HI3.
        + intros l3. apply xsafe_emit_neutral; [neu|exact I].
      - intros l2. apply xsafe_emit_neutral; [neu|exact I]. }
    apply xsafe_bind. destruct rec as [m|].
    - apply xp_leave_all_safe with (d := d); [exact HI|]. intros l' HI'. apply K; exact HI'.
    - cbn. apply K. rewrite (Hnd eq_refl) in HI. exact HI.
  Qed.

  Lemma xrun_pops_safe os : forall s l, PIdleS s l -> xsafe t (run_pops strict fuel t s os) l (@Conc.QTrue PL).
  Proof.
    induction os as [|o r IH]; intros s l HI; cbn [run_pops].
    - apply xp_finish_safe; exact HI.
    - apply xsafe_bind. eapply xsafe_weaken; [|apply xrun_pop_safe; exact HI].
      intros [s'|] l' HQ; cbn in HQ.
      + apply IH; exact HQ.
      + apply xsafe_emit_neutral; [neu|exact I].
  Qed.
End XOps.

Lemma xpthread_safe strict fuel t os : xsafe t (pthread strict fuel t os) (l0, []) (@Conc.QTrue PL).
Proof.
  unfold pthread. cbn [Conc.safe]. intros g a tr [HI HD] Hv. exists a. split.
  - split; [apply PInv_evs with (g := g); [reflexivity|apply ev_ok1|exact HI]|].
    apply dout_app; [|exact HD]. intros e [<-|[]]. reflexivity.
  - split; [intros ? ?; reflexivity|]. rewrite Hv. apply xrun_pops_safe. split; [repeat split|reflexivity].
Qed.

Lemma at_nil_x i t P : ~ at_ [] i t P.
Proof. intros (e & H & _). destruct i; discriminate. Qed.

Lemma xpinit_ok strict fuel ths : Conc.cfg_ok pview XInv (pinit_cfg strict fuel ths).
Proof.
  exists (fun _ => l0, fun _ => []). split.
  - cbn [pinit_cfg Conc.shared Conc.trace]. split; [|intros d w p H; exfalso; eapply at_nil_x; eauto].
    split; [|intros t k p []]. cbn [pinit pg_base fst].
    split; [|split; [|split]].
    + constructor; cbn; try discriminate; try contradiction; auto.
      * intros m _. exists false. reflexivity.
      * intros r. repeat split; auto.
    + constructor; cbn; try contradiction; try (intros w w' []).
      exists false. split; [reflexivity|discriminate].
    + constructor; cbn; [discriminate|intros; exact I].
    + constructor; cbn; try discriminate.
      * intros r s (e & H & _). destruct s; discriminate.
      * intros w i j (e & H & _). destruct i; discriminate.
      * intros w p d (e & H & _). destruct d; discriminate.
  - intros t p Hp. cbn [pinit_cfg Conc.threads] in Hp. rewrite nth_error_map in Hp.
    destruct (nth_error (number O ths) t) as [x|] eqn:E; [|discriminate]. inversion Hp; subst p.
    apply nth_error_number in E. cbn in E. rewrite E. unfold pview. cbn [fst snd]. apply xpthread_safe.
Qed.

(** ** the theorems, for every schedule, every fuel, strict or not *)

(** a thread that emits "dispose" is outside every read-side section at that moment *)
Theorem ptr_dispose_outside_all strict fuel ths c :
  Conc.reach (pinit_cfg strict fuel ths) c ->
  forall d w p, at_ (Conc.trace c) d w (is_dispose p) -> outside_at (Conc.trace c) w d.
Proof.
  intros Hr. destruct (Conc.reach_Inv (xpinit_ok strict fuel ths) Hr) as (a & _ & HD). exact HD.
Qed.

(** bounded search over the trace *)
Lemma at_dec tr i t P : {at_ tr i t P} + {~ at_ tr i t P}.
Proof.
  unfold at_. destruct (nth_error tr i) as [[t' e]|] eqn:E.
  - destruct (Nat.eq_dec t' t) as [->|Hne].
    + destruct (P e) eqn:HP; [left; exists e; auto|right; intros (e' & H & H'); inversion H; subst; congruence].
    + right. intros (e' & H & _). inversion H; congruence.
  - right. intros (e' & H & _). discriminate.
Qed.

Lemma search_between (P : nat -> Prop) (dec : forall b, {P b} + {~ P b}) lo : forall hi,
  (exists b, (lo < b < hi)%nat /\ P b) \/ (forall b, (lo < b < hi)%nat -> ~ P b).
Proof.
  induction hi as [|hi IH]; [right; intros b Hb; lia|].
  destruct IH as [(b & Hb & HP)|Hno]; [left; exists b; split; [lia|exact HP]|].
  destruct (dec hi) as [HP|HP].
  - destruct (Nat.lt_ge_cases lo hi) as [L|L]; [left; exists hi; split; [lia|exact HP]|right; intros b Hb; lia].
  - right. intros b Hb. destruct (Nat.eq_dec b hi) as [->|Hne]; [exact HP|apply Hno; lia].
Qed.

(** a section that is not open any more has been closed *)
Lemma closed_of_not_open tr w s d :
  at_ tr s w is_rlock1 -> (s < d)%nat -> ~ open_at tr w s d -> exists b, (s < b < d)%nat /\ at_ tr b w is_runlock0.
Proof.
  intros H1 H2 Hno.
  destruct (search_between (fun b => at_ tr b w is_runlock0) (fun b => at_dec tr b w is_runlock0) s d) as [X|X]; [exact X|].
  exfalso. apply Hno. split; [exact H1|]. split; [exact H2|exact X].
Qed.

Lemma release_not_runlock p e : is_release p e = true -> is_runlock0 e = true -> False.
Proof.
  unfold is_release, is_runlock0, cli_is. destruct e as [|n [|x l]]; try discriminate; intros A B;
    apply andb_prop in A; destruct A as (A & _); apply String.eqb_eq in A; subst n; discriminate B.
Qed.

(** release() inside the lock (what the NDEBUG code executes, [strict = false]): the releasing thread emits no "dispose"
    event - of this batch or of any other - while the section that was open at the "release" event is still open;
    every later "dispose" of that thread comes after the "runlock 0" that closes the section *)
Theorem ptr_release_inside_no_dispose strict fuel ths c :
  Conc.reach (pinit_cfg strict fuel ths) c ->
  forall w s r p, at_ (Conc.trace c) r w (is_release p) -> open_at (Conc.trace c) w s r ->
    forall d q, (r < d)%nat -> at_ (Conc.trace c) d w (is_dispose q) ->
      exists b, (r < b < d)%nat /\ at_ (Conc.trace c) b w is_runlock0.
Proof.
  intros Hr w s r p Hrel (O1' & O2 & O3) d q Hrd Hd.
  pose proof (ptr_dispose_outside_all _ _ _ _ Hr d w q Hd s) as Hno.
  destruct (closed_of_not_open _ w s d O1' ltac:(lia) Hno) as (b & Hb & Hat).
  exists b. split; [|exact Hat]. split; [|lia].
  destruct (Nat.lt_trichotomy b r) as [L|[E|G]]; [|subst b|exact G].
  - exfalso. apply (O3 b); [lia|exact Hat].
  - exfalso. destruct Hrel as (e & He & Pe), Hat as (e' & He' & Pe'). rewrite He in He'. inversion He'; subst.
    eapply release_not_runlock; eauto.
Qed.
