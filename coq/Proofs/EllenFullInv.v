(** * EllenFull*: the EllenBinTree<HP> development of Proofs/EllenDel*.v / EllenLin.v RE-DONE with a stronger invariant
      (fork of EllenDelInv.v; same structure, same names), for
        (A) linearizability of the FULL client history [full_hist] (contains, insert -> false, erase -> false included),
        (B) the out-of-fuel restriction narrowed from [exhausted] to [bad] (a thread that ran out of fuel is STOPPED).
    What is new with respect to EllenDelInv.v:
      - facts [FSn t n k pp c] / [FSeen t n k c]: hindsight witnesses.  [seen_w]: the annotated trace has a prefix [A] that
        contains exactly [n] invocations of [t] and at whose end "k is in the abstract set iff the leaf c carries k".
        [FSn] is recorded at a child load of the search ("unless pp is marked NOW or c is internal"), [FSeen] at the
        re-read of pp's update word that finds it unmarked (marks are permanent);
      - core field [cx] = (number of invocations of the thread so far, the thread ran out of fuel);
      - [stepR] has [r_atr]: the annotated trace changes only in ways that keep every witness ([atr_ext]: events are
        appended; the linearization point of a read is inserted in the past, [hind_insert]);
      - [IL]: the annotated trace [datr] contains EVERY operation, [erase datr = full_hist]; [l_cnt], [l_stop];
      - [DInv] = [bad tr] \/ ([DS] /\ [IL]): nothing is claimed only when some thread took a step after its "outoffuel".

    (original header of EllenDelInv.v follows) *)
(** * EllenBinTree<HP> with erase: the global invariant [DS] (Owicki–Gries over [Conc.safe]) and its stability

    Ghost state: [dpub] published nodes; [dever k n] "n was on the search path of k at some time"; [ddead] internal nodes
    that were spliced out by the child CAS of help_marked; [dmax x] the largest counter of a Clean update word ever installed
    at x (the ABA counter m_nEmptyUpdate is at least that); per thread a list of persistent facts, its unlinked leaf /
    internal node, the flags it holds ([hold]), its next serial number and the status of its operation in the
    LP-annotated trace [datr].

    The update-descriptor invariants of Ellen et al. as proved here (this implementation has no helping):
      - a node's children change only by the thread that holds IFlag / DFlag at it ([r_ch]), a marked node is frozen
        ([FFz] facts are stable);
      - a Clean update word, once replaced, never comes back ([FCl] facts: "if the update word of x still is the Clean
        word w then x.child[d] still is c" are stable; [dmax]);
      - an internal node that ever was on the search path of k and was not spliced out IS on the search path of k
        ([d_evpath]); a spliced-out node is marked and unreachable ([d_dead]). *)
From Coq Require Import ZArith List String Bool Lia PeanoNat.
From LV Require Import Base.Conc Base.Events Base.Lin Spec.Specs Proofs.LinProofs.
From LV Require Proofs.MichaelListInv Proofs.MichaelListLin.
From LV Require Import Model.Ellen Proofs.EllenProofs Proofs.EllenDelBase.
Import ListNotations.
Local Open Scope Z_scope.

Inductive fact :=
| FEv (k : Z) (n : ptr)
| FFl (n : ptr) (f key : Z)
| FAv (x : ptr) (w : uword)
| FCl (x : ptr) (w : uword) (d : bool) (c : ptr)
| FFz (x : ptr) (d : bool) (c : ptr)
| FRc (c : ptr)
| FSn (t n : nat) (k : Z) (pp c : ptr)
| FSeen (t n : nat) (k : Z) (c : ptr)
| FDead.

Record hold := mkH { hx : ptr; hop : ptr; hb : nat; hn : option nat; hmk : option ptr; hch : list (bool * ptr) }.
Record core := mkC {
  cleaf : option ptr; cni : option (ptr * Z * Z * ptr * ptr); chs : list hold; cser : nat; cst : status SetSpec;
  cx : nat * bool }.
(** [cx]: (number of operations invoked by the thread so far, the thread ran out of the model's loop fuel) *)
Definition stx (c : core) : status SetSpec * (nat * bool) := (cst c, cx c).
Record dview := mkDV { wf : list fact; wc : core }.
Record daux := mkDA {
  dpub : ptr -> bool; dever : Z -> ptr -> Prop; ddead : ptr -> Prop; dmax : ptr -> nat;
  dviews : nat -> dview; datr : list (aev SetSpec) }.
Definition view (a : daux) (t : nat) : dview := dviews a t.
Definition mk_a (a : daux) (t : nat) pub' ev' dead' max' (lv' : dview) atr' : daux :=
  mkDA pub' ev' dead' max' (fun u => if Nat.eqb u t then lv' else dviews a u) atr'.
Lemma view_mk_same a t p e d m lv' atr' : view (mk_a a t p e d m lv' atr') t = lv'.
Proof. unfold view, mk_a; cbn. now rewrite Nat.eqb_refl. Qed.
Lemma view_mk_other a t p e d m lv' atr' u : u <> t -> view (mk_a a t p e d m lv' atr') u = view a u.
Proof. unfold view, mk_a; cbn. intros H. destruct (Nat.eqb_spec u t); congruence. Qed.
Lemma frame_mk a t p e d m lv' atr' : Conc.frame view t a (mk_a a t p e d m lv' atr').
Proof. intros u H. now apply view_mk_other. Qed.

(** number of invocations of thread [t] in an annotated trace *)
Definition is_ainv (t : nat) (e : aev SetSpec) : bool := match e with AInv u _ => Nat.eqb u t | _ => false end.
Definition count_inv (t : nat) (A : list (aev SetSpec)) : nat := List.length (filter (is_ainv t) A).
(** hindsight witness: at the end of a prefix [A] of the annotated trace that contains the [n]-th invocation of thread [t]
    (and no later one) the abstract set contained [k] iff the leaf [c] carries the key [k] *)
Definition leaf_is (g : G) (c : ptr) (k : Z) : Prop := inf_of (flags g c) = 0 /\ lkey c = k.
Definition seen_w (atr : list (aev SetSpec)) (g : G) (t n : nat) (k : Z) (c : ptr) : Prop :=
  exists A B S st, atr = A ++ B /\ lp_run lp_init A = Some (S, st) /\ count_inv t A = n /\ (zmem k S = true <-> leaf_is g c k).

Definition fact_ok (g : G) (a : daux) (f : fact) : Prop :=
  match f with
  | FEv k n => dever a k n
  | FFl n f key => dpub a n = true /\ flags g n = f /\ ikey g n = key
  | FAv x w => dpub a x = true /\ (snd w = 0%nat -> (fst w <= dmax a x)%nat)
  | FCl x w d c => dpub a x = true /\ (snd w = 0%nat -> (fst w <= dmax a x)%nat /\ (upd g x = w -> child g x d = c))
  | FFz x d c => dpub a x = true /\ snd (upd g x) = 3%nat /\ child g x d = c
  | FRc c => dpub a c = true /\ (~ internal g c -> inf_of (flags g c) <> 0)
  | FSn t n k pp c => dpub a c = true /\ (snd (upd g pp) = 3%nat \/ internal g c \/ seen_w (datr a) g t n k c)
  | FSeen t n k c => dpub a c = true /\ (internal g c \/ seen_w (datr a) g t n k c)
  | FDead => False
  end.

Definition hold_ok (g : G) (a : daux) (t : nat) (h : hold) : Prop :=
  dpub a (hx h) = true /\ internal g (hx h) /\ upd g (hx h) = (hop h, hb h) /\ (hb h = 1 \/ hb h = 2)%nat /\
  (4 <= hop h)%nat /\ owner_of (hop h) = t /\
  (forall y, snd (upd g y) <> 0%nat -> fst (upd g y) = hop h -> y = hx h \/ Some y = hmk h) /\
  match hn h with Some n => (dmax a (hx h) <= n /\ n < emp g (hx h))%nat | None => True end /\
  (forall d c, In (d, c) (hch h) -> child g (hx h) d = c).

Definition lv_ok (g : G) (a : daux) (t : nat) (lv : dview) : Prop :=
  let c := wc lv in
  Forall (fact_ok g a) (wf lv) /\
  match cleaf c with Some l => own_ok (dpub a) t l /\ flags g l = 0 | None => True end /\
  match cni c with
  | Some (n, f, key, l, r) => (own_ok (dpub a) t n /\ cleaf c <> Some n) /\ flags g n = f /\ ikey g n = key /\ lft g n = l /\ rgt g n = r
  | None => True
  end /\
  (Forall (hold_ok g a t) (chs c) /\ NoDup (map hop (chs c)) /\ Forall (fun h => (ser_of (hop h) < cser c)%nat) (chs c)) /\
  (forall n, (4 <= n)%nat -> owner_of n = t -> (cser c <= ser_of n)%nat ->
     dpub a n = false /\ cleaf c <> Some n /\ (forall f key l r, cni c <> Some (n, f, key, l, r)) /\
     (forall x, snd (upd g x) <> 0%nat -> fst (upd g x) <> n)).

Record DS (g : G) (a : daux) : Prop := {
  d_T : T g root (-1) 1002;
  d_root : flags g root = 5;
  d_L : node_key g (lft g root) = 1000;
  d_noroot : forall n d, dpub a n = true -> internal g n -> child g n d <> root;
  d_closed : forall n d, dpub a n = true -> internal g n -> dpub a (child g n d) = true;
  d_rootpub : dpub a root = true;
  d_null : flags g null = 0;
  d_unpub : forall x, dpub a x = false -> upd g x = (0%nat, 0%nat) /\ dmax a x = 0%nat;
  d_ver : forall x, (forall c, upd g x = (c, 0%nat) -> (c <= dmax a x)%nat) /\ (dmax a x <= emp g x)%nat;
  d_evpub : forall k n, dever a k n -> dpub a n = true;
  d_evroot : forall k, dever a k root;
  d_evchild : forall k n, dever a k n -> internal g n -> dever a k (child g n (dirk g k n));
  d_evpath : forall k n, dever a k n -> internal g n -> ~ ddead a n -> path g k root n;
  d_dead : forall n, ddead a n -> dpub a n = true /\ snd (upd g n) = 3%nat /\ ~ insub g root n;
  d_views : forall t, lv_ok g a t (view a t)
}.

Lemma insub_dpub g a x : DS g a -> insub g root x -> dpub a x = true.
Proof. intros Hs H. induction H as [|m d Hm IH Hi]; [apply (d_rootpub _ _ Hs)|now apply (d_closed _ _ Hs)]. Qed.

(** the annotated trace changes by appending events and by inserting the linearization point of a read in the past:
    every prefix keeps a counterpart with the same abstract state and the same number of invocations per thread *)
Definition atr_ext (A0 A1 : list (aev SetSpec)) : Prop :=
  forall A B S st, A0 = A ++ B -> lp_run lp_init A = Some (S, st) ->
    exists A' B' st', A1 = A' ++ B' /\ lp_run lp_init A' = Some (S, st') /\ (forall u, count_inv u A' = count_inv u A).
Lemma atr_ext_refl A0 : atr_ext A0 A0.
Proof. intros A B S st E H. exists A, B, st. auto. Qed.
Lemma atr_ext_app A0 E : atr_ext A0 (A0 ++ E).
Proof. intros A B S st E0 H. exists A, (B ++ E), st. subst A0. rewrite <- app_assoc. auto. Qed.
Lemma seen_w_ext A0 A1 g g' t n k c : atr_ext A0 A1 -> flags g' c = flags g c -> seen_w A0 g t n k c -> seen_w A1 g' t n k c.
Proof.
  intros X En (A & B & S & st & E & H & Hc & Hz). destruct (X A B S st E H) as (A' & B' & st' & E' & H' & Hc').
  exists A', B', S, st'. split; [exact E'|]. split; [exact H'|]. split; [now rewrite Hc'|]. unfold leaf_is. now rewrite En.
Qed.

(** ** what one step of thread [t] may change *)
Record stepR (t : nat) (g : G) (a : daux) (g' : G) (a' : daux) : Prop := {
  r_pub : forall x, dpub a x = true -> dpub a' x = true;
  r_pubo : forall x, (4 <= x)%nat -> owner_of x <> t -> dpub a' x = dpub a x;
  r_ev : forall k n, dever a k n -> dever a' k n;
  r_max : forall x, (dmax a x <= dmax a' x)%nat;
  r_fl : forall x, dpub a x = true \/ ((4 <= x)%nat /\ owner_of x <> t) -> flags g' x = flags g x /\ ikey g' x = ikey g x;
  r_cho : forall x d, (4 <= x)%nat -> owner_of x <> t -> dpub a x = false -> child g' x d = child g x d;
  r_ch : forall x d, dpub a x = true ->
      child g' x d = child g x d \/
      (upd g' x = upd g x /\ (snd (upd g x) = 1 \/ snd (upd g x) = 2)%nat /\ owner_of (fst (upd g x)) = t);
  r_upd : forall x, upd g' x = upd g x \/
      ((snd (upd g x) = 0%nat \/ ((snd (upd g x) = 1 \/ snd (upd g x) = 2)%nat /\ owner_of (fst (upd g x)) = t)) /\
       ((snd (upd g' x) <> 0%nat /\ owner_of (fst (upd g' x)) = t) \/ (snd (upd g' x) = 0%nat /\ (dmax a x < fst (upd g' x))%nat)));
  r_maxo : forall x, dmax a' x = dmax a x \/ ((snd (upd g x) = 1 \/ snd (upd g x) = 2)%nat /\ owner_of (fst (upd g x)) = t);
  r_emp : forall x, dpub a x = true -> (emp g x <= emp g' x)%nat;
  r_atr : atr_ext (datr a) (datr a')
}.

Lemma internal_fl g g' x : flags g' x = flags g x -> (internal g' x <-> internal g x).
Proof. intros E. unfold internal. now rewrite E. Qed.

Lemma fact_stable t g a g' a' f : stepR t g a g' a' -> fact_ok g a f -> fact_ok g' a' f.
Proof.
  intros R. destruct f as [k n|n f key|x w|x w d c|x d c|c|u n k pp c|u n k c|]; cbn [fact_ok]; [| | | | | | | |exact (fun H => H)].
  - apply (r_ev _ _ _ _ _ R).
  - intros (A & B & C). destruct (r_fl _ _ _ _ _ R n (or_introl A)) as [E1 E2]. rewrite E1, E2. split; [now apply (r_pub _ _ _ _ _ R)|auto].
  - intros (A & B). split; [now apply (r_pub _ _ _ _ _ R)|]. intros H. pose proof (r_max _ _ _ _ _ R x). specialize (B H). lia.
  - intros (A & B). split; [now apply (r_pub _ _ _ _ _ R)|]. intros H. destruct (B H) as [B1 B2]. pose proof (r_max _ _ _ _ _ R x) as M. split; [lia|].
    intros E. destruct (r_upd _ _ _ _ _ R x) as [U|(_ & [(U1 & _)|(U1 & U2)])].
    + rewrite U in E. destruct (r_ch _ _ _ _ _ R x d A) as [C|(_ & C & _)]; [rewrite C; now apply B2|]. rewrite E in C. lia.
    + rewrite E in U1. contradiction.
    + rewrite E in U2. lia.
  - intros (A & B & C). split; [now apply (r_pub _ _ _ _ _ R)|].
    assert (U : upd g' x = upd g x) by (destruct (r_upd _ _ _ _ _ R x) as [U|([U|([U|U] & _)] & _)]; [exact U|lia|lia|lia]).
    rewrite U. split; [exact B|]. destruct (r_ch _ _ _ _ _ R x d A) as [E|(_ & E & _)]; [now rewrite E|lia].
  - intros (A & B). split; [now apply (r_pub _ _ _ _ _ R)|]. destruct (r_fl _ _ _ _ _ R c (or_introl A)) as [E1 _].
    rewrite E1. intros N. apply B. intros X. apply N. now apply (internal_fl g g' c E1).
  - intros (A & B). split; [now apply (r_pub _ _ _ _ _ R)|]. destruct (r_fl _ _ _ _ _ R c (or_introl A)) as [E1 E2].
    destruct B as [B|[B|B]].
    + left. assert (U : upd g' pp = upd g pp) by (destruct (r_upd _ _ _ _ _ R pp) as [U|([U|([U|U] & _)] & _)]; [exact U|lia|lia|lia]). now rewrite U.
    + right; left. now apply (internal_fl g g' c E1).
    + right; right. apply (seen_w_ext (datr a) (datr a') g g'); [exact (r_atr _ _ _ _ _ R)|exact E1|exact B].
  - intros (A & B). split; [now apply (r_pub _ _ _ _ _ R)|]. destruct (r_fl _ _ _ _ _ R c (or_introl A)) as [E1 E2].
    destruct B as [B|B].
    + left. now apply (internal_fl g g' c E1).
    + right. apply (seen_w_ext (datr a) (datr a') g g'); [exact (r_atr _ _ _ _ _ R)|exact E1|exact B].
Qed.

(** a hold whose node, children, counter bound are untouched and whose descriptor is not installed anywhere *)
Lemma hold_stable_gen t u g a g' a' h :
  stepR t g a g' a' -> hold_ok g a u h ->
  upd g' (hx h) = upd g (hx h) -> (forall d, child g' (hx h) d = child g (hx h) d) -> dmax a' (hx h) = dmax a (hx h) ->
  (forall y, upd g' y <> upd g y -> snd (upd g' y) = 0%nat \/ fst (upd g' y) <> hop h) ->
  hold_ok g' a' u h.
Proof.
  intros R (A & B & C & D & E & F & Gq & H & I) c1 c2 c3 c4.
  destruct (r_fl _ _ _ _ _ R (hx h) (or_introl A)) as [E1 _].
  split; [now apply (r_pub _ _ _ _ _ R)|]. split; [now apply (internal_fl g g' _ E1)|]. split; [now rewrite c1|]. split; [exact D|].
  split; [exact E|]. split; [exact F|]. split; [|split].
  - intros y Hy1 Hy2. destruct (r_upd _ _ _ _ _ R y) as [U|_].
    + rewrite U in *. now apply Gq.
    + assert (N : upd g' y <> upd g y \/ upd g' y = upd g y) by (destruct (u_eqb (upd g' y) (upd g y)) eqn:X; [right|left];
        [unfold u_eqb in X; apply andb_true_iff in X; destruct X as [X1 X2]; apply Nat.eqb_eq in X1, X2; destruct (upd g' y), (upd g y); cbn in *; congruence|
         intros Z; rewrite Z in X; unfold u_eqb in X; rewrite !Nat.eqb_refl in X; discriminate]).
      destruct N as [N|N]; [destruct (c4 y N); contradiction|rewrite N in *; now apply Gq].
  - destruct (hn h) as [n|]; [|exact Logic.I]. rewrite c3. pose proof (r_emp _ _ _ _ _ R (hx h) A). lia.
  - intros d c Hin. rewrite c2. now apply I.
Qed.

Lemma hold_stable t u g a g' a' h : stepR t g a g' a' -> u <> t -> hold_ok g a u h -> hold_ok g' a' u h.
Proof.
  intros R Nu Hh. pose proof Hh as (A & B & C & D & E & F & _).
  apply (hold_stable_gen t u g a g' a' h R Hh).
  - destruct (r_upd _ _ _ _ _ R (hx h)) as [U|([U|(_ & U)] & _)]; [exact U|rewrite C in U; cbn [fst snd] in U; lia|rewrite C in U; cbn [fst snd] in U; congruence].
  - intros d. destruct (r_ch _ _ _ _ _ R (hx h) d A) as [X|(_ & _ & X)]; [exact X|rewrite C in X; cbn [fst snd] in X; congruence].
  - destruct (r_maxo _ _ _ _ _ R (hx h)) as [X|(_ & X)]; [exact X|rewrite C in X; cbn [fst snd] in X; congruence].
  - intros y Ny. destruct (r_upd _ _ _ _ _ R y) as [U|(_ & [(_ & U)|(U & _)])]; [contradiction|right; intros X; rewrite X in U; congruence|now left].
Qed.

Lemma lv_ok_other t u g a g' a' lv : stepR t g a g' a' -> u <> t -> lv_ok g a u lv -> lv_ok g' a' u lv.
Proof.
  intros R Nu (H1 & H2 & H3 & (H4 & H4b & H4c) & H5). split; [|split; [|split; [|split]]].
  - rewrite Forall_forall in *. intros f Hf. eapply fact_stable; eauto.
  - destruct (cleaf (wc lv)) as [l|]; [|exact Logic.I]. destruct H2 as [(O1 & O2 & O3) F].
    assert (No : owner_of l <> t) by congruence.
    destruct (r_fl _ _ _ _ _ R l (or_intror (conj O1 No))) as [E1 _]. rewrite E1.
    split; [|exact F]. split; [exact O1|]. split; [|exact O3]. now rewrite (r_pubo _ _ _ _ _ R l O1 No).
  - destruct (cni (wc lv)) as [[[[[m f] key] l] r]|]; [|exact Logic.I]. destruct H3 as [((O1 & O2 & O3) & O4) (F1 & F2 & F3 & F4)].
    assert (No : owner_of m <> t) by congruence.
    destruct (r_fl _ _ _ _ _ R m (or_intror (conj O1 No))) as [E1 E2]. rewrite E1, E2.
    pose proof (r_cho _ _ _ _ _ R m false O1 No O2) as C1. pose proof (r_cho _ _ _ _ _ R m true O1 No O2) as C2. cbn [child] in C1, C2.
    rewrite C1, C2. split; [|auto]. split; [|exact O4]. split; [exact O1|]. split; [|exact O3]. now rewrite (r_pubo _ _ _ _ _ R m O1 No).
  - split; [|split; [exact H4b|exact H4c]]. rewrite Forall_forall in *. intros h Hh. eapply hold_stable; eauto.
  - intros n Hn1 Hn2 Hn3. destruct (H5 n Hn1 Hn2 Hn3) as (A & B & C & D).
    assert (No : owner_of n <> t) by congruence.
    split; [now rewrite (r_pubo _ _ _ _ _ R n Hn1 No)|]. split; [exact B|]. split; [exact C|].
    intros x Hx1 Hx2. destruct (r_upd _ _ _ _ _ R x) as [U|(_ & [(_ & U)|(U & _)])].
    + rewrite U in *. now apply (D x).
    + rewrite Hx2 in U. congruence.
    + contradiction.
Qed.

(** ** steps that leave published tree fields, [dpub], [dever], [ddead] alone *)
Lemma DS_keep t g a g' max' lv' atr' :
  DS g a ->
  let a' := mk_a a t (dpub a) (dever a) (ddead a) max' lv' atr' in
  stepR t g a g' a' ->
  (forall x, dpub a x = true -> lft g' x = lft g x /\ rgt g' x = rgt g x) ->
  flags g' null = 0 ->
  (forall x, dpub a x = false -> upd g' x = (0%nat, 0%nat) /\ max' x = 0%nat) ->
  (forall x, (forall c, upd g' x = (c, 0%nat) -> (c <= max' x)%nat) /\ (max' x <= emp g' x)%nat) ->
  lv_ok g' a' t lv' ->
  DS g' a'.
Proof.
  intros Hs a' R Hlr Hnull Hun Hver Hv.
  assert (Hfl : forall x, dpub a x = true -> flags g' x = flags g x /\ ikey g' x = ikey g x) by (intros x Hx; apply (r_fl _ _ _ _ _ R); now left).
  assert (Hso : same_on g g' (insub g root)).
  { intros x Hx. pose proof (insub_dpub g a x Hs Hx) as Px. destruct (Hfl x Px). destruct (Hlr x Px). auto. }
  assert (Hch : forall x d, dpub a x = true -> child g' x d = child g x d) by (intros x d Px; destruct (Hlr x Px) as [E1 E2]; unfold child; now rewrite E1, E2).
  assert (Hin : forall x, dpub a x = true -> (internal g' x <-> internal g x)) by (intros x Px; apply internal_fl; apply (Hfl x Px)).
  assert (Hir : internal g root) by (unfold internal; rewrite (d_root _ _ Hs); reflexivity).
  constructor; cbn [dpub dever ddead dmax mk_a a'].
  - eapply T_frame; [apply (d_T _ _ Hs)|exact Hso].
  - destruct (Hfl root (d_rootpub _ _ Hs)) as [E _]. rewrite E. apply (d_root _ _ Hs).
  - destruct (Hlr root (d_rootpub _ _ Hs)) as [E _]. rewrite E.
    destruct (Hfl (lft g root) (d_closed _ _ Hs root false (d_rootpub _ _ Hs) Hir)) as [E1 E2].
    rewrite (node_key_same g g' _ E1 E2). apply (d_L _ _ Hs).
  - intros n d Pn In. rewrite (Hch n d Pn). apply (d_noroot _ _ Hs); [exact Pn|now apply Hin].
  - intros n d Pn In. rewrite (Hch n d Pn). apply (d_closed _ _ Hs); [exact Pn|now apply Hin].
  - apply (d_rootpub _ _ Hs).
  - exact Hnull.
  - exact Hun.
  - exact Hver.
  - apply (d_evpub _ _ Hs).
  - apply (d_evroot _ _ Hs).
  - intros k n En In. pose proof (d_evpub _ _ Hs k n En) as Pn. destruct (Hfl n Pn) as [E1 E2].
    assert (Ed : dirk g' k n = dirk g k n) by (unfold dirk; now rewrite E1, E2).
    rewrite Ed, (Hch n _ Pn). apply (d_evchild _ _ Hs); [exact En|now apply Hin].
  - intros k n En In Nd. pose proof (d_evpub _ _ Hs k n En) as Pn.
    eapply path_frame; [|exact Hso]. apply (d_evpath _ _ Hs); auto. now apply Hin.
  - intros n Dn. destruct (d_dead _ _ Hs n Dn) as (A & B & C). split; [exact A|]. split.
    + destruct (r_upd _ _ _ _ _ R n) as [U|([U|([U|U] & _)] & _)]; [now rewrite U|lia|lia|lia].
    + intros X. apply C. eapply insub_frame_rev; eauto.
  - intros u. destruct (Nat.eq_dec u t) as [->|Nu]; [unfold a'; rewrite view_mk_same; exact Hv|].
    unfold a'. rewrite view_mk_other by exact Nu. eapply lv_ok_other; eauto. apply (d_views _ _ Hs).
Qed.

(** ** the LP-annotated trace (of the FULL client history) *)
Definition sp_op (code k : Z) : set_op :=
  if code =? 1 then SInsert k else if code =? 6 then SErase k else SContains k.

Module MI := MichaelListInv.
Module ML := MichaelListLin.

(** every invocation and every response of the trace, whatever the result *)
Definition fstep (out : history SetSpec) (te : nat * ev) : history SetSpec :=
  match te with
  | (t, EvCli name args) =>
      if String.eqb name "inv"%string then
        match args with
        | [c; k] => out ++ [@HInv SetSpec t (sp_op c k)]
        | _ => out
        end
      else if String.eqb name "res"%string then
        match args with
        | [a; b] => out ++ [@HRes SetSpec t (RBool (a =? 1))]
        | _ => out
        end
      else out
  | (_, EvAcc _ _ _) => out
  end.

Definition prefill_history (keys : list nat) : history SetSpec :=
  flat_map (fun k => [@HInv SetSpec 90%nat (SInsert (Z.of_nat k)); @HRes SetSpec 90%nat (RBool true)]) keys.

(** the complete invoke / response history of a trace: contains, insert -> false and erase -> false included; the
    pre-filled keys are inserted by thread 90 before *)
Definition full_hist (keys : list nat) (tr : list (nat * ev)) : history SetSpec :=
  fold_left fstep tr (prefill_history keys).

Definition abs (g : G) (S : list Z) : Prop := forall k, zmem k S = true <-> mem g k.

(** out of the model's loop fuel (the real code has no such bound): the thread is treated as stopped.  [last_oof t tr]:
    the event "outoffuel" of [t] is the last event of [t]; [bad tr]: some thread went on after running out of fuel (its
    operation never returned, so the continuation of the model is not a client program of the library) *)
Definition oof : ev := EvCli "outoffuel"%string [].
Definition last_oof (t : nat) (tr : list (nat * ev)) : Prop :=
  exists pre post, tr = pre ++ (t, oof) :: post /\ forall e, In e post -> fst e <> t.
Definition bad (tr : list (nat * ev)) : Prop :=
  exists t pre post e, tr = pre ++ (t, oof) :: post /\ In (t, e) post.

Record IL (keys : list nat) (g : G) (a : daux) (tr : list (nat * ev)) : Prop := {
  l_run : exists S st, lp_run lp_init (datr a) = Some (S, st) /\ (forall t, st t = cst (wc (view a t))) /\ abs g S;
  l_hist : erase (datr a) = full_hist keys tr;
  l_cnt : forall t, count_inv t (datr a) = fst (cx (wc (view a t)));
  l_stop : forall t, snd (cx (wc (view a t))) = true -> last_oof t tr
}.

Definition DInvA (keys : list nat) (g : G) (a : daux) (tr : list (nat * ev)) : Prop :=
  DS g a /\ IL keys g a tr.
Definition DInv (keys : list nat) (g : G) (a : daux) (tr : list (nat * ev)) : Prop :=
  bad tr \/ DInvA keys g a tr.
Definition deadv : dview := mkDV [FDead] (mkC None None [] 0 (@Idle SetSpec) (0%nat, false)).

(** *** annotated traces: the linearization point of a read inserted in hindsight *)
Lemma count_inv_app t A B : count_inv t (A ++ B) = (count_inv t A + count_inv t B)%nat.
Proof. unfold count_inv. now rewrite filter_app, app_length. Qed.

Lemma no_inv_tail : forall (B : list (aev SetSpec)) S st S' st' t o,
  lp_run (S, st) B = Some (S', st') -> count_inv t B = 0%nat -> st' t = @Pending SetSpec o ->
  st t = @Pending SetSpec o /\ (forall e, In e B -> MI.aev_tid e <> t).
Proof.
  induction B as [|e B IH] using rev_ind; intros S st S' st' t o Hr Hc Hp.
  - cbn in Hr. inversion Hr; subst. split; [exact Hp|intros e []].
  - rewrite lp_run_app in Hr. destruct (lp_run (S, st) B) as [[S1 st1]|] eqn:E1; [|discriminate].
    cbn [lp_run] in Hr. destruct (lp_step (S1, st1) e) as [c2|] eqn:E2; [|discriminate]. inversion Hr; subst c2; clear Hr.
    rewrite count_inv_app in Hc.
    destruct (Nat.eq_dec (MI.aev_tid e) t) as [Et|Et].
    + exfalso. destruct e as [u o'|u|u r']; cbn [MI.aev_tid] in Et; subst u; cbn [lp_step] in E2.
      * unfold count_inv at 2 in Hc. cbn [filter is_ainv] in Hc. rewrite Nat.eqb_refl in Hc. cbn in Hc. lia.
      * destruct (st1 t); try discriminate. inversion E2; subst. rewrite upd_same in Hp. discriminate.
      * destruct (st1 t); try discriminate. destruct (res_eqb SetSpec r' r); try discriminate. inversion E2; subst. rewrite upd_same in Hp. discriminate.
    + assert (Hst : st' t = st1 t).
      { destruct e as [u o'|u|u r']; cbn [MI.aev_tid] in Et; cbn [lp_step] in E2.
        - destruct (st1 u); try discriminate. inversion E2; subst. apply upd_other; auto.
        - destruct (st1 u); try discriminate. inversion E2; subst. apply upd_other; auto.
        - destruct (st1 u); try discriminate. destruct (res_eqb SetSpec r' r); try discriminate. inversion E2; subst. apply upd_other; auto. }
      destruct (IH S st S1 st1 t o E1 ltac:(lia) ltac:(congruence)) as [K1 K2]. split; [exact K1|].
      intros x Hx. apply in_app_or in Hx. destruct Hx as [Hx|[<-|[]]]; auto.
Qed.

Lemma lp_run_prefix : forall (A B : list (aev SetSpec)) c c', lp_run c (A ++ B) = Some c' -> exists c1, lp_run c A = Some c1.
Proof. intros A B c c' H. rewrite lp_run_app in H. destruct (lp_run c A) as [c1|]; [eauto|discriminate]. Qed.

(** run a segment without events of [t] after the linearization of a read of [t] *)
Lemma run_after_read (Q : list (aev SetSpec)) S st t o r S' st' :
  (forall e, In e Q -> MI.aev_tid e <> t) -> lp_run (S, st) Q = Some (S', st') ->
  exists st1, lp_run (S, Lin.upd st t (@Linearized SetSpec o r)) Q = Some (S', st1) /\
    (forall u, u <> t -> st1 u = st' u) /\ st1 t = @Linearized SetSpec o r.
Proof.
  intros HQ Hr. destruct (MI.lp_run_other Q S st (Lin.upd st t (@Linearized SetSpec o r)) t S' st' HQ) as (st1 & K1 & K2 & K3); auto.
  - intros u Hu. now apply upd_other.
  - exists st1. split; [exact K1|]. split; [exact K2|]. now rewrite K3, upd_same.
Qed.

Lemma app_split {A} : forall (l1 l2 m1 m2 : list A), l1 ++ l2 = m1 ++ m2 ->
  (exists r, l1 = m1 ++ r /\ m2 = r ++ l2) \/ (exists r, m1 = l1 ++ r /\ l2 = r ++ m2).
Proof.
  induction l1 as [|x l1 IH]; intros l2 m1 m2 E.
  - right. exists m1. auto.
  - destruct m1 as [|y m1].
    + left. exists (x :: l1). auto.
    + cbn in E. inversion E; subst y. destruct (IH l2 m1 m2 H1) as [(r & E1 & E2)|(r & E1 & E2)].
      * left. exists r. subst. auto.
      * right. exists r. subst. auto.
Qed.

Lemma count_inv_lin u A t B : count_inv u (A ++ @ALin SetSpec t :: B) = count_inv u (A ++ B).
Proof. rewrite !count_inv_app. unfold count_inv at 2. cbn [filter is_ainv]. reflexivity. Qed.

(** the operation [o] of [t] is pending at the end of [A ++ B], [B] holds no invocation of [t], and at the end of [A] the
    operation is a read with result [r]: linearize it there and append the response *)
Lemma hind_insert (A B : list (aev SetSpec)) S st S' st' t o r :
  lp_run lp_init (A ++ B) = Some (S', st') -> lp_run lp_init A = Some (S, st) ->
  count_inv t (A ++ B) = count_inv t A -> st' t = @Pending SetSpec o -> set_step S o = (S, r) ->
  (exists st2, lp_run lp_init (A ++ ALin t :: B ++ [@ARes SetSpec t r]) = Some (S', st2) /\ st2 t = @Idle SetSpec /\
               (forall u, u <> t -> st2 u = st' u)) /\
  atr_ext (A ++ B) (A ++ ALin t :: B ++ [@ARes SetSpec t r]).
Proof.
  intros H1 HA Hc Hp Hs. rewrite lp_run_app, HA in H1. rewrite count_inv_app in Hc.
  destruct (no_inv_tail B S st S' st' t o H1 ltac:(lia) Hp) as [Pt HB].
  assert (Hlin : lp_step (S, st) (@ALin SetSpec t) = Some (S, Lin.upd st t (@Linearized SetSpec o r))).
  { cbn [lp_step]. rewrite Pt. change (sstep SetSpec S o) with (set_step S o). rewrite Hs. reflexivity. }
  split.
  - destruct (run_after_read B S st t o r S' st' HB H1) as (st1 & K1 & K2 & K3).
    exists (Lin.upd st1 t (@Idle SetSpec)). split; [|split; [apply upd_same|intros u Hu; rewrite upd_other by exact Hu; now apply K2]].
    rewrite lp_run_app, HA. cbn [lp_run]. rewrite Hlin. rewrite lp_run_app, K1. cbn [lp_run lp_step]. rewrite K3.
    replace (res_eqb SetSpec r r) with true; [reflexivity|]. symmetry. apply (res_eqb_spec SetSpec). reflexivity.
  - intros X Y S0 st0 E HX. destruct (app_split _ _ _ _ E) as [(R & E1 & E2)|(R & E1 & E2)].
    + exists X, (R ++ ALin t :: B ++ [@ARes SetSpec t r]), st0. split; [subst A; now rewrite <- app_assoc|]. split; [exact HX|reflexivity].
    + subst X B. rewrite lp_run_app, HA in HX.
      destruct (run_after_read R S st t o r S0 st0 (fun e He => HB e (in_or_app _ _ _ (or_introl He))) HX) as (st1 & K1 & _ & _).
      exists (A ++ ALin t :: R), (Y ++ [@ARes SetSpec t r]), st1. split; [repeat rewrite <- app_assoc; cbn [app]; repeat rewrite <- app_assoc; reflexivity|].
      split; [rewrite lp_run_app, HA; cbn [lp_run]; rewrite Hlin; exact K1|]. intros u. apply count_inv_lin.
Qed.

Section Safe.
Variable keys : list nat.

Definition DSAFE {R} (t : nat) (p : prog R) (lv : dview) : Prop :=
  @Conc.safe G V ev daux dview view (DInv keys) R t p lv (fun _ _ => True).

Lemma full_hist_acc tr t k o ok : full_hist keys (tr ++ Conc.tag t [EvAcc k o ok]) = full_hist keys tr.
Proof. unfold full_hist. rewrite fold_left_app. reflexivity. Qed.
Lemma full_hist_snoc tr e : full_hist keys (tr ++ [e]) = fstep (full_hist keys tr) e.
Proof. unfold full_hist. rewrite fold_left_app. reflexivity. Qed.
Lemma bad_app tr tr' : bad tr -> bad (tr ++ tr').
Proof.
  intros (t & pre & post & e & E & H). exists t, pre, (post ++ tr'), e. split; [subst tr; rewrite <- app_assoc; reflexivity|].
  apply in_or_app. now left.
Qed.
Lemma last_oof_other u tr (es : list (nat * ev)) : last_oof u tr -> (forall e, In e es -> fst e <> u) -> last_oof u (tr ++ es).
Proof.
  intros (pre & post & E & H) Hes. exists pre, (post ++ es). split; [subst tr; rewrite <- app_assoc; reflexivity|].
  intros e He. apply in_app_or in He. destruct He; auto.
Qed.
Lemma last_oof_bad t tr (e : ev) es : last_oof t tr -> bad (tr ++ Conc.tag t (e :: es)).
Proof.
  intros (pre & post & E & _). exists t, pre, (post ++ Conc.tag t (e :: es)), e. split; [subst tr; rewrite <- app_assoc; reflexivity|].
  apply in_or_app. right. left. reflexivity.
Qed.
Lemma tag_other t u (es : list ev) : u <> t -> forall e, In e (Conc.tag t es) -> fst e <> u.
Proof. intros N e He. unfold Conc.tag in He. apply in_map_iff in He. destruct He as (x & <- & _). cbn. congruence. Qed.

Lemma alive g a t : DS g a -> view a t <> deadv.
Proof. intros Hs E. destruct (d_views _ _ Hs t) as (H & _). rewrite E in H. inversion H as [|? ? X]. exact X. Qed.

Lemma safe_dead {R} t (p : prog R) : DSAFE t p deadv.
Proof.
  unfold DSAFE. induction p as [r|es k IH|f k IH]; cbn [Conc.safe]; [exact Logic.I| |].
  - intros g a tr [Hex|[Hs _]] Hv; [|exfalso; eapply alive; eauto]. exists a. split; [left; now apply bad_app|]. split; [intros u _; reflexivity|]. rewrite Hv. exact IH.
  - intros g a tr [Hex|[Hs _]] Hv; [|exfalso; eapply alive; eauto]. exists a. split; [left; now apply bad_app|]. split; [intros u _; reflexivity|]. rewrite Hv. apply IH.
Qed.

Lemma D_act {R} t f (k : V -> prog R) lv :
  (forall g a tr, DInvA keys g a tr -> view a t = lv ->
     exists pub' ev' dead' max' lv' atr',
       (bad (tr ++ Conc.tag t (snd (f g))) \/
        DInvA keys (fst (fst (f g))) (mk_a a t pub' ev' dead' max' lv' atr') (tr ++ Conc.tag t (snd (f g)))) /\
       DSAFE t (k (snd (fst (f g)))) lv') ->
  DSAFE t (Act f k) lv.
Proof.
  intros H. unfold DSAFE. cbn [Conc.safe]. intros g a tr [Hex|Hi] Hv.
  - exists (mk_a a t (dpub a) (dever a) (ddead a) (dmax a) deadv (datr a)). split; [left; now apply bad_app|]. split; [apply frame_mk|].
    rewrite view_mk_same. apply safe_dead.
  - destruct (H g a tr Hi Hv) as (pub' & ev' & dead' & max' & lv' & atr' & H1 & H2).
    exists (mk_a a t pub' ev' dead' max' lv' atr'). split; [exact H1|]. split; [apply frame_mk|]. now rewrite view_mk_same.
Qed.

Definition one_acc (f : G -> G * V * list ev) : Prop := forall g, exists kd ob ok, snd (f g) = [EvAcc kd ob ok].

(** bookkeeping of [l_cnt] / [l_stop] for a step of [t] that keeps [cx]; a stopped thread that moves makes the trace [bad] *)
Lemma stop_or g a t tr e es : IL keys g a tr -> snd (cx (wc (view a t))) = true -> bad (tr ++ Conc.tag t (e :: es)).
Proof. intros Hl Hs. eapply last_oof_bad. apply (l_stop _ _ _ _ Hl t Hs). Qed.

Lemma l_stop_step g a t tr es pub' ev' dead' max' lv' atr' :
  IL keys g a tr -> snd (cx (wc lv')) = false ->
  forall u, snd (cx (wc (view (mk_a a t pub' ev' dead' max' lv' atr') u))) = true -> last_oof u (tr ++ Conc.tag t es).
Proof.
  intros Hl Hf u. destruct (Nat.eq_dec u t) as [->|Hu]; [rewrite view_mk_same; congruence|].
  rewrite view_mk_other by exact Hu. intros Hs. apply last_oof_other; [apply (l_stop _ _ _ _ Hl u Hs)|now apply tag_other].
Qed.

(** the annotated trace is untouched by a step that is not a linearization point *)
Lemma IL_keep g g' a t pub' ev' dead' max' lv' tr kd ob ok :
  IL keys g a tr -> stx (wc lv') = stx (wc (view a t)) ->
  (forall S, abs g S -> abs g' S) ->
  IL keys g' (mk_a a t pub' ev' dead' max' lv' (datr a)) (tr ++ Conc.tag t [EvAcc kd ob ok]) \/ bad (tr ++ Conc.tag t [EvAcc kd ob ok]).
Proof.
  intros Hl Hs Ha. unfold stx in Hs. injection Hs as Hs Hx.
  destruct (snd (cx (wc (view a t)))) eqn:Estop; [right; eapply stop_or; eauto|left].
  pose proof Hl as [(S & st & H1 & H2 & H3) H4 H5 H6]. constructor; cbn [datr mk_a].
  - exists S, st. split; [exact H1|]. split; [|now apply Ha].
    intros u. destruct (Nat.eq_dec u t) as [->|Hu]; [rewrite view_mk_same; rewrite H2; congruence|].
    rewrite view_mk_other by exact Hu. apply H2.
  - rewrite full_hist_acc. exact H4.
  - intros u. destruct (Nat.eq_dec u t) as [->|Hu]; [rewrite view_mk_same, Hx; apply H5|]. rewrite view_mk_other by exact Hu. apply H5.
  - eapply l_stop_step; [exact Hl|]. now rewrite Hx.
Qed.

(** a linearization point *)
Lemma IL_lp g g' a t pub' ev' dead' max' lv' tr kd ob ok o :
  IL keys g a tr -> cst (wc (view a t)) = @Pending SetSpec o ->
  (forall S, abs g S -> abs g' (fst (set_step S o)) /\ cst (wc lv') = @Linearized SetSpec o (snd (set_step S o))) ->
  cx (wc lv') = cx (wc (view a t)) ->
  IL keys g' (mk_a a t pub' ev' dead' max' lv' (datr a ++ [ALin t])) (tr ++ Conc.tag t [EvAcc kd ob ok]) \/ bad (tr ++ Conc.tag t [EvAcc kd ob ok]).
Proof.
  intros Hl Hs Ha Hx.
  destruct (snd (cx (wc (view a t)))) eqn:Estop; [right; eapply stop_or; eauto|left].
  pose proof Hl as [(S & st & H1 & H2 & H3) H4 H5 H6]. destruct (Ha S H3) as [Ha1 Ha2]. constructor; cbn [datr mk_a].
  - exists (fst (set_step S o)), (Lin.upd st t (@Linearized SetSpec o (snd (set_step S o)))). split; [|split; [|exact Ha1]].
    + rewrite (MI.lp_run_snoc _ _ _ H1). cbn [lp_step]. rewrite H2, Hs. reflexivity.
    + intros u. destruct (Nat.eq_dec u t) as [->|Hu]; [rewrite view_mk_same, upd_same; congruence|].
      rewrite view_mk_other by exact Hu. rewrite upd_other by exact Hu. apply H2.
  - rewrite full_hist_acc, erase_app. cbn [erase]. rewrite app_nil_r. exact H4.
  - intros u. rewrite count_inv_app. unfold count_inv at 2. cbn [filter is_ainv List.length]. rewrite Nat.add_0_r.
    destruct (Nat.eq_dec u t) as [->|Hu]; [rewrite view_mk_same, Hx; apply H5|]. rewrite view_mk_other by exact Hu. apply H5.
  - eapply l_stop_step; [exact Hl|]. now rewrite Hx.
Qed.

Lemma inv_step g g' a a' tr es :
  DS g' a' -> (IL keys g a tr -> IL keys g' a' (tr ++ es) \/ bad (tr ++ es)) -> IL keys g a tr -> bad (tr ++ es) \/ DInvA keys g' a' (tr ++ es).
Proof. intros H1 H2 H. destruct (H2 H) as [K|K]; [right; split; assumption|left; exact K]. Qed.

Lemma abs_same_on g g' S : same_on g g' (insub g root) -> abs g S -> abs g' S.
Proof. intros Hs H k. rewrite (H k). symmetry. now apply mem_frame. Qed.

Lemma D_act_keepL {R} t f (k : V -> prog R) lv :
  one_acc f ->
  (forall g a tr, DS g a -> IL keys g a tr -> view a t = lv -> exists max' lv',
     let g' := fst (fst (f g)) in
     let a' := mk_a a t (dpub a) (dever a) (ddead a) max' lv' (datr a) in
     stepR t g a g' a' /\ (forall x, dpub a x = true -> lft g' x = lft g x /\ rgt g' x = rgt g x) /\ flags g' null = 0 /\
     (forall x, dpub a x = false -> upd g' x = (0%nat, 0%nat) /\ max' x = 0%nat) /\
     (forall x, (forall c, upd g' x = (c, 0%nat) -> (c <= max' x)%nat) /\ (max' x <= emp g' x)%nat) /\
     lv_ok g' a' t lv' /\ stx (wc lv') = stx (wc lv) /\ DSAFE t (k (snd (fst (f g)))) lv') ->
  DSAFE t (Act f k) lv.
Proof.
  intros Hone H. apply D_act. intros g a tr [Hs Hil] Hv. destruct (H g a tr Hs Hil Hv) as (max' & lv' & R0 & Hlr & Hn & Hu & Hver & Hok & Hst & Hk).
  exists (dpub a), (dever a), (ddead a), max', lv', (datr a). split; [|exact Hk].
  destruct (Hone g) as (kd & ob & ok & Ee). rewrite Ee.
  apply (inv_step g _ a _ tr); [exact (DS_keep t g a _ max' lv' (datr a) Hs R0 Hlr Hn Hu Hver Hok)| |exact Hil].
  intros Hl. apply (IL_keep g); [exact Hl|rewrite Hv; exact Hst|].
  intros S. apply abs_same_on. intros x Hx. pose proof (insub_dpub g a x Hs Hx) as Px.
  destruct (r_fl _ _ _ _ _ R0 x (or_introl Px)). destruct (Hlr x Px). auto.
Qed.

Lemma D_act_keep {R} t f (k : V -> prog R) lv :
  one_acc f ->
  (forall g a, DS g a -> view a t = lv -> exists max' lv',
     let g' := fst (fst (f g)) in
     let a' := mk_a a t (dpub a) (dever a) (ddead a) max' lv' (datr a) in
     stepR t g a g' a' /\ (forall x, dpub a x = true -> lft g' x = lft g x /\ rgt g' x = rgt g x) /\ flags g' null = 0 /\
     (forall x, dpub a x = false -> upd g' x = (0%nat, 0%nat) /\ max' x = 0%nat) /\
     (forall x, (forall c, upd g' x = (c, 0%nat) -> (c <= max' x)%nat) /\ (max' x <= emp g' x)%nat) /\
     lv_ok g' a' t lv' /\ stx (wc lv') = stx (wc lv) /\ DSAFE t (k (snd (fst (f g)))) lv') ->
  DSAFE t (Act f k) lv.
Proof. intros Hone H. apply D_act_keepL; [exact Hone|]. intros g a tr Hs _ Hv. exact (H g a Hs Hv). Qed.

(** the leaf at the end of the search path of [k] decides the membership of [k] *)
Lemma path_leaf_mem g k c : T g root (-1) 1002 -> path g k root c -> ~ internal g c -> (mem g k <-> leaf_is g c k).
Proof.
  intros HT Hp Hl. split.
  - intros (Hk & l & Hin & Hll & Hkey). assert (Pl : path g k root l) by (eapply T_search; eauto; lia).
    pose proof (leaf_unique g k root l c Pl Hp Hll Hl) as ->.
    destruct (Z.eq_dec (inf_of (flags g c)) 0) as [E|E]; [|pose proof (node_key_inf _ _ E); lia].
    split; [exact E|]. rewrite node_key_fin in Hkey by exact E. unfold internal in Hl. destruct (is_internal_f (flags g c)); [exfalso; now apply Hl|exact Hkey].
  - intros (E & Hkey). assert (Hnk : node_key g c = k).
    { rewrite node_key_fin by exact E. unfold internal in Hl. destruct (is_internal_f (flags g c)); [exfalso; now apply Hl|exact Hkey]. }
    split; [|exists c; split; [eapply path_insub; eauto|auto]].
    subst k. unfold lkey. pose proof (Nat.mod_upper_bound (c - 4) 8). lia.
Qed.

End Safe.
