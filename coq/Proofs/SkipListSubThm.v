(** * SkipListSubThm: what is PROVED FOR EVERY SCHEDULE about "every level is a sub-list of the level below"
      (state-level theory: Proofs/SkipListSub.v; invariants: Proofs/SkipListProofs.v, SkipListFull*.v).

    - [skip_sub_order_from_membership]: at every reachable state membership implies order (ordered sub-list, both levels
      strictly sorted): what is left of the property is the MEMBERSHIP statement for adjacent levels;
    - [skip_live_level_sub_level0]: at every reachable state, for every level l, the unmarked nodes of the level-l list are an
      ordered sub-list of the live (unmarked) nodes of the level-0 list, and strictly sorted;
    - [skip_abstraction_ext]: the live level-0 nodes are the abstract set (programs of all five operations, no pending extract);
    - [skip_nested_gives_property]: at every reachable state where the nested-levels invariant [LevOK] holds, the whole
      property holds (lists null-terminated, ordered sub-lists, strictly sorted, live level-0 keys = abstract set);
    - [init_levok]: the base case, every pre-filled initial state has nested levels.

    [LevOK] at every reachable state is PROVED in Proofs/SkipListNestE.v .. SkipListNestE9.v ([skip_levels_nested]; the
    invariant used there is a sharpened form of the sketch below: unlinking is top-down, so the ghost "levels linked now" is a
    number, and  m_nUnlink q = linked-now + pending level_unlinked() + levels the active inserter has not linked yet).
    History of the reduction: the per-access preservation lemmas
    of SkipListSub.v reduce it to thread-local knowledge at the link and unlink CASes.  Sketch of the invariant that
    discharges it (ghost state on top of [IS] of SkipListLin.v; none of it is formalised yet):
      ghost   alink q   = number of levels the inserter of q has linked so far (changed only by q's inserter at its pred CAS);
              aLs l     = the level-l list (l >= 1), like [aL] for level 0;   pend q = unlink CASes on q whose
                          level_unlinked() (fetch_sub) is still outstanding;
      state   (a) walkl g l head (aLs l);  (b) q in aLs l  ->  l < alink q  /\  l + pend q < m_nUnlink q;
              (c) every pointer stored in ANY level-l cell is null or has alink > l  (loads give "linked once at l");
              (d) alink q > l, level-l cell of q unmarked  ->  q in aLs l   (the analogue of [s_inL]: an unmarked linked node
                  cannot have been unlinked, because both unlink CASes swing to the successor of a MARKED cell);
              (e) while the inserter of q is still linking (has neither finished nor given up): m_nUnlink q = height q and
                  pend q = 0, hence by the guard `m_nUnlink == l + 1` of help_remove nobody unlinks q below level height-1,
                  and the fast path of try_remove_at stops at its first failed CAS (level height-1 is linked last);
      views   per thread: the (node, level) pairs it has seen linked (for pPrev[l] at the link / unlink CASes, carried through
              find_position exactly as [vkn] / [posk] are), upper bounds "m_nUnlink q <= l + 1" read by help_remove, the frozen
              (marked) cells it has loaded, "I owe a fetch_sub on q", and the progress of its own insertion.
    With (a)-(e): link CAS -> [levok_link] (pPrev[l] in aLs l by (d), new node on level l-1 by (e));  unlink CAS at level l of
    q -> [levok_unlink] (q not on level l+1 because m_nUnlink q <= l + 1 and (b));  own-link CAS / stores -> [levok_offlist]
    (l >= alink q and (b));  marks -> [levok_mark]. *)
From Coq Require Import ZArith List String Bool Lia PeanoNat.
From LV Require Import Base.Conc Base.Events Base.Lin Spec.Specs Proofs.LinProofs.
From LV Require Import Model.SkipList Proofs.SkipListProofs Proofs.SkipListLin Proofs.SkipListFullInv Proofs.SkipListFullThm
                       Proofs.SkipListFullExt2 Proofs.SkipListSub.
Import ListNotations.
Local Open Scope Z_scope.

Lemma walk_walkl g : forall L p, walk g p L <-> walkl g 0 p L.
Proof. induction L as [|n r IH]; intros p; cbn [walk walkl]; [tauto|]. rewrite IH. tauto. Qed.

Lemma chain_incl_walkl g l : forall n L p, walkl g l p L -> incl (chain g l p n) L.
Proof.
  induction n as [|n IH]; intros L p W; cbn [chain]; [intros x Hx; contradiction|]. cbv zeta.
  destruct (Nat.eqb_spec (fst (nxt g p l)) null) as [E|E]; [intros x Hx; contradiction|].
  destruct L as [|a r]; cbn [walkl] in W; [congruence|]. destruct W as (E1 & N & W). rewrite E1.
  intros x [<-|Hx]; [now left|right]. eapply IH; eauto.
Qed.

Theorem skip_sub_order_from_membership fuel nodes ths c l L1 Ll L0 :
  nodes_ok nodes -> Forall (Forall op_ok) ths -> Conc.reach (init_cfg fuel nodes ths) c ->
  walkl (Conc.shared c) 0 head L0 -> walkl (Conc.shared c) l head Ll -> walkl (Conc.shared c) (S l) head L1 ->
  incl L1 Ll -> incl Ll L0 ->
  sub L1 Ll /\ strictly_inc (map key_of L1) /\ strictly_inc (map key_of Ll).
Proof.
  intros Hn Ho Hr. apply sub_of_membership. eapply skip_links_sorted; eauto.
Qed.

(** the level-0 list exists at every reachable state (it is the ghost chain of the linearizability proof) *)
Theorem skip_level0_list fuel nodes ths c :
  nodes_ok nodes -> Forall (Forall op_ok) ths -> (List.length ths <= 63)%nat ->
  Conc.reach (init_cfg fuel nodes ths) c -> exists L0, walkl (Conc.shared c) 0 head L0.
Proof.
  intros Hn Ho Hlen Hr.
  destruct (Conc.reach_Inv (init_cfg_ok3 (mkCfg0 nodes false) fuel ths eq_refl Hn Ho Hlen) Hr) as (a & Hs & He & _).
  exists (aL (b_base a)). apply walk_walkl. apply (s_walk _ _ Hs).
Qed.

Theorem skip_live_level_sub_level0 fuel nodes ths c l L :
  nodes_ok nodes -> Forall (Forall op_ok) ths -> (List.length ths <= 63)%nat ->
  Conc.reach (init_cfg fuel nodes ths) c -> walkl (Conc.shared c) l head L ->
  exists L0, walkl (Conc.shared c) 0 head L0 /\
    sub (live (Conc.shared c) l L) (live (Conc.shared c) 0 L0) /\ strictly_inc (map key_of (live (Conc.shared c) l L)).
Proof.
  intros Hn Ho Hlen Hr W. destruct (skip_level0_list fuel nodes ths c Hn Ho Hlen Hr) as (L0 & W0).
  exists L0. split; [exact W0|]. apply live_sub_level0; auto; [eapply skip_links_sorted; eauto|].
  intros q Hq Hu.
  assert (Hc : In q (chain (Conc.shared c) l head (List.length L))) by (rewrite (walkl_chain _ _ _ _ _ W (le_n _)); exact Hq).
  destruct (skip_unmarked_level_on_level0 fuel nodes ths c l _ q Hn Ho Hlen Hr Hc Hu) as (H0 & m & Hm).
  split; [exact H0|]. eapply chain_incl_walkl; eauto.
Qed.

(** the abstract set is the set of keys of the live level-0 nodes; programs of all five operations, no extract pending *)
Theorem skip_abstraction_ext fuel nodes ths c :
  nodes_ok nodes -> Forall (Forall op_ok) ths -> (List.length ths <= 63)%nat ->
  Conc.reach (init_cfg fuel nodes ths) c -> ~ exhausted (Conc.trace c) -> ext_quiet (Conc.trace c) ->
  exists L0 atr S st, walkl (Conc.shared c) 0 head L0 /\ lp_run lp_init atr = Some (S, st) /\
    erase atr = client_history nodes (Conc.trace c) /\
    (forall k, zmem k S = true <-> In k (map key_of (live (Conc.shared c) 0 L0))).
Proof.
  intros Hn Ho Hlen Hr Hne Hq.
  destruct (Conc.reach_Inv (init_cfg_ok3 (mkCfg0 nodes false) fuel ths eq_refl Hn Ho Hlen) Hr) as (a & Hs & He & [Hil|Hx]); [|contradiction].
  pose proof (full_history_of_IL2 _ _ _ _ Hil Hq) as H4. cbn [c_nodes] in H4.
  destruct Hil as [(S & st & H1 & _ & H3) _ _ _]. exists (aL (b_base a)), (aatr (b_base a)), S, st.
  split; [apply walk_walkl; apply (s_walk _ _ Hs)|]. split; [exact H1|]. split; [exact H4|].
  intros k. rewrite (H3 k). rewrite in_map_iff. split.
  - intros (n & Hin & Hu & Hk). exists n. split; [exact Hk|]. apply filter_In. split; [exact Hin|now rewrite Hu].
  - intros (n & Hk & Hin). apply filter_In in Hin. destruct Hin as [Hin Hu]. apply negb_true_iff in Hu. exists n. auto.
Qed.

(** a state is quiescent when no operation is in progress: every invocation in the trace has its response *)
Definition quiet (tr : list (nat * ev)) : Prop := forall t, pinv t tr = [].

Lemma quiet_ext_quiet tr : quiet tr -> ext_quiet tr.
Proof. intros H t xy Hin. rewrite (H t) in Hin. contradiction. Qed.

(** the whole property, given the nested-levels invariant at that state *)
Definition levels_property (nodes : list (nat * nat)) (c : Conc.config G V ev) : Prop :=
  exists Ls : nat -> list ptr,
    (forall l, (l < MAXH)%nat -> walkl (Conc.shared c) l head (Ls l)) /\
    (forall l, (S l < MAXH)%nat -> sub (Ls (S l)) (Ls l)) /\
    (forall l, (l < MAXH)%nat -> strictly_inc (map key_of (Ls l))) /\
    exists atr S st, lp_run lp_init atr = Some (S, st) /\ erase atr = client_history nodes (Conc.trace c) /\
      (forall k, zmem k S = true <-> In k (map key_of (live (Conc.shared c) 0 (Ls 0%nat)))).

Theorem skip_nested_gives_property fuel nodes ths c :
  nodes_ok nodes -> Forall (Forall op_ok) ths -> (List.length ths <= 63)%nat ->
  Conc.reach (init_cfg fuel nodes ths) c -> ~ exhausted (Conc.trace c) -> ext_quiet (Conc.trace c) ->
  LevOK (Conc.shared c) -> levels_property nodes c.
Proof.
  intros Hn Ho Hlen Hr Hne Hq Hok.
  assert (Hi : I (Conc.shared c)) by (eapply skip_links_sorted; eauto).
  destruct (levok_sublists _ Hi Hok) as (Ls & HL & Hsub & Hsort).
  destruct (skip_abstraction_ext fuel nodes ths c Hn Ho Hlen Hr Hne Hq) as (L0 & atr & S & st & W0 & H1 & H2 & H3).
  exists Ls. split; [exact HL|]. split; [exact Hsub|]. split; [exact Hsort|]. exists atr, S, st. split; [exact H1|]. split; [exact H2|].
  assert (E : Ls 0%nat = L0) by (eapply walkl_fun; [apply HL; unfold MAXH; lia|exact W0]). rewrite E. exact H3.
Qed.

(** ** base case of the missing induction: the pre-filled initial state has nested levels *)
Fixpoint pre_level (l : nat) (nodes : list (nat * nat)) : list ptr :=
  match nodes with
  | [] => []
  | (k, h) :: r => if Nat.ltb l h then pre_node k :: pre_level l r else pre_level l r
  end.

Lemma pre_level_next l : forall nodes, next_at l nodes = match pre_level l nodes with [] => null | x :: _ => x end.
Proof. induction nodes as [|[k h] r IH]; cbn [next_at pre_level]; [reflexivity|]. destruct (Nat.ltb l h); auto. Qed.

Lemma pre_level_in l : forall nodes q, In q (pre_level l nodes) -> exists k h, In (k, h) nodes /\ q = pre_node k /\ (l < h)%nat.
Proof.
  induction nodes as [|[k h] r IH]; cbn [pre_level]; intros q Hq; [contradiction|].
  destruct (Nat.ltb_spec l h) as [L|L].
  - destruct Hq as [<-|Hq]; [exists k, h; split; [now left|auto]|]. destruct (IH q Hq) as (k' & h' & H1 & H2 & H3). exists k', h'. split; [now right|auto].
  - destruct (IH q Hq) as (k' & h' & H1 & H2 & H3). exists k', h'. split; [now right|auto].
Qed.

Lemma pre_node_not_null k : pre_node k <> null.
Proof. unfold pre_node, node_id, mk_node, null. lia. Qed.


(** membership in the form of Properties_C15.skip_levels_are_sublists_statement (marks ignored), given [LevOK] *)
Lemma levok_membership g l n q : LevOK g -> (S l < MAXH)%nat -> In q (chain g (S l) head n) -> exists m, In q (chain g l head m).
Proof.
  intros (Ls & HL & HN) Hl Hin. exists (List.length (Ls l)).
  rewrite (walkl_chain g l (Ls l) head _ (HL l ltac:(lia)) (le_n _)). apply HN; [exact Hl|].
  eapply chain_incl_walkl; [apply HL; exact Hl|exact Hin].
Qed.

Lemma pre_level_nested l : forall nodes q, In q (pre_level (S l) nodes) -> In q (pre_level l nodes).
Proof.
  induction nodes as [|[k h] r IH]; cbn [pre_level]; intros q Hq; [contradiction|].
  destruct (Nat.ltb_spec (S l) h) as [L|L].
  - destruct (Nat.ltb_spec l h) as [L'|L']; [|lia]. destruct Hq as [<-|Hq]; [now left|right; auto].
  - destruct (Nat.ltb l h); [right|]; auto.
Qed.

Lemma link_all_nxt l : forall A k h B, nodes_ok (A ++ (k, h) :: B) ->
  nxt (link_all (A ++ (k, h) :: B) g_empty) (pre_node k) l = if Nat.ltb l h then (next_at l B, false) else (null, false).
Proof.
  induction A as [|[k' h'] A IH]; intros k h B Hn; cbn [app link_all nxt].
  - rewrite Nat.eqb_refl. reflexivity.
  - cbn [app nodes_ok] in Hn. destruct Hn as (_ & _ & F & Hn).
    destruct (Nat.eqb_spec (pre_node k) (pre_node k')) as [E|_]; [|now apply IH].
    apply pre_node_inj in E. rewrite Forall_forall in F. specialize (F (k, h) ltac:(apply in_or_app; right; now left)). cbn in F. lia.
Qed.

Lemma init_nxt_pre nodes k l : nxt (init nodes) (pre_node k) l = nxt (link_all nodes g_empty) (pre_node k) l.
Proof. unfold init. cbn [nxt]. destruct (Nat.eqb_spec (pre_node k) head) as [E|_]; [exfalso; eapply pre_node_not_head; eauto|reflexivity]. Qed.

Lemma init_walk nodes l : nodes_ok nodes ->
  forall B A p, nodes = A ++ B -> fst (nxt (init nodes) p l) = next_at l B -> walkl (init nodes) l p (pre_level l B).
Proof.
  intros Hn. induction B as [|[k h] B IH]; intros A p E Hp; cbn [pre_level next_at] in *; [exact Hp|].
  assert (E' : nodes = (A ++ [(k, h)]) ++ B) by (rewrite <- app_assoc; exact E).
  destruct (Nat.ltb l h) eqn:L.
  - cbn [walkl]. split; [exact Hp|]. split; [apply pre_node_not_null|]. apply (IH (A ++ [(k, h)])); [exact E'|].
    rewrite init_nxt_pre. rewrite E. rewrite link_all_nxt by (rewrite <- E; exact Hn). now rewrite L.
  - apply (IH (A ++ [(k, h)])); [exact E'|exact Hp].
Qed.

Theorem init_levok nodes : nodes_ok nodes -> LevOK (init nodes).
Proof.
  intros Hn. exists (fun l => pre_level l nodes). split.
  - intros l _. apply (init_walk nodes l Hn nodes []); [reflexivity|]. unfold init. cbn [nxt]. now rewrite Nat.eqb_refl.
  - intros l q _. apply pre_level_nested.
Qed.

(** validation helper: the seeds whose run does not complete, runs out of fuel, or ends (all threads finished: a quiescent
    state) with a marked cell on some level list *)
Definition sweep_final_nomark (cfg : list Z) (ths : list (list (list Z))) (seeds : list Z) : list (Z * bool * bool * bool) :=
  flat_map (fun sd =>
    let r := Conc.run 6000 0 (gen_sched 3000 (Z.of_nat (List.length ths)) sd 0 0 []) (init_cfg 60 (prefill_nodes cfg) (map decode_ops ths)) in
    let ex := exhaustedb (Conc.trace (fst r)) in
    let nm := nomarkb (Conc.shared (fst r)) && levokb (Conc.shared (fst r)) in
    if snd r && negb ex && nm then [] else [(sd, snd r, ex, nm)]) seeds.
