(** * C27_Props — the C27 property, proved about the GENERATED definitions of Gen_splitlist (all h < 2^64, all table
    sizes 2^0 .. 2^63, each of the three bit-reversal functors of the [bit_reversal] trait). *)

Require Import ZArith Lia Bool List Sorted.
Require Import LV.Base.CInt LV.Proofs.C25_Bits LV.Proofs.C27_Order LV.Proofs.C27_Gen.
Require Import LV.Gen.Gen_splitlist.
Import ListNotations.
Local Open Scope Z_scope.

Section Algo.
  (* one (regular_hash, dummy_hash) pair of the trait *)
  Variables reg dum : Z -> option Z.
  Hypothesis Hin : In (reg, dum) split_order_fns.

  Let Hreg : forall h, 0 <= h < 2 ^ 64 -> reg h = Some (so_regular h) := proj1 (split_order_fns_spec reg dum Hin).
  Let Hdum : forall b, 0 <= b < 2 ^ 64 -> dum b = Some (so_dummy b) := proj2 (split_order_fns_spec reg dum Hin).

  Lemma p_regular_is_odd h : 0 <= h < 2 ^ 64 ->
    exists v, reg h = Some v /\ 0 <= v < 2 ^ 64 /\ Z.odd v = true.
  Proof.
    intros H. exists (so_regular h). split; [apply Hreg; assumption|]. split; [apply so_regular_range|apply so_regular_odd].
  Qed.

  Lemma p_dummy_is_even b : 0 <= b < 2 ^ 64 ->
    exists v, dum b = Some v /\ 0 <= v < 2 ^ 64 /\ Z.even v = true.
  Proof.
    intros H. exists (so_dummy b). split; [apply Hdum; assumption|]. split; [apply so_dummy_range|apply so_dummy_even].
  Qed.

  Lemma pow2_le_64 k : 0 <= k <= 64 -> 2 ^ k <= 2 ^ 64.
  Proof. intros. apply Z.pow_le_mono_r; lia. Qed.

  Lemma p_parent_dummy_before_bucket_dummy b : 0 < b < 2 ^ 63 ->
    exists p dp db, parent_bucket b = Some p /\ dum p = Some dp /\ dum b = Some db /\ dp < db.
  Proof.
    intros Hb. destruct (so_parent_lt b ltac:(lia)) as [Hp _].
    exists (so_parent b), (so_dummy (so_parent b)), (so_dummy b).
    split; [apply parent_bucket_spec; lia|]. split; [apply Hdum; lia|]. split; [apply Hdum; lia|].
    apply so_parent_dummy_lt. assumption.
  Qed.

  Lemma p_bucket_keys_contiguous k m h b : 0 <= k <= 63 -> 0 <= h < 2 ^ 64 ->
    bucket_no (mk_sl_hp k m) h = Some b ->
    exists db rh, dum b = Some db /\ reg h = Some rh /\ db < rh /\
      forall b' db', 0 <= b' < 2 ^ k -> dum b' = Some db' -> db < db' -> rh < db'.
  Proof.
    intros Hk Hh Hb. rewrite bucket_no_spec in Hb by assumption. injection Hb as <-.
    pose proof (mod_range h k ltac:(lia)) as Hbr. pose proof (pow2_le_64 k ltac:(lia)).
    destruct (so_contiguous k h Hk Hh) as [H1 H2].
    exists (so_dummy (h mod 2 ^ k)), (so_regular h).
    split; [apply Hdum; lia|]. split; [apply Hreg; assumption|]. split; [exact H1|].
    intros b' db' Hb' Hd. rewrite Hdum in Hd by lia. injection Hd as <-. apply H2. assumption.
  Qed.

  Lemma p_bucket_segment_exact k m h b db rh : 0 <= k <= 63 -> 0 <= h < 2 ^ 64 -> 0 <= b < 2 ^ k ->
    dum b = Some db -> reg h = Some rh -> db < rh ->
    (forall b' db', 0 <= b' < 2 ^ k -> dum b' = Some db' -> db < db' -> rh < db') ->
    bucket_no (mk_sl_hp k m) h = Some b.
  Proof.
    intros Hk Hh Hb Hd Hr Hlt Hall. pose proof (pow2_le_64 k ltac:(lia)).
    rewrite Hdum in Hd by lia. injection Hd as <-. rewrite Hreg in Hr by assumption. injection Hr as <-.
    rewrite bucket_no_spec by assumption. f_equal.
    apply so_contiguous_inv; try assumption.
    intros b' Hb' Hl. apply (Hall b' (so_dummy b')); try assumption. apply Hdum. lia.
  Qed.

  Lemma p_bucket_dummy_in_parent_segment m b : 0 < b < 2 ^ 63 ->
    exists p dp db, parent_bucket b = Some p /\ bucket_no (mk_sl_hp (Z.log2 b) m) b = Some p /\
      dum p = Some dp /\ dum b = Some db /\ dp < db /\
      forall b2 db2, 0 <= b2 < 2 ^ Z.log2 b -> dum b2 = Some db2 -> dp < db2 -> db < db2.
  Proof.
    intros Hb. destruct (so_parent_lt b ltac:(lia)) as [Hp _].
    pose proof (Z.log2_nonneg b) as Hm. assert (Hm63 : Z.log2 b < 63) by (apply Z.log2_lt_pow2; lia).
    pose proof (pow2_le_64 (Z.log2 b) ltac:(lia)).
    destruct (so_dummy_parent_segment b Hb) as [H1 H2].
    exists (so_parent b), (so_dummy (so_parent b)), (so_dummy b).
    split; [apply parent_bucket_spec; lia|].
    split; [rewrite bucket_no_spec by lia; f_equal; symmetry; apply so_parent_mod; lia|].
    split; [apply Hdum; lia|]. split; [apply Hdum; lia|]. split; [exact H1|].
    intros b2 db2 Hb2 Hd. rewrite Hdum in Hd by lia. injection Hd as <-. apply H2. assumption.
  Qed.

  (** Traversal: in any strictly sorted list of split-order keys that contains the dummy of bucket [b] and the regular
      key of a hash [h] of bucket [b], walking forward from the dummy reaches the key, every node passed on the way lies
      strictly between the two, and no dummy of the current table is crossed. *)
  Lemma p_traversal_from_dummy_reaches_bucket (L : list Z) k m h b db rh :
    StronglySorted Z.lt L -> 0 <= k <= 63 -> 0 <= h < 2 ^ 64 ->
    bucket_no (mk_sl_hp k m) h = Some b -> dum b = Some db -> reg h = Some rh ->
    In db L -> In rh L ->
    exists l1 mid l3, L = l1 ++ db :: mid ++ rh :: l3 /\
      (forall x, In x mid -> db < x < rh) /\
      (forall b' db', 0 <= b' < 2 ^ k -> dum b' = Some db' -> ~ In db' mid).
  Proof.
    intros Hs Hk Hh Hb Hd Hr Hidb Hirh.
    destruct (p_bucket_keys_contiguous k m h b Hk Hh Hb) as (db0 & rh0 & Hd0 & Hr0 & Hlt & Hall).
    rewrite Hd in Hd0. injection Hd0 as <-. rewrite Hr in Hr0. injection Hr0 as <-.
    destruct (sorted_between L db rh Hs Hidb Hirh Hlt) as (l1 & mid & l3 & HL & Hmid).
    exists l1, mid, l3. split; [exact HL|]. split; [exact Hmid|].
    intros b' db' Hb' Hd' Hin'. specialize (Hmid _ Hin'). specialize (Hall b' db' Hb' Hd' ltac:(lia)). lia.
  Qed.
  (** Bucket 0's dummy is the key 0, below every regular key: it is the head of the list ([init] allocates it with key 0). *)
  Lemma p_bucket0_dummy_is_least : dum 0 = Some 0 /\ forall h, 0 <= h < 2 ^ 64 -> exists v, reg h = Some v /\ 0 < v.
  Proof.
    split; [rewrite Hdum by lia; vm_compute; reflexivity|]. intros h Hh. exists (so_regular h). split; [apply Hreg; assumption|].
    pose proof (so_regular_range h). pose proof (so_regular_odd h) as Ho.
    destruct (Z.eq_dec (so_regular h) 0) as [E|]; [rewrite E in Ho; discriminate|lia].
  Qed.
End Algo.

(** ** Statements that do not depend on the reversal functor *)

Lemma p_parent_lt_bucket b : 0 < b < 2 ^ 64 ->
  exists p, parent_bucket b = Some p /\ 0 <= p < b /\ p = Z.clearbit b (Z.log2 b) /\ p < 2 ^ Z.log2 b.
Proof.
  intros Hb. exists (so_parent b). split; [apply parent_bucket_spec; assumption|].
  destruct (so_parent_lt b ltac:(lia)) as [H1 H2]. split; [exact H1|]. split; [apply so_parent_clearbit; lia|exact H2].
Qed.

(** ** Non-vacuity: a concrete table of 2^33 buckets, a bucket >= 2^32, all three functors *)

Definition ex_h : Z := 0xdeadbeef80000001.
Definition ex_k : Z := 33.

Lemma example_values :
  bucket_no (mk_sl_hp ex_k 2) ex_h = Some 0x180000001 /\
  parent_bucket 0x180000001 = Some 0x80000001 /\
  parent_bucket 0x100000000 = Some 0 /\
  map (fun rd => (fst rd ex_h, snd rd 0x180000001, snd rd 0x80000001)) split_order_fns =
    [ (Some 0x80000001f77db57b, Some 0x8000000180000000, Some 0x8000000100000000);
      (Some 0x80000001f77db57b, Some 0x8000000180000000, Some 0x8000000100000000);
      (Some 0x80000001f77db57b, Some 0x8000000180000000, Some 0x8000000100000000) ].
Proof. vm_compute. repeat split. Qed.
