(** * C24 theorems: in every reachable configuration of any client program over a vyukov_queue_pool /
      lazy_vyukov_queue_pool / bounded_vyukov_queue_pool (every schedule, any number of threads, capacity 2^k),
      no object is held by two holders, and the objects deallocated into the pool and not handed out again are
      exactly the content of the queue once no pool call is in progress. *)
From Coq Require Import ZArith List Bool Lia PeanoNat FinFun.
From LV Require Import Base.Conc Base.Events Base.CInt Base.Lin Spec.Specs Model.Vyukov Model.Pools
                       Proofs.VyukovSpec Proofs.VyukovArith Proofs.VyukovCore Proofs.PoolsProofs Proofs.PoolsSafe.
Import ListNotations.
Local Open Scope Z_scope.

Lemma nth_error_seq s n i : (i < n)%nat -> nth_error (seq s n) i = Some (s + i)%nat.
Proof.
  revert s i; induction n as [|n IH]; intros s i H; [lia|]. destruct i as [|i]; cbn.
  - f_equal. lia.
  - rewrite IH by lia. f_equal. lia.
Qed.

Lemma nodup_app_r {A} (a b : list A) : NoDup (a ++ b) -> NoDup b.
Proof. induction a as [|x a IH]; cbn; auto. intros H. inversion H; auto. Qed.

Lemma nodup_app_disj {A} (a b : list A) x : NoDup (a ++ b) -> In x a -> ~ In x b.
Proof.
  induction a as [|y a IH]; cbn; [tauto|]. intros H [->|Hx] Hb; inversion H; subst.
  - apply H2. apply in_or_app. auto.
  - eapply IH; eauto.
Qed.

Lemma nth_map_idx {A B} (f : nat -> A -> B) (l : list A) : forall n t,
  nth_error (map_idx f n l) t = option_map (f (n + t)%nat) (nth_error l t).
Proof.
  induction l as [|x r IH]; intros n t; cbn; [destruct t; reflexivity|].
  destruct t as [|t]; cbn; [now rewrite Nat.add_0_r|]. rewrite IH.
  replace (S n + t)%nat with (n + S t)%nat by lia. reflexivity.
Qed.

(** the bound: (pushes performed by the constructor) + (successful CASes on m_posEnqueue in the trace) + capacity
    stays below 2^62 *)
Definition pool_bound (k : nat) (kind : Z) (tr : list (nat * ev)) : Prop :=
  (if Z.eqb kind 1 then 0 else 2 ^ Z.of_nat k) + nclaims tr + 2 ^ Z.of_nat k < 2 ^ 62.

Section PoolTheorems.
  Variable k : nat.
  Hypothesis Hk : (1 <= k)%nat.
  Variable kind : Z.
  Variable fuel : nat.
  Variable ths : list (list pop).

  Notation capn := (2 ^ k)%nat.
  Notation cap := (2 ^ Z.of_nat k).
  Let c : pcfg := mkP kind cap (length ths).
  Notation X := (nat -> list Z * nat).
  Notation Ext := (PoolExt k c).
  Notation cell := (VyukovArith.cell k).

  Lemma Hcap : pcap c = cap.
  Proof. reflexivity. Qed.

  Definition aux0 : Aux X := mkAux X (avail0 k c) (fun _ => PIdle) (fun _ => ([], 0%nat)).

  Lemma capn_cap' : Z.of_nat capn = cap.
  Proof. rewrite Nat2Z.inj_pow. reflexivity. Qed.

  Lemma avail0_nodup : NoDup (avail0 k c).
  Proof.
    unfold avail0. destruct (pkind c =? 1); [constructor|].
    apply FinFun.Injective_map_NoDup; [intros a b; apply Nat2Z.inj|apply seq_NoDup].
  Qed.

  Lemma ext0 : Ext (avail0 k c) (fun _ => @Idle (VQ capn)) (fun _ => ([], 0%nat)) [].
  Proof.
    constructor.
    - intros t. exact I.
    - apply avail0_nodup.
    - intros t. cbn. constructor.
    - intros t p H. cbn in H. destruct H.
    - intros t t' p _ H. cbn in H. destruct H.
    - intros t. reflexivity.
    - intros p [H|[t H]]; [|cbn in H; destruct H]. left. unfold avail0 in H. destruct (pkind c =? 1); [destruct H|].
      apply in_map_iff in H. destruct H as (i & <- & Hi). apply in_seq in Hi. pose proof capn_cap'. cbn [pcap c]. lia.
    - intros p. cbn. split; [auto|intros [H|[t H]]; [auto|destruct H]].
    - cbn. apply avail0_nodup.
    - intros t _. reflexivity.
  Qed.

  Lemma init_real : RealInv k None (pe0 c) X Ext (pool_init c) aux0 [].
  Proof.
    pose proof (cap_ge2 k Hk) as C2. pose proof capn_cap' as CC.
    assert (Hcell : forall p, 0 <= p < cap -> cell p = p) by (intros p Hp; unfold VyukovArith.cell; apply Z.mod_small; lia).
    unfold pe0, aux0. pose proof ext0 as E0. unfold pool_init, avail0 in *. cbn [pkind pcap c] in *.
    destruct (kind =? 1) eqn:Ek.
    - (* lazy pool: empty queue *)
      constructor; cbn [init posE posD seqs datas absq ph ext].
      + lia.
      + reflexivity.
      + reflexivity.
      + intros i Hi. cbn in Hi. lia.
      + intros p Hp. lia.
      + intros p Hp. left. apply Hcell. lia.
      + intros p. pose proof (cell_range k Hk p). lia.
      + intros t. exact I.
      + intros t t' v v' p H. discriminate.
      + intros t t' pk pk' v v' p H. discriminate.
      + intros tc t H. discriminate.
      + intros t F. destruct F.
      + exact E0.
    - (* every preallocated object pushed once *)
      constructor; cbn [posE posD seqs datas absq ph ext].
      + lia.
      + cbn. lia.
      + rewrite map_length, seq_length. lia.
      + intros i Hi. rewrite map_length, seq_length in Hi.
        rewrite (map_nth_error Z.of_nat i (seq 1 capn) (nth_error_seq 1 capn i Hi)).
        rewrite Z.add_0_l, Hcell by lia. f_equal. lia.
      + intros p Hp. left. rewrite Hcell by lia.
        destruct (Z.leb_spec 0 p); destruct (Z.ltb_spec p cap); cbn; lia.
      + intros p Hp. lia.
      + intros p. pose proof (cell_range k Hk p) as Hr.
        destruct (Z.leb_spec 0 (cell p)); destruct (Z.ltb_spec (cell p) cap); cbn; lia.
      + intros t. exact I.
      + intros t t' v v' p H. discriminate.
      + intros t t' pk pk' v v' p H. discriminate.
      + intros tc t H. discriminate.
      + intros t F. destruct F.
      + exact E0.
  Qed.

  Lemma pool_init_ok :
    Conc.cfg_ok (view X (list Z * nat) xview24) (Inv k None (pe0 c) X Ext) (pool_cfg kind cap fuel ths).
  Proof.
    exists aux0. split.
    - intros _. apply init_real.
    - intros t p Hp. unfold pool_cfg in Hp. cbn [Conc.threads] in Hp. rewrite nth_map_idx in Hp.
      destruct (nth_error ths t) as [os|] eqn:E; inversion Hp; subst. cbn [Nat.add].
      apply (safe_pool_thread k Hk c Hcap fuel t os).
      cbn [pthreads c]. apply nth_error_Some. congruence.
  Qed.

  Variable cf : Conc.config G V ev.
  Hypothesis Hr : Conc.reach (pool_cfg kind cap fuel ths) cf.
  Hypothesis Hb : pool_bound k kind (Conc.trace cf).

  Lemma pool_real : exists a, RealInv k None (pe0 c) X Ext (Conc.shared cf) a (Conc.trace cf).
  Proof.
    destruct (Conc.reach_Inv pool_init_ok Hr) as (a & Hi). exists a. apply Hi.
    unfold bound, pe0, pool_init, pool_bound, B62 in *. cbn [pkind pcap c]. destruct (kind =? 1); cbn [posE init]; lia.
  Qed.

  (** no object is allocated to two holders, or twice to one; an object somebody holds is not available in the
      pool ([heldby tr t]: objects returned to thread t by allocate and not yet passed to deallocate) *)
  Theorem pool_unique_holder :
    (forall t, NoDup (heldby (Conc.trace cf) t)) /\
    (forall t t' p, t <> t' -> In p (heldby (Conc.trace cf) t) -> ~ In p (heldby (Conc.trace cf) t')) /\
    (forall t p, In p (heldby (Conc.trace cf) t) -> ~ In p (avail (avail0 k c) (Conc.trace cf))).
  Proof.
    destruct pool_real as (a & R). pose proof (ri_ext k None (pe0 c) X Ext _ _ _ R) as E.
    set (S := fun u => stat_of k (ph X a u)) in *.
    assert (Hin : forall t p, In p (heldby (Conc.trace cf) t) -> In p (own k S (ext X a) t)).
    { intros t p H. rewrite (pe_held _ _ _ _ _ _ E t) in H. unfold own. apply in_or_app. auto. }
    split; [|split].
    - intros t. rewrite (pe_held _ _ _ _ _ _ E t).
      pose proof (pe_own _ _ _ _ _ _ E t) as H. unfold own in H. eapply nodup_app_r; eauto.
    - intros t t' p Nt H H'. eapply (pe_disj _ _ _ _ _ _ E t t' p); eauto.
    - intros t p H Hav. apply (pe_avail _ _ _ _ _ _ E) in Hav. destruct Hav as [Hq|[u Hu]].
      + eapply (pe_ownq _ _ _ _ _ _ E t p); eauto.
      + destruct (Nat.eq_dec u t) as [->|Nu].
        * pose proof (pe_own _ _ _ _ _ _ E t) as Hnd. unfold own in Hnd.
          rewrite (pe_held _ _ _ _ _ _ E t) in H.
          eapply (nodup_app_disj _ _ p Hnd); eauto.
        * eapply (pe_disj _ _ _ _ _ _ E t u p); eauto. unfold own. apply in_or_app. auto.
  Qed.

  (** deallocated objects become available again: [avail] (the preallocated objects plus every object passed to
      deallocate, minus the objects handed out by allocate or released to the heap) is duplicate-free, each of
      its members is in the ring (cells of [posDeq, posEnq)) unless a pool call is still in progress, and when
      no call is in progress it is exactly the content of the ring — which a subsequent allocate pops (C07:
      dequeue fails only if the ring is empty) *)
  Theorem pool_deallocated_available_again :
    let g := Conc.shared cf in
    NoDup (avail (avail0 k c) (Conc.trace cf)) /\
    exists qs : list Z,
      NoDup qs /\
      Z.of_nat (length qs) = posE g - posD g /\
      (forall i, (i < length qs)%nat -> nth_error qs i = Some (datas g (cell (posD g + Z.of_nat i)))) /\
      (forall p, In p qs -> In p (avail (avail0 k c) (Conc.trace cf))) /\
      (forall p, In p (avail (avail0 k c) (Conc.trace cf)) -> In p qs \/ exists t, busy (Conc.trace cf) t = true) /\
      ((forall t, busy (Conc.trace cf) t = false) ->
         forall p, In p (avail (avail0 k c) (Conc.trace cf)) <-> In p qs).
  Proof.
    intros g. destruct pool_real as (a & R). pose proof (ri_ext k None (pe0 c) X Ext _ _ _ R) as E.
    split; [exact (pe_availnd _ _ _ _ _ _ E)|]. exists (absq X a).
    assert (Hbusy : forall p, In p (avail (avail0 k c) (Conc.trace cf)) ->
                    In p (absq X a) \/ exists t, busy (Conc.trace cf) t = true).
    { intros p H. apply (pe_avail _ _ _ _ _ _ E) in H. destruct H as [H|[t H]]; auto. right. exists t.
      destruct (busy (Conc.trace cf) t) eqn:B; auto. rewrite (pe_busy _ _ _ _ _ _ E t B) in H. destruct H. }
    split; [exact (pe_q _ _ _ _ _ _ E)|]. split; [exact (ri_len _ _ _ _ _ _ _ _ R)|].
    split; [exact (ri_content _ _ _ _ _ _ _ _ R)|]. split; [|split].
    - intros p H. apply (pe_avail _ _ _ _ _ _ E). auto.
    - exact Hbusy.
    - intros Hq p. split.
      + intros H. destruct (Hbusy p H) as [H'|[t Ht]]; auto. rewrite Hq in Ht. discriminate.
      + intros H. apply (pe_avail _ _ _ _ _ _ E). auto.
  Qed.
End PoolTheorems.
