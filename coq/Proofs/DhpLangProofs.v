(** * DhpLangProofs: the proof rule [Conc.safe] lifted to [dprog] (programs with non-atomic code).
      [dsafe] asks the invariant to hold after every node (also after the non-atomic ones: stronger than
      needed, never weaker); [compile_safe]: a [dsafe] program compiles to a [Conc.safe] thread. *)
From Coq Require Import List Arith Lia.
From LV Require Import Base.Conc Model.DhpLang.
Import ListNotations.

Set Implicit Arguments.

Section Rule.
  Context {G E : Type}.
  Variables (Aux L : Type).
  Variable view : Aux -> nat -> L.
  Variable Inv : G -> Aux -> list (nat * E) -> Prop.

  Notation frame := (@Conc.frame Aux L view).
  Notation tag := (@Conc.tag E).

  Fixpoint dsafe {R} (t : nat) (p : @dprog G E R) (l : L) (Q : R -> L -> Prop) : Prop :=
    match p with
    | DRet r => Q r l
    | DEmit es k =>
        forall g a tr, Inv g a tr -> view a t = l ->
          exists a', Inv g a' (tr ++ tag t es) /\ frame t a a' /\ dsafe t k (view a' t) Q
    | DLoc f k =>
        forall g a tr, Inv g a tr -> view a t = l ->
          exists a', Inv (fst (f g)) a' tr /\ frame t a a' /\ dsafe t (k (snd (f g))) (view a' t) Q
    | DAct f k =>
        forall g a tr, Inv g a tr -> view a t = l ->
          exists a', Inv (fst (fst (f g))) a' (tr ++ tag t (snd (f g))) /\ frame t a a' /\
                     dsafe t (k (snd (fst (f g)))) (view a' t) Q
    end.

  Lemma frame_refl t a : frame t a a.
  Proof. intros t' _. reflexivity. Qed.

  Lemma frame_trans t a1 a2 a3 : frame t a1 a2 -> frame t a2 a3 -> frame t a1 a3.
  Proof. intros H1 H2 t' Ht. rewrite (H2 t' Ht). apply H1; exact Ht. Qed.

  Lemma dsafe_bind {A B} t (p : @dprog G E A) (q : A -> @dprog G E B) Q : forall l,
    dsafe t p l (fun r l' => dsafe t (q r) l' Q) -> dsafe t (dbind p q) l Q.
  Proof.
    induction p as [r|es k IH|X f k IH|X f k IH]; intros l H; cbn [dbind dsafe] in *.
    - exact H.
    - intros g a tr Hi Hv. destruct (H g a tr Hi Hv) as (a' & H1 & H2 & H3). exists a'. repeat split; auto.
    - intros g a tr Hi Hv. destruct (H g a tr Hi Hv) as (a' & H1 & H2 & H3). exists a'. repeat split; auto.
    - intros g a tr Hi Hv. destruct (H g a tr Hi Hv) as (a' & H1 & H2 & H3). exists a'. repeat split; auto.
  Qed.

  Lemma dsafe_weaken {R} t (p : @dprog G E R) (Q Q' : R -> L -> Prop) :
    (forall r l, Q r l -> Q' r l) -> forall l, dsafe t p l Q -> dsafe t p l Q'.
  Proof.
    intros HQ. induction p as [r|es k IH|X f k IH|X f k IH]; intros l H; cbn [dsafe] in *.
    - auto.
    - intros g a tr Hi Hv. destruct (H g a tr Hi Hv) as (a' & H1 & H2 & H3). exists a'; auto.
    - intros g a tr Hi Hv. destruct (H g a tr Hi Hv) as (a' & H1 & H2 & H3). exists a'; auto.
    - intros g a tr Hi Hv. destruct (H g a tr Hi Hv) as (a' & H1 & H2 & H3). exists a'; auto.
  Qed.

  Lemma dsettle_safe {R} t (p : @dprog G E R) Q : forall g a tr,
    Inv g a tr -> dsafe t p (view a t) Q ->
    exists a', Inv (fst (fst (dsettle p g))) a' (tr ++ tag t (snd (fst (dsettle p g)))) /\ frame t a a' /\
               dsafe t (snd (dsettle p g)) (view a' t) Q.
  Proof.
    induction p as [r|es k IH|X f k IH|X f k IH]; intros g a tr Hi Hs; cbn [dsettle].
    - exists a. cbn. rewrite app_nil_r. repeat split; auto using frame_refl.
    - cbn [dsafe] in Hs. destruct (Hs g a tr Hi eq_refl) as (a1 & H1 & H2 & H3).
      destruct (IH g a1 _ H1 H3) as (a2 & K1 & K2 & K3).
      destruct (dsettle k g) as [[g' es'] p'] eqn:Hk. cbn [fst snd] in *.
      exists a2. unfold Conc.tag in *. rewrite map_app, app_assoc. repeat split; eauto using frame_trans.
    - cbn [dsafe] in Hs. destruct (Hs g a tr Hi eq_refl) as (a1 & H1 & H2 & H3).
      destruct (f g) as [g1 x] eqn:Hf. cbn [fst snd] in *.
      destruct (IH x g1 a1 _ H1 H3) as (a2 & K1 & K2 & K3).
      exists a2. repeat split; eauto using frame_trans.
    - exists a. cbn. rewrite app_nil_r. repeat split; auto using frame_refl.
  Qed.

  Theorem compile_safe t : forall fuel (p : @dprog G E unit) l,
    dsafe t p l (fun _ _ => True) -> @Conc.safe G (@dprog G E unit) E Aux L view Inv unit t (compile fuel p) l (@Conc.QTrue L).
  Proof.
    induction fuel as [|n IH]; intros p l H; cbn [compile]; [exact I|].
    destruct p as [r|es k|X f k|X f k]; try exact I.
    cbn [Conc.safe]. intros g a tr Hi Hv. cbn [dsafe] in H.
    destruct (H g a tr Hi Hv) as (a1 & H1 & H2 & H3).
    destruct (f g) as [[g1 x] es] eqn:Hf. cbn [fst snd] in *.
    destruct (dsettle_safe t (k x) _ H1 H3) as (a2 & K1 & K2 & K3).
    destruct (dsettle (k x) g1) as [[g2 es2] rest] eqn:Hd. cbn [fst snd] in *.
    exists a2. unfold Conc.tag in *. rewrite map_app, app_assoc. repeat split; eauto using frame_trans.
  Qed.
End Rule.
