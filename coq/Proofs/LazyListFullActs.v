(** * LazyListFullActs: the proof rule [Conc.safe] for each atomic access of the LazyList model, for the invariant
      [Inv7] of the full-linearizability development (observations, helping). *)
From Coq Require Import ZArith List String Bool Lia PeanoNat.
From LV Require Import Base.Conc Base.Events Base.Lin Spec.Specs Proofs.LinProofs.
From LV Require Proofs.MichaelListInv Proofs.MichaelListLin Proofs.MichaelListActs Proofs.MichaelListProofs Proofs.MichaelListFullInv.
From LV Require Import Model.LazyList Proofs.LazyListBase Proofs.LazyListInv Proofs.LazyListSteps Proofs.LazyListActs
                       Proofs.LazyListLin Proofs.LazyListLinActs Proofs.LazyListFullInv.
Import ListNotations.
Local Open Scope Z_scope.

Notation safe7 := (@Conc.safe G V ev aux7 lview7 view7 Inv7).

Lemma view7_split a t lv vs cd code : view7 a t = (lv, vs, cd, code) ->
  view (h_base a) t = lv /\ h_vs a t = vs /\ h_cand a t = cd /\ h_code a t = code.
Proof. unfold view7. intros E. inversion E. auto. Qed.

(** ** what the chain says about a key *)
Lemma kf_node g a L x : IS g a L -> In x L -> kf g x = EKey (nkey (heap g x)).
Proof.
  intros H Hx. apply (s_pubL _ _ _ H) in Hx. apply (pub_range _ _ _ _ H) in Hx. unfold kf, HEAD, TAIL.
  destruct (Nat.eqb_spec x 1); [lia|]. destruct (Nat.eqb_spec x 2); [lia|]. reflexivity.
Qed.

Lemma chain_keys_inj g a L x y : IS g a L -> In x L -> In y L -> nkey (heap g x) = nkey (heap g y) -> x = y.
Proof.
  intros H Hx Hy E. destruct (s_chain _ _ _ H) as [_ Hs]. apply esorted_nodup in Hs.
  apply (nodup_map_inj (kf g) (HEAD :: L ++ [TAIL])); auto.
  - right. apply in_or_app. left. exact Hx.
  - right. apply in_or_app. left. exact Hy.
  - rewrite (kf_node _ _ _ _ H Hx), (kf_node _ _ _ _ H Hy), E. reflexivity.
Qed.

Lemma present_in g a L S n k : IS g a L -> abs g L S -> a_pub a n = true -> nmark (heap g n) = false -> nkey (heap g n) = k ->
  zmem k S = true.
Proof. intros H Ha Hp Hm Hk. apply Ha. exists n. split; [apply (s_pub _ _ _ H n Hp); exact Hm|auto]. Qed.

Lemma marked_absent g a L S c k : IS g a L -> abs g L S -> In c L -> nmark (heap g c) = true -> nkey (heap g c) = k ->
  zmem k S = false.
Proof.
  intros H Ha Hc Hm Hk. destruct (zmem k S) eqn:E; auto. apply Ha in E. destruct E as (x & X1 & X2 & X3).
  assert (x = c) by (eapply chain_keys_inj; eauto; congruence). subst x. congruence.
Qed.

(** [m] (m_Head or an unmarked published node below k) is followed by m_Tail or by a node above k: k is absent *)
Lemma lazy_absent g a L S m k :
  IS g a L -> abs g L S -> pz (a_pub a) m -> m <> TAIL -> nmark (heap g m) = false -> elt (kf g m) (EKey k) ->
  (nnext (heap g m) = TAIL \/ elt (EKey k) (kf g (nnext (heap g m)))) ->
  zmem k S = false.
Proof.
  intros H Ha Hpz HmT Hm Hlt Hnx. destruct (zmem k S) eqn:E; auto. exfalso. apply Ha in E. destruct E as (x & X1 & X2 & X3).
  pose proof (pz_unmarked_in _ _ _ _ H Hpz HmT Hm) as HmL.
  destruct (chain_split _ _ _ _ _ _ (s_chain _ _ _ H) HmL) as (L1 & L2 & E & H2 & N1 & N2 & _ & _).
  destruct (s_chain _ _ _ H) as [Hl Hs].
  assert (Hkx : kf g x = EKey k) by (rewrite (kf_node _ _ _ _ H X1), X3; reflexivity).
  assert (E' : HEAD :: L ++ [TAIL] = L1 ++ m :: (L2 ++ [TAIL])).
  { change (HEAD :: L ++ [TAIL]) with ((HEAD :: L) ++ [TAIL]). rewrite E, <- app_assoc. reflexivity. }
  rewrite E', map_app in Hs. cbn [map] in Hs. destruct (esorted_mid _ _ _ Hs) as [Hbefore Hafter].
  assert (Hin : In x (L1 ++ m :: L2)) by (rewrite <- E; right; exact X1).
  apply in_app_or in Hin. destruct Hin as [Hin|[Hin|Hin]].
  - assert (K : elt (kf g x) (kf g m)) by (apply Hbefore; apply in_map; exact Hin).
    rewrite Hkx in K. eapply elt_irrefl. eapply elt_trans; [exact K|exact Hlt].
  - subst x. rewrite Hkx in Hlt. eapply elt_irrefl; exact Hlt.
  - (* after m: the successor of m is the first element of L2 *)
    rewrite <- (gnext_unmarked _ _ _ _ H Hm) in Hnx.
    destruct L2 as [|p L2']; [destruct Hin|]. cbn [glinked] in H2. destruct H2 as [Hp H2]. rewrite Hp in Hnx.
    assert (HpL : In p L).
    { destruct L1 as [|s L1']; cbn [app] in E; inversion E; subst.
      - left. reflexivity.
      - apply in_or_app. right. right. left. reflexivity. }
    destruct Hnx as [HT|Hgt].
    { apply (s_pubL _ _ _ H) in HpL. apply (pub_range _ _ _ _ H) in HpL. unfold TAIL in HT. lia. }
    destruct Hin as [->|Hin].
    + rewrite Hkx in Hgt. eapply elt_irrefl; exact Hgt.
    + assert (Hs2 : esorted (map (kf g) (p :: L2' ++ [TAIL]))).
      { apply esorted_app_r in Hs. cbn [map app] in Hs. eapply esorted_tail; exact Hs. }
      cbn [map] in Hs2. assert (K : elt (kf g p) (kf g x)).
      { apply (esorted_lt_all _ _ Hs2). apply in_map. apply in_or_app. left. exact Hin. }
      rewrite Hkx in K. eapply elt_irrefl. eapply elt_trans; [exact Hgt|exact K].
Qed.

(** the successor of an unmarked chain node is a chain node or m_Tail *)
Lemma next_in_chain g a L m : IS g a L -> pz (a_pub a) m -> m <> TAIL -> nmark (heap g m) = false ->
  In (nnext (heap g m)) (L ++ [TAIL]).
Proof.
  intros H Hpz HmT Hm. rewrite <- (gnext_unmarked _ _ _ _ H Hm).
  pose proof (pz_unmarked_in _ _ _ _ H Hpz HmT Hm) as HmL. destruct (s_chain _ _ _ H) as [Hl _].
  destruct HmL as [<-|HmL]; [eapply glinked_next_in; eauto|eapply glinked_in_next; eauto].
Qed.

(** ** the observation made by a load *)
Definition ck7 (F : list fact) (n : nat) (ck : option Z) : Prop :=
  (n = HEAD /\ ck = None) \/ (exists kn, In (FPub n kn) F /\ ck = Some kn).
Definition ck_lt (ck : option Z) (k : Z) : Prop := ck = None \/ exists kn, ck = Some kn /\ kn < k.
Definition after (o : set_op) (b : bool) (vs' : status SetSpec) : Prop :=
  forall r, obs_res o b = Some r -> vs' = @Linearized SetSpec o r.
Definition not_contains (o : set_op) : Prop := forall kk, o <> SContains kk.

Definition ldpost (n : nat) (ck : option Z) (o : set_op) (held : list (nat * obs)) (v : V)
                  (vs : status SetSpec) (cd : option nat) (vs' : status SetSpec) (cd' : option nat) : Prop :=
  let k := op_key o in
  open_read vs' o /\
  (vmark v = false -> ck = Some k -> after o true vs' /\ cd' = None) /\
  (vmark v = false -> ck_lt ck k -> (vptr v = TAIL \/ (vptr v <> HEAD /\ k < vkey v)) -> after o false vs' /\ cd' = None) /\
  (vmark v = false -> ck_lt ck k -> vptr v <> TAIL -> vptr v <> HEAD -> vkey v = k -> not_contains o ->
       (exists x, In (vptr v, Some (x, false)) held) -> after o true vs' /\ cd' = None) /\
  (vmark v = false -> ck_lt ck k -> vptr v <> TAIL -> vptr v <> HEAD -> vkey v = k -> o = SContains k -> cd' = Some (vptr v)) /\
  (vmark v = true -> cd = Some n -> ck = Some k -> o = SContains k -> vs' = absent_st k /\ cd' = None) /\
  (forall kn, ck = Some kn -> k < kn -> vs' = vs /\ cd' = cd) /\
  (not_contains o -> cd' = None).

Lemma open_read_inj vs o o' : open_read vs o -> open_read vs o' -> o = o'.
Proof. intros [->|(r & -> & _)] [E|(r' & E & _)]; inversion E; reflexivity. Qed.

Lemma not_contains_dec o : not_contains o \/ exists kk, o = SContains kk.
Proof. destruct o; try (left; intros kk; discriminate). right. eauto. Qed.

(** the actual status of the acting thread is open *)
Lemma st_open g a tr L t lv vs cd code o :
  IL7 g a tr L -> view7 a t = (lv, vs, cd, code) -> open_read vs o -> (not_contains o -> cd = None) ->
  exists s0, srel g a t s0 /\ open_read s0 o.
Proof.
  intros [(S & st & H1 & H2 & H3) _ _] Hv Hop Hcd0. destruct (view7_split _ _ _ _ _ _ Hv) as (_ & Hvs & Hc & _).
  exists (st t). split; [apply H3|]. pose proof (H3 t) as K. unfold srel in K. rewrite Hc, Hvs in K.
  destruct cd as [c0|]; [|rewrite K; exact Hop].
  destruct K as (_ & K2 & K3). pose proof (open_read_inj _ _ _ Hop K2) as ->.
  destruct (nmark (heap g c0)); [rewrite K3; right; eexists; split; reflexivity|rewrite K3; exact Hop].
Qed.

Ltac post_tac := unfold ldpost, after, not_contains; cbn [vmark vptr vkey] in *;
  repeat (match goal with |- _ /\ _ => split | |- forall _, _ => intro end);
  repeat match goal with
         | H : _ /\ _ |- _ => destruct H
         | H : exists _, _ |- _ => destruct H
         end; auto; try congruence; try lia; try tauto;
  try (exfalso; match goal with H : ck_lt _ _ |- _ => destruct H as [?|(? & ? & ?)] end; try congruence;
       first [match goal with E1 : ?c = Some ?x, E2 : ?c = Some ?y |- _ => assert (x = y) by congruence; lia end
             |match goal with E : Some _ = Some _ |- _ => inversion E; lia end]).

Lemma srel_fun g a t s s' : srel g a t s -> srel g a t s' -> s = s'.
Proof.
  unfold srel. destruct (h_cand a t) as [c|]; [|congruence].
  intros (_ & _ & H1) (_ & _ & H2). destruct (nmark (heap g c)); congruence.
Qed.

Section LdCore.
  Variables (g : G) (a : aux7) (t : nat) (L : list nat) (tr : list (nat * ev)) (n : nat) (ck : option Z) (o : set_op)
            (lv : lview) (vs : status SetSpec) (cd : option nat) (code : Z) (lv' : lview).
  Hypotheses (HS : IS g (h_base a) L) (HL : IL7 g a tr L) (Hv : view7 a t = (lv, vs, cd, code))
             (Hck : ck7 (lv_facts lv) n ck) (Hop : open_read vs o) (Hcd0 : not_contains o -> cd = None).
  Let k := op_key o.
  Let v := mkV (nnext (heap g n)) (nmark (heap g n)) (nkey (heap g (nnext (heap g n)))).
  Let tr' := tr ++ Conc.tag t [EvAcc KLd (obj_next n) true].
  Let mk := fun atr' vs' cd' => mk_a7 a t (a_pub (h_base a)) (a_succ (h_base a)) lv' atr' vs' cd' code.

  Lemma ld_keep : IL7 g (mk (h_atr a) vs cd) tr' L.
  Proof.
    destruct (view7_split _ _ _ _ _ _ Hv) as (Hv1 & Hvs & Hc & Hcode). unfold mk, tr'.
    rewrite <- Hvs, <- Hc, <- Hcode. apply (IL7_acc g g a t _ _ lv' L L tr KLd (obj_next n) true HL); auto.
  Qed.

  Lemma ld_obs b r : obs_res o b = Some r -> (forall S, abs g L S -> zmem k S = b) ->
    exists atr', IL7 g (mk atr' (@Linearized SetSpec o r) None) tr' L.
  Proof.
    intros Er Hz. destruct (view7_split _ _ _ _ _ _ Hv) as (Hv1 & Hvs & Hc & Hcode). unfold mk, tr'. rewrite <- Hcode.
    apply (IL7_lin g g a t _ _ lv' L L tr KLd (obj_next n) true o); auto.
    - eapply st_open; eauto.
    - rewrite Hvs. exact Hop.
    - intros S Ha. rewrite (MichaelListFullInv.obs_res_step o b r S Er (Hz S Ha)). cbn [fst snd]. auto.
  Qed.

  Lemma cell_facts : pz (a_pub (h_base a)) n /\ n <> TAIL /\
    (forall kn, ck = Some kn -> a_pub (h_base a) n = true /\ nkey (heap g n) = kn) /\
    (ck_lt ck k -> elt (kf g n) (EKey k)).
  Proof.
    destruct (view7_split _ _ _ _ _ _ Hv) as (Hv1 & _).
    destruct Hck as [[-> ->]|(kn & Hkn & ->)].
    - split; [left; reflexivity|]. split; [unfold HEAD, TAIL; lia|]. split; [intros kn E; discriminate|]. intros _. unfold kf. cbn. exact I.
    - pose proof (fact_in _ _ _ _ _ _ HS Hv1 Hkn) as (K1 & K2). split; [right; right; exact K1|].
      pose proof (pub_range _ _ _ _ HS K1) as Hr.
      split; [unfold TAIL; lia|]. split; [intros kn' E; inversion E; subst; auto|].
      intros [E|(kn' & E & Hlt)]; [discriminate|]. inversion E; subst kn'. unfold kf, HEAD, TAIL.
      destruct (Nat.eqb_spec n 1); [lia|]. destruct (Nat.eqb_spec n 2); [lia|]. cbn. lia.
  Qed.

  (** the cell is below k and holds an unmarked value *)
  Lemma ld_below : nmark (heap g n) = false -> ck_lt ck k ->
    exists atr' vs' cd', IL7 g (mk atr' vs' cd') tr' L /\ ldpost n ck o (lv_held lv) v vs cd vs' cd'.
  Proof.
    intros Em Hlt0. destruct (view7_split _ _ _ _ _ _ Hv) as (Hv1 & Hvs & Hc & Hcode).
    destruct cell_facts as (Hpz & HnT & Hckn & Hlt). specialize (Hlt Hlt0).
    assert (HnL : In (nnext (heap g n)) (L ++ [TAIL])) by (eapply next_in_chain; eauto).
    set (pc := nnext (heap g n)) in *.
    assert (Hkeep : (vptr v = TAIL \/ (vptr v <> HEAD /\ k < vkey v) -> obs_res o false = None) ->
                    (vptr v <> TAIL -> vptr v <> HEAD -> vkey v = k -> (exists kk, o = SContains kk) -> False) ->
                    (vptr v <> TAIL -> vptr v <> HEAD -> vkey v = k -> not_contains o ->
                       nmark (heap g pc) = true \/ obs_res o true = None) ->
                    exists atr' vs' cd', IL7 g (mk atr' vs' cd') tr' L /\ ldpost n ck o (lv_held lv) v vs cd vs' cd').
    { intros K1 K2 K3. exists (h_atr a), vs, cd. split; [apply ld_keep|]. unfold ldpost. fold k.
      split; [exact Hop|]. split; [intros _ E; exfalso; destruct Hlt0 as [E0|(kn & E0 & Hl)]; [congruence|rewrite E0 in E; inversion E; lia]|].
      split; [intros _ _ Hk; specialize (K1 Hk); split; [intros r Er; congruence|]|].
      { destruct (not_contains_dec o) as [Hn|(kk & ->)]; [auto|discriminate]. }
      split.
      { intros _ _ A1 A2 A3 Hn [x Hx]. destruct (K3 A1 A2 A3 Hn) as [Hm|Hn0].
        - exfalso. pose proof (s_held _ _ _ HS t) as Kh. rewrite Hv1 in Kh. rewrite Forall_forall in Kh. specialize (Kh _ Hx).
          unfold held_ok in Kh. cbn [fst snd] in Kh. cbn [v vptr] in *. destruct Kh as (_ & _ & _ & Kh). fold pc in Kh. congruence.
        - split; [intros r Er; congruence|auto]. }
      split; [intros _ _ A1 A2 A3 Eo; exfalso; eapply K2; eauto|].
      split; [intros E; cbn [v vmark] in E; congruence|]. split; [auto|exact Hcd0]. }
    cbn [v vptr vkey] in Hkeep. fold pc in Hkeep.
    destruct (Nat.eq_dec pc TAIL) as [ET|ET].
    { (* m_Tail follows: absent *)
      destruct (obs_res o false) as [r|] eqn:Er.
      - destruct (ld_obs false r Er) as (atr' & HL').
        { intros S Ha. eapply (lazy_absent g (h_base a) L S n k); eauto. }
        exists atr', (@Linearized SetSpec o r), None. split; [exact HL'|]. unfold ldpost. fold k.
        split; [right; eexists; split; [reflexivity|eapply MichaelListFullInv.obs_res_read; eauto]|].
        cbn [v vptr vkey vmark]. fold pc. post_tac.
      - apply Hkeep; [auto|intros A; contradiction|intros A; contradiction]. }
    destruct (Nat.eq_dec pc HEAD) as [EH|EH].
    { apply Hkeep; [intros [A|[A _]]; contradiction|intros _ A; contradiction|intros _ A; contradiction]. }
    assert (HpcL : In pc L) by (apply in_app_or in HnL; destruct HnL as [K|[K|[]]]; [exact K|congruence]).
    assert (Hkpc : kf g pc = EKey (nkey (heap g pc))) by (eapply kf_node; eauto).
    destruct (Z.compare_spec k (nkey (heap g pc))) as [Ekk|Hlt'|Hgt].
    - (* the node with key k follows *)
      destruct (not_contains_dec o) as [Hn|(kk & Eo)].
      + destruct (nmark (heap g pc)) eqn:Emp; [apply Hkeep; [intros [A|[_ A]]; [contradiction|lia]|intros _ _ _ [kk' ->]; eapply Hn; reflexivity|auto]|].
        destruct (obs_res o true) as [r|] eqn:Er; [|apply Hkeep; [intros [A|[_ A]]; [contradiction|lia]|intros _ _ _ [kk' ->]; eapply Hn; reflexivity|auto]].
        destruct (ld_obs true r Er) as (atr' & HL').
        { intros S Ha. eapply (present_in g (h_base a) L S pc k); eauto. apply (s_pubL _ _ _ HS). exact HpcL. }
        exists atr', (@Linearized SetSpec o r), None. split; [exact HL'|]. unfold ldpost. fold k.
        split; [right; eexists; split; [reflexivity|eapply MichaelListFullInv.obs_res_read; eauto]|].
        cbn [v vptr vkey vmark]. fold pc. post_tac; try (exfalso; eapply Hn; reflexivity).
      + (* contains: watch the node *)
        assert (Ekk' : kk = k) by (unfold k; rewrite Eo; reflexivity). subst kk.
        assert (Hpcp : a_pub (h_base a) pc = true) by (apply (s_pubL _ _ _ HS); exact HpcL).
        destruct (nmark (heap g pc)) eqn:Emp.
        * (* already marked: absent now *)
          assert (Hl : exists atr', IL7 g (mk atr' (absent_st k) (Some pc)) tr' L).
          { unfold mk, tr'. rewrite <- Hcode. apply (IL7_lin g g a t _ _ lv' L L tr KLd (obj_next n) true o); auto.
            - eapply st_open; eauto.
            - rewrite Hvs. exact Hop.
            - intros S Ha. rewrite Eo. cbn [set_step fst snd]. rewrite (marked_absent g (h_base a) L S pc k HS Ha HpcL Emp (eq_sym Ekk)). split; [exact Ha|reflexivity].
            - split; [exact Hpcp|]. rewrite <- Ekk. split; [exact Eo|reflexivity]. }
          destruct Hl as (atr' & HL'). exists atr', (absent_st k), (Some pc). split; [exact HL'|]. unfold ldpost. fold k.
          split; [rewrite Eo; right; eexists; split; reflexivity|].
          cbn [v vptr vkey vmark]. fold pc. post_tac; try (exfalso; eapply H; reflexivity).
        * (* unmarked: the view status becomes the actual status *)
          destruct (st_open g a tr L t lv vs cd code o HL Hv Hop Hcd0) as (s0 & Hs0 & Hop0).
          exists (h_atr a), s0, (Some pc). split.
          -- unfold mk, tr'. rewrite <- Hcode. apply (IL7_accv g g a t _ _ lv' L L tr KLd (obj_next n) true s0 (Some pc) HL); auto.
             ++ intros s Hs. rewrite (srel_fun _ _ _ _ _ Hs Hs0). unfold srel. cbn [h_cand h_vs h_base mk_a7 a_pub mk_a]. rewrite !updf_same.
                split; [exact Hpcp|]. rewrite <- Ekk, <- Eo. split; [exact Hop0|]. rewrite Emp. reflexivity.
             ++ intros _. rewrite Hvs. destruct Hop as [E|(r & E & _)]; rewrite E; discriminate.
          -- unfold ldpost. fold k. split; [exact Hop0|]. cbn [v vptr vkey vmark]. fold pc. post_tac; try (exfalso; eapply H; reflexivity).
    - (* a node above k follows: absent *)
      destruct (obs_res o false) as [r|] eqn:Er.
      + destruct (ld_obs false r Er) as (atr' & HL').
        { intros S Ha. eapply (lazy_absent g (h_base a) L S n k); eauto. right. fold pc. rewrite Hkpc. cbn. lia. }
        exists atr', (@Linearized SetSpec o r), None. split; [exact HL'|]. unfold ldpost. fold k.
        split; [right; eexists; split; [reflexivity|eapply MichaelListFullInv.obs_res_read; eauto]|].
        cbn [v vptr vkey vmark]. fold pc. post_tac.
      + apply Hkeep; [auto|intros _ _ A; lia|intros _ _ A; lia].
    - apply Hkeep; [intros [A|[_ A]]; [contradiction|lia]|intros _ _ A; lia|intros _ _ A; lia].
  Qed.

  Lemma ld_core :
    exists atr' vs' cd', IL7 g (mk atr' vs' cd') tr' L /\ ldpost n ck o (lv_held lv) v vs cd vs' cd'.
  Proof.
    destruct (view7_split _ _ _ _ _ _ Hv) as (Hv1 & Hvs & Hc & Hcode).
    destruct cell_facts as (Hpz & HnT & Hckn & Hlt).
    assert (Hkeep : (vmark v = false -> ck = Some k -> obs_res o true = None) ->
                    (vmark v = false -> ck_lt ck k -> False) ->
                    (vmark v = true -> cd = Some n -> ck = Some k -> o = SContains k -> False) ->
                    exists atr' vs' cd', IL7 g (mk atr' vs' cd') tr' L /\ ldpost n ck o (lv_held lv) v vs cd vs' cd').
    { intros K1 K2 K3. exists (h_atr a), vs, cd. split; [apply ld_keep|]. unfold ldpost. fold k.
      split; [exact Hop|]. split; [intros A B; split; [intros r Er; rewrite (K1 A B) in Er; discriminate|]|].
      { destruct (not_contains_dec o) as [Hn|(kk & Eo)]; [auto|]. rewrite Eo in K1. specialize (K1 A B). discriminate. }
      split; [intros A B; exfalso; auto|]. split; [intros A B; exfalso; auto|]. split; [intros A B; exfalso; auto|].
      split; [intros A B C D; exfalso; eauto|]. split; [auto|exact Hcd0]. }
    destruct (Bool.bool_dec (nmark (heap g n)) true) as [Em|Em]; [|apply not_true_is_false in Em].
    - (* a marked value *)
      destruct cd as [c0|]; [|apply Hkeep; cbn [v vmark]; intros; congruence].
      destruct (Nat.eq_dec c0 n) as [->|Hne]; [|apply Hkeep; cbn [v vmark]; intros; congruence].
      (* the watched node is marked: the thread has been linearized "absent" *)
      pose proof HL as HL0. destruct HL0 as [(S & st & H1 & H2 & H3) _ _]. pose proof (H3 t) as K. unfold srel in K. rewrite Hc, Hvs, Em in K.
      destruct K as (K1 & K2 & K3).
      pose proof (open_read_inj _ _ _ Hop K2) as Eo.
      assert (Ek : k = nkey (heap g n)) by (unfold k; rewrite Eo; reflexivity).
      exists (h_atr a), (absent_st k), None. split.
      + unfold mk, tr'. rewrite <- Hcode. apply (IL7_accv g g a t _ _ lv' L L tr KLd (obj_next n) true _ None HL); auto.
        * intros s Hs. unfold srel in *. cbn [h_cand h_vs mk_a7]. rewrite !updf_same. rewrite Hc, Em in Hs. rewrite Ek. tauto.
        * intros _. rewrite Hvs. destruct Hop as [E|(r & E & _)]; rewrite E; discriminate.
      + unfold ldpost. fold k. split; [rewrite Eo, Ek; right; eexists; split; reflexivity|].
        cbn [v vmark]. post_tac; try (exfalso; match goal with H : ck = Some ?x |- _ => destruct (Hckn _ H); lia end).
    - pose proof Hck as Hck'. destruct Hck' as [[En Eck]|(kn & Hkn & Eck)].
      + apply ld_below; [exact Em|left; exact Eck].
      + destruct (Hckn kn Eck) as [Hnp Hnk].
        destruct (Z.compare_spec kn k) as [Ekk|Hlt'|Hgt].
        * (* the node with key k is unmarked: present *)
          destruct (obs_res o true) as [r|] eqn:Er.
          2:{ apply Hkeep; cbn [v vmark]; intros; try congruence. destruct H0 as [E|(kn' & E & Hl)]; [congruence|]. assert (kn' = kn) by congruence. lia. }
          destruct (ld_obs true r Er) as (atr' & HL').
          { intros S Ha. eapply present_in; eauto. congruence. }
          exists atr', (@Linearized SetSpec o r), None. split; [exact HL'|]. unfold ldpost. fold k.
          split; [right; eexists; split; [reflexivity|eapply MichaelListFullInv.obs_res_read; eauto]|]. cbn [v vmark]. post_tac;
            try (exfalso; match goal with H : ck = Some ?x |- _ => assert (x = kn) by congruence; lia end).
        * apply ld_below; [exact Em|right; exists kn; auto].
        * apply Hkeep; cbn [v vmark]; intros; try congruence.
          -- assert (kn = k) by congruence. lia.
          -- destruct H0 as [E|(kn' & E & Hl)]; [congruence|]. assert (kn' = kn) by congruence. lia.
  Qed.
End LdCore.

(** ** steps that leave the list fields alone *)
Lemma same_marks g g' : same_list_fields g g' -> forall x : nat, nkey (heap g' x) = nkey (heap g x) /\ nmark (heap g' x) = nmark (heap g x).
Proof. intros H x. destruct (H x) as (K1 & _ & K3). auto. Qed.

Lemma Inv7_soft g g' a t lv lv' vs cd code L tr kd ob ok :
  IS g (h_base a) L -> IL7 g a tr L -> view7 a t = (lv, vs, cd, code) -> same_list_fields g g' -> nalloc g' = nalloc g ->
  (forall u n, u <> t -> holds (view (h_base a) u) n -> heap g' n = heap g n) ->
  (forall u n k nx, u <> t -> lv_own (view (h_base a) u) = Some (n, k, nx) -> heap g' n = heap g n) ->
  Forall (fact_ok g' (a_pub (h_base a))) (lv_facts lv') -> Forall (held_ok g' (a_pub (h_base a))) (lv_held lv') ->
  (forall u n, u <> t -> holds lv' n -> holds (view (h_base a) u) n -> False) ->
  own_ok g' (a_pub (h_base a)) (lv_own lv') -> lv_own lv' = lv_own lv -> lv_hole lv' = lv_hole lv ->
  (forall p c s0, lv_hole lv' = Some (p, c, s0) -> In (p, Some (c, false)) (lv_held lv') /\ holds lv' c) ->
  Inv7 g' (mk_a7 a t (a_pub (h_base a)) (a_succ (h_base a)) lv' (h_atr a) vs cd code) (tr ++ Conc.tag t [EvAcc kd ob ok]).
Proof.
  intros HS HL Hv Hsame. destruct (view7_split _ _ _ _ _ _ Hv) as (Hv1 & Hvs & Hc & Hcode). subst lv vs cd code. intros.
  exists L. split; [eapply IS_soft; eauto|].
  apply (IL7_acc g g' a t _ _ lv' L L tr kd ob ok HL); auto.
  - intros S. apply abs_same. exact Hsame.
  - intros x _. apply same_marks. exact Hsame.
Qed.

Lemma Inv7_keep g g' a t lv vs cd code L tr kd ob ok :
  IS g (h_base a) L -> IL7 g a tr L -> view7 a t = (lv, vs, cd, code) -> (forall x, heap g' x = heap g x) -> nalloc g' = nalloc g ->
  Inv7 g' (mk_a7 a t (a_pub (h_base a)) (a_succ (h_base a)) lv (h_atr a) vs cd code) (tr ++ Conc.tag t [EvAcc kd ob ok]).
Proof.
  intros H HL Hv Hh Hn. destruct (view7_split _ _ _ _ _ _ Hv) as (Hv1 & _).
  eapply Inv7_soft; eauto.
  - intros x. rewrite Hh. auto.
  - subst lv. eapply Forall_impl; [|apply (s_facts _ _ _ H)]. intros [n k] K. unfold fact_ok in *. now rewrite Hh.
  - subst lv. eapply (held_ok_frame g g' (a_pub (h_base a)) (a_pub (h_base a))); [auto| |apply (s_held _ _ _ H)]. intros e _. apply Hh.
  - intros u n Hu Hn1 Hn2. subst lv. apply Hu. symmetry. eapply (s_excl _ _ _ H); eauto.
  - subst lv. pose proof (s_own _ _ _ H t) as K. destruct (lv_own (view (h_base a) t)) as [[[n k] nx]|]; cbn [own_ok] in *; auto.
    rewrite Hn, Hh. exact K.
  - intros p c s0 E. subst lv. destruct (s_hole _ _ _ H t p c s0 E) as (_ & K2 & K3 & _). auto.
Qed.

Lemma safe7_neutral {R} t f v (k : V -> prog R) l Q :
  neutral3 f v -> safe7 t (k v) l Q -> safe7 t (Act f k) l Q.
Proof.
  destruct l as [[[lv vs] cd] code]. intros Hf Hk. cbn [Conc.safe]. intros g a tr (L & HS & HL) Hv.
  destruct (Hf g) as (g' & kd & ob & ok & E & H1 & H2). rewrite E. cbn [fst snd].
  exists (mk_a7 a t (a_pub (h_base a)) (a_succ (h_base a)) lv (h_atr a) vs cd code).
  split; [|split; [apply frame7_mk|rewrite view7_mk_same; exact Hk]].
  eapply Inv7_keep; eauto.
Qed.

(** ** loads *)
Lemma safe7_ld {R} t n ck o (k : V -> prog R) lv vs cd code Q :
  pk (lv_facts lv) n -> ck7 (lv_facts lv) n ck -> open_read vs o -> (not_contains o -> cd = None) ->
  (forall v vs' cd', agrees (lv_held lv) n v -> ldpost n ck o (lv_held lv) v vs cd vs' cd' ->
       (forall kk, In (FPub (vptr v) kk) (lv_facts lv) -> vptr v <> HEAD /\ vptr v <> TAIL /\ vkey v = kk) ->
       safe7 t (k v) (with_facts lv (newfacts n v ++ lv_facts lv), vs', cd', code) Q) ->
  safe7 t (Act (a_ld n) k) (lv, vs, cd, code) Q.
Proof.
  intros Hn Hck Hop Hcd0 Hk. cbn [Conc.safe]. intros g a tr (L & HS & HL) Hv. unfold a_ld. cbn [fst snd].
  destruct (view7_split _ _ _ _ _ _ Hv) as (Hv1 & Hvs & Hc & Hcode).
  set (v := mkV (nnext (heap g n)) (nmark (heap g n)) (nkey (heap g (nnext (heap g n))))).
  pose proof (pk_pz _ _ _ _ _ _ HS Hv1 Hn) as Hpz.
  set (lv' := with_facts lv (newfacts n v ++ lv_facts lv)).
  destruct (ld_core g a t L tr n ck o lv vs cd code lv' HS HL Hv Hck Hop Hcd0) as (atr' & vs' & cd' & HL' & Hpost).
  exists (mk_a7 a t (a_pub (h_base a)) (a_succ (h_base a)) lv' atr' vs' cd' code).
  split; [|split; [apply frame7_mk|rewrite view7_mk_same; apply Hk]].
  - exists L. split; [|exact HL'].
    apply (IS_soft g g (h_base a) t lv' L HS); auto; try apply same_refl; cbn [lv' with_facts lv_facts lv_held lv_own lv_hole].
    + apply Forall_app. split; [eapply newfacts_ok; eauto|]. subst lv. apply (s_facts _ _ _ HS).
    + subst lv. apply (s_held _ _ _ HS).
    + intros u x Hu Hx Hx'. subst lv. apply Hu. symmetry. eapply (s_excl _ _ _ HS); eauto.
    + subst lv. apply (s_own _ _ _ HS).
    + subst lv. reflexivity.
    + subst lv. reflexivity.
    + intros p c s E. subst lv. destruct (s_hole _ _ _ HS t p c s E) as (_ & K2 & K3 & _). auto.
  - intros x m Hin. subst lv. pose proof (held_entry _ _ _ _ _ _ HS Hin) as (_ & _ & K). cbn [fst snd] in K. subst v. cbn. tauto.
  - exact Hpost.
  - intros kk Hkk. pose proof (fact_in _ _ _ _ _ _ HS Hv1 Hkk) as (K0 & K). cbn [v vptr vkey] in *.
    pose proof (pub_range _ _ _ _ HS K0) as Kr. unfold HEAD, TAIL. split; [lia|]. split; [lia|exact K].
Qed.

Lemma safe7_ld_held {R} t n ck o (k : V -> prog R) lv vs cd code Q :
  holds lv n -> ck7 (lv_facts lv) n ck -> open_read vs o -> (not_contains o -> cd = None) ->
  (forall v vs' cd', agrees (lv_held lv) n v -> ldpost n ck o (lv_held lv) v vs cd vs' cd' ->
       (forall kk, In (FPub (vptr v) kk) (lv_facts lv) -> vptr v <> HEAD /\ vptr v <> TAIL /\ vkey v = kk) ->
       safe7 t (k v) (mkLV (newfacts n v ++ lv_facts lv) ((n, Some (vptr v, vmark v)) :: lv_held lv) (lv_own lv) (lv_hole lv), vs', cd', code) Q) ->
  safe7 t (Act (a_ld n) k) (lv, vs, cd, code) Q.
Proof.
  intros [ob Ho] Hck Hop Hcd0 Hk. cbn [Conc.safe]. intros g a tr (L & HS & HL) Hv. unfold a_ld. cbn [fst snd].
  destruct (view7_split _ _ _ _ _ _ Hv) as (Hv1 & Hvs & Hc & Hcode).
  set (v := mkV (nnext (heap g n)) (nmark (heap g n)) (nkey (heap g (nnext (heap g n))))).
  assert (Hpz : pz (a_pub (h_base a)) n) by (subst lv; apply (held_entry _ _ _ _ _ _ HS Ho)).
  set (lv' := mkLV (newfacts n v ++ lv_facts lv) ((n, Some (vptr v, vmark v)) :: lv_held lv) (lv_own lv) (lv_hole lv)).
  destruct (ld_core g a t L tr n ck o lv vs cd code lv' HS HL Hv Hck Hop Hcd0) as (atr' & vs' & cd' & HL' & Hpost).
  exists (mk_a7 a t (a_pub (h_base a)) (a_succ (h_base a)) lv' atr' vs' cd' code).
  split; [|split; [apply frame7_mk|rewrite view7_mk_same; apply Hk]].
  - exists L. split; [|exact HL'].
    apply (IS_soft g g (h_base a) t lv' L HS); auto; try apply same_refl; cbn [lv' lv_facts lv_held lv_own lv_hole].
    + apply Forall_app. split; [eapply newfacts_ok; eauto|]. subst lv. apply (s_facts _ _ _ HS).
    + constructor; [|subst lv; apply (s_held _ _ _ HS)].
      subst lv. destruct (held_entry _ _ _ _ _ _ HS Ho) as (K1 & K2 & _). unfold held_ok. cbn. auto.
    + intros u x Hu [ox Hx] Hx'. subst lv. apply Hu. symmetry. destruct Hx as [E|Hx].
      * inversion E; subst x. eapply (s_excl _ _ _ HS); eauto. exists ob; exact Ho.
      * eapply (s_excl _ _ _ HS); eauto. exists ox; exact Hx.
    + subst lv. apply (s_own _ _ _ HS).
    + subst lv. reflexivity.
    + subst lv. reflexivity.
    + intros p c s E. subst lv. destruct (s_hole _ _ _ HS t p c s E) as (_ & K2 & [oc K3] & _).
      split; [right; exact K2|exists oc; right; exact K3].
  - intros x m Hin. subst lv. pose proof (held_entry _ _ _ _ _ _ HS Hin) as (_ & _ & K). cbn [fst snd] in K. subst v. cbn. tauto.
  - exact Hpost.
  - intros kk Hkk. pose proof (fact_in _ _ _ _ _ _ HS Hv1 Hkk) as (K0 & K). cbn [v vptr vkey] in *.
    pose proof (pub_range _ _ _ _ HS K0) as Kr. unfold HEAD, TAIL. split; [lia|]. split; [lia|exact K].
Qed.

(** ** locks *)
Lemma safe7_xchg {R} t n (k : V -> prog R) lv vs cd code Q :
  pk (lv_facts lv) n ->
  safe7 t (k (vok true)) (lv, vs, cd, code) Q ->
  (~ holds lv n -> safe7 t (k (vok false)) (with_held lv ((n, None) :: lv_held lv), vs, cd, code) Q) ->
  safe7 t (Act (a_xchg n) k) (lv, vs, cd, code) Q.
Proof.
  intros Hn Hk1 Hk0. cbn [Conc.safe]. intros g a tr (L & HS & HL) Hv. unfold a_xchg. cbn [fst snd].
  destruct (view7_split _ _ _ _ _ _ Hv) as (Hv1 & Hvs & Hc & Hcode).
  pose proof (pk_pz _ _ _ _ _ _ HS Hv1 Hn) as Hpz.
  assert (Hsame : same_list_fields g (set_lock g n true)).
  { intros x. destruct (Nat.eq_dec x n) as [->|Hx]; [rewrite heap_set_lock_same; cbn; auto|rewrite heap_set_lock_other; auto]. }
  assert (Hown : forall u x k0 nx, lv_own (view (h_base a) u) = Some (x, k0, nx) -> heap (set_lock g n true) x = heap g x).
  { intros u x k0 nx E. apply heap_set_lock_other. pose proof (s_own _ _ _ HS u) as K. rewrite E in K. cbn in K.
    destruct K as (K1 & K2 & _). destruct Hpz as [->|[->|Hp]]; unfold HEAD, TAIL; try lia. congruence. }
  assert (Hheldu : forall u x, holds (view (h_base a) u) x -> heap (set_lock g n true) x = heap g x).
  { intros u x [o Ho]. destruct (Nat.eq_dec x n) as [->|Hx]; [|now apply heap_set_lock_other].
    rewrite heap_set_lock_same. destruct (held_entry _ _ _ _ _ _ HS Ho) as (_ & K & _). cbn [fst] in K.
    destruct (heap g n) as [a1 a2 a3 a4]. cbn in *. subst a4. reflexivity. }
  assert (Hfacts : Forall (fact_ok (set_lock g n true) (a_pub (h_base a))) (lv_facts lv)).
  { subst lv. eapply Forall_impl; [|apply (s_facts _ _ _ HS)]. intros [x kx] K. unfold fact_ok in *. destruct (Hsame x) as (E & _). now rewrite E. }
  destruct (nlock (heap g n)) eqn:El.
  - exists (mk_a7 a t (a_pub (h_base a)) (a_succ (h_base a)) lv (h_atr a) vs cd code).
    split; [|split; [apply frame7_mk|rewrite view7_mk_same; exact Hk1]].
    eapply Inv7_soft; eauto.
    + subst lv. pose proof (s_held _ _ _ HS t) as K. rewrite Forall_forall in *. intros [x o] He. specialize (K _ He).
      unfold held_ok in *. cbn [fst snd] in *. rewrite (Hheldu t x (ex_intro _ o He)). exact K.
    + intros u x Hu Hx Hx'. subst lv. apply Hu. symmetry. eapply (s_excl _ _ _ HS); eauto.
    + subst lv. pose proof (s_own _ _ _ HS t) as K. destruct (lv_own (view (h_base a) t)) as [[[x kx] nx]|] eqn:E; cbn [own_ok] in *; auto.
      rewrite (Hown t x kx nx E). exact K.
    + intros p c s E. subst lv. destruct (s_hole _ _ _ HS t p c s E) as (_ & K2 & K3 & _). auto.
  - assert (Hfree : forall u, ~ holds (view (h_base a) u) n).
    { intros u [o Ho]. destruct (held_entry _ _ _ _ _ _ HS Ho) as (_ & K & _). cbn [fst] in K. congruence. }
    exists (mk_a7 a t (a_pub (h_base a)) (a_succ (h_base a)) (with_held lv ((n, None) :: lv_held lv)) (h_atr a) vs cd code).
    split; [|split; [apply frame7_mk|rewrite view7_mk_same; apply Hk0; rewrite <- Hv1; apply Hfree]].
    eapply Inv7_soft; eauto; cbn [with_held lv_facts lv_held lv_own lv_hole].
    + constructor.
      * unfold held_ok. cbn [fst snd]. rewrite heap_set_lock_same. cbn. auto.
      * subst lv. pose proof (s_held _ _ _ HS t) as K. rewrite Forall_forall in *. intros [x o] He. specialize (K _ He).
        unfold held_ok in *. cbn [fst snd] in *. rewrite (Hheldu t x (ex_intro _ o He)). exact K.
    + intros u x Hu [ox Hx] Hx'. destruct Hx as [E|Hx].
      * inversion E; subst x. eapply Hfree; eauto.
      * subst lv. apply Hu. symmetry. eapply (s_excl _ _ _ HS); eauto. exists ox; exact Hx.
    + subst lv. pose proof (s_own _ _ _ HS t) as K. destruct (lv_own (view (h_base a) t)) as [[[x kx] nx]|] eqn:E; cbn [own_ok] in *; auto.
      rewrite (Hown t x kx nx E). exact K.
    + intros p c s E. subst lv. destruct (s_hole _ _ _ HS t p c s E) as (_ & K2 & [oc K3] & _).
      split; [right; exact K2|exists oc; right; exact K3].
Qed.

Lemma safe7_ldlock {R} t n (k : V -> prog R) l Q :
  (forall b, safe7 t (k (vok b)) l Q) -> safe7 t (Act (a_ldlock n) k) l Q.
Proof.
  destruct l as [[[lv vs] cd] code]. intros Hk. cbn [Conc.safe]. intros g a tr (L & HS & HL) Hv. unfold a_ldlock. cbn [fst snd].
  exists (mk_a7 a t (a_pub (h_base a)) (a_succ (h_base a)) lv (h_atr a) vs cd code).
  split; [|split; [apply frame7_mk|rewrite view7_mk_same; apply Hk]].
  eapply Inv7_keep; eauto.
Qed.

Lemma safe7_unlock {R} t n (k : V -> prog R) lv vs cd code Q :
  holds lv n -> lv_hole lv = None ->
  safe7 t (k v0) (with_held lv (release (lv_held lv) n), vs, cd, code) Q ->
  safe7 t (Act (a_unlock n) k) (lv, vs, cd, code) Q.
Proof.
  intros [o Ho] Hhole Hk. cbn [Conc.safe]. intros g a tr (L & HS & HL) Hv. unfold a_unlock. cbn [fst snd].
  destruct (view7_split _ _ _ _ _ _ Hv) as (Hv1 & Hvs & Hc & Hcode).
  exists (mk_a7 a t (a_pub (h_base a)) (a_succ (h_base a)) (with_held lv (release (lv_held lv) n)) (h_atr a) vs cd code).
  split; [|split; [apply frame7_mk|rewrite view7_mk_same; exact Hk]].
  assert (Hpz : pz (a_pub (h_base a)) n) by (subst lv; apply (held_entry _ _ _ _ _ _ HS Ho)).
  assert (Hsame : same_list_fields g (set_lock g n false)).
  { intros x. destruct (Nat.eq_dec x n) as [->|Hx]; [rewrite heap_set_lock_same; cbn; auto|rewrite heap_set_lock_other; auto]. }
  eapply Inv7_soft; eauto; cbn [with_held lv_facts lv_held lv_own lv_hole].
  - intros u x Hu Hx. apply heap_set_lock_other. intros ->. apply Hu. subst lv. eapply (s_excl _ _ _ HS); eauto. exists o; exact Ho.
  - intros u x k0 nx Hu E. apply heap_set_lock_other. pose proof (s_own _ _ _ HS u) as K. rewrite E in K. cbn in K.
    destruct K as (K1 & K2 & _). destruct Hpz as [->|[->|Hp]]; unfold HEAD, TAIL; try lia. congruence.
  - subst lv. eapply Forall_impl; [|apply (s_facts _ _ _ HS)]. intros [x kx] K. unfold fact_ok in *. destruct (Hsame x) as (E & _). now rewrite E.
  - rewrite Forall_forall. intros [x ox] He. apply release_in in He. destruct He as [He Hx]. subst lv.
    pose proof (held_entry _ _ _ _ _ _ HS He) as K. unfold held_ok in *. cbn [fst snd] in *. rewrite heap_set_lock_other by exact Hx. exact K.
  - intros u x Hu [ox Hx] Hx'. apply release_in in Hx. destruct Hx as [Hx _]. subst lv. apply Hu. symmetry.
    eapply (s_excl _ _ _ HS); eauto. exists ox; exact Hx.
  - subst lv. pose proof (s_own _ _ _ HS t) as K. destruct (lv_own (view (h_base a) t)) as [[[x kx] nx]|] eqn:E; cbn [own_ok] in *; auto.
    destruct K as (K1 & K2 & K3). change (nalloc (set_lock g n false)) with (nalloc g). repeat split; try lia; auto.
    rewrite heap_set_lock_other; [exact K3|]. destruct Hpz as [->|[->|Hp]]; unfold HEAD, TAIL; try lia. congruence.
  - intros p c s E. congruence.
Qed.

(** ** allocation and stores *)
Lemma safe7_alloc {R} t kk (k : V -> prog R) lv vs cd code Q :
  (forall n, safe7 t (k (mkV n false kk)) (mkLV (lv_facts lv) (lv_held lv) (Some (n, kk, 0%nat)) (lv_hole lv), vs, cd, code) Q) ->
  safe7 t (Act (a_alloc kk) k) (lv, vs, cd, code) Q.
Proof.
  intros Hk. cbn [Conc.safe]. intros g a tr (L & HS & HL) Hv. unfold a_alloc. cbn [fst snd].
  destruct (view7_split _ _ _ _ _ _ Hv) as (Hv1 & Hvs & Hc & Hcode).
  change (mkG (upd_heap (heap g) (S (nalloc g)) (mkNode kk 0 false false)) (S (nalloc g)) (count g)) with (alloc_g g kk).
  set (lv' := mkLV (lv_facts lv) (lv_held lv) (Some (S (nalloc g), kk, 0%nat)) (lv_hole lv)).
  exists (mk_a7 a t (a_pub (h_base a)) (a_succ (h_base a)) lv' (h_atr a) vs cd code).
  split; [|split; [apply frame7_mk|rewrite view7_mk_same; apply Hk]].
  assert (Hold : forall x, a_pub (h_base a) x = true -> heap (alloc_g g kk) x = heap g x).
  { intros x Hx. apply heap_alloc_old. apply (pub_range _ _ _ _ HS) in Hx. lia. }
  exists L. split; [subst lv; apply IS_alloc; auto|]. rewrite <- Hvs, <- Hc, <- Hcode.
  apply (IL7_acc g _ a t _ _ lv' L L tr _ _ _ HL); auto.
  - intros S0. apply abs_frame. intros x Hx. apply Hold. apply (s_pubL _ _ _ HS). exact Hx.
  - intros x Hx. rewrite (Hold x Hx). auto.
Qed.

Lemma safe7_st_own {R} t n kk nx p (k : V -> prog R) lv vs cd code Q :
  lv_own lv = Some (n, kk, nx) ->
  safe7 t (k v0) (mkLV (lv_facts lv) (lv_held lv) (Some (n, kk, p)) (lv_hole lv), vs, cd, code) Q ->
  safe7 t (Act (a_st n p false) k) (lv, vs, cd, code) Q.
Proof.
  intros Hown Hk. cbn [Conc.safe]. intros g a tr (L & HS & HL) Hv. unfold a_st. cbn [fst snd].
  destruct (view7_split _ _ _ _ _ _ Hv) as (Hv1 & Hvs & Hc & Hcode).
  set (lv' := mkLV (lv_facts lv) (lv_held lv) (Some (n, kk, p)) (lv_hole lv)).
  exists (mk_a7 a t (a_pub (h_base a)) (a_succ (h_base a)) lv' (h_atr a) vs cd code).
  split; [|split; [apply frame7_mk|rewrite view7_mk_same; exact Hk]].
  assert (Hold : forall x, a_pub (h_base a) x = true -> heap (set_next g n p false) x = heap g x).
  { intros x Hx. apply heap_set_next_other. subst lv. pose proof (s_own _ _ _ HS t) as K. rewrite Hown in K. cbn in K. destruct K as (_ & K & _). congruence. }
  exists L. split; [subst lv; eapply IS_own_store; eauto|]. rewrite <- Hvs, <- Hc, <- Hcode.
  apply (IL7_acc g _ a t _ _ lv' L L tr _ _ _ HL); auto.
  - intros S0. apply abs_frame. intros x Hx. apply Hold. apply (s_pubL _ _ _ HS). exact Hx.
  - intros x Hx. rewrite (Hold x Hx). auto.
Qed.

(** link_node's second store: linearization point of insert / inserting update *)
Lemma safe7_st_link {R} t m n kk pc o (k : V -> prog R) lv vs code Q :
  In (m, Some (pc, false)) (lv_held lv) -> lv_own lv = Some (n, kk, pc) -> lv_hole lv = None ->
  klt (lv_facts lv) m kk -> kgt (lv_facts lv) pc kk -> ins_op o kk -> open_read vs o ->
  safe7 t (k v0) (mkLV (FPub n kk :: lv_facts lv) (set_obs (lv_held lv) m (n, false)) None None, @Linearized SetSpec o (ins_res o), None, code) Q ->
  safe7 t (Act (a_st m n false) k) (lv, vs, None, code) Q.
Proof.
  intros Hm Hown Hhole Hkm Hkc Hop Hopen Hk. cbn [Conc.safe]. intros g a tr (L & HS & HL) Hv. unfold a_st. cbn [fst snd].
  destruct (view7_split _ _ _ _ _ _ Hv) as (Hv1 & Hvs & Hc & Hcode).
  set (lv' := mkLV (FPub n kk :: lv_facts lv) (set_obs (lv_held lv) m (n, false)) None None).
  assert (Hpc : pc = TAIL \/ a_pub (h_base a) pc = true).
  { destruct Hkc as [->|(kc & Hkc & _)]; [left; reflexivity|right]. pose proof (fact_in _ _ _ _ _ _ HS Hv1 Hkc) as K. cbn in K. tauto. }
  assert (Hk1 : elt (kf g m) (EKey kk)).
  { unfold kf. destruct Hkm as [->|(km & Hkm & Hlt)]; [cbn; exact I|].
    pose proof (fact_in _ _ _ _ _ _ HS Hv1 Hkm) as (K1 & K2). apply (pub_range _ _ _ _ HS) in K1. unfold HEAD, TAIL.
    destruct (Nat.eqb_spec m 1); [lia|]. destruct (Nat.eqb_spec m 2); [lia|]. cbn. lia. }
  assert (Hk2 : elt (EKey kk) (kf g pc)).
  { unfold kf. destruct Hkc as [->|(kc & Hkc & Hlt)]; [cbn; exact I|].
    pose proof (fact_in _ _ _ _ _ _ HS Hv1 Hkc) as (K1 & K2). apply (pub_range _ _ _ _ HS) in K1. unfold HEAD, TAIL.
    destruct (Nat.eqb_spec pc 1); [lia|]. destruct (Nat.eqb_spec pc 2); [lia|]. cbn. lia. }
  pose proof (s_own _ _ _ HS t) as Kown. rewrite Hv1, Hown in Kown. cbn [own_ok] in Kown. destruct Kown as (Kn & Knp & Knh).
  destruct (held_entry _ _ _ _ _ _ HS (eq_ind_r (fun l => In _ (lv_held l)) Hm Hv1)) as (Hmz & Hml & Hmn & Hmm). cbn [fst snd] in *.
  assert (Hst0 : exists s0, srel g a t s0 /\ open_read s0 o).
  { eapply st_open; eauto. }
  subst lv.
  destruct (IS_link g (h_base a) t lv' L m n kk pc HS Hm Hown Hhole Hpc Hk1 Hk2) as (L' & HS' & HnL & HL'); try reflexivity.
  assert (Hnm : n <> m).
  { intros ->. destruct Hmz as [E|[E|E]]; unfold HEAD, TAIL in *; try lia. congruence. }
  set (g' := set_next g m n false).
  assert (Hkey : forall x, nkey (heap g' x) = nkey (heap g x)).
  { intros x. unfold g'. destruct (Nat.eq_dec x m) as [->|Hx]; [rewrite heap_set_next_same; reflexivity|now rewrite heap_set_next_other]. }
  assert (Hmark : forall x, nmark (heap g' x) = nmark (heap g x)).
  { intros x. unfold g'. destruct (Nat.eq_dec x m) as [->|Hx]; [rewrite heap_set_next_same; cbn; congruence|now rewrite heap_set_next_other]. }
  assert (Hnokey : forall S, abs g L S -> zmem kk S = false).
  { intros S Ha. destruct (zmem kk S) eqn:Ez; auto. exfalso. apply Ha in Ez. destruct Ez as (x & H1 & H2 & H3).
    assert (Hxn : x <> n) by (intros ->; contradiction).
    apply Hxn. apply (chain_keys_inj g' _ L' x n HS'); [apply HL'; auto|apply HL'; auto|]. rewrite !Hkey, Knh, H3. reflexivity. }
  assert (Habs : forall S, abs g L S -> abs g' L' (kk :: S)).
  { intros S Ha k0. cbn [zmem existsb]. rewrite orb_true_iff. fold (zmem k0 S). rewrite (Ha k0). split.
    - intros [Ek|(x & H1 & H2 & H3)].
      + apply Z.eqb_eq in Ek. subst k0. exists n. split; [apply HL'; auto|]. rewrite Hmark, Hkey, Knh. auto.
      + exists x. split; [apply HL'; auto|]. rewrite Hkey, Hmark; auto.
    - intros (x & H1 & H2 & H3). apply HL' in H1. destruct H1 as [->|H1].
      + left. rewrite Hkey, Knh in H3. cbn in H3. subst k0. apply Z.eqb_refl.
      + right. exists x. rewrite Hkey in H3. rewrite Hmark in H2; auto. }
  destruct (IL7_lin g g' a t (pub_add (a_pub (h_base a)) n) (a_succ (h_base a)) lv' L L' tr KSt (obj_next m) true o
                    (@Linearized SetSpec o (ins_res o)) None HL Hst0) as (atr' & HL2).
  - rewrite Hvs. exact Hopen.
  - intros x Hx. unfold pub_add. destruct (Nat.eqb x n); auto.
  - intros x _. auto.
  - intros S Ha. destruct Hop as [->| ->]; cbn [set_step ins_res MichaelListActs.ins_res]; rewrite (Hnokey S Ha); cbn [fst snd]; split; auto.
  - exact I.
  - exists (mk_a7 a t (pub_add (a_pub (h_base a)) n) (a_succ (h_base a)) lv' atr' (@Linearized SetSpec o (ins_res o)) None code).
    split; [|split; [apply frame7_mk|rewrite view7_mk_same; exact Hk]].
    exists L'. split; [exact HS'|]. rewrite <- Hcode. exact HL2.
Qed.

(** unlink_node's first store (the mark): linearization point of erase / unlink / extract, and of the readers that watch the node *)
Lemma safe7_st_mark {R} t p c nx kc (k : V -> prog R) lv vs code Q :
  In (p, Some (c, false)) (lv_held lv) -> In (c, Some (nx, false)) (lv_held lv) ->
  In (FPub c kc) (lv_facts lv) -> lv_hole lv = None -> open_read vs (SErase kc) ->
  safe7 t (k v0) (mkLV (lv_facts lv) (set_obs (lv_held lv) c (HEAD, true)) (lv_own lv) (Some (p, c, nx)),
                 @Linearized SetSpec (SErase kc) (RBool true), None, code) Q ->
  safe7 t (Act (a_st c HEAD true) k) (lv, vs, None, code) Q.
Proof.
  intros Hp Hc Hkc Hhole Hopen Hk. cbn [Conc.safe]. intros g a tr (L & HS & HL) Hv. unfold a_st. cbn [fst snd].
  destruct (view7_split _ _ _ _ _ _ Hv) as (Hv1 & Hvs & Hcd & Hcode).
  set (lv' := mkLV (lv_facts lv) (set_obs (lv_held lv) c (HEAD, true)) (lv_own lv) (Some (p, c, nx))).
  pose proof (fact_in _ _ _ _ _ _ HS Hv1 Hkc) as (Hcp & Hck). subst lv.
  destruct (held_entry _ _ _ _ _ _ HS Hc) as (_ & Hcl & Hcn & Hcm). cbn [fst snd] in *.
  destruct (IS_mark g (h_base a) t lv' L p c nx HS Hp Hc Hcp Hhole) as (HS' & HcL); try reflexivity.
  destruct (IL7_mark g a t (succ_set (a_succ (h_base a)) c (Some nx)) lv' L tr c kc KSt (obj_next c) true HL) as (atr' & HL'); auto.
  - rewrite Hvs. exact Hopen.
  - intros x Hx Ex. apply (chain_keys_inj g (h_base a) L x c HS Hx HcL). rewrite Ex, Hck. reflexivity.
  - exists (mk_a7 a t (a_pub (h_base a)) (succ_set (a_succ (h_base a)) c (Some nx)) lv' atr' (@Linearized SetSpec (SErase kc) (RBool true)) None code).
    split; [|split; [apply frame7_mk|rewrite view7_mk_same; exact Hk]].
    exists L. split; [exact HS'|]. rewrite <- Hcode. exact HL'.
Qed.

(** unlink_node's second store *)
Lemma safe7_st_bypass {R} t p c nx (k : V -> prog R) lv vs cd code Q :
  lv_hole lv = Some (p, c, nx) ->
  safe7 t (k v0) (mkLV (lv_facts lv) (set_obs (lv_held lv) p (nx, false)) (lv_own lv) None, vs, cd, code) Q ->
  safe7 t (Act (a_st p nx false) k) (lv, vs, cd, code) Q.
Proof.
  intros Hhole Hk. cbn [Conc.safe]. intros g a tr (L & HS & HL) Hv. unfold a_st. cbn [fst snd].
  destruct (view7_split _ _ _ _ _ _ Hv) as (Hv1 & Hvs & Hcd & Hcode).
  set (lv' := mkLV (lv_facts lv) (set_obs (lv_held lv) p (nx, false)) (lv_own lv) None). subst lv.
  destruct (s_hole _ _ _ HS t p c nx Hhole) as (_ & Hp & _).
  destruct (held_entry _ _ _ _ _ _ HS Hp) as (_ & _ & _ & Hpm). cbn [fst snd] in *.
  destruct (IS_bypass g (h_base a) t lv' L p c nx HS Hhole) as (L' & HS' & HcL & Hcm & HL'); try reflexivity.
  exists (mk_a7 a t (a_pub (h_base a)) (succ_set (a_succ (h_base a)) c None) lv' (h_atr a) vs cd code).
  split; [|split; [apply frame7_mk|rewrite view7_mk_same; exact Hk]].
  exists L'. split; [exact HS'|]. rewrite <- Hvs, <- Hcd, <- Hcode.
  set (g' := set_next g p nx false).
  assert (Hkey : forall x, nkey (heap g' x) = nkey (heap g x)).
  { intros x. unfold g'. destruct (Nat.eq_dec x p) as [->|Hx]; [rewrite heap_set_next_same; reflexivity|now rewrite heap_set_next_other]. }
  assert (Hmark : forall x, nmark (heap g' x) = nmark (heap g x)).
  { intros x. unfold g'. destruct (Nat.eq_dec x p) as [->|Hx]; [rewrite heap_set_next_same; cbn; congruence|now rewrite heap_set_next_other]. }
  apply (IL7_acc g _ a t _ _ lv' L L' tr _ _ _ HL); auto.
  intros S Ha k0. rewrite (Ha k0). split.
  - intros (x & H1 & H2 & H3). exists x. rewrite Hkey, Hmark. split; [apply HL'; split; [exact H1|intros ->; congruence]|auto].
  - intros (x & H1 & H2 & H3). rewrite Hkey in H3. rewrite Hmark in H2. apply HL' in H1. exists x. tauto.
Qed.

(** ** client events *)
Lemma safe7_emit_other {R} t name args (k : prog R) lv vs cd code Q :
  String.eqb name "inv" = false -> String.eqb name "ret" = false ->
  safe7 t k (lv, vs, cd, code) Q -> safe7 t (Emit [EvCli name args] k) (lv, vs, cd, code) Q.
Proof.
  intros N1 N2 Hk. cbn [Conc.safe]. intros g a tr (L & HS & HL) Hv. destruct (view7_split _ _ _ _ _ _ Hv) as (Hv1 & Hvs & Hcd & Hcode).
  exists (mk_a7 a t (a_pub (h_base a)) (a_succ (h_base a)) lv (h_atr a) vs cd code).
  split; [|split; [apply frame7_mk|rewrite view7_mk_same; exact Hk]].
  exists L. split; [apply IS_keep; auto|]. rewrite <- Hvs, <- Hcd, <- Hcode. apply IL7_cli_other; auto.
Qed.

Lemma safe7_emit_inv {R} t c kk x v (k : prog R) lv code Q :
  safe7 t k (lv, @Pending SetSpec (spec_op c kk x), None, c) Q ->
  safe7 t (Emit [EvCli "inv" [c; kk; x; v]] k) (lv, @Idle SetSpec, None, code) Q.
Proof.
  intros Hk. cbn [Conc.safe]. intros g a tr (L & HS & HL) Hv. destruct (view7_split _ _ _ _ _ _ Hv) as (Hv1 & Hvs & Hcd & Hcode).
  exists (mk_a7 a t (a_pub (h_base a)) (a_succ (h_base a)) lv (h_atr a ++ [@AInv SetSpec t (spec_op c kk x)]) (@Pending SetSpec (spec_op c kk x)) None c).
  split; [|split; [apply frame7_mk|rewrite view7_mk_same; exact Hk]].
  exists L. split; [apply IS_keep; auto|]. apply IL7_inv; auto.
Qed.

Lemma safe7_emit_ret {R} t o r a1 b1 (k : prog R) lv code Q :
  res_of o a1 b1 = r -> Z.eqb code 6 && Z.eqb a1 0 = false ->
  safe7 t k (lv, @Idle SetSpec, None, code) Q ->
  safe7 t (Emit [EvCli "ret" [a1; b1]] k) (lv, @Linearized SetSpec o r, None, code) Q.
Proof.
  intros Hr Hc Hk. cbn [Conc.safe]. intros g a tr (L & HS & HL) Hv. destruct (view7_split _ _ _ _ _ _ Hv) as (Hv1 & Hvs & Hcd & Hcode).
  exists (mk_a7 a t (a_pub (h_base a)) (a_succ (h_base a)) lv (h_atr a ++ [@ARes SetSpec t r]) (@Idle SetSpec) None code).
  split; [|split; [apply frame7_mk|rewrite view7_mk_same; exact Hk]].
  exists L. split; [apply IS_keep; auto|]. rewrite <- Hcode. eapply IL7_ret; eauto. rewrite Hcode. exact Hc.
Qed.

Lemma safe7_emit_ret_drop {R} t o a1 b1 (k : prog R) lv vs code Q :
  open_read vs o -> Z.eqb code 6 && Z.eqb a1 0 = true ->
  safe7 t k (lv, @Idle SetSpec, None, code) Q ->
  safe7 t (Emit [EvCli "ret" [a1; b1]] k) (lv, vs, None, code) Q.
Proof.
  intros Hs Hc Hk. cbn [Conc.safe]. intros g a tr (L & HS & HL) Hv. destruct (view7_split _ _ _ _ _ _ Hv) as (Hv1 & Hvs & Hcd & Hcode).
  destruct (IL7_ret_drop g a t lv L tr o a1 b1 HL) as (atr' & HL'); auto; [rewrite Hvs; exact Hs|rewrite Hcode; exact Hc|].
  exists (mk_a7 a t (a_pub (h_base a)) (a_succ (h_base a)) lv atr' (@Idle SetSpec) None code).
  split; [|split; [apply frame7_mk|rewrite view7_mk_same; exact Hk]].
  exists L. split; [apply IS_keep; auto|]. rewrite <- Hcode. exact HL'.
Qed.

(** a load under the node's lock from which nothing is read off (the second load of validate) *)
Lemma safe7_ld_held_plain {R} t n (k : V -> prog R) lv vs cd code Q :
  holds lv n ->
  (forall v, agrees (lv_held lv) n v ->
             safe7 t (k v) (mkLV (newfacts n v ++ lv_facts lv) ((n, Some (vptr v, vmark v)) :: lv_held lv) (lv_own lv) (lv_hole lv), vs, cd, code) Q) ->
  safe7 t (Act (a_ld n) k) (lv, vs, cd, code) Q.
Proof.
  intros [o Ho] Hk. cbn [Conc.safe]. intros g a tr (L & HS & HL) Hv. unfold a_ld. cbn [fst snd].
  destruct (view7_split _ _ _ _ _ _ Hv) as (Hv1 & Hvs & Hc & Hcode).
  set (v := mkV (nnext (heap g n)) (nmark (heap g n)) (nkey (heap g (nnext (heap g n))))).
  assert (Hpz : pz (a_pub (h_base a)) n) by (subst lv; apply (held_entry _ _ _ _ _ _ HS Ho)).
  set (lv' := mkLV (newfacts n v ++ lv_facts lv) ((n, Some (vptr v, vmark v)) :: lv_held lv) (lv_own lv) (lv_hole lv)).
  exists (mk_a7 a t (a_pub (h_base a)) (a_succ (h_base a)) lv' (h_atr a) vs cd code).
  split; [|split; [apply frame7_mk|rewrite view7_mk_same; apply Hk]].
  - eapply Inv7_soft; eauto; try apply same_refl; cbn [lv' lv_facts lv_held lv_own lv_hole].
    + apply Forall_app. split; [eapply newfacts_ok; eauto|]. subst lv. apply (s_facts _ _ _ HS).
    + constructor; [|subst lv; apply (s_held _ _ _ HS)].
      subst lv. destruct (held_entry _ _ _ _ _ _ HS Ho) as (K1 & K2 & _). unfold held_ok. cbn. auto.
    + intros u x Hu [ox Hx] Hx'. subst lv. apply Hu. symmetry. destruct Hx as [E|Hx].
      * inversion E; subst x. eapply (s_excl _ _ _ HS); eauto. exists o; exact Ho.
      * eapply (s_excl _ _ _ HS); eauto. exists ox; exact Hx.
    + subst lv. apply (s_own _ _ _ HS).
    + intros p c s E. subst lv. destruct (s_hole _ _ _ HS t p c s E) as (_ & K2 & [oc K3] & _).
      split; [right; exact K2|exists oc; right; exact K3].
  - intros x m Hin. subst lv. pose proof (held_entry _ _ _ _ _ _ HS Hin) as (_ & _ & K). cbn [fst snd] in K. subst v. cbn. tauto.
Qed.
