(** * DhpLinkA: thread_hp_storage::extend publishes the new block: extended_list_.store( block ) + "_link". *)
From Coq Require Import ZArith NArith List String Bool Lia PeanoNat.
From LV Require Import Base.Conc Base.Events Model.DhpLang Model.Dhp Proofs.DhpBase Proofs.DhpHist
  Proofs.DhpLangProofs Proofs.DhpInvA Proofs.DhpStepsA Proofs.DhpQuietA Proofs.DhpSlotA Proofs.DhpScanA Proofs.DhpScanC
  Proofs.DhpPresA Proofs.DhpAllocA Proofs.DhpAllocB Proofs.DhpViewA.
Import ListNotations.

Definition with_blk_e (l : VA) (b : option nat) (e : option (option nat * bool)) : VA :=
  mkVA (va_tls l) (va_unpub l) (va_hold l) (va_help l) (va_node l) b e (va_limbo l) (va_scan l).

Section LinkA.
  Variable c : cfg.

  Lemma JA_link g a h t l r b e :
    JA c g a h -> views a t = l -> va_tls l = Some r -> va_blk l = Some b -> va_e l = Some (e, true) ->
    JA c (upd_rec g r (rs_ext (Some b)))
         (upd_aux a t (with_blk_e l None None) (fun x => if Nat.eqb x b then BLinked r else bown a x))
         (mkH (S (S (hlen h))) (slotv h) (lastw h) (att h)
              (fupd Nat.eqb (linked h) r ((b, S (hlen h)) :: linked h r)) (scan h) (freeh h) (flbad h)).
  Proof.
    intros J Hv Htls Hb He. pose proof J as [J1 J2 J3 J4 J5 J6 J7 J8 J9 J10 J11 J12 J15 J16 J17 J18 J13 J14].
    set (g' := upd_rec g r (rs_ext (Some b))).
    set (a' := upd_aux a t (with_blk_e l None None) (fun x => if Nat.eqb x b then BLinked r else bown a x)).
    rewrite <- Hv in Htls, Hb, He.
    destruct (J3 t r Htls) as (k & Hatt).
    destruct (J2 r t k Hatt) as (_ & Rtid & Rlt & Rsl & Raft & Rk & Rgc & Rnd & Rlk).
    destruct (J9 t b Hb) as (Bp & Blt & Bsl & Blim).
    destruct (J17 t e true He) as (r0 & Y1 & Y2 & Y3). assert (r0 = r) by congruence. subst r0.
    destruct (Y3 eq_refl) as (b0 & Z1 & Z2). assert (b0 = b) by congruence. subst b0.
    assert (Eo : forall r', r' <> r -> grec g' r' = grec g r') by (intros r' N; unfold g'; apply grec_upd_rec_other; congruence).
    assert (Es : grec g' r = rs_ext (Some b) (grec g r)) by (unfold g'; now apply grec_upd_rec_same).
    assert (Lr : List.length (recs g') = List.length (recs g)) by (unfold g', upd_rec; cbn; apply upd_nth_length).
    assert (Et : tlist g' = tlist g) by reflexivity.
    assert (Egb : forall x, ggb g' x = ggb g x) by reflexivity.
    assert (Lgb : gbs g' = gbs g) by reflexivity.
    assert (Enx : forall r', r_next (grec g' r') = r_next (grec g r')).
    { intros r'. destruct (Nat.eq_dec r' r) as [->|N]; [rewrite Es; reflexivity|now rewrite Eo]. }
    assert (Etid : forall r', r_tid (grec g' r') = r_tid (grec g r')).
    { intros r'. destruct (Nat.eq_dec r' r) as [->|N]; [rewrite Es; reflexivity|now rewrite Eo]. }
    assert (Esl : forall r', r_slots (grec g' r') = r_slots (grec g r')).
    { intros r'. destruct (Nat.eq_dec r' r) as [->|N]; [rewrite Es; reflexivity|now rewrite Eo]. }
    assert (Rc : forall o l0, rchain g o l0 <-> rchain g' o l0).
    { intros o' l'; revert o'; induction l' as [|x l' IH]; intros o'; cbn; [tauto|]. rewrite Enx, Lr, IH. tauto. }
    assert (Af : forall o r', after g o r' -> after g' o r').
    { intros o r' (S & H1 & H2 & H3). exists S. split; [now apply Rc|]. split; auto. intros L HL. apply H3. rewrite <- Et. now apply Rc. }
    assert (Gc : forall o S, gchain c g o S <-> gchain c g' o S).
    { intros o' l'; revert o'; induction l' as [|x l' IH]; intros o'; cbn; [tauto|]. rewrite Lgb, Egb, IH. tauto. }
    assert (Bo : forall x, x <> b -> bown a' x = bown a x) by (intros x N; cbn; destruct (Nat.eqb_spec x b); congruence).
    assert (Bs : bown a' b = BLinked r) by (cbn; now rewrite Nat.eqb_refl).
    assert (NLb : forall n kb, In (b, kb) (linked h n) -> False).
    { intros n kb K. assert (In b (map fst (linked h n))) by (apply in_map_iff; exists (b, kb); auto).
      rewrite (chain_blocks_linked c g a h n (map fst (linked h n)) b J (incl_refl _) H) in Bp. discriminate. }
    assert (V : forall t', va_tls (views a' t') = va_tls (views a t') /\ va_unpub (views a' t') = va_unpub (views a t') /\
                           va_hold (views a' t') = va_hold (views a t') /\ va_help (views a' t') = va_help (views a t') /\
                           va_node (views a' t') = va_node (views a t') /\
                           va_limbo (views a' t') = va_limbo (views a t') /\ va_scan (views a' t') = va_scan (views a t')).
    { intros t'. unfold a'. vcase t' t; [rewrite <- Hv; cbn; repeat split; reflexivity|repeat split; reflexivity]. }
    assert (Lk : forall n, n <> r -> fupd Nat.eqb (linked h) r ((b, S (hlen h)) :: linked h r) n = linked h n).
    { intros n N. unfold fupd. destruct (Nat.eqb_spec n r); congruence. }
    assert (Lks : fupd Nat.eqb (linked h) r ((b, S (hlen h)) :: linked h r) r = (b, S (hlen h)) :: linked h r).
    { unfold fupd. now rewrite Nat.eqb_refl. }
    constructor; cbn [hlen slotv lastw att linked scan freeh flbad]; rewrite ?Lr, ?Et, ?Lgb.
    - destruct J1 as (L & H1 & H2). exists L. split; auto. now apply Rc.
    - intros r' t' k' Ha. destruct (J2 r' t' k' Ha) as (X1&X2&X3&X4&X5&X6&X7&X8&X9). destruct (V t') as (E&_). rewrite E, Etid, Esl.
      split; auto. split; auto. split; auto. split; auto. split; auto. split; [lia|].
      destruct (Nat.eq_dec r' r) as [->|N].
      + rewrite Lks, Es. cbn [map fst r_ext rs_ext]. assert (t' = t /\ k' = k) as (-> & ->) by (split; congruence).
        split; [cbn; rewrite Lgb, Egb; repeat split; auto; rewrite Z2, <- Y2; now apply Gc|].
        split; [constructor; auto; intros K; apply in_map_iff in K; destruct K as ((b', kb) & E1 & K); cbn in E1; subst b'; eapply NLb; eauto|].
        intros b' kb [E1|K].
        * inversion E1; subst b' kb. split; [exact Bs|lia].
        * destruct (X9 b' kb K) as (W1&W2&W3). split; [rewrite Bo; auto; intros ->; eapply NLb; eauto|lia].
      + rewrite (Lk r' N), (Eo r' N). split; [now apply Gc|]. split; auto.
        intros b' kb K. destruct (X9 b' kb K) as (W1&W2&W3). split; [rewrite Bo; auto; intros ->; eapply NLb; eauto|lia].
    - intros t' r' Ht. destruct (V t') as (E&_). rewrite E in Ht. auto.
    - intros r' Ha. rewrite Lk; auto. intros ->. congruence.
    - intros t' r' bt Ht. destruct (V t') as (_&E&_). rewrite E in Ht. destruct (J5 t' r' bt Ht) as (X1&X2&X3&X4&X5&X6).
      assert (r' <> r) by (intros ->; congruence). rewrite (Eo r' H). repeat split; auto.
      + intros L HL. apply X3. now apply Rc.
      + intros t'' bt' Ht''. destruct (V t'') as (_&E'&_). rewrite E' in Ht''. eauto.
    - intros t' r' Ht. destruct (V t') as (_&_&E&_&_&E6&_). rewrite E in Ht. rewrite E6.
      destruct (J6 t' r' Ht) as (X1&X2&X3&X4&X5&X6). assert (r' <> r) by (intros ->; congruence). rewrite (Eo r' H). repeat split; auto.
    - intros t' r' Ht. destruct (V t') as (_&_&E3&E4&_). rewrite E4 in Ht. rewrite E3, Etid. exact (J7 t' r' Ht).
    - intros r' Hr Ha. assert (r' <> r) by (intros ->; congruence). rewrite (Eo r' H).
      destruct (J8 r' Hr Ha) as [X|(t' & X1 & X2)]; [now left|right]. exists t'.
      destruct (V t') as (_&_&E3&_&_&E6&_). rewrite E3, E6. auto.
    - intros t' b' Ht. destruct (Nat.eq_dec t' t) as [->|N].
      + unfold a' in Ht. rewrite upd_aux_same in Ht. cbn in Ht. discriminate.
      + destruct (V t') as (_&_&_&_&_&E6&_). rewrite E6. unfold a' in Ht. rewrite upd_aux_other in Ht by exact N.
        destruct (J9 t' b' Ht) as (X1&X2&X3&X4). split; [rewrite Bo; auto; intros ->; rewrite X1 in Bp; inversion Bp; congruence|]. rewrite Egb. auto.
    - intros t' o lb Ht. destruct (V t') as (_&_&_&_&_&E6&_). rewrite E6 in Ht. destruct (J10 t' o lb Ht) as (X1&X2&X3).
      split; [now apply Gc|]. split; auto. intros b' Hb'. rewrite Bo; auto. intros ->.
      destruct (Nat.eq_dec t' t) as [->|N]; [eapply Blim; eauto|rewrite (X3 b Hb') in Bp; inversion Bp; congruence].
    - destruct J11 as (F1 & F2). split; auto. intros b'. rewrite F1. destruct (Nat.eq_dec b' b) as [->|N].
      + rewrite Bs, Bp. split; discriminate.
      + now rewrite Bo.
    - intros b' Hb'. rewrite Bo; auto. intros ->. lia.
    - intros r' Hr. rewrite Esl. auto.
    - intros b' Hb'. rewrite Egb. auto.
    - intros t' e' f Ht. destruct (Nat.eq_dec t' t) as [->|N].
      + unfold a' in Ht. rewrite upd_aux_same in Ht. cbn in Ht. discriminate.
      + unfold a' in *. rewrite upd_aux_other in * by exact N. destruct (J17 t' e' f Ht) as (r' & W1 & W2 & W3). exists r'. split; auto.
        assert (r' <> r). { intros ->. destruct (J3 t' r W1) as (k' & K). congruence. }
        rewrite (Eo r' H). split; auto.
    - intros t' n Ht. destruct (V t') as (_&_&_&_&E5&_). rewrite E5 in Ht. apply Af. eauto.
    - intros s. rewrite <- J13. destruct s as [r' i|x i]; cbn [slot_get]; [now rewrite Esl|reflexivity].
    - intros t'. destruct (V t') as (_&_&_&_&_&_&E8). rewrite E8. specialize (J14 t').
      destruct (va_scan (views a t')) as [ss|]; auto. destruct J14 as (X1 & X2). split; auto.
      pose proof X2 as (Xs0 & _).
      apply (scan_ok_frame c g g' h _ ss); cbn [hlen slotv lastw att linked]; [lia|intros s; left; auto|exact Af|left; exact Et|intros n0 _; apply Enx| |exact X2].
      intros s k0 Hl Hk.
      assert (Hl0 : live c h s k0).
      { destruct s as [r' i|x i]; cbn in Hl |- *; [exact Hl|]. destruct Hl as (r' & t0 & k1 & A1 & A2 & A3). exists r', t0, k1. split; auto. split; auto.
        destruct (Nat.eq_dec r' r) as [->|N]; [|now rewrite Lk in A2]. rewrite Lks in A2. destruct A2 as [E1|A2]; auto. inversion E1; subst. lia. }
      split; auto. split.
      + intros r'. destruct s as [r0 i|x i]; cbn; auto. intros (k1 & K). destruct (Nat.eq_dec r' r) as [->|N]; [rewrite Lks; exists k1; now right|rewrite Lk; eauto].
      + intros n0 o S b0 i Es0 Hin Hg Hi. split; [now apply Gc|]. intros y Hy. apply Hi in Hy.
        destruct (Nat.eq_dec n0 r) as [->|N]; [rewrite Lks; cbn; now right|now rewrite Lk].
  Qed.
End LinkA.
