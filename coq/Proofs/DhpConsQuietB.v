(** DhpConsQuietB: copy of LV.Proofs.DhpQuietB over the two-directional pointer invariant of LV.Proofs.DhpConsInv (conservation);
    the text differs from the original where the JW part of a goal is proved. *)
(** * DhpQuietB: steps the C03 invariant cannot see; generic rules; the quiet programs (free lists, guard side). *)
From Coq Require Import ZArith NArith List String Bool Lia PeanoNat.
From LV Require Import Base.Conc Base.Events Model.DhpLang Model.Dhp Proofs.DhpBase Proofs.DhpSeq Proofs.DhpSeqThm Proofs.DhpHist
  Proofs.DhpLangProofs Proofs.DhpInvB Proofs.DhpConsSTrace Proofs.DhpConsInv.
From LV Require Proofs.DhpQuietB.
Import ListNotations.

Definition qevB (e : ev) : Prop :=
  retired_ev e = [] /\
  match classify e with
  | HDispose _ | HAlloc FRt _ | HFree FRt _ | HAtt _ | HScanb _ => False
  | _ => True
  end.

Lemma qevB_hq es : Forall qevB es -> Forall hq es.
Proof. intros H. eapply Forall_impl; [|exact H]. intros e (E1 & E2). split; auto. destruct (classify e); auto. Qed.

Lemma freehRt_hstep_quiet h t e : qevB e -> freeh (hstep h (t, e)) FRt = freeh h FRt.
Proof.
  intros (_ & Hq). unfold hstep. cbn [snd fst]. destruct (classify e) as [| | | |f b|f b|f b| | | |]; try reflexivity; try contradiction.
  - destruct f; [|contradiction]. destruct (existsb _ _); reflexivity.
  - destruct f; [|contradiction]. reflexivity.
Qed.

Lemma freehRt_fold_quiet t es : forall h, Forall qevB es -> freeh (fold_left hstep (Conc.tag t es) h) FRt = freeh h FRt.
Proof.
  induction es as [|e es IH]; intros h Hq; cbn; auto. inversion Hq; subst. rewrite IH by auto. now apply freehRt_hstep_quiet.
Qed.

Lemma retired_tr_quiet t es : Forall qevB es -> retired_tr (Conc.tag t es) = [].
Proof. induction es as [|e es IH]; intros Hq; cbn; auto. inversion Hq; subst. destruct H1 as (E&_). unfold retired_tr in *. cbn. rewrite E. cbn. now apply IH. Qed.
Lemma disposed_tr_quiet t es : Forall qevB es -> disposed_tr (Conc.tag t es) = [].
Proof.
  induction es as [|e es IH]; intros Hq; cbn; auto. inversion Hq; subst. destruct H1 as (_&E). unfold disposed_tr in *. cbn.
  unfold disposed_ev. destruct (classify e); try contradiction; cbn; now apply IH.
Qed.

Lemma flbad_prefixB tr es : flbad (hist (tr ++ es)) = false -> flbad (hist tr) = false.
Proof. intros H. destruct (flbad (hist tr)) eqn:E; auto. rewrite (flbad_mono tr es E) in H. discriminate. Qed.
Lemma nodup_retired_prefix tr es : NoDup (retired_tr (tr ++ es)) -> NoDup (retired_tr tr).
Proof. rewrite retired_tr_app. intros H. induction (retired_tr tr) as [|x l IH]; [constructor|]. cbn in H. inversion H; subst. constructor; auto. intros K. apply H2. apply in_or_app. now left. Qed.

Section QuietB.
  Variable c : cfg.
  Notation dsafeB := (@dsafe G ev AuxB VB viewB (InvB c)).

  Lemma JB_quiet g g' a tr t es : piB g g' -> Forall qevB es -> JB c g a tr -> JB c g' a (tr ++ Conc.tag t es).
  Proof.
    intros P Hq J. apply (JB_piB c g g' a tr P) in J. destruct J as [J1 J2 J3 J4].
    assert (Ef : freeh (hist (tr ++ Conc.tag t es)) FRt = freeh (hist tr) FRt) by (rewrite hist_app; now apply freehRt_fold_quiet).
    constructor; auto.
    - rewrite Ef. exact J2.
    - rewrite disposed_tr_app, disposed_tr_quiet, app_nil_r by auto.
      apply JW_frame with (g := g') (a := a) (rt := retired_tr tr) (tr := tr); auto.
      all: try solve [intros p; rewrite retired_tr_app, retired_tr_quiet, app_nil_r by auto; tauto].
      apply HSame_hq. apply qevB_hq. exact Hq.
  Qed.

  Lemma InvB_quiet g g' a tr t es : InvB c g a tr -> piB g g' -> Forall qevB es -> InvB c g' a (tr ++ Conc.tag t es).
  Proof. intros Hi P Hq Hfl Hnd. apply (JB_quiet g g' a tr t es P Hq). apply Hi; [eapply flbad_prefixB|eapply nodup_retired_prefix]; eauto. Qed.

  Lemma dsafeB_act_quiet {X R} t (f : A X) (k : X -> @dprog G ev R) l Q :
    (forall g, piB g (fst (fst (f g))) /\ Forall qevB (snd (f g))) -> (forall x, dsafeB t (k x) l Q) -> dsafeB t (DAct f k) l Q.
  Proof.
    intros Hf Hk. cbn [dsafe]. intros g a tr Hi Hv. exists a. destruct (Hf g) as (H1 & H2).
    split; [eapply InvB_quiet; eauto|]. split; [apply frame_refl|]. rewrite Hv. apply Hk.
  Qed.
  Lemma dsafeB_loc_quiet {X R} t (f : G -> G * X) (k : X -> @dprog G ev R) l Q :
    (forall g, piB g (fst (f g))) -> (forall g, dsafeB t (k (snd (f g))) l Q) -> dsafeB t (DLoc f k) l Q.
  Proof.
    intros Hf Hk. cbn [dsafe]. intros g a tr Hi Hv. exists a. split; [|split; [apply frame_refl|rewrite Hv; apply Hk]].
    pose proof (InvB_quiet g (fst (f g)) a tr t [] Hi (Hf g) (Forall_nil _)) as K. cbn in K. now rewrite app_nil_r in K.
  Qed.
  Lemma dsafeB_emit_quiet {R} t es (k : @dprog G ev R) l Q : Forall qevB es -> dsafeB t k l Q -> dsafeB t (DEmit es k) l Q.
  Proof.
    intros Hq Hk. cbn [dsafe]. intros g a tr Hi Hv. exists a.
    split; [eapply InvB_quiet; eauto using piB_refl|]. split; [apply frame_refl|]. now rewrite Hv.
  Qed.

  Fixpoint quietPB {R} (p : @dprog G ev R) : Prop :=
    match p with
    | DRet _ => True
    | DEmit es k => Forall qevB es /\ quietPB k
    | DLoc f k => (forall g, piB g (fst (f g))) /\ forall x, quietPB (k x)
    | DAct f k => (forall g, piB g (fst (fst (f g))) /\ Forall qevB (snd (f g))) /\ forall x, quietPB (k x)
    end.

  Lemma quietPB_dsafe {R} t (p : @dprog G ev R) l (Q : R -> VB -> Prop) : quietPB p -> (forall r, Q r l) -> dsafeB t p l Q.
  Proof.
    intros Hp HQ. induction p as [r|es k IH|X f k IH|X f k IH]; cbn [quietPB] in Hp.
    - apply HQ. - destruct Hp. apply dsafeB_emit_quiet; auto. - destruct Hp. apply dsafeB_loc_quiet; auto. - destruct Hp. apply dsafeB_act_quiet; auto.
  Qed.
  Lemma quietPB_dbind {X Y} (p : @dprog G ev X) (q : X -> @dprog G ev Y) : quietPB p -> (forall x, quietPB (q x)) -> quietPB (dbind p q).
  Proof. intros Hp Hq. induction p as [r|es k IH|Z f k IH|Z f k IH]; cbn [quietPB dbind] in *; auto; destruct Hp; split; auto. Qed.
  Lemma quietPB_xbind {X Y} (p : P X) (q : X -> P Y) : quietPB p -> (forall x, quietPB (q x)) -> quietPB (xbind p q).
  Proof. intros Hp Hq. unfold xbind. apply quietPB_dbind; auto. intros [x|]; [apply Hq|exact I]. Qed.
  Lemma quietPB_ret {X} (x : X) : quietPB (ret x). Proof. exact I. Qed.
  Lemma qevB_cli name args : retired_ev (EvCli name args) = [] -> classify (EvCli name args) = HOther -> qevB (EvCli name args).
  Proof. intros H1 H2. split; auto. now rewrite H2. Qed.
  Lemma quietPB_fuel_out {X} : quietPB (@fuel_out X).
  Proof. cbn. split; auto. repeat constructor. Qed.
  Lemma quietPB_act {X} (f : A X) : (forall g, piB g (fst (fst (f g))) /\ Forall qevB (snd (f g))) -> quietPB (act f).
  Proof. intros H. cbn. split; auto. Qed.
  Lemma quietPB_loc {X} (f : G -> G * X) : (forall g, piB g (fst (f g))) -> quietPB (loc f).
  Proof. intros H. cbn. split; auto. Qed.
  Lemma quietPB_emit es : Forall qevB es -> quietPB (emit es).
  Proof. intros H. cbn. split; auto. Qed.

  Lemma dsafeB_xbind {X Y} t (p : P X) (q : X -> P Y) l (Q : option Y -> VB -> Prop) :
    dsafeB t p l (fun o l' => match o with Some x => dsafeB t (q x) l' Q | None => Q None l' end) -> dsafeB t (xbind p q) l Q.
  Proof. intros H. unfold xbind. apply dsafe_bind. eapply dsafe_weaken; [|exact H]. intros [x|] l' K; cbn; auto. Qed.
  Lemma dsafeB_quiet_seq {X Y} t (p : P X) (q : X -> P Y) l (Q : option Y -> VB -> Prop) :
    quietPB p -> Q None l -> (forall x, dsafeB t (q x) l Q) -> dsafeB t (xbind p q) l Q.
  Proof. intros Hp HQ Hq. apply dsafeB_xbind. apply quietPB_dsafe; auto. intros [x|]; auto. Qed.
  Lemma dsafeB_fuel_out {X} t l (Q : option X -> VB -> Prop) : Q None l -> dsafeB t fuel_out l Q.
  Proof. intros H. unfold fuel_out. apply dsafeB_emit_quiet; [repeat constructor|exact H]. Qed.
End QuietB.

(** ** quiet state changes *)
Lemma piB_upd_rec g r f :
  (forall x, r_tid (f x) = r_tid x /\ r_next (f x) = r_next x /\ r_cb (f x) = r_cb x /\ r_cc (f x) = r_cc x /\ r_head (f x) = r_head x /\ r_tail (f x) = r_tail x) ->
  piB g (upd_rec g r f).
Proof. intros H. split; [now apply DhpQuietB.piB_upd_rec|reflexivity]. Qed.
Lemma piB_upd_gb g b f : piB g (upd_gb g b f).
Proof. split; [apply DhpQuietB.piB_upd_gb|reflexivity]. Qed.
Lemma piB_upd_rb g b f : (forall y, rb_next (f y) = rb_next y /\ rb_cells (f y) = rb_cells y) -> piB g (upd_rb g b f).
Proof. intros H. split; [now apply DhpQuietB.piB_upd_rb|reflexivity]. Qed.
Lemma piB_simple g g' : tlist g' = tlist g -> recs g' = recs g -> rbs g' = rbs g -> oob g' = oob g -> piB g g'.
Proof. intros E0 E1 E2 E3. split; [now apply DhpQuietB.piB_simple|exact E3]. Qed.

Lemma piB_fl_set_head g f v : piB g (fl_set_head g f v).
Proof. destruct f; apply piB_simple; reflexivity. Qed.
Lemma piB_fl_set_refs g f n v : piB g (fl_set_refs g f n v).
Proof. destruct f; cbn; [apply piB_upd_gb|apply piB_upd_rb; intros []; repeat split; reflexivity]. Qed.
Lemma piB_fl_set_next g f n v : piB g (fl_set_next g f n v).
Proof. destruct f; cbn; [apply piB_upd_gb|apply piB_upd_rb; intros []; repeat split; reflexivity]. Qed.
Lemma piB_slot_set g s v : piB g (slot_set g s v).
Proof. destruct s; cbn; [apply piB_upd_rec; intros []; repeat split; reflexivity|apply piB_upd_gb]. Qed.
Lemma piB_snext_set g s v : piB g (snext_set g s v).
Proof. destruct s; cbn; [apply piB_upd_rec; intros []; repeat split; reflexivity|apply piB_upd_gb]. Qed.

Lemma qevB_acc k o ok : qevB (EvAcc k o ok).
Proof. split; reflexivity || exact I. Qed.
Lemma qevB_slot s v : qevB (ev_slot s v).
Proof. split; [destruct s; reflexivity|]. now rewrite classify_slot. Qed.
Lemma qevB_alloc_hp b : qevB (ev_alloc FHp b). Proof. split; [reflexivity|]. now rewrite classify_alloc. Qed.
Lemma qevB_free_hp b : qevB (ev_free FHp b). Proof. split; [reflexivity|]. now rewrite classify_free. Qed.
Lemma qevB_new f b : qevB (ev_new f b). Proof. split; [destruct f; reflexivity|]. now rewrite classify_new. Qed.
Lemma qevB_link r b : qevB (ev_link r b). Proof. split; [reflexivity|]. now rewrite classify_link. Qed.
Lemma qevB_det r : qevB (ev_det r). Proof. split; [reflexivity|]. now rewrite classify_det. Qed.
Lemma qevB_scane r : qevB (ev_scane r). Proof. split; [reflexivity|]. now rewrite classify_scane. Qed.
Lemma qevB_own s : qevB (ev_own s). Proof. split; [destruct s; reflexivity|exact I]. Qed.
Lemma qevB_rel s : qevB (ev_rel s). Proof. split; [destruct s; reflexivity|exact I]. Qed.
Lemma qevB_relall : qevB ev_relall. Proof. split; [reflexivity|exact I]. Qed.
Lemma qevB_ret v : qevB (EvCli "ret" [zn v]). Proof. split; [reflexivity|exact I]. Qed.
Lemma qevB_skip : qevB (EvCli "skip" []). Proof. split; [reflexivity|exact I]. Qed.
Lemma qevB_fuel : qevB (EvCli "outoffuel" []). Proof. split; [reflexivity|exact I]. Qed.
Lemma qevB_err : qevB (EvCli "modelerror" []). Proof. split; [reflexivity|exact I]. Qed.

#[export] Hint Resolve qevB_acc qevB_slot qevB_alloc_hp qevB_free_hp qevB_new qevB_link qevB_det qevB_scane
  qevB_own qevB_rel qevB_relall qevB_ret qevB_skip qevB_fuel qevB_err : qdbB.
#[export] Hint Resolve piB_refl piB_fl_set_head piB_fl_set_refs piB_fl_set_next piB_slot_set piB_snext_set piB_upd_gb : qdbB.
