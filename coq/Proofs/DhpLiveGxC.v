(** * DhpLiveGxC: C02, second sentence for DHP at the level of the client's Guard object, GIVEN the allocator
      discipline [cell_disc] (DhpLiveGcA) for the trace: [dhp_guard_cell_exclusive_of_disc] (every reachable trace whose
      "_own" events give out cells of the thread's own attached record that no Guard holds, and whose stores into a block
      just taken from hp_allocator do not hit a block linked into an attached record, satisfies [guard_cell_exclusive]),
      and with it the client-level sentence [dhp_guarded_ptr_live_of_disc] without any other unproved hypothesis. *)
From Coq Require Import ZArith NArith List String Bool Lia PeanoNat.
From LV Require Import Base.Conc Base.Events Model.DhpLang Model.Dhp Proofs.DhpBase Proofs.DhpHist Proofs.DhpInvB
  Proofs.DhpLiveA Proofs.DhpLiveB Proofs.DhpLiveD Proofs.DhpLiveE Proofs.DhpLiveF Proofs.DhpFlThm Proofs.DhpLiveGsG
  Proofs.DhpLiveGcA Proofs.DhpLiveGcB Proofs.DhpLiveGcE Proofs.DhpLiveGz Proofs.DhpLiveGxA Proofs.DhpLiveGxB.
Import ListNotations.
Local Open Scope string_scope.
Local Open Scope list_scope.

Theorem dhp_guard_cell_exclusive_of_disc : forall fuel c ths conf,
  Conc.reach (init_cfg fuel c ths) conf -> flbad (hist (Conc.trace conf)) = false ->
  cell_disc c (Conc.trace conf) -> guard_cell_exclusive c (Conc.trace conf).
Proof.
  intros fuel c ths conf Hr Hf Hd. destruct (dhp_TPropG fuel c ths conf Hr Hf Hd) as (HT & _).
  destruct (dhp_liveL fuel c ths conf Hr) as (_ & HP). now apply gce_of_disc.
Qed.

Theorem dhp_guarded_ptr_live_of_disc : forall fuel c ths conf,
  Conc.reach (init_cfg fuel c ths) conf ->
  4 <= c_RB c -> c_old c = false -> c_oldtail c = false ->
  (Z.of_nat (List.length ths) + 3 < 2147483648)%Z ->
  NoDup (flat_map (fun e => retired_ev (snd e)) (Conc.trace conf)) ->
  cell_disc c (Conc.trace conf) ->
  forall p, p <> 0 -> publish_once (Conc.trace conf) p -> retire_after_unlink (Conc.trace conf) p ->
  forall v t j k, nth_error (Conc.trace conf) v = Some (t, EvCli "ret" [zn p]) ->
    lop (sfold (firstn v (Conc.trace conf))) t = [7%Z; zn j; zn k] ->
  forall d u, v < d -> nth_error (Conc.trace conf) d = Some (u, ev_dispose p) ->
  exists i e, v < i < d /\ nth_error (Conc.trace conf) i = Some (t, e) /\ releasesD j e.
Proof.
  intros fuel c ths conf Hr H4 Ho Ht Hn Hnd Hd.
  apply (dhp_guarded_ptr_live_partial fuel c ths conf Hr H4 Ho Ht Hn Hnd).
  apply (dhp_guard_cell_exclusive_of_disc fuel c ths conf Hr); [|exact Hd].
  exact (dhp_flbad_false fuel c ths conf H4 Ho Ht Hn Hr).
Qed.

(** the reduction of the full client-level statement to "[cell_disc] holds of every reachable trace when 1 <= c_GB" *)
Theorem dhp_guarded_ptr_live_full_from_cell_disc :
  (forall fuel c ths conf, Conc.reach (init_cfg fuel c ths) conf -> flbad (hist (Conc.trace conf)) = false -> 1 <= c_GB c ->
     cell_disc c (Conc.trace conf)) ->
  forall fuel c ths conf,
  Conc.reach (init_cfg fuel c ths) conf ->
  4 <= c_RB c -> c_old c = false -> c_oldtail c = false -> 1 <= c_GB c ->
  (Z.of_nat (List.length ths) + 3 < 2147483648)%Z ->
  NoDup (flat_map (fun e => retired_ev (snd e)) (Conc.trace conf)) ->
  forall p, p <> 0 -> publish_once (Conc.trace conf) p -> retire_after_unlink (Conc.trace conf) p ->
  forall v t j k, nth_error (Conc.trace conf) v = Some (t, EvCli "ret" [zn p]) ->
    lop (sfold (firstn v (Conc.trace conf))) t = [7%Z; zn j; zn k] ->
  forall d u, v < d -> nth_error (Conc.trace conf) d = Some (u, ev_dispose p) ->
  exists i e, v < i < d /\ nth_error (Conc.trace conf) i = Some (t, e) /\ releasesD j e.
Proof.
  intros HD fuel c ths conf Hr H4 Ho Ht Hg Hn Hnd.
  apply (dhp_guarded_ptr_live_of_disc fuel c ths conf Hr H4 Ho Ht Hn Hnd).
  apply (HD fuel c ths conf Hr); [|exact Hg]. exact (dhp_flbad_false fuel c ths conf H4 Ho Ht Hn Hr).
Qed.
